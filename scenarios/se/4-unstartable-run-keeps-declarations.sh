#!/bin/bash
# C14 / C01: a run that could not even start a target's script (its .do file is for a moment
# a directory) must not lose what the last complete build declared: after the .do file is put
# back untouched (rename: same inode, same mtime), a redo-always target is rebuilt by the next
# top-level run, a redo-ifcreate target after its path appears, and a plain target after its
# source changes.  (zap_deps1 has flagged the old edges delete_me=1 in the aborted run; they are
# still what the dirtiness walk has to read.)
BIN=${1:?usage: $0 <bin-dir>}
BIN=$(cd "$BIN" && pwd)
for v in $(env | sed -n 's/^\(REDO_[A-Za-z_]*\)=.*/\1/p'); do unset "$v"; done
unset MAKEFLAGS
export PATH="$BIN:$PATH"
P=$(mktemp -d)
trap 'rm -rf "$P"' EXIT
cd "$P"
cat > V.do <<'X'
echo start >> V.runs
redo-always
echo hi
X
cat > W.do <<'X'
echo start >> W.runs
if [ -e watched ]; then redo-ifchange watched; else redo-ifcreate watched; fi
echo hi
X
cat > S.do <<'X'
echo start >> S.runs
redo-ifchange src
cat src
X
echo one > src
runs() { [ -f "$1" ] && wc -l < "$1" | tr -d ' ' || echo 0; }
q() { "$@" > out.log 2>&1; }
q redo-ifchange V W S || { echo "unexpected failure"; cat out.log; exit 2; }
for t in V W S; do mv $t.do $t.do.keep; mkdir $t.do; done
q redo-ifchange V && { echo "expected the run with V.do a directory to fail"; exit 2; }
q redo-ifchange W && { echo "expected the run with W.do a directory to fail"; exit 2; }
q redo-ifchange S && { echo "expected the run with S.do a directory to fail"; exit 2; }
for t in V W S; do rmdir $t.do; mv $t.do.keep $t.do; done
: > watched; echo two > src
q redo-ifchange V W S || { echo "unexpected failure after the .do files were put back"; cat out.log; exit 2; }
viol=0
echo "V started $(runs V.runs) times (expected 2), W $(runs W.runs) (expected 2), S $(runs S.runs) (expected 2), S=$(cat S)"
[ "$(runs V.runs)" = 2 ] || { echo "VIOLATION: redo-always target not rebuilt by a top-level run that needed it"; viol=1; }
[ "$(runs W.runs)" = 2 ] || { echo "VIOLATION: redo-ifcreate target not rebuilt after the watched path appeared"; viol=1; }
[ "$(cat S)" = two ] || { echo "VIOLATION: stale target at exit 0"; viol=1; }
exit $viol
