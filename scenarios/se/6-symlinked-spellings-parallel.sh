#!/bin/sh
# C09 demo: one command names the same target twice, once through a symbolic
# link to its directory, while a job slot is free (-j2).  Every redo process
# must end with a defined exit status and a build whose scripts all succeed
# must exit 0; it must not abort on an internal assertion (exit 101,
# "panicked").
#
# usage: demo.sh BINDIR      (BINDIR holds redo, redo-ifchange, redo-log, ...)
# exit 0: property held;  exit 1: violated;  exit 2: scenario could not be set up
BIN=$(cd "$1" && pwd) || exit 2
for v in $(env | sed -n 's/^\(REDO[A-Za-z0-9_]*\)=.*/\1/p'); do unset "$v"; done
unset MAKEFLAGS RUST_BACKTRACE
PATH=$BIN:$PATH; export PATH

W=$(mktemp -d) || exit 2
cd "$W" || exit 2
mkdir sub || exit 2
ln -s sub ld || exit 2          # ld/x and sub/x are the same file
cat >sub/x.do <<'EOT'
echo "x.do runs" >&2
echo run >>x.runs
sleep 1
echo x
EOT
cat >all.do <<'EOT'
# inside a script: redo-ifchange with both spellings
redo-ifchange sub/y ld/y
EOT
cat >sub/y.do <<'EOT'
echo run >>y.runs
sleep 1
echo y
EOT

bad=0
run() {   # run LABEL cmd...   -> sets rc, prints output
    label=$1; shift
    setsid -w sh -c 'echo $$ >pgid; exec timeout -s KILL 60 "$@"' sh "$@" >out.txt 2>&1
    rc=$?
    kill -9 -"$(cat pgid)" 2>/dev/null
    echo "--- $label: exit status $rc"
    sed 's/^/    /' out.txt | head -40
    if [ "$rc" -ne 0 ]; then
        echo "VIOLATION: $label exited $rc although every script succeeds"
        bad=1
    fi
    if grep -q 'panicked' out.txt; then
        echo "VIOLATION: $label aborted on an internal assertion"
        bad=1
    fi
}

# 1. the top-level command itself, with a free job slot
run "redo -j2 sub/x ld/x" redo -j2 sub/x ld/x
n=$(wc -l <sub/x.runs 2>/dev/null || echo 0)
echo "    x.do ran $n time(s)"
[ "$n" -eq 1 ] || { echo "VIOLATION: x.do ran $n times for one command"; bad=1; }

# 2. the same inside a script (redo-ifchange sub/y ld/y in all.do)
run "redo -j2 all" redo -j2 all
n=$(wc -l <sub/y.runs 2>/dev/null || echo 0)
echo "    y.do ran $n time(s)"
[ "$n" -eq 1 ] || { echo "VIOLATION: y.do ran $n times for one command"; bad=1; }

# 3. serial build for comparison (only one slot: the second spelling is looked
#    at after the first job has finished)
rm -f sub/x.runs
run "redo -j1 ld/x sub/x" redo -j1 ld/x sub/x
n=$(wc -l <sub/x.runs 2>/dev/null || echo 0)
echo "    x.do ran $n time(s)"
[ "$n" -eq 1 ] || { echo "VIOLATION: x.do ran $n times for one command"; bad=1; }

sleep 1.5   # let an orphaned script (if any) finish before the directory goes
cd /; rm -rf "$W"
if [ $bad -eq 0 ]; then echo "OK: every command exited 0, no abort, each script ran once"; fi
exit $bad
