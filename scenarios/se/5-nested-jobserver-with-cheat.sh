#!/bin/sh
# C08 demo: job tokens are conserved when a build contains a nested
# "redo -jN" (a sub-jobserver) and a job of the outer build borrows a slot
# ("cheats") while it is followed by the log viewer.
#
# usage: demo.sh BINDIR      (BINDIR holds redo, redo-ifchange, redo-log, ...)
# exit 0: property held;  exit 1: violated;  exit 2: scenario could not be set up
BIN=$(cd "$1" && pwd) || exit 2
for v in $(env | sed -n 's/^\(REDO[A-Za-z0-9_]*\)=.*/\1/p'); do unset "$v"; done
unset MAKEFLAGS
PATH=$BIN:$PATH; export PATH

W=$(mktemp -d) || exit 2
cd "$W" || exit 2

# Outer build: redo -j2 all  ->  all: redo-ifchange p o o2
#  p   asks for L, which another redo invocation (started first) is building
#      for 3 more seconds.  While p's redo-ifchange waits for L's lock it gives
#      its token back; o2 takes it.  When L is released no token is left, p is
#      the job the log viewer follows, so p's redo-ifchange borrows a slot and
#      on exit announces it with one byte in the cheat pipe.  p's script then
#      goes on for 5 s, so the byte stays there until p's parent reaps p.
#  o   after 6 s runs a nested "redo -j2 triv" (a jobserver of its own, with
#      its own token pipe), which reaps its one job and then checks its token
#      count while that byte is still pending.
#  o2  just keeps the second outer token busy for 10 s.
# Expected: each jobserver ends with the tokens it started with; exit 0.
cat >all.do <<'EOT'
redo-ifchange p o o2
EOT
cat >p.do <<'EOT'
redo-ifchange L
sleep 6
echo p
EOT
cat >o.do <<'EOT'
sleep 6
redo -j2 triv
echo o
EOT
cat >o2.do <<'EOT'
sleep 10
echo o2
EOT
cat >triv.do <<'EOT'
echo triv
EOT
cat >L.do <<'EOT'
sleep 3
echo L
EOT

# the other invocation that holds L's lock
setsid -w sh -c 'echo $$ >ext.pgid; exec timeout -s KILL 60 redo L' >ext.out 2>&1 &
EXT=$!
sleep 0.7

setsid -w sh -c 'echo $$ >main.pgid; exec timeout -s KILL 60 redo -j2 all' >main.out 2>&1 &
MAIN=$!
wait $MAIN; rc=$?
wait $EXT; rce=$?
# no stragglers
kill -9 -"$(cat main.pgid)" 2>/dev/null; kill -9 -"$(cat ext.pgid)" 2>/dev/null

echo "--- output of 'redo -j2 all' (exit status $rc; the other 'redo L' exited $rce)"
cat main.out
echo "---"
bad=0
if grep -q 'expected [0-9]* tokens' main.out; then
    echo "VIOLATION: a jobserver self check found a wrong number of tokens:"
    grep 'expected [0-9]* tokens' main.out | sed 's/^/    /'
    bad=1
fi
if [ "$rc" -ne 0 ]; then
    echo "VIOLATION: all scripts succeed, yet 'redo -j2 all' exited $rc"
    bad=1
fi
for f in p o o2 triv L; do
    [ -e "$f" ] || { echo "note: target $f was not built"; }
done
cd /; rm -rf "$W"
if [ $bad -eq 0 ]; then echo "OK: tokens conserved (both jobservers passed their self check, exit 0)"; fi
exit $bad
