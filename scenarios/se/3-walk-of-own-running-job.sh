#!/bin/bash
# C07: the result of `redo -j2 all` must equal that of `redo -j1 all`.
#   all.do: redo-ifchange x b y      (ONE redo-ifchange command for all three)
#   y depends on x; x has an optional source o (redo-ifchange o if present, else redo-ifcreate o);
#   b is independent and faster than x.
# Edit: o is removed.  Serial: x is rebuilt ("none"), then y is rebuilt from it.
bin=$(cd "$1" && pwd) || exit 2
for v in $(env | grep -o '^REDO_[A-Z_]*'); do unset "$v"; done; unset MAKEFLAGS
export PATH="$bin:$PATH"
P=$(mktemp -d) || exit 2; trap 'rm -rf "$P"' EXIT; cd "$P" || exit 2
mkdir .redo
export TRACE="$P/trace"; : > "$TRACE"
cat > all.do <<'X'
redo-ifchange x b y
X
cat > x.do <<'X'
echo x >> "$TRACE"
if [ -e o ]; then redo-ifchange o; cat o; else redo-ifcreate o; echo none; fi
sleep 1.5
X
cat > y.do <<'X'
echo y >> "$TRACE"
redo-ifchange x
echo "y made from x=$(cat x)"
X
cat > b.do <<'X'
echo b >> "$TRACE"
redo-ifchange bsrc
sleep 0.5
cat bsrc
X
show() { echo "x=[$(cat x)] y=[$(cat y)] b=[$(cat b)]"; }
echo b1 > bsrc; echo 1 > o
redo -j2 all >/dev/null 2>&1 || exit 2
# serial control: remove o, touch b's source, build at -j1
rm o; echo b2 > bsrc; : > "$TRACE"; redo -j1 all >/dev/null 2>&1; rcs=$?; ts=$(sort "$TRACE" | tr '\n' ' '); cs=$(show)
# back to the start
echo 1 > o; echo b1 > bsrc; redo -j1 all >/dev/null 2>&1 || exit 2
# the same edit, built at -j2
rm o; echo b2 > bsrc; : > "$TRACE"; redo -j2 all >/dev/null 2>&1; rcp=$?; tp=$(sort "$TRACE" | tr '\n' ' '); cp=$(show)
: > "$TRACE"; redo-ifchange all 2>/dev/null; rc3=$?; t3=$(sort "$TRACE" | tr '\n' ' '); c3=$(show); ood=$(redo-ood | tr '\n' ' ')
echo "all -> {x, b, y}, y -> x -> (optional source o); o removed and bsrc edited, then 'redo all'"
echo "as at -j1:                     rc=$rcs ran: $ts -> $cs"
echo "observed at -j2:               rc=$rcp ran: $tp -> $cp"
echo "then serial redo-ifchange all: rc=$rc3 ran: ${t3:-nothing} -> $c3   redo-ood: ${ood:-nothing}"
if [ "$rcp" != "$rcs" ] || [ "$cp" != "$cs" ]; then echo "VIOLATION: -j2 result differs from the serial result"; exit 1; fi
exit 0
