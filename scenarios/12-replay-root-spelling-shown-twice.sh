#!/bin/bash
# C18: `redo-log -r ./c t`: c, named on the command line as ./c and mentioned in t's log as c,
# must be shown once; "resumed" lines carry the name of the header.
BIN=${1:?usage: $0 <bin-dir>}
BIN=$(cd "$BIN" && pwd)
for v in $(env | sed -n 's/^\(REDO_[A-Za-z_]*\)=.*/\1/p'); do unset "$v"; done
unset MAKEFLAGS
export PATH="$BIN:$PATH"
P=$(mktemp -d)
trap 'rm -rf "$P"' EXIT
cd "$P"
cat > c.do <<'X'
echo C1 >&2
echo c
X
cat > t.do <<'X'
echo A >&2
redo-ifchange c
echo B >&2
echo t
X
redo t >/dev/null 2>&1 || exit 0
out=$(redo-log -r --no-pretty --no-color --no-status ./c t | sed 's/^@@REDO:\([a-z]*\):[0-9]*:[0-9.]*@@ /\1 /')
echo "$out"
n=$(echo "$out" | grep -c '^C1$')
echo "C1 shown $n time(s), expected 1"
[ "$n" = 1 ] || { echo "VIOLATION: the log of c is shown $n times"; exit 1; }
out2=$(redo-log -r --no-pretty --no-color --no-status ./t | sed 's/^@@REDO:\([a-z]*\):[0-9]*:[0-9.]*@@ /\1 /')
echo "$out2" | grep -q '^resumed \./t$' && { echo "VIOLATION: header says 't', resumed says './t'"; exit 1; }
exit 0
