#!/bin/bash
# C01: a dependency named through a directory symlink (cur/cfg, cur -> v1) is
# recorded under the resolved name v1/cfg; after the user points cur at v2 the
# target is still considered clean.
# prelude: $1 = bin directory with the redo symlinks; fresh temp project; clean environment
BIN=${1:?usage: $0 <bin-dir>}
BIN=$(cd "$BIN" && pwd)
for v in $(env | sed -n 's/^\(REDO_[A-Za-z_]*\)=.*/\1/p'); do unset "$v"; done
unset MAKEFLAGS
export PATH="$BIN:$PATH"
P=$(mktemp -d)
trap 'rm -rf "$P"' EXIT
cd "$P"
export TRACE="$P/TRACE"; : > "$TRACE"
trace() { tr '\n' ' ' < "$TRACE"; }
clr() { : > "$TRACE"; }
mkdir v1 v2; echo one > v1/cfg; echo two > v2/cfg; ln -s v1 cur
cat > t.do <<'X'
echo t >>$TRACE
redo-ifchange cur/cfg
cat cur/cfg
X
redo-ifchange t >/dev/null 2>&1 || exit 0
sleep 0.05; ln -sfn v2 cur; clr
ood=$(redo-ood | tr '\n' ' ')
redo-ifchange t >/dev/null 2>&1; rc=$?
echo "after cur -> v2: redo-ood=[$ood] redo-ifchange t rc=$rc ran=[$(trace)] t=$(cat t) cur/cfg=$(cat cur/cfg)"
echo "recorded sources: [$(redo-sources | tr '\n' ' ')]"
if [ $rc = 0 ] && [ "$(cat t)" != "$(cat cur/cfg)" ]; then echo "VIOLATION: exit 0 with stale t"; exit 1; fi
exit 0
