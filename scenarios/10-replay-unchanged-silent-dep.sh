#!/bin/bash
# C18: `redo-log -r -u`: after the header of an unchanged dependency whose log is empty,
# the parent's next line must stand under "resumed <parent>" (it stood under the dependency).
BIN=${1:?usage: $0 <bin-dir>}
BIN=$(cd "$BIN" && pwd)
for v in $(env | sed -n 's/^\(REDO_[A-Za-z_]*\)=.*/\1/p'); do unset "$v"; done
unset MAKEFLAGS
export PATH="$BIN:$PATH"
P=$(mktemp -d)
trap 'rm -rf "$P"' EXIT
cd "$P"
cat > c.do <<'X'
echo c
X
cat > t.do <<'X'
echo A >&2
redo-ifchange c
echo B >&2
echo t
X
redo c >/dev/null 2>&1 || exit 0
redo t >/dev/null 2>&1 || exit 0
out=$(redo-log -r -u --no-pretty --no-color --no-status t | sed 's/^@@REDO:\([a-z]*\):[0-9]*:[0-9.]*@@ /\1 /')
echo "$out"
want=$(printf 'do t\nA\ndo c\nresumed t\nB')
if [ "$out" != "$want" ]; then echo "VIOLATION: expected B under 'resumed t'"; exit 1; fi
exit 0
