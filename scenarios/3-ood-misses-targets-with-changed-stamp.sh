#!/bin/bash
# C17: redo-ood (and redo-targets) skip every generated file whose recorded stamp
# differs from the file on disk in anything but mtime/size, although
# redo-ifchange rebuilds exactly those files.
#  (a) a project copied with cp -a (new inode numbers, same mtime and size)
#  (b) a target that is a symlink to a source, after the source was edited
# prelude: $1 = bin directory with the redo symlinks; fresh temp project; clean environment
BIN=${1:?usage: $0 <bin-dir>}
BIN=$(cd "$BIN" && pwd)
for v in $(env | sed -n 's/^\(REDO_[A-Za-z_]*\)=.*/\1/p'); do unset "$v"; done
unset MAKEFLAGS
export PATH="$BIN:$PATH"
P=$(mktemp -d)
trap 'rm -rf "$P"' EXIT
cd "$P"
export TRACE="$P/TRACE"; : > "$TRACE"
trace() { tr '\n' ' ' < "$TRACE"; }
clr() { : > "$TRACE"; }
viol=0
mkdir "$P/orig"; cd "$P/orig"
cat > all.do <<'X'
echo all >>$TRACE
redo-ifchange a b
X
for x in a b; do cat > $x.do <<'X'
echo $1 >>$TRACE
redo-ifchange s
cat s
X
done
echo 1 > s
redo-ifchange all >/dev/null 2>&1 || exit 0
[ -z "$(redo-ood)" ] || exit 0
cp -a "$P/orig" "$P/copy"; cd "$P/copy"; clr
ood=$(redo-ood | sort | tr '\n' ' '); tg=$(redo-targets | sort | tr '\n' ' '); src=$(redo-sources | sort | tr '\n' ' ')
echo "(a) in the copy: redo-ood=[$ood] redo-targets=[$tg] redo-sources=[$src]"
redo-ifchange a >/dev/null 2>&1; ran=$(trace); echo "(a) redo-ifchange a ran: [$ran]"
case " $ran" in *" a "*) case " $ood" in *" a "*) ;; *) echo "VIOLATION: redo-ifchange a rebuilt a, but redo-ood did not list a (and redo-targets calls it a source)"; viol=1;; esac;; esac

mkdir "$P/lnk"; cd "$P/lnk"; clr
cat > l.do <<'X'
echo l >>$TRACE
redo-ifchange src
ln -s src $3
X
cat > top.do <<'X'
echo top >>$TRACE
redo-ifchange l
cat l
X
echo v1 > src
redo-ifchange top >/dev/null 2>&1 || exit 0
[ -z "$(redo-ood)" ] || exit 0
sleep 0.05; echo v2-longer > src; clr
ood=$(redo-ood | sort | tr '\n' ' '); tg=$(redo-targets | sort | tr '\n' ' ')
echo "(b) after editing src: redo-ood=[$ood] redo-targets=[$tg]"
redo-ifchange l >/dev/null 2>&1; ran=$(trace); echo "(b) redo-ifchange l ran: [$ran]"
case " $ran" in *" l "*) case " $ood" in *" l "*) ;; *) echo "VIOLATION: redo-ifchange l rebuilt l, but redo-ood did not list l"; viol=1;; esac;; esac
exit $viol
