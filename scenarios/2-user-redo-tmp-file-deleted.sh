#!/bin/bash
# C11: a user file that happens to be called <target>.redo.tmp is deleted by
# building <target>, before the script even starts (also when the script then fails).
# prelude: $1 = bin directory with the redo symlinks; fresh temp project; clean environment
BIN=${1:?usage: $0 <bin-dir>}
BIN=$(cd "$BIN" && pwd)
for v in $(env | sed -n 's/^\(REDO_[A-Za-z_]*\)=.*/\1/p'); do unset "$v"; done
unset MAKEFLAGS
export PATH="$BIN:$PATH"
P=$(mktemp -d)
trap 'rm -rf "$P"' EXIT
cd "$P"
export TRACE="$P/TRACE"; : > "$TRACE"
trace() { tr '\n' ' ' < "$TRACE"; }
clr() { : > "$TRACE"; }
cat > default.txt.do <<'X'
echo generated
X
cat > bad.txt.do <<'X'
exit 7
X
viol=0
echo precious > foo.txt.redo.tmp
redo-ifchange foo.txt >/dev/null 2>&1; echo "redo-ifchange foo.txt rc=$?"
[ -e foo.txt.redo.tmp ] || { echo "VIOLATION: user file foo.txt.redo.tmp is gone"; viol=1; }
echo precious > bad.txt.redo.tmp
redo-ifchange bad.txt >/dev/null 2>&1; echo "redo-ifchange bad.txt rc=$? (script fails)"
[ -e bad.txt.redo.tmp ] || { echo "VIOLATION: user file bad.txt.redo.tmp is gone (failed build)"; viol=1; }
exit $viol
