#!/bin/bash
# C09: `redo -j1000` (the largest value the option check accepts) with about a thousand runnable targets
# aborts with "fd must be in the range 0..FD_SETSIZE" (exit 101): every running job keeps one pipe fd open
# in the parent, and the event loop puts them into a select() FdSet.  ~1000 scripts are abandoned.
# Needs RLIMIT_NOFILE > ~1100 (with the traditional 1024 the run fails with EMFILE instead).
# usage: 7-j1000-fdset-panic.sh BINDIR ; exit 1 = violation shown, 0 = not shown
BIN=${1:?usage: $0 BINDIR}; export PATH="$BIN:$PATH"
for v in $(env | grep -o '^REDO_[A-Z_]*'); do unset $v; done; unset MAKEFLAGS MFLAGS MAKELEVEL
P=$(mktemp -d); cd "$P" || exit 2
cleanup() { cd /; for p in /proc/[0-9]*; do c=$(readlink $p/cwd 2>/dev/null) || continue; case "$c" in "$P"|"$P"/*) [ ${p#/proc/} != $$ ] && kill -9 ${p#/proc/} 2>/dev/null;; esac; done; rm -rf "$P"; }
trap cleanup EXIT
# traced NAME SECONDS : a .do that records S(tart)/E(nd) of its whole execution in $P/trace
traced() {
cat > $1.do <<END
echo "S $1 \$\$ \$(date +%s.%N)" >> $P/trace
sleep $2
echo "E $1 \$\$ \$(date +%s.%N)" >> $P/trace
echo $1-output
END
}
# overlap_report : print executions per target and overlaps; exit status 1 if two executions of one target overlap
overlap_report() {
python3 - "$P/trace" <<'PY'
import sys
ev=[]
for l in open(sys.argv[1]):
    k,n,pid,t=l.split(); ev.append((float(t),k,n,pid))
ev.sort(); t0=ev[0][0]; run={}; bad=0; cnt={}
for t,k,n,pid in ev:
    print("  t=%5.2f %s %s (sh pid %s)"%(t-t0,"start" if k=='S' else "end  ",n,pid))
    if k=='S':
        cnt[n]=cnt.get(n,0)+1
        if run.get(n): print("  ** OVERLAP: %s.do started while execution(s) %s of %s.do still running"%(n,sorted(run[n]),n)); bad=1
        run.setdefault(n,set()).add(pid)
    else: run.get(n,set()).discard(pid)
print("executions per target:",cnt)
sys.exit(bad)
PY
}
if [ "$(ulimit -n)" -lt 1200 ]; then ulimit -n 4096 2>/dev/null || { echo "SKIP: cannot raise ulimit -n"; exit 0; }; fi
printf 'sleep 15\necho $1\n' > default.w.do
T=$(for i in $(seq 1 1050); do echo -n "$i.w "; done)
timeout 120 redo --no-log -j1000 $T > out.txt 2>&1; rc=$?
echo "redo --no-log -j1000 1.w ... 1050.w -> rc=$rc"; grep -v '^redo  *[0-9]*\.w$' out.txt | grep -v '^ *[0-9]*:\|^ *at ' | cut -c1-200 | head -5
n=$(pgrep -f '^sh -e default.w.do' | while read p; do [ "$(readlink /proc/$p/cwd)" = "$P" ] && echo $p; done | wc -l); echo "scripts still running after redo exited: $n"
[ $rc = 101 ] && { echo "VIOLATION: redo aborted with a panic (exit 101)"; exit 1; }
exit 0
