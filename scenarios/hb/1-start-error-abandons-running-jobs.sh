#!/bin/bash
# C06 (and C07/C09): an error while STARTING one target makes builder::run return at once; jobs already
# running are abandoned: redo exits while slow.do is still running, slow's lock is released, its result
# is never recorded, and the next command runs slow.do a second time concurrently.
# Trigger used here: bad.do is a valid sh script whose first line is not UTF-8 (a Latin-1 comment).
# usage: 1-start-error-abandons-running-jobs.sh BINDIR ; exit 1 = violation shown, 0 = not shown
BIN=${1:?usage: $0 BINDIR}; export PATH="$BIN:$PATH"
for v in $(env | grep -o '^REDO_[A-Z_]*'); do unset $v; done; unset MAKEFLAGS MFLAGS MAKELEVEL
P=$(mktemp -d); cd "$P" || exit 2
cleanup() { cd /; for p in /proc/[0-9]*; do c=$(readlink $p/cwd 2>/dev/null) || continue; case "$c" in "$P"|"$P"/*) [ ${p#/proc/} != $$ ] && kill -9 ${p#/proc/} 2>/dev/null;; esac; done; rm -rf "$P"; }
trap cleanup EXIT
# traced NAME SECONDS : a .do that records S(tart)/E(nd) of its whole execution in $P/trace
traced() {
cat > $1.do <<END
echo "S $1 \$\$ \$(date +%s.%N)" >> $P/trace
sleep $2
echo "E $1 \$\$ \$(date +%s.%N)" >> $P/trace
echo $1-output
END
}
# overlap_report : print executions per target and overlaps; exit status 1 if two executions of one target overlap
overlap_report() {
python3 - "$P/trace" <<'PY'
import sys
ev=[]
for l in open(sys.argv[1]):
    k,n,pid,t=l.split(); ev.append((float(t),k,n,pid))
ev.sort(); t0=ev[0][0]; run={}; bad=0; cnt={}
for t,k,n,pid in ev:
    print("  t=%5.2f %s %s (sh pid %s)"%(t-t0,"start" if k=='S' else "end  ",n,pid))
    if k=='S':
        cnt[n]=cnt.get(n,0)+1
        if run.get(n): print("  ** OVERLAP: %s.do started while execution(s) %s of %s.do still running"%(n,sorted(run[n]),n)); bad=1
        run.setdefault(n,set()).add(pid)
    else: run.get(n,set()).discard(pid)
print("executions per target:",cnt)
sys.exit(bad)
PY
}
traced slow 3
printf '# caf\xe9 (latin-1 comment)\necho bad-output\n' > bad.do
s=$(date +%s.%N)
timeout 30 redo --no-log -k -j3 slow bad > out1.txt 2>&1; rc=$?
el=$(echo "$(date +%s.%N) - $s" | bc)
echo "redo --no-log -k -j3 slow bad -> rc=$rc after ${el}s; output:"; sed 's/^/    /' out1.txt
still=$(pgrep -f '^sh -e slow.do' | while read p; do [ "$(readlink /proc/$p/cwd)" = "$P" ] && echo $p; done)
echo "slow.do still running after redo exited: pid ${still:-none}"
timeout 30 redo --no-log slow > out2.txt 2>&1; echo "second command 'redo slow' -> rc=$?"
sleep 1
overlap_report; ov=$?
[ -n "$still" ] && [ $ov = 1 ] && { echo "VIOLATION: two executions of slow.do overlapped (lock dropped while the script was running)"; exit 1; }
exit 0
