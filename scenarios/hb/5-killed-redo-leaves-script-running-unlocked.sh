#!/bin/bash
# C06: one redo-ifchange of a running tree is killed (SIGTERM here; SIGINT/SIGKILL behave the same).
# The .do script it had started keeps running, but its lock died with the redo process; a sibling of the
# SAME invocation then starts leaf.do again while the first execution is still running.
# usage: 5-killed-redo-leaves-script-running-unlocked.sh BINDIR ; exit 1 = violation shown, 0 = not shown
BIN=${1:?usage: $0 BINDIR}; export PATH="$BIN:$PATH"
for v in $(env | grep -o '^REDO_[A-Z_]*'); do unset $v; done; unset MAKEFLAGS MFLAGS MAKELEVEL
P=$(mktemp -d); cd "$P" || exit 2
cleanup() { cd /; for p in /proc/[0-9]*; do c=$(readlink $p/cwd 2>/dev/null) || continue; case "$c" in "$P"|"$P"/*) [ ${p#/proc/} != $$ ] && kill -9 ${p#/proc/} 2>/dev/null;; esac; done; rm -rf "$P"; }
trap cleanup EXIT
# traced NAME SECONDS : a .do that records S(tart)/E(nd) of its whole execution in $P/trace
traced() {
cat > $1.do <<END
echo "S $1 \$\$ \$(date +%s.%N)" >> $P/trace
sleep $2
echo "E $1 \$\$ \$(date +%s.%N)" >> $P/trace
echo $1-output
END
}
# overlap_report : print executions per target and overlaps; exit status 1 if two executions of one target overlap
overlap_report() {
python3 - "$P/trace" <<'PY'
import sys
ev=[]
for l in open(sys.argv[1]):
    k,n,pid,t=l.split(); ev.append((float(t),k,n,pid))
ev.sort(); t0=ev[0][0]; run={}; bad=0; cnt={}
for t,k,n,pid in ev:
    print("  t=%5.2f %s %s (sh pid %s)"%(t-t0,"start" if k=='S' else "end  ",n,pid))
    if k=='S':
        cnt[n]=cnt.get(n,0)+1
        if run.get(n): print("  ** OVERLAP: %s.do started while execution(s) %s of %s.do still running"%(n,sorted(run[n]),n)); bad=1
        run.setdefault(n,set()).add(pid)
    else: run.get(n,set()).discard(pid)
print("executions per target:",cnt)
sys.exit(bad)
PY
}
traced leaf 3
printf 'redo-ifchange leaf\necho mid\n' > mid.do
printf 'sleep 1.5\nredo-ifchange leaf\necho other\n' > other.do
( timeout 60 redo --no-log -j3 mid other > out.txt 2>&1; echo $? > rc ) &
sleep 0.7
pid=$(pgrep -f '^redo-ifchange leaf$' | while read p; do [ "$(readlink /proc/$p/cwd)" = "$P" ] && echo $p; done | head -1)
echo "killing (SIGTERM) 'redo-ifchange leaf' pid=$pid run by mid.do"; kill -TERM $pid
wait
echo "redo --no-log -j3 mid other -> rc=$(cat rc); output:"; sed 's/^/    /' out.txt
overlap_report; ov=$?
[ $ov = 1 ] && { echo "VIOLATION: leaf.do ran twice at the same time"; exit 1; }
exit 0
