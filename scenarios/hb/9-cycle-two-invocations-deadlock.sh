#!/bin/bash
# C12 (same mechanism as the known finding (a), but with TWO separate -j1 invocations instead of one
# parallel one): `redo xa` and `redo xb` started together, xa <-> xb.  Each tree holds one lock and
# blocks for ever in fcntl(F_SETLKW) on the other's; REDO_CYCLES only knows the ancestors of one tree.
# usage: 9-cycle-two-invocations-deadlock.sh BINDIR ; exit 1 = violation shown, 0 = not shown
BIN=${1:?usage: $0 BINDIR}; export PATH="$BIN:$PATH"
for v in $(env | grep -o '^REDO_[A-Z_]*'); do unset $v; done; unset MAKEFLAGS MFLAGS MAKELEVEL
P=$(mktemp -d); cd "$P" || exit 2
cleanup() { cd /; for p in /proc/[0-9]*; do c=$(readlink $p/cwd 2>/dev/null) || continue; case "$c" in "$P"|"$P"/*) [ ${p#/proc/} != $$ ] && kill -9 ${p#/proc/} 2>/dev/null;; esac; done; rm -rf "$P"; }
trap cleanup EXIT
# traced NAME SECONDS : a .do that records S(tart)/E(nd) of its whole execution in $P/trace
traced() {
cat > $1.do <<END
echo "S $1 \$\$ \$(date +%s.%N)" >> $P/trace
sleep $2
echo "E $1 \$\$ \$(date +%s.%N)" >> $P/trace
echo $1-output
END
}
# overlap_report : print executions per target and overlaps; exit status 1 if two executions of one target overlap
overlap_report() {
python3 - "$P/trace" <<'PY'
import sys
ev=[]
for l in open(sys.argv[1]):
    k,n,pid,t=l.split(); ev.append((float(t),k,n,pid))
ev.sort(); t0=ev[0][0]; run={}; bad=0; cnt={}
for t,k,n,pid in ev:
    print("  t=%5.2f %s %s (sh pid %s)"%(t-t0,"start" if k=='S' else "end  ",n,pid))
    if k=='S':
        cnt[n]=cnt.get(n,0)+1
        if run.get(n): print("  ** OVERLAP: %s.do started while execution(s) %s of %s.do still running"%(n,sorted(run[n]),n)); bad=1
        run.setdefault(n,set()).add(pid)
    else: run.get(n,set()).discard(pid)
print("executions per target:",cnt)
sys.exit(bad)
PY
}
printf 'sleep 0.5\nredo-ifchange xb\necho a\n' > xa.do
printf 'sleep 0.5\nredo-ifchange xa\necho b\n' > xb.do
( timeout 20 redo --no-log xa > o1.txt 2>&1; echo $? > rc1 ) &
( timeout 20 redo --no-log xb > o2.txt 2>&1; echo $? > rc2 ) &
wait
echo "redo xa -> rc=$(cat rc1) (124 = still running after 20 s); redo xb -> rc=$(cat rc2)"
if [ "$(cat rc1)" = 124 ] || [ "$(cat rc2)" = 124 ]; then echo "VIOLATION: cycle not reported, invocations hang"; exit 1; fi
exit 0
