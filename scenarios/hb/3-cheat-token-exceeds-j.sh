#!/bin/bash
# C08: with log capture on, one `redo -j2` invocation has 4 of ITS OWN build scripts in their
# work sections at once (allowed: j plus ONE extra for the job followed by the log viewer).
# A second invocation is only used to hold the locks of X and Y for a while.
# usage: 3-cheat-token-exceeds-j.sh BINDIR ; exit 1 = violation shown
BIN=${1:?bin dir}; export PATH="$BIN:$PATH"
for v in $(env | grep -o '^REDO_[A-Z_]*'); do unset $v; done; unset MAKEFLAGS MFLAGS
P=$(mktemp -d); cd "$P" || exit 2
cleanup() { cd /; for p in /proc/[0-9]*; do c=$(readlink $p/cwd 2>/dev/null) || continue; case "$c" in "$P"|"$P"/*) [ ${p#/proc/} != $$ ] && kill -9 ${p#/proc/} 2>/dev/null;; esac; done; rm -rf "$P"; }
trap cleanup EXIT
work() { # name seconds tracefile
cat > $1.do <<END
echo "W $1 \$(date +%s.%N)" >> $P/$3
sleep $2
echo "X $1 \$(date +%s.%N)" >> $P/$3
echo $1
END
}
work X 2 trace.other; work Y 4 trace.other; for i in 1 2 3 4; do work W$i 9 trace; done
# A is the first target of invocation 1 = the job followed by its redo-log.
cat > A.do <<END
redo-ifchange X
redo-ifchange Y
echo "W A \$(date +%s.%N)" >> $P/trace
sleep 3
echo "X A \$(date +%s.%N)" >> $P/trace
echo A
END
( timeout 60 redo --no-log -j2 X Y > out2.txt 2>&1; echo $? > rc2 ) &       # holds lock X 0..2s, lock Y 0..4s
sleep 0.5
timeout 90 redo -j2 A W1 W2 W3 W4 > out1.txt 2>&1; rc=$?
wait
echo "invocation 1: redo -j2 A W1 W2 W3 W4 -> rc=$rc   (invocation 2: redo --no-log -j2 X Y -> rc=$(cat rc2))"
python3 - "$P/trace" <<'PY'
import sys
ev=[]
for l in open(sys.argv[1]):
    k,n,t=l.split(); ev.append((float(t),k,n))
ev.sort(); t0=ev[0][0]; cur=set(); mx=0; best=None
for t,k,n in ev:
    if k=='W': cur.add(n)
    else: cur.discard(n)
    if len(cur)>mx: mx=len(cur); best=(t-t0,sorted(cur))
    print("  t=%5.2f %s %s -> working now: %s"%(t-t0,k,n,sorted(cur)))
print("max concurrent work sections of invocation 1 (-j2): %d at t=%.2fs: %s"%(mx,best[0],best[1]))
print("allowed: 2 plus one extra for the followed job = 3")
sys.exit(1 if mx>3 else 0)
PY
