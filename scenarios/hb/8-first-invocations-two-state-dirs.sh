#!/bin/bash
# C16 (and C06): two FIRST invocations on one project, started at the same time from different directories
# (`cd sub && redo x` and `redo top`, top depends on sub/x), each create their own state directory
# (sub/.redo and ./.redo).  They share no locks: sub/x.do runs twice concurrently, and one command fails with
# '"x.do" modified sub/x directly!' - a failure that is not attributable to the build scripts.  The two
# databases stay (dependency records are split between them).
# usage: 8-first-invocations-two-state-dirs.sh BINDIR ; exit 1 = violation shown, 0 = not shown
BIN=${1:?usage: $0 BINDIR}; export PATH="$BIN:$PATH"
for v in $(env | grep -o '^REDO_[A-Z_]*'); do unset $v; done; unset MAKEFLAGS MFLAGS MAKELEVEL
P=$(mktemp -d); cd "$P" || exit 2
cleanup() { cd /; for p in /proc/[0-9]*; do c=$(readlink $p/cwd 2>/dev/null) || continue; case "$c" in "$P"|"$P"/*) [ ${p#/proc/} != $$ ] && kill -9 ${p#/proc/} 2>/dev/null;; esac; done; rm -rf "$P"; }
trap cleanup EXIT
# traced NAME SECONDS : a .do that records S(tart)/E(nd) of its whole execution in $P/trace
traced() {
cat > $1.do <<END
echo "S $1 \$\$ \$(date +%s.%N)" >> $P/trace
sleep $2
echo "E $1 \$\$ \$(date +%s.%N)" >> $P/trace
echo $1-output
END
}
# overlap_report : print executions per target and overlaps; exit status 1 if two executions of one target overlap
overlap_report() {
python3 - "$P/trace" <<'PY'
import sys
ev=[]
for l in open(sys.argv[1]):
    k,n,pid,t=l.split(); ev.append((float(t),k,n,pid))
ev.sort(); t0=ev[0][0]; run={}; bad=0; cnt={}
for t,k,n,pid in ev:
    print("  t=%5.2f %s %s (sh pid %s)"%(t-t0,"start" if k=='S' else "end  ",n,pid))
    if k=='S':
        cnt[n]=cnt.get(n,0)+1
        if run.get(n): print("  ** OVERLAP: %s.do started while execution(s) %s of %s.do still running"%(n,sorted(run[n]),n)); bad=1
        run.setdefault(n,set()).add(pid)
    else: run.get(n,set()).discard(pid)
print("executions per target:",cnt)
sys.exit(bad)
PY
}
mkdir sub
cat > sub/x.do <<END
echo "S x \$\$ \$(date +%s.%N)" >> $P/trace
sleep 1
echo "E x \$\$ \$(date +%s.%N)" >> $P/trace
echo x-output
END
printf 'redo-ifchange sub/x\necho top\n' > top.do
( cd sub && timeout 30 redo --no-log x > ../outA.txt 2>&1; echo $? > ../rcA ) &
( sleep 0.2; timeout 30 redo --no-log top > outB.txt 2>&1; echo $? > rcB ) &
wait
echo "A: (cd sub && redo x)   -> rc=$(cat rcA)"; sed 's/^/    /' outA.txt
echo "B: redo top             -> rc=$(cat rcB)"; sed 's/^/    /' outB.txt
echo "state directories: $(find . -name .redo | tr '\n' ' ')"
overlap_report; ov=$?
nd=$(find . -name .redo | wc -l)
if [ $nd -gt 1 ] && { [ $ov = 1 ] || [ "$(cat rcA)" != 0 ] || [ "$(cat rcB)" != 0 ]; }; then echo "VIOLATION: two state directories; overlapping executions and/or a spurious failure"; exit 1; fi
exit 0
