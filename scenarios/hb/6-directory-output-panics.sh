#!/bin/bash
# C09: redo aborts on an internal assertion (exit 101, "panicked at src/builder.rs ... failed to remove
# temporary output file: EISDIR") when a script has made $3 a DIRECTORY and the job does not end in a
# successful rename: (a) the script succeeded but the target directory already exists and is not empty
# (= every second build of a directory target), (b) the script failed after `mkdir $3`.
# In a parallel build the panic also abandons all sibling jobs that are still running (their results are lost).
# usage: 6-directory-output-panics.sh BINDIR ; exit 1 = violation shown, 0 = not shown
BIN=${1:?usage: $0 BINDIR}; export PATH="$BIN:$PATH"
for v in $(env | grep -o '^REDO_[A-Z_]*'); do unset $v; done; unset MAKEFLAGS MFLAGS MAKELEVEL
P=$(mktemp -d); cd "$P" || exit 2
cleanup() { cd /; for p in /proc/[0-9]*; do c=$(readlink $p/cwd 2>/dev/null) || continue; case "$c" in "$P"|"$P"/*) [ ${p#/proc/} != $$ ] && kill -9 ${p#/proc/} 2>/dev/null;; esac; done; rm -rf "$P"; }
trap cleanup EXIT
# traced NAME SECONDS : a .do that records S(tart)/E(nd) of its whole execution in $P/trace
traced() {
cat > $1.do <<END
echo "S $1 \$\$ \$(date +%s.%N)" >> $P/trace
sleep $2
echo "E $1 \$\$ \$(date +%s.%N)" >> $P/trace
echo $1-output
END
}
# overlap_report : print executions per target and overlaps; exit status 1 if two executions of one target overlap
overlap_report() {
python3 - "$P/trace" <<'PY'
import sys
ev=[]
for l in open(sys.argv[1]):
    k,n,pid,t=l.split(); ev.append((float(t),k,n,pid))
ev.sort(); t0=ev[0][0]; run={}; bad=0; cnt={}
for t,k,n,pid in ev:
    print("  t=%5.2f %s %s (sh pid %s)"%(t-t0,"start" if k=='S' else "end  ",n,pid))
    if k=='S':
        cnt[n]=cnt.get(n,0)+1
        if run.get(n): print("  ** OVERLAP: %s.do started while execution(s) %s of %s.do still running"%(n,sorted(run[n]),n)); bad=1
        run.setdefault(n,set()).add(pid)
    else: run.get(n,set()).discard(pid)
print("executions per target:",cnt)
sys.exit(bad)
PY
}
printf 'mkdir $3\necho hi > $3/f\n' > outdir.do
timeout 30 redo --no-log outdir > o1.txt 2>&1; echo "1st 'redo outdir' (script succeeds) -> rc=$?"
timeout 30 redo --no-log outdir > o2.txt 2>&1; rc2=$?; echo "2nd 'redo outdir' (script succeeds again) -> rc=$rc2"; grep -v '^ *[0-9]*:\|^ *at ' o2.txt | sed 's/^/    /' | head -6
traced slow 2
printf 'mkdir $3\nexit 1\n' > faildir.do
timeout 30 redo --no-log -k -j2 slow faildir > o3.txt 2>&1; rc3=$?; echo "'redo -k -j2 slow faildir' (faildir.do fails after mkdir \$3) -> rc=$rc3"; grep -v '^ *[0-9]*:\|^ *at ' o3.txt | sed 's/^/    /' | head -6
sleep 2.5; [ -e slow ] && echo "slow was installed" || echo "slow.do ran to its end but its output was never installed (job abandoned by the panic)"
if [ $rc2 = 101 ] || [ $rc3 = 101 ]; then echo "VIOLATION: redo aborted with a panic (exit 101)"; exit 1; fi
exit 0
