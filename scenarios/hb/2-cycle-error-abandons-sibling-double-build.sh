#!/bin/bash
# C06 + C07 inside ONE invocation: `redo-ifchange slow a` (run by b.do, where a is an ancestor) starts slow,
# then hits the cyclic-dependency error for a and exits immediately: slow.do keeps running without its lock.
# A sibling (c.do) asks for slow one second later and runs slow.do a second time, concurrently.
# (This is not the known hang: nothing hangs; the cycle is entered from one member only.)
# usage: 2-cycle-error-abandons-sibling-double-build.sh BINDIR ; exit 1 = violation shown, 0 = not shown
BIN=${1:?usage: $0 BINDIR}; export PATH="$BIN:$PATH"
for v in $(env | grep -o '^REDO_[A-Z_]*'); do unset $v; done; unset MAKEFLAGS MFLAGS MAKELEVEL
P=$(mktemp -d); cd "$P" || exit 2
cleanup() { cd /; for p in /proc/[0-9]*; do c=$(readlink $p/cwd 2>/dev/null) || continue; case "$c" in "$P"|"$P"/*) [ ${p#/proc/} != $$ ] && kill -9 ${p#/proc/} 2>/dev/null;; esac; done; rm -rf "$P"; }
trap cleanup EXIT
# traced NAME SECONDS : a .do that records S(tart)/E(nd) of its whole execution in $P/trace
traced() {
cat > $1.do <<END
echo "S $1 \$\$ \$(date +%s.%N)" >> $P/trace
sleep $2
echo "E $1 \$\$ \$(date +%s.%N)" >> $P/trace
echo $1-output
END
}
# overlap_report : print executions per target and overlaps; exit status 1 if two executions of one target overlap
overlap_report() {
python3 - "$P/trace" <<'PY'
import sys
ev=[]
for l in open(sys.argv[1]):
    k,n,pid,t=l.split(); ev.append((float(t),k,n,pid))
ev.sort(); t0=ev[0][0]; run={}; bad=0; cnt={}
for t,k,n,pid in ev:
    print("  t=%5.2f %s %s (sh pid %s)"%(t-t0,"start" if k=='S' else "end  ",n,pid))
    if k=='S':
        cnt[n]=cnt.get(n,0)+1
        if run.get(n): print("  ** OVERLAP: %s.do started while execution(s) %s of %s.do still running"%(n,sorted(run[n]),n)); bad=1
        run.setdefault(n,set()).add(pid)
    else: run.get(n,set()).discard(pid)
print("executions per target:",cnt)
sys.exit(bad)
PY
}
traced slow 3
printf 'redo-ifchange b\necho a\n' > a.do
printf 'redo-ifchange slow a\necho b\n' > b.do
printf 'sleep 1\nredo-ifchange slow\necho c\n' > c.do
timeout 60 redo --no-log -j4 a c > out.txt 2>&1; rc=$?
echo "redo --no-log -j4 a c -> rc=$rc; output:"; sed 's/^/    /' out.txt
overlap_report; ov=$?
[ $ov = 1 ] && { echo "VIOLATION: slow.do executed twice in one run and the executions overlapped"; exit 1; }
exit 0
