#!/bin/bash
# C07-adjacent (the property assumes no other invocation is active; here a second, very short invocation
# runs once while the first is working): after `redo X` by a LATER invocation (higher run id), the earlier,
# still running invocation re-executes X.do on EVERY later request of X in the same run, because a rebuild
# by the older run never lowers X's changed_runid (record_new_state takes "changed_runid >= my runid" for
# "already stamped in this run") while is_dirty keeps answering "built more recently than this run".
# usage: 10-rebuild-storm-after-other-invocation.sh BINDIR ; exit 1 = violation shown, 0 = not shown
BIN=${1:?usage: $0 BINDIR}; export PATH="$BIN:$PATH"
for v in $(env | grep -o '^REDO_[A-Z_]*'); do unset $v; done; unset MAKEFLAGS MFLAGS MAKELEVEL
P=$(mktemp -d); cd "$P" || exit 2
cleanup() { cd /; for p in /proc/[0-9]*; do c=$(readlink $p/cwd 2>/dev/null) || continue; case "$c" in "$P"|"$P"/*) [ ${p#/proc/} != $$ ] && kill -9 ${p#/proc/} 2>/dev/null;; esac; done; rm -rf "$P"; }
trap cleanup EXIT
# traced NAME SECONDS : a .do that records S(tart)/E(nd) of its whole execution in $P/trace
traced() {
cat > $1.do <<END
echo "S $1 \$\$ \$(date +%s.%N)" >> $P/trace
sleep $2
echo "E $1 \$\$ \$(date +%s.%N)" >> $P/trace
echo $1-output
END
}
# overlap_report : print executions per target and overlaps; exit status 1 if two executions of one target overlap
overlap_report() {
python3 - "$P/trace" <<'PY'
import sys
ev=[]
for l in open(sys.argv[1]):
    k,n,pid,t=l.split(); ev.append((float(t),k,n,pid))
ev.sort(); t0=ev[0][0]; run={}; bad=0; cnt={}
for t,k,n,pid in ev:
    print("  t=%5.2f %s %s (sh pid %s)"%(t-t0,"start" if k=='S' else "end  ",n,pid))
    if k=='S':
        cnt[n]=cnt.get(n,0)+1
        if run.get(n): print("  ** OVERLAP: %s.do started while execution(s) %s of %s.do still running"%(n,sorted(run[n]),n)); bad=1
        run.setdefault(n,set()).add(pid)
    else: run.get(n,set()).discard(pid)
print("executions per target:",cnt)
sys.exit(bad)
PY
}
cat > X.do <<END
echo "S X \$\$ \$(date +%s.%N) run=\$REDO_RUNID" >> $P/trace
sleep 0.05
echo x
END
cat > default.y.do <<'END'
sleep 0.3
redo-ifchange X
echo $1
END
echo 'redo-ifchange 1.y 2.y 3.y 4.y 5.y 6.y 7.y 8.y' > all.do
( timeout 60 redo --no-log -j2 all > o1.txt 2>&1; echo $? > rc1 ) &
sleep 0.5
timeout 60 redo --no-log X > o2.txt 2>&1; echo "second invocation 'redo X' -> rc=$? (finished)"
wait
echo "first invocation 'redo -j2 all' -> rc=$(cat rc1)"
awk '{print $5}' trace | sort | uniq -c | sed 's/^/    executions of X.do in /'
first=$(awk '{print $5}' trace | sort | uniq -c | sort -k2 | head -1 | awk '{print $1}')
[ "$first" -gt 2 ] && { echo "VIOLATION: X.do executed $first times within one run of the first invocation"; exit 1; }
exit 0
