#!/bin/bash
# C08: a redo running under an inherited (GNU make style) jobserver leaves MORE tokens in the
# parent's pipe than it took: the followed job "cheats" once per lock wait and each phantom token
# is later written into the parent's pipe as if it were real.
# The harness plays make -j2: token pipe preloaded with 1 token; a helper thread plays "make's other
# jobs": it takes every token that becomes available, keeps it 7 s, and puts it back.
# usage: 4-inherited-jobserver-gains-tokens.sh BINDIR ; exit 1 = violation shown
BIN=${1:?bin dir}; export PATH="$BIN:$PATH"
for v in $(env | grep -o '^REDO_[A-Z_]*'); do unset $v; done; unset MAKEFLAGS MFLAGS
P=$(mktemp -d); cd "$P" || exit 2
cleanup() { cd /; for p in /proc/[0-9]*; do c=$(readlink $p/cwd 2>/dev/null) || continue; case "$c" in "$P"|"$P"/*) [ ${p#/proc/} != $$ ] && kill -9 ${p#/proc/} 2>/dev/null;; esac; done; rm -rf "$P"; }
trap cleanup EXIT
for t in X:2 Y:4 Z:6; do printf 'sleep %s\necho %s\n' ${t#*:} ${t%:*} > ${t%:*}.do; done
cat > A.do <<'END'
redo-ifchange X
redo-ifchange Y
redo-ifchange Z
sleep 1
echo A
END
# an independent invocation (own jobserver) holds the locks of X (2s), Y (4s), Z (6s)
( timeout 60 redo --no-log -j3 X Y Z > out2.txt 2>&1 ) &
sleep 0.5
python3 - "$P" <<'PY'
import os,sys,subprocess,fcntl,select,threading,time,signal
proj=sys.argv[1]; N=1
r,w=os.pipe(); R=fcntl.fcntl(r,fcntl.F_DUPFD,200); W=fcntl.fcntl(w,fcntl.F_DUPFD,201); os.close(r); os.close(w)
os.set_inheritable(R,True); os.set_inheritable(W,True)
os.write(W,b'+'*N)
env=dict(os.environ); env['MAKEFLAGS']=' -j --jobserver-auth=%d,%d --jobserver-fds=%d,%d'%(R,W,R,W)
taken=[0]; returned=[0]; stop=[False]
def other_jobs():      # "make's other jobs": use any available token for 7 s, then give it back
    def give_back():
        time.sleep(7); os.write(W,b'+'); returned[0]+=1
    while not stop[0]:
        rl,_,_=select.select([R],[],[],0.05)
        if rl and not stop[0]:
            fl=fcntl.fcntl(R,fcntl.F_GETFL); fcntl.fcntl(R,fcntl.F_SETFL,fl|os.O_NONBLOCK)
            try:
                if os.read(R,1): taken[0]+=1; threading.Thread(target=give_back,daemon=True).start()
            except BlockingIOError: pass
            fcntl.fcntl(R,fcntl.F_SETFL,fl)
th=threading.Thread(target=other_jobs,daemon=True); th.start()
p=subprocess.Popen(['redo','A'],cwd=proj,env=env,pass_fds=(R,W),stdout=open(os.path.join(proj,'out1.txt'),'wb'),stderr=subprocess.STDOUT)
try: rc=p.wait(timeout=80)
except subprocess.TimeoutExpired: p.kill(); rc='TIMEOUT'
stop[0]=True; th.join()
while returned[0]<taken[0]: time.sleep(0.2)     # all "other jobs" have given their token back
time.sleep(0.3)
fl=fcntl.fcntl(R,fcntl.F_GETFL); fcntl.fcntl(R,fcntl.F_SETFL,fl|os.O_NONBLOCK)
left=0
try:
    while True:
        b=os.read(R,4096)
        if not b: break
        left+=len(b)
except BlockingIOError: pass
print("redo A (log capture on, inherited jobserver) -> rc=%s"%rc)
print("tokens in the parent's pipe before: %d, after redo exited and all other jobs returned theirs: %d (others took %d, returned %d)"%(N,left,taken[0],returned[0]))
sys.exit(1 if left!=N else 0)
PY
rc=$?
wait
exit $rc
