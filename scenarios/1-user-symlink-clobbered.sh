#!/bin/bash
# C11: a user-made symlink (dangling, or pointing to a directory) whose name is
# matched by a default rule is replaced by generated output.
# prelude: $1 = bin directory with the redo symlinks; fresh temp project; clean environment
BIN=${1:?usage: $0 <bin-dir>}
BIN=$(cd "$BIN" && pwd)
for v in $(env | sed -n 's/^\(REDO_[A-Za-z_]*\)=.*/\1/p'); do unset "$v"; done
unset MAKEFLAGS
export PATH="$BIN:$PATH"
P=$(mktemp -d)
trap 'rm -rf "$P"' EXIT
cd "$P"
export TRACE="$P/TRACE"; : > "$TRACE"
trace() { tr '\n' ' ' < "$TRACE"; }
clr() { : > "$TRACE"; }
cat > default.txt.do <<'X'
echo "gen:$1" >>$TRACE
echo generated
X
viol=0
# (a) dangling symlink made by the user, never known to redo
ln -s not-there-yet a.txt
redo-ifchange a.txt >/dev/null 2>&1; echo "a.txt: rc=$? now: $(stat -c %F a.txt)"
[ -L a.txt ] || { echo "VIOLATION: user's dangling symlink a.txt was replaced by a generated file"; viol=1; }
# (b) user symlink to a directory full of user data
mkdir data; echo keep > data/k
ln -s data b.txt
redo-ifchange b.txt >/dev/null 2>&1; echo "b.txt: rc=$? now: $(stat -c %F b.txt)"
[ -L b.txt ] || { echo "VIOLATION: user's symlink b.txt -> data was replaced by a generated file"; viol=1; }
# (c) a generated target that the user replaced by a symlink to a directory:
#     the override IS noticed (warning printed) and the link is clobbered all the same
redo-ifchange c.txt >/dev/null 2>&1
rm c.txt; ln -s data c.txt
redo-ifchange c.txt 2>&1 | grep -i 'you modified it' 
echo "c.txt: now: $(stat -c %F c.txt)"
[ -L c.txt ] || { echo "VIOLATION: hand-made replacement c.txt -> data was overwritten after the override warning"; viol=1; }
# (d) a rule that writes no output DELETES the user's symlinks
cat > default.chk.do <<'X'
echo "chk:$1" >>$TRACE
true
X
ln -s data d.chk; ln -s not-there-yet e.chk
redo-ifchange d.chk e.chk >/dev/null 2>&1; echo "d.chk e.chk: rc=$? now: $(ls -d d.chk e.chk 2>&1 | tr '\n' ' ')"
[ -L d.chk ] || { echo "VIOLATION: user's symlink d.chk -> data was removed"; viol=1; }
[ -L e.chk ] || { echo "VIOLATION: user's dangling symlink e.chk was removed"; viol=1; }
[ "$(cat data/k)" = keep ] || { echo "data/k damaged"; viol=1; }
echo "scripts run: $(trace)"
exit $viol
