#!/bin/bash
# C17 (read-only clause) + C01: running redo-targets / redo-ood / redo-sources in a
# sub-directory of a project that has not been built yet creates sub/.redo; later
# builds started inside sub/ use that second database, see sub/x (built from the
# top meanwhile) as a source and never rebuild it.  Without the query the very
# same history rebuilds x.
# prelude: $1 = bin directory with the redo symlinks; fresh temp project; clean environment
BIN=${1:?usage: $0 <bin-dir>}
BIN=$(cd "$BIN" && pwd)
for v in $(env | sed -n 's/^\(REDO_[A-Za-z_]*\)=.*/\1/p'); do unset "$v"; done
unset MAKEFLAGS
export PATH="$BIN:$PATH"
P=$(mktemp -d)
trap 'rm -rf "$P"' EXIT
cd "$P"
export TRACE="$P/TRACE"; : > "$TRACE"
trace() { tr '\n' ' ' < "$TRACE"; }
clr() { : > "$TRACE"; }
history() { # $1: "q" = insert the query commands
  D=$(mktemp -d "$P/h.XXXX"); cd "$D"; mkdir sub; clr
  cat > sub/x.do <<'X'
echo x >>$TRACE
redo-ifchange s
cat s
X
  echo v1 > sub/s
  [ "$1" = q ] && (cd sub && redo-targets && redo-ood && redo-sources) >/dev/null 2>&1
  redo-ifchange sub/x >/dev/null 2>&1
  sleep 0.05; echo v2 > sub/s; clr
  (cd sub && redo-ifchange x) >/dev/null 2>&1; echo "rc=$? ran=[$(trace)] x=$(cat sub/x) dirs=[$(ls -d .redo sub/.redo 2>/dev/null | tr '\n' ' ')]"
}
a=$(history n); b=$(history q)
echo "without queries: $a"; echo "with    queries: $b"
case "$a" in *"ran=[x ]"*) ;; *) exit 0;; esac
case "$b" in *"rc=0 ran=[]"*"x=v1"*) echo "VIOLATION: the query commands changed what the later build runs; sub/x is stale with exit 0"; exit 1;; esac
exit 0
