#!/bin/bash
# C17: a target that produces no file (all, test, ...) and was built successfully
# before drops out of redo-ood and redo-targets as soon as one build of it fails,
# although the next redo-ifchange of it runs its script.
# prelude: $1 = bin directory with the redo symlinks; fresh temp project; clean environment
BIN=${1:?usage: $0 <bin-dir>}
BIN=$(cd "$BIN" && pwd)
for v in $(env | sed -n 's/^\(REDO_[A-Za-z_]*\)=.*/\1/p'); do unset "$v"; done
unset MAKEFLAGS
export PATH="$BIN:$PATH"
P=$(mktemp -d)
trap 'rm -rf "$P"' EXIT
cd "$P"
export TRACE="$P/TRACE"; : > "$TRACE"
trace() { tr '\n' ' ' < "$TRACE"; }
clr() { : > "$TRACE"; }
cat > all.do <<'X'
echo all >>$TRACE
redo-ifchange b
X
cat > b.do <<'X'
echo b >>$TRACE
redo-ifchange s
grep -q ok s
cat s
X
echo ok > s
redo-ifchange all >/dev/null 2>&1 || exit 0
echo "after good build : ood=[$(redo-ood|sort|tr '\n' ' ')] targets=[$(redo-targets|sort|tr '\n' ' ')]"
sleep 0.05; echo bad > s
redo-ifchange all >/dev/null 2>&1; echo "build with bad s: rc=$?"
sleep 0.05; echo ok > s    # repaired
ood=$(redo-ood|sort|tr '\n' ' '); tg=$(redo-targets|sort|tr '\n' ' '); src=$(redo-sources|sort|tr '\n' ' ')
echo "after repair     : ood=[$ood] targets=[$tg] sources=[$src]"
clr; redo-ifchange all >/dev/null 2>&1; echo "redo-ifchange all rc=$? ran: [$(trace)]"
viol=0
if grep -qx all "$TRACE"; then
  case " $ood" in *" all "*) ;; *) echo "VIOLATION: redo-ifchange all ran all.do, but redo-ood did not list all"; viol=1;; esac
  case " $tg" in *" all "*) ;; *) echo "VIOLATION: all (generated before) is in neither redo-targets nor redo-sources"; viol=1;; esac
fi
exit $viol
