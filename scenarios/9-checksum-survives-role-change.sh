#!/bin/bash
# C01 / C03: the checksum recorded by redo-stamp survives the target's time as a
# hand-made source file.  When the generator produces the old bytes again,
# redo-stamp says "unchanged" and the consumer, built from the hand-made
# version, is left stale with exit 0.
#   history: build; generator breaks and d is gone; user writes d by hand as a
#   stopgap; generator repaired and hand-made d removed; redo-ifchange t.
# prelude: $1 = bin directory with the redo symlinks; fresh temp project; clean environment
BIN=${1:?usage: $0 <bin-dir>}
BIN=$(cd "$BIN" && pwd)
for v in $(env | sed -n 's/^\(REDO_[A-Za-z_]*\)=.*/\1/p'); do unset "$v"; done
unset MAKEFLAGS
export PATH="$BIN:$PATH"
P=$(mktemp -d)
trap 'rm -rf "$P"' EXIT
cd "$P"
export TRACE="$P/TRACE"; : > "$TRACE"
trace() { tr '\n' ' ' < "$TRACE"; }
clr() { : > "$TRACE"; }
cat > d.do <<'X'
echo d >>$TRACE
redo-ifchange in
grep -q bad in && exit 3
cat in >$3
redo-stamp <$3
X
cat > t.do <<'X'
echo t >>$TRACE
redo-ifchange d
cat d
X
echo hello > in
redo-ifchange t >/dev/null 2>&1 || exit 0;             echo "1 build:                    t=$(cat t)"
sleep 0.05; echo bad > in; rm d; clr
redo-ifchange t >/dev/null 2>&1;                        echo "2 generator broken, d gone:  rc=$? ran=[$(trace)]"
echo user > d; clr
redo-ifchange t >/dev/null 2>&1;                        echo "3 hand-made d:               rc=$? ran=[$(trace)] t=$(cat t)"
sleep 0.05; echo hello > in; rm d; clr
redo-ifchange t >/dev/null 2>&1; rc=$?;                 echo "4 repaired, hand-made d removed: rc=$rc ran=[$(trace)] d=$(cat d) t=$(cat t)"
echo "  redo-ood=[$(redo-ood | tr '\n' ' ')]"
if [ $rc = 0 ] && [ "$(cat t)" != "$(cat d)" ]; then echo "VIOLATION: exit 0, d=$(cat d) was regenerated but t=$(cat t) is stale"; exit 1; fi
exit 0
