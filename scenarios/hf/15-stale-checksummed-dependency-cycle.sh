#!/bin/sh
# finding1: a build whose scripts all succeed and whose dependency graph is acyclic at all
# times ends with "cyclic dependency detected" (exit 1) at -j1.
# p reads its dependency list from the checksummed target cfg (the usual
# `redo-ifchange $(cat list)` pattern).  First x is a dependency of p; then the
# edge is turned round (p no longer needs x, x needs p).  All inputs are declared.
BIN=$(cd "${1:?usage: $0 BIN_DIR}" && pwd) || exit 2
for v in $(env | grep -o '^REDO[A-Z_]*'); do unset "$v"; done
unset MAKEFLAGS
export PATH="$BIN:$PATH"
export REDO_LOG=0
W=$(mktemp -d)
killtree() { # kill every process whose cwd is below $W (left-overs of a hung tree)
    for _p in /proc/[0-9]*; do
        _c=$(readlink "$_p/cwd" 2>/dev/null) || continue
        [ "${_p#/proc/}" = "$$" ] && continue
        case "$_c" in "$W"*) kill -9 "${_p#/proc/}" 2>/dev/null;; esac
    done
}
trap 'killtree; cd /; rm -rf "$W"' EXIT
# run SECONDS cmd...: own session, time limit (status 124 = timed out), left-overs killed
run() { _t=$1; shift; setsid -w timeout -k 2 "$_t" "$@"; _rc=$?; killtree; return $_rc; }
cd "$W"
cat > p.do <<'EOT'
redo-ifchange cfg
deps=$(grep -v '^#' cfg || true)
[ -z "$deps" ] || redo-ifchange $deps
echo "p built from: $deps"
EOT
cat > cfg.do <<'EOT'
redo-ifchange cfg.in
cat cfg.in
redo-stamp < cfg.in
EOT
cat > x.do <<'EOT'
redo-ifchange x.in
deps=$(grep -v '^#' x.in || true)
[ -z "$deps" ] || redo-ifchange $deps
echo "x built from: $deps" > $3
redo-stamp < $3
EOT
cat > all.do <<'EOT'
redo-ifchange p x
EOT
# state 1: p -> x
printf '# deps of p\nx\n' > cfg.in
printf '# deps of x\n' > x.in
run 60 redo -j1 all > log1 2>&1 || { echo "setup build failed"; cat log1; exit 2; }
# state 2: x -> p   (p no longer depends on x)
printf '# deps of p: none\n' > cfg.in
printf '# deps of x\np\n' > x.in
run 60 redo -j1 all > log2 2>&1; rc=$?
# reference: the same sources built from scratch
mkdir ref && cp *.do *.in ref/ && cd ref
run 60 redo -j1 all > ../logref 2>&1; rcref=$?
cd ..
echo "incremental build: rc=$rc; from-scratch build of the same sources: rc=$rcref"
cat log2
if [ $rcref -eq 0 ] && [ $rc -ne 0 ] && grep -qi 'cyclic dependency' log2; then
    echo "VIOLATION: acyclic project, all scripts succeed, redo -j1 reports a cyclic dependency (rc=$rc)"
    exit 1
fi
echo "no violation shown"
exit 0
