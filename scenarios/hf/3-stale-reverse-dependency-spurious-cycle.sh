#!/bin/sh
# C09 (F66, known): the same history at -j1 and -j2: the scripts are acyclic at all times and all
# succeed, so `redo all` should exit 0.  It fails once with "cyclic dependency detected" (208):
# a.do's redo-ifchange b records the edge a -> b before b is looked at; b's walk follows b's
# recorded (stale) edge b -> a into the rows of a, which is in mid-build, meets a -> b and calls
# it a cycle.  The next run succeeds (a failed, so b is dirty at once and is rebuilt without a).
BIN=$(cd "$1" && pwd) || exit 2
for v in $(env | sed -n 's/^\(REDO[A-Za-z0-9_]*\)=.*/\1/p'); do unset "$v"; done
unset MAKEFLAGS RUST_BACKTRACE
PATH=$BIN:$PATH; export PATH
bad=0
for j in 1 2; do
    W=$(mktemp -d) || exit 2
    cd "$W" || exit 2
    cat >all.do <<'EOT'
redo-ifchange a b
EOT
    cat >a.do <<'EOT'
redo-ifchange src
if [ -e a-needs-b ]; then sleep 1; redo-ifchange b; fi
cat src >$3
EOT
    cat >b.do <<'EOT'
if ! [ -e a-needs-b ]; then redo-ifchange a; fi
echo b >$3
EOT
    echo 1 >src
    REDO_LOG=0 setsid -w timeout -s KILL 30 redo -j$j all >out1 2>&1; r1=$?
    touch a-needs-b; echo 2 >src
    REDO_LOG=0 setsid -w sh -c 'echo $$ >pgid; exec timeout -s KILL 20 redo -j'$j' all' >out2 2>&1; r2=$?
    kill -9 -"$(cat pgid)" 2>/dev/null
    echo "-j$j: first build exit $r1; second build exit $r2"
    sed 's/^/    | /' out2
    if [ "$r2" -ne 0 ]; then echo "VIOLATION: scripts are acyclic and all succeed, redo -j$j all exits $r2"; bad=1; fi
    cd /; rm -rf "$W"
done
exit $bad
