#!/bin/sh
# finding2: a checksummed target whose script leaves a symbolic link loop as $3 makes the
# redo that records the result panic (exit 101, src/builder.rs:689 expect("target file stat
# failed")).  Stage 2: without redo-stamp the build fails properly (209), but the link loop
# left as the target makes every later redo / redo-ifchange of it fail before its (repaired)
# script is run.  The same script without redo-stamp is reported as an ordinary failure (209).
BIN=${1:?usage: finding2.sh BINDIR}
BIN=$(cd "$BIN" && pwd)
for v in $(env | sed -n 's/^\(REDO[A-Z_0-9]*\)=.*/\1/p'); do unset $v; done; unset MAKEFLAGS
PATH=$BIN:$PATH; export PATH
D=$(mktemp -d); cd $D
cat > x.do <<'EOF2'
ln -s x $3
echo foo | redo-stamp
EOF2
cat > y.do <<'EOF2'
ln -s y $3
EOF2
setsid -w timeout 60 redo y > outy.txt 2>&1; echo "redo y (no redo-stamp) -> rc=$? (an ordinary failure)"
setsid -w timeout 60 redo x > outx.txt 2>&1; rc=$?
echo "redo x (with redo-stamp) -> rc=$rc"
bad=0
if [ $rc = 101 ] || grep -q panicked outx.txt; then
  grep -A1 panicked outx.txt | cut -c1-200
  echo "VIOLATION (C09): redo aborted on an internal expect() while recording x"; bad=1
fi
# stage 2 (C05): the failed target y is a link loop now; repair y.do and run again
echo 'echo fixed > $3' > y.do
setsid -w timeout 60 redo-ifchange y > outy2.txt 2>&1; rc=$?
echo "after repairing y.do: redo-ifchange y -> rc=$rc"; tail -n 2 outy2.txt
setsid -w timeout 60 redo y > outy3.txt 2>&1; rc2=$?
echo "after repairing y.do: redo y -> rc=$rc2"; tail -n 2 outy3.txt
if [ $rc != 0 ] || [ $rc2 != 0 ] || [ "$(cat y 2>/dev/null)" != fixed ]; then
  echo "VIOLATION (C05): the failed target is never executed again (wedged until rm y)"; bad=1
fi
cd /; rm -rf $D
exit $bad
