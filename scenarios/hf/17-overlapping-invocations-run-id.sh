#!/bin/sh
# usage: findingN.sh BINDIR   (BINDIR holds redo, redo-ifchange, ... as symlinks to the redo binary)
# exit status: 1 = the violation was observed, 0 = not observed
BIN=${1:?usage: $0 BINDIR}
case "$BIN" in /*) ;; *) BIN=$(pwd)/$BIN;; esac
PATH=$BIN:$PATH; export PATH
unset MAKEFLAGS
for v in $(env | sed -n 's/^\(REDO[A-Za-z_0-9]*\)=.*/\1/p'); do unset $v; done
REDO_LOG=0; export REDO_LOG
REDO_PRETTY=0; export REDO_PRETTY
# R cmd...: run a redo command in its own session under a timeout, kill the whole group afterwards
R() {
    setsid -w timeout 60 "$@" &
    _pid=$!
    wait $_pid; _rc=$?
    /bin/kill -9 -- -$_pid 2>/dev/null
    return $_rc
}
PROJ=$(mktemp -d)
trap 'cd /; rm -rf "$PROJ"' EXIT
cd "$PROJ" || exit 99
ran() { tr '\n' ' ' < log 2>/dev/null; }

# Finding 5 (C02), two top-level invocations at the same time:
#   T -> D -> S.   S is edited, then `redo-ifchange T` (run 1) and, a moment later,
#   `redo-ifchange D` (run 2, the higher run id) overlap.
# (a) D's script is executed by both invocations although nothing changed in between.
# (b) afterwards, with nothing changed at all, `redo-ifchange T` runs T again.
cat > T.do <<'XEOF'
echo T >> log
if [ -e slow ]; then sleep 1; fi
redo-ifchange D
cat D > $3
XEOF
cat > D.do <<'XEOF'
echo D >> log
redo-ifchange S
cat S > $3
XEOF
echo 1 > S
: > log
R redo-ifchange T 2>/dev/null || { echo "first build failed"; exit 99; }
echo "first build ran: $(ran)"
sleep 0.1
echo 2 > S
: > slow
: > log
( R redo-ifchange T 2>/dev/null; echo "run 1 (redo-ifchange T): rc=$?" ) &
sleep 0.4
R redo-ifchange D 2>/dev/null; echo "run 2 (redo-ifchange D): rc=$?"
wait
rm -f slow
both=$(ran)
echo "the two overlapping invocations ran: $both   (expected: T D)"
: > log
R redo-ifchange T 2>/dev/null; rc=$?
after=$(ran)
echo "nothing changed, redo-ifchange T: rc=$rc ran: $after   (expected: nothing)"
: > log
R redo-ifchange T 2>/dev/null
echo "once more: ran: $(ran)"
bad=0
[ "$(echo $both | tr ' ' '\n' | grep -cx D)" -gt 1 ] && { echo "VIOLATION (a): D was executed twice"; bad=1; }
[ -n "$after" ] && { echo "VIOLATION (b): a build with no changes ran: $after"; bad=1; }
[ $bad = 1 ] && exit 1
echo "not observed"
exit 0
