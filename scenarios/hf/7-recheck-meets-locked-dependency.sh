#!/bin/sh
# usage: findingN.sh BINDIR   (BINDIR holds redo, redo-ifchange, ... as symlinks to the redo binary)
# exit status: 1 = the violation was observed, 0 = not observed
BIN=${1:?usage: $0 BINDIR}
case "$BIN" in /*) ;; *) BIN=$(pwd)/$BIN;; esac
PATH=$BIN:$PATH; export PATH
unset MAKEFLAGS
for v in $(env | sed -n 's/^\(REDO[A-Za-z_0-9]*\)=.*/\1/p'); do unset $v; done
REDO_LOG=0; export REDO_LOG
REDO_PRETTY=0; export REDO_PRETTY
# R cmd...: run a redo command in its own session under a timeout, kill the whole group afterwards
R() {
    setsid -w timeout 60 "$@" &
    _pid=$!
    wait $_pid; _rc=$?
    /bin/kill -9 -- -$_pid 2>/dev/null
    return $_rc
}
PROJ=$(mktemp -d)
trap 'cd /; rm -rf "$PROJ"' EXIT
cd "$PROJ" || exit 99
ran() { tr '\n' ' ' < log 2>/dev/null; }

# Finding 2 (C02 / C03), parallel only:
#   all -> T, D;   T -> D -> C;   C: redo-always + redo-stamp, content never changes (takes 1 s)
# `redo -j4 all` with nothing changed must run C only (that is what -j1 does).
# At -j4 T is rebuilt as well, although D is not rebuilt and C's checksum is unchanged.
cat > C.do <<'XEOF'
redo-always
echo C >> log
sleep 1
echo constant > $3
redo-stamp < $3
XEOF
cat > D.do <<'XEOF'
redo-ifchange C
echo D >> log
cat C > $3
XEOF
cat > T.do <<'XEOF'
redo-ifchange D
echo T >> log
cat D > $3
XEOF
cat > all.do <<'XEOF'
redo-ifchange T D
XEOF
: > log
R redo -j4 all 2>/dev/null || { echo "first build failed"; exit 99; }
echo "first build ran: $(ran)"
: > log
R redo -j1 all 2>/dev/null
echo "reference, -j1, nothing changed: ran: $(ran)   (expected: C)"
hits=0; n=10
i=0
while [ $i -lt $n ]; do
    i=$((i+1))
    : > log
    R redo -j4 all 2>err.$i; rc=$?
    echo "trial $i: -j4, nothing changed: rc=$rc ran: $(ran)"
    if grep -qx T log; then hits=$((hits+1)); fi
done
echo "T rebuilt needlessly in $hits of $n trials"
if [ $hits -gt 0 ]; then
    echo "VIOLATION: T ran although D was not rebuilt and C's checksum is unchanged"
    exit 1
fi
echo "not observed"
exit 0
