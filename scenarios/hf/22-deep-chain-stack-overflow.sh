#!/bin/sh
# finding7: checking an up-to-date chain of N targets (t1 -> t2 -> ... -> tN) overflows the
# stack of the redo process: "thread 'main' has overflowed its stack ... aborting" (SIGABRT).
# The dirtiness walk (deps.rs private_is_dirty) recurses once per level and copies the set of
# visited ids at every level.  With the debug build and the usual 8 MiB stack the limit is
# about 950 levels; N can be given as $2 (default 1200).  Deterministic.
BIN=$(cd "${1:?usage: $0 BIN_DIR}" && pwd) || exit 2
for v in $(env | grep -o '^REDO[A-Z_]*'); do unset "$v"; done
unset MAKEFLAGS
export PATH="$BIN:$PATH"
export REDO_LOG=0
W=$(mktemp -d)
killtree() { # kill every process whose cwd is below $W (left-overs of a hung tree)
    for _p in /proc/[0-9]*; do
        _c=$(readlink "$_p/cwd" 2>/dev/null) || continue
        [ "${_p#/proc/}" = "$$" ] && continue
        case "$_c" in "$W"*) kill -9 "${_p#/proc/}" 2>/dev/null;; esac
    done
}
trap 'killtree; cd /; rm -rf "$W"' EXIT
# run SECONDS cmd...: own session, time limit (status 124 = timed out), left-overs killed
run() { _t=$1; shift; setsid -w timeout -k 2 "$_t" "$@"; _rc=$?; killtree; return $_rc; }
cd "$W"
N=${2:-1200}
echo "$N" > N
cat > default.c.do <<'EOT'
n=${2#t}
next=$((n+1))
[ $next -gt $(cat N) ] || redo-ifchange t$next.c
echo $2
EOT
# build the chain bottom-up in one run (every level finds the next one built in this run)
ts=$(i=$N; while [ $i -ge 1 ]; do echo t$i.c; i=$((i-1)); done)
run 600 redo-ifchange $ts > log1 2>&1 || { echo "setup build failed"; tail -5 log1; exit 2; }
ulimit -c 0
run 120 redo-ifchange t1.c > log2 2>&1; rc=$?
echo "redo-ifchange t1.c on an up-to-date chain of $N targets (stack limit $(ulimit -s) KiB): rc=$rc"
cut -c1-200 log2 | tail -5
if grep -q 'overflowed its stack' log2 || [ $rc -ge 128 ]; then
    echo "VIOLATION: the redo process aborted (nothing had to be built; expected exit 0)"
    exit 1
fi
echo "no violation shown"
exit 0
