#!/bin/sh
# finding3: at -j2 a target's script is run although nothing it depends on changed and
# the serial build does not run it (outcome depends on the schedule).
# t3 -> t0 -> t4 (checksummed) -> s2; all.do asks for t3 and t0.  s2 changes but t4's
# output (and checksum) stays the same: only t4 has to run.  At -j2 t3 (and with it every
# consumer of t3, here "top") is run in a good part of the runs.
# Probabilistic: about 6 runs in 10 here; the script tries up to 30 times.
BIN=$(cd "${1:?usage: $0 BIN_DIR}" && pwd) || exit 2
for v in $(env | grep -o '^REDO[A-Z_]*'); do unset "$v"; done
unset MAKEFLAGS
export PATH="$BIN:$PATH"
export REDO_LOG=0
W=$(mktemp -d)
killtree() { # kill every process whose cwd is below $W (left-overs of a hung tree)
    for _p in /proc/[0-9]*; do
        _c=$(readlink "$_p/cwd" 2>/dev/null) || continue
        [ "${_p#/proc/}" = "$$" ] && continue
        case "$_c" in "$W"*) kill -9 "${_p#/proc/}" 2>/dev/null;; esac
    done
}
trap 'killtree; cd /; rm -rf "$W"' EXIT
# run SECONDS cmd...: own session, time limit (status 124 = timed out), left-overs killed
run() { _t=$1; shift; setsid -w timeout -k 2 "$_t" "$@"; _rc=$?; killtree; return $_rc; }
cd "$W"
cat > all.do <<'EOT'
redo-ifchange t3 t0
redo-ifchange top
EOT
cat > top.do <<'EOT'
redo-ifchange t3
echo top >> runs; echo top; cat t3
EOT
cat > t3.do <<'EOT'
redo-ifchange t0
echo t3 >> runs; echo t3; cat t0
EOT
cat > t0.do <<'EOT'
redo-ifchange t4
echo t0 >> runs; echo t0; cat t4
EOT
cat > t4.do <<'EOT'
redo-ifchange s2
echo t4 >> runs
sleep 0.2
echo t4 > $3
redo-stamp < $3
EOT
echo 0 > s2
run 60 redo -j2 all > log0 2>&1 || { echo "setup build failed"; cat log0; exit 2; }
# serial behaviour
echo serial > s2; : > runs
run 60 redo -j1 all > logs 2>&1 || { echo "serial build failed"; cat logs; exit 2; }
serial=$(sort runs | tr '\n' ' ')
echo "serial build after changing s2 ran: $serial"
bad=0; n=0
while [ $n -lt 30 ]; do
    n=$((n+1))
    echo "v$n" > s2; : > runs
    run 60 redo -j2 all > log.$n 2>&1 || { echo "build $n failed"; cat log.$n; exit 2; }
    par=$(sort runs | tr '\n' ' ')
    if [ "$par" != "$serial" ]; then
        bad=$((bad+1))
        [ $bad -eq 1 ] && { echo "iteration $n: redo -j2 ran: $par"; cat log.$n; }
    fi
    [ $bad -ge 3 ] && break
done
echo "$bad of $n parallel builds ran other scripts than the serial build"
if [ $bad -gt 0 ]; then
    echo "VIOLATION: set of executed scripts (and recorded state) depends on the schedule"
    exit 1
fi
echo "no violation shown"
exit 0
