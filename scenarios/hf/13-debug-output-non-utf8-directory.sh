#!/bin/sh
# finding10: `redo -d -d x` panics (paths.rs:276 Option::unwrap on None) in a project whose
# path contains a byte sequence that is not UTF-8; without -d -d the same build succeeds.
# Deterministic.
BIN=$(cd "${1:?usage: $0 BIN_DIR}" && pwd) || exit 2
for v in $(env | grep -o '^REDO[A-Z_]*'); do unset "$v"; done
unset MAKEFLAGS
export PATH="$BIN:$PATH"
export REDO_LOG=0
W=$(mktemp -d)
killtree() { # kill every process whose cwd is below $W (left-overs of a hung tree)
    for _p in /proc/[0-9]*; do
        _c=$(readlink "$_p/cwd" 2>/dev/null) || continue
        [ "${_p#/proc/}" = "$$" ] && continue
        case "$_c" in "$W"*) kill -9 "${_p#/proc/}" 2>/dev/null;; esac
    done
}
trap 'killtree; cd /; rm -rf "$W"' EXIT
# run SECONDS cmd...: own session, time limit (status 124 = timed out), left-overs killed
run() { _t=$1; shift; setsid -w timeout -k 2 "$_t" "$@"; _rc=$?; killtree; return $_rc; }
cd "$W"
d=$(printf 'd\377x'); mkdir "$d"; cd "$d"
echo 'echo hi' > a.do
run 60 redo a > ../log1 2>&1; rc1=$?
run 60 redo -d -d a > ../log2 2>&1; rc2=$?
echo "redo a: rc=$rc1; redo -d -d a: rc=$rc2"; grep -a -A1 panicked ../log2 | cut -c1-200
if grep -aq panicked ../log2; then echo "VIOLATION: redo aborted on an internal assertion"; exit 1; fi
echo "no violation shown"; exit 0
