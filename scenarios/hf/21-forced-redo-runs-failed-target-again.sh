#!/bin/sh
# usage: findingN.sh BINDIR   (BINDIR holds redo, redo-ifchange, ... as symlinks to the redo binary)
# exit status: 1 = the violation was observed, 0 = not observed
BIN=${1:?usage: $0 BINDIR}
case "$BIN" in /*) ;; *) BIN=$(pwd)/$BIN;; esac
PATH=$BIN:$PATH; export PATH
unset MAKEFLAGS
for v in $(env | sed -n 's/^\(REDO[A-Za-z_0-9]*\)=.*/\1/p'); do unset $v; done
REDO_LOG=0; export REDO_LOG
REDO_PRETTY=0; export REDO_PRETTY
# R cmd...: run a redo command in its own session under a timeout, kill the whole group afterwards
R() {
    setsid -w timeout 60 "$@" &
    _pid=$!
    wait $_pid; _rc=$?
    /bin/kill -9 -- -$_pid 2>/dev/null
    return $_rc
}
PROJ=$(mktemp -d)
trap 'cd /; rm -rf "$PROJ"' EXIT
cd "$PROJ" || exit 99
ran() { tr '\n' ' ' < log 2>/dev/null; }

# Finding 7 (C05): `redo -k x F`, x -> F, F.do fails.
# F fails as a dependency of x; the same command then executes F.do a second time
# because F is also named on the command line (the order `F x` executes it once).
cat > F.do <<'XEOF'
echo F >> log
exit 1
XEOF
cat > x.do <<'XEOF'
echo x >> log
redo-ifchange F
echo x > $3
XEOF
: > log
R redo -k x F 2>/dev/null; rc=$?
a=$(ran)
echo "redo -k x F: rc=$rc ran: $a   (expected: x F, F once)"
: > log
R redo -k F x 2>/dev/null; rc2=$?
echo "redo -k F x: rc=$rc2 ran: $(ran)"
n=$(echo $a | tr ' ' '\n' | grep -cx F)
if [ "$n" -gt 1 ]; then
    echo "VIOLATION: the failed target F was executed $n times in one run"
    exit 1
fi
echo "not observed"
exit 0
