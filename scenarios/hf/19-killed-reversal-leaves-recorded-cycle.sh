#!/bin/sh
# usage: findingN.sh BINDIR   (BINDIR holds redo, redo-ifchange, ... as symlinks to the redo binary)
# exit status: 1 = the violation was observed, 0 = not observed
BIN=${1:?usage: $0 BINDIR}
case "$BIN" in /*) ;; *) BIN=$(pwd)/$BIN;; esac
PATH=$BIN:$PATH; export PATH
unset MAKEFLAGS
for v in $(env | sed -n 's/^\(REDO[A-Za-z_0-9]*\)=.*/\1/p'); do unset $v; done
REDO_LOG=0; export REDO_LOG
REDO_PRETTY=0; export REDO_PRETTY
# R cmd...: run a redo command in its own session under a timeout, kill the whole group afterwards
R() {
    setsid -w timeout 60 "$@" &
    _pid=$!
    wait $_pid; _rc=$?
    /bin/kill -9 -- -$_pid 2>/dev/null
    return $_rc
}
PROJ=$(mktemp -d)
trap 'cd /; rm -rf "$PROJ"' EXIT
cd "$PROJ" || exit 99
ran() { tr '\n' ' ' < log 2>/dev/null; }

# Finding 4 (C02; "after earlier partial builds"): a whole-tree kill while a dependency is being
# turned round leaves both edges recorded; from then on every redo-ifchange of either target
# fails with "cyclic dependency detected" although the scripts contain no cycle.
#   without the file `flag`:  A -> B          with `flag`:  B -> A
# (both scripts declare the flag properly with redo-ifcreate / redo-ifchange)
cat > A.do <<'XEOF'
if [ -e flag ]; then
    redo-ifchange flag
    if [ -e slow ]; then sleep 5; fi
    echo A-with-flag > $3
else
    redo-ifchange B
    redo-ifcreate flag
    echo A-without-flag > $3
fi
XEOF
cat > B.do <<'XEOF'
if [ -e flag ]; then
    redo-ifchange flag A
    cat A > $3
else
    redo-ifcreate flag
    echo B-without-flag > $3
fi
XEOF
R redo-ifchange A 2>/dev/null || { echo "first build failed"; exit 99; }
sleep 0.1
: > flag
: > slow
# B is rebuilt (flag appeared), asks for A, A is rebuilt (its old dependency B is being built
# by an ancestor); the whole process group is killed while A's script sleeps.
setsid -w timeout 60 redo-ifchange B 2>/dev/null &
pid=$!
sleep 1.5
/bin/kill -9 -- -$pid
wait $pid 2>/dev/null
rm -f slow
R redo-ifchange A 2>errA.txt; rcA=$?
R redo-ifchange B 2>errB.txt; rcB=$?
echo "after the kill: redo-ifchange A: rc=$rcA   redo-ifchange B: rc=$rcB   (expected: 0 0)"
sed 's/^/    /' errA.txt errB.txt
R redo-ifchange A 2>/dev/null; rcA2=$?
echo "again: redo-ifchange A: rc=$rcA2 (it does not heal by itself)"
if [ $rcA -ne 0 ] && grep -q "cyclic dependency" errA.txt; then
    echo "VIOLATION: redo-ifchange A refuses to build A (spurious cyclic dependency); only a forced 'redo A' repairs it"
    R redo A 2>/dev/null; echo "redo A: rc=$?"; R redo-ifchange A B 2>/dev/null; echo "then redo-ifchange A B: rc=$?"
    exit 1
fi
echo "not observed"
exit 0
