#!/bin/sh
# C18: the stderr of the second run of a target inside one top-level command
# never reaches the live output (and the first run's is lost from the replay).
# usage: finding1.sh BIN_DIR ; exits 1 when the violation shows.
BIN=${1:?bin dir}
for v in $(env | grep -o '^REDO[A-Z_]*'); do unset "$v"; done; unset MAKEFLAGS
PATH=$BIN:/usr/bin:/bin; export PATH
D=$(mktemp -d) || exit 2
trap 'rm -rf "$D"' EXIT
cd "$D" || exit 2
cat > all.do <<'E'
redo-ifchange a
redo-ifchange b
E
cat > a.do <<'E'
echo "a1" >&2
redo c
echo "a2" >&2
E
cat > b.do <<'E'
echo "b1" >&2
redo c
echo "b2" >&2
E
# c is forced by `redo c` in both a.do and b.do: it legitimately runs twice.
# The second time it fails with a diagnostic.
cat > c.do <<'E'
n=$(cat count 2>/dev/null || echo 0); n=$((n+1)); echo $n > count
echo "c run $n says something important" >&2
[ $n -lt 2 ] || { echo "c run $n: FATAL diagnostic" >&2; exit 7; }
E
setsid -w timeout 60 redo -j1 all >live.out 2>live.err
echo "exit status of redo all: $?"
echo "--- live output:"; cat live.err
setsid -w timeout 60 redo-log -r all >replay.out 2>replay.err
echo "--- redo-log -r all:"; cat replay.out
rc=0
echo "--- verdict"
if [ "$(cat count)" != 2 ]; then echo "c did not run twice?"; exit 2; fi
if ! grep -q 'c run 2: FATAL diagnostic' live.err; then
  echo "VIOLATION: c ran a second time (and failed), its stderr lines are absent from the live output"; rc=1
fi
if ! grep -q 'c run 1 says' replay.out; then
  echo "VIOLATION: lines of c's first run are absent from the replay"; rc=1
fi
exit $rc
