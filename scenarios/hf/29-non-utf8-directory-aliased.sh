#!/bin/sh
# C13/C15: in a sub-directory whose NAME is not UTF-8, "redo x" does not find ./x.do
# ("no rule to redo"), and two different such directories share one database record.
BIN=$(cd "$1" && pwd) || exit 2
for v in $(env | grep -o '^REDO[A-Z_]*'); do unset $v; done
unset MAKEFLAGS
export PATH="$BIN:$PATH"
export REDO_LOG=0
export RUST_BACKTRACE=0
W=$(mktemp -d) || exit 2
trap 'cd /; rm -rf "$W"' EXIT
mkdir -p "$W/proj/.redo"   # own state dir: nothing is created above the project
cd "$W/proj" || exit 2
R() { setsid -w timeout 60 "$@"; }
d1=$(printf 'd\377'); d2=$(printf 'd\376')
mkdir "$d1" "$d2"
echo 'echo one' > "$d1/x.do"
echo 'echo two' > "$d2/x.do"
bad=0
(cd "$d1" && R redo x) 2>err1; rc1=$?
(cd "$d2" && R redo x) 2>err2; rc2=$?
echo "rc in dir1=$rc1 dir2=$rc2"; cat err1 err2
[ "$rc1" = 0 ] && [ "$(cat "$d1/x" 2>/dev/null)" = one ] || { echo "VIOLATION: $d1/x not built from its own x.do"; bad=1; }
[ "$rc2" = 0 ] && [ "$(cat "$d2/x" 2>/dev/null)" = two ] || { echo "VIOLATION: $d2/x not built from its own x.do"; bad=1; }
# the same command works when the directory name is UTF-8
mkdir ok; echo 'echo three' > ok/x.do; (cd ok && R redo x) 2>/dev/null; echo "control (utf-8 dir): rc=$? content=$(cat ok/x)"
# worse: if a directory whose name is the replacement character (U+FFFD) exists, the command run
# in d\377 succeeds -- with the OTHER directory's script
d3=$(printf 'd\357\277\275'); mkdir "$d3"; echo 'echo from-replacement-char-dir' > "$d3/x.do"
(cd "$d1" && R redo x) 2>/dev/null; rc=$?
got=$(cat "$d1/x" 2>/dev/null)
echo "with a U+FFFD directory present: rc=$rc, d\\377/x contains: '$got' (its own x.do writes 'one')"
[ "$got" = one ] || { echo "VIOLATION: built by the wrong directory's script"; bad=1; }
exit $bad
