#!/bin/sh
# C18: on a terminal, the live log viewer (redo-log -f --status, started by the
# top-level redo) panics when the status line has to shorten a target name that
# contains multi-byte characters; every later line of the build is lost.
# usage: finding2.sh BIN_DIR ; exits 1 when the violation shows.  Needs script(1).
BIN=${1:?bin dir}
for v in $(env | grep -o '^REDO[A-Z_]*'); do unset "$v"; done; unset MAKEFLAGS
PATH=$BIN:/usr/bin:/bin; export PATH
TERM=xterm; export TERM
command -v script >/dev/null 2>&1 || { echo "script(1) not available: scenario not run"; exit 0; }
D=$(mktemp -d) || exit 2
trap 'rm -rf "$D"' EXIT
cd "$D" || exit 2
# 60 times U+00E9 (2 bytes each): 120 bytes, does not fit an 80 column status line
N=$(printf '\303\251%.0s' 1 2 3 4 5 6 7 8 9 10 11 12 13 14 15 16 17 18 19 20 21 22 23 24 25 26 27 28 29 30 31 32 33 34 35 36 37 38 39 40 41 42 43 44 45 46 47 48 49 50 51 52 53 54 55 56 57 58 59 60)
cat > all.do <<E
echo "all start" >&2
redo-ifchange $N
echo "all end" >&2
E
cat > default.do <<'E'
echo "inner start" >&2
sleep 3     # the status line appears after 1 s without new lines
echo "inner end" >&2
echo x
E
cat > drive.sh <<'E'
stty cols 80 rows 24
redo all
echo "redo rc=$?"
E
setsid -w timeout 60 script -qec "sh drive.sh" typescript >/dev/null 2>&1 </dev/null
tr '\r' '\n' < typescript | grep -a -v '^ *$' | cut -c1-160 | grep -a -v '^ *[0-9]*: \|^  *at ' > shown.txt
cat -v shown.txt
grep -a -q 'redo rc=' shown.txt || { echo "no pty session could be run here: scenario not run"; exit 0; }
echo "--- verdict"
rc=0
if grep -a -q 'panicked at' shown.txt; then echo "VIOLATION: the log viewer panicked"; rc=1; fi
for l in "inner end" "all end"; do
  grep -a -q "^$l" shown.txt || { echo "VIOLATION: line '$l' written by a script never shown"; rc=1; }
done
exit $rc
