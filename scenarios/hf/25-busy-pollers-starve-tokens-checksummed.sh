#!/bin/bash
# (variant of hf/6 with a checksummed t3: since F71 only a checksummed dependency that is being rebuilt is polled for)
# finding1: a redo-ifchange that polls for a busy dependency (Started::Busy) keeps its job
# token while it polls.  At -j2, inside ONE "redo -j2 all", both tokens end up with pollers
# that wait for t3 to be finished, while t3's own redo-ifchange waits for a token: the build
# never ends (no cycle in the project, a serial build of the same state succeeds).
# usage: finding1.sh BINDIR        exit 1 = violation shown (hang), 0 = not shown
BIN=${1:?bin directory}
export PATH=$BIN:$PATH
unset MAKEFLAGS; for v in $(env | grep -o '^REDO[A-Z_]*'); do unset $v; done
export REDO_LOG=0
W=$(mktemp -d); cd $W || exit 2
run() { # run TIMEOUT cmd... ; whole process group is killed afterwards
  local to=$1; shift
  setsid timeout $to "$@" & local p=$!
  wait $p; RC=$?
  kill -9 -$p 2>/dev/null; return 0
}
cat > all.do <<'X'
redo-ifchange t3 t1 t8 t9
X
cat > t1.do <<'X'
redo-ifchange s1
sleep 1
cat s1
X
cat > t3.do <<'X'
sleep 0.3
redo-ifchange t1
(echo t3; cat t1) > $3; redo-stamp < $3
X
printf 'redo-ifchange t3\ncat t3\n' > t4.do
printf 'redo-ifchange t3\ncat t3\n' > t5.do
printf 'redo-ifchange s8 t4\ncat s8 t4\n' > t8.do
printf 'redo-ifchange s9 t5\ncat s9 t5\n' > t9.do
echo 1 > s1; echo 1 > s8; echo 1 > s9
run 60 redo -j2 all 2>/dev/null
[ $RC = 0 ] || { echo "initial build failed rc=$RC"; exit 2; }
sleep 0.1
echo 2 > s1; echo 2 > s8; echo 2 > s9
run 45 redo -j2 all 2>err.log
rc2=$RC
echo "second 'redo -j2 all' after editing s1 s8 s9: rc=$rc2 (124 = killed by timeout after 45s)"
echo "number of polls of t4/t5 ('unlocked' records): $(grep -c 'unlocked' err.log)"
# the same state builds fine serially:
run 60 redo -j1 all 2>/dev/null
echo "serial 'redo -j1 all' on the same state: rc=$RC"
cd /; rm -rf $W
if [ $rc2 = 124 ]; then echo "VIOLATION: redo -j2 all hangs (token starvation by Busy pollers)"; exit 1; fi
exit 0
