#!/bin/bash
# finding2: a dependency edge recorded by an earlier build (y -> x) that the project no longer
# has makes two builds wait for each other for ever, although the present project has no cycle:
#   now:  x -> z -> y -> cy        earlier:  y -> x   (y.do asks for x only if cy says so)
# y's check finds "cy may have changed" and "x is being built by somebody else" and polls until
# x is finished (Started::Busy); x's script waits for z; z's script waits for the poller.
# Shown (a) inside one "redo -j2 x z" and (b) with two commands "redo-ifchange x" and
# "redo-ifchange z" started together.   usage: finding2.sh BINDIR ; exit 1 = violation shown
BIN=${1:?bin directory}
export PATH=$BIN:$PATH
unset MAKEFLAGS; for v in $(env | grep -o '^REDO[A-Z_]*'); do unset $v; done
export REDO_LOG=0
run() { local to=$1; shift; setsid timeout $to "$@" & local p=$!; wait $p; RC=$?; kill -9 -$p 2>/dev/null; return 0; }
mkproj() {
  W=$(mktemp -d); cd $W || exit 2
  for c in cx cy; do printf 'redo-ifchange cfg\ncat cfg > $3\nredo-stamp < $3\n' > $c.do; done
  cat > y.do <<'X'
redo-ifchange cy
if grep -q yusex cy; then redo-ifchange x; fi
echo y > $3
X
  cat > z.do <<'X'
redo-ifchange zsrc y
echo z > $3
X
  cat > x.do <<'X'
redo-ifchange cx
if grep -q xusez cx; then sleep 1; redo-ifchange z; fi
echo x > $3
X
  echo 1 > zsrc
  echo yusex > cfg
}
bad=0
# ---- (a) one command
mkproj
run 60 redo -j2 x z 2>/dev/null; [ $RC = 0 ] || { echo "initial build failed"; exit 2; }
echo xusez > cfg; echo 2 > zsrc
run 30 redo -j2 x z 2>/dev/null
echo "(a) 'redo -j2 x z' after the edges were turned round: rc=$RC (124 = timeout after 30s)"
[ $RC = 124 ] && bad=1
rm -rf .redo x y z cx cy
run 60 redo -j2 x z 2>/dev/null
echo "    from-scratch build of the same sources: rc=$RC"
cd /; rm -rf $W
# ---- (b) two commands at once
mkproj
run 60 redo-ifchange x z 2>/dev/null; [ $RC = 0 ] || { echo "initial build failed"; exit 2; }
echo xusez > cfg; echo 2 > zsrc
( setsid timeout 30 redo-ifchange x 2>/dev/null; echo $? > rc.x ) &
( setsid timeout 30 redo-ifchange z 2>/dev/null; echo $? > rc.z ) &
wait
echo "(b) 'redo-ifchange x' & 'redo-ifchange z' at once: rc=$(cat rc.x) and rc=$(cat rc.z) (124 = timeout after 30s)"
[ "$(cat rc.x)" = 124 ] && [ "$(cat rc.z)" = 124 ] && bad=1
cd /; for p in /proc/[0-9]*; do [ "$(readlink $p/cwd 2>/dev/null)" = "$W" ] && [ ${p#/proc/} != $$ ] && kill -9 ${p#/proc/} 2>/dev/null; done; cd $W
run 60 redo-ifchange x z 2>/dev/null
echo "    afterwards a single 'redo-ifchange x z': rc=$RC"
cd /; rm -rf $W
if [ $bad = 1 ]; then echo "VIOLATION: builds wait for each other over a dependency edge that no longer exists"; exit 1; fi
exit 0
