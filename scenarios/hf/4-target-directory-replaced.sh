#!/bin/sh
# Side remark (unmodified code), C09 "never aborts on an internal assertion":
# a script that replaces the directory of its own target by a regular file makes
# the redo that started it panic (exit 101) in record_new_state
# (src/builder.rs:547, try_stat(t).expect(..): only NotFound is tolerated,
# ENOTDIR is not).
# usage: c09-target-directory-replaced.sh BINDIR
BIN=$(cd "$1" && pwd) || exit 2
for v in $(env | sed -n 's/^\(REDO[A-Za-z0-9_]*\)=.*/\1/p'); do unset "$v"; done
unset MAKEFLAGS RUST_BACKTRACE
PATH=$BIN:$PATH; export PATH
W=$(mktemp -d) || exit 2
cd "$W" || exit 2
mkdir d
cat >default.x.do <<'EOT'
rm -rf d
echo hello >d
EOT
REDO_LOG=0 setsid -w timeout -s KILL 20 redo d/t.x >out 2>&1; rc=$?
echo "redo d/t.x: exit status $rc"; sed 's/^/    | /' out | head -8
cd /; rm -rf "$W"
[ "$rc" -ne 101 ] && ! grep -q panicked out
