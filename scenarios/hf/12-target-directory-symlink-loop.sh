#!/bin/sh
# finding8: redo panics (builder.rs:576 "cannot get target metadata") when the name of a
# target can no longer be looked up after its script has run for a reason other than
# ENOENT/ENOTDIR -- here the script replaces the target's directory by a symbolic link
# to itself (ELOOP); a directory made unsearchable (EACCES, not as root) goes the same way.
# Same family as the fixed "directory replaced by a regular file".  Deterministic.
BIN=$(cd "${1:?usage: $0 BIN_DIR}" && pwd) || exit 2
for v in $(env | grep -o '^REDO[A-Z_]*'); do unset "$v"; done
unset MAKEFLAGS
export PATH="$BIN:$PATH"
export REDO_LOG=0
W=$(mktemp -d)
killtree() { # kill every process whose cwd is below $W (left-overs of a hung tree)
    for _p in /proc/[0-9]*; do
        _c=$(readlink "$_p/cwd" 2>/dev/null) || continue
        [ "${_p#/proc/}" = "$$" ] && continue
        case "$_c" in "$W"*) kill -9 "${_p#/proc/}" 2>/dev/null;; esac
    done
}
trap 'killtree; cd /; rm -rf "$W"' EXIT
# run SECONDS cmd...: own session, time limit (status 124 = timed out), left-overs killed
run() { _t=$1; shift; setsid -w timeout -k 2 "$_t" "$@"; _rc=$?; killtree; return $_rc; }
cd "$W"
mkdir d
cat > default.do <<'EOT'
rm -rf d; ln -s d d
EOT
run 60 redo d/x > log 2>&1; rc=$?
echo "redo d/x: rc=$rc"; cut -c1-200 log | head -5
if grep -q panicked log; then echo "VIOLATION: redo aborted on an internal assertion"; exit 1; fi
echo "no violation shown"; exit 0
