#!/bin/bash
# C18 (F64, fixed): a script leaves its own output in mid-line and then asks for a dependency
# (printf 'checking y... '; redo-ifchange y).  The nested command's `do y` record stands after that
# text on the same physical line of x's log.  The viewer must still follow y: y's stderr line must
# be shown, live and in the replay, under y's header, and the text of x as a line of x.
BIN=${1:?usage: $0 <bin-dir>}
BIN=$(cd "$BIN" && pwd)
for v in $(env | sed -n 's/^\(REDO_[A-Za-z_]*\)=.*/\1/p'); do unset "$v"; done
unset MAKEFLAGS
export PATH="$BIN:$PATH"
P=$(mktemp -d)
trap 'rm -rf "$P"' EXIT
cd "$P"
cat > y.do <<'X'
echo "Y SAYS HI" >&2
echo y
X
cat > x.do <<'X'
printf 'checking y... ' >&2
redo-ifchange y
echo ok >&2
echo x
X
f() { sed 's/^@@REDO:\([a-z]*\):[0-9]*:[0-9.]*@@ /\1 /'; }
live=$(redo --no-pretty --no-color --no-status x 2>&1 | f)
replay=$(redo-log -r --no-pretty --no-color --no-status x | f)
want=$(printf 'do x\nchecking y...\ndo y\nY SAYS HI\ndone 0 y\nresumed x\nok')
viol=0
echo "--- live"; echo "$live"
echo "--- replay"; echo "$replay"
[ "$(echo "$live" | head -7)" = "$want" ] || { echo "VIOLATION (live): the line of y is not shown under 'do y'"; viol=1; }
[ "$(echo "$replay" | head -7)" = "$want" ] || { echo "VIOLATION (replay): the line of y is not shown under 'do y'"; viol=1; }
exit $viol
