#!/bin/sh
# finding9: within ONE invocation of `redo a b` (a.do runs redo-ifchange b) the script of b
# is executed twice at -j1 and once at -j2: the number of executions of a target in a run
# depends on -j and on the order of the arguments.  (Inherited from the original: a target
# named on the command line of `redo` is built even if this very run has built it already.)
# Deterministic.
BIN=$(cd "${1:?usage: $0 BIN_DIR}" && pwd) || exit 2
for v in $(env | grep -o '^REDO[A-Z_]*'); do unset "$v"; done
unset MAKEFLAGS
export PATH="$BIN:$PATH"
export REDO_LOG=0
W=$(mktemp -d)
killtree() { # kill every process whose cwd is below $W (left-overs of a hung tree)
    for _p in /proc/[0-9]*; do
        _c=$(readlink "$_p/cwd" 2>/dev/null) || continue
        [ "${_p#/proc/}" = "$$" ] && continue
        case "$_c" in "$W"*) kill -9 "${_p#/proc/}" 2>/dev/null;; esac
    done
}
trap 'killtree; cd /; rm -rf "$W"' EXIT
# run SECONDS cmd...: own session, time limit (status 124 = timed out), left-overs killed
run() { _t=$1; shift; setsid -w timeout -k 2 "$_t" "$@"; _rc=$?; killtree; return $_rc; }
cd "$W"
cat > a.do <<'EOT'
redo-ifchange b
echo a
EOT
cat > b.do <<'EOT'
echo run >> b.runs
sleep 0.3
echo b
EOT
: > b.runs; run 60 redo -j1 a b > log1 2>&1; n1=$(wc -l < b.runs)
: > b.runs; run 60 redo -j2 a b > log2 2>&1; n2=$(wc -l < b.runs)
echo "redo -j1 a b: b.do executed $n1 time(s); redo -j2 a b: $n2 time(s)"
if [ "$n1" -gt 1 ] || [ "$n2" -gt 1 ]; then echo "VIOLATION: a target was executed more than once in one run (and the count depends on -j)"; exit 1; fi
echo "no violation shown"; exit 0
