#!/bin/bash
# finding3 (C08): with log capture on (the default), one "redo -j2 all" runs FOUR build scripts
# at the same time (limit 2, +1 allowed for the followed job), then a redo-ifchange panics with
# "mytokens=1, cheats=2" (its target fails with exit 101 although no script failed), and the
# top-level redo never exits: its token self-test fails, which drains the token pipe, and the
# error path then waits for a token for ever.
# usage: finding3.sh BINDIR ; exit 1 = violation shown
BIN=${1:?bin directory}
export PATH=$BIN:$PATH
unset MAKEFLAGS; for v in $(env | grep -o '^REDO[A-Z_]*'); do unset $v; done
W=$(mktemp -d); cd $W || exit 2
export TOP=$W
sweep() { local p; for p in /proc/[0-9]*; do [ "$(readlink $p/cwd 2>/dev/null)" = "$W" ] && [ ${p#/proc/} != $$ ] && kill -9 ${p#/proc/} 2>/dev/null; done; }
run() { local to=$1; shift; setsid -w timeout -k 2 $to "$@"; RC=$?; sweep; return 0; }
cat > work.sh <<'X'
# work NAME SECONDS: a phase in which the script really works (it is not waiting for redo)
work() { echo "B $1 $(date +%s.%N)" >> $TOP/work.log; sleep $2; echo "E $1 $(date +%s.%N)" >> $TOP/work.log; }
X
printf '. ./work.sh\nredo-ifchange lsrc; work L 1; cat lsrc\n' > L.do
printf 'redo-ifchange zsrc; cat zsrc > $3; redo-stamp < $3\n' > zc.do
printf '. ./work.sh\nredo-ifchange zc; work Z 2.5; cat zc\n' > Z.do
printf '. ./work.sh\nredo-ifchange L Z; cat L Z; work K 3\n' > K.do
printf '. ./work.sh\nwork T 0.3; redo-ifchange L K; cat L K\n' > T.do
printf '. ./work.sh\nredo-ifchange L; cat L; work U 6\n' > U.do
printf '. ./work.sh\nredo-ifchange Z; cat Z; work V 6\n' > V.do
printf '. ./work.sh\nredo-ifchange xsrc; work X 6; echo x\n' > X.do
echo 'redo-ifchange T U V X' > all.do
echo 1 > lsrc; echo 1 > zsrc; echo 1 > xsrc
run 120 redo -j4 all 2>/dev/null
[ $RC = 0 ] || { echo "initial build failed rc=$RC"; exit 2; }
echo 2 > lsrc; echo 2 > zsrc; echo 2 > xsrc; rm -f work.log
run 60 redo -j2 all 2> err.log
rc=$RC
max=$(awk '{ print $3, $1, $2 }' work.log | sort -n | awk '$2=="B"{n++; if(n>m){m=n}} $2=="E"{n--} END{print m}')
echo "redo -j2 all: rc=$rc (124 = still running after 60s; the scripts need about 10s)"
echo "largest number of scripts inside a work phase at the same time: $max (allowed: 2, or 3 with the followed job)"
grep -E "panicked|mytokens=|exit 101|expected .* tokens" err.log | sed 's/^/    /'
bad=0
[ "${max:-0}" -gt 3 ] && bad=1
grep -q "mytokens=1, cheats=2" err.log && bad=1
[ $rc = 124 ] && bad=1

# ---- part 2: the same history under an INHERITED jobserver (a fifo opened read-write as fd 200,
# one token in it = "-j2"): count the tokens that are in the pipe when redo has ended.
rm -rf .redo K L T U V X Z zc work.log
echo 1 > lsrc; echo 1 > zsrc; echo 1 > xsrc
run 120 redo -j4 all 2>/dev/null
echo 2 > lsrc; echo 2 > zsrc; echo 2 > xsrc
mkfifo $W/js.fifo; exec 200<>$W/js.fifo
printf t >&200
MAKEFLAGS=" -j --jobserver-auth=200,200 --jobserver-fds=200,200" run 60 redo all 2> err2.log
left=$(dd bs=1 count=64 iflag=nonblock <&200 2>/dev/null | wc -c)
exec 200>&-
echo "inherited jobserver with 1 token in the pipe: redo rc=$RC, tokens in the pipe afterwards: $left (must be 1)"
grep -E "panicked|mytokens=" err2.log | sed 's/^/    /'
[ "$left" != 1 ] && bad=1
cd /; rm -rf $W
if [ $bad = 1 ]; then echo "VIOLATION: -j exceeded / token book-keeping panic / top-level hang / tokens created"; exit 1; fi
exit 0
