#!/bin/sh
# C15 (one spelling -> one record, over time) / C13 (target rebuilt when asked):
# a target named while its directory does not exist yet gets the lexical name "newdir/t.out";
# the script creates that directory as a symbolic link (ln -s real newdir) and writes $3.
# From then on the same spelling resolves to "real/t.out", a different record that is
# "not marked as generated": the target has become a source, is never rebuilt again,
# and stays stale at exit 0.
# (Neighbour of the known "directory symlink later retargeted"; here nothing is retargeted:
# the link is created once, by the build itself.)
BIN=$(cd "$1" && pwd) || exit 2
for v in $(env | grep -o '^REDO[A-Z_]*'); do unset $v; done
unset MAKEFLAGS
export PATH="$BIN:$PATH"
export REDO_LOG=0
export RUST_BACKTRACE=0
W=$(mktemp -d) || exit 2
trap 'cd /; rm -rf "$W"' EXIT
mkdir -p "$W/proj/.redo"   # own state dir: nothing is created above the project
cd "$W/proj" || exit 2
R() { setsid -w timeout 60 "$@"; }
mkdir real
cat > default.out.do <<'EOS'
[ -e newdir ] || ln -s real newdir
redo-ifchange ver
echo "v$(cat ver)" > $3
EOS
echo 1 > ver
R redo newdir/t.out 2>/dev/null; echo "first build rc=$? content=$(cat newdir/t.out)"
echo 2 > ver
R redo-ifchange newdir/t.out 2>/dev/null; rc1=$?; c1=$(cat newdir/t.out)
R redo newdir/t.out 2>err; rc2=$?; c2=$(cat newdir/t.out)
cat err
echo "after ver=2: redo-ifchange rc=$rc1 content=$c1; forced redo rc=$rc2 content=$c2 (expected v2)"
[ "$c1" = v2 ] && [ "$c2" = v2 ] && exit 0
echo "VIOLATION: target stale; even a forced 'redo newdir/t.out' refuses to rebuild it"
exit 1
