#!/bin/sh
# C04: a script that exits 0 and leaves a DIRECTORY as $3 installs it once; every later
# build of the same target fails (exit 209, "rename ...: Directory not empty") although the
# script succeeded with one unambiguous output.  The target can never be rebuilt until the
# user removes it by hand.
BIN=$(cd "$1" && pwd) || exit 2
for v in $(env | grep -o '^REDO[A-Z_]*'); do unset $v; done
unset MAKEFLAGS
export PATH="$BIN:$PATH"
export REDO_LOG=0
export RUST_BACKTRACE=0
W=$(mktemp -d) || exit 2
trap 'cd /; rm -rf "$W"' EXIT
mkdir -p "$W/proj/.redo"   # own state dir: nothing is created above the project
cd "$W/proj" || exit 2
R() { setsid -w timeout 60 "$@"; }
echo 'mkdir $3; cat ver > $3/f; redo-ifchange ver' > outdir.do
echo 1 > ver
R redo outdir 2>/dev/null; echo "first build rc=$? f=$(cat outdir/f)"
echo 2 > ver
R redo-ifchange outdir 2>err; rc=$?
grep -h 'rename\|exit code' err | head -3
echo "second build rc=$rc f=$(cat outdir/f) (expected rc=0 f=2); leftovers: $(ls | grep -c redo.tmp)"
[ $rc = 0 ] && [ "$(cat outdir/f)" = 2 ] && exit 0
echo "VIOLATION: successful script, target not replaced, command failed"
exit 1
