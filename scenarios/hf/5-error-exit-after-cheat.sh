#!/bin/sh
# Side remark (unmodified code), C08 on an error exit: a redo-ifchange that
# leaves builder::run through the error path (here: a cyclic dependency found
# while another of its jobs is still running) after the exit of its last job was
# paid for by a cheat byte ends holding no token; its parent re-creates one:
# the jobserver ends with one token too many.
# usage: c08-error-exit-after-cheat.sh BINDIR
BIN=$(cd "$1" && pwd) || exit 2
for v in $(env | sed -n 's/^\(REDO[A-Za-z0-9_]*\)=.*/\1/p'); do unset "$v"; done
unset MAKEFLAGS RUST_BACKTRACE
PATH=$BIN:$PATH; export PATH
W=$(mktemp -d) || exit 2
cd "$W" || exit 2
cat >all.do <<'EOT'
redo-ifchange q h
EOT
cat >q.do <<'EOT'
redo-ifchange p
EOT
cat >p.do <<'EOT'
# c is started, then q (an ancestor: cyclic) is looked at while c still runs
redo-ifchange c q
EOT
cat >c.do <<'EOT'
redo-ifchange L
EOT
cat >L.do <<'EOT'
sleep 3
echo L
EOT
cat >h.do <<'EOT'
sleep 1
redo-ifchange h1 h2 h3
EOT
for i in 1 2 3; do printf 'sleep 6\necho h\n' >h$i.do; done

setsid -w sh -c 'echo $$ >ext.pgid; exec timeout -s KILL 60 redo L' >ext.out 2>&1 &
EXT=$!
sleep 0.7
setsid -w sh -c 'echo $$ >main.pgid; exec timeout -s KILL 60 redo -j2 all' >main.out 2>&1 &
MAIN=$!
wait $MAIN; rc=$?
wait $EXT
kill -9 -"$(cat main.pgid)" 2>/dev/null; kill -9 -"$(cat ext.pgid)" 2>/dev/null
echo "--- redo -j2 all: exit status $rc (non-zero is expected: the graph is cyclic)"
cat main.out
echo "---"
bad=0
if grep -q 'expected [0-9]* tokens' main.out; then
    echo "VIOLATION: token count at the end of the run:"; grep 'expected [0-9]* tokens' main.out
    bad=1
else
    echo "token self check passed"
fi
cd /; rm -rf "$W"
exit $bad
