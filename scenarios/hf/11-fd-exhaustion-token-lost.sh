#!/bin/sh
# finding5: redo -jN never terminates when it runs out of file descriptors while starting
# a job: the job token is destroyed before the job's pipe is made and is not given back
# when that fails; at the end the top-level token self-test finds N-1 tokens, drains the
# token pipe without writing the tokens back and fails; the error path of builder::run then
# waits for a token that nobody can ever write.  No message is printed.
# Shown with a small descriptor limit (ulimit -n 200, -j150, 120 targets of 3 s each);
# the same happens with the usual limit of 1024 and redo -j700 with 600 targets.
# Deterministic.
BIN=$(cd "${1:?usage: $0 BIN_DIR}" && pwd) || exit 2
for v in $(env | grep -o '^REDO[A-Z_]*'); do unset "$v"; done
unset MAKEFLAGS
export PATH="$BIN:$PATH"
export REDO_LOG=0
W=$(mktemp -d)
killtree() { # kill every process whose cwd is below $W (left-overs of a hung tree)
    for _p in /proc/[0-9]*; do
        _c=$(readlink "$_p/cwd" 2>/dev/null) || continue
        [ "${_p#/proc/}" = "$$" ] && continue
        case "$_c" in "$W"*) kill -9 "${_p#/proc/}" 2>/dev/null;; esac
    done
}
trap 'killtree; cd /; rm -rf "$W"' EXIT
# run SECONDS cmd...: own session, time limit (status 124 = timed out), left-overs killed
run() { _t=$1; shift; setsid -w timeout -k 2 "$_t" "$@"; _rc=$?; killtree; return $_rc; }
cd "$W"
cat > default.t.do <<'EOT'
sleep 3
echo $1
EOT
ts=$(seq -f "x%g.t" 1 120)
ulimit -n 200
run 40 redo -j150 $ts > log 2>&1; rc=$?
built=$(ls *.t 2>/dev/null | wc -l)
echo "redo -j150 with 120 targets (3 s each) under ulimit -n 200: rc=$rc (124 = still running after 40 s), $built targets built"
grep -v '^redo  x' log | head -20
if [ $rc -eq 124 ]; then
    echo "VIOLATION: redo waits for ever (all scripts that were started had finished after about 3 s)"
    exit 1
fi
echo "no violation shown"
exit 0
