#!/bin/bash
# finding1.sh BINDIR
# C09: "A build whose scripts all succeed exits 0 at every -j."
# redo accepts -j up to 1000, but `redo -j620 all` over 620 independent targets whose
# scripts all succeed exits 1: once about 500 jobs run at the same time, the next job's
# pipe descriptor is >= FD_SETSIZE and the job is refused ("too many jobs running at
# once (file descriptor 1024 is beyond select()'s limit)") instead of waiting for a
# running job to end.  The same project builds at -j100.
# Deterministic (needs ~620 sleeping sh processes for a few seconds).
# exit 1 = violation shown, 0 = not shown.
BIN=$(cd "$1" && pwd) || exit 2
for v in $(env | grep -o '^REDO[A-Z_]*'); do unset $v; done; unset MAKEFLAGS
export PATH=$BIN:$PATH
N=620
D=$(mktemp -d) || exit 2
cd "$D" || exit 2
cat > default.x.do <<'EOF'
sleep 6
echo $1 > $3
EOF
ts=""; for i in $(seq 1 $N); do ts="$ts f$i.x"; done
echo "redo-ifchange $ts" > all.do
setsid timeout 170 redo -j$N all >out 2>err; rc=$?
built=$(ls f*.x 2>/dev/null | wc -l)
echo "redo -j$N all: rc=$rc, $built of $N targets built"
grep -m2 "too many jobs\|Too many open files" err
# the scripts themselves are fine: the rest builds with a smaller -j
setsid timeout 170 redo -j100 all >out2 2>err2; rc2=$?
echo "follow-up redo -j100 all: rc=$rc2, $(ls f*.x | wc -l) built"
pkill -9 -f "$D" 2>/dev/null
cd /; rm -rf "$D"
if [ $rc != 0 ] && [ $rc2 = 0 ]; then
  echo "VIOLATION: every script succeeds, yet redo -j$N exits $rc"
  exit 1
fi
exit 0
