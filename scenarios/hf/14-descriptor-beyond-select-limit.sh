#!/bin/sh
# finding6: redo -jN aborts with a panic ("fd must be in the range 0..FD_SETSIZE") as soon as
# a job's pipe gets a descriptor number >= 1024, i.e. with about 490 jobs running in one
# redo process (two descriptors per running job); -j up to 1000 is accepted.  Needs a
# descriptor limit above 1024 (the script raises the soft limit to 4096 if it may).
# The scripts already started run on as orphans without their locks.  Deterministic.
BIN=$(cd "${1:?usage: $0 BIN_DIR}" && pwd) || exit 2
for v in $(env | grep -o '^REDO[A-Z_]*'); do unset "$v"; done
unset MAKEFLAGS
export PATH="$BIN:$PATH"
export REDO_LOG=0
W=$(mktemp -d)
killtree() { # kill every process whose cwd is below $W (left-overs of a hung tree)
    for _p in /proc/[0-9]*; do
        _c=$(readlink "$_p/cwd" 2>/dev/null) || continue
        [ "${_p#/proc/}" = "$$" ] && continue
        case "$_c" in "$W"*) kill -9 "${_p#/proc/}" 2>/dev/null;; esac
    done
}
trap 'killtree; cd /; rm -rf "$W"' EXIT
# run SECONDS cmd...: own session, time limit (status 124 = timed out), left-overs killed
run() { _t=$1; shift; setsid -w timeout -k 2 "$_t" "$@"; _rc=$?; killtree; return $_rc; }
cd "$W"
cat > default.t.do <<'EOT'
sleep 20
echo $1
EOT
ts=$(seq -f "x%g.t" 1 600)
ulimit -n 4096 2>/dev/null
lim=$(ulimit -n)
if [ "$lim" != unlimited ] && [ "$lim" -le 1100 ]; then
    echo "cannot raise the descriptor limit above 1024 (ulimit -n = $lim): not applicable here (see finding5 for that case)"
    exit 0
fi
run 90 redo -j700 $ts > log 2>&1; rc=$?
echo "redo -j700 with 600 targets under ulimit -n $lim: rc=$rc"
grep -v '^redo  x' log | head -8
if grep -q 'panicked' log; then
    echo "VIOLATION: redo aborted on an internal assertion (exit $rc)"
    exit 1
fi
echo "no violation shown"
exit 0
