#!/bin/sh
# C09 / C12 (F65, fixed; variant with a checksummed a, which repair F71 leaves to the wait-and-look-again path): after a dependency between two targets is reversed (run 1: b needs a;
# then a needs b and b no longer needs a -- the scripts are acyclic at all times), `redo -j2 all`
# must terminate.  It hung for ever: b's walk found its recorded dependency a being built, handed
# it to redo-unlocked with b's lock kept, whose redo-ifchange a waited for a's lock while a.do's
# redo-ifchange b waited for b's.  (Whether the run then succeeds is scenario hf/3.)
BIN=$(cd "$1" && pwd) || exit 2
for v in $(env | sed -n 's/^\(REDO[A-Za-z0-9_]*\)=.*/\1/p'); do unset "$v"; done
unset MAKEFLAGS RUST_BACKTRACE
PATH=$BIN:$PATH; export PATH
W=$(mktemp -d) || exit 2
cd "$W" || exit 2
cat >all.do <<'EOT'
redo-ifchange a b
EOT
cat >a.do <<'EOT'
redo-ifchange src
if [ -e a-needs-b ]; then sleep 1; redo-ifchange b; fi
cat src >$3; redo-stamp <$3
EOT
cat >b.do <<'EOT'
if ! [ -e a-needs-b ]; then redo-ifchange a; fi
echo b >$3
EOT
echo 1 >src
REDO_LOG=0 setsid -w timeout -s KILL 30 redo -j2 all >out1 2>&1; r1=$?
touch a-needs-b; echo 2 >src
REDO_LOG=0 setsid -w sh -c 'echo $$ >pgid; exec timeout -s KILL 20 redo -j2 all' >out2 2>&1; r2=$?
kill -9 -"$(cat pgid)" 2>/dev/null
echo "first build exit $r1; second build exit $r2 (137 = killed after 20 s)"
sed 's/^/    | /' out2
bad=0
[ "$r1" -eq 0 ] || bad=1
if [ "$r2" -eq 137 ] || [ "$r2" -eq 124 ]; then echo "VIOLATION: redo -j2 all did not terminate"; bad=1; fi
cd /; rm -rf "$W"
exit $bad
