#!/bin/sh
# Panics (exit 101, "called Option::unwrap() on a None value" / clap "unexpected invalid UTF-8")
# on names that are not UTF-8: redo-whichdo (3 places) and redo itself.  redo-ifchange
# shows the intended behaviour: a clean "could not use ... as redo path", exit 1.
BIN=$(cd "$1" && pwd) || exit 2
for v in $(env | grep -o '^REDO[A-Z_]*'); do unset $v; done
unset MAKEFLAGS
export PATH="$BIN:$PATH"
export REDO_LOG=0
export RUST_BACKTRACE=0
W=$(mktemp -d) || exit 2
trap 'cd /; rm -rf "$W"' EXIT
mkdir -p "$W/proj/.redo"   # own state dir: nothing is created above the project
cd "$W/proj" || exit 2
R() { setsid -w timeout 60 "$@"; }
d1=$(printf 'd\377'); mkdir "$d1" sub; echo 'echo hi' > "$d1/x.do"
bad=0
chk() { # name, command...
  n=$1; shift
  "$@" >out 2>err; rc=$?
  if [ $rc = 101 ] || grep -q panicked err; then echo "VIOLATION ($n): rc=$rc $(grep panicked err | head -1)"; bad=1; else echo "ok ($n): rc=$rc"; fi
}
chk "whichdo existing rule below a non-utf8 dir" R redo-whichdo "$d1/x"
chk "whichdo no rule below a non-utf8 dir"       R redo-whichdo "$d1/nodo"
chk "whichdo non-utf8 file name"                 R redo-whichdo "$(printf 'y\377')"
chk "whichdo from a sibling dir"                 sh -c "cd sub && exec setsid -w timeout 60 redo-whichdo '../$d1/y'"
chk "redo non-utf8 target"                       R redo "$(printf 'y\377')"
chk "redo-ifchange non-utf8 target (control)"    R redo-ifchange "$(printf 'y\377')"
exit $bad
