#!/bin/sh
# finding2: redo -j2 hangs for ever on a project that is acyclic at all times and whose
# scripts all succeed (the same sources build from scratch without trouble).
# p1 reads its dependency list from the checksummed target cfg1.  State 1: p1 -> x1.
# State 2: p1 needs nothing any more, x1 -> p2, p2 -> p1.  All inputs are declared.
BIN=$(cd "${1:?usage: $0 BIN_DIR}" && pwd) || exit 2
for v in $(env | grep -o '^REDO[A-Z_]*'); do unset "$v"; done
unset MAKEFLAGS
export PATH="$BIN:$PATH"
export REDO_LOG=0
W=$(mktemp -d)
killtree() { # kill every process whose cwd is below $W (left-overs of a hung tree)
    for _p in /proc/[0-9]*; do
        _c=$(readlink "$_p/cwd" 2>/dev/null) || continue
        [ "${_p#/proc/}" = "$$" ] && continue
        case "$_c" in "$W"*) kill -9 "${_p#/proc/}" 2>/dev/null;; esac
    done
}
trap 'killtree; cd /; rm -rf "$W"' EXIT
# run SECONDS cmd...: own session, time limit (status 124 = timed out), left-overs killed
run() { _t=$1; shift; setsid -w timeout -k 2 "$_t" "$@"; _rc=$?; killtree; return $_rc; }
cd "$W"
cat > p1.do <<'EOT'
redo-ifchange cfg1
deps=$(grep -v '^#' cfg1 || true)
[ -z "$deps" ] || redo-ifchange $deps
echo "p1 built from: $deps"
EOT
cat > cfg1.do <<'EOT'
redo-ifchange cfg1.in
cat cfg1.in
redo-stamp < cfg1.in
EOT
for t in x1 p2; do
cat > $t.do <<EOT
redo-ifchange $t.in
deps=\$(grep -v '^#' $t.in || true)
[ -z "\$deps" ] || redo-ifchange \$deps
echo "$t built from: \$deps" > \$3
redo-stamp < \$3
EOT
done
cat > all.do <<'EOT'
redo-ifchange p1 p2 x1
EOT
# state 1: p1 -> x1
printf '# deps of p1\nx1\n' > cfg1.in
printf '# deps of x1\n' > x1.in
printf '# deps of p2\n' > p2.in
run 60 redo -j2 all > log1 2>&1 || { echo "setup build failed"; cat log1; exit 2; }
# state 2: p1 needs nothing; x1 -> p2 -> p1
printf '# deps of p1: none\n' > cfg1.in
printf '# deps of x1\np2\n' > x1.in
printf '# deps of p2\np1\n' > p2.in
mkdir ref && cp *.do *.in ref/
run 15 redo -j2 all > log2 2>&1; rc=$?
cd ref; run 60 redo -j2 all > ../logref 2>&1; rcref=$?; cd ..
echo "incremental redo -j2: rc=$rc (124 = still running after 15 s); from scratch: rc=$rcref"
cat log2
if [ $rcref -eq 0 ] && [ $rc -eq 124 ]; then
    echo "VIOLATION: redo -j2 hangs on an acyclic project"
    exit 1
fi
echo "no violation shown"
exit 0
