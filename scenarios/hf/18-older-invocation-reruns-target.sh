#!/bin/sh
# finding4: with two top-level invocations active on one project, the one that started
# first re-runs a target's script on EVERY request for it, once the later-started
# invocation has built that target: its own successful execution is recorded without
# its run id (the row keeps the other invocation's, larger, changed_runid), so the next
# decision in the same run again says "built by a later run: dirty".
# Deterministic (sleeps order the two invocations).
BIN=$(cd "${1:?usage: $0 BIN_DIR}" && pwd) || exit 2
for v in $(env | grep -o '^REDO[A-Z_]*'); do unset "$v"; done
unset MAKEFLAGS
export PATH="$BIN:$PATH"
export REDO_LOG=0
W=$(mktemp -d)
killtree() { # kill every process whose cwd is below $W (left-overs of a hung tree)
    for _p in /proc/[0-9]*; do
        _c=$(readlink "$_p/cwd" 2>/dev/null) || continue
        [ "${_p#/proc/}" = "$$" ] && continue
        case "$_c" in "$W"*) kill -9 "${_p#/proc/}" 2>/dev/null;; esac
    done
}
trap 'killtree; cd /; rm -rf "$W"' EXIT
# run SECONDS cmd...: own session, time limit (status 124 = timed out), left-overs killed
run() { _t=$1; shift; setsid -w timeout -k 2 "$_t" "$@"; _rc=$?; killtree; return $_rc; }
cd "$W"
cat > t0.do <<'EOT'
redo-ifchange src
echo "t0 $$" >> "$RUNS"
echo t0; cat src
EOT
cat > a.do <<'EOT'
sleep 1.5            # meanwhile the second invocation builds t0
redo-ifchange t0
redo-ifchange t0
redo-ifchange u1 u2 u3
echo a
EOT
for u in u1 u2 u3; do
cat > $u.do <<'EOT'
redo-ifchange t0
echo u
EOT
done
echo 1 > src
export RUNS="$W/runs"; : > "$RUNS"
( setsid -w timeout -k 2 60 redo -j1 a > logA 2>&1; echo $? > rcA ) &
sleep 0.5
setsid -w timeout -k 2 60 redo -j1 t0 > logB 2>&1; rcB=$?
wait
killtree
rcA=$(cat rcA)
n=$(wc -l < "$RUNS")
echo "invocation A (redo a, started first): rc=$rcA; invocation B (redo t0, started 0.5 s later): rc=$rcB"
echo "t0.do was executed $n times (expected: once, by B):"
echo "--- log of A"; cat logA
if [ "$n" -gt 2 ]; then
    echo "VIOLATION: invocation A ran t0.do $((n-1)) times in one run"
    exit 1
fi
echo "no violation shown"
exit 0
