#!/bin/bash
# C18: at -j2, B waits for X while another process holds X's lock and is still
# checking X's checksummed dependency S (redo-unlocked).  The viewer, sent into
# X by B's "locked" record, opens X's log of the PREVIOUS run: the live output
# shows the old line "X built from v1" and never shows "X built from v2".
. "$(dirname "$0")/_common.sh"
echo v1 > in
cat > S.do <<'X'
redo-ifchange in
sleep 1
cat in | tee $3 | redo-stamp
echo "S built from $(cat in)" >&2
X
cat > X.do <<'X'
redo-ifchange S
echo "X built from $(cat S)" >&2
cat S
X
cat > A.do <<'X'
redo-ifchange X
echo "A done" >&2
X
cat > B.do <<'X'
sleep 0.4
redo-ifchange X
echo "B done" >&2
X
timeout 60 redo -j2 B A > live1 2>&1
echo v2 > in
timeout 60 redo -j2 B A > live2 2>&1; echo "second run exit $?  X=[$(cat X)]"
echo "live output of the second run:"; sed 's/^/   /' live2
old=$(grep -c 'X built from v1' live2); new=$(grep -c 'X built from v2' live2)
echo "stale lines shown: $old   current lines shown: $new (expected 0 and 1)"
if [ "$old" != 0 ] || [ "$new" != 1 ]; then echo VIOLATION; exit 1; fi
echo "no violation"; exit 0
