#!/bin/bash
# C10: a script that builds a directory target through $3 ("mkdir $3; ...") is
# killed (whole process group, SIGKILL) in the middle.  The stale temp DIRECTORY
# is never removed (redo only unlink()s): every later redo-ifchange of the
# target fails with EISDIR until someone removes <target>.redo.tmp by hand.
. "$(dirname "$0")/_common.sh"
cat > tree.do <<'X'
mkdir "$3"
echo one > "$3/a"
sleep 2
echo two > "$3/b"
X
setsid redo tree > /dev/null 2>&1 </dev/null &
pid=$!
sleep 0.7
kill -9 -$pid 2>/dev/null; wait $pid 2>/dev/null
echo "after the kill: $(ls -d tree* | tr '\n' ' ')"
viol=0
for i in 1 2; do
  timeout 30 redo-ifchange tree > out 2>&1 </dev/null; rc=$?
  echo "recovery run $i: redo-ifchange tree -> exit $rc: $(tail -1 out)"
  [ $rc != 0 ] && viol=1
done
echo "tree: $([ -d tree ] && ls tree | tr '\n' ' ' || echo MISSING)"
[ $viol = 1 ] && { echo VIOLATION; exit 1; }
echo "no violation"; exit 0
