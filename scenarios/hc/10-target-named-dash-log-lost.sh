#!/bin/bash
# C18: a target whose file name is "-" collides with the viewer's name for "my
# standard input": its header and all of its stderr lines are missing from the
# live output (top-level and nested), and "redo-log -r all" starts reading its
# own standard input instead of the target's log (it blocks on a terminal).
. "$(dirname "$0")/_common.sh"
echo 'echo "stderr line of target $1" >&2; echo out' > default.do
timeout 30 redo ./- other > live1 2>&1 </dev/null; echo "redo ./- other: exit $?"; sed 's/^/   /' live1
echo 'redo-ifchange ./-; echo "line of all" >&2' > all.do; rm -f ./-
timeout 30 redo all > live2 2>&1 </dev/null; echo "redo all (all.do asks for ./-): exit $?"; sed 's/^/   /' live2
( sleep 3 ) | timeout 10 redo-log -r --no-color all > replay 2>&1; rc=$?
echo "redo-log -r all with a standard input that stays open for 3 s: exit $rc after it waited for stdin"; sed 's/^/   /' replay
n=$(cat live1 live2 | grep -c 'stderr line of target -')
echo "lines of target '-' in the two live outputs: $n (expected 2)"
if [ "$n" != 2 ] || ! grep -q 'stderr line of target -' replay; then echo VIOLATION; exit 1; fi
echo "no violation"; exit 0
