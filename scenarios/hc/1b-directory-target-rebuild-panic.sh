#!/bin/bash
# C04: a directory target produced through $3 can be built once; the second
# build (nothing failed in the script) cannot rename over the non-empty
# directory, then panics removing the temp directory and leaves it behind.
. "$(dirname "$0")/_common.sh"
cat > dir.do <<'X'
mkdir "$3"; echo x > "$3/f"
X
timeout 30 redo dir > out1 2>&1; echo "first build: exit $?"
timeout 30 redo dir > out2 2>&1; rc=$?
echo "second build: exit $rc"; grep -i 'rename\|panicked\|failed to remove' out2
echo "left behind: $(ls -d *.redo.tmp 2>/dev/null)"
timeout 30 redo dir > out3 2>&1; rc3=$?; echo "third build: exit $rc3: $(tail -1 out3)"
if [ $rc = 101 ] || [ -e dir.redo.tmp ]; then echo VIOLATION; exit 1; fi
echo "no violation"; exit 0
