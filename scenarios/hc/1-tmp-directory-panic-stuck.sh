#!/bin/bash
# C04/C05/C10: a failing script that created $3 as a DIRECTORY makes redo panic
# (status 101, not the script's), leaves <target>.redo.tmp behind, skips the
# remaining -k targets, and every later build of the target fails with EISDIR
# even after the script has been repaired.
. "$(dirname "$0")/_common.sh"
cat > b.do <<'X'
mkdir "$3"; echo partial > "$3/f"; exit 3
X
echo 'echo c' > c.do
timeout 30 redo -k b c > out1 2>&1; rc1=$?
echo "run 1: redo -k b c -> exit $rc1"; grep -i 'panicked\|failed to remove' out1
echo "left behind: $(ls -d *.redo.tmp 2>/dev/null)"; echo "c built: $([ -e c ] && echo yes || echo no)"
echo 'echo repaired' > b.do
timeout 30 redo b > out2 2>&1; rc2=$?
echo "run 2 (script repaired): redo b -> exit $rc2: $(tail -1 out2)"
echo "b exists: $([ -e b ] && echo yes || echo no)"
viol=0
[ $rc1 = 101 ] && viol=1
[ -e b.redo.tmp ] && viol=1
[ ! -e c ] && viol=1
[ $rc2 != 0 ] && viol=1
[ $viol = 1 ] && echo "VIOLATION" || echo "no violation"
exit $viol
