#!/bin/bash
# C04: if redo cannot create <target>.redo.tmp to receive the script's stdout
# (here: the file system of the target directory has no free inode), the job
# fails with 209 - and the PREVIOUS target is deleted, because the code falls
# into the "script produced no output" branch.  Needs the right to mount a tmpfs.
. "$(dirname "$0")/_common.sh"
mkdir out
if ! mount -t tmpfs -o nr_inodes=8,size=1m tmpfs out 2>/dev/null; then echo "cannot mount a tmpfs here; skipped"; exit 0; fi
trap 'cd /; umount "$P/out" 2>/dev/null; rm -rf "$P"' EXIT
echo 1 > ver
echo 'echo "content of $1 version $(cat ver)"' > default.do
timeout 30 redo out/x > /dev/null 2>&1 </dev/null; echo "first build: exit $?  out/x=[$(cat out/x)]"
i=0; while touch out/fill$i 2>/dev/null; do i=$((i+1)); done; echo "(used up the remaining $i inodes of out/)"
echo 2 > ver
timeout 30 redo out/x > out.log 2>&1 </dev/null; rc=$?
echo "second build: exit $rc: $(grep -i 'does not exist\|copy stdout\|exit 209' out.log | head -2 | tr '\n' ' ')"
echo "out/x afterwards: $([ -e out/x ] && cat out/x || echo DELETED)   (expected: still version 1)"
if [ ! -e out/x ]; then echo VIOLATION; exit 1; fi
echo "no violation"; exit 0
