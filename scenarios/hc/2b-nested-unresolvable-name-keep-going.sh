#!/bin/bash
# C05: inside a .do script, "redo-ifchange good src/x other" (src is a regular
# file, so src/x cannot be resolved) under --keep-going builds NOTHING: the
# dependency-recording loop of redo-ifchange aborts before builder::run.  The
# same three names at top level build good and other (that case was fixed).
. "$(dirname "$0")/_common.sh"
echo 'echo $1' > default.do
echo plain > src
echo 'redo-ifchange good src/x other' > all.do
timeout 30 redo -k all > out 2>&1 </dev/null; echo "redo -k all: exit $?"; sed 's/^/   /' out
echo "nested:    good: $([ -e good ] && echo built || echo MISSING)   other: $([ -e other ] && echo built || echo MISSING)"
timeout 30 redo -k good2 src/x other2 > out 2>&1 </dev/null
echo "top level: good2: $([ -e good2 ] && echo built || echo MISSING)   other2: $([ -e other2 ] && echo built || echo MISSING)"
if [ ! -e good ] || [ ! -e other ]; then echo VIOLATION; exit 1; fi
echo "no violation"; exit 0
