#!/bin/bash
# C04: when the previous target is a (generated) symbolic link, a script that
# writes $1 directly is not detected (exit 0 instead of 206): the write goes
# through the link into a source file, and the target is then removed.
. "$(dirname "$0")/_common.sh"
echo precious > data.txt
echo 'ln -s data.txt "$3"' > l.do
timeout 30 redo l > /dev/null 2>&1; echo "first build: l -> $(readlink l)"
echo 'echo clobbered > "$1"' > l.do
timeout 30 redo l > out 2>&1; rc=$?
echo "second build (script writes \$1): exit $rc (expected 206 -> 1 at top level)"
echo "l: $([ -L l ] && readlink l || echo GONE)   data.txt: $(cat data.txt)"
if [ $rc = 0 ]; then echo VIOLATION; exit 1; fi
echo "no violation"; exit 0
