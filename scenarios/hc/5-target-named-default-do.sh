#!/bin/bash
# C13: a target called sub/default.do (not existing) has ./default.do as first
# existing rule - redo-whichdo says so - but redo refuses with "cannot depend on
# itself: cyclic dependency" (exit 208) because the candidate list contains the
# target itself; under -k the remaining targets are not built either.
. "$(dirname "$0")/_common.sh"
mkdir sub
echo 'echo "rule=root-default 1=$1"' > default.do
echo "redo-whichdo sub/default.do:"; timeout 30 redo-whichdo sub/default.do | sed 's/^/   /'; echo "   (exit ${PIPESTATUS[0]})"
timeout 30 redo -k sub/default.do other > out 2>&1; rc=$?
echo "redo -k sub/default.do other: exit $rc: $(tail -1 out | cut -c1-120)"
echo "sub/default.do: $([ -e sub/default.do ] && cat sub/default.do || echo MISSING)   other: $([ -e other ] && echo built || echo MISSING)"
if [ ! -e sub/default.do ] || [ ! -e other ]; then echo VIOLATION; exit 1; fi
echo "no violation"; exit 0
