#!/bin/bash
# C13: the own script of a target whose name begins with "-" is never run: it is
# passed to sh as "sh -e -x.do ..." and taken for an option string.
. "$(dirname "$0")/_common.sh"
echo 'echo "built by own script 1=$1 2=$2"' > ./-x.do
echo "redo-whichdo ./-x: $(timeout 30 redo-whichdo ./-x | tr '\n' ' ')"
timeout 30 redo ./-x > out 2>&1; rc=$?
echo "redo ./-x: exit $rc"; grep -i 'illegal\|invalid' out
echo "target: $([ -e ./-x ] && cat ./-x || echo MISSING)"
if [ $rc != 0 ] || [ ! -e ./-x ]; then echo VIOLATION; exit 1; fi
echo "no violation"; exit 0
