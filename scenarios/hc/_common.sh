# sourced by the reproduction scripts: $1 = bin directory with the redo symlinks
BIN=${1:?usage: $0 <bin-dir>}
for v in $(env | grep -o '^REDO_[A-Z_0-9]*'); do unset "$v"; done
unset MAKEFLAGS REDO
export PATH="$BIN:$PATH"
export RUST_BACKTRACE=0
P=$(mktemp -d /tmp/hunt-c-repro.XXXXXX)
trap 'cd /; rm -rf "$P"' EXIT
cd "$P"
