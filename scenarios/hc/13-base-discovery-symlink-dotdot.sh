#!/bin/bash
# C15: in an existing project, the spelling ld/../../t (ld -> real/d, so this is
# physically ./t) is cleaned LEXICALLY when the project base is looked for: the
# search starts above the project, finds no .redo and creates a second state
# database in the parent directory.  The same file now has two records (one in
# each database); "redo ld/../../t" and even "redo t ld/../../t" do not rebuild
# t ("exists and not marked as generated") and exit 0.
. "$(dirname "$0")/_common.sh"
mkdir -p outer/proj/real/d; cd outer/proj; ln -s real/d ld
echo 'echo "run" >> ../../trace; echo $1' > default.do
timeout 30 redo t > /dev/null 2>&1 </dev/null; echo "redo t: built ($(wc -l < ../../trace) run); databases: $(ls -d .redo ../.redo 2>/dev/null | tr '\n' ' ')"
timeout 30 redo ld/../../t > out 2>&1 </dev/null; echo "redo ld/../../t: exit $?: $(tail -1 out)"
timeout 30 redo t ld/../../t > out 2>&1 </dev/null; echo "redo t ld/../../t: exit $?: $(tail -1 out)"
runs=$(wc -l < ../../trace)
echo "script runs in total: $runs (expected 3)   databases: $(ls -d .redo ../.redo 2>/dev/null | tr '\n' ' ')"
if [ -d ../.redo ] || [ "$runs" != 3 ]; then echo VIOLATION; exit 1; fi
echo "no violation"; exit 0
