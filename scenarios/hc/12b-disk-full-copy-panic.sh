#!/bin/bash
# C04/C05: the file system of the target fills up while redo copies the script's
# stdout into <target>.redo.tmp: redo panics (exit 101), leaves the partial temp
# file behind and abandons the rest of a --keep-going run.  Needs mount rights.
. "$(dirname "$0")/_common.sh"
mkdir out
if ! mount -t tmpfs -o size=64k tmpfs out 2>/dev/null; then echo "cannot mount a tmpfs here; skipped"; exit 0; fi
trap 'cd /; umount "$P/out" 2>/dev/null; rm -rf "$P"' EXIT
echo 'head -c 300000 /dev/zero | tr "\0" A' > default.do
echo 'echo other' > other.do
timeout 30 redo -k out/x other > log 2>&1 </dev/null; rc=$?
echo "redo -k out/x other: exit $rc"; grep -i 'panicked\|could not copy' log | sed 's/^/   /'
echo "left in out/: $(ls out | tr '\n' ' ')   other: $([ -e other ] && echo built || echo MISSING)"
if [ $rc = 101 ] || [ -e out/x.redo.tmp ] || [ ! -e other ]; then echo VIOLATION; exit 1; fi
echo "no violation"; exit 0
