#!/bin/bash
# C18/C15: "redo-log -r link/x" (link -> real/sub) resolves the nested record
# "../y" lexically (link/../y = ./y) instead of physically (real/y): it prints,
# under the heading "real/y", the log of the unrelated target ./y.
. "$(dirname "$0")/_common.sh"
mkdir -p real/sub; ln -s real/sub link
cat > real/sub/x.do <<'X'
echo "x-line-1" >&2
redo-ifchange ../y
echo "x-line-2" >&2
X
echo 'echo "line of real/y" >&2; echo y' > real/y.do
echo 'echo "line of UNRELATED ./y" >&2; echo y' > y.do
timeout 30 redo link/x > live 2>&1
timeout 30 redo y > /dev/null 2>&1
echo "live output of 'redo link/x':"; sed 's/^/   /' live
timeout 30 redo-log -r --no-color link/x > replay 2>&1
echo "redo-log -r link/x:"; sed 's/^/   /' replay
timeout 30 redo-log -r --no-color real/sub/x > replay2 2>&1
if grep -q UNRELATED replay || ! grep -q 'line of real/y' replay; then echo VIOLATION; exit 1; fi
echo "no violation"; exit 0
