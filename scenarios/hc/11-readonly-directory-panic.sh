#!/bin/bash
# C04/C05: when the directory of an existing target is not writable, redo does not
# fail that target with a documented status: after "copy stdout" fails it goes on
# to the "script produced no output" branch, tries to DELETE the previous target
# and panics on EACCES (exit 101); the rest of a --keep-going run is abandoned.
# (Needs an unprivileged user: when run as root the script drops to "nobody".)
. "$(dirname "$0")/_common.sh"
if [ "$(id -u)" = 0 ]; then
  command -v setpriv >/dev/null || { echo "setpriv not available; cannot test as root"; exit 0; }
  chmod 755 "$P"; chown 65534:65534 "$P"
  N="setpriv --reuid=65534 --regid=65534 --clear-groups env HOME=$P"
  # the unprivileged user must be able to run the binaries and reach the project
  $N redo --version >/dev/null 2>&1 || { echo "user nobody cannot run $BIN/redo here; skipped"; exit 0; }
  $N sh -c 'cd "$0"' "$P" 2>/dev/null || { echo "user nobody cannot reach $P; skipped"; exit 0; }
else N=""; fi
$N sh -c 'mkdir ro; echo "echo out-\$1" > default.do'
timeout 30 $N redo ro/x > out0 2>&1 </dev/null; echo "first build: exit $?  ro/x=[$(cat ro/x)]"
$N chmod 555 ro
timeout 30 $N redo -k ro/x other > out 2>&1 </dev/null; rc=$?
echo "redo -k ro/x other (ro/ read-only): exit $rc"; grep -i 'does not exist\|panicked\|failed to remove' out | sed 's/^/   /'
echo "other: $([ -e other ] && echo built || echo MISSING)   ro/x=[$(cat ro/x)]"
$N chmod 755 ro
if [ $rc = 101 ] || [ ! -e other ]; then echo VIOLATION; exit 1; fi
echo "no violation"; exit 0
