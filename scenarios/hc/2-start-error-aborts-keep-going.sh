#!/bin/bash
# C05: with --keep-going, a target whose preparation fails inside BuildJob::start
# (here: its rule "x.do" is a directory; same with a .do file whose first line is
# not UTF-8, or a 300-character name) aborts the whole command: later targets are
# not built, and at -j3 the job already running is abandoned (its output is
# thrown away, the target is not installed).
. "$(dirname "$0")/_common.sh"
viol=0
echo '--- serial: redo -k a x b  (x.do is a directory)'
echo 'echo $1' > default.do
mkdir x.do
timeout 30 redo -k a x b > out 2>&1; echo "exit $?"; tail -1 out
echo "a: $([ -e a ] && echo built || echo MISSING)   b: $([ -e b ] && echo built || echo MISSING)"
[ -e b ] || viol=1
echo '--- serial: redo -k c y d  (first line of y.do is Latin-1)'
printf '# caf\xe9\necho hi\n' > y.do
timeout 30 redo -k c y d > out 2>&1; echo "exit $?"; tail -1 out
echo "c: $([ -e c ] && echo built || echo MISSING)   d: $([ -e d ] && echo built || echo MISSING)"
[ -e d ] || viol=1
echo '--- parallel: redo -j3 -k s1 x s2  (s* take 1 second)'
cat > default.do <<'X'
case $1 in s*) sleep 1;; esac
echo "finished $1" >> trace
echo $1
X
timeout 30 redo -j3 -k s1 x s2 > out 2>&1; echo "exit $?"; tail -1 out
sleep 2
echo "scripts that ran to the end: $(tr '\n' ' ' < trace 2>/dev/null)"
echo "s1: $([ -e s1 ] && echo built || echo MISSING)   s2: $([ -e s2 ] && echo built || echo MISSING)"
[ -e s1 ] || viol=1
[ $viol = 1 ] && echo VIOLATION || echo "no violation"
exit $viol
