#!/bin/bash
# C13: for a target reached through a symlinked directory, redo-whichdo walks the
# LEXICAL ancestors (other/) while the build walks the PHYSICAL ones (real/):
# whichdo names other/default.do as the rule, redo runs real/default.do.
. "$(dirname "$0")/_common.sh"
mkdir -p real/deep/sub other
ln -s ../real/deep/sub other/link
echo 'echo "built by other/default.do"' > other/default.do
echo 'echo "built by real/default.do"'  > real/default.do
echo 'echo "built by ./default.do"'     > default.do
echo "redo-whichdo other/link/x.txt:"; timeout 30 redo-whichdo other/link/x.txt | sed 's/^/   /'
chosen=$(timeout 30 redo-whichdo other/link/x.txt | tail -1)
timeout 30 redo other/link/x.txt > /dev/null 2>&1
actual=$(cat real/deep/sub/x.txt)
echo "whichdo's choice (last line): $chosen"
echo "content of the target:        $actual"
case "$actual" in *"$chosen"*) echo "no violation"; exit 0;; esac
echo VIOLATION; exit 1
