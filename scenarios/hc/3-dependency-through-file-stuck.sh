#!/bin/bash
# C05: once a recorded dependency path leads through a regular file (directory
# d/ replaced by a file d), deciding whether the dependent is dirty fails with
# ENOTDIR: redo-ifchange exits 1 without running any script, again on every
# later run (never retried), and under --keep-going the unrelated target u is
# not built either.  redo-ood / redo-sources fail the same way.
. "$(dirname "$0")/_common.sh"
mkdir d; echo x > d/x
cat > t.do <<'X'
if [ -d d ]; then redo-ifchange d/x; cat d/x; else redo-ifchange d; cat d; fi
X
echo 'echo u' > u.do
echo 'redo-ifchange t u' > all.do
timeout 30 redo all > /dev/null 2>&1; echo "initial build: exit $?  t=[$(cat t)]"
rm -r d; echo now-a-file > d; rm u
for i in 1 2; do
  timeout 30 redo-ifchange t > out 2>&1; echo "redo-ifchange t (run $i): exit $?: $(tail -1 out)"
done
timeout 30 redo -k all > out 2>&1; rc=$?; echo "redo -k all: exit $rc"
echo "t=[$(cat t)] (expected now-a-file)   u: $([ -e u ] && echo built || echo MISSING)"
timeout 30 redo-ood > out 2>&1; echo "redo-ood: exit $?: $(tail -1 out)"
if [ "$(cat t)" != now-a-file ] || [ ! -e u ]; then echo VIOLATION; exit 1; fi
echo "no violation"; exit 0
