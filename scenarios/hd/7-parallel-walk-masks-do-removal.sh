#!/bin/bash
# C01 (and C07, C02's ".do file / higher-priority .do" clause): same root cause as script 6 with another trigger: x.do is removed,
# so x is rebuilt by default.do; while that job runs, x's record already says "x.do absent (ifcreate), default.do unchanged",
# a concurrent check at -j2 finds x clean, and the new content of x never reaches y: stale at exit 0, for ever.
bin=$(cd "$1" && pwd) || exit 2
for v in $(env | grep -o '^REDO_[A-Z_]*'); do unset "$v"; done; unset MAKEFLAGS
export PATH="$bin:$PATH"
P=$(mktemp -d) || exit 2; trap 'rm -rf "$P"' EXIT; cd "$P" || exit 2
mkdir .redo   # pin the project base here (a stray .redo in an ancestor directory would otherwise be adopted)
export TRACE="$P/trace"; : > "$TRACE"
mkx() { printf 'echo x >> "$TRACE"\necho from-x.do\n' > x.do; }
mkx
cat > default.do <<'X'
echo "default:$1" >> "$TRACE"
sleep 1
echo from-default.do
X
cat > y.do <<'X'
echo y >> "$TRACE"
redo-ifchange x
cat x
X
cat > b.do <<'X'
echo b >> "$TRACE"
sleep 0.4
redo-ifchange y
cat y
X
show() { echo "x=$(cat x) y=$(cat y) b=$(cat b)"; }
redo -j2 x b w >/dev/null 2>&1 || exit 2      # w is built by default.do, so default.do is a known, unchanged file
rm x.do; : > "$TRACE"; redo -j1 x b >/dev/null 2>&1; rcs=$?; ts=$(sort "$TRACE" | tr '\n' ' '); cs=$(show)
rm x; mkx; redo -j1 x b >/dev/null 2>&1 || exit 2
rm x.do; : > "$TRACE"; redo -j2 x b >/dev/null 2>&1; rcp=$?; tp=$(sort "$TRACE" | tr '\n' ' '); cp=$(show)
: > "$TRACE"; redo-ifchange y b 2>/dev/null; rc3=$?; t3=$(sort "$TRACE" | tr '\n' ' '); c3=$(show)
echo "b -> y -> x; x.do removed (default.do takes over), then 'redo x b'"
echo "demanded (C01/C07): as at -j1:   rc=$rcs ran: $ts -> $cs"
echo "observed at -j2:               rc=$rcp ran: $tp -> $cp"
echo "then serial redo-ifchange y b: rc=$rc3 ran: ${t3:-nothing} -> $c3"
[ "$rcp" = 0 ] && [ "$cp" != "$cs" ] && exit 1
exit 0
