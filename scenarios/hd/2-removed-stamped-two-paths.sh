#!/bin/bash
# C03 (and C02): a checksummed target whose file was removed and that is reachable on two paths
# (all -> 1.t -> b*, all -> 2.t -> b*) is regenerated with an unchanged checksum, yet all.do and 1.t run:
# the first look at the missing b stores failed_runid=0, the second look reads that as "failed last time" = definitely dirty.
bin=$(cd "$1" && pwd) || exit 2
for v in $(env | grep -o '^REDO_[A-Z_]*'); do unset "$v"; done; unset MAKEFLAGS
export PATH="$bin:$PATH"
P=$(mktemp -d) || exit 2; trap 'rm -rf "$P"' EXIT; cd "$P" || exit 2
mkdir .redo   # pin the project base here (a stray .redo in an ancestor directory would otherwise be adopted)
export TRACE="$P/trace"; : > "$TRACE"
cat > default.t.do <<'X'
echo "$1" >> "$TRACE"
redo-ifchange b
cat b
X
cat > b.do <<'X'
echo b >> "$TRACE"
redo-ifchange src
cat src > "$3"
redo-stamp < "$3"
X
cat > all.do <<'X'
echo all >> "$TRACE"
redo-ifchange 1.t 2.t
cat 1.t 2.t
X
echo 1 > src
redo-ifchange all 2>/dev/null || exit 2
# control: one path only
rm b; : > "$TRACE"
redo-ifchange 1.t 2>/dev/null || exit 2
ctl=$(tr '\n' ' ' < "$TRACE")
# two paths
rm b; : > "$TRACE"
redo-ifchange all 2>/dev/null; rc=$?
ran=$(tr '\n' ' ' < "$TRACE")
echo "b (redo-stamp) removed, sources unchanged, so b is regenerated with the same checksum"
echo "demanded (C03/C02): only b runs                      [control 'redo-ifchange 1.t' ran: $ctl]"
echo "observed 'redo-ifchange all': rc=$rc, scripts run: $ran"
[ "$ran" != "b " ] && exit 1
exit 0
