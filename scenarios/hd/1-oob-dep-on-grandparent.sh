#!/bin/bash
# C02: when a running script's redo-ifchange has to rebuild a checksummed target out of band
# (redo-unlocked), that target is recorded as a dependency of the *running script's* target
# (all -> c, never declared by all.do); after t stops declaring c, an edit below c still runs c.do and all.do.
bin=$(cd "$1" && pwd) || exit 2
for v in $(env | grep -o '^REDO_[A-Z_]*'); do unset "$v"; done; unset MAKEFLAGS
export PATH="$bin:$PATH"
P=$(mktemp -d) || exit 2; trap 'rm -rf "$P"' EXIT; cd "$P" || exit 2
mkdir .redo   # pin the project base here (a stray .redo in an ancestor directory would otherwise be adopted)
export TRACE="$P/trace"; : > "$TRACE"
cat > all.do <<'X'
echo all >> "$TRACE"
redo-ifchange t
cat t
X
cat > t.do <<'X'
echo t >> "$TRACE"
redo-ifchange cfg
if [ "$(cat cfg)" = usec ]; then redo-ifchange c; fi
echo T > "$3"
redo-stamp < "$3"
X
cat > c.do <<'X'
echo c >> "$TRACE"
redo-ifchange src
cat src > "$3"
redo-stamp < "$3"
X
echo usec > cfg; echo 1 > src
redo-ifchange all 2>/dev/null || exit 2      # all -> t* -> c* -> src
echo 2 > src
redo all 2>/dev/null || exit 2               # all.do runs; its 'redo-ifchange t' rebuilds c out of band
echo noc > cfg
redo-ifchange all 2>/dev/null || exit 2      # t is rebuilt and stops declaring c; t's checksum is unchanged, all is not run
echo 3 > src                                 # c is no longer in the closure of all
: > "$TRACE"
redo-ifchange all 2>/dev/null; rc=$?
ran=$(tr '\n' ' ' < "$TRACE")
echo "closure of all is now {all, t}; t declares only cfg and t.do; src (input of c only) was edited"
echo "demanded (C02): redo-ifchange all runs nothing"
echo "observed: rc=$rc, scripts run: ${ran:-none}"
[ -n "$ran" ] && exit 1
exit 0
