#!/bin/bash
# C01 (and C07): at -j2 a dirtiness check made by one job while another job is still rebuilding x -- after x.do has
# re-declared its removed optional input with redo-ifcreate -- finds x clean and marks it "checked in this run";
# the finished rebuild of x then records no change: y (which depends on x) keeps the old content at exit 0, for ever.
bin=$(cd "$1" && pwd) || exit 2
for v in $(env | grep -o '^REDO_[A-Z_]*'); do unset "$v"; done; unset MAKEFLAGS
export PATH="$bin:$PATH"
P=$(mktemp -d) || exit 2; trap 'rm -rf "$P"' EXIT; cd "$P" || exit 2
mkdir .redo   # pin the project base here (a stray .redo in an ancestor directory would otherwise be adopted)
export TRACE="$P/trace"; : > "$TRACE"
cat > x.do <<'X'
echo x >> "$TRACE"
if [ -e o ]; then redo-ifchange o; cat o; else redo-ifcreate o; echo none; fi
sleep 1
X
cat > y.do <<'X'
echo y >> "$TRACE"
redo-ifchange x
cat x
X
cat > b.do <<'X'
echo b >> "$TRACE"
sleep 0.4
redo-ifchange y
cat y
X
show() { echo "x=$(cat x) y=$(cat y) b=$(cat b)"; }
echo 1 > o
redo -j2 x b >/dev/null 2>&1 || exit 2
# serial control
rm o; : > "$TRACE"; redo -j1 x b >/dev/null 2>&1; rcs=$?; ts=$(sort "$TRACE" | tr '\n' ' '); cs=$(show)
echo 1 > o; redo -j1 x b >/dev/null 2>&1 || exit 2
# the same edit, built at -j2
rm o; : > "$TRACE"; redo -j2 x b >/dev/null 2>&1; rcp=$?; tp=$(sort "$TRACE" | tr '\n' ' '); cp=$(show)
: > "$TRACE"; redo-ifchange y b 2>/dev/null; rc3=$?; t3=$(sort "$TRACE" | tr '\n' ' '); c3=$(show); ood=$(redo-ood | tr '\n' ' ')
echo "b -> y -> x -> (optional source o); o removed, then 'redo x b'"
echo "demanded (C01/C07): as at -j1:   rc=$rcs ran: $ts -> $cs"
echo "observed at -j2:               rc=$rcp ran: $tp -> $cp"
echo "then serial redo-ifchange y b: rc=$rc3 ran: ${t3:-nothing} -> $c3   redo-ood: ${ood:-nothing}"
[ "$rcp" = 0 ] && [ "$cp" != "$cs" ] && exit 1
exit 0
