#!/bin/bash
# C03 (and C02): a checksummed target c that failed once in a separate 'redo-ifchange c' (its consumer t was not
# requested in that run and never failed) is later regenerated with an unchanged checksum, yet t.do runs:
# "failed last time" makes c definitely dirty for t's check instead of "rebuild c first, then compare checksums".
bin=$(cd "$1" && pwd) || exit 2
for v in $(env | grep -o '^REDO_[A-Z_]*'); do unset "$v"; done; unset MAKEFLAGS
export PATH="$bin:$PATH"
P=$(mktemp -d) || exit 2; trap 'rm -rf "$P"' EXIT; cd "$P" || exit 2
mkdir .redo   # pin the project base here (a stray .redo in an ancestor directory would otherwise be adopted)
export TRACE="$P/trace"; : > "$TRACE"
cat > t.do <<'X'
echo t >> "$TRACE"
redo-ifchange c
cat c
X
cat > c.do <<'X'
echo c >> "$TRACE"
redo-ifchange s
grep -q bad s && exit 1
cat s > "$3"
redo-stamp < "$3"
X
echo 1 > s
redo-ifchange t 2>/dev/null || exit 2
echo bad > s
redo-ifchange c 2>/dev/null && exit 2        # only c is requested; it fails; t is not part of this run
echo 1 > s                                   # repaired: c will have exactly the content t was built from
: > "$TRACE"
redo-ifchange t 2>/dev/null; rc=$?
ran=$(tr '\n' ' ' < "$TRACE")
# control: the same history without the failing run
echo 2 > s; redo-ifchange t 2>/dev/null; : > "$TRACE"
touch s; redo-ifchange t 2>/dev/null; ctl=$(tr '\n' ' ' < "$TRACE")
echo "t -> c (redo-stamp) -> s; c failed once on its own, then s was restored: c is rebuilt with the same checksum"
echo "demanded (C03/C02): only c runs                    [control, s touched without a failure in between: $ctl]"
echo "observed: rc=$rc, scripts run: $ran"
[ "$ran" != "c " ] && exit 1
exit 0
