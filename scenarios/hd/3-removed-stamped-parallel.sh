#!/bin/bash
# C07 (and C03): same root cause as script 2, seen as schedule dependence: with b* removed,
# 'redo-ifchange 1.t 2.t 3.t' runs only b at -j1 but also runs 2.t/3.t at -j2 and above
# (their dirtiness check reads the failed_runid=0 stored by 1.t's check while b is still being rebuilt).
bin=$(cd "$1" && pwd) || exit 2
for v in $(env | grep -o '^REDO_[A-Z_]*'); do unset "$v"; done; unset MAKEFLAGS
export PATH="$bin:$PATH"
P=$(mktemp -d) || exit 2; trap 'rm -rf "$P"' EXIT; cd "$P" || exit 2
mkdir .redo   # pin the project base here (a stray .redo in an ancestor directory would otherwise be adopted)
export TRACE="$P/trace"; : > "$TRACE"
cat > default.t.do <<'X'
echo "$1" >> "$TRACE"
redo-ifchange b
cat b
X
cat > b.do <<'X'
echo b >> "$TRACE"
redo-ifchange src
sleep 0.3
cat src > "$3"
redo-stamp < "$3"
X
echo 'redo-ifchange 1.t 2.t 3.t' > top.do     # phony wrapper so that -j can be given
echo 1 > src
redo top >/dev/null 2>&1 || exit 2
rm b; : > "$TRACE"
redo -j1 top >/dev/null 2>&1; rc1=$?; s1=$(sort "$TRACE" | tr '\n' ' ')
rm b; : > "$TRACE"
redo -j3 top >/dev/null 2>&1; rc3=$?; s3=$(sort "$TRACE" | tr '\n' ' ')
echo "b (redo-stamp) removed before each run; it is regenerated with the same checksum"
echo "demanded (C07/C03): the same set of scripts at every -j, namely: b"
echo "observed: -j1 rc=$rc1 ran: $s1"
echo "observed: -j3 rc=$rc3 ran: $s3"
[ "$s1" != "$s3" ] && exit 1
[ "$s3" != "b " ] && exit 1
exit 0
