#!/bin/bash
# C18: an unterminated last line written after a nested target must be shown as a line of its
# own under "resumed <target>", live and in the replay (it was glued to the next record, under the nested target).
BIN=${1:?usage: $0 <bin-dir>}
BIN=$(cd "$BIN" && pwd)
for v in $(env | sed -n 's/^\(REDO_[A-Za-z_]*\)=.*/\1/p'); do unset "$v"; done
unset MAKEFLAGS
export PATH="$BIN:$PATH"
P=$(mktemp -d)
trap 'rm -rf "$P"' EXIT
cd "$P"
cat > c.do <<'X'
echo C1 >&2
echo c
X
cat > t.do <<'X'
echo A >&2
redo-ifchange c
printf 'partial-t' >&2
echo t
X
f() { sed 's/^@@REDO:\([a-z]*\):[0-9]*:[0-9.]*@@ /\1 /'; }
live=$(redo --no-pretty --no-color --no-status t 2>&1 | f)
replay=$(redo-log -r --no-pretty --no-color --no-status t | f)
want=$(printf 'do t\nA\ndo c\nC1\ndone 0 c\nresumed t\npartial-t')
viol=0
echo "--- live"; echo "$live"
echo "--- replay"; echo "$replay"
[ "$(echo "$live" | head -7)" = "$want" ] || { echo "VIOLATION (live): expected 'partial-t' on its own line under 'resumed t'"; viol=1; }
[ "$replay" = "$want" ] || { echo "VIOLATION (replay): expected 'partial-t' on its own line under 'resumed t'"; viol=1; }
exit $viol
