#!/bin/bash
# C10: a kill between installing a target and recording its stamp (the instant of known shape 1), when it hits the
# FIRST build of a target whose script calls redo-stamp, leaves "generated, no stamp" in the database: every later
# redo/redo-ifchange of that target panics (builder.rs:142, exit 101) instead of repairing it.
BIN=$(cd "${1:?usage: $0 bindir}" && pwd)
for v in $(env | grep -o '^REDO[A-Z_]*'); do unset $v; done; unset MAKEFLAGS
export PATH=$BIN:$PATH
P=$(mktemp -d); trap 'rm -rf $P' EXIT; cd $P
printf 'echo hello > $3\nredo-stamp < $3\n' > t.do
printf 'echo other\n' > other.do
timeout 20 redo-ifchange other >/dev/null 2>&1        # creates the database
# slow every write to the WAL down so that the window between rename(t.redo.tmp,t) and the commit is 0.2 s wide
setsid strace -f -o /dev/null -e trace=write -P "$P/.redo/db.sqlite3-wal" -e inject=write:delay_enter=200000 \
    redo-ifchange t >/dev/null 2>&1 &
pg=$!
for i in $(seq 1 4000); do [ -e t ] && break; sleep 0.005; done
kill -9 -- -$pg 2>/dev/null; wait 2>/dev/null
sleep 0.2
[ -e t ] || { echo "setup failed: t was never installed"; exit 0; }
out=$(timeout 20 redo-ifchange t 2>&1); rc=$?
out2=$(timeout 20 redo t 2>&1); rc2=$?
echo "after kill -9 of the whole tree right after t was installed:"
echo "  redo-ifchange t -> rc=$rc   redo t -> rc=$rc2"
echo "$out" | grep -m2 -E 'panicked|unwrap|modified'
echo "expected (C10): the next redo-ifchange terminates with 0 and leaves t correct, without manual cleanup"
if echo "$out$out2" | grep -q panicked; then exit 1; fi
exit 0
