#!/bin/bash
# C16: several very first redo-ifchange invocations started at the same time in one fresh directory:
# some of them fail with "could not connect: database is locked" (and their dependency records are missing).
BIN=$(cd "${1:?usage: $0 bindir}" && pwd)
for v in $(env | grep -o '^REDO[A-Z_]*'); do unset $v; done; unset MAKEFLAGS
export PATH=$BIN:$PATH
TOP=$(mktemp -d); trap 'rm -rf $TOP' EXIT
N=16
for round in $(seq 1 ${ROUNDS:-15}); do
  P=$TOP/p$round; mkdir $P; cd $P
  for i in $(seq 1 $N); do printf 'redo-ifchange s%s\ncat s%s\n' $i $i > t$i.do; echo $i > s$i; done
  for i in $(seq 1 $N); do ( while [ ! -e $TOP/go$round ]; do :; done; timeout 20 redo-ifchange t$i > out.$i 2>&1; echo $? > rc.$i ) & done
  sleep 0.1; : > $TOP/go$round   # start gate: all begin together
  wait
  bad=""
  for i in $(seq 1 $N); do [ "$(cat rc.$i)" = 0 ] || bad="$bad t$i(rc=$(cat rc.$i): $(grep -v '^$' out.$i | tail -1))"; done
  if [ -n "$bad" ]; then
    echo "round $round: $N simultaneous first 'redo-ifchange tK' in an empty project; none of the scripts can fail."
    echo "observed: $bad"
    echo "expected (C16): every invocation exits 0; none fails with a database-busy or lock error"
    exit 1
  fi
  cd $TOP; rm -rf $P
done
echo "no failure in ${ROUNDS:-15} rounds"
exit 0
