#!/bin/bash
# C01: first build started inside sub/ (creates sub/.redo), later build from the
# project top (creates ./.redo): in the top database sub/x is a plain source, so
# editing its input leaves sub/x and all stale while redo-ifchange all exits 0.
# prelude: $1 = bin directory with the redo symlinks; fresh temp project; clean environment
BIN=${1:?usage: $0 <bin-dir>}
BIN=$(cd "$BIN" && pwd)
for v in $(env | sed -n 's/^\(REDO_[A-Za-z_]*\)=.*/\1/p'); do unset "$v"; done
unset MAKEFLAGS
export PATH="$BIN:$PATH"
P=$(mktemp -d)
trap 'rm -rf "$P"' EXIT
cd "$P"
export TRACE="$P/TRACE"; : > "$TRACE"
trace() { tr '\n' ' ' < "$TRACE"; }
clr() { : > "$TRACE"; }
mkdir sub
cat > sub/x.do <<'X'
echo x >>$TRACE
redo-ifchange s
cat s
X
cat > all.do <<'X'
echo all >>$TRACE
redo-ifchange sub/x
cat sub/x
X
echo v1 > sub/s
(cd sub && redo-ifchange x) >/dev/null 2>&1 || exit 0
redo-ifchange all >/dev/null 2>&1 || exit 0
echo "state dirs: $(ls -d .redo sub/.redo 2>/dev/null | tr '\n' ' ')"
sleep 0.05; echo v2 > sub/s; clr
redo-ifchange all >/dev/null 2>&1; rc=$?
echo "after editing sub/s: redo-ifchange all rc=$rc ran=[$(trace)] all=$(cat all) sub/x=$(cat sub/x) (expected v2)"
echo "redo-sources at top: [$(redo-sources | tr '\n' ' ')]"
if [ $rc = 0 ] && [ "$(cat all)" != v2 ]; then echo "VIOLATION: exit 0 with stale all / sub/x"; exit 1; fi
exit 0
