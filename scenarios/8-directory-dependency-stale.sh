#!/bin/bash
# C01 (inherited design limit): a declared dependency on a directory only sees the
# directory appear/disappear; adding a file leaves the listing target stale.
# prelude: $1 = bin directory with the redo symlinks; fresh temp project; clean environment
BIN=${1:?usage: $0 <bin-dir>}
BIN=$(cd "$BIN" && pwd)
for v in $(env | sed -n 's/^\(REDO_[A-Za-z_]*\)=.*/\1/p'); do unset "$v"; done
unset MAKEFLAGS
export PATH="$BIN:$PATH"
P=$(mktemp -d)
trap 'rm -rf "$P"' EXIT
cd "$P"
export TRACE="$P/TRACE"; : > "$TRACE"
trace() { tr '\n' ' ' < "$TRACE"; }
clr() { : > "$TRACE"; }
mkdir src; echo 1 > src/a
cat > list.do <<'X'
echo list >>$TRACE
redo-ifchange src
ls src
X
redo-ifchange list >/dev/null 2>&1 || exit 0
sleep 0.05; echo 2 > src/b; clr
redo-ifchange list >/dev/null 2>&1; rc=$?
echo "after adding src/b: rc=$rc ran=[$(trace)] list=[$(tr '\n' ' ' <list)] expected=[$(ls src | tr '\n' ' ')]"
if [ $rc = 0 ] && [ "$(cat list)" != "$(ls src)" ]; then echo "VIOLATION: exit 0 with stale list"; exit 1; fi
exit 0
