"""C05 -- decided on the serial build model: theorems in coq/props/C05.v, tie and
oracles in lib/serial_check.py (see its TABLE entry).  Plus one fixed scenario
outside the script DSL: a target whose NAME cannot be resolved (a path through
a regular file) among buildable ones, with --keep-going and with jobs running."""
import os
import subprocess
import e2e
import serial_check


def unresolvable_name(run_):
    out = {"evaluations": 2, "violations": []}
    pr = e2e.Project(run_["bindir"], "c05name")
    try:
        w = lambda n, s: open(os.path.join(pr.root, n), "w").write(s)
        w("f", "a regular file\n")
        w("a.t.do", "echo a\n")
        w("b.t.do", "echo b\n")
        w("slow.do", "sleep 1.2\necho slow\n")
        run = lambda *a: subprocess.run(list(a), cwd=pr.root, env=pr.env, stdout=subprocess.PIPE, stderr=subprocess.PIPE, timeout=60)
        ex = lambda n: os.path.exists(os.path.join(pr.root, n))
        r1 = run("redo", "-k", "a.t", "f/x", "b.t")
        if r1.returncode == 0 or not ex("a.t") or not ex("b.t"):
            out["violations"].append({"oracle": "with --keep-going every requested target that does not depend on a failed one is still built",
                                      "cmd": "redo -k a.t f/x b.t   (f is a regular file)", "exit": r1.returncode, "a.t built": ex("a.t"), "b.t built": ex("b.t"),
                                      "stderr": r1.stderr.decode(errors="replace")[-300:]})
        r2 = run("redo", "-j2", "slow", "f/x")
        built_at_exit = ex("slow")
        tg = run("redo-targets").stdout.decode().split()
        if r2.returncode == 0 or not built_at_exit or "slow" not in tg:
            out["violations"].append({"oracle": "a failing command does not abandon the jobs it has started",
                                      "cmd": "redo -j2 slow f/x   (slow.do sleeps 1.2 s)", "exit": r2.returncode,
                                      "slow installed when redo exited": built_at_exit, "slow known as a target": "slow" in tg,
                                      "stderr": r2.stderr.decode(errors="replace")[-300:]})
    finally:
        pr.close()
    return out


def run(res):
    serial_check.run(res, "C05", extra_oracle=unresolvable_name)


replay = serial_check.replay
