"""C18 -- build output is logged completely, once, under the right target.

(a) Proof: props/C18.v (format/parse round trip for every well-formed record,
soundness of parse, done-record round trip).  Tie: model format/parse vs
redo::logs::Meta (Display via the hook redo::verif::meta_format, and
Meta::parse) on exhaustive small strings over a record-relevant alphabet,
random records and a malformed stream.
(b) E2E: scripts emit numbered stderr lines; redo-log replay and live output
are checked for exactly-once / in-order / right-target (lib/e2e_c18)."""
import os
import common
import pure
from common import hexs, unhex

ALPHA = [b"@", b":", b"R", b" ", b"0", b".", b"a"]
KINDS = [b"do", b"done", b"unchanged", b"waiting", b"locked", b"unlocked", b"check", b"debug", b"x", b"", b"a b", b"\xc3\xa9"]
WS = [b"\r", b"\t", b"\x0b", b"\x0c", b"\x00", b" ", b"\xc2\xa0", b"\xe2\x80\xa8"]   # bytes a "tolerant" parser might trim
TEXTS = [b"\r", b"t\r", b"0 out/x\r", b"\rt", b"t \r", b"t\t", b" t", b"t ", b"\x0bt\x0c", b"", b"t", b"a/b c", b"@@ ", b"@@REDO:do:1:1.0000@@ ghost", b"0 t", b"12 a b", b"@", b"@@", b" @@ @@ ", b"x@@REDO:", "é ü".encode(), b":" * 5, b"a" * 300]


def rec_line(kind, pid, ts, text):
    return "mfmt %s %s %s %s" % (hexs(kind), hexs(str(pid)), hexs("%d.%04d" % (ts // 10000, ts % 10000)), hexs(text))


def run(res):
    t = common.tier()
    r = common.rng("c18")
    proof = common.prove("C18")
    if t == "thorough":
        proof["coqchk_axioms"] = common.coqchk("C18")
    # ---- format: well-formed records
    recs = []
    small_text = list(pure.exhaustive(ALPHA, 4 if t == "quick" else 5))
    for txt in small_text:
        recs.append((r.choice(KINDS), r.choice([0, 1, 7, 4242, 2147483647, -1, -2147483648]), r.choice([0, 1, 9999, 10000, 12345678, 17000000001234, 99999999999999]), txt))
    for _ in range(20000 if t == "quick" else 200000):
        kind = r.choice(KINDS) if r.random() < 0.7 else bytes(r.choice(b"abcdefgh -_.0") for _ in range(r.randint(0, 6)))
        text = r.choice(TEXTS) if r.random() < 0.5 else b"".join(r.choice(ALPHA + [b"e", b"D", b"O", b"E", b"\t"]) for _ in range(r.randint(0, 30)))
        if r.random() < 0.2:
            # leading / trailing bytes that look like white space: legal text, must survive unchanged
            text = (r.choice(WS) if r.random() < 0.5 else b"") + text + (r.choice(WS) if r.random() < 0.7 else b"")
            if b"\n" in text:
                text = text.replace(b"\n", b"")
        recs.append((kind, r.randint(-2**31, 2**31 - 1) if r.random() < 0.3 else r.randint(1, 99999), r.randint(0, 2 * 10**14), text))
    fmt_lines = [rec_line(*x) for x in recs]
    # ---- parse: exhaustive small tails after the prefix + mutations of valid lines (malformed stream)
    parse_inputs = []
    tails = list(pure.exhaustive(ALPHA, 6 if t == "quick" else 7))
    for tl in tails:
        parse_inputs.append(b"@@REDO:" + tl)
    for tl in tails[:3000]:
        parse_inputs.append(tl)
    BAD_TS = [b"", b"x", b"1.2.3", b"--1", b"1,5", b"abc", b"1.0000", b"12.3456", b"0.0001", b"0", b"7", b"1.", b".5", b".", b"00.10", b"1.25", b"3.1"]
    BAD_PID = [b"", b"-", b"+", b"+5", b"-5", b"007", b"2147483647", b"2147483648", b"-2147483648", b"-2147483649", b"1 ", b"x", b"99999999999999999999"]
    for _ in range(20000 if t == "quick" else 100000):
        k = r.choice(KINDS + [b"a@b", b"a:b"])
        p = r.choice(BAD_PID) if r.random() < 0.5 else str(r.randint(1, 99999)).encode()
        s = r.choice(BAD_TS) if r.random() < 0.5 else b"%d.%04d" % (r.randint(0, 10**10), r.randint(0, 9999))
        x = r.choice(TEXTS) + (r.choice(WS) if r.random() < 0.15 else b"")
        sep = r.choice([b"@@ ", b"@@ ", b"@@ ", b"@@", b"@ ", b" @@ ", b""])
        extra = r.choice([b"", b"", b":more", b":"])
        parse_inputs.append(b"@@REDO:" + k + b":" + p + b":" + s + extra + sep + x)
    parse_lines = ["mparse " + hexs(s) for s in parse_inputs]
    lines = fmt_lines + parse_lines
    m, i = pure.both(lines)
    d = pure.diff(lines, m, i)
    # ---- property oracle on the implementation: parse(format m) == m
    fm = i[:len(fmt_lines)]
    viol = []
    back = pure.impl_only(["mparse " + x for x in fm if x != "PANIC"])
    k = 0
    nontriv = set()
    for rec, f in zip(recs, fm):
        kind, pid, ts, text = rec
        wf = not any(c in kind for c in b":@\n") and b"\n" not in text
        if f == "PANIC":
            if wf:
                viol.append({"oracle": "format-defined", "record": repr(rec)})
            continue
        b = back[k]; k += 1
        if not wf:
            continue
        exp = "OK %s %d %d.%04d %s" % (hexs(kind), pid, ts // 10000, ts % 10000, hexs(text))
        if b != exp:
            viol.append({"oracle": "roundtrip", "record": repr(rec), "formatted": repr(unhex(f)), "parsed_back": b, "expected": exp})
        if b"@" in text or b":" in text:
            nontriv.add(rec)
    e2e = None
    try:
        import e2e_c18
        e2e = e2e_c18.run(res, r, t)
        viol += e2e.get("violations", [])
    except ImportError:
        pass
    # ---- the replay model (LogRec/Catlog.v) against `redo-log -r [-u]` on real logs
    import catlog_tie
    ct = catlog_tie.run(common.build_redo(True), common.rng("c18-catlog"), 14 if t == "quick" else 120)
    viol += ct["oracle_failures"][:3]
    cov = dict(proof)
    cov.update({
        "replay_model_tie": {k: v for k, v in ct.items() if k not in ("disagreements", "oracle_failures")},
        "replay_model_disagreements": len(ct["disagreements"]),
        "trusted_base": ["Coq 8.16.1 kernel", "extraction (ExtrOcamlBasic only) + ocaml/driver.ml", "harness/src/pharness.rs + hook redo::verif::meta_format",
                         "lib/catlog_tie.py (reads .redo/log.* and the Files table, normalises pid and time stamp of records on both sides)",
                         "models are hand-written: theories/LogRec/Catlog.v (static replay; lossy UTF-8 decoding, Unicode white space and the stdin pseudo target '-' are outside it)",
                         "model is hand-written: theories/LogRec/Meta.v; f64 timestamps are modelled as integers in 1e-4 s units"],
        "evaluations": len(lines) + (e2e or {}).get("evaluations", 0) + ct["evaluations"],
        "distinct_nontrivial": len(nontriv),
        "rule": "format: every text over {@ : R space 0 . a} up to length %d with sampled kind/pid/ts + random records (texts resembling records included); parse: '@@REDO:'+every tail up to length %d, bare tails, and a malformed stream (bad pids, bad timestamps, broken separators, extra fields); non-trivial = well-formed record whose text contains '@' or ':'" % (4 if t == "quick" else 5, 6 if t == "quick" else 7),
        "exhaustive": True,
        "samples": [repr(x) for x in recs[100:103]] + [repr(x) for x in parse_inputs[-3:]],
        "input_distribution": {"format_cases": len(fmt_lines), "parse_cases": len(parse_lines),
                               "parse_ok_impl": sum(1 for x in i[len(fmt_lines):] if x.startswith("OK")),
                               "parse_err_impl": sum(1 for x in i[len(fmt_lines):] if x == "ERR")},
        "correspondence_disagreements": len(d),
        "oracle_failures": len(viol),
        "e2e": e2e,
    })
    res.coverage = cov
    res.assumptions = ["timestamps below 2^53/10^4 s so that f64 carries 4 decimals exactly", "A-APPEND for part (b)"]
    kn, _ = common.known_findings()
    if viol:
        for v in viol[:3]:
            res.violation({"property": "C18", "kind": "property-oracle-on-implementation", "failing": v})
    elif d:
        res.violation({"property": "C18", "kind": "correspondence", "broken": "model LogRec/Meta.v vs redo::logs::Meta",
                       "theorems_no_longer_tied": ["C18a_roundtrip", "C18a_parse_sound"], "first_disagreements": d}, found_input=False)
    elif ct["disagreements"]:
        res.violation({"property": "C18", "kind": "correspondence", "broken": "model LogRec/Catlog.v vs `redo-log -r [-u]` on the logs of real builds",
                       "theorems_no_longer_tied": ["C18b_replay_lines_once", "C18b_replay_attributed", "C18b_follow_equals_static"],
                       "first_disagreements": ct["disagreements"][:2]}, found_input=False)


def replay(path):
    import json
    print(json.dumps(json.load(open(path)), indent=1))
    return 0
