"""C12 -- see lib/par_props.py (run_c12) and coq/props/C12.v."""
import json
import par_props


def run(res):
    par_props.run_c12(res)


def replay(path):
    print(json.dumps(json.load(open(path)), indent=1))
    return 0
