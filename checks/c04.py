"""C04 -- targets are replaced atomically and only by complete, unambiguous output.

Proof: props/C04.v (record_new_state / whole-job theorems for all inputs).
Tie: the serial model vs the implementation on histories biased to the five
output channels and failing scripts.
Oracle on the implementation: an exhaustively enumerated behaviour matrix
(beyond the DSL: killed scripts, deleted $3, partial output, large output) in
three prior states; plus a concurrent reader looking for partial targets."""
import os
import shutil
import subprocess
import tempfile
import threading
import time
import common
import e2e
import serial

BEHAVIOURS = {
    # name: (script body using $OUT as the payload generator, expectation)
    #   expectation: ("new", status) target becomes payload ; ("old", status) target left as it was ; ("gone", 0) target removed
    "stdout":        ('gen',                                  ("new", 0)),
    "dollar3":       ('gen > "$3"',                           ("new", 0)),
    "neither":       (':',                                    ("gone", 0)),
    "both":          ('gen; gen > "$3"',                      ("old", 207)),
    "direct":        ('gen > "$1"',                           ("direct", 206)),
    "d3_then_delete": ('gen > "$3"; rm -f "$3"',              ("gone", 0)),
    "stdout_exit3":  ('gen; exit 3',                          ("old", 3)),
    "d3_exit3":      ('gen > "$3"; exit 3',                   ("old", 3)),
    "partial_exit":  ('gen | head -c 10; exit 5',             ("old", 5)),
    "kill9_stdout":  ('gen; kill -9 $$',                      ("old", -9)),
    "kill9_d3":      ('gen > "$3"; kill -9 $$',               ("old", -9)),
    "killterm_mid":  ('gen | head -c 7; kill -TERM $$; gen',  ("old", -15)),
    "false_first":   ('false; gen',                           ("old", 1)),
    "stdout_empty_d3": ('gen; : > "$3"',                      ("old", 207)),
    "d3_empty_only": (': > "$3"',                             ("empty", 0)),
    "d3_then_stdout_exit0": ('gen > "$3"; echo extra',        ("old", 207)),
    "stdout_then_rm_target": ('rm -f "$1"; gen',              ("new", 0)),
    "exit_after_d3_signal0": ('gen > "$3"; kill -0 $$',       ("new", 0)),
}
SIZES = {"one_line": 1, "big": 20000}
PRIORS = ["absent", "user_file", "generated"]


def gen_fn(lines):
    return 'gen() { i=0; while [ $i -lt %d ]; do echo "payload-line-$i-%s"; i=$((i+1)); done; }\n' % (lines, "x" * 20)


def expected_payload(lines):
    return "".join("payload-line-%d-%s\n" % (i, "x" * 20) for i in range(lines))


def run_case(bindir, beh, size, prior):
    body, (exp, status) = BEHAVIOURS[beh]
    pr = e2e.Project(bindir, "c04")
    try:
        t = os.path.join(pr.root, "t")
        if prior == "user_file":
            pr.write("t", "user content\n")
        elif prior == "generated":
            pr.write("t.do", 'echo "old generated"\n')
            rc, out, err, _ = pr.run_cmd(["redo", "t"])
            if rc != 0:
                return {"case": (beh, size, prior), "error": "setup build failed", "stderr": err[-500:]}
        old = open(t).read() if os.path.exists(t) else None
        old_ino = os.stat(t).st_ino if old is not None else None
        time.sleep(0.01)
        pr.write("t.do", gen_fn(SIZES[size]) + body + "\n")
        rc, out, err, _ = pr.run_cmd(["redo", "t"])
        recs = e2e.parse_records(err)
        done = [x[1] for x in recs if x[0] == "done"]
        new = open(t).read() if os.path.exists(t) else None
        leftovers = [n for n in os.listdir(pr.root) if n.endswith(".redo.tmp")]
        res = {"case": "%s/%s/%s" % (beh, size, prior), "rc": rc, "done": done, "leftovers": leftovers}
        bad = []
        if leftovers:
            bad.append("temporary file left behind: %s" % leftovers)
        if prior == "user_file":
            # a user file is never replaced (C11): redo does not even run the script
            if new != old:
                bad.append("user file changed")
            return dict(res, bad=bad)
        payload = expected_payload(SIZES[size])
        if exp == "new":
            if new != payload:
                bad.append("target is not exactly the script's output (%s bytes vs %s expected)" % (None if new is None else len(new), len(payload)))
            if rc != 0:
                bad.append("successful job but command exited %d" % rc)
        elif exp == "empty":
            if new != "":
                bad.append("script created an empty $3 but target is %r" % (None if new is None else new[:20]))
            if rc != 0:
                bad.append("command exited %d" % rc)
        elif exp == "gone":
            if new is not None:
                bad.append("script produced no output but target exists")
            if rc != 0:
                bad.append("command exited %d" % rc)
        elif exp == "old":
            if new != old:
                bad.append("failed job but target changed (was %r..., now %r...)" % ((old or "")[:20], (new or "")[:20] if new is not None else None))
            if old is not None and os.stat(t).st_ino != old_ino:
                bad.append("failed job but target inode replaced")
            if rc == 0:
                bad.append("failed job (expected status %d) but command exited 0" % status)
            if not done or not done[-1].startswith("%d " % status):
                bad.append("done record %r does not carry status %d" % (done, status))
        elif exp == "direct":
            if rc == 0:
                bad.append("script wrote $1 directly but command exited 0")
            if not done or not done[-1].startswith("206 "):
                bad.append("done record %r does not carry status 206" % done)
        return dict(res, bad=bad)
    finally:
        pr.close()


def reader_probe(bindir):
    """A reader polls the target while large outputs are installed; every
    successful read must be a complete old or complete new version."""
    pr = e2e.Project(bindir, "c04r")
    seen_partial = []
    reads = [0]
    try:
        t = os.path.join(pr.root, "t")
        stop = [False]
        versions = set()

        def poll():
            while not stop[0]:
                try:
                    with open(t) as f:
                        s = f.read()
                except FileNotFoundError:
                    continue
                reads[0] += 1
                if s and s not in versions:
                    # allow a version we have not registered yet only if it is complete
                    lines = s.split("\n")
                    tag = lines[0].split("-")[0] if lines else ""
                    if not s.endswith("\n") or len(lines) != 20001 or any(not l.startswith(tag + "-") for l in lines[:-1]):
                        seen_partial.append((len(s), s[:40]))
        th = threading.Thread(target=poll)
        th.start()
        for v in range(6):
            body = 'i=0; while [ $i -lt 20000 ]; do echo "v%d-$i"; i=$((i+1)); done' % v
            pr.write("t.do", (body + ' > "$3"\n') if v % 2 else (body + "\n"))
            pr.run_cmd(["redo", "t"])
        stop[0] = True
        th.join()
    finally:
        pr.close()
    return {"reads": reads[0], "partial_reads": seen_partial[:3]}


def run(res):
    t = common.tier()
    proof = common.prove("C04")
    if t == "thorough":
        proof["coqchk_axioms"] = common.coqchk("C04")
    run_ = serial.run_profile("C04", ["outputs", "failures"], 120 if t == "quick" else 1200)
    bindir = run_["bindir"]
    cases = [(b, s, p) for b in BEHAVIOURS for s in SIZES for p in PRIORS]
    from concurrent.futures import ThreadPoolExecutor
    with ThreadPoolExecutor(max_workers=common.NCPU) as ex:
        results = list(ex.map(lambda c: run_case(bindir, *c), cases))
    bad = [r for r in results if r.get("bad") or r.get("error")]
    probe = reader_probe(bindir)
    cov = serial.base_coverage(proof, run_, "theories/Build/Model.v (record_new_state, emit_output, start_self)",
                               "histories from profiles outputs+failures (all five output channels, failing scripts) compared step by step with the model; plus the full behaviour matrix %d behaviours x %d sizes x %d prior states on the implementation; non-trivial = history with a rebuild after an edit" % (len(BEHAVIOURS), len(SIZES), len(PRIORS)))
    cov["evaluations"] += len(cases)
    cov["behaviour_matrix"] = {"cases": len(cases), "exhaustive": True, "failed": len(bad)}
    cov["reader_probe"] = probe
    cov["samples"] = cov["samples"] + [r["case"] for r in results[:3]]
    res.coverage = cov
    res.assumptions = serial.SERIAL_ASSUMPTIONS + ["A-RENAME: rename(2) replaces the target atomically"]
    if bad:
        for b in bad[:3]:
            res.violation({"property": "C04", "kind": "property-oracle-on-implementation", "failing": b,
                           "replay": "scratch project with t.do = gen(); <behaviour body>; run `redo t`; see checks/c04.py BEHAVIOURS"})
    elif probe["partial_reads"]:
        res.violation({"property": "C04", "kind": "property-oracle-on-implementation", "failing": {"oracle": "reader saw a partial target", "reads": probe}})
    elif run_["disagreements"]:
        res.violation({"property": "C04", "kind": "correspondence", "broken": "Build/Model.v vs the implementation (serial histories)",
                       "theorems_no_longer_tied": ["C04_status", "C04_job", "C04_failure_no_effect", "C04_no_tmp_left"],
                       "first_disagreements": run_["disagreements"][:3]}, found_input=False)


def replay(path):
    import json
    print(json.dumps(json.load(open(path)), indent=1))
    return 0
