"""C10 -- a kill at any moment is recovered from by simply running redo again.

Proof (partial): props/C10.v -- on the job's effect function, every state a
kill can leave before the final rename shows the old target; the crash state
right after the rename and before the recording commit is the known window
(finding F8: the refutation is evaluated on the model).
Tie / decision on the implementation: an LD_PRELOAD shim numbers every
state-changing system call (rename, unlink, create/truncate, ftruncate, writes
to the state database and its WAL) of every process of a build; for every
index k the build is repeated and the calling redo process -- or the whole
process group -- is killed immediately before call k; then the recovery
(redo-ifchange again; edit a source; redo-ifchange again) is checked."""
import os
import shutil
from concurrent.futures import ThreadPoolExecutor
import common
import crash


def trial(bindir, pname, phase, k, mode):
    spec = crash.PROJECTS[pname]
    cp = crash.CrashProject(bindir, spec, "%s-%s-%d" % (pname, mode, k))
    try:
        src, newval = spec["edit"]
        cur = spec["files"][src]
        if phase == "rebuild":
            r0 = cp.run(["redo-ifchange"] + spec["entry"], shim=False)
            if r0["rc"] != 0:
                return {"error": "setup build failed", "stderr": r0["err"][-300:]}
            import time
            time.sleep(0.01)
            with open(os.path.join(cp.root, src), "w") as f:
                f.write("v1b\n")
            cur = "v1b\n"
        r = cp.run(["redo-ifchange"] + spec["entry"], crash_at=k, mode=mode)
        killed_events = r["events"]
        if not any(e["i"] == k for e in killed_events):
            return {"skipped": "index beyond this run's calls"}
        victim = [e for e in killed_events if e["i"] == k][0]
        if mode == "proc" and not victim["comm"].startswith("redo"):
            return {"skipped": "call %d is made by %s, not a redo process" % (k, victim["comm"])}
        # ---- recovery, no manual cleanup
        rec = cp.run(["redo-ifchange"] + spec.get("recover_entry", spec["entry"]), shim=False, timeout=60)
        want = spec["expect"](cur)
        got = cp.contents(list(want))
        problems = []
        if rec["hung"]:
            problems.append("recovery run did not terminate within 60 s")
        elif rec["rc"] != 0:
            problems.append("recovery run exited %d: %s" % (rec["rc"], rec["err"][-200:]))
        if got != want:
            problems.append("after recovery: %r, expected %r" % (got, want))
        ov = cp.overrides()
        if ov:
            problems.append("targets marked as modified by the user after recovery: %s" % ov)
        # ---- later edits still propagate
        import time
        time.sleep(0.01)
        with open(os.path.join(cp.root, src), "w") as f:
            f.write(newval)
        rec2 = cp.run(["redo-ifchange"] + spec["entry"], shim=False, timeout=60)
        want2 = spec["expect"](newval)
        got2 = cp.contents(list(want2))
        if rec2["rc"] != 0 or got2 != want2:
            problems.append("a source edit after recovery was not propagated: rc=%d %r, expected %r" % (rec2["rc"], got2, want2))
        return {"case": {"project": pname, "phase": phase, "kill_before_call": k, "mode": mode,
                         "call": "%s %s %s" % (victim["comm"], victim["what"], os.path.basename(victim["a"]))},
                "problems": problems, "known_window": crash.f8_window(killed_events, k),
                "stamp_window": crash.stamp_window(killed_events, k)}
    finally:
        cp.close()
        shutil.rmtree(cp.dir + ".snap", ignore_errors=True)


def reference(bindir, pname, phase):
    spec = crash.PROJECTS[pname]
    cp = crash.CrashProject(bindir, spec, "ref")
    try:
        if phase == "rebuild":
            cp.run(["redo-ifchange"] + spec["entry"], shim=False)
            import time
            time.sleep(0.01)
            with open(os.path.join(cp.root, spec["edit"][0]), "w") as f:
                f.write("v1b\n")
        r = cp.run(["redo-ifchange"] + spec["entry"])
        return r["events"]
    finally:
        cp.close()


def run(res):
    t = common.tier()
    r = common.rng("c10")
    proof = common.prove("C10")
    if t == "thorough":
        proof["coqchk_axioms"] = common.coqchk("C10")
    bindir = common.build_redo(True)
    crash.build_shim()
    plans = [("two_level", "rebuild"), ("stamped", "rebuild"), ("two_level", "first"), ("two_tops", "rebuild")] if t == "quick" else \
            [(p, ph) for p in crash.PROJECTS for ph in ("first", "rebuild")]
    jobs = []
    dist = {}
    for pname, phase in plans:
        ev = reference(bindir, pname, phase)
        n = len(ev)
        idx = [e["i"] for e in ev]
        if t == "quick":
            # every non-database call, and a sample of the database writes
            keep = [e["i"] for e in ev if e["what"] != "dbwrite"] + [e["i"] for j, e in enumerate(ev) if e["what"] == "dbwrite" and j % 4 == 0]
            idx = sorted(set(keep))
        dist["%s/%s" % (pname, phase)] = {"calls": n, "kill_points": len(idx),
                                           "by_kind": {k: sum(1 for e in ev if e["what"] == k) for k in set(e["what"] for e in ev)}}
        for k in idx:
            for mode in (("proc", "group") if (t == "thorough" or k % 2 == 0) else ("proc",)):
                jobs.append((pname, phase, k, mode))
    with ThreadPoolExecutor(max_workers=12) as ex:
        results = list(ex.map(lambda j: trial(bindir, *j), jobs))
    viol, known, done, skipped = [], 0, 0, 0
    samples = []
    kn, _ = common.known_findings()
    has_f8 = any(x["property"] == "C10" and x["cls"] == "rename_before_commit" for x in kn)
    has_f18 = any(x["property"] == "C10" and x["cls"] == "stamp_before_install" for x in kn)
    for x in results:
        if "skipped" in x:
            skipped += 1
            continue
        if "error" in x:
            viol.append(x)
            continue
        done += 1
        if len(samples) < 4:
            samples.append(x["case"])
        if x["problems"]:
            # a known finding is its kill window AND its symptom: the recovery run itself ends with 0
            # (F8: the target is taken for a hand edit; F18: a stale file is judged clean).  A recovery
            # that fails, panics or hangs in the same window is something else (that is how F59 hid).
            quiet = not any(pb.startswith("recovery run") for pb in x["problems"])
            if x.get("stamp_window") and has_f18 and quiet:
                known += 1
                res.known("stamp_before_install", "F18 a kill after the target's redo-stamp committed and before the job installed the target: the next run keeps the stale file as clean")
            elif x["known_window"] and has_f8 and quiet:
                known += 1
                res.known("rename_before_commit", "F8 a kill after <target>.redo.tmp was renamed onto the target and before the commit that records it: the next run takes the new file for a manual edit ('you modified it; skipping') and never rebuilds it again")
            else:
                viol.append(x)
    cov = dict(proof)
    cov.update({
        "trusted_base": ["Coq 8.16.1 kernel", "crash/shim.c (LD_PRELOAD interposer on libc: rename*, unlink*, open* with O_CREAT/O_TRUNC, ftruncate, write/pwrite to the state database files)",
                         "lib/crash.py", "SQLite's own crash atomicity (A-SQLITE-ATOMIC)"],
        "evaluations": done, "distinct_nontrivial": done,
        "rule": "for each project (two-level chain, checksummed dependency, default rule with two targets, two independent targets recovered in the other order) and phase (first build on an empty state directory / rebuild after a source edit) the build is run once to number its state-changing calls, then repeated for each kill point: the calling redo process (mode proc) or the whole process group (mode group) receives SIGKILL immediately before the call; recovery = redo-ifchange (must end, exit 0, every target correct, nothing marked overridden), then a source edit and redo-ifchange again (must propagate); quick tier: every non-database call and every fourth database write; non-trivial = every kill point",
        "exhaustive": t == "thorough",
        "samples": samples, "input_distribution": dist, "skipped_not_a_redo_process": skipped, "known_finding_hits": known,
    })
    res.coverage = cov
    res.level = "proof"
    res.assumptions = ["a committed SQLite transaction survives SIGKILL and an uncommitted one vanishes", "the shim sees every state-changing call made through libc"]
    for v in viol[:3]:
        res.violation({"property": "C10", "kind": "fault-enumeration-on-implementation", "failing": v,
                       "replay": "checks/c10.py trial(bindir, project, phase, k, mode)"})


def replay(path):
    import json
    print(json.dumps(json.load(open(path)), indent=1))
    return 0
