"""C08 -- job tokens are conserved and -j is respected.

Proof: props/C08.v (conservation of Q over every event sequence of any number
of processes; non-negativity; -j bound; the top-level self-test cannot fail;
the tokenless-exit transition of finding F7 is refused by the model).
Tie: trace validation -- the hooked implementation reports every token-book
event (REDO_VERIF_TRACE); the extracted model must accept each event and
reproduce the reported (my_tokens, cheats) and the bytes written to the pipe.
Oracles on the implementation: no 'expected N tokens' self-test failure, the
number of simultaneously working scripts <= -j (+1 with log capture), and an
inherited (GNU make style) jobserver gets back exactly what was taken."""
import os
import common
import par


def inherited_run(bindir, r, P, k):
    """the harness plays the parent jobserver: a pipe preloaded with k tokens"""
    pp = par.ParProject(bindir, P, "c08i")
    try:
        rfd, wfd = os.pipe()
        os.set_inheritable(rfd, True)
        os.set_inheritable(wfd, True)
        os.write(wfd, b"t" * k)
        res = pp.run(["redo-ifchange", "all"], log=False, extra_env={"MAKEFLAGS": " -j --jobserver-auth=%d,%d --jobserver-fds=%d,%d" % (rfd, wfd, rfd, wfd)},
                     pass_fds=(rfd, wfd))
        os.set_blocking(rfd, False)
        try:
            left = len(os.read(rfd, 4096))
        except BlockingIOError:
            left = 0
        os.close(rfd)
        os.close(wfd)
        val = pp.validate_tokens(inherited=k)
        return res, left, val, pp.work_sections()
    finally:
        pp.close()


def error_exit_project(r):
    """all -> b -> {s0..sk, all}: the redo-ifchange inside b.do has started the
    slow s-jobs when it trips over the cycle and leaves through an error path
    (exit 208) with those jobs still running: their tokens must be re-created."""
    k = r.randint(2, 4)
    P = {"all": (["b"], 5, False, False, False)}
    for i in range(k):
        P["s%d" % i] = ([], r.randint(150, 300), False, False, False)
    P["b"] = (["s%d" % i for i in range(k)] + ["all"], 5, False, False, False)
    return P, k


def error_exit_runs(bindir, r, n, viol, dist):
    events = 0
    for i in range(n):
        P, k = error_exit_project(r)
        inherited = (i % 2 == 1)
        j = r.randint(2, k + 1)
        case = {"shape": "error-exit (cycle found with jobs running)", "slow_jobs": k, "jobs": j, "inherited": inherited}
        if inherited:
            rr, left, val, ws = inherited_run(bindir, r, P, j - 1)
            if left != j - 1:
                viol.append(dict(case, what="inherited jobserver: %d tokens preloaded, %d left after redo ended on an error exit" % (j - 1, left), stderr=rr["err"][-600:]))
        else:
            pp = par.ParProject(bindir, P, "c08e")
            try:
                rr = pp.run(["redo", "all"], jobs=j, log=False)
                val = pp.validate_tokens()
                if os.path.exists(pp.toktrace):
                    dist["abandon_events"] += sum(1 for l in open(pp.toktrace) if " abandon " in l)
            finally:
                pp.close()
        case["model"] = val
        case["rc"] = rr["rc"]
        if rr["rc"] == 0:
            viol.append(dict(case, what="a cyclic build reported success"))
        for pb in par.problems(rr):
            if pb["what"] in ("token self-test failed", "panic", "hang"):
                viol.append(dict(case, **pb))
        if not val.startswith("OK"):
            viol.append(dict(case, what="token trace rejected by the model", verdict=val))
        else:
            events += int(val.split("events=")[1].split()[0])
        dist["error_exit"] += 1
    return events


LAUNDER_SH = r"""
set -u
cd "$1"
work() { # name seconds tracefile
cat > $1.do <<END
echo "W $1 \$(date +%s.%N)" >> $PWD/$3
sleep $2
echo "X $1 \$(date +%s.%N)" >> $PWD/$3
echo $1
END
}
work X 2 trace.other; work Y 4 trace.other; for i in 1 2 3 4; do work W$i 8 trace; done
cat > A.do <<END
redo-ifchange X
redo-ifchange Y
echo "W A \$(date +%s.%N)" >> $PWD/trace
sleep 3
echo "X A \$(date +%s.%N)" >> $PWD/trace
echo A
END
( timeout 60 redo --no-log -j2 X Y > out2.txt 2>&1 ) &      # another invocation holds the locks of X and Y
sleep 0.5
REDO_VERIF_TRACE="$1/toktrace" timeout 90 redo -j2 A W1 W2 W3 W4 > out1.txt 2>&1
echo "rc=$?"
wait
"""


def laundering_run(bindir):
    """The shape of Tokens/Cheats.v `laundering` on the binaries (finding F50):
    one `redo -j2` with log capture whose script A calls redo-ifchange twice, each
    time on a target locked by another invocation.  Its token events are replayed
    through the model like every other trace (they must be ACCEPTED: nothing is
    created or lost), and both the model's J - L and the scripts' own work
    sections are compared with -j + 1."""
    import shutil
    import subprocess
    import tempfile
    os.makedirs("/var/tmp/verif-scratch", exist_ok=True)
    d = tempfile.mkdtemp(prefix="c08-launder-", dir="/var/tmp/verif-scratch")
    try:
        env = {k: v for k, v in os.environ.items() if not k.startswith("REDO") and k not in ("MAKEFLAGS", "MFLAGS")}
        env["PATH"] = bindir + ":/usr/bin:/bin"
        p = subprocess.run(["bash", "-c", LAUNDER_SH, "launder", d], env=env, stdout=subprocess.PIPE, stderr=subprocess.STDOUT, timeout=200)
        out = {"rc_line": p.stdout.decode().strip()[-40:]}
        tr = os.path.join(d, "toktrace")
        if os.path.exists(tr):
            q = subprocess.run([common.build_model(), "toktrace", tr], stdout=subprocess.PIPE, timeout=120)
            out["model"] = q.stdout.decode().strip()
            out["cheat_events"] = sum(1 for l in open(tr) if " cheat " in l)
        else:
            out["model"] = "EMPTY"
        ev = []
        if os.path.exists(os.path.join(d, "trace")):
            for l in open(os.path.join(d, "trace")):
                f = l.split()
                if len(f) == 3:
                    ev.append((float(f[2]), f[0], f[1]))
        ev.sort()
        cur, mx = set(), 0
        for _, k, n in ev:
            if k == "W":
                cur.add(n)
            else:
                cur.discard(n)
            mx = max(mx, len(cur))
        out["max_simultaneous_work"] = mx
        return out
    finally:
        shutil.rmtree(d, ignore_errors=True)


def run(res):
    t = common.tier()
    r = common.rng("c08")
    proof = common.prove("C08")
    if t == "thorough":
        proof["coqchk_axioms"] = common.coqchk("C08")
    bindir = common.build_redo(True)
    common.build_model()
    nruns = 28 if t == "quick" else 200
    viol, samples = [], []
    events = 0
    dist = {"jobs": {}, "shape": {}, "log": 0, "failing": 0, "keep_going": 0, "inherited": 0, "cheats_seen": 0, "error_exit": 0, "abandon_events": 0}
    bound_checked = 0
    for i in range(nruns):
        cheat_prone = (i % 3 == 0)
        shape, P = par.gen_project(r, "fan2" if cheat_prone else None)
        j = r.choice([2, 2, 3]) if cheat_prone else r.choice([1, 2, 2, 3, 4, 4, 8])
        log = True if cheat_prone else r.random() < 0.6
        failing = r.random() < 0.25
        kg = failing and r.random() < 0.5
        if failing:
            P = par.with_failures(r, P, r.randint(1, 2))
        dist["jobs"][j] = dist["jobs"].get(j, 0) + 1
        dist["shape"][shape] = dist["shape"].get(shape, 0) + 1
        dist["log"] += log
        dist["failing"] += failing
        dist["keep_going"] += kg
        case = {"shape": shape, "targets": len(P), "jobs": j, "log_capture": log, "failing": failing, "keep_going": kg}
        if not cheat_prone and r.random() < 0.25:
            k = r.randint(0, 3)
            dist["inherited"] += 1
            rr, left, val, ws = inherited_run(bindir, r, P, k)
            case.update({"inherited_tokens": k, "left_in_pipe": left, "model": val})
            if left != k:
                viol.append(dict(case, what="inherited jobserver: %d tokens preloaded, %d left after redo ended" % (k, left), stderr=rr["err"][-600:]))
            n_allowed = k + 1
        else:
            pp = par.ParProject(bindir, P, "c08")
            try:
                rr = pp.run(["redo", "all"], jobs=j, log=log, keep_going=kg)
                val = pp.validate_tokens()
                ws = pp.work_sections()
                if os.path.exists(pp.toktrace):
                    dist["cheats_seen"] += sum(1 for l in open(pp.toktrace) if " cheat " in l)
            finally:
                pp.close()
            case["model"] = val
            n_allowed = j
        for pb in par.problems(rr):
            if pb["what"] in ("token self-test failed", "panic", "hang"):
                viol.append(dict(case, **pb))
        if not val.startswith("OK"):
            viol.append(dict(case, what="token trace rejected by the model", verdict=val))
        else:
            events += int(val.split("events=")[1].split()[0])
        mo = par.max_overlap(ws)
        bound_checked += 1
        case["max_simultaneous_work"] = mo
        if mo > n_allowed + (1 if log else 0):
            viol.append(dict(case, what="%d scripts doing work at once with a limit of %d" % (mo, n_allowed)))
        if len(samples) < 4:
            samples.append(case)
    events += error_exit_runs(bindir, r, 8 if t == "quick" else 60, viol, dist)
    # F50 through the model: the laundering trace must be accepted (conservation),
    # and exceeds -j + 1 in the model's own J - L -- the witness of C08_one_extra_refuted
    la = laundering_run(bindir)
    dist["laundering"] = la
    if la["model"].startswith("OK"):
        events += int(la["model"].split("events=")[1].split()[0])
        mjl = int(la["model"].split("maxJL=")[1].split()[0])
        if mjl > 3 or la["max_simultaneous_work"] > 3:
            kn, _ = common.known_findings()
            hit = [k for k in kn if k["cls"] == "cheat_token_laundering" and k["property"] == "C08"]
            if hit:
                res.known("cheat_token_laundering", hit[0]["what"][:400])
            else:
                viol.append({"shape": "laundering", "what": "-j2: %d scripts at work (model J-L = %d), limit 2+1" % (la["max_simultaneous_work"], mjl), "detail": la})
    elif la["model"] != "EMPTY":
        viol.append({"shape": "laundering", "what": "token trace rejected by the model", "verdict": la["model"]})
    cov = dict(proof)
    cov.update({
        "trusted_base": ["Coq 8.16.1 kernel", "extraction (ExtrOcamlBasic only) + ocaml/driver.ml (trace validator)",
                         "hook redo::jobserver::verif_token_event (reports the book after each mutation)", "lib/par.py",
                         "model is hand-written: theories/Tokens/Model.v"],
        "evaluations": nruns,
        "distinct_nontrivial": sum(v for k, v in dist["jobs"].items() if k > 1),
        "rule": "random projects (fan, two-level fan with a shared leaf, chain, diamond, mixed DAG) built by the real binaries at -j1..8, with and without log capture, with failing scripts with/without -k, and under an inherited jobserver preloaded with 0..3 tokens, plus error exits (a dependency cycle found while sibling jobs are still running, own and inherited jobserver); every token-book event of every process is replayed through the extracted model; non-trivial = run with -j > 1",
        "samples": samples,
        "input_distribution": dist,
        "traces_validated_against_impl": nruns,
        "token_events_replayed": events,
        "bound_checked_runs": bound_checked,
    })
    res.coverage = cov
    res.assumptions = ["A-PIPE: a byte written to a pipe is read at most once and nothing else writes to the token pipes",
                       "work sections are measured by the scripts themselves (date +%s%N)"]
    for v in viol[:3]:
        res.violation({"property": "C08", "kind": "property-oracle-on-implementation" if "trace rejected" not in v.get("what", "") else "trace-validation",
                       "failing": v, "replay": "lib/par.py: ParProject(<bindir>, <project>).run(['redo','all'], jobs=J)"})


def replay(path):
    import json
    print(json.dumps(json.load(open(path)), indent=1))
    return 0
