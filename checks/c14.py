"""C14 -- decided on the serial build model: theorems in coq/props/C14.v, tie and
oracles in lib/serial_check.py (see its TABLE entry)."""
import serial_check


def run(res):
    serial_check.run(res, "C14")


replay = serial_check.replay
