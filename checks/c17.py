"""C17 -- redo-ood/targets/sources are safe over-approximations and change
nothing: theorems in coq/props/C17.v; tie and oracles in lib/serial_check.py;
plus the paired-history oracle: every history is also run WITHOUT its query
commands on the implementation and the remaining steps must behave the same;
and the lower bound: whatever a following redo-ifchange runs was listed by redo-ood."""
import common
import e2e
import serial
import serial_check


def paired(run_):
    lines = run_["lines"]
    out = {"violations": [], "evaluations": 0, "pairs": 0, "lower_bound_checked": 0}
    stripped, idx = [], []
    for i, l in enumerate(lines):
        st = serial.steps_of(l)
        if any(t[0] == "C" and t[1] in ("ood", "targets", "sources") for t in st):
            keep = [t for t in st if not (t[0] == "C" and t[1] in ("ood", "targets", "sources"))]
            stripped.append("P %d ; %s" % (e2e.project_depth(), " ; ".join(" ".join(t) for t in keep)))
            idx.append(i)
    from concurrent.futures import ThreadPoolExecutor
    with ThreadPoolExecutor(max_workers=common.NCPU) as ex:
        reals2 = list(ex.map(lambda il: e2e.run_real(run_["bindir"], il[1], "q%d" % il[0]), enumerate(stripped)))
    out["evaluations"] = len(stripped)
    for i, l2, r2 in zip(idx, stripped, reals2):
        out["pairs"] += 1
        st = serial.steps_of(lines[i])
        r1 = [x for t, x in zip(st, run_["reals"][i]) if not (t[0] == "C" and t[1] in ("ood", "targets", "sources"))]
        for k, (a, b) in enumerate(zip(r1, r2)):
            ta = (a[2] or {}).get("trace")
            tb = (b[2] or {}).get("trace")
            fa = a[1].split(" rows=")[0]
            fb = b[1].split(" rows=")[0]
            # which scripts run, not in which order: the order of the targets handed to one redo-unlocked call
            # comes from a HashSet and differs from process to process
            if a[0] != b[0] or sorted(ta or []) != sorted(tb or []) or fa != fb:
                out["violations"].append({"oracle": "inserting query commands changed what later commands do",
                                          "history": lines[i], "without_queries": l2, "step_without_queries": k,
                                          "with": {"result": a[0], "trace": ta, "files": fa}, "without": {"result": b[0], "trace": tb, "files": fb}})
                break
    # lower bound: ood immediately followed by redo-ifchange of listed+other targets
    for l, r in zip(lines, run_["reals"]):
        st = serial.steps_of(l)
        for k in range(len(st) - 1):
            if st[k][0] == "C" and st[k][1] == "ood" and st[k + 1][0] == "C" and st[k + 1][1] == "ifchange" and r[k][0].startswith("list="):
                ood = set(x for x in r[k][0][5:].split(",") if x)
                # known targets at that point = rows with is_generated in the digest
                known = set()
                for row in r[k][1].split(" rows=")[1].split(" deps=")[0].split("|"):
                    f = row.split(":")
                    if len(f) >= 8 and f[1] == "1" and f[2] == "0" and f[6] == "E":
                        known.add(f[0])
                ran = [e.split(":")[1] for e in (r[k + 1][2] or {}).get("trace", [])]
                out["lower_bound_checked"] += 1
                missed = [n for n in ran if n in known and n not in ood]
                if missed:
                    out["violations"].append({"oracle": "redo-ifchange rebuilt a known target that redo-ood had not listed",
                                              "history": l, "step": k, "ood": sorted(ood), "ran": ran, "missed": missed})
    out["violations"] = out["violations"][:3]
    return out


def run(res):
    serial_check.run(res, "C17", extra_oracle=paired)


replay = serial_check.replay
