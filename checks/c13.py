"""C13 -- .do rule selection order and script arguments.

Proof: props/C13.v (iterator = documented order for every absolute path;
ordering facts; argument shapes).
Tie: model possible_do_files vs redo::possible_do_files on exhaustive small
absolute paths + random ones (any depth, dots, spaces, unicode, '..', '//').
E2E: real redo runs with scripts that echo $1 $2 $3 $PWD, redo-whichdo
listings, and re-selection after adding/removing candidates (lib/e2e_c13).
Search: an independent Python rendering of the documented order is compared
with the implementation's listing."""
import os
import common
import pure
from common import hexs, unhex

ALPHA = [b"/", b".", b"a", b"b"]
NAMEBITS = [b"a", b"b", b".", b"..", b".c", b"x.y", b" ", "é".encode(), b"...", b"a.b.c", b".hidden", b"tar.gz", b"-"]
SEPS = [b"/", b"/", b"//", b"/./", b"/../"]


def ref_names(p):
    names = []
    for c in p.split(b"/"):
        if c in (b"", b"."):
            continue
        if c == b"..":
            if names:
                names.pop()
        else:
            names.append(c)
    return names


def ref_candidates(p):
    """The documented order, written independently of the Coq model."""
    names = ref_names(p)
    fn = names[-1]
    dirn = names[:-1]
    out = [(b"/" + b"/".join(dirn), fn + b".do", b"", fn, b"")]
    for k in range(len(dirn), -1, -1):
        bd = b"/" + b"/".join(dirn[:k])
        sd = b"/".join(dirn[k:])
        for i, ch in enumerate(fn):
            if ch == 0x2e:
                e = fn[i:]
                bn = fn[:i]
                out.append((bd, b"default" + e + b".do", sd, (sd + b"/" + bn) if sd else bn, e))
        out.append((bd, b"default.do", sd, (sd + b"/" + fn) if sd else fn, b""))
    return out


def fmt(cands):
    return ";".join(",".join(hexs(x) for x in c) for c in cands)


def gen_random(r, n):
    out = []
    for _ in range(n):
        k = r.randint(1, 6)
        s = b""
        for _ in range(k):
            s += r.choice(SEPS) + b"".join(r.choice(NAMEBITS) for _ in range(r.randint(1, 3)))
        out.append(s)
    return out


def run(res):
    t = common.tier()
    r = common.rng("c13")
    proof = common.prove("C13")
    if t == "thorough":
        proof["coqchk_axioms"] = common.coqchk("C13")
    L = 7 if t == "quick" else 9
    paths = [b"/" + s for s in pure.exhaustive(ALPHA, L)]
    rnd = gen_random(r, 20000 if t == "quick" else 200000)
    allp = [p for p in paths + rnd if ref_names(p)]
    skipped_root = len(paths) + len(rnd) - len(allp)
    lines = ["pdf " + hexs(p) for p in allp]
    m, i = pure.both(lines)
    d = pure.diff(lines, m, i)
    viol = []
    ndots = {}
    depth = {}
    for p, o in zip(allp, i):
        exp = fmt(ref_candidates(p))
        names = ref_names(p)
        ndots[names[-1].count(b".")] = ndots.get(names[-1].count(b"."), 0) + 1
        depth[len(names)] = depth.get(len(names), 0) + 1
        if o != exp:
            viol.append({"oracle": "documented-order", "path": repr(p), "hex": p.hex(),
                         "expected": [[x.decode("utf-8", "backslashreplace") for x in c] for c in ref_candidates(p)][:8],
                         "got": [[unhex(x).decode("utf-8", "backslashreplace") for x in c.split(",")] for c in o.split(";")][:8] if o not in ("PANIC",) else o})
    e2e = None
    try:
        import e2e_c13
        e2e = e2e_c13.run(res, r, t)
        viol += e2e.get("violations", [])
    except ImportError:
        pass
    cov = dict(proof)
    cov.update({
        "trusted_base": ["Coq 8.16.1 kernel", "extraction (ExtrOcamlBasic only) + ocaml/driver.ml", "harness/src/pharness.rs + hook redo::verif::dofile_fields",
                         "model is hand-written: theories/DoFiles/Candidates.v"],
        "evaluations": len(lines) + (e2e or {}).get("evaluations", 0),
        "distinct_nontrivial": sum(v for k, v in ndots.items() if k >= 1),
        "rule": "every absolute path '/'+s, s over {/ . a b} up to length %d (exhaustive, root-denoting paths skipped: %d) + %d random paths with dotted/space/unicode names and redundant separators; non-trivial = file name contains at least one dot (default.<ext>.do candidates exist)" % (L, skipped_root, len(rnd)),
        "exhaustive": True,
        "samples": [repr(p) for p in allp[5000:5003]] + [repr(p) for p in rnd[:3]],
        "input_distribution": {"dots_in_name": ndots, "depth": depth},
        "correspondence_disagreements": len(d),
        "oracle_failures": len(viol),
        "e2e": e2e,
    })
    res.coverage = cov
    res.assumptions = ["paths are UTF-8 without NUL/newline (RedoPath)", "existence tests of candidates are the file system's (E2E part)"]
    if viol:
        for v in viol[:3]:
            res.violation({"property": "C13", "kind": "property-oracle-on-implementation", "failing": v,
                           "replay": "pharness: pdf <hex path> ; or the e2e scenario given"})
    elif e2e and e2e.get("n_model_disagreements"):
        res.violation({"property": "C13", "kind": "correspondence", "broken": "Build/Model.v vs the implementation on 'defaults' histories (selection, $1 $2 $3)",
                       "theorems_no_longer_tied": ["C13_order"], "first_disagreements": e2e["model_disagreements"]}, found_input=False)
    elif d:
        res.violation({"property": "C13", "kind": "correspondence", "broken": "model DoFiles/Candidates.v vs redo::possible_do_files",
                       "theorems_no_longer_tied": ["C13_order"], "first_disagreements": d}, found_input=False)


def replay(path):
    import json
    print(json.dumps(json.load(open(path)), indent=1))
    return 0
