"""C09 -- see lib/par_props.py (run_c09) and coq/props/C09.v."""
import json
import par_props


def run(res):
    par_props.run_c09(res)


def replay(path):
    print(json.dumps(json.load(open(path)), indent=1))
    return 0
