"""C07 -- see lib/par_props.py (run_c07) and coq/props/C07.v."""
import json
import par_props


def run(res):
    par_props.run_c07(res)


def replay(path):
    print(json.dumps(json.load(open(path)), indent=1))
    return 0
