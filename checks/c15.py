"""C15 -- every spelling of a path denotes the same target.

Proof: props/C15.v (idempotence, normal form, denotation in any link-free
tree, relpath/rejoin, one key per location, no aliasing).
Tie: model normpath/abs_path/relpath vs the Rust functions on exhaustive
strings over a path alphabet + random longer ones.
Search: the property statements evaluated directly on the implementation."""
import os
import subprocess
import random
import common
import pure
from common import hexs, unhex

ALPHA = [b"/", b".", b"a", b"b"]
WIDE = [b"/", b"/", b".", b".", b"..", b"a", b"b", b" ", "é".encode(), b"-", b"...", b".a", b"a.", b"//", b"/./", b"/../"]


def ref_denote(s):
    """Independent reference: meaning of a path in a link-free tree:
    (rooted, number of leading '..', names)."""
    rooted = s.startswith(b"/")
    ups, names = 0, []
    for c in s.split(b"/"):
        if c in (b"", b"."):
            continue
        if c == b"..":
            if names:
                names.pop()
            elif not rooted:
                ups += 1
        else:
            names.append(c)
    return (rooted, ups, tuple(names))


def gen_random(r, n, maxparts=14):
    out = []
    for _ in range(n):
        k = r.randint(1, maxparts)
        out.append(b"".join(r.choice(WIDE) for _ in range(k)))
    return out


def run(res):
    t = common.tier()
    r = common.rng("c15")
    proof = common.prove("C15")
    if t == "thorough":
        proof["coqchk_axioms"] = common.coqchk("C15")
    L = 8 if t == "quick" else 10
    strings = list(pure.exhaustive(ALPHA, L))
    rnd = gen_random(r, 20000 if t == "quick" else 200000)
    corpus = [l.strip() for l in open(os.path.join(common.VERIF, "corpus", "c15_paths.txt")).read().split("\n") if l.strip()] \
        if os.path.exists(os.path.join(common.VERIF, "corpus", "c15_paths.txt")) else []
    corpus = [bytes.fromhex(x) if x != "-" else b"" for x in corpus]
    allp = corpus + strings + rnd
    lines = ["norm " + hexs(s) for s in allp]
    # abs_path pairs
    small = list(pure.exhaustive(ALPHA, 4))
    pairs = [(r.choice(small), r.choice(small)) for _ in range(20000)]
    pairs += [(b"/" + a, b) for a, b in pairs[:5000]]
    lines_abs = ["abs %s %s" % (hexs(a), hexs(b)) for a, b in pairs]
    # relpath on absolute (nonexistent) locations
    for d in ("/a", "/b", "/.a", "/..a"):
        if os.path.exists(d):
            raise common.Broken("sandbox has %s: lexical relpath tie not valid" % d)
    relsmall = [b"/" + s for s in pure.exhaustive(ALPHA, 5)]
    relpairs = [(r.choice(relsmall), r.choice(relsmall)) for _ in range(30000 if t == "quick" else 300000)]
    lines_rel = ["rel %s %s" % (hexs(a), hexs(b)) for a, b in relpairs]

    all_lines = lines + lines_abs + lines_rel
    m, i = pure.both(all_lines)
    d = pure.diff(all_lines, m, i)

    # ---- property-level oracles on the implementation itself
    outs = [unhex(x) if x not in ("PANIC", "ERR") else None for x in i[:len(lines)]]
    viol = []
    second = pure.impl_only(["norm " + hexs(o) for o in outs if o is not None])
    k = 0
    nontriv = set()
    for s, o in zip(allp, outs):
        if o is None:
            viol.append({"oracle": "no-panic", "input": s.hex(), "text": repr(s)})
            continue
        o2 = second[k]; k += 1
        if unhex(o2) != o:
            viol.append({"oracle": "idempotent", "input": s.hex(), "text": repr(s), "norm": repr(o), "norm_norm": repr(unhex(o2))})
        if ref_denote(o) != ref_denote(s):
            viol.append({"oracle": "denotation", "input": s.hex(), "text": repr(s), "norm": repr(o),
                         "meaning_in": repr(ref_denote(s)), "meaning_out": repr(ref_denote(o))})
        if o != s:
            nontriv.add(s)
    # rejoin oracle: norm(base + "/" + rel) == norm(t)
    rel_out = i[len(lines) + len(lines_abs):]
    rj_lines, rj_expect = [], []
    for (tp, bp), o in zip(relpairs, rel_out):
        if o in ("PANIC", "ERR"):
            viol.append({"oracle": "relpath-defined", "t": repr(tp), "base": repr(bp), "got": o})
            continue
        rj_lines.append("norm " + hexs(bp + b"/" + unhex(o)))
        rj_expect.append((tp, bp, unhex(o)))
    rj = pure.impl_only(rj_lines)
    tn = pure.impl_only(["norm " + hexs(tp) for tp, _, _ in rj_expect])
    for (tp, bp, o), a, b in zip(rj_expect, rj, tn):
        if a != b:
            viol.append({"oracle": "rejoin", "t": repr(tp), "base": repr(bp), "relpath": repr(o),
                         "rejoined": repr(unhex(a)), "expected": repr(unhex(b))})
    # one key per location, no aliasing (on the implementation)
    keyof = {}
    for (tp, bp), o in zip(relpairs, rel_out):
        if o in ("PANIC", "ERR"):
            continue
        loc = (ref_denote(tp), ref_denote(bp))
        if loc in keyof and keyof[loc][0] != o:
            viol.append({"oracle": "one-record", "t": repr(tp), "other_t": repr(keyof[loc][1]), "base": repr(bp),
                         "key": repr(unhex(o)), "other_key": repr(unhex(keyof[loc][0]))})
        keyof.setdefault(loc, (o, tp))
    bykey = {}
    for (loc, (o, tp)) in keyof.items():
        kk = (o, loc[1])
        if kk in bykey and bykey[kk] != loc[0]:
            viol.append({"oracle": "no-aliasing", "key": repr(unhex(o)), "loc1": repr(loc[0]), "loc2": repr(bykey[kk])})
        bykey[kk] = loc[0]

    # ---- spellings through a real tree with symlinked directories, from several cwds
    sym = symlink_part(r, t)
    viol += sym["violations"]
    d += sym["disagreements"]
    cov = dict(proof)
    cov.update({
        "trusted_base": ["Coq 8.16.1 kernel (coqc; vm_compute in Examples)", "extraction (ExtrOcamlBasic only) + ocaml/driver.ml",
                         "harness/src/pharness.rs", "model is hand-written: theories/Paths/{Norm,Rel}.v"],
        "evaluations": len(all_lines),
        "distinct_nontrivial": len(nontriv),
        "rule": "every string over {/ . a b} up to length %d (exhaustive) + %d random strings over a wider alphabet (space, UTF-8, dotted names) + abs_path pairs + relpath pairs of absolute paths; non-trivial = normpath changes the string" % (L, len(rnd)),
        "exhaustive": True,
        "samples": [repr(s) for s in (strings[1000:1003] + rnd[:3])] + [repr(p) for p in relpairs[:2]],
        "input_distribution": {"exhaustive_strings": len(strings), "random_strings": len(rnd), "corpus": len(corpus),
                               "abs_pairs": len(pairs), "rel_pairs": len(relpairs),
                               "rooted": sum(1 for s in allp if s.startswith(b"/")),
                               "with_dotdot": sum(1 for s in allp if b".." in s)},
        "correspondence_disagreements": len(d),
        "oracle_failures": len(viol),
        "symlink_tree": {k: v for k, v in sym.items() if k not in ("violations", "disagreements")},
    })
    res.coverage = cov
    res.assumptions = ["A-CANON: the OS canonicalize() maps two directory spellings to one result iff they are the same directory (parameter `canon` of the model)",
                       "paths are byte strings without NUL; the tree has no symlinks for the denotation theorem (hypothesis parent(child d n)=d)"]
    if viol:
        for v in viol[:3]:
            res.violation({"property": "C15", "kind": "property-oracle-on-implementation", "failing": v,
                           "replay": "feed the input to redo::normpath / redo::relpath (harness pharness)"})
    elif d:
        res.violation({"property": "C15", "kind": "correspondence", "broken": "model Paths/Norm.v,Rel.v vs redo::{normpath,abs_path,relpath}",
                       "theorems_no_longer_tied": ["C15_idempotent", "C15_denotation", "C15_rejoin", "C15_one_record"],
                       "first_disagreements": d}, found_input=False)


def symlink_part(r, t):
    """Real directory tree with symlinked directories: the database key of
    every spelling of every file, from every working directory, on the
    implementation (redo::relpath run in that cwd) and on the model (relpath
    with the canonicalize() table observed from the OS)."""
    import shutil, subprocess, tempfile
    root = tempfile.mkdtemp(prefix="c15-", dir="/var/tmp")
    out = {"violations": [], "disagreements": [], "cases": 0, "same_file_pairs": 0}
    try:
        P = os.path.realpath(root)
        for dname in ("sub/deep", "other", "a b"):
            os.makedirs(os.path.join(P, dname))
        os.symlink("sub/deep", os.path.join(P, "link"))
        os.symlink(os.path.join(P, "other"), os.path.join(P, "sub", "abs"))
        os.symlink("..", os.path.join(P, "sub", "deep", "up"))
        dirs = ["", "sub", "sub/deep", "other", "a b"]
        files = [("", "q"), ("sub", "q"), ("sub/deep", "r"), ("other", "z"), ("a b", "q"), ("sub/deep/newdir", "n")]
        def spellings(cwd, d, f):
            absd = os.path.join(P, d) if d else P
            rel = os.path.relpath(absd, os.path.join(P, cwd) if cwd else P)
            S = [os.path.join(absd, f), os.path.join(rel, f), "./" + os.path.join(rel, f),
                 os.path.join(rel, ".", f), os.path.join(rel, "") + "/" + f,
                 os.path.join(absd, "..", os.path.basename(absd) if d else "", f) if d else os.path.join(P, ".", f)]
            if d == "sub/deep":
                S += [os.path.join(P, "link", f), os.path.relpath(os.path.join(P, "link"), os.path.join(P, cwd)) + "/" + f,
                      os.path.join(P, "link", "up", "deep", f)]
            if d == "sub":
                S += [os.path.join(P, "link", "..", f),
                      os.path.relpath(os.path.join(P, "link"), os.path.join(P, cwd) if cwd else P) + "/../" + f,
                      os.path.join(P, "sub", "deep", "up", f)]
            if d == "other":
                S += [os.path.join(P, "sub", "abs", f), os.path.relpath(os.path.join(P, "sub"), os.path.join(P, cwd) if cwd else P) + "/abs/" + f]
            if d == "":
                S += [os.path.join(P, "sub", "..", f), os.path.join(P, "link", "..", "..", f)]
            if d == "sub/deep/newdir":
                # the directory does not exist yet (the .do will create it): the key must already be the physical one
                S = [os.path.join(absd, f), os.path.join(rel, f), os.path.join(P, "link", "newdir", f),
                     os.path.relpath(os.path.join(P, "link"), os.path.join(P, cwd) if cwd else P) + "/newdir/" + f,
                     os.path.join(P, "link", "up", "deep", "newdir", f), os.path.join(P, "link", "newdir", "more", "..", f),
                     os.path.join(P, "link", "nope", "..", "newdir", f)]
            return S
        hdir = common.build_harness()
        impl = os.path.join(hdir, "pharness")
        model = common.build_model()
        base = P
        keys = {}
        for cwd in dirs:
            acwd = os.path.join(P, cwd) if cwd else P
            cases = []
            for (d, f) in files:
                for sp in spellings(cwd, d, f):
                    cases.append(((d, f), sp))
            lines = ["rel %s %s" % (hexs(sp), hexs(base)) for _, sp in cases]
            pr = subprocess.run([impl], input=("\n".join(lines) + "\n").encode(), stdout=subprocess.PIPE, cwd=acwd, env=common.ENV, timeout=120)
            iout = pr.stdout.decode().split("\n")[:len(lines)]
            # canonicalize() table for the model: every directory prefix the model may ask about
            mlines = []
            for _, sp in cases:
                ab = sp if sp.startswith("/") else acwd + "/" + sp
                tbl = {}
                for pth in (ab, base):
                    dn = pth[:pth.rfind("/") + 1]
                    if os.path.isdir(dn):
                        tbl[dn] = os.path.realpath(dn)
                    else:
                        # NotFound: the implementation resolves the longest prefix that exists
                        comps = [c_ for c_ in dn.split("/") if c_ not in ("", ".")]
                        for j in range(len(comps) - 1, -1, -1):
                            key = "/" + "/".join(comps[:j])
                            if os.path.exists(key):
                                tbl[key] = os.path.realpath(key)
                                break
                mlines.append("relc %s %s %s %s" % (hexs(acwd), hexs(sp), hexs(base), " ".join("%s %s" % (hexs(k), hexs(v)) for k, v in tbl.items())))
            mout = common.run_lines(model, mlines, shards=1)
            for ((d, f), sp), io, mo, ml in zip(cases, iout, mout, mlines):
                out["cases"] += 1
                if io != mo:
                    out["disagreements"].append({"case": "relpath(%r, base) from cwd %r" % (sp, cwd or "."), "model": mo, "impl": io})
                truth = os.path.join(d, f) if d else f
                if io in ("ERR", "PANIC") or unhex(io).decode() != truth:
                    out["violations"].append({"oracle": "one-record (symlinked tree)", "cwd": cwd or ".", "spelling": sp,
                                              "file": truth, "key_from_implementation": io if io in ("ERR", "PANIC") else unhex(io).decode(),
                                              "tree": "link -> sub/deep ; sub/abs -> <P>/other ; sub/deep/up -> .."})
                keys.setdefault(truth, set()).add(io)
        out["same_file_pairs"] = sum(len(v) for v in keys.values())
    finally:
        shutil.rmtree(root, ignore_errors=True)
    out["violations"] = out["violations"][:5]
    out["disagreements"] = out["disagreements"][:5]
    try:
        out["violations"] += real_commands_part()
        out["cases"] += 2
    except subprocess.TimeoutExpired:
        out["violations"].append({"oracle": "real commands part", "what": "timeout"})
    return out


def real_commands_part():
    """Two shapes on the real binaries, each in a fresh project:
    (a) the first command is run from a sub-directory on a `../` target, the second from the top:
        one state database, one record, the script runs once;
    (b) a target below a symlinked directory in a sub-directory that the script creates:
        after the rule changes it is rebuilt, and it has one record."""
    import shutil, subprocess, tempfile
    bindir = common.build_redo(True)
    bad = []
    env = dict(common.ENV)
    env["PATH"] = bindir + ":" + env.get("PATH", os.environ.get("PATH", ""))
    for k in list(env):
        if k.startswith("REDO") or k == "MAKEFLAGS":
            del env[k]
    run = lambda cwd, *a: subprocess.run(list(a), cwd=cwd, env=env, stdout=subprocess.PIPE, stderr=subprocess.PIPE, timeout=60)
    # (a)
    root = os.path.realpath(tempfile.mkdtemp(prefix="c15a-", dir="/var/tmp"))
    try:
        os.mkdir(os.path.join(root, "sub"))
        open(os.path.join(root, "x.do"), "w").write('echo run >> "%s/trace"\necho x\n' % root)
        r1 = run(os.path.join(root, "sub"), "redo-ifchange", "../x")
        r2 = run(root, "redo-ifchange", "x")
        dbs = [os.path.join(dp, f) for dp, _, fs in os.walk(root) for f in fs if f == "db.sqlite3"]
        runs = len(open(os.path.join(root, "trace")).read().split()) if os.path.exists(os.path.join(root, "trace")) else 0
        tg = run(root, "redo-targets").stdout.decode().split()
        if r1.returncode or r2.returncode or len(dbs) != 1 or runs != 1 or tg != ["x"]:
            bad.append({"oracle": "one file, one record", "scenario": "fresh project: (cd sub && redo-ifchange ../x); then redo-ifchange x from the top",
                        "state_databases": [os.path.relpath(d, root) for d in dbs], "x.do_ran": runs, "redo-targets from the top": tg,
                        "exit": [r1.returncode, r2.returncode]})
    finally:
        shutil.rmtree(root, ignore_errors=True)
    # (b)
    root = os.path.realpath(tempfile.mkdtemp(prefix="c15b-", dir="/var/tmp"))
    try:
        os.mkdir(os.path.join(root, ".redo"))
        os.mkdir(os.path.join(root, "real"))
        os.symlink("real", os.path.join(root, "link"))
        rule = 'mkdir -p "$(dirname "$1")"\necho %s >$3\n'
        open(os.path.join(root, "default.out.do"), "w").write(rule % "v1")
        r1 = run(root, "redo-ifchange", "link/newdir/x.out")
        open(os.path.join(root, "default.out.do"), "w").write(rule % "v2")
        r2 = run(root, "redo-ifchange", "link/newdir/x.out")
        r3 = run(root, "redo-ifchange", "real/newdir/x.out")
        content = open(os.path.join(root, "real", "newdir", "x.out")).read() if os.path.exists(os.path.join(root, "real", "newdir", "x.out")) else None
        tg = run(root, "redo-targets").stdout.decode().split()
        sr = run(root, "redo-sources").stdout.decode().split()
        if r1.returncode or r2.returncode or r3.returncode or content != "v2\n" or tg != ["real/newdir/x.out"] or "real/newdir/x.out" in sr:
            bad.append({"oracle": "one file, one record", "scenario": "link -> real; default.out.do creates the directory; redo-ifchange link/newdir/x.out; rule edited; again",
                        "content": content, "expected": "v2\n", "redo-targets": tg, "redo-sources": sr, "exit": [r1.returncode, r2.returncode, r3.returncode]})
    finally:
        shutil.rmtree(root, ignore_errors=True)
    return bad


def replay(path):
    import json
    rep = json.load(open(path))
    print(json.dumps(rep, indent=1))
    return 0
