#!/bin/bash
# usage: try_mutant.sh <patch.diff> <prop> [<prop>...]   -- applies to /repo, runs quick checks, reverts
set -u
patch=$1; shift
cd /repo || exit 2
if ! git diff --quiet; then echo "/repo dirty"; exit 2; fi
git apply "$patch" || { echo "patch does not apply"; exit 2; }
for p in "$@"; do
  echo "== $p"
  (cd /verif && timeout 1800 ./check $p --tier quick 2>&1 | grep -E "VIOLATION|KNOWN-FINDING|Traceback|Error" ; echo "exit=${PIPESTATUS[0]}")
done
git -C /repo checkout -- . ; git -C /repo status --short | head -3
# leave the cached binaries built from the clean tree again (confirm_mutant.sh uses them as the unchanged build)
(cd /verif && python3 -c "import sys; sys.path.insert(0,'lib'); import common; common.build_redo(True)") >/dev/null 2>&1
