#!/bin/bash
# usage: confirm_mutant.sh <outdir> <seeded-id> <prop> "<needs>"   (creates its own scratch worktree)
# Confirms: patch == worktree diff; cargo test passes with the change; demo fails with / passes without.
# Then stores /verif/seeded/<id>/ and removes the worktree.
set -u
out=$1; id=$2; prop=$3; needs=$4
wt=/var/tmp/confirm-wt-$id
log=/tmp/confirm-$id.log; : > $log
[ -d /verif/.cache/bin-hooks ] || { echo "no base bin dir; run /verif/setup" ; exit 2; }
git -C /repo worktree remove --force $wt 2>/dev/null; rm -rf $wt
git -C /repo worktree add --detach $wt HEAD >> $log 2>&1 || exit 2
cd $wt || exit 2
git apply $out/patch.diff || { echo "does not apply to /repo HEAD" | tee -a $log; cd /; git -C /repo worktree remove --force $wt; exit 3; }
CARGO_NET_OFFLINE=true timeout 1500 cargo test --offline >> $log 2>&1; trc=$?
echo "cargo test rc=$trc" >> $log
grep -E "^test result" $log | tr '\n' ';' > /tmp/confirm-$id.tests
CARGO_NET_OFFLINE=true cargo build --offline >> $log 2>&1
bin=/tmp/confirm-$id-bin; rm -rf $bin; mkdir -p $bin
for n in redo redo-ifchange redo-ifcreate redo-always redo-stamp redo-ood redo-targets redo-sources redo-whichdo redo-log redo-unlocked; do ln -s $wt/target/debug/redo $bin/$n; done
demo_with=NA; demo_without=NA
if [ -f $out/demo.sh ]; then
  (setsid timeout 300 bash $out/demo.sh $bin >> $log 2>&1); demo_with=$?
  (setsid timeout 300 bash $out/demo.sh /verif/.cache/bin-hooks >> $log 2>&1); demo_without=$?
elif [ -f $out/demo_test.rs ]; then
  cp $out/demo_test.rs $wt/tests/demo_test.rs
  CARGO_NET_OFFLINE=true timeout 900 cargo test --offline --test demo_test >> $log 2>&1; demo_with=$?
  git stash -q -- src; CARGO_NET_OFFLINE=true timeout 900 cargo test --offline --test demo_test >> $log 2>&1; demo_without=$?; git stash pop -q
  rm -f $wt/tests/demo_test.rs
fi
echo "demo_with=$demo_with demo_without=$demo_without" >> $log
if [ $trc -eq 0 ] && [ "$demo_with" != "0" ] && [ "$demo_without" = "0" ]; then
  d=/verif/seeded/$id; mkdir -p $d
  cp $out/patch.diff $d/; [ -f $out/demo.sh ] && cp $out/demo.sh $d/; [ -f $out/demo_test.rs ] && cp $out/demo_test.rs $d/; [ -f $out/notes.md ] && cp $out/notes.md $d/
  python3 - "$d" "$prop" "$needs" "$(cat /tmp/confirm-$id.tests)" "$demo_with" "$demo_without" <<'PY'
import json, sys
d, prop, needs, tests, dw, dwo = sys.argv[1:7]
json.dump({"breaks_property": prop, "needs_to_manifest": needs,
           "confirmed": {"cargo_test_with_change": tests, "demo_exit_with_change": dw, "demo_exit_without_change": dwo,
                         "how": "tools/confirm_mutant.sh: cargo test --offline in a scratch worktree with the patch; demo run against the patched build and against the unchanged build"},
           "caught_by": []}, open(d + "/meta.json", "w"), indent=1)
PY
  echo CONFIRMED >> $log
else
  echo REJECTED >> $log
fi
cd /; git -C /repo worktree remove --force $wt; rm -rf $bin
tail -3 $log
