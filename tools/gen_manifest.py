#!/usr/bin/env python3
"""Regenerates MANIFEST.json from the table below (kept in one place so the
manifest is always valid)."""
import json, os, subprocess
HERE = os.path.dirname(os.path.dirname(os.path.abspath(__file__)))

TB = ("Trusted: Coq 8.16.1 kernel (coqc; coqchk in the thorough tier), vm_compute in Examples; no axioms (Print Assumptions: closed); "
      "extraction with ExtrOcamlBasic only + ocaml/driver.ml; the correspondence harnesses; the hand-written model (tied to /repo by the correspondence run on every invocation).")

CHECKS = {
 "C13": dict(
    text="Proof (Coq): the iterator state machine of possible_do_files equals the documented candidate order for every absolute path (C13_order), with ordering/argument lemmas. Tie: exhaustive + random differential run of the extracted model against redo::possible_do_files built from the working tree; an independent Python rendering of the documented order is the failing-input oracle.",
    note=TB + " Existence tests and sh argument passing are the OS's.",
    technique="Coq proof (iterator = declarative spec) + model/implementation differential check",
    ref="5/C13"),
 "C15": dict(
    text="Proof (Coq): normpath idempotent for every byte string; output in normal form; meaning preserved in every link-free directory structure; relpath/rejoin identity; one DB key per real location and no aliasing. Tie: exhaustive strings over {/ . a b} + random, model vs redo::{normpath,abs_path,relpath}; property statements also evaluated directly on the implementation to produce failing inputs.",
    note=TB + " A-CANON: canonicalize() is a parameter (oracle) of the model.",
    technique="Coq proof (induction over components) + exhaustive model/implementation differential check",
    ref="5/C15"),
}

ALL = ["C%02d" % i for i in range(1, 19)]
NA_REASON = "not claimed yet in this round: model/check under construction (see DESIGN.md section 10 staging); no verdict is produced for it"


def main():
    commits = subprocess.run(["git", "-C", "/repo", "log", "--format=%H %s"], capture_output=True, text=True).stdout.strip().split("\n")
    hook_commits = [c.split()[0] for c in commits if " verif-hooks" in c or c.split(" ", 1)[1].startswith("verif-hooks")]
    m = {
        "version": 1,
        "setup_cmd": "./setup",
        "hooks": {
            "guard": "cargo feature verif-hooks",
            "enable": "cargo build --offline --features verif-hooks --manifest-path /repo/Cargo.toml --target-dir /verif/.cache/target/hooks",
            "baseline_off_cmd": "cd /repo && cargo test --workspace --no-fail-fast --offline",
            "source_commits": hook_commits,
            "add_only": True,
        },
        "engines": [
            {"name": "coq", "path": "coq/", "serves_properties": sorted(CHECKS), "kind_free_text": "Coq 8.16.1 development: executable Gallina models + theorems; props/Cnn.v hold the property theorems"},
            {"name": "correspondence", "path": "lib/ checks/ harness/ ocaml/", "serves_properties": sorted(CHECKS), "kind_free_text": "differential run of the extracted model against /repo's current build"},
        ],
        "checks": [],
        "not_applicable": [],
        "notes": "Entry point ./check Cnn [--tier quick|thorough]. KNOWN_FINDINGS lists recorded defects; seeded/ holds the mutants used to test the machinery.",
    }
    for pid in ALL:
        if pid in CHECKS:
            c = CHECKS[pid]
            m["checks"].append({
                "property_id": pid,
                "quick_cmd": "./check %s --tier quick" % pid,
                "thorough_cmd": "./check %s --tier thorough" % pid,
                "evidence_file": "/verif/evidence/%s.json" % pid,
                "replay_cmd_template": "./check %s --replay {path}" % pid,
                "engine": "coq",
                "level_claimed": {"category": "proof", "text": c["text"], "design_ref": c["ref"]},
                "level_note": c["note"],
                "technique": c["technique"],
            })
        else:
            m["not_applicable"].append({"property_id": pid, "reason": NA_REASON})
    json.dump(m, open(os.path.join(HERE, "MANIFEST.json"), "w"), indent=1)


main()
