#!/usr/bin/env python3
"""Regenerates MANIFEST.json from the table below (kept in one place so the
manifest is always valid)."""
import json, os, subprocess
HERE = os.path.dirname(os.path.dirname(os.path.abspath(__file__)))

TB = ("Trusted: Coq 8.16.1 kernel (coqc; coqchk in the thorough tier), vm_compute in Examples; no axioms (Print Assumptions: closed); "
      "extraction with ExtrOcamlBasic only + ocaml/driver.ml; the correspondence harnesses; the hand-written model (tied to /repo by the correspondence run on every invocation).")

SERIAL = ("Tie: random projects and histories (DSL scripts rendered as sh) are executed by the real binaries and by the extracted model; exit status, script trace, log records, file contents, Files rows (run ids included) and Deps rows are compared after every step. Independent oracles (from-scratch evaluation, repeated build, user-file preservation, failure handling, query listings) are evaluated on the implementation's own results to produce failing inputs.")
PARTIAL = (" PARTIAL proof: the theorems are the local decision rules / one-step facts of the executable model Build/Model.v, proved for every state; the statement over whole histories is recorded as <id>_full_statement and is not proved in Coq -- over histories the property is decided by the correspondence + oracles.")

CHECKS = {
 "C01": dict(text="Proof (Coq, partial): dirtiness decision rules of the serial model (never built / failed / newer dependency => dirty) for every database and file-system state; over the whole dependency walk, a recorded dependency that failed, was never built or changed later than the target was last built/verified makes the target not clean wherever it stands in the list (C01_moved_on_dep_not_clean); witness history of finding F1 evaluated on the fixed model. " + SERIAL + PARTIAL,
    note=TB + " Assumptions A-STAMP, A-QUIESCENT; scripts restricted to the DSL; flat project directory.",
    technique="Coq proof of local decision rules on an executable model + model/implementation differential check over histories + from-scratch oracle", ref="5/C01"),
 "C02": dict(text="Proof (Coq, partial): never-built and failed targets run; checking dirtiness has no file effect; example: repeated build runs nothing, dropped dependency no longer triggers (vm_compute on the model).  Completeness of the walk (Build/CleanProofs.v): on every quiet set of rows (not failed, built, stamp matches, ifcreate paths absent, dependencies inside the set, not newer, acyclic) the check answers CLEAN and writes nothing, for every database and file system." + SERIAL + PARTIAL,
    note=TB + " The reference simulation named by the property is the extracted Coq model itself.",
    technique="Coq proof of local decision rules + model/implementation differential check over histories", ref="5/C02"),
 "C03": dict(text="Proof (Coq, partial): redo-stamp with equal bytes leaves changed_runid alone and marks checked; with different bytes sets changed_runid to the current run; a newer dependency makes its consumer dirty; depth-2 cut-off/forwarding example on the model. " + SERIAL + PARTIAL,
    note=TB + " SHA-1 is abstracted: the checksum is the stamped byte sequence itself.",
    technique="Coq proof of the redo-stamp record rules + model/implementation differential check over histories with checksummed targets", ref="5/C03"),
 "C04": dict(text="Proof (Coq): for every script output, status, prior target state and surrounding file system: status table (206/207/own), failure leaves the target path untouched, success installs exactly the output, no $3 left, no other file touched (C04_job). Tie: serial model vs implementation on output-channel/failure histories. Oracle: exhaustive behaviour matrix (13 behaviours incl. killed scripts and deleted $3 x 2 sizes x 3 prior states) and a concurrent reader on the implementation.",
    note=TB + " A-RENAME: rename(2) is atomic; a script that writes $1 itself has changed the file (redo adds no effect and reports 206).",
    technique="Coq proof by case analysis over the job's effect function + exhaustive behaviour matrix on the implementation", ref="5/C04"),
 "C05": dict(text="Proof (Coq, partial): a target failed in this run is answered with status 32 without touching anything; without --keep-going run_loop starts nothing after a failure; a non-zero job marks its row failed in this run; a failed row is dirty in every later check; a failing job makes its command exit non-zero; a failure mark survives every dirtiness check and a row with a recorded edge to a failed row is never found clean by a run that has not verified it itself (C05_dependent_of_failed_not_clean, for every database/fuel/callback) -- exercised with failure-tolerant scripts ('redo-ifchange d || true'). " + SERIAL + PARTIAL + " The -j>1 clause rests on the scheduler model of C09.",
    note=TB + " Serial (-j1) semantics; job status vs command status as in DESIGN.md C04/C05.",
    technique="Coq proof of failure-handling rules + model/implementation differential check over failing histories", ref="5/C05"),
 "C06": dict(text="Proof (Coq): the lock/job protocol as a transition system over the events the hooked implementation reports (acquired, busy, release, forced, job start, job recorded, process end): on every accepted event sequence of any number of processes there is at most one running script per file id, every running script's lock is held by a live process, and a lock can be released only after the result was recorded (C06_mutex, C06_recorded_before_release). Tie: trace validation on 2..5 contending top-level invocations (redo / redo-ifchange, mixed -j, failing scripts); the model refuses e.g. a holder that ends while its script runs (finding F2). Oracle: work sections written by the scripts themselves never overlap per target.",
    note=TB + " A-FCNTL; events are logged after acquisition / before release so the trace order is a possible real order; killing only the parent redo is a stated limit.",
    technique="Coq invariant proof over the lock-protocol transition system + trace validation of the implementation's lock events", ref="5/C06"),
 "C07": dict(text="Proof (Coq, partial): one running script per file id at any time (lock protocol), a file id is handled once per command whatever its spellings, a target that failed in this run is refused; a job that ends with status 0 leaves its row 'dealt with in this run' and every further redo-ifchange of it in that run starts no script whatever its dependencies look like (C07_success_marks_row, C07_dealt_with_not_again; finding F23); diamond example on the serial model. Equality with the serial build is decided on the implementation: random DAGs at -j1..8, shuffled, duplicate spellings, SIGSTOP/SIGCONT perturbed schedules, compared with a -j1 build (execution counts, exit status, file contents, Files/Deps rows). On the transition system of the lock protocol (Sched/OnceRun.v: free/held/building/recorded, should_build under the lock, one run mark per row) every event sequence of any number of processes of ONE run starts each script at most once (C07_at_most_once_per_run); with other runs the bound is starts <= foreign records + 1 unless a later run recorded the target, in which case it is refuted by a witness; the lck events of every parallel run are replayed through the extracted model. The build lock of fix F71 (Sched/BuildLock.v): on every accepted trace a running script's build lock is held by its starter, and for every interleaving of builders and walks under mutually exclusive write transactions no walk reads rows in mid-build of a target whose build lock it found free (C07_running_script_holds_build_lock, C07_walk_never_reads_rows_in_mid_build); the traces are replayed through the protocol WITH these obligations, and the order of steps the model assumes (lock before the start commit, kept until the result is recorded, probed by the walk before the rows are read; builder.rs transactions IMMEDIATE) is read off the current source by tools/anchors.py on every run (C07_build_lock_tied_to_source).",
    note=TB + " confluence (C07_full_statement) is not proved in Coq.",
    technique="Coq proof of the once-only mechanisms + differential comparison of parallel vs serial builds of the implementation", ref="5/C07"),
 "C09": dict(text="Proof (Coq, partial): for every sequence of the token-book operations the code performs under its own tests, no assertion of jobserver.rs can fail (C09_no_token_assertion, invariant my,cheats in {0,1}); globally no book or pipe goes negative. Deadlock-freedom is not proved. On the implementation: all-success builds under perturbed schedules (processes stopped/continued at random so that child exits, token arrivals and lock hand-overs coincide), duplicate targets, contending invocations, externally held log locks (cheat storm): must end with exit 0, no panic, token trace accepted by the model.",
    note=TB + " the model assumes a cheat is granted only to a process holding none (not tested by the code; unconfirmed on the real binary, see DESIGN.md); OS fairness and the 60 s SQLite timeout are assumptions.",
    technique="Coq safety proof of the token-book automaton + schedule-perturbed runs of the implementation with trace validation", ref="5/C09"),
 "C12": dict(text="Proof (Coq, partial): the two detection rules return 208 at once without starting a job (target being built by an ancestor; script asking for its own target); a recorded chain that returns to a file under check ends the walk with 'dirty' and changes nothing (C12_recorded_cycle_ends_the_walk; finding F78: recorded rows may be stale, the scripts decide); cycles of length 1..3 from every entry on the serial model; a dependency that was turned round is not a cycle (C12_dependency_in_mid_build_is_dirty, C12_reversed_dependency_is_no_cycle; finding F66). On the implementation: cycles of length 1..4 behind prefixes, every entry, -j1..4, bound 15 s. The parallel multi-entry hang is known finding F9.",
    note=TB + " termination of the nested recursion is not proved in Coq.",
    technique="Coq proof of the detection rules + bounded-time cyclic scenarios on the implementation", ref="5/C12"),
 "C08": dict(text="Proof (Coq): for every event sequence of any number of redo processes (start, nested begin, token read, cheat, reap with/without cheat byte, release, abandon-on-error-exit, self-test, exit) the quantity Q = T - C + sum(my - cheats) + J - L is conserved; all books and pipes stay non-negative; working jobs <= n + outstanding cheats, and <= n exactly when no cheat is granted (no log capture); with log capture 'n plus at most one' is proved FALSE of the model by a witness trace (known finding F50, driven on the binaries and replayed through the model on every run); the top-level self-test cannot fail; the tokenless exit of finding F7 is exactly the event the model refuses. Tie: trace validation -- every token-book event reported by the hooked implementation in real parallel builds (-j1..8, log capture on/off, failing builds, inherited jobserver, error exits with sibling jobs still running) is replayed through the extracted model, which must accept it and reproduce the reported book and pipe writes. Oracles: self-test message, inherited pipe content, measured work overlap.",
    note=TB + " A-PIPE; the hook verif_token_event is trusted to report the book after each mutation; abort paths (abandoned jobs) are outside the model.",
    technique="Coq invariant proof over a transition system + trace validation of the implementation's own token events", ref="5/C08"),
 "C10": dict(text="Proof (Coq, partial): while a job installs its output the target shows the old bytes until the very last effect and the complete new bytes after it, nothing in between; the enumerated effect sequence is the one record_new_state performs; a failing job never touches the target. The crash state between the rename and the recording commit is finding F8: its refutation is evaluated on the serial model. Decision on the implementation (fault enumeration): an LD_PRELOAD shim numbers every state-changing call (rename, unlink, create/truncate, ftruncate, writes to the state database and its WAL) of every process of a build; for every kill point the calling redo process or the whole process group is killed immediately before the call, then recovery (redo-ifchange; edit a source; redo-ifchange) is checked: termination, exit 0, every target correct, nothing marked overridden, the edit propagated. Known findings F8 and F18 are recognised by their window in the call log.",
    note=TB + " A-SQLITE-ATOMIC; the shim sees calls made through libc; quick tier samples the database writes (every fourth), thorough tier takes every call.",
    technique="Coq proof of crash-prefix structure + exhaustive kill-point enumeration on the implementation", ref="5/C10"),
 "C11": dict(text="Proof (Coq): over WHOLE builds and histories of the serial model (Build/Protect.v): a file that exists, is outside redo's reserved names and is not claimed by a database row (never generated, overridden, or stamp differs) is left byte-for-byte alone and stays protected by every build (any project, command line, environment, fuel: C11_build_protects) and by every history of commands and user edits of other files (C11_history_protects); a user's write protects the file (C11_user_write_protected, under A-STAMP). One-job theorems: a job for an existing file that is not redo's own (never generated, overridden, or stamp no longer the recorded one) returns 0 and leaves every file as it was (C11_user_file_untouched); dirtiness checks and query commands touch no file; finishing a job touches only its own target and $3. " + SERIAL + PARTIAL,
    note=TB + " A-STAMP: a user replacement with identical mtime and size is indistinguishable by design.",
    technique="Coq proof of the guard conditions on start_self + model/implementation differential check + user-file preservation oracle", ref="5/C11"),
 "C13": dict(
    text="Proof (Coq): the iterator state machine of possible_do_files equals the documented candidate order for every absolute path (C13_order), with ordering/argument lemmas. Tie: exhaustive + random differential run of the extracted model against redo::possible_do_files built from the working tree; an independent Python rendering of the documented order is the failing-input oracle; end to end (lib/e2e_c13.py): histories over default.x.do / default.y.x.do / default.do and specific .do files that come and go, names repeating the matched extension, run by the real binaries and the serial model, with $1 $2 $3 of every script start checked against the documented rule.",
    note=TB + " Existence tests and sh argument passing are the OS's.",
    technique="Coq proof (iterator = declarative spec) + model/implementation differential check",
    ref="5/C13"),
 "C14": dict(text="Proof (Coq, partial): over the whole dependency walk a target with a recorded redo-ifcreate edge to a path that exists now, or an edge to //ALWAYS, is never found clean by a run that has not dealt with it (C14_ifcreate_or_always_not_clean); redo-ifcreate of an existing path is an error and records nothing, of absent paths succeeds without touching files; //ALWAYS is always newer than any earlier run, and a newer dependency makes its consumer dirty; example: always runs once per run for two dependents, ifcreate target runs after the watched file appears and not before.  Completeness of the walk (Build/CleanProofs.v): on every quiet set of rows (not failed, built, stamp matches, ifcreate paths absent, dependencies inside the set, not newer, acyclic) the check answers CLEAN and writes nothing, for every database and file system." + SERIAL + PARTIAL,
    note=TB + " -j>1 clause rests on C07/C09.",
    technique="Coq proof of ifcreate/always rules + model/implementation differential check over create/delete histories", ref="5/C14"),
 "C15": dict(
    text="Proof (Coq): normpath idempotent for every byte string; output in normal form; meaning preserved in every link-free directory structure; relpath/rejoin identity; one DB key per real location and no aliasing. Tie: exhaustive strings over {/ . a b} + random, model vs redo::{normpath,abs_path,relpath}; spellings through a real tree with symlinked directories from several working directories (canonicalize table observed from the OS); property statements evaluated directly on the implementation to produce failing inputs.",
    note=TB + " A-CANON: canonicalize() is a parameter (oracle) of the model.",
    technique="Coq proof (induction over components) + exhaustive model/implementation differential check",
    ref="5/C15"),
 "C16": dict(text="Proof (Coq): in the SQLite WAL abstraction, transactions that begin IMMEDIATE or never write after a read never get SQLITE_BUSY, for any number of connections and any interleaving (C16_no_busy); the transaction sites regenerated from the CURRENT source by tools/anchors.py all obey the rule (C16_sites_ok, re-checked on every run), hence no command of the code can fail with a busy error (C16_code_no_busy); the rule is necessary (two-connection refutation, findings F10a/F16). Ties: the abstraction is compared with the real SQLite library on every interleaving of two transactions; Anchors.v is regenerated from the working tree. Oracle: stress runs of simultaneous commands beside a -j4 build (incl. first invocations on an empty project), looking for busy/locked errors, lost dependency records and integrity_check failures; when the proof obligation breaks the stress run is used to find a concrete failing command.",
    note=TB + " tools/anchors.py (translator and its per-site access-pattern table) is trusted; A-TIMEOUT.",
    technique="Coq proof over a WAL locking abstraction + obligation regenerated from the source on every run + differential test of the abstraction against SQLite", ref="5/C16"),
 "C17": dict(text="Proof (Coq): the three query commands change nothing but the run-id counter (files, rows, dependency records identical); targets and sources are disjoint; what is in neither list is a special name or a file missing on disk; the ood walk touches no file; redo-ood's dirtiness walk (set in memory) and the builder's (checked_runid in the database, rows judged on copies) return the same verdicts for any list of targets whenever both return, from any state at the start of a run (C17_ood_agrees_with_builder: simulation with a 'settled rows' invariant, Build/OodAgree.v) -- the lower-bound clause on the model. The bounds on redo-ood are also decided against the implementation (paired runs with and without queries, lower bound).  Completeness of the walk (Build/CleanProofs.v): on every quiet set of rows (not failed, built, stamp matches, ifcreate paths absent, dependencies inside the set, not newer, acyclic) the check answers CLEAN and writes nothing, for every database and file system." + SERIAL,
    note=TB + " redo-ood's rolled-back write is modelled as discarded.",
    technique="Coq proof of read-only/partition facts and of the agreement of redo-ood's walk with the builder's (simulation) + model/implementation differential check with query commands at every point", ref="5/C17"),
 "C18": dict(text="Proof (Coq): (a) format/parse round trip for every well-formed record (text may contain '@@ ' or '@@REDO:'), soundness of parse, done-record round trip. Tie: exhaustive small strings + random + malformed stream, model vs redo::logs::Meta. Part (b): the follower's partial-line buffer is modelled (LogRec/Assemble.v) and proved to lose/duplicate nothing and to emit the same lines for every fragmentation of the log's bytes (C18_fragmentation_independent); the replay redo-log -r [-u] is modelled (LogRec/Catlog.v: recursion over nested logs, already-set, headers, resumed, done, unterminated last line, exit 24, panics) and proved, for every set of logs and every name resolution, to show each reached target's plain lines exactly once, in order, under a header naming that target (C18b_replay_lines_once, C18b_replay_attributed), and the follower to see the static model's lines (C18b_follow_equals_static); a physical line 'text + record' is cut in two without loss (C18b_text_then_record_line; finding F64); tie: the bytes printed by the real redo-log on the logs of random real builds equal the model's rendering (pid/time normalised), exit status included. The live (follow, lock-aware) output is decided on the implementation: numbered stderr lines (long, trailing blanks, unterminated, one line delivered in 3-5 fragments) at -j1..4 must appear once, in order, under their own target (PARTIAL for the live clause); findings F11, F52, F53 known.",
    note=TB + " f64 timestamps modelled as integers in 1e-4 s; signs/exponents/inf/nan in timestamps are outside the model.",
    technique="Coq proof (round trip) + exhaustive model/implementation differential check", ref="5/C18"),
}

ALL = ["C%02d" % i for i in range(1, 19)]
NA_REASON = "not claimed yet in this round: model/check under construction (see DESIGN.md section 10 staging); no verdict is produced for it"


def main():
    commits = subprocess.run(["git", "-C", "/repo", "log", "--format=%H %s"], capture_output=True, text=True).stdout.strip().split("\n")
    hook_commits = [c.split()[0] for c in commits if " verif-hooks" in c or c.split(" ", 1)[1].startswith("verif-hooks")]
    m = {
        "version": 1,
        "setup_cmd": "./setup",
        "hooks": {
            "guard": "cargo feature verif-hooks",
            "enable": "cargo build --offline --features verif-hooks --manifest-path /repo/Cargo.toml --target-dir /verif/.cache/target/hooks",
            "baseline_off_cmd": "cd /repo && cargo test --workspace --no-fail-fast --offline",
            "source_commits": hook_commits,
            "add_only": True,
        },
        "engines": [
            {"name": "coq", "path": "coq/", "serves_properties": sorted(CHECKS), "kind_free_text": "Coq 8.16.1 development: executable Gallina models + theorems; props/Cnn.v hold the property theorems"},
            {"name": "correspondence", "path": "lib/ checks/ harness/ ocaml/", "serves_properties": sorted(CHECKS), "kind_free_text": "differential run of the extracted model against /repo's current build"},
        ],
        "checks": [],
        "not_applicable": [],
        "notes": "Entry point ./check Cnn [--tier quick|thorough]. KNOWN_FINDINGS lists recorded defects; seeded/ holds the mutants used to test the machinery.",
    }
    for pid in ALL:
        if pid in CHECKS:
            c = CHECKS[pid]
            m["checks"].append({
                "property_id": pid,
                "quick_cmd": "./check %s --tier quick" % pid,
                "thorough_cmd": "./check %s --tier thorough" % pid,
                "evidence_file": "/verif/evidence/%s.json" % pid,
                "replay_cmd_template": "./check %s --replay {path}" % pid,
                "engine": "coq",
                "level_claimed": {"category": "proof", "text": c["text"], "design_ref": c["ref"]},
                "level_note": c["note"],
                "technique": c["technique"],
            })
        else:
            m["not_applicable"].append({"property_id": pid, "reason": NA_REASON})
    json.dump(m, open(os.path.join(HERE, "MANIFEST.json"), "w"), indent=1)


main()
