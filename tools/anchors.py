#!/usr/bin/env python3
"""Translator: regenerates coq/theories/Anchors.v from /repo's current source.
Facts extracted: exit-code constants (src/exits.rs), LOG_LOCK_MAGIC / ALWAYS /
SCHEMA_VER / BUILD_LOCK_MAGIC (src/state.rs), every SQLite transaction site with
its BEGIN mode, and the order of steps the protocol models assume (build lock
taken before the start commit and held until the result is recorded; the walk
probes it; no second cheat while in debt; the job's pipe before its token).  The access pattern of a site (read-only / may write after reading /
writes first) is a table keyed by site, kept here; a site the table does not
know makes the translation fail (a broken tie, not something to ignore)."""
import os
import re
import sys

REPO = os.environ.get("VERIF_REPO", "/repo")
HERE = os.path.dirname(os.path.dirname(os.path.abspath(__file__)))
OUT = os.path.join(HERE, "coq", "theories", "Anchors.v")

# site -> pattern of operations inside the transaction
#   "R"  reads only;  "RW" reads and then may write;  "W" the first statement is a write
PATTERN = {
    "state.rs:init:existing_db_alloc_runid": "RW",     # reads Schema, inserts Runid
    "state.rs:init:existing_db_inherited_runid": "R",  # reads Schema only
    "state.rs:init:create_db": "W",                    # CREATE TABLE first
    "builder.rs": "RW", "ifchange.rs": "RW", "stamp.rs": "RW", "always.rs": "RW", "ifcreate.rs": "RW",
    "main.rs": "RW", "ood.rs": "RW",
    "targets.rs": "R", "sources.rs": "R", "log.rs": "R",
}


class Broken(Exception):
    pass


def read(p):
    return open(os.path.join(REPO, p)).read()


def exit_codes():
    s = read("src/exits.rs")
    out = []
    for m in re.finditer(r"const (EXIT_[A-Z_]+): i32 = (\d+);", s):
        out.append((m.group(1), int(m.group(2))))
    if len(out) < 10:
        raise Broken("src/exits.rs: expected at least 10 exit constants, found %d" % len(out))
    return out


def constants():
    s = read("src/state.rs")
    m1 = re.search(r"pub const LOG_LOCK_MAGIC: i64 = (0x[0-9a-fA-F]+|\d+);", s)
    m2 = re.search(r'const ALWAYS: &str = "([^"]+)";', s)
    m3 = re.search(r"const SCHEMA_VER: i32 = (\d+);", s)
    if not (m1 and m2 and m3):
        raise Broken("src/state.rs: LOG_LOCK_MAGIC / ALWAYS / SCHEMA_VER not found")
    return int(m1.group(1), 0), m2.group(1), int(m3.group(1))


def strip_hooks(s):
    # hook code is not part of what is verified
    return re.sub(r'#\[cfg\(feature = "verif-hooks"\)\]\s*\n[^\n]*\n', "", s)


def sites():
    out = []
    # ProcessState::init
    s = read("src/state.rs")
    m = re.search(r"transaction_with_behavior\(if e\.runid\.is_none\(\) \{\s*TransactionBehavior::(\w+)\s*\} else \{\s*TransactionBehavior::(\w+)\s*\}\)", s)
    if m:
        out.append(("state.rs:init:existing_db_alloc_runid", m.group(1)))
        out.append(("state.rs:init:existing_db_inherited_runid", m.group(2)))
    else:
        m = re.search(r"let tx = db\s*\.transaction_with_behavior\(\s*TransactionBehavior::(\w+)", s)
        if m:
            out.append(("state.rs:init:existing_db_alloc_runid", m.group(1)))
            out.append(("state.rs:init:existing_db_inherited_runid", m.group(1)))
        else:
            n = len(re.findall(r"db\.transaction\(\)", s))
            if n >= 2:
                out.append(("state.rs:init:existing_db_alloc_runid", "Deferred"))
                out.append(("state.rs:init:existing_db_inherited_runid", "Deferred"))
            else:
                raise Broken("src/state.rs: cannot find the start-up transaction of ProcessState::init")
    # the branch that creates the database: the else-block of `if !must_create { ... } else { ... }`
    k = s.find("if !must_create {")
    if k < 0:
        raise Broken("src/state.rs: cannot find the must_create test of ProcessState::init")
    def block(start):
        depth, i = 0, s.index("{", start)
        j = i
        while True:
            if s[j] == "{":
                depth += 1
            elif s[j] == "}":
                depth -= 1
                if depth == 0:
                    return i, j
            j += 1
    a, b = block(k)
    m2 = re.match(r"\s*else\s*\{", s[b + 1:])
    if not m2:
        raise Broken("src/state.rs: cannot find the database-creation branch")
    c, d = block(b + 1)
    body = s[c:d]
    m = re.search(r"transaction_with_behavior\(\s*TransactionBehavior::(\w+)", body)
    if m:
        mode = m.group(1)
    elif re.search(r"db\.transaction\(\)", body):
        mode = "Deferred"
    else:
        raise Broken("src/state.rs: cannot find the database-creation transaction")
    q = body.find("query_row(")
    w = body.find("create_schema(")
    if w < 0:
        raise Broken("src/state.rs: the database-creation branch does not create the schema")
    PATTERN["state.rs:init:create_db"] = "RW" if 0 <= q < w else "W"
    out.append(("state.rs:init:create_db", mode))
    files = ["src/builder.rs"] + sorted("src/bin/redo/" + f for f in os.listdir(os.path.join(REPO, "src/bin/redo")) if f.endswith(".rs"))
    for f in files:
        s = strip_hooks(read(f))
        for m in re.finditer(r"ProcessTransaction::new\(\s*[^,]+,\s*TransactionBehavior::(\w+)\s*\)", s):
            line = s.count("\n", 0, m.start()) + 1
            out.append(("%s" % os.path.basename(f), m.group(1)))
        n_new = len(re.findall(r"ProcessTransaction::new\(", s))
        n_ok = len(re.findall(r"ProcessTransaction::new\(\s*[^,]+,\s*TransactionBehavior::(\w+)\s*\)", s))
        if n_new != n_ok:
            raise Broken("%s: a ProcessTransaction::new call whose mode could not be read" % f)
    return out


def busy_immediate():
    """Statements that need the exclusive lock and for which SQLite reports SQLITE_BUSY at once,
    without consulting the busy timeout (a change of journal mode): each must be retried by the code."""
    s = read("src/state.rs")
    m = re.search(r"\nfn connect\b[^\n]*\{", s)
    if not m:
        raise Broken("src/state.rs: cannot find fn connect")
    depth, j = 0, m.end() - 1
    i = j
    while True:
        if s[j] == "{":
            depth += 1
        elif s[j] == "}":
            depth -= 1
            if depth == 0:
                break
        j += 1
    body = s[i:j]
    if "pragma journal_mode" not in body:
        raise Broken("src/state.rs: connect() does not set the journal mode any more")
    out = []
    # retried = the pragma is executed inside a loop that goes round again on DatabaseBusy
    lp = re.search(r"loop\s*\{", body)
    retried = False
    if lp:
        d, k = 0, lp.end() - 1
        k0 = k
        while k < len(body):
            if body[k] == "{":
                d += 1
            elif body[k] == "}":
                d -= 1
                if d == 0:
                    break
            k += 1
        inner = body[k0:k]
        retried = ("query_row(" in inner or "execute(" in inner) and "DatabaseBusy" in inner and "sleep" in inner \
            and "pragma journal_mode" not in body[k:]   # and nowhere after the loop without one
        # the statement run in the loop is the journal-mode pragma (literal or the variable bound to it)
        if retried and "pragma journal_mode" not in inner:
            v = re.search(r"let\s+(\w+)\s*=\s*if[^;]*pragma journal_mode[^;]*;", body[:k0], re.S)
            retried = bool(v and re.search(r"\b%s\b" % v.group(1), inner))
    out.append(("state.rs:connect:pragma journal_mode", retried))
    return out


def protocol_facts():
    """Facts about the order of steps in the code that the protocol models assume
    (Sched/BuildLock.v, Sched/Loop.v): each is read off the current source; a fact
    that can no longer be read is a broken tie."""
    out = []
    st = read("src/state.rs")
    m = re.search(r"const BUILD_LOCK_MAGIC: i64 = (0x[0-9a-fA-F]+|\d+);", st)
    if not m:
        raise Broken("src/state.rs: BUILD_LOCK_MAGIC not found")
    bmagic = int(m.group(1), 0)
    if not re.search(r"fn is_being_built\(&self, fid: i64\)[^{]*\{\s*self\.is_locked_now\(fid \+ BUILD_LOCK_MAGIC\)", st):
        raise Broken("src/state.rs: is_being_built no longer probes fid + BUILD_LOCK_MAGIC")
    b = strip_hooks(read("src/builder.rs"))
    i_save = b.find("dof.save(&mut ptx)?;")
    i_new = b.find("new_lock(sf.id() + state::BUILD_LOCK_MAGIC)")
    i_try = b.find("build_lock.try_lock()?;")
    i_commit = b.find("ptx.commit()", i_try if i_try >= 0 else 0)
    i_job = b.find("server.start(", i_commit if i_commit >= 0 else 0)
    taken_before_commit = 0 <= i_save < i_new < i_try < i_commit < i_job
    # no other commit between taking the lock and the commit that starts the job
    if taken_before_commit and "commit()" in b[i_try:i_commit]:
        taken_before_commit = False
    i_keep = b.find("let _build_lock = build_lock;")
    i_await = b.find("job.await", i_keep if i_keep >= 0 else 0)
    i_rec = b.find("BuildJob::record_new_state(", i_await if i_await >= 0 else 0)
    i_commit2 = b.find("ptx.commit()", i_rec if i_rec >= 0 else 0)
    held_until_recorded = 0 <= i_keep < i_await < i_rec < i_commit2 and "drop(_build_lock" not in b and "_build_lock.unlock" not in b
    d = read("src/deps.rs")
    m = re.search(r"DepMode::Modified\s*if f2\.is_generated\(\)\s*&& !already_checked\.contains\(&f2\.id\(\)\)\s*&& ptx\.state\(\)\.is_being_built\(f2\.id\(\)\)\? =>", d)
    i_probe = m.start() if m else -1
    i_rec_walk = d.find("private_is_dirty(\n", i_probe if i_probe >= 0 else 0)
    if i_rec_walk < 0:
        i_rec_walk = d.find("private_is_dirty(", (i_probe if i_probe >= 0 else 0) + 1)
    probed_before_rows = 0 <= i_probe < i_rec_walk
    j = read("src/jobserver.rs")
    cheat_guard = bool(re.search(r"\(has_token, state\.cheats > 0\)", j) and re.search(r"if !has_token && !in_debt \{\s*let n = cheat_func\(\)\?;", j))
    token_after_pipe = 0 <= j.find("let (r, w) = make_pipe(50)") < j.find("state.destroy_tokens(1);", j.find("pub(crate) fn start<F>"))
    out.append(("build_lock_taken_before_start_commit", taken_before_commit))
    out.append(("build_lock_held_until_result_recorded", held_until_recorded))
    out.append(("walk_probes_build_lock_before_reading_rows", probed_before_rows))
    out.append(("cheat_refused_while_in_debt", cheat_guard))
    out.append(("job_pipe_made_before_token_destroyed", token_after_pipe))
    # the slots of an own jobserver: two descriptors per running job, all below FD_SETSIZE (1024),
    # with room for the descriptors a redo process holds anyway (pipes from 50 up, database, logs)
    mm = read("src/bin/redo/main.rs")
    m = re.search(r"const MAX_JOBS_ONE_PROCESS_CAN_SERVE: i32 = (\d+);", mm)
    capped = bool(m and 2 * int(m.group(1)) + 100 <= 1024
                  and re.search(r"let j = std::cmp::min\(j, MAX_JOBS_ONE_PROCESS_CAN_SERVE\);\s*let mut server = JobServer::setup\(j\)\?;", mm))
    out.append(("own_jobserver_slots_fit_select", capped))
    return bmagic, out


def coq_string(s):
    return '"' + s.replace('"', '""') + '"'


def generate():
    ec = exit_codes()
    magic, always, schema = constants()
    st = sites()
    L = ["(* GENERATED by tools/anchors.py from the current source of /repo -- do not edit. *)",
         "From Coq Require Import ZArith String List.", "From Redo Require Import Sqlite.Wal.", "Import ListNotations.", "Open Scope string_scope.", ""]
    L.append("Definition exit_codes : list (string * Z) :=\n  [" + ";\n   ".join("(%s, %d%%Z)" % (coq_string(n), v) for n, v in ec) + "].")
    L.append("Definition log_lock_magic : Z := %d%%Z." % magic)
    L.append("Definition always_name : string := %s." % coq_string(always))
    L.append("Definition schema_ver : Z := %d%%Z." % schema)
    L.append("")
    L.append("(* every transaction the code opens: site, BEGIN mode, access pattern *)")
    items = []
    for name, mode in st:
        key = name if name in PATTERN else name
        if key not in PATTERN:
            raise Broken("transaction site %s is not in the access-pattern table of tools/anchors.py" % name)
        pat = {"R": "[ORead]", "RW": "[ORead; OWrite]", "W": "[OWrite; ORead]"}[PATTERN[key]]
        if mode not in ("Deferred", "Immediate", "Exclusive"):
            raise Broken("unknown transaction mode %s at %s" % (mode, name))
        items.append("(%s, {| pmode := %s; pops := %s |})" % (coq_string(name), "Immediate" if mode != "Deferred" else "Deferred", pat))
    L.append("Definition sites : list (string * prog) :=\n  [" + ";\n   ".join(items) + "].")
    L.append("")
    L.append("(* statements for which SQLite answers SQLITE_BUSY at once (no busy timeout): site, retried by the code *)")
    L.append("Definition busy_immediate : list (string * bool) :=\n  [" + ";\n   ".join("(%s, %s)" % (coq_string(n), "true" if r else "false") for n, r in busy_immediate()) + "].")
    bmagic, facts = protocol_facts()
    L.append("")
    L.append("(* the second lock per target and the order of steps the protocol models assume *)")
    L.append("Definition build_lock_magic : Z := %d%%Z." % bmagic)
    L.append("Definition protocol_facts : list (string * bool) :=\n  [" + ";\n   ".join("(%s, %s)" % (coq_string(n), "true" if r else "false") for n, r in facts) + "].")
    return "\n".join(L) + "\n"


def main():
    try:
        text = generate()
    except Broken as b:
        print("anchors: " + str(b), file=sys.stderr)
        return 2
    old = open(OUT).read() if os.path.exists(OUT) else None
    if old != text:
        open(OUT, "w").write(text)
        print("anchors: regenerated")
    return 0


if __name__ == "__main__":
    sys.exit(main())
