#!/usr/bin/env python3
"""Translator: regenerates coq/theories/Anchors.v from /repo's current source.
Facts extracted: exit-code constants (src/exits.rs), LOG_LOCK_MAGIC / ALWAYS /
SCHEMA_VER (src/state.rs), and every SQLite transaction site with its BEGIN
mode.  The access pattern of a site (read-only / may write after reading /
writes first) is a table keyed by site, kept here; a site the table does not
know makes the translation fail (a broken tie, not something to ignore)."""
import os
import re
import sys

REPO = os.environ.get("VERIF_REPO", "/repo")
HERE = os.path.dirname(os.path.dirname(os.path.abspath(__file__)))
OUT = os.path.join(HERE, "coq", "theories", "Anchors.v")

# site -> pattern of operations inside the transaction
#   "R"  reads only;  "RW" reads and then may write;  "W" the first statement is a write
PATTERN = {
    "state.rs:init:existing_db_alloc_runid": "RW",     # reads Schema, inserts Runid
    "state.rs:init:existing_db_inherited_runid": "R",  # reads Schema only
    "state.rs:init:create_db": "W",                    # CREATE TABLE first
    "builder.rs": "RW", "ifchange.rs": "RW", "stamp.rs": "RW", "always.rs": "RW", "ifcreate.rs": "RW",
    "main.rs": "RW", "ood.rs": "RW",
    "targets.rs": "R", "sources.rs": "R", "log.rs": "R",
}


class Broken(Exception):
    pass


def read(p):
    return open(os.path.join(REPO, p)).read()


def exit_codes():
    s = read("src/exits.rs")
    out = []
    for m in re.finditer(r"const (EXIT_[A-Z_]+): i32 = (\d+);", s):
        out.append((m.group(1), int(m.group(2))))
    if len(out) < 10:
        raise Broken("src/exits.rs: expected at least 10 exit constants, found %d" % len(out))
    return out


def constants():
    s = read("src/state.rs")
    m1 = re.search(r"pub const LOG_LOCK_MAGIC: i64 = (0x[0-9a-fA-F]+|\d+);", s)
    m2 = re.search(r'const ALWAYS: &str = "([^"]+)";', s)
    m3 = re.search(r"const SCHEMA_VER: i32 = (\d+);", s)
    if not (m1 and m2 and m3):
        raise Broken("src/state.rs: LOG_LOCK_MAGIC / ALWAYS / SCHEMA_VER not found")
    return int(m1.group(1), 0), m2.group(1), int(m3.group(1))


def strip_hooks(s):
    # hook code is not part of what is verified
    return re.sub(r'#\[cfg\(feature = "verif-hooks"\)\]\s*\n[^\n]*\n', "", s)


def sites():
    out = []
    # ProcessState::init
    s = read("src/state.rs")
    m = re.search(r"transaction_with_behavior\(if e\.runid\.is_none\(\) \{\s*TransactionBehavior::(\w+)\s*\} else \{\s*TransactionBehavior::(\w+)\s*\}\)", s)
    if m:
        out.append(("state.rs:init:existing_db_alloc_runid", m.group(1)))
        out.append(("state.rs:init:existing_db_inherited_runid", m.group(2)))
    else:
        m = re.search(r"let tx = db\s*\.transaction_with_behavior\(\s*TransactionBehavior::(\w+)", s)
        if m:
            out.append(("state.rs:init:existing_db_alloc_runid", m.group(1)))
            out.append(("state.rs:init:existing_db_inherited_runid", m.group(1)))
        else:
            n = len(re.findall(r"db\.transaction\(\)", s))
            if n >= 2:
                out.append(("state.rs:init:existing_db_alloc_runid", "Deferred"))
                out.append(("state.rs:init:existing_db_inherited_runid", "Deferred"))
            else:
                raise Broken("src/state.rs: cannot find the start-up transaction of ProcessState::init")
    # the branch that creates the database: the else-block of `if !must_create { ... } else { ... }`
    k = s.find("if !must_create {")
    if k < 0:
        raise Broken("src/state.rs: cannot find the must_create test of ProcessState::init")
    def block(start):
        depth, i = 0, s.index("{", start)
        j = i
        while True:
            if s[j] == "{":
                depth += 1
            elif s[j] == "}":
                depth -= 1
                if depth == 0:
                    return i, j
            j += 1
    a, b = block(k)
    m2 = re.match(r"\s*else\s*\{", s[b + 1:])
    if not m2:
        raise Broken("src/state.rs: cannot find the database-creation branch")
    c, d = block(b + 1)
    body = s[c:d]
    m = re.search(r"transaction_with_behavior\(\s*TransactionBehavior::(\w+)", body)
    if m:
        mode = m.group(1)
    elif re.search(r"db\.transaction\(\)", body):
        mode = "Deferred"
    else:
        raise Broken("src/state.rs: cannot find the database-creation transaction")
    q = body.find("query_row(")
    w = body.find("create_schema(")
    if w < 0:
        raise Broken("src/state.rs: the database-creation branch does not create the schema")
    PATTERN["state.rs:init:create_db"] = "RW" if 0 <= q < w else "W"
    out.append(("state.rs:init:create_db", mode))
    files = ["src/builder.rs"] + sorted("src/bin/redo/" + f for f in os.listdir(os.path.join(REPO, "src/bin/redo")) if f.endswith(".rs"))
    for f in files:
        s = strip_hooks(read(f))
        for m in re.finditer(r"ProcessTransaction::new\(\s*[^,]+,\s*TransactionBehavior::(\w+)\s*\)", s):
            line = s.count("\n", 0, m.start()) + 1
            out.append(("%s" % os.path.basename(f), m.group(1)))
        n_new = len(re.findall(r"ProcessTransaction::new\(", s))
        n_ok = len(re.findall(r"ProcessTransaction::new\(\s*[^,]+,\s*TransactionBehavior::(\w+)\s*\)", s))
        if n_new != n_ok:
            raise Broken("%s: a ProcessTransaction::new call whose mode could not be read" % f)
    return out


def busy_immediate():
    """Statements that need the exclusive lock and for which SQLite reports SQLITE_BUSY at once,
    without consulting the busy timeout (a change of journal mode): each must be retried by the code."""
    s = read("src/state.rs")
    m = re.search(r"\nfn connect\b[^\n]*\{", s)
    if not m:
        raise Broken("src/state.rs: cannot find fn connect")
    depth, j = 0, m.end() - 1
    i = j
    while True:
        if s[j] == "{":
            depth += 1
        elif s[j] == "}":
            depth -= 1
            if depth == 0:
                break
        j += 1
    body = s[i:j]
    if "pragma journal_mode" not in body:
        raise Broken("src/state.rs: connect() does not set the journal mode any more")
    out = []
    # retried = the pragma is executed inside a loop that goes round again on DatabaseBusy
    lp = re.search(r"loop\s*\{", body)
    retried = False
    if lp:
        d, k = 0, lp.end() - 1
        k0 = k
        while k < len(body):
            if body[k] == "{":
                d += 1
            elif body[k] == "}":
                d -= 1
                if d == 0:
                    break
            k += 1
        inner = body[k0:k]
        retried = ("query_row(" in inner or "execute(" in inner) and "DatabaseBusy" in inner and "sleep" in inner \
            and "pragma journal_mode" not in body[k:]   # and nowhere after the loop without one
        # the statement run in the loop is the journal-mode pragma (literal or the variable bound to it)
        if retried and "pragma journal_mode" not in inner:
            v = re.search(r"let\s+(\w+)\s*=\s*if[^;]*pragma journal_mode[^;]*;", body[:k0], re.S)
            retried = bool(v and re.search(r"\b%s\b" % v.group(1), inner))
    out.append(("state.rs:connect:pragma journal_mode", retried))
    return out


def coq_string(s):
    return '"' + s.replace('"', '""') + '"'


def generate():
    ec = exit_codes()
    magic, always, schema = constants()
    st = sites()
    L = ["(* GENERATED by tools/anchors.py from the current source of /repo -- do not edit. *)",
         "From Coq Require Import ZArith String List.", "From Redo Require Import Sqlite.Wal.", "Import ListNotations.", "Open Scope string_scope.", ""]
    L.append("Definition exit_codes : list (string * Z) :=\n  [" + ";\n   ".join("(%s, %d%%Z)" % (coq_string(n), v) for n, v in ec) + "].")
    L.append("Definition log_lock_magic : Z := %d%%Z." % magic)
    L.append("Definition always_name : string := %s." % coq_string(always))
    L.append("Definition schema_ver : Z := %d%%Z." % schema)
    L.append("")
    L.append("(* every transaction the code opens: site, BEGIN mode, access pattern *)")
    items = []
    for name, mode in st:
        key = name if name in PATTERN else name
        if key not in PATTERN:
            raise Broken("transaction site %s is not in the access-pattern table of tools/anchors.py" % name)
        pat = {"R": "[ORead]", "RW": "[ORead; OWrite]", "W": "[OWrite; ORead]"}[PATTERN[key]]
        if mode not in ("Deferred", "Immediate", "Exclusive"):
            raise Broken("unknown transaction mode %s at %s" % (mode, name))
        items.append("(%s, {| pmode := %s; pops := %s |})" % (coq_string(name), "Immediate" if mode != "Deferred" else "Deferred", pat))
    L.append("Definition sites : list (string * prog) :=\n  [" + ";\n   ".join(items) + "].")
    L.append("")
    L.append("(* statements for which SQLite answers SQLITE_BUSY at once (no busy timeout): site, retried by the code *)")
    L.append("Definition busy_immediate : list (string * bool) :=\n  [" + ";\n   ".join("(%s, %s)" % (coq_string(n), "true" if r else "false") for n, r in busy_immediate()) + "].")
    return "\n".join(L) + "\n"


def main():
    try:
        text = generate()
    except Broken as b:
        print("anchors: " + str(b), file=sys.stderr)
        return 2
    old = open(OUT).read() if os.path.exists(OUT) else None
    if old != text:
        open(OUT, "w").write(text)
        print("anchors: regenerated")
    return 0


if __name__ == "__main__":
    sys.exit(main())
