#!/bin/bash
# Before committing /verif: /repo must be clean, every evidence file must come
# from a clean-tree run (no violations, non-empty coverage), MANIFEST must be current.
set -e
cd "$(dirname "$0")/.."
if [ -n "$(git -C /repo status --porcelain)" ]; then echo "/repo is dirty"; exit 1; fi
python3 tools/gen_manifest.py >/dev/null
python3 - <<'PY'
import json,glob,sys
bad=0
for f in sorted(glob.glob('evidence/C*.json')):
    e=json.load(open(f)); c=e.get('coverage',{})
    if e.get('violations') or not c.get('obligations') or c.get('obligations')!=c.get('discharged'):
        print("bad evidence", f, e.get('violations'), c.get('obligations')); bad=1
sys.exit(bad)
PY
grep -rn 'Admitted\|admit\b\|^Axiom\|^Parameter\|^Conjecture' coq/theories coq/props --include=*.v | grep -v '(\*' && exit 1
echo precommit ok
