// Pure-function harness: reads one case per line from stdin
//   <op> <hexarg> <hexarg> ...      ("-" is the empty string)
// and prints one canonical result line per case.
use std::ffi::OsStr;
use std::io::{self, BufRead, Write};
use std::os::unix::ffi::OsStrExt;
use std::panic;
use std::path::Path;

fn unhex(s: &str) -> Vec<u8> {
    if s == "-" {
        return Vec::new();
    }
    (0..s.len() / 2)
        .map(|i| u8::from_str_radix(&s[2 * i..2 * i + 2], 16).unwrap())
        .collect()
}

fn hex(b: &[u8]) -> String {
    if b.is_empty() {
        return "-".to_string();
    }
    b.iter().map(|x| format!("{:02x}", x)).collect()
}

fn run(op: &str, args: &[Vec<u8>]) -> String {
    match op {
        "norm" => {
            let p = Path::new(OsStr::from_bytes(&args[0]));
            hex(redo::normpath(p).as_os_str().as_bytes())
        }
        "abs" => {
            let c = Path::new(OsStr::from_bytes(&args[0]));
            let p = Path::new(OsStr::from_bytes(&args[1]));
            hex(redo::abs_path(c, p).as_os_str().as_bytes())
        }
        "rel" => {
            let t = Path::new(OsStr::from_bytes(&args[0]));
            let b = Path::new(OsStr::from_bytes(&args[1]));
            match redo::relpath(t, b) {
                Ok(p) => hex(p.as_os_str().as_bytes()),
                Err(_) => "ERR".to_string(),
            }
        }
        "realdir" => {
            let t = Path::new(OsStr::from_bytes(&args[0]));
            match redo::verif::realdirpath(t) {
                Ok(p) => hex(p.as_os_str().as_bytes()),
                Err(_) => "ERR".to_string(),
            }
        }
        "pdf" => {
            let p = Path::new(OsStr::from_bytes(&args[0]));
            let mut out = Vec::new();
            for df in redo::possible_do_files(p) {
                let (a, b, c, d, e) = redo::verif::dofile_fields(&df);
                out.push(format!(
                    "{},{},{},{},{}",
                    hex(a.as_os_str().as_bytes()),
                    hex(b.as_bytes()),
                    hex(c.as_os_str().as_bytes()),
                    hex(d.as_os_str().as_bytes()),
                    hex(e.as_bytes())
                ));
            }
            out.join(";")
        }
        "ovr" => {
            let a = String::from_utf8_lossy(&args[0]).into_owned();
            let b = String::from_utf8_lossy(&args[1]).into_owned();
            if redo::verif::detect_override(&a, &b) { "1".into() } else { "0".into() }
        }
        "mfmt" => {
            // kind pid ts(in 1e-4 s units as decimal integer) text
            let kind = String::from_utf8(args[0].clone()).unwrap();
            let pid: i32 = String::from_utf8_lossy(&args[1]).parse().unwrap();
            let ts: f64 = String::from_utf8_lossy(&args[2]).parse().unwrap();
            let text = String::from_utf8(args[3].clone()).unwrap();
            hex(redo::verif::meta_format(&kind, pid, ts, &text).as_bytes())
        }
        "mparse" => {
            let s = match String::from_utf8(args[0].clone()) {
                Ok(s) => s,
                Err(_) => return "NOTUTF8".into(),
            };
            match redo::logs::Meta::parse(&s) {
                Ok(m) => format!(
                    "OK {} {} {:.4} {}",
                    hex(m.kind().as_bytes()),
                    m.pid().as_raw(),
                    m.timestamp(),
                    hex(m.text().as_bytes())
                ),
                Err(_) => "ERR".into(),
            }
        }
        _ => "BADOP".into(),
    }
}

fn main() {
    panic::set_hook(Box::new(|_| {}));
    let stdin = io::stdin();
    let stdout = io::stdout();
    let mut out = io::BufWriter::new(stdout.lock());
    for line in stdin.lock().lines() {
        let line = line.unwrap();
        let mut it = line.split(' ');
        let op = it.next().unwrap().to_string();
        let args: Vec<Vec<u8>> = it.map(unhex).collect();
        let r = panic::catch_unwind(|| run(&op, &args));
        match r {
            Ok(s) => writeln!(out, "{}", s).unwrap(),
            Err(_) => writeln!(out, "PANIC").unwrap(),
        }
    }
}
