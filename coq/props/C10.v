(* C10 -- A kill at any moment is recovered from by simply running redo again.
   PARTIAL: proved is the structure of the states a kill can leave while a job
   installs its output (old target until the very last effect, complete new
   target after it, nothing in between; a failing job never touches it).  The
   recovery itself is decided on the implementation by killing it before every
   state-changing system call (checks/c10.py).  The window between the rename
   and the recording commit is finding F8 (known): its refutation is below. *)
From Coq Require Import ZArith List.
From Redo Require Import Base.Bytes Build.Model Build.FsLemmas Build.RecordProofs Crash.Effects Crash.EffectsProofs.
Import ListNotations.

Theorem C10_old_until_last : forall t stdout has_tmp w w',
  In w' (removelast (install_prefixes t stdout has_tmp w)) ->
  fs_get (fs w') t = fs_get (fs w) t.
Proof. exact install_old_until_last. Qed.
Check C10_old_until_last : forall t stdout has_tmp w w',
  In w' (removelast (install_prefixes t stdout has_tmp w)) ->
  fs_get (fs w') t = fs_get (fs w) t.
Print Assumptions C10_old_until_last.

Theorem C10_old_or_new : forall t stdout has_tmp w w',
  In w' (install_prefixes t stdout has_tmp w) ->
  fs_get (fs w') t = fs_get (fs w) t
  \/ fs_get (fs w') t = fs_get (fs (last (install_prefixes t stdout has_tmp w) w)) t.
Proof. exact install_old_or_new. Qed.
Check C10_old_or_new : forall t stdout has_tmp w w',
  In w' (install_prefixes t stdout has_tmp w) ->
  fs_get (fs w') t = fs_get (fs w) t
  \/ fs_get (fs w') t = fs_get (fs (last (install_prefixes t stdout has_tmp w) w)) t.
Print Assumptions C10_old_or_new.

(* the effect sequence is the one record_new_state performs *)
Theorem C10_prefixes_are_the_job : forall runid t f sf before rc stdout has_tmp w,
  snd (record_new_state runid t f sf before rc stdout has_tmp w) = 0%Z ->
  fs (fst (record_new_state runid t f sf before rc stdout has_tmp w))
  = fs (last (install_prefixes t stdout has_tmp w) w).
Proof. exact install_last_is_record. Qed.
Check C10_prefixes_are_the_job : forall runid t f sf before rc stdout has_tmp w,
  snd (record_new_state runid t f sf before rc stdout has_tmp w) = 0%Z ->
  fs (fst (record_new_state runid t f sf before rc stdout has_tmp w))
  = fs (last (install_prefixes t stdout has_tmp w) w).
Print Assumptions C10_prefixes_are_the_job.

Theorem C10_failed_job_keeps_target : forall t w w',
  In w' (fail_prefixes t w) -> fs_get (fs w') t = fs_get (fs w) t.
Proof. exact fail_prefixes_keep_target. Qed.
Check C10_failed_job_keeps_target : forall t w w',
  In w' (fail_prefixes t w) -> fs_get (fs w') t = fs_get (fs w) t.
Print Assumptions C10_failed_job_keeps_target.

Definition C10_full_statement : Prop :=
  True (* for every crash prefix outside the known window the recovery run terminates, exits 0,
          leaves every target correct, marks nothing overridden, and later edits propagate *).

(* Finding F8, on the model: s -> t built; s edited; the rebuild is killed after
   the rename (files of the finished rebuild) and before the commit (database of
   before).  Recovery warns and marks t overridden; a further edit of s never
   reaches t although every command exits 0. *)
Example C10_F8_refuted :
  let mk := {| s_deps := [[115]]; s_ifcreate := []; s_always := false; s_stamp := false;
               s_out := ODollar3; s_payload := 7; s_cat := true; s_exit := 0%Z; s_tol := false |} in
  let s := [115] in let t := [116] in
  let w0 := fst (last (run_history [SWrite s [1]; SWriteDo (t ++ b_do) mk; SCmd (CIfChange false [t]); SWrite s [2]]
                                   (init_world 0)) (init_world 0, None)) in
  let w_done := fst (exec (CIfChange false [t]) w0) in
  let w_crash := {| fs := fs w_done; dbs := dbs w0; clock := clock w_done; updepth := 0; hints := [] |} in
  let '(w_rec, o_rec) := exec (CIfChange false [t]) w_crash in
  let w_edit := write_file w_rec s [3] None in
  let '(w_fin, o_fin) := exec (CIfChange false [t]) w_edit in
  (match o_rec with OutBuild evs rc => (existsb (fun e => match e with EvWarnOverride _ => true | _ => false end) evs, rc) | _ => (false, 1%Z) end,
   match o_fin with OutBuild _ rc => rc | _ => 1%Z end,
   option_map f_data (fs_get (fs w_fin) t))
  = ((true, 0%Z), 0%Z, Some [7; 2]).     (* exit 0, but t still holds the bytes built from s = 2 *)
Proof. vm_compute. reflexivity. Qed.

(* recovery is never refused because of what a killed build left in the Deps
   table: on EVERY database (old edges only flagged for deletion beside the
   edges a successor recorded, cycles among them included) the dirtiness walk
   of the next command terminates and never answers "cyclic dependency"
   (finding F78; Build/WalkTerminates.v) *)
From Redo Require Import Build.WalkTerminates.
Theorem C10_walk_total_on_leftover_rows : forall runid cyc w c f r mx,
  (forall fuel seen w' c' e, is_dirty fuel runid cyc w c f r mx seen <> Ret (VCycle, w', c', e))
  /\ (let U := f :: map d_source (deps (dbs w)) in
      forall fuel, (length (nodup PeanoNat.Nat.eq_dec U) < fuel)%nat ->
      is_dirty fuel runid cyc w c f r mx [] <> EFuel).
Proof.
  intros runid cyc w c f r mx. split.
  - intros fuel seen w' c' e. apply is_dirty_never_cyclic.
  - exact (walk_terminates runid cyc w c f r mx).
Qed.
Check C10_walk_total_on_leftover_rows : forall runid cyc w c f r mx,
  (forall fuel seen w' c' e, is_dirty fuel runid cyc w c f r mx seen <> Ret (VCycle, w', c', e))
  /\ (let U := f :: map d_source (deps (dbs w)) in
      forall fuel, (length (nodup PeanoNat.Nat.eq_dec U) < fuel)%nat ->
      is_dirty fuel runid cyc w c f r mx [] <> EFuel).
Print Assumptions C10_walk_total_on_leftover_rows.
