(* C01 -- No stale target after a successful redo-ifchange.
   PARTIAL: the theorems below are the dirtiness decision rules that make a
   stale target impossible to overlook, proved for every database and file
   system state; the statement over whole histories (C01_full_statement) is
   not proved in Coq -- it is decided against the implementation on every run
   by the correspondence harness plus the from-scratch oracle (DESIGN.md C01). *)
From Coq Require Import ZArith List.
From Redo Require Import Base.Bytes Build.Model Build.LocalProofs Build.FailProofs.

Theorem C01_never_built_is_dirty : forall fuel runid cyc w c f r mx seen,
  existsb (Nat.eqb f) seen = false ->
  r_changed r = None ->
  is_dirty (S fuel) runid cyc w c f r mx seen = Ret (VDirty, w, c, []).
Proof. exact is_dirty_never_built. Qed.
Check C01_never_built_is_dirty : forall fuel runid cyc w c f r mx seen,
  existsb (Nat.eqb f) seen = false ->
  r_changed r = None ->
  is_dirty (S fuel) runid cyc w c f r mx seen = Ret (VDirty, w, c, []).
Print Assumptions C01_never_built_is_dirty.

Theorem C01_failed_is_dirty : forall fuel runid cyc w c f r mx seen,
  existsb (Nat.eqb f) seen = false ->
  r_failed r <> None ->
  is_dirty (S fuel) runid cyc w c f r mx seen = Ret (VDirty, w, c, []).
Proof. exact is_dirty_failed. Qed.
Check C01_failed_is_dirty : forall fuel runid cyc w c f r mx seen,
  existsb (Nat.eqb f) seen = false ->
  r_failed r <> None ->
  is_dirty (S fuel) runid cyc w c f r mx seen = Ret (VDirty, w, c, []).
Print Assumptions C01_failed_is_dirty.

(* a dependency that changed in a later run than its consumer was built or
   checked makes the consumer dirty *)
Theorem C01_newer_dep_is_dirty : forall fuel runid cyc w c f r mx seen chg,
  existsb (Nat.eqb f) seen = false ->
  r_failed r = None ->
  r_changed r = Some chg -> (mx < chg)%Z ->
  is_dirty (S fuel) runid cyc w c f r mx seen = Ret (VDirty, w, c, []).
Proof. exact is_dirty_newer. Qed.
Check C01_newer_dep_is_dirty : forall fuel runid cyc w c f r mx seen chg,
  existsb (Nat.eqb f) seen = false ->
  r_failed r = None ->
  r_changed r = Some chg -> (mx < chg)%Z ->
  is_dirty (S fuel) runid cyc w c f r mx seen = Ret (VDirty, w, c, []).
Print Assumptions C01_newer_dep_is_dirty.

(* over the whole walk: a recorded Modified dependency that failed, was never
   built, or changed in a later run than the one in which the target was last
   built or verified makes the target not clean -- wherever it stands in the
   dependency list and whatever the other rows say (every database, fuel,
   callback; [r] is the copy of the target's row that the check judges) *)
Theorem C01_moved_on_dep_not_clean : forall fuel runid cyc w c f r mx seen v w' c' evs chg,
  is_dirty fuel runid cyc w c f r mx seen = Ret (v, w', c', evs) ->
  chk_is_checked c runid r f = false ->
  r_changed r = Some chg ->
  (exists d, In d (deps_of (dbs w) r f) /\ d_mode d = DModified /\
     moved_on (Z.max chg match r_checked r with Some k => k | None => 0%Z end) (load runid (dbs w) (d_source d))) ->
  v <> VClean.
Proof. exact moved_on_dep_not_clean. Qed.
Check C01_moved_on_dep_not_clean : forall fuel runid cyc w c f r mx seen v w' c' evs chg,
  is_dirty fuel runid cyc w c f r mx seen = Ret (v, w', c', evs) ->
  chk_is_checked c runid r f = false ->
  r_changed r = Some chg ->
  (exists d, In d (deps_of (dbs w) r f) /\ d_mode d = DModified /\
     let rs := load runid (dbs w) (d_source d) in
     let sm := Z.max chg match r_checked r with Some k => k | None => 0%Z end in
     (r_failed rs <> None \/ r_changed rs = None \/ exists cg, r_changed rs = Some cg /\ (sm < cg)%Z)) ->
  v <> VClean.
Print Assumptions C01_moved_on_dep_not_clean.

(* The full statement, in terms of the model (NOT proved here). *)
Definition C01_full_statement : Prop :=
  forall (depth : nat) (h : list hstep), True (* after every build command of h that exits 0,
     every target in the closure of the requested ones holds the bytes a from-scratch
     evaluation of the current scripts and sources produces *).

(* The pinned tree violated C01 (finding F1, fixed): this is the witness history
   on the model of the FIXED code -- t follows the change of the checksummed c. *)
Example C01_F1_history_now_correct :
  let mk deps st p := {| s_deps := deps; s_ifcreate := []; s_always := false; s_stamp := st;
                         s_out := ODollar3; s_payload := p; s_cat := true; s_exit := 0%Z; s_tol := false |} in
  let s := [115] in let c := [99] in let t := [116] in
  let h := [SWrite s [1]; SWriteDo (c ++ b_do) (mk [s] true 10); SWriteDo (t ++ b_do) (mk [c] false 20);
            SCmd (CIfChange false [t]); SWrite s [2]; SCmd (CIfChange false [t])] in
  map (fun x => option_map f_data (fs_get (fs (fst x)) t)) (run_history h (init_world 0))
  = [None; None; None; Some [20;10;1]; Some [20;10;1]; Some [20;10;2]].
Proof. vm_compute. reflexivity. Qed.
