(* C18 -- Build output is logged completely, once, and under the right
   target.  Part (a): structured records survive formatting and re-parsing. *)
From Coq Require Import ZArith.
From Redo Require Import Base.Bytes LogRec.Meta LogRec.MetaProofs.

(* every record a writer may produce (kind without ':' '@' newline, text
   without newline -- it MAY contain "@@ " or "@@REDO:" --, any i32 pid, any
   timestamp) is parsed back to exactly the same record *)
Theorem C18a_roundtrip : forall m : meta, wf_meta m = true -> parse (format m) = Some m.
Proof. exact parse_format. Qed.
Check C18a_roundtrip : forall m : meta, wf_meta m = true -> parse (format m) = Some m.
Print Assumptions C18a_roundtrip.

(* conversely a line that parses carries its text verbatim after the first
   "@@ ", a '@'-free header starting with the kind, and no newline *)
Theorem C18a_parse_sound : forall (s : bytes) (m : meta), parse s = Some m ->
  exists hdr, s = b_prefix ++ hdr ++ b_sep ++ text m /\ contains at_sign hdr = false
              /\ contains newline s = false
              /\ exists rest, split colon hdr = kind m :: rest.
Proof. exact parse_sound. Qed.
Check C18a_parse_sound : forall (s : bytes) (m : meta), parse s = Some m ->
  exists hdr, s = b_prefix ++ hdr ++ b_sep ++ text m /\ contains at_sign hdr = false
              /\ contains newline s = false
              /\ exists rest, split colon hdr = kind m :: rest.
Print Assumptions C18a_parse_sound.

(* "done" records: exit status and target name (any bytes, spaces included) *)
Theorem C18a_done_roundtrip : forall (rv : Z) (name : bytes),
  (i32_min <= rv <= i32_max)%Z -> parse_done_text (done_text rv name) = Some (rv, name).
Proof. exact parse_done_roundtrip. Qed.
Check C18a_done_roundtrip : forall (rv : Z) (name : bytes),
  (i32_min <= rv <= i32_max)%Z -> parse_done_text (done_text rv name) = Some (rv, name).
Print Assumptions C18a_done_roundtrip.

(* non-vacuity: a record whose text itself looks like a record *)
Example C18a_example :
  let m := {| kind := [100;111;110;101]; pid := 4242%Z; ts := 17000000001234;
              text := [64;64;82;69;68;79;58;120;58;49;58;50;64;64;32;121] |} in
  wf_meta m = true /\ parse (format m) = Some m.
Proof. vm_compute. split; reflexivity. Qed.
