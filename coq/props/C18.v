(* C18 -- Build output is logged completely, once, and under the right
   target.  Part (a): structured records survive formatting and re-parsing. *)
From Coq Require Import ZArith List.
From Redo Require Import Base.Bytes LogRec.Meta LogRec.MetaProofs LogRec.Assemble LogRec.Catlog LogRec.CatlogProofs LogRec.Resplit.

(* every record a writer may produce (kind without ':' '@' newline, text
   without newline -- it MAY contain "@@ " or "@@REDO:" --, any i32 pid, any
   timestamp) is parsed back to exactly the same record *)
Theorem C18a_roundtrip : forall m : meta, wf_meta m = true -> parse (format m) = Some m.
Proof. exact parse_format. Qed.
Check C18a_roundtrip : forall m : meta, wf_meta m = true -> parse (format m) = Some m.
Print Assumptions C18a_roundtrip.

(* conversely a line that parses carries its text verbatim after the first
   "@@ ", a '@'-free header starting with the kind, and no newline *)
Theorem C18a_parse_sound : forall (s : bytes) (m : meta), parse s = Some m ->
  exists hdr, s = b_prefix ++ hdr ++ b_sep ++ text m /\ contains at_sign hdr = false
              /\ contains newline s = false
              /\ exists rest, split colon hdr = kind m :: rest.
Proof. exact parse_sound. Qed.
Check C18a_parse_sound : forall (s : bytes) (m : meta), parse s = Some m ->
  exists hdr, s = b_prefix ++ hdr ++ b_sep ++ text m /\ contains at_sign hdr = false
              /\ contains newline s = false
              /\ exists rest, split colon hdr = kind m :: rest.
Print Assumptions C18a_parse_sound.

(* "done" records: exit status and target name (any bytes, spaces included) *)
Theorem C18a_done_roundtrip : forall (rv : Z) (name : bytes),
  (i32_min <= rv <= i32_max)%Z -> parse_done_text (done_text rv name) = Some (rv, name).
Proof. exact parse_done_roundtrip. Qed.
Check C18a_done_roundtrip : forall (rv : Z) (name : bytes),
  (i32_min <= rv <= i32_max)%Z -> parse_done_text (done_text rv name) = Some (rv, name).
Print Assumptions C18a_done_roundtrip.

(* non-vacuity: a record whose text itself looks like a record *)
Example C18a_example :
  let m := {| kind := [100;111;110;101]; pid := 4242%Z; ts := 17000000001234;
              text := [64;64;82;69;68;79;58;120;58;49;58;50;64;64;32;121] |} in
  wf_meta m = true /\ parse (format m) = Some m.
Proof. vm_compute. split; reflexivity. Qed.

(* ---------------------------------------------------------------- (b) partial lines
   The follower's partial-line buffer (catlog: pieces returned by read_until
   are appended to line_head until a newline arrives), for every fragmentation
   of the log's bytes: nothing is lost or duplicated, every line shown is one
   complete line, and the lines shown do not depend on how the bytes arrived.
   Only the buffer logic is modelled (LogRec/Assemble.v); it is tied to the
   code by the end-to-end runs with lines written in 3-5 pieces. *)
Theorem C18_assemble_nothing_lost : forall cs head,
  concat (fst (assemble head cs)) ++ snd (assemble head cs) = head ++ concat cs.
Proof. exact assemble_concat. Qed.
Check C18_assemble_nothing_lost : forall cs head,
  concat (fst (assemble head cs)) ++ snd (assemble head cs) = head ++ concat cs.
Print Assumptions C18_assemble_nothing_lost.

Theorem C18_assemble_complete_lines : forall cs head,
  Forall piece_ok cs -> nl_free head ->
  Forall is_line (fst (assemble head cs)) /\ nl_free (snd (assemble head cs)).
Proof. exact assemble_lines. Qed.
Check C18_assemble_complete_lines : forall cs head,
  Forall (fun c => c <> nil /\ ~ In nl (removelast c)) cs -> ~ In nl head ->
  Forall (fun l => exists b, l = b ++ (nl :: nil) /\ ~ In nl b) (fst (assemble head cs)) /\ ~ In nl (snd (assemble head cs)).
Print Assumptions C18_assemble_complete_lines.

Theorem C18_fragmentation_independent : forall cs1 cs2,
  Forall piece_ok cs1 -> Forall piece_ok cs2 -> concat cs1 = concat cs2 ->
  assemble nil cs1 = assemble nil cs2.
Proof. exact assemble_fragmentation_independent. Qed.
Check C18_fragmentation_independent : forall cs1 cs2,
  Forall piece_ok cs1 -> Forall piece_ok cs2 -> concat cs1 = concat cs2 ->
  assemble nil cs1 = assemble nil cs2.
Print Assumptions C18_fragmentation_independent.

(* non-vacuity: "ab\ncd\ne" arriving as a | b\n c | d | \n | e *)
Example C18_assemble_example :
  assemble nil ((97 :: nil) :: (98 :: 10 :: nil) :: (99 :: nil) :: (100 :: nil) :: (10 :: nil) :: (101 :: nil) :: nil)%N
  = (((97 :: 98 :: 10 :: nil) :: (99 :: 100 :: 10 :: nil) :: nil)%N, (101 :: nil)%N).
Proof. vm_compute. reflexivity. Qed.

(* ---- part (b), the replay `redo-log -r [-u]` (LogRec/Catlog.v: the recursion
   of catlog over complete logs).  For every set of logs, every name
   resolution, with and without -u, whenever the replay ends normally:

   every name shows, of its own log, exactly its plain lines in order followed
   by its unterminated last line -- once if the name was reached, not at all
   otherwise *)
Theorem C18b_replay_lines_once : forall lookup rel flag_u fuel t u,
  r_status (catlog lookup rel flag_u fuel t nil) = SOk ->
  own_lines u (r_evs (catlog lookup rel flag_u fuel t nil))
  = if mem u (r_already (catlog lookup rel flag_u fuel t nil)) then body lookup rel u else nil.
Proof. exact catlog_lines_once. Qed.
Check C18b_replay_lines_once : forall lookup rel flag_u fuel t u,
  r_status (catlog lookup rel flag_u fuel t nil) = SOk ->
  own_lines u (r_evs (catlog lookup rel flag_u fuel t nil))
  = if mem u (r_already (catlog lookup rel flag_u fuel t nil)) then body lookup rel u else nil.
Print Assumptions C18b_replay_lines_once.

(* the same for the whole command, any list of roots however spelled *)
Theorem C18b_replay_command_lines_once : forall lookup rel flag_u fuel ts u,
  fst (run_log lookup rel flag_u fuel ts nil) = SOk ->
  own_lines u (snd (run_log lookup rel flag_u fuel ts nil)) = nil
  \/ own_lines u (snd (run_log lookup rel flag_u fuel ts nil)) = body lookup rel u.
Proof. exact run_log_lines_once. Qed.
Check C18b_replay_command_lines_once : forall lookup rel flag_u fuel ts u,
  fst (run_log lookup rel flag_u fuel ts nil) = SOk ->
  own_lines u (snd (run_log lookup rel flag_u fuel ts nil)) = nil
  \/ own_lines u (snd (run_log lookup rel flag_u fuel ts nil)) = body lookup rel u.
Print Assumptions C18b_replay_command_lines_once.

(* and every plain line (and unterminated last line) stands under a "do X" or
   "resumed X" header that names the target whose log it came from *)
Theorem C18b_replay_attributed : forall lookup rel flag_u fuel ts al cur,
  fst (run_log lookup rel flag_u fuel ts al) = SOk ->
  well_attr cur (snd (run_log lookup rel flag_u fuel ts al)).
Proof. exact run_log_attributed. Qed.
Check C18b_replay_attributed : forall lookup rel flag_u fuel ts al cur,
  fst (run_log lookup rel flag_u fuel ts al) = SOk ->
  well_attr cur (snd (run_log lookup rel flag_u fuel ts al)).
Print Assumptions C18b_replay_attributed.

(* the follower, whatever pieces it reads while the log grows, sees the lines
   of the static model *)
Theorem C18b_follow_equals_static : forall cs,
  Forall piece_ok cs -> assemble nil cs = split_lines (concat cs).
Proof. exact follow_equals_static. Qed.
Check C18b_follow_equals_static : forall cs,
  Forall piece_ok cs -> assemble nil cs = split_lines (concat cs).
Print Assumptions C18b_follow_equals_static.

(* non-vacuity: t prints A, asks for the silent c (unchanged, shown under -u),
   prints B and ends with an unterminated "z"; c's log is empty.  The replay
   ends normally; B and z stand under "resumed t" (before the repairs in /repo
   they stood under "do c"). *)
Example C18b_example :
  let t := (116 :: nil)%N in let c := (99 :: nil)%N in
  let rec_unch := format {| kind := k_unchanged; pid := 7%Z; ts := 15000%N; text := c |} in
  let logt := ((65 :: 10 :: nil) ++ rec_unch ++ (10 :: 66 :: 10 :: 122 :: nil))%N in
  let lookup := fun n => if bytes_eqb n t then KLog logt else if bytes_eqb n c then KLog nil else KUnknown in
  let rel := fun (_ : bytes) (x : bytes) => x in
  run_log lookup rel true 5 (t :: nil) nil
  = (SOk, EvMeta k_do t :: EvText t (65 :: 10 :: nil)%N :: EvMeta k_do c :: EvMeta k_resumed t
          :: EvText t (66 :: 10 :: nil)%N :: EvTail t (122 :: 10 :: nil)%N :: nil).
Proof. vm_compute. reflexivity. Qed.

(* ---- a record that stands after a script's own unterminated text on the same
   physical line (printf 'checking y... '; redo-ifchange y -- fix F64): the
   viewer cuts such a line in two.  For EVERY line: it is left alone, or cut so
   that nothing is lost -- the text before the first record prefix becomes a
   plain line of its own (so it is shown under its own target by the theorems
   above, which hold for the lines after cutting) and the rest is a record. *)
Theorem C18b_text_then_record_line : forall l,
  resplit1 l = (l :: nil) \/
  exists a b, resplit1 l = ((a ++ newline :: nil) :: b :: nil) /\ l = a ++ b /\ a <> nil /\
              is_plain (a ++ newline :: nil) = true /\ is_plain b = false.
Proof. exact resplit1_cases. Qed.
Check C18b_text_then_record_line : forall l,
  resplit1 l = (l :: nil) \/
  exists a b, resplit1 l = ((a ++ newline :: nil) :: b :: nil) /\ l = a ++ b /\ a <> nil /\
              is_plain (a ++ newline :: nil) = true /\ is_plain b = false.
Print Assumptions C18b_text_then_record_line.

Theorem C18b_resplit_keeps_bytes : forall ls,
  concat (map (filter (fun c => negb (N.eqb c newline))) (resplit ls))
  = concat (map (filter (fun c => negb (N.eqb c newline))) ls).
Proof. exact resplit_keeps_bytes. Qed.
Print Assumptions C18b_resplit_keeps_bytes.

(* non-vacuity: x prints "ck " without a newline and asks for y; y prints "HI".
   y is followed, HI stands under "do y", the text of x is a line of x. *)
Example C18b_text_then_record_example :
  let x := (120 :: nil)%N in let y := (121 :: nil)%N in
  let rec_do := format {| kind := k_do; pid := 7%Z; ts := 15000%N; text := y |} in
  let logx := ((99 :: 107 :: 32 :: nil) ++ rec_do ++ (10 :: 111 :: 107 :: 10 :: nil))%N in
  let lookup := fun n => if bytes_eqb n x then KLog logx else if bytes_eqb n y then KLog (72 :: 73 :: 10 :: nil)%N else KUnknown in
  let rel := fun (_ : bytes) (t : bytes) => t in
  run_log lookup rel false 5 (x :: nil) nil
  = (SOk, EvMeta k_do x :: EvText x (99 :: 107 :: 10 :: nil)%N :: EvMeta k_do y :: EvText y (72 :: 73 :: 10 :: nil)%N
          :: EvMeta k_resumed x :: EvText x (111 :: 107 :: 10 :: nil)%N :: nil).
Proof. vm_compute. reflexivity. Qed.
