(* C15 -- Every spelling of a path denotes the same target.
   Property theorems only; each is closed by [exact], pinned by [Check] and
   followed by [Print Assumptions]. *)
From Redo Require Import Base.Bytes Paths.Norm Paths.NormProofs Paths.Rel Paths.Resolve Paths.RelProofs.

(* lexical cleaning is idempotent, for every byte string *)
Theorem C15_idempotent : forall s : bytes, normpath (normpath s) = normpath s.
Proof. exact normpath_idempotent. Qed.
Check C15_idempotent : forall s : bytes, normpath (normpath s) = normpath s.
Print Assumptions C15_idempotent.

(* the cleaned component list is in normal form: no "", ".", inner ".." *)
Theorem C15_normal_form : forall s : bytes,
  nf (rooted s) (clean_comps (rooted s) (split slash s)) = true.
Proof. exact clean_comps_nf. Qed.
Check C15_normal_form : forall s : bytes,
  nf (rooted s) (clean_comps (rooted s) (split slash s)) = true.
Print Assumptions C15_normal_form.

(* cleaning never changes which file a path names, in ANY directory structure
   in which ".." undoes a descent (i.e. without symbolic links) *)
Theorem C15_denotation :
  forall (dir : Type) (root : dir) (child : dir -> comp -> dir) (parent : dir -> dir),
    parent root = root ->
    (forall d n, good_name n = true -> parent (child d n) = d) ->
    forall (start : dir) (s : bytes),
      resolve dir root child parent start (normpath s) = resolve dir root child parent start s.
Proof. exact normpath_preserves_resolve. Qed.
Check C15_denotation :
  forall (dir : Type) (root : dir) (child : dir -> comp -> dir) (parent : dir -> dir),
    parent root = root ->
    (forall d n, good_name n = true -> parent (child d n) = d) ->
    forall (start : dir) (s : bytes),
      resolve dir root child parent start (normpath s) = resolve dir root child parent start s.
Print Assumptions C15_denotation.

(* expressing a cleaned absolute location relative to a base and re-joining
   (then cleaning) yields the original location *)
Theorem C15_rejoin : forall tn bn : list comp,
  all_good tn = true -> all_good bn = true ->
  clean_comps true (bn ++ relpath_comps tn bn) = tn.
Proof. exact relpath_rejoin. Qed.
Check C15_rejoin : forall tn bn : list comp,
  all_good tn = true -> all_good bn = true ->
  clean_comps true (bn ++ relpath_comps tn bn) = tn.
Print Assumptions C15_rejoin.

(* one record: spellings whose real cleaned locations agree get one key,
   whatever working directories they were given from ... *)
Theorem C15_one_record :
  forall (canon : bytes -> option bytes) (base cwd1 cwd2 n1 n2 : bytes),
    normpath (realdirpath canon cwd1 (abs_path cwd1 n1))
    = normpath (realdirpath canon cwd2 (abs_path cwd2 n2)) ->
    normpath (realdirpath canon cwd1 base) = normpath (realdirpath canon cwd2 base) ->
    db_key canon cwd1 base n1 = db_key canon cwd2 base n2.
Proof. exact same_location_same_key. Qed.
Check C15_one_record :
  forall (canon : bytes -> option bytes) (base cwd1 cwd2 n1 n2 : bytes),
    normpath (realdirpath canon cwd1 (abs_path cwd1 n1))
    = normpath (realdirpath canon cwd2 (abs_path cwd2 n2)) ->
    normpath (realdirpath canon cwd1 base) = normpath (realdirpath canon cwd2 base) ->
    db_key canon cwd1 base n1 = db_key canon cwd2 base n2.
Print Assumptions C15_one_record.

(* ... and two different locations never share a key *)
Theorem C15_no_aliasing :
  forall (canon : bytes -> option bytes) (base cwd n1 n2 : bytes),
    let loc n := names_of (normpath (realdirpath canon cwd (abs_path cwd n))) in
    let b := names_of (normpath (realdirpath canon cwd base)) in
    loc n1 <> loc n2 -> relpath_comps (loc n1) b <> relpath_comps (loc n2) b.
Proof. exact different_location_different_key. Qed.
Check C15_no_aliasing :
  forall (canon : bytes -> option bytes) (base cwd n1 n2 : bytes),
    let loc n := names_of (normpath (realdirpath canon cwd (abs_path cwd n))) in
    let b := names_of (normpath (realdirpath canon cwd base)) in
    loc n1 <> loc n2 -> relpath_comps (loc n1) b <> relpath_comps (loc n2) b.
Print Assumptions C15_no_aliasing.

(* non-vacuity: a concrete messy spelling, its cleaning, and a rejoin *)
Example C15_example :
  normpath [47;47;97;47;46;47;98;47;46;46;47;46;46;47;99;47] = [47;99]     (* //a/./b/../../c/ -> /c *)
  /\ normpath [46;46;47;97;47;46;46;47;46;46;47;98] = [46;46;47;46;46;47;98] (* ../a/../../b -> ../../b *)
  /\ all_good [[97];[98]] = true
  /\ relpath_comps [[97];[98]] [[97];[99];[100]] = [[46;46];[46;46];[98]].
Proof. vm_compute. repeat split. Qed.
