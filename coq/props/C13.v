(* C13 -- .do rule selection order and script arguments. *)
From Redo Require Import Base.Bytes Paths.Norm DoFiles.Candidates DoFiles.CandidatesSpec DoFiles.CandidatesProofs.

(* the iterator implemented by the code enumerates exactly the documented
   order, for every absolute path *)
Theorem C13_order : forall p : bytes,
  possible_do_files p = spec_candidates (clean_comps true (split slash p)).
Proof. exact possible_do_files_spec. Qed.
Check C13_order : forall p : bytes,
  possible_do_files p = spec_candidates (clean_comps true (split slash p)).
Print Assumptions C13_order.

(* shape of the documented order: name.do first *)
Theorem C13_specific_first : forall names : list comp,
  exists tl, spec_candidates names =
    {| do_dir := abs_of (dir_names names); do_file := last_name names ++ b_do;
       base_dir := []; base_name := last_name names; ext := [] |} :: tl.
Proof. exact spec_head. Qed.
Check C13_specific_first : forall names : list comp,
  exists tl, spec_candidates names =
    {| do_dir := abs_of (dir_names names); do_file := last_name names ++ b_do;
       base_dir := []; base_name := last_name names; ext := [] |} :: tl.
Print Assumptions C13_specific_first.

(* within one directory, longer extensions are tried before shorter ones *)
Theorem C13_longest_ext_first : forall (pre_rev rest : bytes) (i j : nat) (p1 s1 p2 s2 : bytes),
  (i < j)%nat ->
  nth_error (dot_splits pre_rev rest) i = Some (p1, s1) ->
  nth_error (dot_splits pre_rev rest) j = Some (p2, s2) ->
  (length s2 < length s1)%nat.
Proof. exact dot_splits_sorted. Qed.
Check C13_longest_ext_first : forall (pre_rev rest : bytes) (i j : nat) (p1 s1 p2 s2 : bytes),
  (i < j)%nat ->
  nth_error (dot_splits pre_rev rest) i = Some (p1, s1) ->
  nth_error (dot_splits pre_rev rest) j = Some (p2, s2) ->
  (length s2 < length s1)%nat.
Print Assumptions C13_longest_ext_first.

(* every candidate lives in the target's directory or an ancestor of it, and
   its base_dir is the remainder *)
Theorem C13_ancestor_dirs : forall (names : list comp) (d : dofile),
  In d (spec_candidates names) ->
  exists k, do_dir d = abs_of (firstn k (dir_names names))
            /\ base_dir d = rel_of (skipn k (dir_names names)).
Proof. exact candidate_dir_is_ancestor. Qed.
Check C13_ancestor_dirs : forall (names : list comp) (d : dofile),
  In d (spec_candidates names) ->
  exists k, do_dir d = abs_of (firstn k (dir_names names))
            /\ base_dir d = rel_of (skipn k (dir_names names)).
Print Assumptions C13_ancestor_dirs.

(* $2 is $1 without the matched extension; the matched extension is a suffix
   of the file name *)
Theorem C13_ext_suffix : forall (names : list comp) (d : dofile),
  In d (spec_candidates names) ->
  exists bn, base_name d = rel_join (base_dir d) bn /\ bn ++ ext d = last_name names.
Proof. exact candidate_ext_is_suffix. Qed.
Check C13_ext_suffix : forall (names : list comp) (d : dofile),
  In d (spec_candidates names) ->
  exists bn, base_name d = rel_join (base_dir d) bn /\ bn ++ ext d = last_name names.
Print Assumptions C13_ext_suffix.

Theorem C13_args : forall d : dofile, arg2 d ++ ext d = arg1 d /\ arg3 d = arg1 d ++ b_tmp.
Proof. exact args_shape. Qed.
Check C13_args : forall d : dofile, arg2 d ++ ext d = arg1 d /\ arg3 d = arg1 d ++ b_tmp.
Print Assumptions C13_args.

(* non-vacuity: /a/b.c.d has 1 + 2*3 candidates in the expected order *)
Example C13_example :
  map do_file (possible_do_files [47;97;47;98;46;99;46;100]) =
  [ [98;46;99;46;100;46;100;111];
    b_default ++ [46;99;46;100] ++ b_do; b_default ++ [46;100] ++ b_do; b_default ++ b_do;
    b_default ++ [46;99;46;100] ++ b_do; b_default ++ [46;100] ++ b_do; b_default ++ b_do ]
  /\ map do_dir (possible_do_files [47;97;47;98;46;99;46;100]) =
     [[47;97];[47;97];[47;97];[47;97];[47];[47];[47]].
Proof. vm_compute. split; reflexivity. Qed.
