(* C04 -- Targets are replaced atomically and only by complete, unambiguous
   output.  Theorems about record_new_state / the job as a whole, for every
   script output, status, prior target state and surrounding file system. *)
From Coq Require Import ZArith.
From Redo Require Import Base.Bytes Build.Model Build.FsLemmas Build.RecordProofs.

(* the status table: 206 if $1 was modified, else 207 if stdout and $3, else
   the script's own status *)
Theorem C04_status : forall runid t f sf before rc stdout has_tmp w,
  snd (record_new_state runid t f sf before rc stdout has_tmp w)
  = status_of before (fs_get (fs w) t) rc stdout has_tmp.
Proof. exact record_status. Qed.
Check C04_status : forall runid t f sf before rc stdout has_tmp w,
  snd (record_new_state runid t f sf before rc stdout has_tmp w)
  = status_of before (fs_get (fs w) t) rc stdout has_tmp.
Print Assumptions C04_status.

(* for every script that does not write $1 itself: failure leaves the old
   target, success installs exactly the output, no temporary file survives,
   no other file is touched *)
Theorem C04_job : forall runid t f sf m out rc w,
  m <> ODirect ->
  fs_get (fs w) (tmp_of t) = None ->
  let R := job_fs runid t f sf m out rc w in
  (snd R <> 0%Z -> fs_get (fs (fst R)) t = fs_get (fs w) t)
  /\ (snd R = 0%Z ->
      match out, m with
      | Some c, (OStdout | ODollar3) => exists fl, fs_get (fs (fst R)) t = Some fl /\ f_data fl = c
      | _, _ => fs_get (fs (fst R)) t = None
      end)
  /\ fs_get (fs (fst R)) (tmp_of t) = None
  /\ (forall n, n <> t -> n <> tmp_of t -> fs_get (fs (fst R)) n = fs_get (fs w) n).
Proof. exact job_atomic_replace. Qed.
Check C04_job : forall runid t f sf m out rc w,
  m <> ODirect ->
  fs_get (fs w) (tmp_of t) = None ->
  let R := job_fs runid t f sf m out rc w in
  (snd R <> 0%Z -> fs_get (fs (fst R)) t = fs_get (fs w) t)
  /\ (snd R = 0%Z ->
      match out, m with
      | Some c, (OStdout | ODollar3) => exists fl, fs_get (fs (fst R)) t = Some fl /\ f_data fl = c
      | _, _ => fs_get (fs (fst R)) t = None
      end)
  /\ fs_get (fs (fst R)) (tmp_of t) = None
  /\ (forall n, n <> t -> n <> tmp_of t -> fs_get (fs (fst R)) n = fs_get (fs w) n).
Print Assumptions C04_job.

(* redo itself never writes the target path on a failing job -- including the
   case where the script wrote $1 directly (206) *)
Theorem C04_failure_no_effect : forall runid t f sf before rc stdout has_tmp w,
  snd (record_new_state runid t f sf before rc stdout has_tmp w) <> 0%Z ->
  fs_get (fs (fst (record_new_state runid t f sf before rc stdout has_tmp w))) t = fs_get (fs w) t.
Proof. exact record_failure_keeps_target. Qed.
Check C04_failure_no_effect : forall runid t f sf before rc stdout has_tmp w,
  snd (record_new_state runid t f sf before rc stdout has_tmp w) <> 0%Z ->
  fs_get (fs (fst (record_new_state runid t f sf before rc stdout has_tmp w))) t = fs_get (fs w) t.
Print Assumptions C04_failure_no_effect.

Theorem C04_no_tmp_left : forall runid t f sf before rc stdout has_tmp w,
  (has_tmp = false -> fs_get (fs w) (tmp_of t) = None) ->
  fs_get (fs (fst (record_new_state runid t f sf before rc stdout has_tmp w))) (tmp_of t) = None.
Proof. exact record_no_tmp. Qed.
Check C04_no_tmp_left : forall runid t f sf before rc stdout has_tmp w,
  (has_tmp = false -> fs_get (fs w) (tmp_of t) = None) ->
  fs_get (fs (fst (record_new_state runid t f sf before rc stdout has_tmp w))) (tmp_of t) = None.
Print Assumptions C04_no_tmp_left.

(* non-vacuity: a stdout job over a previously generated target, and a failing one *)
Example C04_example :
  let t := [116] in
  let w0 := write_file (init_world 0) t [1;2] None in
  let ok := job_fs 1000000001%Z t 2%nat (empty_row t) OStdout (Some [7;8;9]) 0%Z w0 in
  let bad := job_fs 1000000001%Z t 2%nat (empty_row t) ODollar3 (Some [7;8;9]) 3%Z w0 in
  snd ok = 0%Z /\ option_map f_data (fs_get (fs (fst ok)) t) = Some [7;8;9]
  /\ snd bad = 3%Z /\ option_map f_data (fs_get (fs (fst bad)) t) = Some [1;2]
  /\ fs_get (fs (fst bad)) (tmp_of t) = None.
Proof. vm_compute. repeat split. Qed.
