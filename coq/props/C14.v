(* C14 -- redo-ifcreate and redo-always dependencies (local theorems). *)
From Coq Require Import ZArith List.
From Redo Require Import Base.Bytes Build.Model Build.LocalProofs Build.FailProofs Build.Protect Build.CleanProofs Build.CleanDb Build.Settle Build.SettleJob.

(* declaring redo-ifcreate for an existing path is an error and records nothing *)
Theorem C14_ifcreate_existing_errors : forall t ns w,
  ns <> [] -> existsb (exists_b w) ns = true -> ifcreate_cmd t ns w = (w, 1%Z).
Proof. exact ifcreate_existing_errors. Qed.
Check C14_ifcreate_existing_errors : forall t ns w,
  ns <> [] -> existsb (exists_b w) ns = true -> ifcreate_cmd t ns w = (w, 1%Z).
Print Assumptions C14_ifcreate_existing_errors.

Theorem C14_ifcreate_absent_ok : forall t ns w,
  existsb (exists_b w) ns = false ->
  snd (ifcreate_cmd t ns w) = 0%Z /\ fs (fst (ifcreate_cmd t ns w)) = fs w.
Proof. exact ifcreate_absent_ok. Qed.
Check C14_ifcreate_absent_ok : forall t ns w,
  existsb (exists_b w) ns = false ->
  snd (ifcreate_cmd t ns w) = 0%Z /\ fs (fst (ifcreate_cmd t ns w)) = fs w.
Print Assumptions C14_ifcreate_absent_ok.

(* //ALWAYS always looks changed in the current run, so whoever depends on it
   and was last built in an earlier run is dirty *)
Theorem C14_always_newer : forall runid r,
  r_name r = always_name ->
  exists c, r_changed (view_row runid r) = Some c /\ (runid <= c)%Z.
Proof. exact always_view_changed. Qed.
Check C14_always_newer : forall runid r,
  r_name r = always_name ->
  exists c, r_changed (view_row runid r) = Some c /\ (runid <= c)%Z.
Print Assumptions C14_always_newer.

Theorem C14_newer_dep_is_dirty : forall fuel runid cyc w c f r mx seen chg,
  existsb (Nat.eqb f) seen = false ->
  r_failed r = None ->
  r_changed r = Some chg -> (mx < chg)%Z ->
  is_dirty (S fuel) runid cyc w c f r mx seen = Ret (VDirty, w, c, []).
Proof. exact is_dirty_newer. Qed.
Check C14_newer_dep_is_dirty : forall fuel runid cyc w c f r mx seen chg,
  existsb (Nat.eqb f) seen = false ->
  r_failed r = None ->
  r_changed r = Some chg -> (mx < chg)%Z ->
  is_dirty (S fuel) runid cyc w c f r mx seen = Ret (VDirty, w, c, []).
Print Assumptions C14_newer_dep_is_dirty.

(* the two rules over the whole walk: a target with a recorded redo-ifcreate edge
   to a path that exists now, or with a recorded edge to //ALWAYS, is never
   found clean by a run that has not dealt with it yet -- whatever else is in
   its dependency list, whatever the other rows say, for every fuel *)
Theorem C14_ifcreate_or_always_not_clean : forall fuel runid cyc w c f r mx seen v w' c' evs chg,
  (0 < runid)%Z ->
  is_dirty fuel runid cyc w c f r mx seen = Ret (v, w', c', evs) ->
  chk_is_checked c runid r f = false ->
  r_changed r = Some chg -> (chg < runid)%Z ->
  (match r_checked r with Some k => k | None => 0 end < runid)%Z ->
  (exists d, In d (deps_of (dbs w) r f) /\
     ((d_mode d = DCreated /\ exists_b w (r_name (get_row (dbs w) (d_source d))) = true)
      \/ (d_mode d = DModified /\ r_name (get_row (dbs w) (d_source d)) = always_name))) ->
  v <> VClean.
Proof. exact ifcreate_or_always_not_clean. Qed.
Check C14_ifcreate_or_always_not_clean : forall fuel runid cyc w c f r mx seen v w' c' evs chg,
  (0 < runid)%Z ->
  is_dirty fuel runid cyc w c f r mx seen = Ret (v, w', c', evs) ->
  chk_is_checked c runid r f = false ->
  r_changed r = Some chg -> (chg < runid)%Z ->
  (match r_checked r with Some k => k | None => 0 end < runid)%Z ->
  (exists d, In d (deps_of (dbs w) r f) /\
     ((d_mode d = DCreated /\ exists_b w (r_name (get_row (dbs w) (d_source d))) = true)
      \/ (d_mode d = DModified /\ r_name (get_row (dbs w) (d_source d)) = always_name))) ->
  v <> VClean.
Print Assumptions C14_ifcreate_or_always_not_clean.

(* non-vacuity: an always target runs in every run, once per run for two
   dependents; an ifcreate target runs after the watched file appears, not before
   (and then fails, because it declares redo-ifcreate for a path that now exists) *)
Example C14_example :
  let mk deps ifc alw p := {| s_deps := deps; s_ifcreate := ifc; s_always := alw; s_stamp := false;
                              s_out := OStdout; s_payload := p; s_cat := false; s_exit := 0%Z; s_tol := false |} in
  let a := [97] in let x := [120] in let y := [121] in let i := [105] in let wf := [119] in
  let h := [SWriteDo (a ++ b_do) (mk [] [] true 1); SWriteDo (x ++ b_do) (mk [a] [] false 2);
            SWriteDo (y ++ b_do) (mk [a] [] false 3); SWriteDo (i ++ b_do) (mk [] [wf] false 4);
            SCmd (CIfChange false [x; y; i]); SCmd (CIfChange false [x; y; i]);
            SWrite [115] [0]; SCmd (CIfChange false [i]);
            SWrite wf [1]; SCmd (CIfChange false [i])] in
  map (fun x => match snd x with
                | Some (OutBuild evs rc) =>
                    Some (length (filter (fun e => match e with EvRun t _ _ _ => bytes_eqb t a | _ => false end) evs),
                          length (filter (fun e => match e with EvRun t _ _ _ => bytes_eqb t i | _ => false end) evs), rc)
                | _ => None end)
      (run_history h (init_world 0))
  = [None; None; None; None; Some (1, 1, 0%Z)%nat; Some (1, 0, 0%Z)%nat; None; Some (0, 0, 0%Z)%nat; None; Some (0, 1, 1%Z)%nat].
Proof. vm_compute. reflexivity. Qed.

(* "and not before": as long as every watched path is absent and nothing else changed (the set is
   quiet -- absence of the redo-ifcreate paths is part of the definition) the check is CLEAN *)
Theorem C14_not_before : forall runid w rk S fuel g l,
  forallb (quiet_row_b runid w rk S) S = true -> In g S -> (rk g < fuel)%nat ->
  (forall chg, r_changed (ld runid w g) = Some chg -> (chg <= runid)%Z) ->
  exists l' evs, is_dirty fuel runid nil w (ChkMem l) g (ld runid w g) runid nil = Ret (VClean, w, ChkMem l', evs).
Proof. exact quiet_b_all_clean. Qed.
Check C14_not_before : forall runid w rk S fuel g l,
  forallb (quiet_row_b runid w rk S) S = true -> In g S -> (rk g < fuel)%nat ->
  (forall chg, r_changed (ld runid w g) = Some chg -> (chg <= runid)%Z) ->
  exists l' evs, is_dirty fuel runid nil w (ChkMem l) g (ld runid w g) runid nil = Ret (VClean, w, ChkMem l', evs).
Print Assumptions C14_not_before.

(* ---- "and not before", over whole builds (Build/SettleJob.v): a script may declare
   redo-ifcreate on watched paths; when `redo-ifchange ts` exits 0 every target in ts
   is settled -- which includes: every path it watches is absent and recorded -- and
   the settled rows are a quiet set, on which C14_not_before (one check) and
   C02_repeated_builds_run_nothing (every later command) say that nothing runs as
   long as the watched paths stay absent and nothing else changes.  Scope and
   premises as for C02_successful_build_settles (props/C02.v, with an example whose
   top target watches a path). *)
Theorem C14_build_with_ifcreate_settles : forall rk watched R (L : list name) k ts w w' evs,
  R = (maxrun (dbs w) + 1)%Z -> (0 < R)%Z ->
  wfw_b R rk (fst (new_run w)) = true -> fresh_b R (fst (new_run w)) = true ->
  xr_b (fst (new_run w)) = true -> cre_b watched (fst (new_run w)) = true ->
  (forall n, watched n = true -> reserved n = false) ->
  (forall t, watched t = false -> reserved t = false -> In t L) ->
  forallb (proj_t_b rk watched (fst (new_run w))) L = true ->
  forallb (fun t => negb (watched t) && negb (reserved t)) ts = true ->
  exec (CIfChange k ts) w = (w', OutBuild evs 0%Z) ->
  (forall t, In t ts -> exists g, find_row (rows (dbs w')) t 1 = Some g /\ ok R w' nil g) /\
  QUIET R (rkf rk w') (ok R w' nil) w'.
Proof. exact ifchange_settles_b. Qed.
Print Assumptions C14_build_with_ifcreate_settles.
