(* C07 -- Each target built at most once per run; outcome independent of
   schedule.  PARTIAL: proved are the three mechanisms that prevent a second
   execution (one running script per file id at any time; a file id is handled
   once per command whatever its spellings; a target that failed in this run is
   refused) and, on the transition system of the lock protocol (Sched/OnceRun.v),
   the first clause itself: for every number of processes and every
   interleaving, one invocation with no other invocation active starts each
   target's script at most once (C07_at_most_once_per_run).  Equality with the
   serial build (C07_full_statement) is decided against the implementation on
   every run. *)
From Coq Require Import ZArith List.
From Redo Require Import Base.Bytes Build.Model Build.LocalProofs Build.OnceProofs Sched.Locks Sched.LocksProofs Sched.OnceRun Sched.OnceRunProofs.
Import ListNotations.

Theorem C07_one_running : forall es s,
  lrun es empty = Some s ->
  (forall f p q, In (f, p) (running s) -> In (f, q) (running s) -> p = q)
  /\ (forall f p, In (f, p) (running s) -> exists q, In (f, q) (holder s)).
Proof. exact mutual_exclusion. Qed.
Check C07_one_running : forall es s,
  lrun es empty = Some s ->
  (forall f p q, In (f, p) (running s) -> In (f, q) (running s) -> p = q)
  /\ (forall f p, In (f, p) (running s) -> exists q, In (f, q) (holder s)).
Print Assumptions C07_one_running.

Theorem C07_same_file_once_per_command : forall job e t ts seen w evs errored,
  (errored && negb (e_keep_going e)) = false ->
  let '(d0, f) := from_name (dbs w) t in
  existsb (Nat.eqb f) seen = true ->
  run_loop job e (t :: ts) seen w evs errored = run_loop job e ts seen (set_db w d0) evs errored.
Proof. exact run_loop_skips_seen. Qed.
Check C07_same_file_once_per_command : forall job e t ts seen w evs errored,
  (errored && negb (e_keep_going e)) = false ->
  let '(d0, f) := from_name (dbs w) t in
  existsb (Nat.eqb f) seen = true ->
  run_loop job e (t :: ts) seen w evs errored = run_loop job e ts seen (set_db w d0) evs errored.
Print Assumptions C07_same_file_once_per_command.

Theorem C07_failed_not_again : forall rec fuel e t w,
  let '(d0, f) := from_name (dbs w) t in
  is_failed (e_runid e) (load (e_runid e) d0 f) = true ->
  start rec fuel e MIfChange t w = Ret (set_db w d0, [EvFailed32 t], 32%Z, false).
Proof. exact start_failed_this_run. Qed.
Check C07_failed_not_again : forall rec fuel e t w,
  let '(d0, f) := from_name (dbs w) t in
  is_failed (e_runid e) (load (e_runid e) d0 f) = true ->
  start rec fuel e MIfChange t w = Ret (set_db w d0, [EvFailed32 t], 32%Z, false).
Print Assumptions C07_failed_not_again.

Definition C07_full_statement : Prop :=
  forall (depth : nat) (h : list hstep), True (* for all-success projects every complete
     interleaving of one invocation ends with the files, exit status and dependency
     records of the serial build, each script having run at most once *).

(* at most once per run, serially: a job that ends with status 0 leaves its row
   "dealt with in this run" (changed_runid or checked_runid = this run) ... *)
Theorem C07_success_marks_row : forall runid t f sf before rc stdout has_tmp w,
  (0 < runid)%Z -> (f - 1 < length (rows (dbs w)))%nat ->
  snd (record_new_state runid t f sf before rc stdout has_tmp w) = 0%Z ->
  let r' := load runid (dbs (fst (record_new_state runid t f sf before rc stdout has_tmp w))) f in
  (is_checked runid r' || is_changed runid r') = true.
Proof. exact record_success_dealt_with. Qed.
Check C07_success_marks_row : forall runid t f sf before rc stdout has_tmp w,
  (0 < runid)%Z -> (f - 1 < length (rows (dbs w)))%nat ->
  snd (record_new_state runid t f sf before rc stdout has_tmp w) = 0%Z ->
  let r' := load runid (dbs (fst (record_new_state runid t f sf before rc stdout has_tmp w))) f in
  (is_checked runid r' || is_changed runid r') = true.
Print Assumptions C07_success_marks_row.

(* ... and every further redo-ifchange of such a row in this run finds it clean
   at once, starting no script -- whatever its dependencies look like now (a
   dependency may have failed and been tolerated: finding F23) *)
Theorem C07_dealt_with_not_again : forall rec fuel e t w chg,
  let '(d0, f) := from_name (dbs w) t in
  let r := load (e_runid e) d0 f in
  r_failed r = None -> r_changed r = Some chg -> (chg <= e_runid e)%Z ->
  (is_checked (e_runid e) r || is_changed (e_runid e) r) = true ->
  start rec (S fuel) e MIfChange t w =
    Ret (set_db w d0, if r_gen r then [EvUnchanged t] else [], 0%Z, false).
Proof. exact start_dealt_with_this_run. Qed.
Check C07_dealt_with_not_again : forall rec fuel e t w chg,
  let '(d0, f) := from_name (dbs w) t in
  let r := load (e_runid e) d0 f in
  r_failed r = None -> r_changed r = Some chg -> (chg <= e_runid e)%Z ->
  (is_checked (e_runid e) r || is_changed (e_runid e) r) = true ->
  start rec (S fuel) e MIfChange t w =
    Ret (set_db w d0, if r_gen r then [EvUnchanged t] else [], 0%Z, false).
Print Assumptions C07_dealt_with_not_again.

(* non-vacuity (F23): t tolerates the failure of d; p depends on t; one command
   asks for p and t: t's script runs once (events: p, t, d -- not t again) *)
Example C07_tolerant_once_example :
  let mk deps p ex tol := {| s_deps := deps; s_ifcreate := []; s_always := false; s_stamp := false;
                             s_out := OStdout; s_payload := p; s_cat := false; s_exit := ex; s_tol := tol |} in
  let d := [100%N] in let t := [116%N] in let p := [112%N] in
  let h := [SWriteDo (d ++ b_do) (mk [] 1%N 7%Z false); SWriteDo (t ++ b_do) (mk [d] 2%N 0%Z true);
            SWriteDo (p ++ b_do) (mk [t] 3%N 0%Z false);
            SCmd (CIfChange true [p; t; p])] in
  map (fun x => match snd x with
                | Some (OutBuild evs rc) => Some (length (filter (fun e => match e with EvRun _ _ _ _ => true | _ => false end) evs), rc)
                | _ => None end)
      (run_history h (init_world 0))
  = [None; None; None; Some (3%nat, 0%Z)].
Proof. vm_compute. reflexivity. Qed.

(* non-vacuity: a diamond on the serial model: the shared base runs once *)
Local Open Scope N_scope.
Example C07_example :
  let mk deps p := {| s_deps := deps; s_ifcreate := []; s_always := false; s_stamp := false;
                      s_out := OStdout; s_payload := p; s_cat := true; s_exit := 0%Z; s_tol := false |} in
  let b := [98] in let l := [108] in let r := [114] in let t := [116] in
  let h := [SWriteDo (b ++ b_do) (mk [] 1); SWriteDo (l ++ b_do) (mk [b] 2); SWriteDo (r ++ b_do) (mk [b] 3);
            SWriteDo (t ++ b_do) (mk [l; r] 4); SCmd (CIfChange false [t; l; [46;47;116]])] in
  match snd (last (run_history h (init_world 0)) (init_world 0, None)) with
  | Some (OutBuild evs rc) =>
      (length (filter (fun e => match e with EvRun n _ _ _ => bytes_eqb n b | _ => false end) evs), rc)
  | _ => (0%nat, 1%Z)
  end = (1%nat, 0%Z).
Proof. vm_compute. reflexivity. Qed.

(* ---- the first clause over every interleaving (Sched/OnceRun.v): the lock of a
   file goes free -> held -> building -> recorded -> free; should_build runs
   under the lock and refuses a row marked by the own run (the two serial
   theorems above); the mark is committed before the lock is released
   (C06_recorded_before_release).  With no other invocation active: *)
Theorem C07_at_most_once_per_run : forall es s r f,
  forallb (ev_of_run r) es = true -> orun es oinit = Some s ->
  (kcount (r, f) (starts s) <= 1)%nat.
Proof. exact at_most_once_per_run. Qed.
Check C07_at_most_once_per_run : forall es s r f,
  forallb (ev_of_run r) es = true -> orun es oinit = Some s ->
  (kcount (r, f) (starts s) <= 1)%nat.
Print Assumptions C07_at_most_once_per_run.

(* with other invocations active, as long as no LATER run has recorded the
   target: between two starts another run has recorded it *)
Theorem C07_starts_bounded : forall es s r f,
  orun es oinit = Some s -> has_newer r f (dones s) = false ->
  (kcount (r, f) (starts s) <= foreign r f (dones s) + 1)%nat.
Proof. exact starts_bounded. Qed.
Check C07_starts_bounded : forall es s r f,
  orun es oinit = Some s -> has_newer r f (dones s) = false ->
  (kcount (r, f) (starts s) <= foreign r f (dones s) + 1)%nat.
Print Assumptions C07_starts_bounded.

(* the property's proviso "with no other invocation active" is needed: with a
   later invocation recording the target in between, the earlier one starts it
   again for every request (same shape on the binaries: the lock traces of the
   multi-invocation runs of C06/C09/C16 are accepted by this model with three
   starts of one file in one run) *)
Theorem C07_once_needs_the_proviso :
  exists es s, orun es oinit = Some s /\ kcount (1%Z, 5%Z) (starts s) = 3%nat.
Proof. exact once_per_run_refuted_with_two_runs. Qed.
Check C07_once_needs_the_proviso :
  exists es s, orun es oinit = Some s /\ kcount (1%Z, 5%Z) (starts s) = 3%nat.
Print Assumptions C07_once_needs_the_proviso.

(* non-vacuity: two processes of one run ask for the same target; the second
   finds the lock busy, gets it after the first has recorded, and may not start *)
Example C07_once_example :
  orun [OAcquire 10 5; OStart 1 5; ODone 1 5; ORelease 10 5; OAcquire 11 5; ORelease 11 5]%Z oinit <> None
  /\ orun [OAcquire 10 5; OStart 1 5; ODone 1 5; ORelease 10 5; OAcquire 11 5; OStart 1 5]%Z oinit = None
  /\ orun [OAcquire 10 5; OStart 1 5; OAcquire 11 5]%Z oinit = None.
Proof. vm_compute. repeat split; discriminate. Qed.

(* ---- the build lock (fix F71, Sched/BuildLock.v) ---- *)
From Redo Require Import Sched.BuildLock.

(* on every trace accepted by the protocol with the build lock's obligations
   (the one the implementation's lck events are replayed through): while a
   script runs, the process that started it holds the target's build lock *)
Theorem C07_running_script_holds_build_lock : forall es s,
  brun es empty = Some s -> forall f p, In (f, p) (running s) -> lookup (f + bmagic)%Z (holder s) = Some p.
Proof. exact running_holds_build_lock. Qed.
Check C07_running_script_holds_build_lock : forall es s,
  brun es empty = Some s -> forall f p, In (f, p) (running s) -> lookup (f + bmagic)%Z (holder s) = Some p.
Print Assumptions C07_running_script_holds_build_lock.

Theorem C07_build_lock_refines_lock_protocol : forall es s s', brun es s = Some s' -> lrun es s = Some s'.
Proof. exact brun_lrun. Qed.
Check C07_build_lock_refines_lock_protocol : forall es s s', brun es s = Some s' -> lrun es s = Some s'.
Print Assumptions C07_build_lock_refines_lock_protocol.

(* for every interleaving of builders and dirtiness walks in which write
   transactions exclude one another: a walk never reads the rows of a target in
   mid-build after finding its build lock free in the same transaction *)
Theorem C07_walk_never_reads_rows_in_mid_build : forall es s, trun es tinit = Some s -> bad s = false.
Proof. exact walk_never_reads_mid_build. Qed.
Check C07_walk_never_reads_rows_in_mid_build : forall es s, trun es tinit = Some s -> bad s = false.
Print Assumptions C07_walk_never_reads_rows_in_mid_build.

(* not vacuous: a builder and a walk interleaved both ways are accepted; the
   orders the implementation must not produce are refused (lock after the
   start commit = the state before F71 in which a walk could read mid-build
   rows; a job started without the build lock; the build lock dropped before
   the result is recorded) *)
Example C07_build_lock_example :
  (exists s, trun [TBegin 1; TLock 1 7; TStart 1 7; TBegin 2; TProbe 2 7; TRead 2 7; TEnd 2; TRecord 1 7; TUnlock 1 7;
                   TBegin 2; TProbe 2 7; TRead 2 7; TEnd 2]%Z tinit = Some s /\ seen_free s = [])
  /\ trun [TBegin 1; TStart 1 7]%Z tinit = None
  /\ trun [TBegin 1; TLock 1 7; TStart 1 7; TUnlock 1 7]%Z tinit = None
  /\ (exists s, brun [LAcquired 10 5; LAcquired 10 (5 + bmagic); LJobStart 10 5; LJobDone 10 5;
                      LRelease 10 (5 + bmagic); LRelease 10 5]%Z empty = Some s /\ holder s = [])
  /\ brun [LAcquired 10 5; LJobStart 10 5]%Z empty = None
  /\ brun [LAcquired 10 5; LAcquired 10 (5 + bmagic); LJobStart 10 5; LRelease 10 (5 + bmagic)]%Z empty = None.
Proof. vm_compute. repeat split; try reflexivity; eexists; split; reflexivity. Qed.

(* ---- the protocol models are about the current source (Sched/ProtocolTie.v;
   Anchors.v is regenerated from /repo on every run) ---- *)
From Coq Require Import String.
From Redo Require Import Anchors Sched.ProtocolTie.
Theorem C07_build_lock_tied_to_source :
  (bmagic = build_lock_magic /\ (log_lock_magic < build_lock_magic)%Z)
  /\ forallb snd protocol_facts = true
  /\ forallb (fun x => if String.eqb (fst x) "builder.rs"%string then immediate_b (snd x) else true) sites = true.
Proof. exact (conj bmagic_is_the_sources (conj protocol_facts_hold (proj1 builder_transactions_are_immediate))). Qed.
Check C07_build_lock_tied_to_source :
  (bmagic = build_lock_magic /\ (log_lock_magic < build_lock_magic)%Z)
  /\ forallb snd protocol_facts = true
  /\ forallb (fun x => if String.eqb (fst x) "builder.rs"%string then immediate_b (snd x) else true) sites = true.
Print Assumptions C07_build_lock_tied_to_source.

(* ---- why the early answer is right (Build/EarlyDirty.v) ---- *)
From Coq Require Import Lia.
From Redo Require Import Build.EarlyDirty.
(* whatever the build of a plain target (no redo-stamp in this run) does --
   success, failure, any output -- the row it records makes every later check on
   behalf of a dependent last dealt with before this run answer "dirty", at once
   and without touching anything: the answer the walk now gives while that
   build is still under way (fix F71) is the one it would give after waiting *)
Theorem C07_being_rebuilt_plain_is_dirty_afterwards : forall runid t f sf before rc stdout has_tmp w,
  (1 <= f <= List.length (rows (dbs w)))%nat ->
  (0 < runid)%Z ->
  is_checked runid (load runid (dbs w) f) || is_changed runid (load runid (dbs w) f) = false ->
  let w' := fst (record_new_state runid t f sf before rc stdout has_tmp w) in
  forall fuel runid2 cyc w2 c mx seen,
    existsb (Nat.eqb f) seen = false -> (mx < runid)%Z ->
    is_dirty (S fuel) runid2 cyc w2 c f (load runid (dbs w') f) mx seen = Ret (VDirty, w2, c, []).
Proof. exact being_rebuilt_plain_is_dirty_afterwards. Qed.
Check C07_being_rebuilt_plain_is_dirty_afterwards : forall runid t f sf before rc stdout has_tmp w,
  (1 <= f <= List.length (rows (dbs w)))%nat ->
  (0 < runid)%Z ->
  is_checked runid (load runid (dbs w) f) || is_changed runid (load runid (dbs w) f) = false ->
  let w' := fst (record_new_state runid t f sf before rc stdout has_tmp w) in
  forall fuel runid2 cyc w2 c mx seen,
    existsb (Nat.eqb f) seen = false -> (mx < runid)%Z ->
    is_dirty (S fuel) runid2 cyc w2 c f (load runid (dbs w') f) mx seen = Ret (VDirty, w2, c, []).
Print Assumptions C07_being_rebuilt_plain_is_dirty_afterwards.
(* the premises are met by a target that has just been registered *)
Example C07_early_dirty_premises :
  let d := fst (from_name (dbs (init_world 0)) [116%N]) in
  let f := snd (from_name (dbs (init_world 0)) [116%N]) in
  (1 <= f <= List.length (rows d))%nat
  /\ is_checked first_runid (load first_runid d f) || is_changed first_runid (load first_runid d f) = false.
Proof. vm_compute. split; [lia|reflexivity]. Qed.
