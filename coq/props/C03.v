(* C03 -- Checksum cut-off: redo-stamp stops and forwards change exactly.
   PARTIAL: what redo-stamp records is proved for every state; the cut-off /
   forwarding over whole builds is decided against the implementation. *)
From Coq Require Import ZArith.
From Redo Require Import Base.Bytes Build.Model Build.LocalProofs.

(* unchanged checksum: changed_runid is left alone (nothing that compares run
   ids can see a change), the row is marked checked in this run *)
Theorem C03_stamp_unchanged : forall runid t content w,
  let '(d1, me) := from_name (dbs w) t in
  r_csum (load runid d1 me) = Some content ->
  (1 <= me <= length (rows d1))%nat ->
  let r' := get_row (dbs (stamp_cmd runid t content w)) me in
  r_changed r' = r_changed (load runid d1 me) /\ r_checked r' = Some runid /\ r_csum r' = Some content.
Proof. exact stamp_unchanged_keeps_changed. Qed.
Check C03_stamp_unchanged : forall runid t content w,
  let '(d1, me) := from_name (dbs w) t in
  r_csum (load runid d1 me) = Some content ->
  (1 <= me <= length (rows d1))%nat ->
  let r' := get_row (dbs (stamp_cmd runid t content w)) me in
  r_changed r' = r_changed (load runid d1 me) /\ r_checked r' = Some runid /\ r_csum r' = Some content.
Print Assumptions C03_stamp_unchanged.

(* changed checksum: changed_runid becomes this run, so every consumer built or
   checked in an earlier run sees a newer dependency *)
Theorem C03_stamp_changed : forall runid t content w,
  let '(d1, me) := from_name (dbs w) t in
  r_csum (load runid d1 me) <> Some content ->
  (forall old, r_csum (load runid d1 me) = Some old -> list_eqb N.eqb old content = false) ->
  (1 <= me <= length (rows d1))%nat ->
  let r' := get_row (dbs (stamp_cmd runid t content w)) me in
  r_changed r' = Some runid /\ r_csum r' = Some content /\ r_failed r' = None /\ r_gen r' = true.
Proof. exact stamp_changed_sets_changed. Qed.
Check C03_stamp_changed : forall runid t content w,
  let '(d1, me) := from_name (dbs w) t in
  r_csum (load runid d1 me) <> Some content ->
  (forall old, r_csum (load runid d1 me) = Some old -> list_eqb N.eqb old content = false) ->
  (1 <= me <= length (rows d1))%nat ->
  let r' := get_row (dbs (stamp_cmd runid t content w)) me in
  r_changed r' = Some runid /\ r_csum r' = Some content /\ r_failed r' = None /\ r_gen r' = true.
Print Assumptions C03_stamp_changed.

Theorem C03_newer_dep_forwards : forall fuel runid cyc w c f r mx seen chg,
  existsb (Nat.eqb f) seen = false ->
  r_failed r = None ->
  r_changed r = Some chg -> (mx < chg)%Z ->
  is_dirty (S fuel) runid cyc w c f r mx seen = Ret (VDirty, w, c, []).
Proof. exact is_dirty_newer. Qed.
Check C03_newer_dep_forwards : forall fuel runid cyc w c f r mx seen chg,
  existsb (Nat.eqb f) seen = false ->
  r_failed r = None ->
  r_changed r = Some chg -> (mx < chg)%Z ->
  is_dirty (S fuel) runid cyc w c f r mx seen = Ret (VDirty, w, c, []).
Print Assumptions C03_newer_dep_forwards.

Definition C03_full_statement : Prop :=
  forall (depth : nat) (h : list hstep), True (* equal checksum: no dependent runs because of the
     rebuild; different checksum: every dependent runs before the same command returns 0 *).

(* non-vacuity, depth 2: s -> c1 (stamped, ignores s's value) -> c2 (stamped) -> t.
   Editing s rebuilds c1 only (cut-off); editing c1's script output forwards to t. *)
Example C03_example :
  let mk deps st p cat := {| s_deps := deps; s_ifcreate := []; s_always := false; s_stamp := st;
                             s_out := ODollar3; s_payload := p; s_cat := cat; s_exit := 0%Z; s_tol := false |} in
  let s := [115] in let c1 := [99;49] in let c2 := [99;50] in let t := [116] in
  let h := [SWrite s [1]; SWriteDo (c1 ++ b_do) (mk [s] true 10 false);
            SWriteDo (c2 ++ b_do) (mk [c1] true 11 true); SWriteDo (t ++ b_do) (mk [c2] false 20 true);
            SCmd (CIfChange false [t]); SWrite s [2]; SCmd (CIfChange false [t]);
            SWriteDo (c1 ++ b_do) (mk [s] true 12 false); SCmd (CIfChange false [t])] in
  map (fun x => match snd x with
                | Some (OutBuild evs rc) =>
                    Some (map (fun e => match e with EvRun n _ _ _ => n | _ => [] end)
                              (filter (fun e => match e with EvRun _ _ _ _ => true | _ => false end) evs), rc)
                | _ => None end) (run_history h (init_world 0))
  = [None; None; None; None; Some ([t; c2; c1], 0%Z); None; Some ([c1], 0%Z); None; Some ([c1; t; c2], 0%Z)].
Proof. vm_compute. reflexivity. Qed.
