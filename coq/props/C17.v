(* C17 -- redo-ood/targets/sources are safe over-approximations and change
   nothing (the read-only and partition parts are proved; the two bounds on
   redo-ood are checked against the implementation, see DESIGN.md). *)
From Coq Require Import ZArith List.
From Redo Require Import Base.Bytes Build.Model Build.LocalProofs Build.OodAgree.

(* none of the three alters anything but the run-id counter: files, rows and
   dependency records are exactly as before *)
Theorem C17_readonly : forall c w,
  (c = COod \/ c = CTargets \/ c = CSources) ->
  fs (fst (exec c w)) = fs w /\ rows (dbs (fst (exec c w))) = rows (dbs w)
  /\ deps (dbs (fst (exec c w))) = deps (dbs w) /\ clock (fst (exec c w)) = clock w.
Proof. exact query_readonly. Qed.
Check C17_readonly : forall c w,
  (c = COod \/ c = CTargets \/ c = CSources) ->
  fs (fst (exec c w)) = fs w /\ rows (dbs (fst (exec c w))) = rows (dbs w)
  /\ deps (dbs (fst (exec c w))) = deps (dbs w) /\ clock (fst (exec c w)) = clock w.
Print Assumptions C17_readonly.

Theorem C17_disjoint : forall runid w r, is_target runid w r = true -> is_source runid w r = false.
Proof. exact target_source_disjoint. Qed.
Check C17_disjoint : forall runid w r, is_target runid w r = true -> is_source runid w r = false.
Print Assumptions C17_disjoint.

(* what is in neither list: special names and files that are missing on disk *)
Theorem C17_cover : forall runid w r,
  is_target runid w r = false -> is_source runid w r = false ->
  is_prefix [slash; slash] (r_name r) = true
  \/ stamp_eqb (read_stamp w (r_name r)) SMissing = true
  \/ (r_gen r = false /\ False).
Proof. exact neither_target_nor_source. Qed.
Check C17_cover : forall runid w r,
  is_target runid w r = false -> is_source runid w r = false ->
  is_prefix [slash; slash] (r_name r) = true
  \/ stamp_eqb (read_stamp w (r_name r)) SMissing = true
  \/ (r_gen r = false /\ False).
Print Assumptions C17_cover.

(* ---------------------------------------------------------------- "redo-ood lists every target a following redo-ifchange would rebuild"
   redo-ood decides with the SAME dirtiness walk as the builder, except that it
   remembers "already verified in this run" in memory (ChkMem) where the builder
   writes checked_runid to the database (ChkDb).  From one state at the start
   of a run (no row verified in this run yet; file ids positive, as SQLite row
   ids are) the two walks return the same verdict and the same warnings, for
   every database, file system, target and fuel: a target is listed by redo-ood
   exactly when the builder's check would not find it clean. *)
Theorem C17_ood_agrees_with_builder : forall runid fuel w f,
  (0 < runid)%Z -> (1 <= f)%nat -> ids_pos w -> fresh_run runid w ->
  match is_dirty fuel runid w ChkDb f runid [], is_dirty fuel runid w (ChkMem []) f runid [] with
  | Ret (vd, _, _, ed), Ret (vm, _, _, em) => vd = vm /\ ed = em
  | EFuel, EFuel => True
  | _, _ => False
  end.
Proof. exact ood_agrees_with_builder. Qed.
Check C17_ood_agrees_with_builder : forall runid fuel w f,
  (0 < runid)%Z -> (1 <= f)%nat ->
  (forall d, In d (deps (dbs w)) -> (1 <= d_source d)%nat) ->
  (forall g, (1 <= g)%nat -> is_checked runid (load runid (dbs w) g) = false) ->
  match is_dirty fuel runid w ChkDb f runid [], is_dirty fuel runid w (ChkMem []) f runid [] with
  | Ret (vd, _, _, ed), Ret (vm, _, _, em) => vd = vm /\ ed = em
  | EFuel, EFuel => True
  | _, _ => False
  end.
Print Assumptions C17_ood_agrees_with_builder.

(* the same over redo-ood's whole loop (the lambda of [exec COod], shown equal
   to [ood_step] by reflexivity): the list of names and the cycle flag do not
   depend on which of the two ways of remembering is used; the states stay
   related by REL (equal up to checked_runid, rows in the memory set = rows
   marked checked in the database) *)
Theorem C17_ood_listing_agrees : forall runid, (0 < runid)%Z -> forall fuel ts ad am,
  Forall (fun x => (1 <= fst x)%nat) ts ->
  (forall wd cd od yd, ad = Ret (wd, cd, od, yd) -> ids_pos wd) ->
  ACC runid ad am ->
  ACC runid (fold_left (ood_step runid fuel) ts ad) (fold_left (ood_step runid fuel) ts am).
Proof. exact ood_listing_agrees. Qed.
Check C17_ood_listing_agrees : forall runid, (0 < runid)%Z -> forall fuel ts ad am,
  Forall (fun x => (1 <= fst x)%nat) ts ->
  (forall wd cd od yd, ad = Ret (wd, cd, od, yd) -> ids_pos wd) ->
  ACC runid ad am ->
  ACC runid (fold_left (ood_step runid fuel) ts ad) (fold_left (ood_step runid fuel) ts am).
Print Assumptions C17_ood_listing_agrees.

Theorem C17_exec_ood_is_that_loop : forall w,
  let '(w0, runid) := new_run w in
  let ts := filter (fun x => is_target runid w0 (snd x)) (files_by_name runid (dbs w0)) in
  exec COod w =
  match fold_left (ood_step runid (default_fuel w0)) ts (Ret (w0, ChkMem [], [], false)) with
  | Ret (_, _, out, false) => (w0, OutList out)
  | Ret (_, _, out, true) => (w0, OutErr 208)
  | EFuel => (w0, OutErr 0)
  end.
Proof. exact exec_ood_is_fold. Qed.
Check C17_exec_ood_is_that_loop : forall w,
  let '(w0, runid) := new_run w in
  let ts := filter (fun x => is_target runid w0 (snd x)) (files_by_name runid (dbs w0)) in
  exec COod w =
  match fold_left (ood_step runid (default_fuel w0)) ts (Ret (w0, ChkMem [], [], false)) with
  | Ret (_, _, out, false) => (w0, OutList out)
  | Ret (_, _, out, true) => (w0, OutErr 208)
  | EFuel => (w0, OutErr 0)
  end.
Print Assumptions C17_exec_ood_is_that_loop.

(* non-vacuity of the two premises: after a build, a source edit and the
   allocation of the next run id, no row is verified in the new run and all
   recorded file ids are positive; and the two walks do return a verdict *)
Example C17_premises_example :
  let sc := {| s_deps := [[115]]; s_ifcreate := []; s_always := false; s_stamp := false;
               s_out := OStdout; s_payload := 9; s_cat := true; s_exit := 0%Z; s_tol := false |} in
  let h := [SWrite [115] [1]; SWriteDo [116;46;100;111] sc; SCmd (CIfChange false [[116]]); SWrite [115] [2]] in
  let w1 := fst (last (run_history h (init_world 0)) (init_world 0, None)) in
  let '(w2, runid) := new_run w1 in
  fresh_run_b runid w2 = true /\ ids_pos_b w2 = true /\ (0 <? runid)%Z = true
  /\ match find_row (rows (dbs w2)) [116] 1 with
     | Some f => match is_dirty 50 runid w2 ChkDb f runid [], is_dirty 50 runid w2 (ChkMem []) f runid [] with
                 | Ret (VDirty, _, _, _), Ret (VDirty, _, _, _) => True | _, _ => False end
     | None => False end.
Proof. vm_compute. repeat split; reflexivity. Qed.

(* the dirtiness walk used by redo-ood never touches a file *)
Theorem C17_ood_walk_readonly : forall fuel runid w c f mx seen v w' c' evs,
  is_dirty fuel runid w c f mx seen = Ret (v, w', c', evs) -> fs w' = fs w.
Proof. exact is_dirty_fs. Qed.
Check C17_ood_walk_readonly : forall fuel runid w c f mx seen v w' c' evs,
  is_dirty fuel runid w c f mx seen = Ret (v, w', c', evs) -> fs w' = fs w.
Print Assumptions C17_ood_walk_readonly.

Example C17_example :
  let sc := {| s_deps := [[115]]; s_ifcreate := []; s_always := false; s_stamp := false;
               s_out := OStdout; s_payload := 9; s_cat := true; s_exit := 0%Z; s_tol := false |} in
  let h := [SWrite [115] [1]; SWriteDo [116;46;100;111] sc; SCmd (CIfChange false [[116]]); SCmd COod;
            SWrite [115] [2]; SCmd COod; SCmd CTargets; SCmd CSources] in
  map (fun x => match snd x with Some (OutList l) => Some l | _ => None end) (run_history h (init_world 0))
  = [None; None; None; Some []; None; Some [[116]]; Some [[116]]; Some [[115]; [116;46;100;111]]].
Proof. vm_compute. reflexivity. Qed.
