(* C17 -- redo-ood/targets/sources are safe over-approximations and change
   nothing (the read-only and partition parts are proved; the two bounds on
   redo-ood are checked against the implementation, see DESIGN.md). *)
From Coq Require Import ZArith List.
From Redo Require Import Base.Bytes Build.Model Build.LocalProofs Build.OodAgree Build.CleanProofs.

(* none of the three alters anything but the run-id counter: files, rows and
   dependency records are exactly as before *)
Theorem C17_readonly : forall c w,
  (c = COod \/ c = CTargets \/ c = CSources) ->
  fs (fst (exec c w)) = fs w /\ rows (dbs (fst (exec c w))) = rows (dbs w)
  /\ deps (dbs (fst (exec c w))) = deps (dbs w) /\ clock (fst (exec c w)) = clock w.
Proof. exact query_readonly. Qed.
Check C17_readonly : forall c w,
  (c = COod \/ c = CTargets \/ c = CSources) ->
  fs (fst (exec c w)) = fs w /\ rows (dbs (fst (exec c w))) = rows (dbs w)
  /\ deps (dbs (fst (exec c w))) = deps (dbs w) /\ clock (fst (exec c w)) = clock w.
Print Assumptions C17_readonly.

Theorem C17_disjoint : forall runid w r, is_target runid w r = true -> is_source runid w r = false.
Proof. exact target_source_disjoint. Qed.
Check C17_disjoint : forall runid w r, is_target runid w r = true -> is_source runid w r = false.
Print Assumptions C17_disjoint.

(* what is in neither list: special names and files that are missing on disk *)
Theorem C17_cover : forall runid w r,
  is_target runid w r = false -> is_source runid w r = false ->
  is_prefix [slash; slash] (r_name r) = true
  \/ stamp_eqb (read_stamp w (r_name r)) SMissing = true
  \/ (r_gen r = false /\ False).
Proof. exact neither_target_nor_source. Qed.
Check C17_cover : forall runid w r,
  is_target runid w r = false -> is_source runid w r = false ->
  is_prefix [slash; slash] (r_name r) = true
  \/ stamp_eqb (read_stamp w (r_name r)) SMissing = true
  \/ (r_gen r = false /\ False).
Print Assumptions C17_cover.

(* ---------------------------------------------------------------- "redo-ood lists every target a following redo-ifchange would rebuild"
   redo-ood decides with the same dirtiness walk as the builder, but remembers
   "verified in this run" in a set in memory where the builder writes
   checked_runid to the database -- and the builder judges COPIES of dependency
   rows taken when a walk starts, so it may walk again a row that an earlier
   sibling has verified while redo-ood answers from its set (the two walks are
   not in lock step).  [check_db] / [check_mem] run the two walks over a list of
   targets the way the builder and redo-ood do.  From one state at the start of
   a run (no row verified in it, the targets not built in it, no generated file
   missing, positive file ids): whenever both return, they return the same
   verdicts -- for every database, file system, list of targets and fuel.
   Proof (Build/OodAgree.v): a simulation with the invariant that every row in
   redo-ood's set is "settled" (its stamp matches, every dependency is itself
   in the set and not newer), so that a second walk of it by the builder ends
   clean one level down. *)
Theorem C17_ood_agrees_with_builder : forall runid w fuel fs vds vms,
  (0 < runid)%Z -> fresh_run runid w -> none_missing runid w -> ids_positive w ->
  Forall (fun f => (1 <= f)%nat /\ is_changed runid (load runid (dbs w) f) = false) fs ->
  check_db runid fuel fs w = Some vds -> check_mem runid w fuel fs (ChkMem []) = Some vms -> vds = vms.
Proof. exact ood_agrees_with_builder. Qed.
Check C17_ood_agrees_with_builder : forall runid w fuel fs vds vms,
  (0 < runid)%Z ->
  (forall g, (1 <= g)%nat -> is_checked runid (load runid (dbs w) g) = false) ->
  (forall g, r_gen (load runid (dbs w) g) = true ->
             stamp_eqb (read_stamp w (r_name (load runid (dbs w) g))) SMissing = false) ->
  (forall d, In d (deps (dbs w)) -> (1 <= d_source d)%nat) ->
  Forall (fun f => (1 <= f)%nat /\ is_changed runid (load runid (dbs w) f) = false) fs ->
  check_db runid fuel fs w = Some vds -> check_mem runid w fuel fs (ChkMem []) = Some vms -> vds = vms.
Print Assumptions C17_ood_agrees_with_builder.

(* non-vacuity: after a build, a source edit and the allocation of the next run
   id the premises hold, and both walks return the same non-trivial verdicts
   for the two targets (t depends on s; u does not) *)
Example C17_agreement_example :
  let mk deps p := {| s_deps := deps; s_ifcreate := []; s_always := false; s_stamp := false;
                      s_out := OStdout; s_payload := p; s_cat := true; s_exit := 0%Z; s_tol := false |} in
  let s := [115%N] in let t := [116%N] in let u := [117%N] in let z := [122%N] in
  let h := [SWrite s [1%N]; SWrite z [1%N]; SWriteDo (t ++ b_do) (mk [s] 9%N); SWriteDo (u ++ b_do) (mk [z] 8%N);
            SCmd (CIfChange false [t; u]); SWrite s [2%N]] in
  let w1 := fst (last (run_history h (init_world 0)) (init_world 0, None)) in
  let '(w2, runid) := new_run w1 in
  fresh_run_b runid w2 = true /\ none_missing_b runid w2 = true /\ ids_positive_b w2 = true /\ (0 <? runid)%Z = true
  /\ match find_row (rows (dbs w2)) t 1, find_row (rows (dbs w2)) u 1 with
     | Some ft, Some fu =>
         check_db runid 50 [ft; fu] w2 = Some [VDirty; VClean]
         /\ check_mem runid w2 50 [ft; fu] (ChkMem []) = Some [VDirty; VClean]
     | _, _ => False end.
Proof. vm_compute. repeat split; reflexivity. Qed.

(* the dirtiness walk used by redo-ood never touches a file *)
Theorem C17_ood_walk_readonly : forall fuel runid w c f r mx seen v w' c' evs,
  is_dirty fuel runid nil w c f r mx seen = Ret (v, w', c', evs) -> fs w' = fs w.
Proof. intros fuel runid. exact (is_dirty_fs fuel runid nil). Qed.
Check C17_ood_walk_readonly : forall fuel runid w c f r mx seen v w' c' evs,
  is_dirty fuel runid nil w c f r mx seen = Ret (v, w', c', evs) -> fs w' = fs w.
Print Assumptions C17_ood_walk_readonly.

Example C17_example :
  let sc := {| s_deps := [[115]]; s_ifcreate := []; s_always := false; s_stamp := false;
               s_out := OStdout; s_payload := 9; s_cat := true; s_exit := 0%Z; s_tol := false |} in
  let h := [SWrite [115] [1]; SWriteDo [116;46;100;111] sc; SCmd (CIfChange false [[116]]); SCmd COod;
            SWrite [115] [2]; SCmd COod; SCmd CTargets; SCmd CSources] in
  map (fun x => match snd x with Some (OutList l) => Some l | _ => None end) (run_history h (init_world 0))
  = [None; None; None; Some []; None; Some [[116]]; Some [[116]]; Some [[115]; [116;46;100;111]]].
Proof. vm_compute. reflexivity. Qed.

(* "lists nothing right after a successful full build": redo-ood's walk answers CLEAN for every member of
   a quiet set of rows and writes nothing *)
Theorem C17_lists_nothing_when_quiet : forall runid w rk S fuel g l,
  forallb (quiet_row_b runid w rk S) S = true -> In g S -> (rk g < fuel)%nat ->
  (forall chg, r_changed (ld runid w g) = Some chg -> (chg <= runid)%Z) ->
  exists l' evs, is_dirty fuel runid nil w (ChkMem l) g (ld runid w g) runid nil = Ret (VClean, w, ChkMem l', evs).
Proof. exact quiet_b_all_clean. Qed.
Check C17_lists_nothing_when_quiet : forall runid w rk S fuel g l,
  forallb (quiet_row_b runid w rk S) S = true -> In g S -> (rk g < fuel)%nat ->
  (forall chg, r_changed (ld runid w g) = Some chg -> (chg <= runid)%Z) ->
  exists l' evs, is_dirty fuel runid nil w (ChkMem l) g (ld runid w g) runid nil = Ret (VClean, w, ChkMem l', evs).
Print Assumptions C17_lists_nothing_when_quiet.
