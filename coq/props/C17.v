(* C17 -- redo-ood/targets/sources are safe over-approximations and change
   nothing (the read-only and partition parts are proved; the two bounds on
   redo-ood are checked against the implementation, see DESIGN.md). *)
From Coq Require Import ZArith.
From Redo Require Import Base.Bytes Build.Model Build.LocalProofs.

(* none of the three alters anything but the run-id counter: files, rows and
   dependency records are exactly as before *)
Theorem C17_readonly : forall c w,
  (c = COod \/ c = CTargets \/ c = CSources) ->
  fs (fst (exec c w)) = fs w /\ rows (dbs (fst (exec c w))) = rows (dbs w)
  /\ deps (dbs (fst (exec c w))) = deps (dbs w) /\ clock (fst (exec c w)) = clock w.
Proof. exact query_readonly. Qed.
Check C17_readonly : forall c w,
  (c = COod \/ c = CTargets \/ c = CSources) ->
  fs (fst (exec c w)) = fs w /\ rows (dbs (fst (exec c w))) = rows (dbs w)
  /\ deps (dbs (fst (exec c w))) = deps (dbs w) /\ clock (fst (exec c w)) = clock w.
Print Assumptions C17_readonly.

Theorem C17_disjoint : forall runid w r, is_target runid w r = true -> is_source runid w r = false.
Proof. exact target_source_disjoint. Qed.
Check C17_disjoint : forall runid w r, is_target runid w r = true -> is_source runid w r = false.
Print Assumptions C17_disjoint.

(* what is in neither list: special names and files that are missing on disk *)
Theorem C17_cover : forall runid w r,
  is_target runid w r = false -> is_source runid w r = false ->
  is_prefix [slash; slash] (r_name r) = true
  \/ stamp_eqb (read_stamp w (r_name r)) SMissing = true
  \/ (r_gen r = false /\ False).
Proof. exact neither_target_nor_source. Qed.
Check C17_cover : forall runid w r,
  is_target runid w r = false -> is_source runid w r = false ->
  is_prefix [slash; slash] (r_name r) = true
  \/ stamp_eqb (read_stamp w (r_name r)) SMissing = true
  \/ (r_gen r = false /\ False).
Print Assumptions C17_cover.

(* the dirtiness walk used by redo-ood never touches a file *)
Theorem C17_ood_walk_readonly : forall fuel runid w c f r mx seen v w' c' evs,
  is_dirty fuel runid w c f r mx seen = Ret (v, w', c', evs) -> fs w' = fs w.
Proof. exact is_dirty_fs. Qed.
Check C17_ood_walk_readonly : forall fuel runid w c f r mx seen v w' c' evs,
  is_dirty fuel runid w c f r mx seen = Ret (v, w', c', evs) -> fs w' = fs w.
Print Assumptions C17_ood_walk_readonly.

Example C17_example :
  let sc := {| s_deps := [[115]]; s_ifcreate := []; s_always := false; s_stamp := false;
               s_out := OStdout; s_payload := 9; s_cat := true; s_exit := 0%Z; s_tol := false |} in
  let h := [SWrite [115] [1]; SWriteDo [116;46;100;111] sc; SCmd (CIfChange false [[116]]); SCmd COod;
            SWrite [115] [2]; SCmd COod; SCmd CTargets; SCmd CSources] in
  map (fun x => match snd x with Some (OutList l) => Some l | _ => None end) (run_history h (init_world 0))
  = [None; None; None; Some []; None; Some [[116]]; Some [[116]]; Some [[115]; [116;46;100;111]]].
Proof. vm_compute. reflexivity. Qed.
