(* C08 -- Job tokens are conserved and -j is respected.
   The token system as reported event by event by the (hooked) implementation:
   every event the model accepts leaves the quantity
        Q = T - C + sum(my - cheats) + J - L
   unchanged, for every interleaving of any number of processes. *)
From Coq Require Import ZArith List.
From Redo Require Import Tokens.Model Tokens.Proofs Tokens.Cheats.
Import ListNotations.
Open Scope Z_scope.

Theorem C08_conservation : forall (es : list ev) (s s' : gs), run es s = Some s' -> Q s' = Q s.
Proof. exact run_conserves. Qed.
Check C08_conservation : forall (es : list ev) (s s' : gs), run es s = Some s' -> Q s' = Q s.
Print Assumptions C08_conservation.

Theorem C08_initial : forall pid n, Q (init pid n) = n.
Proof. exact Q_init. Qed.
Check C08_initial : forall pid n, Q (init pid n) = n.
Print Assumptions C08_initial.

(* no book or pipe ever goes negative (so no assertion on them can fail) *)
Theorem C08_nonneg : forall (es : list ev) (s s' : gs), ok s -> run es s = Some s' -> ok s'.
Proof. exact run_ok. Qed.
Check C08_nonneg : forall (es : list ev) (s s' : gs), ok s -> run es s = Some s' -> ok s'.
Print Assumptions C08_nonneg.

(* -j is respected: jobs holding a token and not blocked inside a nested redo
   never exceed n plus the cheats outstanding (granted only to the job the log
   viewer follows) *)
Theorem C08_bound : forall es pid n s,
  1 <= n -> run es (init pid n) = Some s -> J s - L s <= n + C s + cheats_out (procs s).
Proof. exact bound. Qed.
Check C08_bound : forall es pid n s,
  1 <= n -> run es (init pid n) = Some s -> J s - L s <= n + C s + cheats_out (procs s).
Print Assumptions C08_bound.

(* without log capture no cheat is ever granted: -j is respected exactly *)
Theorem C08_bound_without_cheats : forall es pid n s,
  1 <= n -> cheat_free es = true -> run es (init pid n) = Some s -> J s - L s <= n.
Proof. exact bound_without_cheats. Qed.
Check C08_bound_without_cheats : forall es pid n s,
  1 <= n -> cheat_free es = true -> run es (init pid n) = Some s -> J s - L s <= n.
Print Assumptions C08_bound_without_cheats.

(* Known finding F50.  With log capture the property's "plus at most one extra"
   is FALSE of the faithful model: C08_bound has C s (cheat bytes parked in the
   pipe by processes that have ended) on its right-hand side and that term is
   not bounded by one.  Witness: -j2, four scripts at work; the same shape is
   run on the binaries by checks/c08.py (laundering_run) and scenarios/hb/3. *)
Theorem C08_one_extra_refuted :
  exists es s, run es (init 1 2) = Some s /\ J s - L s = 2 + 2.
Proof. exact one_extra_refuted. Qed.
Check C08_one_extra_refuted : exists es s, run es (init 1 2) = Some s /\ J s - L s = 2 + 2.
Print Assumptions C08_one_extra_refuted.

(* when everything has ended the top level finds exactly its n tokens: the
   "expected n tokens" self-test cannot fail *)
Theorem C08_selftest_passes : forall es pid n s p,
  run es (init pid n) = Some s -> procs s = [(pid, p)] -> J s = 0 -> L s = 0 ->
  T s - C s + (my p - ch p) = n.
Proof. exact selftest_passes. Qed.
Check C08_selftest_passes : forall es pid n s p,
  run es (init pid n) = Some s -> procs s = [(pid, p)] -> J s = 0 -> L s = 0 ->
  T s - C s + (my p - ch p) = n.
Print Assumptions C08_selftest_passes.

(* Finding F7 (fixed in /repo): a nested redo that ended holding no token.  The
   model refuses that event -- it is exactly the transition that would add a
   token (Q + 1).  The trace below is the shape seen on the pinned tree: the
   nested process 2 starts a job, a cheat byte written by a deeper process is
   eaten when that job is reaped, and 2 ends with my = 0. *)
Example C08_tokenless_exit_rejected :
  let s0 := {| T := 0; C := 1; procs := [(2, {| my := 1; ch := 0 |}); (1, {| my := 0; ch := 0 |})];
               J := 1; L := 1 |} in
  run [EStart 2; EReapEat 2] s0 <> None /\ run [EStart 2; EReapEat 2; EExit 2] s0 = None
  /\ run [EStart 2; EReapEat 2; ERelease 1 0; ECheat 2; EExit 2] s0 <> None.
Proof. vm_compute. repeat split; discriminate. Qed.

(* non-vacuity: a -j2 build with one nested redo, accepted, Q stays 2 *)
Example C08_example :
  match run [EStart 1; EBegin 2; EStart 2; ERead 2; EStart 2; EReapCreate 2; ERelease 2 0; ERelease 2 1;
             EReapCreate 2; ERelease 2 0; EExit 2; EReapCreate 1; ERelease 1 0; ERelease 1 1; ESelfTest 1]
            (init 1 2) with
  | Some s => Q s = 2 /\ T s = 2 /\ J s = 0 /\ L s = 0
  | None => False
  end.
Proof. vm_compute. repeat split. Qed.

(* the order of steps the token-book model assumes (no second cheat while in debt,
   fix F81; a job's pipe is made before its token is destroyed, fix F72), read
   off the current source by tools/anchors.py *)
From Redo Require Anchors Sched.ProtocolTie.
Theorem C08_token_book_tied_to_source : forallb snd Anchors.protocol_facts = true.
Proof. exact Sched.ProtocolTie.protocol_facts_hold. Qed.
Check C08_token_book_tied_to_source : forallb snd Anchors.protocol_facts = true.
Print Assumptions C08_token_book_tied_to_source.
