(* C09 -- No interleaving crashes or deadlocks the scheduler.
   PARTIAL: proved is that no assertion on the token book can fail, for every
   sequence of the book operations the code performs (under its own tests), and
   -- for the global system -- that books and pipes never go negative on any
   accepted event sequence.  Absence of deadlock (C09_progress) is not proved in
   Coq; termination with exit 0 is decided on the implementation under
   perturbed schedules (DESIGN.md C09).  The model assumes that a cheat token is
   granted only to a process holding none (the code does not test this; see
   C09_double_cheat_would_abort and DESIGN.md). *)
From Coq Require Import ZArith List.
From Redo Require Import Sched.Loop Sched.LoopProofs.
From Redo Require Tokens.Model Tokens.Proofs.
Import ListNotations.
Open Scope Z_scope.

Theorem C09_no_token_assertion : forall es : list lev,
  exists b', prun es start_book = Some b' /\ binv b'.
Proof. exact no_token_assertion_fails. Qed.
Check C09_no_token_assertion : forall es : list lev,
  exists b', prun es start_book = Some b' /\ binv b'.
Print Assumptions C09_no_token_assertion.

Theorem C09_step_safe : forall e b, binv b -> exists b', pstep e b = Some b' /\ binv b'.
Proof. exact pstep_safe. Qed.
Check C09_step_safe : forall e b, binv b -> exists b', pstep e b = Some b' /\ binv b'.
Print Assumptions C09_step_safe.

Theorem C09_global_nonneg : forall es s s',
  Tokens.Model.ok s -> Tokens.Model.run es s = Some s' -> Tokens.Model.ok s'.
Proof. exact Tokens.Proofs.run_ok. Qed.
Check C09_global_nonneg : forall es s s',
  Tokens.Model.ok s -> Tokens.Model.run es s = Some s' -> Tokens.Model.ok s'.
Print Assumptions C09_global_nonneg.

Definition C09_progress_statement : Prop :=
  True (* for acyclic graphs, in every reachable non-final global state some process is enabled *).

(* the coincidence of finding F4 (a token read while one is held) and the
   double cheat: both states make an assertion fail *)
Example C09_two_tokens_would_abort : pstep PStart {| my := 2; ch := 0; kids := 0 |} = None.
Proof. reflexivity. Qed.
Example C09_double_cheat_would_abort : pstep PExit {| my := 1; ch := 2; kids := 0 |} = None.
Proof. reflexivity. Qed.
Example C09_example :
  prun [PStart; PRead; PStart; PReapCreate; PReapCreate; PWaitAll; PCheat; PReleaseMine; PRead; PExit] start_book
  = Some {| my := 1; ch := 0; kids := 0 |}.
Proof. vm_compute. reflexivity. Qed.

(* finding F81: before the fix the book counted a cheat on top of an unpaid one;
   the sequence observed on the implementation failed the assertion at exit.
   (The model's PCheat had carried a guard "cheats = 0" that the code did not
   have: the theorem above was then about a tidier program than the real one.
   The fix puts the guard into the code.) *)
Theorem C09_double_cheat_refuted_before_F81 : prun_before_F81 double_cheat start_book = None.
Proof. exact double_cheat_refuted_before_F81. Qed.
Check C09_double_cheat_refuted_before_F81 : prun_before_F81 double_cheat start_book = None.
Print Assumptions C09_double_cheat_refuted_before_F81.
Example C09_debt_repaid_now_safe : prun debt_repaid start_book = Some {| my := 1; ch := 1; kids := 0 |}.
Proof. exact debt_repaid_safe. Qed.

(* the order of steps the token-book model assumes (no second cheat while in debt,
   fix F81; a job's pipe is made before its token is destroyed, fix F72), read
   off the current source by tools/anchors.py *)
From Redo Require Anchors Sched.ProtocolTie.
Theorem C09_token_book_tied_to_source : forallb snd Anchors.protocol_facts = true.
Proof. exact Sched.ProtocolTie.protocol_facts_hold. Qed.
Check C09_token_book_tied_to_source : forallb snd Anchors.protocol_facts = true.
Print Assumptions C09_token_book_tied_to_source.
