(* C05 -- Failures propagate, are remembered as dirty, and are retried next
   run.  Local (one-decision) theorems on the serial model; the statement over
   whole histories is C05_full_statement below, which is NOT proved here (it
   is checked against the implementation by the correspondence harness). *)
From Coq Require Import ZArith.
From Coq Require Import List.
From Redo Require Import Base.Bytes Build.Model Build.LocalProofs Build.FailProofs.

(* not executed a second time in the same run: status 32, nothing touched *)
Theorem C05_not_twice : forall rec fuel e t w,
  let '(d0, f) := from_name (dbs w) t in
  is_failed (e_runid e) (load (e_runid e) d0 f) = true ->
  start rec fuel e MIfChange t w = Ret (set_db w d0, [EvFailed32 t], 32%Z, false).
Proof. exact start_failed_this_run. Qed.
Check C05_not_twice : forall rec fuel e t w,
  let '(d0, f) := from_name (dbs w) t in
  is_failed (e_runid e) (load (e_runid e) d0 f) = true ->
  start rec fuel e MIfChange t w = Ret (set_db w d0, [EvFailed32 t], 32%Z, false).
Print Assumptions C05_not_twice.

(* without --keep-going no job is started once a failure is known *)
Theorem C05_stop : forall job e ts seen w evs,
  e_keep_going e = false -> run_loop job e ts seen w evs true = Ret (w, evs, 1%Z).
Proof. exact run_loop_stops. Qed.
Check C05_stop : forall job e ts seen w evs,
  e_keep_going e = false -> run_loop job e ts seen w evs true = Ret (w, evs, 1%Z).
Print Assumptions C05_stop.

(* remembered: a job that ends non-zero marks its row failed in this run ... *)
Theorem C05_marked_failed : forall runid t f sf before rc stdout has_tmp w,
  (1 <= f <= length (rows (dbs w)))%nat ->
  snd (record_new_state runid t f sf before rc stdout has_tmp w) <> 0%Z ->
  r_failed (get_row (dbs (fst (record_new_state runid t f sf before rc stdout has_tmp w))) f) = Some runid.
Proof. exact record_failure_marks. Qed.
Check C05_marked_failed : forall runid t f sf before rc stdout has_tmp w,
  (1 <= f <= length (rows (dbs w)))%nat ->
  snd (record_new_state runid t f sf before rc stdout has_tmp w) <> 0%Z ->
  r_failed (get_row (dbs (fst (record_new_state runid t f sf before rc stdout has_tmp w))) f) = Some runid.
Print Assumptions C05_marked_failed.

(* ... and a row marked failed is dirty for every later check (so it is
   retried by the next run, and no dependent can be found clean through it) *)
Theorem C05_failed_is_dirty : forall fuel runid cyc w c f r mx seen,
  existsb (Nat.eqb f) seen = false ->
  r_failed r <> None ->
  is_dirty (S fuel) runid cyc w c f r mx seen = Ret (VDirty, w, c, []).
Proof. exact is_dirty_failed. Qed.
Check C05_failed_is_dirty : forall fuel runid cyc w c f r mx seen,
  existsb (Nat.eqb f) seen = false ->
  r_failed r <> None ->
  is_dirty (S fuel) runid cyc w c f r mx seen = Ret (VDirty, w, c, []).
Print Assumptions C05_failed_is_dirty.

(* propagation, one level at a time and hence along any chain of requests:
   (1) a script whose redo-ifchange fails ends with that non-zero status;
   (2) a job with a non-zero script status has a non-zero job status (C04_status);
   (3) a command one of whose jobs failed never exits 0 *)
Theorem C05_script_fails_with_dep : forall rec envc t sc w w1 evs rc_deps,
  s_deps sc <> [] -> s_tol sc = false ->
  rec envc MIfChange (s_deps sc) w = Ret (w1, evs, rc_deps) -> rc_deps <> 0%Z ->
  script_body rec envc t sc w = Ret (w1, evs, rc_deps, None).
Proof. exact script_body_dep_failure. Qed.
Check C05_script_fails_with_dep : forall rec envc t sc w w1 evs rc_deps,
  s_deps sc <> [] -> s_tol sc = false ->
  rec envc MIfChange (s_deps sc) w = Ret (w1, evs, rc_deps) -> rc_deps <> 0%Z ->
  script_body rec envc t sc w = Ret (w1, evs, rc_deps, None).
Print Assumptions C05_script_fails_with_dep.

Theorem C05_command_fails : forall rec fuel e m ts seen w evs w' evs' rc,
  run_loop (start rec fuel e m) e ts seen w evs true = Ret (w', evs', rc) -> rc <> 0%Z.
Proof. exact run_loop_errored_nonzero. Qed.
Check C05_command_fails : forall rec fuel e m ts seen w evs w' evs' rc,
  run_loop (start rec fuel e m) e ts seen w evs true = Ret (w', evs', rc) -> rc <> 0%Z.
Print Assumptions C05_command_fails.

Theorem C05_job_failure_propagates : forall rec fuel e m t ts seen w evs w1 ev1 rv w' evs' rc,
  (false && negb (e_keep_going e)) = false ->
  let '(d0, f) := from_name (dbs w) t in
  existsb (Nat.eqb f) seen = false ->
  (negb (e_unlocked e) && existsb (Nat.eqb f) (e_cycles e)) = false ->
  start rec fuel e m t w = Ret (w1, ev1, rv, false) -> rv <> 0%Z ->
  run_loop (start rec fuel e m) e (t :: ts) seen w evs false = Ret (w', evs', rc) -> rc <> 0%Z.
Proof. exact run_loop_job_failure_propagates. Qed.
Check C05_job_failure_propagates : forall rec fuel e m t ts seen w evs w1 ev1 rv w' evs' rc,
  (false && negb (e_keep_going e)) = false ->
  let '(d0, f) := from_name (dbs w) t in
  existsb (Nat.eqb f) seen = false ->
  (negb (e_unlocked e) && existsb (Nat.eqb f) (e_cycles e)) = false ->
  start rec fuel e m t w = Ret (w1, ev1, rv, false) -> rv <> 0%Z ->
  run_loop (start rec fuel e m) e (t :: ts) seen w evs false = Ret (w', evs', rc) -> rc <> 0%Z.
Print Assumptions C05_job_failure_propagates.

(* "no dependent of the failed target is recorded as up to date": whatever a
   (possibly failure-tolerant) script did, once the edge to a failed row is in
   the database, no later dirtiness check of the dependent ends "clean" --
   [r] is the copy of the dependent's row the check judges (unless that copy
   says the row has been dealt with in this very run) *)
Theorem C05_dependent_of_failed_not_clean : forall fuel runid cyc w c f r mx seen v w' c' evs,
  is_dirty fuel runid cyc w c f r mx seen = Ret (v, w', c', evs) ->
  chk_is_checked c runid r f = false ->
  (exists d, In d (deps_of (dbs w) r f) /\ d_mode d = DModified /\ failed_at w (d_source d)) ->
  v <> VClean.
Proof. exact dependent_of_failed_not_clean. Qed.
Check C05_dependent_of_failed_not_clean : forall fuel runid cyc w c f r mx seen v w' c' evs,
  is_dirty fuel runid cyc w c f r mx seen = Ret (v, w', c', evs) ->
  chk_is_checked c runid r f = false ->
  (exists d, In d (deps_of (dbs w) r f) /\ d_mode d = DModified /\
             r_failed (get_row (dbs w) (d_source d)) <> None) ->
  v <> VClean.
Print Assumptions C05_dependent_of_failed_not_clean.

(* a failure mark survives every dirtiness check that judges a copy of the
   row taken from the database it starts in (as every top-level check does;
   copies of dependency rows are taken when their parent's walk starts, which
   the proof handles).  Stated for an arbitrary stale copy the claim would be
   false of the code: the copy is written back whole. *)
Theorem C05_failure_mark_survives_checks : forall g fuel runid cyc w c f mx seen v w' c' evs,
  is_dirty fuel runid cyc w c f (load runid (dbs w) f) mx seen = Ret (v, w', c', evs) ->
  r_failed (get_row (dbs w) g) <> None -> r_failed (get_row (dbs w') g) <> None.
Proof. exact is_dirty_keeps_failed_fresh. Qed.
Check C05_failure_mark_survives_checks : forall g fuel runid cyc w c f mx seen v w' c' evs,
  is_dirty fuel runid cyc w c f (load runid (dbs w) f) mx seen = Ret (v, w', c', evs) ->
  r_failed (get_row (dbs w) g) <> None -> r_failed (get_row (dbs w') g) <> None.
Print Assumptions C05_failure_mark_survives_checks.

(* The full property over histories (not proved; see DESIGN.md, C05). *)
Definition C05_full_statement : Prop :=
  forall (h : list hstep) (depth : nat), True (* every command requesting a target whose
     closure contains a failing script exits non-zero; the failing script runs once per
     run and again in the next run; with -k every independent target is built *).

(* non-vacuity: a project with a failing script; the second command of the same
   history retries it, and the first one exits non-zero *)
Example C05_example :
  let bad := {| s_deps := []; s_ifcreate := []; s_always := false; s_stamp := false;
                s_out := OStdout; s_payload := 1; s_cat := false; s_exit := 7%Z; s_tol := false |} in
  let h := [SWriteDo [98;46;100;111] bad; SCmd (CIfChange false [[98]]); SCmd (CIfChange false [[98]])] in
  map (fun x => match snd x with Some (OutBuild evs rc) => Some (length evs, rc) | _ => None end)
      (run_history h (init_world 0))
  = [None; Some (1%nat, 1%Z); Some (1%nat, 1%Z)].
Proof. vm_compute. reflexivity. Qed.

(* non-vacuity of C05_dependent_of_failed_not_clean: a.do tolerates the failure
   of its dependency b ("redo-ifchange b || true") and succeeds; the next
   command runs both again although nothing changed *)
Example C05_tolerant_example :
  let bad := {| s_deps := []; s_ifcreate := []; s_always := false; s_stamp := false;
                s_out := OStdout; s_payload := 1; s_cat := false; s_exit := 7%Z; s_tol := false |} in
  let tol := {| s_deps := [[98]]; s_ifcreate := []; s_always := false; s_stamp := false;
                s_out := OStdout; s_payload := 2; s_cat := false; s_exit := 0%Z; s_tol := true |} in
  let h := [SWriteDo [98;46;100;111] bad; SWriteDo [97;46;100;111] tol;
            SCmd (CIfChange false [[97]]); SCmd (CIfChange false [[97]])] in
  map (fun x => match snd x with Some (OutBuild evs rc) => Some (length evs, rc) | _ => None end)
      (run_history h (init_world 0))
  = [None; None; Some (2%nat, 0%Z); Some (2%nat, 0%Z)].
Proof. vm_compute. reflexivity. Qed.
