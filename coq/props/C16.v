(* C16 -- Concurrent commands on one project do not fail spuriously or lose
   state.  Theorems are relative to the SQLite abstraction Sqlite/Wal.v (which
   is validated against the real library on every run) and to the transaction
   sites regenerated from the current source (Anchors.v). *)
From Coq Require Import List Bool String.
From Redo Require Import Sqlite.Wal Sqlite.WalProofs Sqlite.Sites Anchors.
Import ListNotations.

(* the rule: transactions that begin IMMEDIATE or never write after a read
   never see SQLITE_BUSY, for any number of connections and any interleaving *)
Theorem C16_no_busy : forall (ps : list prog) (sched : list nat),
  forallb prog_ok ps = true -> run ps sched (init ps) <> None.
Proof. exact no_busy. Qed.
Check C16_no_busy : forall (ps : list prog) (sched : list nat),
  forallb prog_ok ps = true -> run ps sched (init ps) <> None.
Print Assumptions C16_no_busy.

(* the code as it is now obeys the rule at every transaction site *)
Theorem C16_sites_ok : forallb (fun s => prog_ok (snd s)) sites = true.
Proof. exact sites_ok. Qed.
Check C16_sites_ok : forallb (fun s => prog_ok (snd s)) sites = true.
Print Assumptions C16_sites_ok.

Theorem C16_code_no_busy : forall (choice sched : list nat),
  let ps := map (fun k => snd (nth k sites (EmptyString, {| pmode := Immediate; pops := [] |}))) choice in
  run ps sched (init ps) <> None.
Proof. exact code_sites_no_busy. Qed.
Check C16_code_no_busy : forall (choice sched : list nat),
  let ps := map (fun k => snd (nth k sites (EmptyString, {| pmode := Immediate; pops := [] |}))) choice in
  run ps sched (init ps) <> None.
Print Assumptions C16_code_no_busy.

(* the rule is necessary: a deferred read-then-write transaction beside one
   writer fails (findings F10a and F16, both fixed) *)
Example C16_deferred_upgrade_refuted :
  let bad := {| pmode := Deferred; pops := [ORead; OWrite] |} in
  let wr := {| pmode := Immediate; pops := [OWrite] |} in
  run [bad; wr] [0; 0; 1; 1; 1; 0] (init [bad; wr]) = None.
Proof. exact deferred_read_then_write_busy. Qed.

(* the one statement outside any transaction that SQLite refuses at once when
   another connection holds a lock (the change of journal mode at connect
   time) is retried by the CURRENT source (read from /repo by tools/anchors.py) *)
Theorem C16_busy_immediate_retried : forallb snd busy_immediate = true.
Proof. exact busy_immediate_retried. Qed.
Check C16_busy_immediate_retried : forallb snd busy_immediate = true.
Print Assumptions C16_busy_immediate_retried.
