(* C06 -- At most one .do runs for a given target at any time.
   The lock/job protocol as a transition system over the events the hooked
   implementation reports; theorems hold for every accepted trace, i.e. every
   interleaving of any number of processes. *)
From Coq Require Import ZArith List.
From Redo Require Import Sched.Locks Sched.LocksProofs.
Import ListNotations.
Open Scope Z_scope.

Theorem C06_mutex : forall es s,
  lrun es empty = Some s ->
  (forall f p q, In (f, p) (running s) -> In (f, q) (running s) -> p = q)
  /\ (forall f p, In (f, p) (running s) -> exists q, In (f, q) (holder s)).
Proof. exact mutual_exclusion. Qed.
Check C06_mutex : forall es s,
  lrun es empty = Some s ->
  (forall f p q, In (f, p) (running s) -> In (f, q) (running s) -> p = q)
  /\ (forall f p, In (f, p) (running s) -> exists q, In (f, q) (holder s)).
Print Assumptions C06_mutex.

(* the result of an execution is recorded before the lock can be released *)
Theorem C06_recorded_before_release : forall p f s s',
  lapply (LRelease p f) s = Some s' ->
  has_key f (running s) = false \/ (holder s' = holder s /\ running s' = running s).
Proof. exact release_after_record. Qed.
Check C06_recorded_before_release : forall p f s s',
  lapply (LRelease p f) s = Some s' ->
  has_key f (running s) = false \/ (holder s' = holder s /\ running s' = running s).
Print Assumptions C06_recorded_before_release.

Theorem C06_invariant : forall es s s', inv s -> lrun es s = Some s' -> inv s'.
Proof. exact lrun_inv. Qed.
Check C06_invariant : forall es s s', inv s -> lrun es s = Some s' -> inv s'.
Print Assumptions C06_invariant.

(* non-vacuity: two processes contend for file 5; the loser waits; an early
   exit of the holder while its script runs is refused (finding F2, fixed) *)
Example C06_example :
  lrun [LAcquired 10 5; LJobStart 10 5; LBusy 11 5; LJobDone 10 5; LRelease 10 5;
        LAcquired 11 5; LRelease 11 5; LProcExit 10; LProcExit 11] empty <> None
  /\ lrun [LAcquired 10 5; LJobStart 10 5; LProcExit 10] empty = None
  /\ lrun [LAcquired 10 5; LJobStart 10 5; LAcquired 11 5] empty = None.
Proof. vm_compute. repeat split; discriminate. Qed.
