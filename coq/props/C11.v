(* C11 -- redo never overwrites or deletes files it did not produce. *)
From Coq Require Import ZArith.
From Redo Require Import Base.Bytes Build.Model Build.FsLemmas Build.RecordProofs Build.LocalProofs.

(* A job for a file that exists and is not redo's own -- never generated, or
   marked overridden, or no longer carrying the stamp redo recorded -- ends
   with status 0 and leaves EVERY file as it was, whatever rules match. *)
Theorem C11_user_file_untouched : forall rec e t f before w,
  exists_b w t = true ->
  let sf := load (e_runid e) (dbs w) f in
  (r_gen sf = false \/ r_ovr sf = true
   \/ match r_stamp sf with Some s => detect_override s (read_stamp w t) = true | None => True end) ->
  exists w' evs, start_self rec e t f before w = Ret (w', evs, 0%Z, false) /\ fs w' = fs w.
Proof. exact start_self_leaves_user_file. Qed.
Check C11_user_file_untouched : forall rec e t f before w,
  exists_b w t = true ->
  let sf := load (e_runid e) (dbs w) f in
  (r_gen sf = false \/ r_ovr sf = true
   \/ match r_stamp sf with Some s => detect_override s (read_stamp w t) = true | None => True end) ->
  exists w' evs, start_self rec e t f before w = Ret (w', evs, 0%Z, false) /\ fs w' = fs w.
Print Assumptions C11_user_file_untouched.

(* deciding whether something is dirty never touches a file *)
Theorem C11_check_readonly : forall fuel runid w c f mx seen v w' c' evs,
  is_dirty fuel runid w c f mx seen = Ret (v, w', c', evs) -> fs w' = fs w.
Proof. exact is_dirty_fs. Qed.
Check C11_check_readonly : forall fuel runid w c f mx seen v w' c' evs,
  is_dirty fuel runid w c f mx seen = Ret (v, w', c', evs) -> fs w' = fs w.
Print Assumptions C11_check_readonly.

(* finishing a job touches only the job's own target and its $3 *)
Theorem C11_record_only_own_target : forall runid t f sf before rc stdout has_tmp w m,
  m <> t -> m <> tmp_of t ->
  fs_get (fs (fst (record_new_state runid t f sf before rc stdout has_tmp w))) m = fs_get (fs w) m.
Proof. exact record_other_files. Qed.
Check C11_record_only_own_target : forall runid t f sf before rc stdout has_tmp w m,
  m <> t -> m <> tmp_of t ->
  fs_get (fs (fst (record_new_state runid t f sf before rc stdout has_tmp w))) m = fs_get (fs w) m.
Print Assumptions C11_record_only_own_target.

(* the query commands touch no file at all *)
Theorem C11_queries_readonly : forall c w,
  (c = COod \/ c = CTargets \/ c = CSources) ->
  fs (fst (exec c w)) = fs w /\ rows (dbs (fst (exec c w))) = rows (dbs w)
  /\ deps (dbs (fst (exec c w))) = deps (dbs w) /\ clock (fst (exec c w)) = clock w.
Proof. exact query_readonly. Qed.
Check C11_queries_readonly : forall c w,
  (c = COod \/ c = CTargets \/ c = CSources) ->
  fs (fst (exec c w)) = fs w /\ rows (dbs (fst (exec c w))) = rows (dbs w)
  /\ deps (dbs (fst (exec c w))) = deps (dbs w) /\ clock (fst (exec c w)) = clock w.
Print Assumptions C11_queries_readonly.

(* non-vacuity: a user file named like a target with a matching rule is kept,
   through redo and redo-ifchange, and rebuilt only after the user removes it *)
Example C11_example :
  let sc := {| s_deps := []; s_ifcreate := []; s_always := false; s_stamp := false;
               s_out := OStdout; s_payload := 9; s_cat := false; s_exit := 0%Z; s_tol := false |} in
  let t := [116] in
  let h := [SWriteDo [116;46;100;111] sc; SWrite t [5]; SCmd (CRedo false [t]); SCmd (CIfChange false [t]);
            SRemove t; SCmd (CIfChange false [t])] in
  map (fun x => option_map f_data (fs_get (fs (fst x)) t)) (run_history h (init_world 0))
  = [None; Some [5]; Some [5]; Some [5]; None; Some [9]].
Proof. vm_compute. reflexivity. Qed.
