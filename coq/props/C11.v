(* C11 -- redo never overwrites or deletes files it did not produce. *)
From Coq Require Import ZArith.
From Coq Require Import List.
From Redo Require Import Base.Bytes Build.Model Build.FsLemmas Build.RecordProofs Build.LocalProofs Build.Protect.

(* A job for a file that exists and is not redo's own -- never generated, or
   marked overridden, or no longer carrying the stamp redo recorded -- ends
   with status 0 and leaves EVERY file as it was, whatever rules match. *)
Theorem C11_user_file_untouched : forall rec e t f before w,
  exists_b w t = true ->
  let sf := load (e_runid e) (dbs w) f in
  (r_gen sf = false \/ r_ovr sf = true
   \/ match r_stamp sf with Some s => detect_override s (read_stamp w t) = true | None => True end) ->
  exists w' evs, start_self rec e t f before w = Ret (w', evs, 0%Z, false) /\ fs w' = fs w.
Proof. exact start_self_leaves_user_file. Qed.
Check C11_user_file_untouched : forall rec e t f before w,
  exists_b w t = true ->
  let sf := load (e_runid e) (dbs w) f in
  (r_gen sf = false \/ r_ovr sf = true
   \/ match r_stamp sf with Some s => detect_override s (read_stamp w t) = true | None => True end) ->
  exists w' evs, start_self rec e t f before w = Ret (w', evs, 0%Z, false) /\ fs w' = fs w.
Print Assumptions C11_user_file_untouched.

(* deciding whether something is dirty never touches a file *)
Theorem C11_check_readonly : forall fuel runid cyc w c f r mx seen v w' c' evs,
  is_dirty fuel runid cyc w c f r mx seen = Ret (v, w', c', evs) -> fs w' = fs w.
Proof. exact is_dirty_fs. Qed.
Check C11_check_readonly : forall fuel runid cyc w c f r mx seen v w' c' evs,
  is_dirty fuel runid cyc w c f r mx seen = Ret (v, w', c', evs) -> fs w' = fs w.
Print Assumptions C11_check_readonly.

(* finishing a job touches only the job's own target and its $3 *)
Theorem C11_record_only_own_target : forall runid t f sf before rc stdout has_tmp w m,
  m <> t -> m <> tmp_of t ->
  fs_get (fs (fst (record_new_state runid t f sf before rc stdout has_tmp w))) m = fs_get (fs w) m.
Proof. exact record_other_files. Qed.
Check C11_record_only_own_target : forall runid t f sf before rc stdout has_tmp w m,
  m <> t -> m <> tmp_of t ->
  fs_get (fs (fst (record_new_state runid t f sf before rc stdout has_tmp w))) m = fs_get (fs w) m.
Print Assumptions C11_record_only_own_target.

(* the query commands touch no file at all *)
Theorem C11_queries_readonly : forall c w,
  (c = COod \/ c = CTargets \/ c = CSources) ->
  fs (fst (exec c w)) = fs w /\ rows (dbs (fst (exec c w))) = rows (dbs w)
  /\ deps (dbs (fst (exec c w))) = deps (dbs w) /\ clock (fst (exec c w)) = clock w.
Proof. exact query_readonly. Qed.
Check C11_queries_readonly : forall c w,
  (c = COod \/ c = CTargets \/ c = CSources) ->
  fs (fst (exec c w)) = fs w /\ rows (dbs (fst (exec c w))) = rows (dbs w)
  /\ deps (dbs (fst (exec c w))) = deps (dbs w) /\ clock (fst (exec c w)) = clock w.
Print Assumptions C11_queries_readonly.

(* ---------------------------------------------------------------- the whole property on the model
   [protected w n]: n exists, is not in redo's reserved name space (names ending in .redo.tmp,
   //ALWAYS), and no database row claims it as redo's own (never generated, or
   overridden, or the recorded stamp is not the file's).
   Every build -- any project, any command line, any environment, any fuel --
   leaves every protected file byte-for-byte alone and protected. *)
Theorem C11_build_protects : forall fuel e m ts w w' evs rc n,
  build fuel e m ts w = Ret (w', evs, rc) ->
  protected w n -> fs_get (fs w') n = fs_get (fs w) n /\ protected w' n.
Proof. intros fuel e m ts w w' evs rc n H. exact (proj2 (build_STEP fuel e m ts w w' evs rc H) n). Qed.
Check C11_build_protects : forall fuel e m ts w w' evs rc n,
  build fuel e m ts w = Ret (w', evs, rc) ->
  (exists_b w n = true /\ reserved n = false /\
   forall i, find_row (rows (dbs w)) n 1 = Some i ->
     (negb (r_gen (get_row (dbs w) i)) || r_ovr (get_row (dbs w) i)
      || match r_stamp (get_row (dbs w) i) with Some s => detect_override s (read_stamp w n) | None => true end) = true) ->
  fs_get (fs w') n = fs_get (fs w) n /\ protected w' n.
Print Assumptions C11_build_protects.

(* ... and so does every history of commands and of user edits of OTHER files *)
Theorem C11_history_protects : forall n h w,
  protected w n -> Forall (step_spares n) h ->
  forall w' o, In (w', o) (run_history h w) -> fs_get (fs w') n = fs_get (fs w) n /\ protected w' n.
Proof. exact history_protects. Qed.
Check C11_history_protects : forall n h w,
  protected w n ->
  Forall (fun s => match s with SWrite m _ | SWriteDo m _ | SRemove m => m <> n | _ => True end) h ->
  forall w' o, In (w', o) (run_history h w) -> fs_get (fs w') n = fs_get (fs w) n /\ protected w' n.
Print Assumptions C11_history_protects.

(* a file the user writes is protected from then on (A-STAMP: the write takes a
   stamp no row has recorded for that name) *)
Theorem C11_user_write_protected : forall w n data sc,
  reserved n = false ->
  (forall i s, find_row (rows (dbs w)) n 1 = Some i -> r_stamp (get_row (dbs w) i) = Some s ->
     s <> SFile (clock w) (N.of_nat (length data))) ->
  protected (write_file w n data sc) n.
Proof. exact user_write_protected. Qed.
Check C11_user_write_protected : forall w n data sc,
  reserved n = false ->
  (forall i s, find_row (rows (dbs w)) n 1 = Some i -> r_stamp (get_row (dbs w) i) = Some s ->
     s <> SFile (clock w) (N.of_nat (length data))) ->
  protected (write_file w n data sc) n.
Print Assumptions C11_user_write_protected.

(* non-vacuity of the hypotheses: after redo has generated t and the user has
   overwritten it, t is protected (and the stamp premise of
   C11_user_write_protected holds at the moment of the write) *)
Example C11_protected_example :
  let sc := {| s_deps := []; s_ifcreate := []; s_always := false; s_stamp := false;
               s_out := OStdout; s_payload := 9; s_cat := false; s_exit := 0%Z; s_tol := false |} in
  let t := [116] in
  let w1 := fst (last (run_history [SWriteDo [116;46;100;111] sc; SCmd (CRedo false [t])] (init_world 0)) (init_world 0, None)) in
  let w2 := write_file w1 t [5] None in
  (match find_row (rows (dbs w1)) t 1 with
   | Some i => r_gen (get_row (dbs w1) i) = true
               /\ match r_stamp (get_row (dbs w1) i) with
                  | Some (SFile mt _) => N.ltb mt (clock w1) = true | _ => False end
   | None => False end)
  /\ exists_b w2 t = true /\ reserved t = false
  /\ match find_row (rows (dbs w2)) t 1 with
     | Some i => row_protects w2 t (get_row (dbs w2) i) = true
     | None => False end.
Proof. vm_compute. repeat split; reflexivity. Qed.

(* non-vacuity: a user file named like a target with a matching rule is kept,
   through redo and redo-ifchange, and rebuilt only after the user removes it *)
Example C11_example :
  let sc := {| s_deps := []; s_ifcreate := []; s_always := false; s_stamp := false;
               s_out := OStdout; s_payload := 9; s_cat := false; s_exit := 0%Z; s_tol := false |} in
  let t := [116] in
  let h := [SWriteDo [116;46;100;111] sc; SWrite t [5]; SCmd (CRedo false [t]); SCmd (CIfChange false [t]);
            SRemove t; SCmd (CIfChange false [t])] in
  map (fun x => option_map f_data (fs_get (fs (fst x)) t)) (run_history h (init_world 0))
  = [None; Some [5]; Some [5]; Some [5]; None; Some [9]].
Proof. vm_compute. reflexivity. Qed.
