(* C02 -- Rebuild set is exactly the set of targets whose inputs changed.
   PARTIAL (see C01.v for the reason): decision rules + facts about how the
   recorded dependency set is maintained. *)
From Coq Require Import ZArith List.
From Redo Require Import Base.Bytes Build.Model Build.LocalProofs Build.FailProofs Build.Protect Build.CleanProofs Build.CleanDb Build.Settle Build.SettleJob Build.Maxrun Build.SettleForever Build.SettleHistory.

Theorem C02_never_built_runs : forall fuel runid cyc w c f r mx seen,
  existsb (Nat.eqb f) seen = false ->
  r_changed r = None ->
  is_dirty (S fuel) runid cyc w c f r mx seen = Ret (VDirty, w, c, []).
Proof. exact is_dirty_never_built. Qed.
Check C02_never_built_runs : forall fuel runid cyc w c f r mx seen,
  existsb (Nat.eqb f) seen = false ->
  r_changed r = None ->
  is_dirty (S fuel) runid cyc w c f r mx seen = Ret (VDirty, w, c, []).
Print Assumptions C02_never_built_runs.

Theorem C02_failed_runs : forall fuel runid cyc w c f r mx seen,
  existsb (Nat.eqb f) seen = false ->
  r_failed r <> None ->
  is_dirty (S fuel) runid cyc w c f r mx seen = Ret (VDirty, w, c, []).
Proof. exact is_dirty_failed. Qed.
Check C02_failed_runs : forall fuel runid cyc w c f r mx seen,
  existsb (Nat.eqb f) seen = false ->
  r_failed r <> None ->
  is_dirty (S fuel) runid cyc w c f r mx seen = Ret (VDirty, w, c, []).
Print Assumptions C02_failed_runs.

(* over the whole walk: a recorded Modified dependency that failed, was never
   built, or changed in a later run than the one in which the target was last
   built or verified makes the target not clean -- wherever it stands in the
   dependency list and whatever the other rows say (every database, fuel,
   callback; [r] is the copy of the target's row that the check judges) *)
Theorem C02_moved_on_dep_not_clean : forall fuel runid cyc w c f r mx seen v w' c' evs chg,
  is_dirty fuel runid cyc w c f r mx seen = Ret (v, w', c', evs) ->
  chk_is_checked c runid r f = false ->
  r_changed r = Some chg ->
  (exists d, In d (deps_of (dbs w) r f) /\ d_mode d = DModified /\
     moved_on (Z.max chg match r_checked r with Some k => k | None => 0%Z end) (load runid (dbs w) (d_source d))) ->
  v <> VClean.
Proof. exact moved_on_dep_not_clean. Qed.
Check C02_moved_on_dep_not_clean : forall fuel runid cyc w c f r mx seen v w' c' evs chg,
  is_dirty fuel runid cyc w c f r mx seen = Ret (v, w', c', evs) ->
  chk_is_checked c runid r f = false ->
  r_changed r = Some chg ->
  (exists d, In d (deps_of (dbs w) r f) /\ d_mode d = DModified /\
     let rs := load runid (dbs w) (d_source d) in
     let sm := Z.max chg match r_checked r with Some k => k | None => 0%Z end in
     (r_failed rs <> None \/ r_changed rs = None \/ exists cg, r_changed rs = Some cg /\ (sm < cg)%Z)) ->
  v <> VClean.
Print Assumptions C02_moved_on_dep_not_clean.

(* deciding dirtiness has no effect on any file *)
Theorem C02_check_no_file_effect : forall fuel runid cyc w c f r mx seen v w' c' evs,
  is_dirty fuel runid cyc w c f r mx seen = Ret (v, w', c', evs) -> fs w' = fs w.
Proof. exact is_dirty_fs. Qed.
Check C02_check_no_file_effect : forall fuel runid cyc w c f r mx seen v w' c' evs,
  is_dirty fuel runid cyc w c f r mx seen = Ret (v, w', c', evs) -> fs w' = fs w.
Print Assumptions C02_check_no_file_effect.

Definition C02_full_statement : Prop :=
  forall (depth : nat) (h : list hstep), True (* a redo-ifchange runs the script of a target in the
     closure iff never built / file removed / failed / always / a currently declared
     dependency (incl. the .do and absent higher-priority .do files) changed *).

(* non-vacuity: repeated build runs nothing; a dropped dependency no longer triggers *)
Example C02_example :
  let mk deps p := {| s_deps := deps; s_ifcreate := []; s_always := false; s_stamp := false;
                      s_out := OStdout; s_payload := p; s_cat := false; s_exit := 0%Z; s_tol := false |} in
  let a := [97] in let b := [98] in let t := [116] in
  let h := [SWrite a [1]; SWrite b [1]; SWriteDo (t ++ b_do) (mk [a; b] 5);
            SCmd (CIfChange false [t]); SCmd (CIfChange false [t]);
            SWriteDo (t ++ b_do) (mk [a] 6); SCmd (CIfChange false [t]);
            SWrite b [2]; SCmd (CIfChange false [t]);
            SWrite a [2]; SCmd (CIfChange false [t])] in
  map (fun x => match snd x with
                | Some (OutBuild evs _) => Some (length (filter (fun e => match e with EvRun _ _ _ _ => true | _ => false end) evs))
                | _ => None end) (run_history h (init_world 0))
  = [None; None; None; Some 1%nat; Some 0%nat; None; Some 1%nat; None; Some 0%nat; None; Some 1%nat].
Proof. vm_compute. reflexivity. Qed.

(* ---- "a repeated build with no changes runs nothing", at the level of one
   check, for EVERY recorded graph: a set S of file ids is quiet when each
   member's row did not fail, was built, matches the file on disk, has all its
   redo-ifcreate paths absent and only redo-ifchange dependencies that are in S,
   not newer, and of smaller rank (no recorded cycle).  Then the dirtiness walk
   answers CLEAN for every member, writes nothing and starts nothing -- for the
   walk whose world never changes (redo-ood's; the builder's returns the same
   verdicts whenever it returns: C17_ood_agrees_with_builder).  Together with
   C02_moved_on_dep_not_clean this pins the verdict from both sides. *)
Theorem C02_quiet_is_clean : forall runid w rk S fuel g l,
  forallb (quiet_row_b runid w rk S) S = true -> In g S -> (rk g < fuel)%nat ->
  (forall chg, r_changed (ld runid w g) = Some chg -> (chg <= runid)%Z) ->
  exists l' evs, is_dirty fuel runid nil w (ChkMem l) g (ld runid w g) runid nil = Ret (VClean, w, ChkMem l', evs).
Proof. exact quiet_b_all_clean. Qed.
Check C02_quiet_is_clean : forall runid w rk S fuel g l,
  forallb (quiet_row_b runid w rk S) S = true -> In g S -> (rk g < fuel)%nat ->
  (forall chg, r_changed (ld runid w g) = Some chg -> (chg <= runid)%Z) ->
  exists l' evs, is_dirty fuel runid nil w (ChkMem l) g (ld runid w g) runid nil = Ret (VClean, w, ChkMem l', evs).
Print Assumptions C02_quiet_is_clean.

(* non-vacuity: the state the model reaches by building T <- {m*, s}, m* <- s
   (m checksummed; both declare redo-ifcreate w, which does not exist) is quiet
   on {T, T.do, m, s, m.do}, and the next run's walk of T is clean *)
Example C02_quiet_example :
  let mk deps stamp p := {| s_deps := deps; s_ifcreate := (119%N :: nil) :: nil; s_always := false; s_stamp := stamp;
                            s_out := OStdout; s_payload := p; s_cat := true; s_exit := 0%Z; s_tol := false |} in
  let T := (84 :: nil)%N in let m := (109 :: nil)%N in let s := (115 :: nil)%N in
  let h := SWrite s (1%N :: nil) :: SWriteDo (T ++ b_do) (mk (m :: s :: nil) false 10%N)
           :: SWriteDo (m ++ b_do) (mk (s :: nil) true 20%N) :: SCmd (CIfChange false (T :: nil)) :: nil in
  let w := fst (last (run_history h (init_world 0)) (init_world 0, None)) in
  let rid := 1000000002%Z in
  let S := (2 :: 3 :: 4 :: 5 :: 6 :: nil)%nat in
  forallb (quiet_row_b rid w (fun g => (50 - g)%nat) S) S = true
  /\ match is_dirty 60 rid nil w (ChkMem nil) 2%nat (ld rid w 2%nat) rid nil with
     | Ret (VClean, _, _, _) => True | _ => False end.
Proof. vm_compute. split; [reflexivity|exact I]. Qed.

(* ---- the same at the level of WHOLE COMMANDS, for the builder itself (its
   walk writes checked_runid into the database and judges every row on a copy
   taken when the parent's walk started): on a quiet set S that does not contain
   //ALWAYS, `redo-ifchange ts` of members of S exits 0, starts no script and
   touches no file -- and so does every later one, n times for every n, with a
   fresh run id each time.  Premises are boolean and evaluated below on a state
   the model reaches by a real build. *)
Theorem C02_repeated_builds_run_nothing : forall rk S k ts n w,
  let R := (maxrun (dbs w) + 1)%Z in
  forallb (quiet_row_b R w rk S) S = true ->
  forallb (settled_b R w) S = true ->
  forallb (requested_b rk S w) ts = true ->
  Forall (noop_result w) (repeat_exec n (CIfChange k ts) w).
Proof. exact quiet_forever_b. Qed.
Check C02_repeated_builds_run_nothing : forall rk S k ts n w,
  let R := (maxrun (dbs w) + 1)%Z in
  forallb (quiet_row_b R w rk S) S = true ->
  forallb (settled_b R w) S = true ->
  forallb (requested_b rk S w) ts = true ->
  Forall (fun x => fs (fst x) = fs w /\ exists evs, snd x = OutBuild evs 0%Z /\ Forall quiet_ev evs)
         (repeat_exec n (CIfChange k ts) w).
Print Assumptions C02_repeated_builds_run_nothing.

(* one command, with what it leaves behind *)
Theorem C02_quiet_command_noop : forall rk Q k ts w,
  let R := (maxrun (dbs w) + 1)%Z in
  QUIET R rk Q w -> requested rk Q (default_fuel w - 1) w ts ->
  exists w' evs, exec (CIfChange k ts) w = (w', OutBuild evs 0%Z)
    /\ fs w' = fs w /\ Forall quiet_ev evs /\ QUIET R rk Q w'
    /\ Protect.names (dbs w') = Protect.names (dbs w) /\ deps (dbs w') = deps (dbs w) /\ maxrun (dbs w') = R.
Proof. exact quiet_ifchange_noop. Qed.
Print Assumptions C02_quiet_command_noop.

Example C02_repeated_example :
  let mk deps stamp p := {| s_deps := deps; s_ifcreate := (119%N :: nil) :: nil; s_always := false; s_stamp := stamp;
                            s_out := OStdout; s_payload := p; s_cat := true; s_exit := 0%Z; s_tol := false |} in
  let T := (84 :: nil)%N in let m := (109 :: nil)%N in let s := (115 :: nil)%N in
  let h := SWrite s (1%N :: nil) :: SWriteDo (T ++ b_do) (mk (m :: s :: nil) false 10%N)
           :: SWriteDo (m ++ b_do) (mk (s :: nil) true 20%N) :: SCmd (CIfChange false (T :: nil)) :: nil in
  let w := fst (last (run_history h (init_world 0)) (init_world 0, None)) in
  let R := (maxrun (dbs w) + 1)%Z in
  let S := (2 :: 3 :: 4 :: 5 :: 6 :: nil)%nat in
  let rk := fun g => (20 - g)%nat in
  forallb (quiet_row_b R w rk S) S = true /\ forallb (settled_b R w) S = true
  /\ forallb (requested_b rk S w) (T :: m :: nil) = true.
Proof. vm_compute. repeat split. Qed.

(* ---- SOUNDNESS OF "CLEAN" over the builder's whole walk (Build/Settle.v).
   During a run R the rows the run has dealt with are SETTLED (ok): not failed,
   the recorded stamp is the file's, every redo-ifcreate path absent, every
   recorded redo-ifchange dependency settled too.  The invariant INV ("every row
   marked in this run and not failed is settled") is kept by the builder's
   dirtiness walk -- database writes, stale copies written back, generated files
   that have disappeared forgotten -- and a CLEAN verdict means settled
   (is_dirty_INV, induction over the fuel and the dependency list).  At the
   start of a run nothing is marked, so: on every well-formed database (row names
   distinct, a rank on names decreasing along every recorded redo-ifchange edge,
   no edge to //ALWAYS, no run id above R), for every file system, target and
   fuel, if the FIRST check of run R answers CLEAN then the target and its whole
   recorded closure are settled -- nothing that redo-ifchange declines to
   rebuild is out of step with its recorded inputs -- and the settled rows are a
   quiet set, to which C02_quiet_command_noop / C02_repeated_builds_run_nothing
   apply: nothing runs later either.  With C02_moved_on_dep_not_clean (a bad
   edge is never clean) the verdict CLEAN is characterised from both sides. *)
Theorem C02_clean_verdict_is_sound : forall R rk fuel w f v w' c' evs,
  (0 < R)%Z -> wfw_b R rk w = true -> fresh_b R w = true -> valid_b w f = true -> is_alw w f = false ->
  is_dirty fuel R nil w ChkDb f (load R (dbs w) f) R nil = Ret (v, w', c', evs) ->
  fs w' = fs w /\ (v = VClean -> ok R w' nil f /\ QUIET R (rkf rk w') (ok R w' nil) w').
Proof. exact clean_means_settled_b. Qed.
Check C02_clean_verdict_is_sound : forall R rk fuel w f v w' c' evs,
  (0 < R)%Z -> wfw_b R rk w = true -> fresh_b R w = true -> valid_b w f = true -> is_alw w f = false ->
  is_dirty fuel R nil w ChkDb f (load R (dbs w) f) R nil = Ret (v, w', c', evs) ->
  fs w' = fs w /\ (v = VClean -> ok R w' nil f /\ QUIET R (rkf rk w') (ok R w' nil) w').
Print Assumptions C02_clean_verdict_is_sound.

(* the invariant itself, for every later check of the run and every set [ex] of
   targets in mid-build that lie above what is being checked *)
Theorem C02_walk_keeps_settled : forall R, (0 < R)%Z -> forall rk ex fuel, check_spec R rk ex fuel.
Proof. exact is_dirty_INV. Qed.
Print Assumptions C02_walk_keeps_settled.

(* non-vacuity: the state reached by building T <- {m*, s}, m* <- s, looked at
   with the next run id: well formed, fresh, and the check of T is CLEAN *)
Example C02_clean_sound_example :
  let mk deps stamp p := {| s_deps := deps; s_ifcreate := (119%N :: nil) :: nil; s_always := false; s_stamp := stamp;
                            s_out := OStdout; s_payload := p; s_cat := true; s_exit := 0%Z; s_tol := false |} in
  let T := (84 :: nil)%N in let m := (109 :: nil)%N in let s := (115 :: nil)%N in
  let h := SWrite s (1%N :: nil) :: SWriteDo (T ++ b_do) (mk (m :: s :: nil) false 10%N)
           :: SWriteDo (m ++ b_do) (mk (s :: nil) true 20%N) :: SCmd (CIfChange false (T :: nil)) :: nil in
  let w := fst (last (run_history h (init_world 0)) (init_world 0, None)) in
  let R := (maxrun (dbs w) + 1)%Z in
  let rk := fun n : name => match n with (84 :: nil)%N => 3%nat | (109 :: nil)%N => 2%nat | _ => 1%nat end in
  wfw_b R rk w = true /\ fresh_b R w = true /\ valid_b w 2%nat = true /\ is_alw w 2%nat = false
  /\ match is_dirty 40 R nil w ChkDb 2%nat (load R (dbs w) 2%nat) R nil with
     | Ret (VClean, _, _, _) => True | _ => False end.
Proof. vm_compute. repeat split. Qed.

(* ---- THE WHOLE-BUILD INVARIANT (Build/SettleJob.v), for projects of plain
   scripts.  Scope: every script asks for its dependencies with redo-ifchange,
   may declare redo-ifcreate on watched names, and does nothing else to the
   state (no redo-stamp, redo-always, "|| true"); the
   database holds no checksum and no hand-edited generated file is pending; a
   rank on names decreases along every declared and every recorded dependency;
   the names of .do files (WATCHED names) are never asked for as targets.
   Then: every `redo-ifchange ts`, at any nesting depth, keeps the run invariant
   of Settle.v through everything a job does -- the check, the flagged old
   declarations (zap_deps1), find_do_file and its redo-ifcreate edges, the
   nested redo-ifchange of the script (which records its edges BEFORE it builds),
   $3 / stdout / a direct write, record_new_state on success and on failure --
   and WHEN IT EXITS 0 EVERY TARGET IN ts IS SETTLED WITH ITS WHOLE RECORDED
   CLOSURE (build_rec_spec, by induction on the nesting depth; start_spec,
   ss_rest_spec, ss_run_spec, record_spec, script_step, find_do_spec ...).  The
   settled rows are a quiet set, so by C02_repeated_builds_run_nothing the next
   command, and every later one, runs nothing.  Premises are boolean (evaluated
   below before a first build and before a rebuild after a source edit) except
   the two facts that tie [watched] to the finite list L of possible targets. *)
Theorem C02_successful_build_settles : forall rk watched R (L : list name) k ts w w' evs,
  R = (maxrun (dbs w) + 1)%Z -> (0 < R)%Z ->
  wfw_b R rk (fst (new_run w)) = true -> fresh_b R (fst (new_run w)) = true ->
  xr_b (fst (new_run w)) = true -> cre_b watched (fst (new_run w)) = true ->
  (forall n, watched n = true -> reserved n = false) ->
  (forall t, watched t = false -> reserved t = false -> In t L) ->
  forallb (proj_t_b rk watched (fst (new_run w))) L = true ->
  forallb (fun t => negb (watched t) && negb (reserved t)) ts = true ->
  exec (CIfChange k ts) w = (w', OutBuild evs 0%Z) ->
  (forall t, In t ts -> exists g, find_row (rows (dbs w')) t 1 = Some g /\ ok R w' nil g) /\
  QUIET R (rkf rk w') (ok R w' nil) w'.
Proof. exact ifchange_settles_b. Qed.
Check C02_successful_build_settles : forall rk watched R (L : list name) k ts w w' evs,
  R = (maxrun (dbs w) + 1)%Z -> (0 < R)%Z ->
  wfw_b R rk (fst (new_run w)) = true -> fresh_b R (fst (new_run w)) = true ->
  xr_b (fst (new_run w)) = true -> cre_b watched (fst (new_run w)) = true ->
  (forall n, watched n = true -> reserved n = false) ->
  (forall t, watched t = false -> reserved t = false -> In t L) ->
  forallb (proj_t_b rk watched (fst (new_run w))) L = true ->
  forallb (fun t => negb (watched t) && negb (reserved t)) ts = true ->
  exec (CIfChange k ts) w = (w', OutBuild evs 0%Z) ->
  (forall t, In t ts -> exists g, find_row (rows (dbs w')) t 1 = Some g /\ ok R w' nil g) /\
  QUIET R (rkf rk w') (ok R w' nil) w'.
Print Assumptions C02_successful_build_settles.

(* ... and then nothing runs, n times for every n: the same premises, the
   build's exit 0, and the rank of the targets below the fuel of later commands
   (Build/Maxrun.v: nothing a build does changes the run-id counter;
   Build/SettleForever.v) *)
Theorem C02_build_then_nothing_forever : forall rk watched R (L : list name) k ts w w' evs,
  R = (maxrun (dbs w) + 1)%Z -> (0 < R)%Z ->
  wfw_b R rk (fst (new_run w)) = true -> fresh_b R (fst (new_run w)) = true ->
  xr_b (fst (new_run w)) = true -> cre_b watched (fst (new_run w)) = true ->
  (forall n, watched n = true -> reserved n = false) ->
  (forall t, watched t = false -> reserved t = false -> In t L) ->
  forallb (proj_t_b rk watched (fst (new_run w))) L = true ->
  forallb (fun t => negb (watched t) && negb (reserved t)) ts = true ->
  exec (CIfChange k ts) w = (w', OutBuild evs 0%Z) ->
  forallb (fun t => Nat.ltb (rk t) (default_fuel w' - 1)) ts = true ->
  forall n, Forall (noop_result w') (repeat_exec n (CIfChange k ts) w').
Proof. exact build_then_nothing. Qed.
Check C02_build_then_nothing_forever : forall rk watched R (L : list name) k ts w w' evs,
  R = (maxrun (dbs w) + 1)%Z -> (0 < R)%Z ->
  wfw_b R rk (fst (new_run w)) = true -> fresh_b R (fst (new_run w)) = true ->
  xr_b (fst (new_run w)) = true -> cre_b watched (fst (new_run w)) = true ->
  (forall n, watched n = true -> reserved n = false) ->
  (forall t, watched t = false -> reserved t = false -> In t L) ->
  forallb (proj_t_b rk watched (fst (new_run w))) L = true ->
  forallb (fun t => negb (watched t) && negb (reserved t)) ts = true ->
  exec (CIfChange k ts) w = (w', OutBuild evs 0%Z) ->
  forallb (fun t => Nat.ltb (rk t) (default_fuel w' - 1)) ts = true ->
  forall n, Forall (fun x => fs (fst x) = fs w' /\ exists evs', snd x = OutBuild evs' 0%Z /\ Forall quiet_ev evs')
                   (repeat_exec n (CIfChange k ts) w').
Print Assumptions C02_build_then_nothing_forever.

(* the invariant itself, for every command at every nesting depth *)
Theorem C02_every_command_keeps_the_invariant : forall R, (0 < R)%Z -> forall rk watched fuel,
  rec_spec R rk watched (build fuel).
Proof. exact build_rec_spec. Qed.
Print Assumptions C02_every_command_keeps_the_invariant.

(* non-vacuity: T <- {m, s} with redo-ifcreate w, m <- s, scripts that print their inputs.  The
   premises hold before the first build (empty database) and again after the
   source s has been edited; both builds exit 0 and run T.do and m.do *)
Definition ex_T : name := (84 :: nil)%N.
Definition ex_m : name := (109 :: nil)%N.
Definition ex_s : name := (115 :: nil)%N.
Definition ex_L : list name := ex_T :: ex_m :: ex_s :: nil.
Definition ex_watched (n : name) : bool := negb (existsb (bytes_eqb n) ex_L) && negb (reserved n).
Definition ex_rk (n : name) : nat :=
  if bytes_eqb n ex_T then 3%nat else if bytes_eqb n ex_m then 2%nat else if bytes_eqb n ex_s then 1%nat else 0%nat.

Lemma ex_watched_unreserved : forall n, ex_watched n = true -> reserved n = false.
Proof. intros n H. unfold ex_watched in H. apply Bool.andb_true_iff in H as [_ H]. now apply Bool.negb_true_iff in H. Qed.
Lemma ex_targets_listed : forall t, ex_watched t = false -> reserved t = false -> In t ex_L.
Proof.
  intros t H Hr. unfold ex_watched in H. rewrite Hr in H. cbn [negb] in H. rewrite Bool.andb_true_r in H.
  apply Bool.negb_false_iff in H. apply existsb_exists in H as (x & Hx & E).
  apply BytesProofs.bytes_eqb_eq in E. now subst x.
Qed.

Example C02_whole_build_example :
  let mk deps ifc p := {| s_deps := deps; s_ifcreate := ifc; s_always := false; s_stamp := false;
                          s_out := OStdout; s_payload := p; s_cat := true; s_exit := 0%Z; s_tol := false |} in
  let h := SWrite ex_s (1%N :: nil) :: SWriteDo (ex_T ++ b_do) (mk (ex_m :: ex_s :: nil) ((119 :: nil) :: nil)%N 10%N)
           :: SWriteDo (ex_m ++ b_do) (mk (ex_s :: nil) nil 20%N) :: nil in
  let w_a := fst (last (run_history h (init_world 0)) (init_world 0, None)) in
  let pre := fun w : world =>
    let R := (maxrun (dbs w) + 1)%Z in let w1 := fst (new_run w) in
    (Z.ltb 0 R && wfw_b R ex_rk w1 && fresh_b R w1 && xr_b w1 && cre_b ex_watched w1
     && forallb (proj_t_b ex_rk ex_watched w1) ex_L
     && forallb (fun t => negb (ex_watched t) && negb (reserved t)) (ex_T :: nil)
     && forallb (fun t => Nat.ltb (ex_rk t) (default_fuel (fst (exec (CIfChange false (ex_T :: nil)) w)) - 1)) (ex_T :: nil))%bool in
  let runs := fun w => match snd (exec (CIfChange false (ex_T :: nil)) w) with
                       | OutBuild evs rc => Some (rc, length (filter (fun e => match e with EvRun _ _ _ _ => true | _ => false end) evs))
                       | _ => None end in
  let w_b := fst (exec (CIfChange false (ex_T :: nil)) w_a) in
  let w_c := write_file w_b ex_s (2%N :: nil) None in
  (pre w_a, runs w_a, pre w_c, runs w_c, runs (fst (exec (CIfChange false (ex_T :: nil)) w_c)))
  = (true, Some (0%Z, 2%nat), true, Some (0%Z, 2%nat), Some (0%Z, 0%nat)).
Proof. vm_compute. reflexivity. Qed.

(* ---- ALONG WHOLE HISTORIES (Build/SettleHistory.v).  A world is GOOD when the job
   invariant holds at the start of its next run and nothing is marked.  The empty
   state directory is good (good_init); every redo-ifchange, WHATEVER ITS EXIT
   STATUS, every query command, and every user step that leaves generated files
   alone (writing a file redo has not generated -- sources, .do files, new files --
   or removing any file) leads from a good world to a good world.  Hence: from an
   empty state directory, along every history of such steps (the project being one
   of plain scripts at each command), every redo-ifchange that exits 0 leaves its
   targets settled with their whole recorded closure.  The premise is one boolean,
   hist_ok_b, evaluated below on a history with two edits, a failing script that is
   then repaired, a removed target, and queries. *)
Theorem C02_settled_along_every_history : forall rk watched (L : list name),
  (forall n, watched n = true -> reserved n = false) ->
  (forall t, watched t = false -> reserved t = false -> In t L) ->
  forall depth h, hist_ok_b rk watched L (init_world depth) h = true ->
    settled_along (init_world depth) h /\
    Forall (fun x => GOOD rk watched (fst x)) (run_history h (init_world depth)).
Proof. exact history_from_scratch_b. Qed.
Check C02_settled_along_every_history : forall rk watched (L : list name),
  (forall n, watched n = true -> reserved n = false) ->
  (forall t, watched t = false -> reserved t = false -> In t L) ->
  forall depth h, hist_ok_b rk watched L (init_world depth) h = true ->
    settled_along (init_world depth) h /\
    Forall (fun x => GOOD rk watched (fst x)) (run_history h (init_world depth)).
Print Assumptions C02_settled_along_every_history.

Example C02_history_example :
  let mk deps ifc p ex := {| s_deps := deps; s_ifcreate := ifc; s_always := false; s_stamp := false;
                             s_out := OStdout; s_payload := p; s_cat := true; s_exit := ex; s_tol := false |} in
  let b := CIfChange false (ex_T :: nil) in
  let h := SWrite ex_s (1%N :: nil) :: SWriteDo (ex_T ++ b_do) (mk (ex_m :: ex_s :: nil) ((119 :: nil) :: nil)%N 10%N 0%Z)
           :: SWriteDo (ex_m ++ b_do) (mk (ex_s :: nil) nil 20%N 0%Z)
           :: SCmd b :: SCmd b :: SWrite ex_s (2%N :: nil) :: SCmd COod :: SCmd b
           :: SWriteDo (ex_m ++ b_do) (mk (ex_s :: nil) nil 21%N 3%Z) :: SCmd b            (* m.do fails *)
           :: SWriteDo (ex_m ++ b_do) (mk (ex_s :: nil) nil 22%N 0%Z) :: SCmd b            (* repaired *)
           :: SRemove ex_m :: SCmd CTargets :: SCmd b :: SCmd b :: nil in
  hist_ok_b ex_rk ex_watched ex_L (init_world 0) h = true
  /\ map (fun x => match snd x with
                   | Some (OutBuild evs rc) => Some (rc, length (filter (fun e => match e with EvRun _ _ _ _ => true | _ => false end) evs))
                   | _ => None end) (run_history h (init_world 0))
     = None :: None :: None :: Some (0%Z, 2%nat) :: Some (0%Z, 0%nat) :: None :: None :: Some (0%Z, 2%nat)
       :: None :: Some (1%Z, 2%nat) :: None :: Some (0%Z, 2%nat) :: None :: None :: Some (0%Z, 2%nat) :: Some (0%Z, 0%nat) :: nil.
Proof. vm_compute. split; reflexivity. Qed.

(* ---- "a dependency that a target stopped declaring no longer triggers it":
   the two-phase replacement of the dependency list (Build/TwoPhase.v) ---- *)
From Redo Require Import Build.TwoPhase.
(* start (every edge of the target flagged), ANY declarations by anybody, a
   successful record (what is still flagged deleted): each remaining edge of the
   target was declared during this build, with the mode it now has *)
Theorem C02_undeclared_dependency_is_dropped : forall d t l x,
  In x (deps (zap_deps2 (declare_all (zap_deps1 d t) l) t)) -> d_target x = t ->
  d_delete x = false /\ exists m, In (t, m, d_source x) l /\ d_mode x = m.
Proof. exact edges_are_the_declared_ones. Qed.
Check C02_undeclared_dependency_is_dropped : forall d t l x,
  In x (deps (zap_deps2 (declare_all (zap_deps1 d t) l) t)) -> d_target x = t ->
  d_delete x = false /\ exists m, In (t, m, d_source x) l /\ d_mode x = m.
Print Assumptions C02_undeclared_dependency_is_dropped.

(* and the last declaration of each edge of the target is there *)
Theorem C02_declared_dependency_is_kept : forall d t l1 m s l2,
  (forall m', ~ In (t, m', s) l2) ->
  In {| d_target := t; d_source := s; d_mode := m; d_delete := false |}
     (deps (zap_deps2 (declare_all (zap_deps1 d t) (l1 ++ (t, m, s) :: l2)) t)).
Proof. exact declared_edges_are_kept. Qed.
Check C02_declared_dependency_is_kept : forall d t l1 m s l2,
  (forall m', ~ In (t, m', s) l2) ->
  In {| d_target := t; d_source := s; d_mode := m; d_delete := false |}
     (deps (zap_deps2 (declare_all (zap_deps1 d t) (l1 ++ (t, m, s) :: l2)) t)).
Print Assumptions C02_declared_dependency_is_kept.

(* the two zaps touch nobody else's edges *)
Theorem C02_other_targets_edges_untouched : forall d t x, d_target x <> t ->
  (In x (deps (zap_deps1 d t)) <-> In x (deps d)) /\ (In x (deps (zap_deps2 d t)) <-> In x (deps d)).
Proof. intros d t x H. split; [apply zap1_other|apply zap2_other]; exact H. Qed.
Check C02_other_targets_edges_untouched : forall d t x, d_target x <> t ->
  (In x (deps (zap_deps1 d t)) <-> In x (deps d)) /\ (In x (deps (zap_deps2 d t)) <-> In x (deps d)).
Print Assumptions C02_other_targets_edges_untouched.

(* not vacuous: target 1 had edges to 2 and 3; the rebuild declares 3 (now as
   ifcreate) and 4; target 5's edge is left alone *)
Example C02_two_phase_example :
  let e (t s : nat) m := {| d_target := t; d_source := s; d_mode := m; d_delete := false |} in
  let d := {| rows := []; deps := [e 1%nat 2%nat DModified; e 1%nat 3%nat DModified; e 5%nat 2%nat DModified]; maxrun := 0%Z |} in
  deps (zap_deps2 (declare_all (zap_deps1 d 1%nat) [(1%nat, DCreated, 3%nat); (1%nat, DModified, 4%nat)]) 1%nat)
  = [e 5%nat 2%nat DModified; e 1%nat 3%nat DCreated; e 1%nat 4%nat DModified].
Proof. vm_compute. reflexivity. Qed.
