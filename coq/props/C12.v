(* C12 -- Dependency cycles end in an error, never in a hang.
   PARTIAL: proved are the three detection rules of the serial model (each
   returns 208 at once, without starting a job).  Termination of the nested
   recursion and the parallel case are decided on the implementation; the
   parallel multi-entry case is finding F9 (known, see KNOWN_FINDINGS). *)
From Coq Require Import ZArith List.
From Redo Require Import Base.Bytes Build.Model Build.LocalProofs.
Import ListNotations.

(* a target that an ancestor is building: 208 before any job is started *)
Theorem C12_ancestor_cycle : forall job e t ts seen w evs errored,
  (errored && negb (e_keep_going e)) = false ->
  e_unlocked e = false ->
  let '(d0, f) := from_name (dbs w) t in
  existsb (Nat.eqb f) seen = false ->
  existsb (Nat.eqb f) (e_cycles e) = true ->
  run_loop job e (t :: ts) seen w evs errored = Ret (set_db w d0, evs, 208%Z).
Proof. exact run_loop_cycle. Qed.
Check C12_ancestor_cycle : forall job e t ts seen w evs errored,
  (errored && negb (e_keep_going e)) = false ->
  e_unlocked e = false ->
  let '(d0, f) := from_name (dbs w) t in
  existsb (Nat.eqb f) seen = false ->
  existsb (Nat.eqb f) (e_cycles e) = true ->
  run_loop job e (t :: ts) seen w evs errored = Ret (set_db w d0, evs, 208%Z).
Print Assumptions C12_ancestor_cycle.

(* cycle of length 1 (finding F12, fixed): a script asking for its own target *)
Theorem C12_self_dependency : forall fuel e me ts w,
  e_target e = Some me -> e_unlocked e = false -> e_no_oob e = false ->
  existsb (bytes_eqb me) ts = true ->
  build (S fuel) e MIfChange ts w = Ret (w, [], 208%Z).
Proof. exact build_self_dependency. Qed.
Check C12_self_dependency : forall fuel e me ts w,
  e_target e = Some me -> e_unlocked e = false -> e_no_oob e = false ->
  existsb (bytes_eqb me) ts = true ->
  build (S fuel) e MIfChange ts w = Ret (w, [], 208%Z).
Print Assumptions C12_self_dependency.

(* a recorded dependency chain that comes back to a file being checked: the
   walk stops there, changes nothing and answers "dirty" (fix F78: recorded
   rows may be stale -- an edge a killed build had only flagged for deletion
   next to the reverse edge its successor recorded -- and say nothing about
   the scripts; a cycle the scripts contain is found by the lock check when
   they run, C12_self_dependency above) *)
Theorem C12_recorded_cycle_ends_the_walk : forall fuel runid cyc w c f r mx seen,
  existsb (Nat.eqb f) seen = true ->
  is_dirty (S fuel) runid cyc w c f r mx seen = Ret (VDirty, w, c, []).
Proof. exact is_dirty_cycle_detected. Qed.
Check C12_recorded_cycle_ends_the_walk : forall fuel runid cyc w c f r mx seen,
  existsb (Nat.eqb f) seen = true ->
  is_dirty (S fuel) runid cyc w c f r mx seen = Ret (VDirty, w, c, []).
Print Assumptions C12_recorded_cycle_ends_the_walk.

(* the walk over recorded rows terminates on EVERY database, whatever cycles the
   rows contain: with more fuel than there are distinct dependency sources the
   model's walk never runs out of fuel (its only way not to end) -- the half of
   "never a hang" that concerns redo's own recursion (Build/WalkTerminates.v) *)
From Redo Require Import Build.WalkTerminates.
Theorem C12_walk_terminates : forall runid cyc w c f r mx,
  let U := f :: map d_source (deps (dbs w)) in
  forall fuel, (length (nodup Nat.eq_dec U) < fuel)%nat ->
  is_dirty fuel runid cyc w c f r mx [] <> EFuel.
Proof. exact walk_terminates. Qed.
Check C12_walk_terminates : forall runid cyc w c f r mx,
  let U := f :: map d_source (deps (dbs w)) in
  forall fuel, (length (nodup Nat.eq_dec U) < fuel)%nat ->
  is_dirty fuel runid cyc w c f r mx [] <> EFuel.
Print Assumptions C12_walk_terminates.

(* in particular with the fuel the model's commands use (default_fuel), in any
   database whose edges point at existing rows *)
Theorem C12_walk_terminates_with_default_fuel : forall runid cyc w c f r mx,
  (forall x, In x (deps (dbs w)) -> (1 <= d_source x <= length (rows (dbs w)))%nat) ->
  is_dirty (default_fuel w) runid cyc w c f r mx [] <> EFuel.
Proof. exact walk_terminates_default_fuel. Qed.
Check C12_walk_terminates_with_default_fuel : forall runid cyc w c f r mx,
  (forall x, In x (deps (dbs w)) -> (1 <= d_source x <= length (rows (dbs w)))%nat) ->
  is_dirty (default_fuel w) runid cyc w c f r mx [] <> EFuel.
Print Assumptions C12_walk_terminates_with_default_fuel.

(* and it never answers "cyclic dependency" any more, whatever the rows say *)
Theorem C12_walk_never_reports_a_cycle : forall fuel runid cyc w c f r mx seen w' c' e,
  is_dirty fuel runid cyc w c f r mx seen <> Ret (VCycle, w', c', e).
Proof. exact is_dirty_never_cyclic. Qed.
Check C12_walk_never_reports_a_cycle : forall fuel runid cyc w c f r mx seen w' c' e,
  is_dirty fuel runid cyc w c f r mx seen <> Ret (VCycle, w', c', e).
Print Assumptions C12_walk_never_reports_a_cycle.

Definition C12_full_statement : Prop :=
  True (* every invocation whose requested closure contains a cycle terminates in bounded time
          with a non-zero status naming a cyclic dependency, at every -j and entry point *).

(* non-vacuity on the serial model: cycles of length 1, 2, 3 behind a prefix, from every entry *)
Example C12_example :
  let mk deps p := {| s_deps := deps; s_ifcreate := []; s_always := false; s_stamp := false;
                      s_out := OStdout; s_payload := p; s_cat := false; s_exit := 0%Z; s_tol := false |} in
  let a := [97] in let b := [98] in let c := [99] in let p := [112] in let s := [115] in
  let proj := [SWriteDo (a ++ b_do) (mk [b] 1); SWriteDo (b ++ b_do) (mk [c] 2); SWriteDo (c ++ b_do) (mk [a] 3);
               SWriteDo (p ++ b_do) (mk [a] 4); SWriteDo (s ++ b_do) (mk [s] 5)] in
  map (fun t => match snd (last (run_history (proj ++ [SCmd (CRedo false [t])]) (init_world 0)) (init_world 0, None)) with
                | Some (OutBuild _ rc) => negb (Z.eqb rc 0)
                | _ => false end) [a; b; c; p; s]
  = [true; true; true; true; true].
Proof. vm_compute. reflexivity. Qed.

(* a cycle that closes only during the out-of-band rebuild of a checksummed
   dependency (finding F21): T -> d, d checksummed over src; after a good build
   src changes and d starts to ask for T.  redo-ifchange T hands d to
   redo-unlocked with T's id in REDO_CYCLES: the nested request for T is a
   cycle (the command fails; before the fix the real redo waited for ever) *)
Example C12_oob_cycle_example :
  let T := [84] in let d := [100] in let src := [115] in
  let mk deps stamp p := {| s_deps := deps; s_ifcreate := []; s_always := false; s_stamp := stamp;
                            s_out := OStdout; s_payload := p; s_cat := true; s_exit := 0%Z; s_tol := false |} in
  let h := [SWrite src [1]; SWriteDo (T ++ b_do) (mk [d] false 10); SWriteDo (d ++ b_do) (mk [src] true 20);
            SCmd (CIfChange false [T]);
            SWrite src [2]; SWriteDo (d ++ b_do) (mk [src; T] true 20);
            SCmd (CIfChange false [T])] in
  map (fun x => match snd x with Some (OutBuild evs rc) => Some (Z.eqb rc 0) | _ => None end)
      (run_history h (init_world 0))
  = [None; None; None; Some true; None; None; Some false].
Proof. vm_compute. reflexivity. Qed.

(* ---- a dependency that was turned round is NOT a cycle (fix F66).  Run 1: b
   needs a.  Then a.do asks for b and b.do no longer asks for a: the scripts are
   acyclic at all times, but b's recorded edge b -> a is still in the database
   when a.do's redo-ifchange b has b checked, a being in mid-build.  The walk
   does not enter the rows of a target an ancestor is building (the recorded
   edge makes b dirty, and b's script speaks for itself): both scripts run once,
   the command exits 0, and the next command runs nothing.  Before the repair
   the walk went into a's half-written rows, met the new edge a -> b and
   answered 208. *)
Example C12_reversed_dependency_is_no_cycle :
  let mk deps p := {| s_deps := deps; s_ifcreate := nil; s_always := false; s_stamp := false;
                      s_out := OStdout; s_payload := p; s_cat := false; s_exit := 0%Z; s_tol := false |} in
  let a := (97 :: nil)%N in let b := (98 :: nil)%N in let s := (115 :: nil)%N in
  let h := SWrite s (1%N :: nil) :: SWriteDo (a ++ b_do) (mk (s :: nil) 5%N) :: SWriteDo (b ++ b_do) (mk (a :: nil) 6%N)
           :: SCmd (CIfChange false (a :: nil)) :: SCmd (CIfChange false (b :: nil))
           :: SWriteDo (a ++ b_do) (mk (s :: b :: nil) 7%N) :: SWriteDo (b ++ b_do) (mk nil 8%N)
           :: SCmd (CIfChange false (a :: nil)) :: SCmd (CIfChange false (a :: b :: nil)) :: nil in
  map (fun x => match snd x with
                | Some (OutBuild evs rc) => Some (rc, length (filter (fun e => match e with EvRun _ _ _ _ => true | _ => false end) evs))
                | _ => None end) (run_history h (init_world 0))
  = None :: None :: None :: Some (0%Z, 1%nat) :: Some (0%Z, 1%nat) :: None :: None
    :: Some (0%Z, 2%nat) :: Some (0%Z, 0%nat) :: nil.
Proof. vm_compute. reflexivity. Qed.

(* the rule itself: a recorded dependency on a target that an ancestor of the
   checking process is building is judged "dirty" without being looked at *)
Theorem C12_dependency_in_mid_build_is_dirty : forall fuel runid cyc w c f r mx seen chg old d ds,
  existsb (Nat.eqb f) seen = false -> r_failed r = None -> r_changed r = Some chg -> Z.ltb mx chg = false ->
  chk_is_checked c runid r f = false -> r_stamp r = Some old -> stamp_eqb old (read_stamp w (r_name r)) = true ->
  deps_of (dbs w) r f = d :: ds -> d_mode d = DModified -> existsb (Nat.eqb (d_source d)) cyc = true ->
  is_dirty (S fuel) runid cyc w c f r mx seen
  = Ret (match r_csum r with Some _ => VNeed (f :: nil) | None => VDirty end, w, c, nil).
Proof. exact is_dirty_dep_in_mid_build. Qed.
Print Assumptions C12_dependency_in_mid_build_is_dirty.
