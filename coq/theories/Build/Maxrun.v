(* The run-id counter is only touched when a command starts (new_run): nothing a
   build does changes it.  (Needed to chain "a successful build leaves a quiet
   set" with "on a quiet set every later command runs nothing".) *)
From Coq Require Import ZArith List Bool Lia.
Import ListNotations.
From Redo Require Import Base.Bytes Build.Model Build.LocalProofs Build.Protect.

Definition mr (w w' : world) : Prop := maxrun (dbs w') = maxrun (dbs w).

Lemma mr_refl w : mr w w. Proof. reflexivity. Qed.
Lemma mr_trans a b c : mr a b -> mr b c -> mr a c. Proof. unfold mr. congruence. Qed.

Lemma from_name_maxrun d n : maxrun (fst (from_name d n)) = maxrun d.
Proof. unfold from_name. destruct (find_row (rows d) n 1); reflexivity. Qed.

Lemma is_dirty_mr : forall fuel runid cyc w c f r mx seen v w' c' evs,
  is_dirty fuel runid cyc w c f r mx seen = Ret (v, w', c', evs) -> mr w w'.
Proof.
  induction fuel as [|fuel IH]; intros runid cyc w c f r mx seen v w' c' evs H; [discriminate|].
  cbn [is_dirty] in H.
  destruct (existsb (Nat.eqb f) seen); [inversion H; reflexivity|].
  destruct (r_failed r); [inversion H; reflexivity|].
  destruct (r_changed r) as [chg|]; [|inversion H; reflexivity].
  destruct (Z.ltb mx chg); [inversion H; reflexivity|].
  destruct (chk_is_checked c runid r f); [inversion H; reflexivity|].
  destruct (r_stamp r) as [old|]; [|inversion H; reflexivity].
  destruct (negb (stamp_eqb old (read_stamp w (r_name r)))).
  { inversion H; subst. unfold forget_missing, mr.
    destruct (read_stamp w (r_name r)); [destruct (r_gen r)|]; reflexivity. }
  eapply (walk_deps_inv (fun w1 => mr w w1) (fun _ _ => True)); [| |apply Forall_trivial|reflexivity|exact H].
  - intros w1 c1 d rs v1 w1' c1' e1 _ Hw1 E. cbv beta in E.
    destruct (existsb (Nat.eqb (d_source d)) cyc); [inversion E; subst; exact Hw1|].
    eapply mr_trans; [exact Hw1|]. eapply IH; exact E.
  - intros w1 Hw1. exact Hw1.
Qed.

Lemma find_do_file_maxrun w : forall cands d t d2 found,
  find_do_file w d t cands = (d2, found) -> maxrun d2 = maxrun d.
Proof.
  induction cands as [|c cs IH]; intros d t d2 found H; cbn [find_do_file] in H.
  - inversion H; reflexivity.
  - destruct (fs_get (fs w) (cand_key (updepth w) c)).
    + destruct (from_name d (cand_key (updepth w) c)) as [d1 s] eqn:E. inversion H; subst. cbn [add_dep maxrun].
      pose proof (from_name_maxrun d (cand_key (updepth w) c)) as X. rewrite E in X. exact X.
    + destruct (from_name d (cand_key (updepth w) c)) as [d1 s] eqn:E.
      rewrite (IH _ _ _ _ H). cbn [add_dep maxrun].
      pose proof (from_name_maxrun d (cand_key (updepth w) c)) as X. rewrite E in X. exact X.
Qed.

Lemma fold_frontend_maxrun mf : forall ts d,
  maxrun (fold_left (fun d t => let '(d', s) := from_name d t in add_dep d' mf DModified s) ts d) = maxrun d.
Proof.
  induction ts as [|t ts IH]; intro d; cbn [fold_left]; [reflexivity|].
  destruct (from_name d t) as [d1 s] eqn:E. rewrite IH. cbn [add_dep maxrun].
  pose proof (from_name_maxrun d t) as X. rewrite E in X. exact X.
Qed.

Lemma frontend_deps_mr e m ts w : mr w (fst (frontend_deps e m ts w)).
Proof.
  unfold frontend_deps, mr. destruct m; [reflexivity|]. destruct (e_target e) as [me|]; [|reflexivity].
  destruct (e_unlocked e || e_no_oob e); [reflexivity|].
  destruct (existsb (bytes_eqb me) ts); [reflexivity|].
  destruct (from_name (dbs w) me) as [d1 mf] eqn:E. cbn [fst dbs set_db]. rewrite fold_frontend_maxrun.
  pose proof (from_name_maxrun (dbs w) me) as X. rewrite E in X. exact X.
Qed.

Lemma fold_ifcreate_maxrun t : forall ns d,
  maxrun (fold_left (fun d n => let '(d1, s) := from_name d n in
                               let '(d2, me) := from_name d1 t in add_dep d2 me DCreated s) ns d) = maxrun d.
Proof.
  induction ns as [|n ns IH]; intro d; cbn [fold_left]; [reflexivity|].
  destruct (from_name d n) as [d1 s] eqn:E1. destruct (from_name d1 t) as [d2 me] eqn:E2.
  rewrite IH. cbn [add_dep maxrun].
  pose proof (from_name_maxrun d n) as X1. rewrite E1 in X1. pose proof (from_name_maxrun d1 t) as X2. rewrite E2 in X2.
  cbn [fst] in *. congruence.
Qed.

Lemma ifcreate_cmd_mr t ns w : mr w (fst (ifcreate_cmd t ns w)).
Proof.
  unfold ifcreate_cmd, mr. destruct ns; [reflexivity|]. destruct (existsb (exists_b w) (n :: ns)); [reflexivity|].
  cbn [fst dbs set_db]. apply fold_ifcreate_maxrun.
Qed.

Lemma always_cmd_mr runid t w : mr w (always_cmd runid t w).
Proof.
  unfold always_cmd, mr. destruct (from_name (dbs w) t) as [d1 me] eqn:E1.
  destruct (from_name d1 always_name) as [d2 al] eqn:E2. cbn [dbs set_db put_row add_dep maxrun].
  pose proof (from_name_maxrun (dbs w) t) as X1. rewrite E1 in X1. pose proof (from_name_maxrun d1 always_name) as X2. rewrite E2 in X2.
  cbn [fst] in *. congruence.
Qed.

Lemma stamp_cmd_mr runid t content w : mr w (stamp_cmd runid t content w).
Proof.
  unfold stamp_cmd, mr. destruct (from_name (dbs w) t) as [d1 me] eqn:E1. cbn [dbs set_db put_row maxrun].
  pose proof (from_name_maxrun (dbs w) t) as X1. rewrite E1 in X1. exact X1.
Qed.

Definition rec_mr (rec : rec_t) : Prop :=
  forall e m ts w0 w1 evs rc, rec e m ts w0 = Ret (w1, evs, rc) -> mr w0 w1.

Lemma script_body_mr rec envc t sc w w' evs rc out :
  rec_mr rec -> script_body rec envc t sc w = Ret (w', evs, rc, out) -> mr w w'.
Proof.
  intros Hrec H. unfold script_body in H.
  match type of H with
  | context [match ?X with Ret _ => _ | EFuel => EFuel end] => set (rd := X) in H
  end.
  assert (Hrd : forall w1 e1 rc1, rd = Ret (w1, e1, rc1) -> mr w w1).
  { intros w1 e1 rc1 E. unfold rd in E. destruct (s_deps sc); [inversion E; reflexivity|eapply Hrec; exact E]. }
  destruct rd as [[[w1 e1] rc1]|]; [|discriminate].
  specialize (Hrd _ _ _ eq_refl).
  destruct (negb (Z.eqb rc1 0) && negb (s_tol sc)); [inversion H; subst; exact Hrd|].
  pose proof (ifcreate_cmd_mr t (s_ifcreate sc) w1) as Hic.
  destruct (ifcreate_cmd t (s_ifcreate sc) w1) as [w2 rc2]. cbn [fst] in Hic.
  destruct (negb (Z.eqb rc2 0)).
  { inversion H; subst. eapply mr_trans; eauto. }
  set (w3 := if s_always sc then always_cmd (e_runid envc) t w2 else w2) in H.
  assert (H3 : mr w2 w3) by (unfold w3; destruct (s_always sc); [apply always_cmd_mr|reflexivity]).
  assert (H03 : mr w w3) by (eapply mr_trans; [exact Hrd|]; eapply mr_trans; eauto).
  destruct (if s_cat sc then concat_data w3 (s_deps sc) else Some []) as [body|].
  - inversion H; subst. destruct (s_stamp sc); [|exact H03].
    eapply mr_trans; [exact H03|]. apply stamp_cmd_mr.
  - inversion H; subst. exact H03.
Qed.

Lemma record_new_state_mr runid t f sf before rc stdout has_tmp w :
  mr w (fst (record_new_state runid t f sf before rc stdout has_tmp w)).
Proof.
  unfold record_new_state, mr.
  match goal with
  | |- context [if Z.eqb ?rv 0 then _ else _] => destruct (Z.eqb rv 0)
  end.
  - destruct stdout as [c|], has_tmp;
      match goal with |- context [if ?b then _ else _] => destruct b end;
      cbn [fst dbs set_db put_row zap_deps2 maxrun];
      rewrite ?dbs_rename_file, ?dbs_write_file, ?dbs_remove_file; reflexivity.
  - cbn [fst dbs set_db put_row zap_deps2 maxrun]. rewrite dbs_remove_file. reflexivity.
Qed.

Lemma emit_output_mr t m out w : mr w (fst (fst (emit_output t m out w))).
Proof. unfold emit_output, mr. destruct out; [destruct m|]; cbn [fst]; rewrite ?dbs_write_file; reflexivity. Qed.

Lemma ss_run_mr rec e t f before sf evs0 df sc w w' evs rv ab :
  rec_mr rec -> ss_run rec e t f before sf evs0 df sc w = Ret (w', evs, rv, ab) -> mr w w'.
Proof.
  intros Hrec H. unfold ss_run in H. cbv zeta in H.
  destruct (from_name (dbs (remove_file w (tmp_of t))) (cand_key (updepth (remove_file w (tmp_of t))) df)) as [d3 dofid] eqn:Efn.
  pose proof (from_name_maxrun (dbs (remove_file w (tmp_of t))) (cand_key (updepth (remove_file w (tmp_of t))) df)) as Md3.
  rewrite Efn in Md3. cbn [fst] in Md3.
  match type of H with
  | context [script_body rec ?EC t sc ?W] => destruct (script_body rec EC t sc W) as [[[[w3 evs2] rcs] out]|] eqn:Esb; [|discriminate];
      pose proof (script_body_mr _ _ _ _ _ _ _ _ _ Hrec Esb) as M3
  end.
  pose proof (emit_output_mr t (s_out sc) out w3) as M4.
  destruct (emit_output t (s_out sc) out w3) as [[w4 hso] htmp]. cbn [fst] in M4.
  match type of H with
  | context [record_new_state ?A ?B ?C ?D ?E ?F ?G ?I w4] =>
      pose proof (record_new_state_mr A B C D E F G I w4) as M5;
      destruct (record_new_state A B C D E F G I w4) as [w5 rv5]; cbn [fst] in M5
  end.
  inversion H; subst. unfold mr in *. cbn [dbs set_db put_row maxrun remove_file] in *. congruence.
Qed.

Lemma ss_rest_mr rec e t f before sf evs0 w w' evs rv ab :
  rec_mr rec -> ss_rest rec e t f before sf evs0 w = Ret (w', evs, rv, ab) -> mr w w'.
Proof.
  intros Hrec H. unfold ss_rest in H. cbv zeta in H.
  destruct (exists_b w t && (r_ovr sf || negb (r_gen sf))); [inversion H; subst; reflexivity|].
  destruct (find_do_file w (zap_deps1 (dbs w) f) f (do_candidates (updepth w) t)) as [d2 found] eqn:Efd.
  pose proof (find_do_file_maxrun _ _ _ _ _ _ Efd) as Md2. cbn [zap_deps1 maxrun] in Md2.
  destruct found as [[df sc]|].
  - eapply mr_trans; [|eapply ss_run_mr; eauto]. exact Md2.
  - destruct (exists_b w t); inversion H; subst; unfold mr; cbn [dbs set_db put_row maxrun]; exact Md2.
Qed.

Lemma start_self_mr rec e t f before w w' evs rv ab :
  rec_mr rec -> start_self rec e t f before w = Ret (w', evs, rv, ab) -> mr w w'.
Proof.
  intros Hrec H. rewrite start_self_pieces in H. cbv zeta in H.
  destruct (ovr_now _ _).
  - eapply mr_trans; [|eapply ss_rest_mr; eauto]. reflexivity.
  - eapply ss_rest_mr; eauto.
Qed.

Lemma start_mr rec fuel e m t w w' evs rv ab :
  rec_mr rec -> start rec fuel e m t w = Ret (w', evs, rv, ab) -> mr w w'.
Proof.
  intros Hrec H. unfold start in H.
  destruct (from_name (dbs w) t) as [d0 f] eqn:E0.
  pose proof (from_name_maxrun (dbs w) t) as M0. rewrite E0 in M0. cbn [fst] in M0.
  assert (S0 : mr w (set_db w d0)) by exact M0.
  destruct m.
  - eapply mr_trans; [exact S0|]. eapply start_self_mr; eauto.
  - destruct (is_failed (e_runid e) (load (e_runid e) (dbs (set_db w d0)) f)); [inversion H; subst; exact S0|].
    destruct (is_dirty fuel (e_runid e) (e_cycles e) (set_db w d0) ChkDb f (load (e_runid e) (dbs (set_db w d0)) f) (e_runid e) [])
      as [[[[v wd] cd] evd]|] eqn:Ed; [|discriminate].
    pose proof (is_dirty_mr _ _ _ _ _ _ _ _ _ _ _ _ _ Ed) as Md.
    assert (S1 : mr w wd) by (eapply mr_trans; eauto).
    match type of H with
    | context [match ?V with VClean => _ | VDirty => _ | VNeed _ => _ | VCycle => _ end] => destruct V as [| |l|]
    end.
    + inversion H; subst. exact S1.
    + destruct (start_self rec e t f (fs_get (fs (set_db w d0)) t) wd) as [[[[w2 ev2] rv2] ab2]|] eqn:Ess; [|discriminate].
      cbn [prepend_events] in H. inversion H; subst. eapply mr_trans; [exact S1|]. eapply start_self_mr; eauto.
    + destruct (e_no_oob e).
      * destruct (start_self rec e t f (fs_get (fs (set_db w d0)) t) wd) as [[[[w2 ev2] rv2] ab2]|] eqn:Ess; [|discriminate].
        cbn [prepend_events] in H. inversion H; subst. eapply mr_trans; [exact S1|]. eapply start_self_mr; eauto.
      * match type of H with
        | context [rec ?E1 MIfChange ?NS wd] => destruct (rec E1 MIfChange NS wd) as [[[w1 ev1] rc1]|] eqn:Er1; [|discriminate];
            pose proof (Hrec _ _ _ _ _ _ _ Er1) as M1
        end.
        destruct (negb (Z.eqb rc1 0)); [inversion H; subst; eapply mr_trans; eauto|].
        match type of H with
        | context [rec ?E2 MIfChange [t] w1] => destruct (rec E2 MIfChange [t] w1) as [[[w2 ev2] rc2]|] eqn:Er2; [|discriminate];
            pose proof (Hrec _ _ _ _ _ _ _ Er2) as M2
        end.
        inversion H; subst. eapply mr_trans; [exact S1|]. eapply mr_trans; eauto.
    + inversion H; subst. exact S1.
Qed.

Lemma run_loop_mr job e :
  (forall t w w' evs rv ab, job t w = Ret (w', evs, rv, ab) -> mr w w') ->
  forall ts seen w evs errored w' evs' rc,
    run_loop job e ts seen w evs errored = Ret (w', evs', rc) -> mr w w'.
Proof.
  intros Hjob. induction ts as [|t ts IH]; intros seen w evs errored w' evs' rc H; cbn [run_loop] in H.
  - inversion H; subst. reflexivity.
  - destruct (errored && negb (e_keep_going e)); [inversion H; subst; reflexivity|].
    destruct (from_name (dbs w) t) as [d0 f] eqn:E0.
    pose proof (from_name_maxrun (dbs w) t) as M0. rewrite E0 in M0. cbn [fst] in M0.
    destruct (existsb (Nat.eqb f) seen).
    { eapply mr_trans; [|eapply IH; exact H]. exact M0. }
    destruct (negb (e_unlocked e) && existsb (Nat.eqb f) (e_cycles e)).
    { inversion H; subst. exact M0. }
    destruct (job t w) as [[[[w1 ev1] rv1] ab1]|] eqn:Ej; [|discriminate].
    pose proof (Hjob _ _ _ _ _ _ Ej) as S1.
    destruct ab1; [inversion H; subst; exact S1|].
    eapply mr_trans; [exact S1|]. eapply IH; exact H.
Qed.

Theorem build_mr : forall fuel e m ts w w' evs rc,
  build fuel e m ts w = Ret (w', evs, rc) -> mr w w'.
Proof.
  induction fuel as [|fuel IH]; intros e m ts w w' evs rc H; [discriminate|].
  cbn [build] in H.
  pose proof (frontend_deps_mr e m ts w) as S0.
  destruct (frontend_deps e m ts w) as [w0 self_dep]. cbn [fst] in S0.
  destruct self_dep; [inversion H; subst; exact S0|].
  eapply mr_trans; [exact S0|].
  eapply run_loop_mr; [|exact H].
  intros t w1 w1' evs1 rv1 ab1 Hs. eapply start_mr; [|exact Hs].
  intros e1 m1 ts1 wa wb evsb rcb Hb. eapply IH; exact Hb.
Qed.

(* a build command leaves the counter at the run id it took *)
Theorem exec_build_maxrun k ts w w' evs rc :
  exec (CIfChange k ts) w = (w', OutBuild evs rc) -> maxrun (dbs w') = (maxrun (dbs w) + 1)%Z.
Proof.
  unfold exec, new_run. cbv zeta.
  match goal with |- context [build ?F ?E MIfChange ts ?W] => destruct (build F E MIfChange ts W) as [[[w1 ev1] rc1]|] eqn:Eb end.
  - intro H. inversion H; subst. rewrite (build_mr _ _ _ _ _ _ _ _ Eb). reflexivity.
  - intro H. inversion H.
Qed.
