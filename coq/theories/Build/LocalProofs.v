(* Decision rules of the serial model stated outright as implications:
   the local (one-decision / one-step) facts behind C01-C03, C05, C11, C14,
   C17.  Each is about the executable definitions of Build/Model.v. *)
From Coq Require Import ZArith Lia.
From Redo Require Import Base.Bytes Base.BytesProofs Build.Model Build.FsLemmas Build.RecordProofs.

Lemma list_eqb_N_refl (l : list N) : list_eqb N.eqb l l = true.
Proof. induction l as [|x l IHl]; cbn; [reflexivity|]. now rewrite N.eqb_refl, IHl. Qed.

Lemma nth_set_nth (l : list row) : forall i x, (i < length l)%nat -> nth i (set_nth l i x) (empty_row []) = x.
Proof. induction l as [|y l IHl]; intros [|i] x Hi; cbn in *; try lia; auto. apply IHl. lia. Qed.

(* ------------------------------------------------------------ is_dirty *)
(* the first four rules of private_is_dirty, in order *)
Lemma is_dirty_failed fuel runid cyc w c f r mx seen :
  existsb (Nat.eqb f) seen = false ->
  r_failed r <> None ->
  is_dirty (S fuel) runid cyc w c f r mx seen = Ret (VDirty, w, c, []).
Proof.
  intros Hs Hf. cbn [is_dirty]. rewrite Hs.
  destruct (r_failed r); [reflexivity|congruence].
Qed.

Lemma is_dirty_never_built fuel runid cyc w c f r mx seen :
  existsb (Nat.eqb f) seen = false ->
  r_changed r = None ->
  is_dirty (S fuel) runid cyc w c f r mx seen = Ret (VDirty, w, c, []).
Proof.
  intros Hs Hc. cbn [is_dirty]. rewrite Hs, Hc.
  destruct (r_failed r); reflexivity.
Qed.

Lemma is_dirty_newer fuel runid cyc w c f r mx seen chg :
  existsb (Nat.eqb f) seen = false ->
  r_failed r = None ->
  r_changed r = Some chg -> (mx < chg)%Z ->
  is_dirty (S fuel) runid cyc w c f r mx seen = Ret (VDirty, w, c, []).
Proof.
  intros Hs Hf Hc Hlt. cbn [is_dirty]. rewrite Hs, Hf, Hc.
  apply Z.ltb_lt in Hlt. now rewrite Hlt.
Qed.

Lemma is_dirty_cycle fuel runid cyc w c f r mx seen :
  existsb (Nat.eqb f) seen = true ->
  is_dirty (S fuel) runid cyc w c f r mx seen = Ret (VDirty, w, c, []).
Proof. intros Hs. cbn [is_dirty]. now rewrite Hs. Qed.

(* a property I of worlds kept by every sub-check (of the edges in the list,
   each with its snapshot row) holds wherever the walk stops; J is what is
   wanted of the final world: I implies it, also across the final write-back *)
Lemma walk_deps_inv2 (I J : world -> Prop) (Q : dep -> row -> Prop) isd runid f r :
  (forall w1 c1 d rs v w' c' evs, Q d rs -> I w1 -> isd w1 c1 (d_source d) rs = Ret (v, w', c', evs) -> I w') ->
  (forall w1, I w1 -> J w1) ->
  (forall w1, I w1 -> J (set_db w1 (put_row (dbs w1) f (set_checked runid r)))) ->
  forall ds w0 c0 must evs0 v w' c' evs,
    Forall (fun x => Q (fst x) (snd x)) ds ->
    I w0 -> walk_deps isd runid f r ds w0 c0 must evs0 = Ret (v, w', c', evs) -> J w'.
Proof.
  intros Hisd HJ Hput. induction ds as [|[d rs] ds IHds]; intros w0 c0 must evs0 v w' c' evs HQ Hw0 H; cbn [walk_deps] in H.
  - destruct must; [destruct c0|]; inversion H; subst; auto.
  - inversion HQ as [|x l Hq Hqs]; subst. cbn [fst snd] in Hq. destruct (d_mode d).
    + destruct (exists_b w0 (r_name rs)).
      * inversion H; subst. auto.
      * eapply IHds; [exact Hqs| |exact H]. exact Hw0.
    + destruct (isd w0 c0 (d_source d) rs) as [[[[v1 w1] c1] e1]|] eqn:E; [|discriminate].
      pose proof (Hisd _ _ _ _ _ _ _ _ Hq Hw0 E) as H1. destruct v1.
      * eapply IHds; [exact Hqs| |exact H]. exact H1.
      * inversion H; subst. auto.
      * eapply IHds; [exact Hqs| |exact H]. exact H1.
      * inversion H; subst. auto.
Qed.

Lemma walk_deps_inv (I : world -> Prop) (Q : dep -> row -> Prop) isd runid f r :
  (forall w1 c1 d rs v w' c' evs, Q d rs -> I w1 -> isd w1 c1 (d_source d) rs = Ret (v, w', c', evs) -> I w') ->
  (forall w1, I w1 -> I (set_db w1 (put_row (dbs w1) f (set_checked runid r)))) ->
  forall ds w0 c0 must evs0 v w' c' evs,
    Forall (fun x => Q (fst x) (snd x)) ds ->
    I w0 -> walk_deps isd runid f r ds w0 c0 must evs0 = Ret (v, w', c', evs) -> I w'.
Proof. intros H1 H2. apply (walk_deps_inv2 I I Q); auto. Qed.

Lemma Forall_trivial {A} (l : list A) : Forall (fun _ => True) l.
Proof. induction l; constructor; auto. Qed.

(* the snapshot rows are the rows of the database at query time *)
Lemma deps_rows_loaded runid d r f :
  Forall (fun x => In (fst x) (deps_of d r f) /\ snd x = load runid d (d_source (fst x))) (deps_rows runid d r f).
Proof.
  unfold deps_rows. induction (deps_of d r f) as [|x l IH]; cbn; constructor.
  - cbn. auto.
  - eapply Forall_impl; [|exact IH]. cbn. intros y [H1 H2]. auto.
Qed.

(* is_dirty never touches a file: only the database may change *)
Lemma is_dirty_fs : forall fuel runid cyc w c f r mx seen v w' c' evs,
  is_dirty fuel runid cyc w c f r mx seen = Ret (v, w', c', evs) -> fs w' = fs w.
Proof.
  induction fuel as [|fuel IH]; intros runid cyc w c f r mx seen v w' c' evs H; [discriminate|].
  cbn [is_dirty] in H.
  destruct (existsb (Nat.eqb f) seen); [inversion H; reflexivity|].
  destruct (r_failed r); [inversion H; reflexivity|].
  destruct (r_changed r) as [chg|]; [|inversion H; reflexivity].
  destruct (Z.ltb mx chg); [inversion H; reflexivity|].
  destruct (chk_is_checked c runid r f); [inversion H; reflexivity|].
  destruct (r_stamp r) as [old|]; [|inversion H; reflexivity].
  destruct (negb (stamp_eqb old (read_stamp w (r_name r)))).
  { inversion H; subst. unfold forget_missing.
    destruct (read_stamp w (r_name r)); [destruct (r_gen r)|]; reflexivity. }
  eapply (walk_deps_inv (fun w1 => fs w1 = fs w) (fun _ _ => True)); [| |apply Forall_trivial|reflexivity|exact H].
  - intros w1 c1 d rs v1 w1' c1' e1 _ Hw1 E. cbv beta in E.
    destruct (existsb (Nat.eqb (d_source d)) cyc); [inversion E; subst; exact Hw1|].
    rewrite <- Hw1. eapply IH; exact E.
  - intros w1 Hw1. exact Hw1.
Qed.

(* ------------------------------------------------------------ C05 *)
(* a target that failed in this run is not started again: status 32, nothing touched *)
Lemma start_failed_this_run rec fuel e t w :
  let '(d0, f) := from_name (dbs w) t in
  is_failed (e_runid e) (load (e_runid e) d0 f) = true ->
  start rec fuel e MIfChange t w = Ret (set_db w d0, [EvFailed32 t], 32%Z, false).
Proof.
  destruct (from_name (dbs w) t) as [d0 f] eqn:E. intro H.
  unfold start. rewrite E. cbn [dbs set_db]. now rewrite H.
Qed.

(* once a failure is known and --keep-going is off, no further job is started *)
Lemma run_loop_stops job e ts seen w evs :
  e_keep_going e = false ->
  run_loop job e ts seen w evs true = Ret (w, evs, 1%Z).
Proof. intro H. destruct ts; cbn [run_loop]; [reflexivity|]. now rewrite H. Qed.

(* the failure record: a job that ends non-zero marks its row failed in this run *)
Lemma record_failure_marks runid t f sf before rc stdout has_tmp w :
  (1 <= f <= length (rows (dbs w)))%nat ->
  snd (record_new_state runid t f sf before rc stdout has_tmp w) <> 0%Z ->
  r_failed (get_row (dbs (fst (record_new_state runid t f sf before rc stdout has_tmp w))) f) = Some runid.
Proof.
  intros Hf H. unfold record_new_state in *.
  match goal with
  | |- context [if Z.eqb ?rv 0 then _ else _] => destruct (Z.eqb rv 0) eqn:Erv
  end.
  - exfalso. apply H. match goal with |- snd (let '(_, _) := ?X in _) = _ => destruct X end.
    cbn [snd]. now apply Z.eqb_eq.
  - cbn [fst dbs set_db]. unfold get_row, put_row. cbn [rows].
    rewrite nth_set_nth; [reflexivity|]. unfold zap_deps2. cbn [rows]. unfold remove_file. cbn [dbs]. lia.
Qed.

(* ------------------------------------------------------------ C14 *)
Lemma ifcreate_existing_errors t ns w :
  ns <> [] -> existsb (exists_b w) ns = true -> ifcreate_cmd t ns w = (w, 1%Z).
Proof. intros Hne H. unfold ifcreate_cmd. destruct ns; [congruence|]. now rewrite H. Qed.

Lemma ifcreate_absent_ok t ns w :
  existsb (exists_b w) ns = false -> snd (ifcreate_cmd t ns w) = 0%Z /\ fs (fst (ifcreate_cmd t ns w)) = fs w.
Proof. intro H. unfold ifcreate_cmd. destruct ns; [auto|]. rewrite H. auto. Qed.

(* //ALWAYS is newer than anything built in an earlier run: view_row *)
Lemma always_view_changed runid r :
  r_name r = always_name ->
  exists c, r_changed (view_row runid r) = Some c /\ (runid <= c)%Z.
Proof.
  intro H. unfold view_row. rewrite H, bytes_eqb_refl. cbn [r_changed].
  destruct (r_changed r) as [c|]; eexists; split; try reflexivity; lia.
Qed.

(* ------------------------------------------------------------ C03 *)
(* redo-stamp with unchanged bytes leaves changed_runid alone (dependents see
   no change); with different bytes it sets changed_runid to this run *)
Lemma stamp_unchanged_keeps_changed runid t content w :
  let '(d1, me) := from_name (dbs w) t in
  r_csum (load runid d1 me) = Some content ->
  (1 <= me <= length (rows d1))%nat ->
  let r' := get_row (dbs (stamp_cmd runid t content w)) me in
  r_changed r' = r_changed (load runid d1 me) /\ r_checked r' = Some runid /\ r_csum r' = Some content.
Proof.
  destruct (from_name (dbs w) t) as [d1 me] eqn:E. intros Hc Hme. cbn zeta.
  unfold stamp_cmd. rewrite E, Hc.
  rewrite list_eqb_N_refl. cbn [negb dbs set_db]. unfold get_row, put_row. cbn [rows].
  rewrite nth_set_nth by lia. cbn. auto.
Qed.

Lemma stamp_changed_sets_changed runid t content w :
  let '(d1, me) := from_name (dbs w) t in
  r_csum (load runid d1 me) <> Some content ->
  (forall old, r_csum (load runid d1 me) = Some old -> list_eqb N.eqb old content = false) ->
  (1 <= me <= length (rows d1))%nat ->
  let r' := get_row (dbs (stamp_cmd runid t content w)) me in
  r_changed r' = Some runid /\ r_csum r' = Some content /\ r_failed r' = None /\ r_gen r' = true.
Proof.
  destruct (from_name (dbs w) t) as [d1 me] eqn:E. intros Hc Hneq Hme. cbn zeta.
  unfold stamp_cmd. rewrite E.
  destruct (r_csum (load runid d1 me)) as [old|] eqn:Eo.
  - rewrite (Hneq old eq_refl). cbn [negb dbs set_db]. unfold get_row, put_row. cbn [rows].
    rewrite nth_set_nth by lia. cbn. auto.
  - cbn [dbs set_db]. unfold get_row, put_row. cbn [rows]. rewrite nth_set_nth by lia. cbn. auto.
Qed.

(* ------------------------------------------------------------ C17 *)
(* the three query commands change nothing but the run-id counter *)
Lemma query_readonly c w :
  (c = COod \/ c = CTargets \/ c = CSources) ->
  fs (fst (exec c w)) = fs w /\ rows (dbs (fst (exec c w))) = rows (dbs w)
  /\ deps (dbs (fst (exec c w))) = deps (dbs w) /\ clock (fst (exec c w)) = clock w.
Proof.
  intros [H|[H|H]]; subst c; unfold exec, new_run; cbn [fst snd].
  - match goal with |- context [fold_left ?f ?l ?a] => destruct (fold_left f l a) as [[[[? ?] ?] b]|] end;
      [destruct b|]; cbn; auto.
  - cbn. auto.
  - cbn. auto.
Qed.

(* targets and sources are disjoint *)
Lemma target_source_disjoint runid w r : is_target runid w r = true -> is_source runid w r = false.
Proof. unfold is_target. destruct (r_gen r); [|discriminate]. now intros ->%negb_true_iff. Qed.

(* what is in neither list: special names, and files that have gone missing *)
Lemma neither_target_nor_source runid w r :
  is_target runid w r = false -> is_source runid w r = false ->
  is_prefix [slash; slash] (r_name r) = true
  \/ stamp_eqb (read_stamp w (r_name r)) SMissing = true
  \/ (r_gen r = false /\ False).
Proof.
  unfold is_target, is_source.
  destruct (is_prefix [slash; slash] (r_name r)); [auto|].
  set (ns := read_stamp w (r_name r)).
  destruct (r_gen r) eqn:G; cbn [andb negb orb].
  - destruct ((negb (is_failed runid r) || negb (stamp_eqb ns SMissing)) && negb (r_ovr r) && ostamp_eqb (r_stamp r) ns); cbn; [discriminate|].
    destruct (negb (ostamp_eqb (r_stamp r) ns) && stamp_eqb ns SMissing) eqn:E; [|discriminate].
    apply andb_true_iff in E as [_ E]. auto.
  - intros _. destruct (stamp_eqb ns SMissing); [auto|discriminate].
Qed.

(* ------------------------------------------------------------ C11 *)
(* a file that exists and is not redo's (never generated, or overridden, or no
   longer carrying the stamp redo recorded) is left alone by a job: status 0,
   and the file system is untouched *)
Lemma start_self_leaves_user_file rec e t f before w :
  exists_b w t = true ->
  let sf := load (e_runid e) (dbs w) f in
  (r_gen sf = false \/ r_ovr sf = true
   \/ match r_stamp sf with Some s => detect_override s (read_stamp w t) = true | None => True end) ->
  exists w' evs, start_self rec e t f before w = Ret (w', evs, 0%Z, false) /\ fs w' = fs w.
Proof.
  intros Hex sf H. unfold start_self. fold sf.
  assert (Hns : stamp_eqb (read_stamp w t) SMissing = false).
  { unfold read_stamp, exists_b in *. destruct (fs_get (fs w) t); [reflexivity|discriminate]. }
  rewrite Hns. cbn [negb andb].
  assert (Hex2 : forall d, exists_b (set_db w d) t = true) by (intro d; exact Hex).
  destruct (r_gen sf) eqn:G; destruct (r_ovr sf) eqn:O; cbn [andb orb negb].
  - (* generated, already overridden *)
    rewrite Hex2. cbn [andb orb].
    destruct (ostamp_eqb (r_stamp sf) (read_stamp w t)).
    + rewrite O. cbn [orb]. eexists _, _. split; reflexivity.
    + cbn [r_ovr upd_row]. cbn [orb]. eexists _, _. split; reflexivity.
  - (* generated, stamp differs now: becomes overridden *)
    assert (Ho : match r_stamp sf with Some s => detect_override s (read_stamp w t) | None => true end = true).
    { destruct H as [H|[H|H]]; try discriminate. destruct (r_stamp sf); [exact H|reflexivity]. }
    rewrite Ho. rewrite Hex2.
    assert (O' : r_ovr (set_override (e_runid e) w sf) = true) by reflexivity.
    rewrite O'. cbn [andb orb]. eexists _, _. split; reflexivity.
  - rewrite Hex, O, G. cbn [andb orb negb]. eexists _, _. split; reflexivity.
  - rewrite Hex, O, G. cbn [andb orb negb]. eexists _, _. split; reflexivity.
Qed.

(* ------------------------------------------------------------ C07 / C12 *)
(* a target already handled in this command under another spelling is skipped *)
Lemma run_loop_skips_seen job e t ts seen w evs errored :
  (errored && negb (e_keep_going e)) = false ->
  let '(d0, f) := from_name (dbs w) t in
  existsb (Nat.eqb f) seen = true ->
  run_loop job e (t :: ts) seen w evs errored = run_loop job e ts seen (set_db w d0) evs errored.
Proof.
  intro H. destruct (from_name (dbs w) t) as [d0 f] eqn:E. intro Hs.
  cbn [run_loop]. now rewrite H, E, Hs.
Qed.

(* a target that an ancestor is building right now ends the command with 208
   before any job is started for it *)
Lemma run_loop_cycle job e t ts seen w evs errored :
  (errored && negb (e_keep_going e)) = false ->
  e_unlocked e = false ->
  let '(d0, f) := from_name (dbs w) t in
  existsb (Nat.eqb f) seen = false ->
  existsb (Nat.eqb f) (e_cycles e) = true ->
  run_loop job e (t :: ts) seen w evs errored = Ret (set_db w d0, evs, 208%Z).
Proof.
  intros H Hu. destruct (from_name (dbs w) t) as [d0 f] eqn:E. intros Hs Hc.
  cbn [run_loop]. now rewrite H, E, Hs, Hu, Hc.
Qed.

(* a script asking for its own target is refused with 208 *)
Lemma build_self_dependency fuel e me ts w :
  e_target e = Some me -> e_unlocked e = false -> e_no_oob e = false ->
  existsb (bytes_eqb me) ts = true ->
  build (S fuel) e MIfChange ts w = Ret (w, [], 208%Z).
Proof.
  intros Ht Hu Ho Hin. cbn [build]. unfold frontend_deps. now rewrite Ht, Hu, Ho, Hin.
Qed.

(* a dependency met again while it is being checked: the recorded rows form a
   cycle; the walk stops there with "dirty" and changes nothing *)
Lemma is_dirty_cycle_detected fuel runid cyc w c f r mx seen :
  existsb (Nat.eqb f) seen = true ->
  is_dirty (S fuel) runid cyc w c f r mx seen = Ret (VDirty, w, c, []).
Proof. exact (is_dirty_cycle fuel runid cyc w c f r mx seen). Qed.

(* ------------------------------------------------------------ C05: propagation *)
Lemma status_of_nonzero before after rc stdout has_tmp :
  rc <> 0%Z -> status_of before after rc stdout has_tmp <> 0%Z.
Proof.
  intro H. unfold status_of.
  destruct (modified_b before after); [discriminate|].
  destruct (has_tmp && match stdout with Some _ => true | None => false end); [discriminate|exact H].
Qed.

(* only a cyclic dependency makes a job abort its whole process, with 208 *)
Lemma start_self_never_aborts rec e t f before w w' evs rv ab :
  start_self rec e t f before w = Ret (w', evs, rv, ab) -> ab = false.
Proof.
  unfold start_self. intro H.
  repeat match type of H with
  | context [match ?X with _ => _ end] => destruct X; try discriminate
  end;
  inversion H; reflexivity.
Qed.

Lemma start_abort_is_208 rec fuel e m t w w' evs rv :
  start rec fuel e m t w = Ret (w', evs, rv, true) -> rv = 208%Z.
Proof.
  unfold start. destruct (from_name (dbs w) t) as [d0 f].
  destruct m.
  - intro H. apply start_self_never_aborts in H. discriminate.
  - destruct (is_failed _ _); [intro H; inversion H|].
    destruct (is_dirty _ _ _ _ _ _ _ _) as [[[[v w1] c1] evd]|]; [|discriminate].
    set (v' := match v with VNeed [x] => if Nat.eqb x f then VDirty else v | _ => v end).
    destruct v'.
    + intro H. inversion H.
    + unfold prepend_events. destruct (start_self _ _ _ _ _ _) as [[[[? ?] ?] ab]|] eqn:E; [|discriminate].
      apply start_self_never_aborts in E. subst. intro H. inversion H.
    + destruct (e_no_oob e).
      * unfold prepend_events. destruct (start_self _ _ _ _ _ _) as [[[[? ?] ?] ab]|] eqn:E; [|discriminate].
        apply start_self_never_aborts in E. subst. intro H. inversion H.
      * destruct (rec _ _ _ _) as [[[? ?] rc1]|]; [|discriminate].
        destruct (negb (Z.eqb rc1 0)); [intro H; inversion H|].
        destruct (rec _ _ _ _) as [[[? ?] ?]|]; intro H; inversion H.
    + intro H. inversion H. reflexivity.
Qed.

(* a command in which some job has failed never exits 0 *)
Lemma run_loop_errored_nonzero rec fuel e m : forall ts seen w evs w' evs' rc,
  run_loop (start rec fuel e m) e ts seen w evs true = Ret (w', evs', rc) -> rc <> 0%Z.
Proof.
  induction ts as [|t ts IH]; intros seen w evs w' evs' rc H; cbn [run_loop] in H.
  - inversion H. discriminate.
  - destruct (true && negb (e_keep_going e)); [inversion H; discriminate|].
    destruct (from_name (dbs w) t) as [d0 f].
    destruct (existsb (Nat.eqb f) seen); [eapply IH; exact H|].
    destruct (negb (e_unlocked e) && existsb (Nat.eqb f) (e_cycles e)); [inversion H; discriminate|].
    destruct (start rec fuel e m t w) as [[[[w1 e1] rv] ab]|] eqn:E; [|discriminate].
    destruct ab.
    + apply start_abort_is_208 in E. inversion H; subst. discriminate.
    + cbn [orb] in H. eapply IH. exact H.
Qed.

(* ... and a failing job makes the command fail, whatever comes after it *)
Lemma run_loop_job_failure_propagates rec fuel e m t ts seen w evs w1 ev1 rv w' evs' rc :
  (false && negb (e_keep_going e)) = false ->
  let '(d0, f) := from_name (dbs w) t in
  existsb (Nat.eqb f) seen = false ->
  (negb (e_unlocked e) && existsb (Nat.eqb f) (e_cycles e)) = false ->
  start rec fuel e m t w = Ret (w1, ev1, rv, false) -> rv <> 0%Z ->
  run_loop (start rec fuel e m) e (t :: ts) seen w evs false = Ret (w', evs', rc) -> rc <> 0%Z.
Proof.
  intros _. destruct (from_name (dbs w) t) as [d0 f] eqn:Ef. intros Hs Hc Hst Hrv H.
  cbn [run_loop andb] in H. rewrite Ef, Hs, Hc, Hst in H.
  assert (Hn : negb (Z.eqb rv 0) = true) by (apply negb_true_iff, Z.eqb_neq; exact Hrv).
  rewrite Hn in H. cbn [orb] in H. eapply run_loop_errored_nonzero. exact H.
Qed.

(* a script whose redo-ifchange fails ends its job with a non-zero status *)
Lemma script_body_dep_failure rec envc t sc w w1 evs rc_deps :
  s_deps sc <> [] -> s_tol sc = false ->
  rec envc MIfChange (s_deps sc) w = Ret (w1, evs, rc_deps) -> rc_deps <> 0%Z ->
  script_body rec envc t sc w = Ret (w1, evs, rc_deps, None).
Proof.
  intros Hne Htol Hrec Hrc. unfold script_body. rewrite Htol.
  destruct (s_deps sc) as [|d ds] eqn:Ed; [congruence|]. rewrite Hrec.
  assert (Hn : negb (Z.eqb rc_deps 0) = true) by (apply negb_true_iff, Z.eqb_neq; exact Hrc).
  now rewrite Hn.
Qed.

(* ------------------------------------------------------------ C07 (serial part): at most once per run *)
(* a row that was built (changed) or verified (checked) in this run and carries
   no failure mark is clean for every further request of this run: no script
   is started for it again, whatever its dependencies look like now *)
Lemma start_dealt_with_this_run rec fuel e t w chg :
  let '(d0, f) := from_name (dbs w) t in
  let r := load (e_runid e) d0 f in
  r_failed r = None -> r_changed r = Some chg -> (chg <= e_runid e)%Z ->
  (is_checked (e_runid e) r || is_changed (e_runid e) r) = true ->
  start rec (S fuel) e MIfChange t w =
    Ret (set_db w d0, if r_gen r then [EvUnchanged t] else [], 0%Z, false).
Proof.
  destruct (from_name (dbs w) t) as [d0 f] eqn:Ef. cbv zeta. intros Hf Hc Hle Hd.
  unfold start. rewrite Ef. cbv zeta. cbn [dbs set_db].
  assert (Hnf : is_failed (e_runid e) (load (e_runid e) d0 f) = false) by (unfold is_failed; now rewrite Hf).
  rewrite Hnf. cbn [is_dirty existsb]. rewrite Hf, Hc.
  assert (Hlt : Z.ltb (e_runid e) chg = false) by (apply Z.ltb_ge; exact Hle).
  rewrite Hlt. cbn [chk_is_checked]. rewrite Hd. cbn [app dbs set_db]. reflexivity.
Qed.


(* fix F66: a recorded dependency on a target that an ancestor of the checking
   process is building is judged dirty without being looked at *)
Lemma is_dirty_dep_in_mid_build : forall fuel runid cyc w c f r mx seen chg old d ds,
  existsb (Nat.eqb f) seen = false -> r_failed r = None -> r_changed r = Some chg -> Z.ltb mx chg = false ->
  chk_is_checked c runid r f = false -> r_stamp r = Some old -> stamp_eqb old (read_stamp w (r_name r)) = true ->
  deps_of (dbs w) r f = d :: ds -> d_mode d = DModified -> existsb (Nat.eqb (d_source d)) cyc = true ->
  is_dirty (S fuel) runid cyc w c f r mx seen
  = Ret (match r_csum r with Some _ => VNeed [f] | None => VDirty end, w, c, nil).
Proof.
  intros fuel runid cyc w c f r mx seen chg old d ds Hs Hf Hc Hl Hk Hst Hok Hd Hm Hcy.
  cbn [is_dirty]. rewrite Hs, Hf, Hc, Hl, Hk, Hst, Hok. cbn [negb]. unfold deps_rows. rewrite Hd.
  cbn [map walk_deps]. rewrite Hm, Hcy. reflexivity.
Qed.
