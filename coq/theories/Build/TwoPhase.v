(* The two-phase replacement of a target's dependency list (C02: "a dependency
   that a target stopped declaring no longer triggers it"): start_self flags
   every edge of the target (zap_deps1), the script's redo-ifchange /
   redo-ifcreate / redo-always calls insert or replace edges unflagged
   (add_dep), and the recording of a successful result deletes what is still
   flagged (zap_deps2).  Whatever is declared in between, by whomever: afterwards
   the target's edges are exactly the ones declared during the build, and nobody
   else's edges have been touched by the two zaps.  PROOFS over Build/Model.v. *)
From Coq Require Import ZArith List Bool Lia Arith.
From Redo Require Import Base.Bytes Build.Model.
Import ListNotations.

(* what happens to the Deps table between the two zaps *)
Definition decl := (fid * dmode * fid)%type.       (* target, mode, source *)
Definition declare (d : db) (x : decl) : db := let '(t, m, s) := x in add_dep d t m s.
Definition declare_all (d : db) (l : list decl) : db := fold_left declare l d.

Lemma in_add_dep d t m s x :
  In x (deps (add_dep d t m s)) <->
  (In x (deps d) /\ dep_key_eqb t s x = false)
  \/ x = {| d_target := t; d_source := s; d_mode := m; d_delete := false |}.
Proof.
  unfold add_dep. cbn [deps]. rewrite in_app_iff, filter_In. cbn [In].
  rewrite negb_true_iff. intuition (auto; congruence).
Qed.

(* an edge of [t] that survives the declarations and is unflagged was declared *)
Lemma unflagged_was_declared t : forall l d x,
  (forall y, In y (deps d) -> d_target y = t -> d_delete y = true) ->
  In x (deps (declare_all d l)) -> d_target x = t -> d_delete x = false ->
  exists m, In (t, m, d_source x) l /\ d_mode x = m.
Proof.
  induction l as [|[[t1 m1] s1] l IH] using rev_ind; intros d x Hflag Hin Ht Hd.
  - cbn in Hin. specialize (Hflag _ Hin Ht). congruence.
  - unfold declare_all in Hin. rewrite fold_left_app in Hin. cbn [fold_left declare] in Hin.
    apply in_add_dep in Hin as [[Hin _]|Hx].
    + destruct (IH d x Hflag Hin Ht Hd) as (m & Hm & Hmode). exists m. split; [apply in_app_iff; now left|exact Hmode].
    + subst x. cbn in Ht. subst t1. exists m1. split; [apply in_app_iff; right; now left|reflexivity].
Qed.

Lemma zap1_flags d t y : In y (deps (zap_deps1 d t)) -> d_target y = t -> d_delete y = true.
Proof.
  unfold zap_deps1. cbn [deps]. rewrite in_map_iff. intros (z & Hz & _) Ht.
  destruct (Nat.eqb (d_target z) t) eqn:E; subst y; [reflexivity|].
  apply Nat.eqb_neq in E. congruence.
Qed.

(* after start, any declarations, and a successful record: every edge of the
   target was declared during the build, with the mode it now has *)
Theorem edges_are_the_declared_ones d t l x :
  In x (deps (zap_deps2 (declare_all (zap_deps1 d t) l) t)) -> d_target x = t ->
  d_delete x = false /\ exists m, In (t, m, d_source x) l /\ d_mode x = m.
Proof.
  unfold zap_deps2 at 1. cbn [deps]. rewrite filter_In, negb_true_iff. intros [Hin Hk] Ht.
  rewrite Ht, Nat.eqb_refl in Hk. cbn [andb] in Hk. split; [exact Hk|].
  eapply unflagged_was_declared; eauto. intros y. apply zap1_flags.
Qed.

(* ... and every declaration of an edge of the target that was not replaced by
   a later declaration of the same edge is there *)
Lemma last_declaration_stays t m s : forall l d,
  (forall m' , ~ In (t, m', s) l) ->
  In {| d_target := t; d_source := s; d_mode := m; d_delete := false |} (deps d) ->
  In {| d_target := t; d_source := s; d_mode := m; d_delete := false |} (deps (declare_all d l)).
Proof.
  induction l as [|[[t1 m1] s1] l IH]; intros d Hno Hin; [exact Hin|].
  cbn [declare_all fold_left declare]. apply IH.
  - intros m' H. apply (Hno m'). now right.
  - apply in_add_dep. left. split; [exact Hin|].
    unfold dep_key_eqb. cbn [d_target d_source].
    destruct (Nat.eqb t t1) eqn:E1; [|now rewrite andb_false_l || (cbn; reflexivity)].
    destruct (Nat.eqb s s1) eqn:E2; [|now rewrite andb_false_r].
    apply Nat.eqb_eq in E1, E2. subst. exfalso. apply (Hno m1). now left.
Qed.

Theorem declared_edges_are_kept d t l1 m s l2 :
  (forall m', ~ In (t, m', s) l2) ->
  In {| d_target := t; d_source := s; d_mode := m; d_delete := false |}
     (deps (zap_deps2 (declare_all (zap_deps1 d t) (l1 ++ (t, m, s) :: l2)) t)).
Proof.
  intro Hno. unfold zap_deps2. cbn [deps]. apply filter_In. split.
  - unfold declare_all. rewrite fold_left_app. cbn [fold_left declare].
    apply last_declaration_stays; [exact Hno|]. apply in_add_dep. now right.
  - cbn [d_target d_delete]. now rewrite andb_false_r.
Qed.

(* the two zaps touch nobody else's edges *)
Lemma zap1_other d t x : d_target x <> t -> (In x (deps (zap_deps1 d t)) <-> In x (deps d)).
Proof.
  intro Hne. unfold zap_deps1. cbn [deps]. rewrite in_map_iff. split.
  - intros (z & Hz & Hin). destruct (Nat.eqb (d_target z) t) eqn:E; subst x; [|exact Hin].
    apply Nat.eqb_eq in E. cbn in Hne. congruence.
  - intro Hin. exists x. split; [|exact Hin].
    destruct (Nat.eqb (d_target x) t) eqn:E; [apply Nat.eqb_eq in E; congruence|reflexivity].
Qed.
Lemma zap2_other d t x : d_target x <> t -> (In x (deps (zap_deps2 d t)) <-> In x (deps d)).
Proof.
  intro Hne. unfold zap_deps2. cbn [deps]. rewrite filter_In.
  destruct (Nat.eqb (d_target x) t) eqn:E; [apply Nat.eqb_eq in E; congruence|]. cbn. tauto.
Qed.
