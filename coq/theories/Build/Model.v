(* L2: the serial (-j1) build semantics of redo-rs, mirroring the Rust code
   function by function: deps.rs (private_is_dirty), builder.rs (run, start,
   start_self, start_deps_unlocked, record_new_state), state.rs (File
   setters), and the command front ends ifchange / redo / unlocked / stamp /
   always / ifcreate / ood / targets / sources.

   One flat project directory; file names are byte strings without '/'.
   A .do file is a file whose [f_script] is set; scripts are terms of a small
   DSL that the end-to-end harness renders as sh scripts, so model and
   implementation run the same programs.  MODEL FILE: definitions only. *)
From Coq Require Import ZArith.
From Redo Require Export Base.Bytes DoFiles.Candidates.
Open Scope N_scope.

Definition name := bytes.
Definition fid := nat.                    (* row id, 1-based; 1 is //ALWAYS *)

Inductive out_mode := OStdout | ODollar3 | ONeither | OBoth | ODirect.

Record script := {
  s_deps : list name;       (* redo-ifchange d1 d2 ... (one call; nothing if empty) *)
  s_ifcreate : list name;   (* redo-ifcreate ... *)
  s_always : bool;          (* redo-always *)
  s_stamp : bool;           (* redo-stamp < output *)
  s_out : out_mode;
  s_payload : N;            (* first line of the output *)
  s_cat : bool;             (* output also contains the contents of s_deps, in order *)
  s_exit : Z;               (* exit status after producing the output *)
  s_tol : bool              (* the script goes on when its redo-ifchange fails ("redo-ifchange ... || true") *)
}.

Record file := { f_data : list N; f_script : option script; f_mt : N }.

Inductive stamp := SMissing | SFile (mt sz : N).

Definition stamp_eqb (a b : stamp) : bool :=
  match a, b with
  | SMissing, SMissing => true
  | SFile m1 s1, SFile m2 s2 => N.eqb m1 m2 && N.eqb s1 s2
  | _, _ => false
  end.

(* Stamp::detect_override: differ, and differ in (mtime, size) *)
Definition detect_override (a b : stamp) : bool := negb (stamp_eqb a b).

Definition ostamp_eqb (a : option stamp) (b : stamp) : bool :=
  match a with Some s => stamp_eqb s b | None => false end.

Record row := {
  r_name : name;
  r_gen : bool;
  r_ovr : bool;
  r_checked : option Z;
  r_changed : option Z;
  r_failed : option Z;
  r_stamp : option stamp;
  r_csum : option (list N)      (* the checksum is modelled by the stamped bytes themselves *)
}.

Inductive dmode := DCreated | DModified.
Record dep := { d_target : fid; d_source : fid; d_mode : dmode; d_delete : bool }.

Record db := { rows : list row; deps : list dep; maxrun : Z }.
Record world := { fs : list (name * file); dbs : db; clock : N;
                  updepth : nat;  (* number of directories above the project directory *)
                  hints : list name (* order in which out-of-band targets are handed to redo-unlocked
                                       (a HashSet in the code: nondeterministic; observed from the run) *) }.

(* ---------------------------------------------------------------- fs *)
Fixpoint fs_get (l : list (name * file)) (n : name) : option file :=
  match l with
  | [] => None
  | (k, v) :: l' => if bytes_eqb k n then Some v else fs_get l' n
  end.
Fixpoint fs_del (l : list (name * file)) (n : name) : list (name * file) :=
  match l with
  | [] => []
  | (k, v) :: l' => if bytes_eqb k n then fs_del l' n else (k, v) :: fs_del l' n
  end.
Definition fs_put (l : list (name * file)) (n : name) (f : file) := (n, f) :: fs_del l n.

Definition exists_b (w : world) (n : name) : bool :=
  match fs_get (fs w) n with Some _ => true | None => false end.

Definition read_stamp (w : world) (n : name) : stamp :=
  match fs_get (fs w) n with
  | Some f => SFile (f_mt f) (N.of_nat (length (f_data f)))
  | None => SMissing
  end.

(* every write takes a fresh mtime (A-STAMP) *)
Definition write_file (w : world) (n : name) (data : list N) (sc : option script) : world :=
  {| fs := fs_put (fs w) n {| f_data := data; f_script := sc; f_mt := clock w |};
     dbs := dbs w; clock := clock w + 1; updepth := updepth w; hints := hints w |}.
Definition remove_file (w : world) (n : name) : world :=
  {| fs := fs_del (fs w) n; dbs := dbs w; clock := clock w; updepth := updepth w; hints := hints w |}.
(* rename keeps the bytes; the destination is a new inode with the source's mtime *)
Definition rename_file (w : world) (src dst : name) : world :=
  match fs_get (fs w) src with
  | Some f => {| fs := fs_put (fs_del (fs w) src) dst f; dbs := dbs w; clock := clock w; updepth := updepth w;
                 hints := hints w |}
  | None => w
  end.

Definition set_db (w : world) (d : db) : world :=
  {| fs := fs w; dbs := d; clock := clock w; updepth := updepth w; hints := hints w |}.

(* ---------------------------------------------------------------- db *)
Definition always_name : name := [47;47;65;76;87;65;89;83].   (* "//ALWAYS" *)
Definition first_runid : Z := 1000000000%Z.

Definition empty_row (n : name) : row :=
  {| r_name := n; r_gen := false; r_ovr := false; r_checked := None; r_changed := None;
     r_failed := None; r_stamp := None; r_csum := None |}.

Definition init_db : db := {| rows := [empty_row always_name]; deps := []; maxrun := first_runid |}.
Definition init_world (depth : nat) : world :=
  {| fs := []; dbs := init_db; clock := 1; updepth := depth; hints := [] |}.
Definition set_hints (w : world) (h : list name) : world :=
  {| fs := fs w; dbs := dbs w; clock := clock w; updepth := updepth w; hints := h |}.

Fixpoint find_row (l : list row) (n : name) (i : nat) : option fid :=
  match l with
  | [] => None
  | r :: l' => if bytes_eqb (r_name r) n then Some i else find_row l' n (S i)
  end.

Definition get_row (d : db) (i : fid) : row := nth (i - 1) (rows d) (empty_row []).

Fixpoint set_nth {A} (l : list A) (i : nat) (x : A) : list A :=
  match l, i with
  | [], _ => []
  | _ :: l', O => x :: l'
  | y :: l', S i' => y :: set_nth l' i' x
  end.

Definition put_row (d : db) (i : fid) (r : row) : db :=
  {| rows := set_nth (rows d) (i - 1) r; deps := deps d; maxrun := maxrun d |}.

(* File::from_name with allow_add = true *)
Definition from_name (d : db) (n : name) : db * fid :=
  match find_row (rows d) n 1 with
  | Some i => (d, i)
  | None => ({| rows := rows d ++ [empty_row n]; deps := deps d; maxrun := maxrun d |},
             S (length (rows d)))
  end.

(* the view File::from_cols gives: //ALWAYS is always "changed in this run" *)
Definition view_row (runid : Z) (r : row) : row :=
  if bytes_eqb (r_name r) always_name then
    {| r_name := r_name r; r_gen := r_gen r; r_ovr := r_ovr r; r_checked := r_checked r;
       r_changed := Some (match r_changed r with Some c => Z.max runid c | None => runid end);
       r_failed := r_failed r; r_stamp := r_stamp r; r_csum := r_csum r |}
  else r.

Definition load (runid : Z) (d : db) (i : fid) : row := view_row runid (get_row d i).

(* insert or replace into Deps (primary key target, source) *)
Definition dep_key_eqb (t s : fid) (x : dep) : bool :=
  Nat.eqb (d_target x) t && Nat.eqb (d_source x) s.
Definition add_dep (d : db) (t : fid) (m : dmode) (s : fid) : db :=
  {| rows := rows d;
     deps := filter (fun x => negb (dep_key_eqb t s x)) (deps d)
             ++ [{| d_target := t; d_source := s; d_mode := m; d_delete := false |}];
     maxrun := maxrun d |}.
Definition zap_deps1 (d : db) (t : fid) : db :=
  {| rows := rows d;
     deps := map (fun x => if Nat.eqb (d_target x) t
                           then {| d_target := d_target x; d_source := d_source x;
                                   d_mode := d_mode x; d_delete := true |} else x) (deps d);
     maxrun := maxrun d |}.
Definition zap_deps2 (d : db) (t : fid) : db :=
  {| rows := rows d;
     deps := filter (fun x => negb (Nat.eqb (d_target x) t && d_delete x)) (deps d);
     maxrun := maxrun d |}.

(* deps of a target in the order SQLite returns them: ascending source id *)
Fixpoint insert_dep (x : dep) (l : list dep) : list dep :=
  match l with
  | [] => [x]
  | y :: l' => if Nat.leb (d_source x) (d_source y) then x :: l else y :: insert_dep x l'
  end.
Definition sort_deps (l : list dep) : list dep := fold_right insert_dep [] l.
Definition deps_of (d : db) (r : row) (t : fid) : list dep :=
  if r_ovr r || negb (r_gen r) then []
  else sort_deps (filter (fun x => Nat.eqb (d_target x) t) (deps d)).

(* ---------------------------------------------------------------- File setters *)
Definition upd_row (r : row) gen ovr chk chg fl st cs : row :=
  {| r_name := r_name r; r_gen := gen; r_ovr := ovr; r_checked := chk; r_changed := chg;
     r_failed := fl; r_stamp := st; r_csum := cs |}.

Definition set_changed (runid : Z) (r : row) : row :=
  upd_row r (r_gen r) false (r_checked r) (Some runid) None (r_stamp r) (r_csum r).
Definition set_checked (runid : Z) (r : row) : row :=
  upd_row r (r_gen r) (r_ovr r) (Some runid) (r_changed r) (r_failed r) (r_stamp r) (r_csum r).
Definition set_generated (r : row) : row :=
  upd_row r true false (r_checked r) (r_changed r) None (r_stamp r) (r_csum r).

(* update_stamp (must_exist handled by the callers) *)
Definition update_stamp (runid : Z) (w : world) (r : row) : row :=
  let ns := read_stamp w (r_name r) in
  if ostamp_eqb (r_stamp r) ns then r
  else set_changed runid (upd_row r (r_gen r) (r_ovr r) (r_checked r) (r_changed r) (r_failed r)
                                  (Some ns) (r_csum r)).

Definition set_failed (runid : Z) (w : world) (r : row) : row :=
  let r1 := update_stamp runid w r in
  let missing := match r_stamp r1 with Some SMissing => true | _ => false end in
  upd_row r1 (negb missing) (r_ovr r1) (r_checked r1) (r_changed r1) (Some runid) (r_stamp r1) (r_csum r1).

Definition set_static (runid : Z) (w : world) (r : row) : row :=
  let r1 := update_stamp runid w r in
  upd_row r1 false false (r_checked r1) (r_changed r1) None (r_stamp r1) None.   (* a source has no checksum (fix F31) *)

Definition set_override (runid : Z) (w : world) (r : row) : row :=
  let r1 := update_stamp runid w r in
  upd_row r1 (r_gen r1) true (r_checked r1) (r_changed r1) None (r_stamp r1) None.   (* the checksum is forgotten *)

Definition geb_runid (x : option Z) (runid : Z) : bool :=
  match x with Some v => negb (Z.eqb v 0) && Z.leb runid v | None => false end.
Definition is_checked (runid : Z) (r : row) := geb_runid (r_checked r) runid.
Definition is_changed (runid : Z) (r : row) := geb_runid (r_changed r) runid.
Definition is_failed (runid : Z) (r : row) := geb_runid (r_failed r) runid.

(* ---------------------------------------------------------------- results *)
Inductive res (A : Type) := Ret (a : A) | EFuel.
Arguments Ret {A} a.
Arguments EFuel {A}.

Inductive verdict := VClean | VDirty | VNeed (l : list fid) | VCycle.   (* VCycle: CyclicDependency error *)

Inductive event :=
| EvRun (t : name) (a1 a2 a3 : bytes)    (* a .do started for t, with $1 $2 $3 *)
| EvWarnOverride (t : name)              (* "you modified it; skipping" *)
| EvUnchanged (t : name)
| EvNoRule (t : name)
| EvCheck (t : name)
| EvFailed32 (t : name).                 (* "target t failed" (already failed in this run) *)

(* how is_checked / set_checked are provided: the database (builds) or an
   in-memory set (redo-ood) *)
Inductive chk := ChkDb | ChkMem (seen : list fid).

(* the builder also takes "changed in this run" (built, or found changed, in
   this run) for dealt with: a script is never run twice in one run (fix F23) *)
Definition chk_is_checked (c : chk) (runid : Z) (r : row) (f : fid) : bool :=
  match c with ChkDb => is_checked runid r || is_changed runid r | ChkMem l => existsb (Nat.eqb f) l end.

(* ---------------------------------------------------------------- is_dirty *)
(* The walk over the recorded dependencies of row [r] (file id [f]); [isd] is
   the recursive dirtiness check of a Modified dependency (open recursion).
   SNAPSHOTS: File::deps loads the rows of ALL dependencies with one query
   before the walk; each dependency is then judged on that copy, however the
   database has changed meanwhile (an earlier sibling's walk may have marked
   the row checked, or forgotten it as a target).  [ds] therefore pairs every
   edge with the row as loaded at query time, and [isd]/[is_dirty] take the
   row they judge as an argument instead of reading it. *)
Definition dirty_result := res (verdict * world * chk * list event).

Fixpoint walk_deps (isd : world -> chk -> fid -> row -> dirty_result) (runid : Z) (f : fid) (r : row)
         (ds : list (dep * row)) (w : world) (c : chk) (must : list fid) (evs : list event) : dirty_result :=
  match ds with
  | [] =>
      match must with
      | _ :: _ => Ret (VNeed must, w, c, evs)
      | [] =>
          let evs' := if r_ovr r then evs ++ [EvWarnOverride (r_name r)] else evs in
          match c with
          | ChkDb => Ret (VClean, set_db w (put_row (dbs w) f (set_checked runid r)), c, evs')
          | ChkMem l => Ret (VClean, w, ChkMem (f :: l), evs')
          end
      end
  | (d, rs) :: ds' =>
      let sub :=
        match d_mode d with
        | DCreated =>
            Ret (if exists_b w (r_name rs) then VDirty else VClean, w, c, [])
        | DModified => isd w c (d_source d) rs
        end in
      match sub with
      | EFuel => EFuel
      | Ret (v, w', c', e') =>
          match v with
          | VCycle => Ret (VCycle, w', c', evs ++ e')
          | VClean => walk_deps isd runid f r ds' w' c' must (evs ++ e')
          | VDirty =>
              Ret (match r_csum r with Some _ => VNeed [f] | None => VDirty end,
                   w', c', evs ++ e')
          | VNeed l => walk_deps isd runid f r ds' w' c' (must ++ l) (evs ++ e')
          end
      end
  end.

(* a generated file that has disappeared is forgotten as a target *)
Definition forget_missing (w : world) (f : fid) (r : row) (ns : stamp) : world :=
  match ns with
  | SMissing =>
      if r_gen r
      then set_db w (put_row (dbs w) f
             (upd_row r false (r_ovr r) (r_checked r) (r_changed r) None (r_stamp r) (r_csum r)))
      else w
  | _ => w
  end.

(* the rows of the dependencies of [r], loaded now *)
Definition deps_rows (runid : Z) (d : db) (r : row) (f : fid) : list (dep * row) :=
  map (fun x => (x, load runid d (d_source x))) (deps_of d r f).

(* private_is_dirty on file id [f], judged on the copy [r] of its row that the
   caller holds; returns the verdict, the world (the database may have been
   written), the callback state, and override warnings *)
(* [cyc] = REDO_CYCLES of the checking process: the targets its ancestors are
   building right now.  A recorded dependency on one of them says nothing (its
   rows are in mid-build): the target is dirty, and if its script still asks for
   that ancestor the cycle is reported then (fix F66: the walk went into the
   ancestor's half-written rows and took a stale reverse edge for a cycle). *)
Fixpoint is_dirty (fuel : nat) (runid : Z) (cyc : list fid) (w : world) (c : chk) (f : fid) (r : row)
         (max_changed : Z) (seen : list fid) : dirty_result :=
  match fuel with
  | O => EFuel
  | S fuel' =>
    (* recorded rows that lead back to a file in mid-walk prove nothing about the
       scripts (fix F78): dirty, not an error *)
    if existsb (Nat.eqb f) seen then Ret (VDirty, w, c, []) else
    match r_failed r with
    | Some _ => Ret (VDirty, w, c, [])
    | None =>
    match r_changed r with
    | None => Ret (VDirty, w, c, [])
    | Some chg =>
    if Z.ltb max_changed chg then Ret (VDirty, w, c, []) else
    if chk_is_checked c runid r f then Ret (VClean, w, c, []) else
    match r_stamp r with
    | None => Ret (VDirty, w, c, [])
    | Some old =>
      let ns := read_stamp w (r_name r) in
      if negb (stamp_eqb old ns) then
        Ret (match r_csum r with Some _ => VNeed [f] | None => VDirty end,
             forget_missing w f r ns, c, [])
      else
        let sub_max := Z.max chg (match r_checked r with Some k => k | None => 0%Z end) in
        walk_deps (fun w c s rs => if existsb (Nat.eqb s) cyc then Ret (VDirty, w, c, [])
                                   else is_dirty fuel' runid cyc w c s rs sub_max (f :: seen))
                  runid f r (deps_rows runid (dbs w) r f) w c [] []
    end end end
  end.

(* ---------------------------------------------------------------- .do search *)
(* The project directory lies [updepth] levels below the root; the search
   continues through every ancestor (whose default*.do never exist here).
   The database name of a candidate is relative to the project directory. *)
Definition b_dotdotslash : bytes := [dot; dot; slash].
Definition dummy_dir : bytes := [100].
Definition count_slash (p : bytes) : nat := length (filter (N.eqb slash) p).
Definition dir_level (d : bytes) : nat :=
  match d with [_] => O | _ => count_slash d end.     (* "/" is level 0, "/d" 1, "/d/d" 2 *)
Definition do_candidates (depth : nat) (t : name) : list dofile :=
  possible_do_files (slash :: concat (repeat (dummy_dir ++ [slash]) depth) ++ t).
Definition cand_key (depth : nat) (c : dofile) : name :=
  concat (repeat b_dotdotslash (depth - dir_level (do_dir c))) ++ do_file c.

(* find_do_file: a Created edge on every missing candidate before the first
   existing one, a Modified edge on that one *)
Fixpoint find_do_file (w : world) (d : db) (t : fid) (cands : list dofile)
  : db * option (dofile * script) :=
  match cands with
  | [] => (d, None)
  | c :: cs =>
      let dn := cand_key (updepth w) c in
      match fs_get (fs w) dn with
      | Some f =>
          let '(d1, s) := from_name d dn in
          (add_dep d1 t DModified s,
           Some (c, match f_script f with Some sc => sc
                    | None => {| s_deps := []; s_ifcreate := []; s_always := false; s_stamp := false;
                                 s_out := ONeither; s_payload := 0; s_cat := false; s_exit := 0%Z; s_tol := false |} end))
      | None =>
          let '(d1, s) := from_name d dn in
          find_do_file w (add_dep d1 t DCreated s) t cs
      end
  end.

(* ---------------------------------------------------------------- environment *)
Record env := {
  e_runid : Z;
  e_target : option name;     (* REDO_TARGET: the target whose script runs this command *)
  e_unlocked : bool;
  e_no_oob : bool;
  e_keep_going : bool;
  e_cycles : list fid         (* REDO_CYCLES: targets being built by ancestors *)
}.

Inductive mode := MRedo | MIfChange.

Definition concat_data (w : world) (ns : list name) : option (list N) :=
  fold_left (fun acc n => match acc, fs_get (fs w) n with
                          | Some a, Some f => Some (a ++ f_data f)
                          | _, _ => None end) ns (Some []).

Definition tmp_of (t : name) : name := t ++ b_tmp.

Definition dedupe_names (l : list name) : list name :=
  fold_left (fun acc n => if existsb (bytes_eqb n) acc then acc else acc ++ [n]) l [].

(* the hinted names first, in hint order; the others after, in their own order *)
Definition order_by_hints (h : list name) (l : list name) : list name :=
  filter (fun n => existsb (bytes_eqb n) l) (dedupe_names h)
  ++ filter (fun n => negb (existsb (bytes_eqb n) h)) l.

(* ---------------------------------------------------------------- the build *)
(* The pieces of a job are top-level definitions; the nested command a script
   runs (redo-ifchange deps) is passed in as [rec] (open recursion), and
   [build] below ties the knot on fuel. *)
Definition job_result := res (world * list event * Z * bool).
(* (world, events, status, abort): abort means the whole process ends at once
   with that status (an error escaped from builder::run: cyclic dependency) *)
Definition rec_t := env -> mode -> list name -> world -> res (world * list event * Z).

Definition default_script : script :=
  {| s_deps := []; s_ifcreate := []; s_always := false; s_stamp := false;
     s_out := ONeither; s_payload := 0; s_cat := false; s_exit := 0%Z; s_tol := false |}.

(* redo-ifcreate n1 n2 ...: one transaction; fails (status 1, nothing
   recorded) if any of the names exists *)
Definition ifcreate_cmd (t : name) (ns : list name) (w : world) : world * Z :=
  match ns with
  | [] => (w, 0%Z)
  | _ =>
    if existsb (exists_b w) ns then (w, 1%Z)
    else (set_db w (fold_left (fun d n => let '(d1, s) := from_name d n in
                                          let '(d2, me) := from_name d1 t in
                                          add_dep d2 me DCreated s) ns (dbs w)), 0%Z)
  end.

(* redo-always *)
Definition always_cmd (runid : Z) (t : name) (w : world) : world :=
  let '(d1, me) := from_name (dbs w) t in
  let '(d2, al) := from_name d1 always_name in
  let d3 := add_dep d2 me DModified al in
  let ar := load runid d3 al in
  set_db w (put_row d3 al
    (set_changed runid (upd_row ar (r_gen ar) (r_ovr ar) (r_checked ar) (r_changed ar)
                                 (r_failed ar) (Some SMissing) (r_csum ar)))).

(* redo-stamp < content *)
Definition stamp_cmd (runid : Z) (t : name) (content : list N) (w : world) : world :=
  let '(d1, me) := from_name (dbs w) t in
  let r0 := load runid d1 me in
  let changed := match r_csum r0 with
                 | Some old => negb (list_eqb N.eqb old content)
                 | None => true end in
  let r1 := set_generated r0 in
  let r2 := if changed
            then let r' := set_changed runid r1 in
                 upd_row r' (r_gen r') (r_ovr r') (r_checked r') (r_changed r')
                         (r_failed r') (r_stamp r') (Some content)
            else set_checked runid r1 in
  set_db w (put_row d1 me r2).

(* the body of a script up to its output: (world, exit status, output bytes) *)
Definition script_body (rec : rec_t) (env_child : env) (t : name) (sc : script) (w : world)
  : res (world * list event * Z * option (list N)) :=
  let r_deps := match s_deps sc with
                | [] => Ret (w, [], 0%Z)
                | ds => rec env_child MIfChange ds w
                end in
  match r_deps with
  | EFuel => EFuel
  | Ret (w, evs, rc_deps) =>
      if negb (Z.eqb rc_deps 0) && negb (s_tol sc) then Ret (w, evs, rc_deps, None) else
      let '(w, rc_ifc) := ifcreate_cmd t (s_ifcreate sc) w in
      if negb (Z.eqb rc_ifc 0) then Ret (w, evs, rc_ifc, None) else
      let w := if s_always sc then always_cmd (e_runid env_child) t w else w in
      match (if s_cat sc then concat_data w (s_deps sc) else Some []) with
      | None => Ret (w, evs, 1%Z, None)           (* cat of a missing file fails under sh -e *)
      | Some body =>
          let content := s_payload sc :: body in
          let w := if s_stamp sc then stamp_cmd (e_runid env_child) t content w else w in
          Ret (w, evs, s_exit sc, Some content)
      end
  end.

(* where the script put its output: (world, stdout non-empty?, $3 exists?) *)
Definition emit_output (t : name) (m : out_mode) (out : option (list N)) (w : world)
  : world * bool * bool :=
  match out with
  | None => (w, false, false)
  | Some content =>
      match m with
      | OStdout => (w, true, false)
      | ODollar3 => (write_file w (tmp_of t) content None, false, true)
      | ONeither => (w, false, false)
      | OBoth => (write_file w (tmp_of t) content None, true, true)
      | ODirect => (write_file w t content None, false, false)
      end
  end.

(* BuildJob::record_new_state.  [sf] is the row as start_self left it, [before]
   the target file before the job, [stdout] the bytes the script wrote to
   stdout (None = nothing), [has_tmp] whether $3 exists. *)
Definition record_new_state (runid : Z) (t : name) (f : fid) (sf : row) (before : option file)
           (rc_script : Z) (stdout : option (list N)) (has_tmp : bool) (w : world) : world * Z :=
  let after := fs_get (fs w) t in
  let modified :=
    match after with
    | Some fa => match before with
                 | Some fb => negb (N.eqb (f_mt fa) (f_mt fb))
                 | None => true end
    | None => false
    end in
  let has_stdout := match stdout with Some _ => true | None => false end in
  let rv := if modified then 206%Z
            else if has_tmp && has_stdout then 207%Z else rc_script in
  let '(w, sf2) :=
    if Z.eqb rv 0 then
      let w :=
        match stdout, has_tmp with
        | Some content, false =>
            rename_file (write_file (remove_file w (tmp_of t)) (tmp_of t) content None) (tmp_of t) t
        | _, true => rename_file w (tmp_of t) t
        | None, false => remove_file w t
        end in
      let sfr := load runid (dbs w) f in
      let sfr := upd_row sfr true false (r_checked sfr) (r_changed sfr) (r_failed sfr)
                         (r_stamp sfr) (r_csum sfr) in
      if is_checked runid sfr || is_changed runid sfr then
        (w, upd_row sfr (r_gen sfr) (r_ovr sfr) (r_checked sfr) (r_changed sfr) (r_failed sfr)
                    (Some (read_stamp w t)) (r_csum sfr))
      else
        let s1 := upd_row sfr (r_gen sfr) (r_ovr sfr) (r_checked sfr) (r_changed sfr)
                          (r_failed sfr) (r_stamp sfr) None in
        (w, set_changed runid (update_stamp runid w s1))
    else
      let w := remove_file w (tmp_of t) in
      (w, set_failed runid w sf) in
  (set_db w (put_row (zap_deps2 (dbs w) f) f sf2), rv).

(* BuildJob::start_self *)
Definition start_self (rec : rec_t) (e : env) (t : name) (f : fid) (before : option file) (w : world)
  : job_result :=
  let runid := e_runid e in
  let sf := load runid (dbs w) f in
  let ns := read_stamp w t in
  (* (1) override test *)
  let is_ovr_now :=
    r_gen sf && negb (stamp_eqb ns SMissing)
    && (r_ovr sf || match r_stamp sf with Some s => detect_override s ns | None => true end) in
  let '(sf, w, evs0) :=
    if is_ovr_now then
      let sf' := if r_ovr sf
                 then (* edited by hand again: one recorded change, the override stays *)
                      if ostamp_eqb (r_stamp sf) ns then sf
                      else upd_row sf (r_gen sf) (r_ovr sf) (r_checked sf) (Some runid) (r_failed sf)
                                   (Some ns) (r_csum sf)
                 else set_override runid w sf in
      (sf', set_db w (put_row (dbs w) f sf'), [EvWarnOverride t])
    else (sf, w, []) in
  (* (2) an existing file that we did not generate (or that was overridden) is left alone *)
  if exists_b w t && (r_ovr sf || negb (r_gen sf)) then
    let sf' := if r_ovr sf then sf else set_static runid w sf in
    Ret (set_db w (put_row (dbs w) f sf'), evs0, 0%Z, false)
  else
  (* (3) zap_deps1, find the .do *)
  let d1 := zap_deps1 (dbs w) f in
  let '(d2, found) := find_do_file w d1 f (do_candidates (updepth w) t) in
  match found with
  | None =>
      if exists_b w t then
        Ret (set_db w (put_row d2 f (set_static runid w sf)), evs0, 0%Z, false)
      else
        Ret (set_db w (put_row d2 f (set_failed runid w sf)), evs0 ++ [EvNoRule t], 1%Z, false)
  | Some (df, sc) =>
      (* (4) unlink $3, mark the .do static, commit *)
      let w := remove_file (set_db w d2) (tmp_of t) in
      let '(d3, dofid) := from_name (dbs w) (cand_key (updepth w) df) in
      let w := set_db w (put_row d3 dofid (set_static runid w (load runid d3 dofid))) in
      let evs1 := evs0 ++ [EvRun t t (firstn (length t - length (ext df)) t) (tmp_of t)] in
      (* (5) the script *)
      let env_child := {| e_runid := runid; e_target := Some t; e_unlocked := false;
                          e_no_oob := false; e_keep_going := e_keep_going e;
                          e_cycles := f :: e_cycles e |} in
      match script_body rec env_child t sc w with
      | EFuel => EFuel
      | Ret (w, evs2, rc_script, out) =>
          let '(w, has_stdout, has_tmp) := emit_output t (s_out sc) out w in
          (* (6) record_new_state *)
          let '(w, rv) := record_new_state runid t f sf before rc_script
                            (if has_stdout then out else None) has_tmp w in
          Ret (w, evs1 ++ evs2, rv, false)
      end
  end.

Definition prepend_events (evd : list event) (r : job_result) : job_result :=
  match r with
  | Ret (w', ev', rc, ab) => Ret (w', evd ++ ev', rc, ab)
  | EFuel => EFuel
  end.

(* BuildJob::start: decide (should_build) and act *)
Definition start (rec : rec_t) (fuel : nat) (e : env) (m : mode) (t : name) (w : world) : job_result :=
  let runid := e_runid e in
  let '(d0, f) := from_name (dbs w) t in
  let w := set_db w d0 in
  let before := fs_get (fs w) t in
  match m with
  | MRedo => start_self rec e t f before w
  | MIfChange =>
      let r := load runid (dbs w) f in
      if is_failed runid r then Ret (w, [EvFailed32 t], 32%Z, false) else
      match is_dirty fuel runid (e_cycles e) w ChkDb f r runid [] with
      | EFuel => EFuel
      | Ret (v, w, _, evd) =>
          let v := match v with
                   | VNeed [x] => if Nat.eqb x f then VDirty else v
                   | _ => v end in
          match v with
          | VCycle => Ret (w, evd, 208%Z, true)
          | VClean =>
              Ret (w, evd ++ (if r_gen (load runid (dbs w) f) then [EvUnchanged t] else []), 0%Z, false)
          | VDirty => prepend_events evd (start_self rec e t f before w)
          | VNeed l =>
              if e_no_oob e then prepend_events evd (start_self rec e t f before w)
              else
                (* start_deps_unlocked: redo-unlocked t l; the child inherits t's id in
                   REDO_CYCLES (fix F21): t's lock stays held, asking for t again is a cycle *)
                let names := order_by_hints (hints w) (dedupe_names (map (fun i => r_name (get_row (dbs w) i)) l)) in
                let env1 := {| e_runid := runid; e_target := e_target e; e_unlocked := false;
                               e_no_oob := true; e_keep_going := e_keep_going e;
                               e_cycles := f :: e_cycles e |} in
                match rec env1 MIfChange names w with
                | EFuel => EFuel
                | Ret (w1, ev1, rc1) =>
                    if negb (Z.eqb rc1 0) then Ret (w1, evd ++ EvCheck t :: ev1, rc1, false) else
                    let env2 := {| e_runid := runid; e_target := e_target e; e_unlocked := true;
                                   e_no_oob := true; e_keep_going := e_keep_going e;
                                   e_cycles := f :: e_cycles e |} in
                    match rec env2 MIfChange [t] w1 with
                    | Ret (w2, ev2, rc2) => Ret (w2, evd ++ EvCheck t :: ev1 ++ ev2, rc2, false)
                    | EFuel => EFuel
                    end
                end
          end
      end
  end.

(* command front end (ifchange.rs): record the dependencies of the enclosing
   target first; a target naming itself is refused (cyclic, 208) *)
Definition frontend_deps (e : env) (m : mode) (ts : list name) (w : world) : world * bool :=
  match m, e_target e, e_unlocked e || e_no_oob e with
  | MIfChange, Some me, false =>
      if existsb (bytes_eqb me) ts then (w, true)
      else
      let '(d1, mf) := from_name (dbs w) me in
      (set_db w (fold_left (fun d t => let '(d', s) := from_name d t in add_dep d' mf DModified s) ts d1),
       false)
  | _, _, _ => (w, false)
  end.

(* builder::run, phase 1 at -j1: targets in order; stop after a failure unless
   --keep-going; a target being built by an ancestor is a cycle (208) *)
Fixpoint run_loop (job : name -> world -> job_result) (e : env) (ts : list name) (seen : list fid)
         (w : world) (evs : list event) (errored : bool) : res (world * list event * Z) :=
  match ts with
  | [] => Ret (w, evs, if errored then 1%Z else 0%Z)
  | t :: ts' =>
      if errored && negb (e_keep_going e) then Ret (w, evs, 1%Z) else
      let '(d0, f) := from_name (dbs w) t in
      if existsb (Nat.eqb f) seen then run_loop job e ts' seen (set_db w d0) evs errored else
      if negb (e_unlocked e) && existsb (Nat.eqb f) (e_cycles e) then Ret (set_db w d0, evs, 208%Z) else
      match job t w with
      | EFuel => EFuel
      | Ret (w', ev', rv, true) => Ret (w', evs ++ ev', rv)
      | Ret (w', ev', rv, false) =>
          run_loop job e ts' (f :: seen) w' (evs ++ ev') (errored || negb (Z.eqb rv 0))
      end
  end.

(* build fuel e m ts w : the command `redo ts` / `redo-ifchange ts` running
   with environment e.  Result: world, events, process exit status. *)
Fixpoint build (fuel : nat) (e : env) (m : mode) (ts : list name) (w : world)
  : res (world * list event * Z) :=
  match fuel with
  | O => EFuel
  | S fuel' =>
      let '(w, self_dep) := frontend_deps e m ts w in
      if self_dep then Ret (w, [], 208%Z) else
      run_loop (start (build fuel') fuel' e m) e ts [] w [] false
  end.

(* ---------------------------------------------------------------- commands *)
Inductive cmd :=
| CRedo (keep_going : bool) (ts : list name)
| CIfChange (keep_going : bool) (ts : list name)
| COod | CTargets | CSources.

(* ProcessState::init at top level: allocate a run id *)
Definition new_run (w : world) : world * Z :=
  let r := (maxrun (dbs w) + 1)%Z in
  (set_db w {| rows := rows (dbs w); deps := deps (dbs w); maxrun := r |}, r).

Definition is_source (runid : Z) (w : world) (r : row) : bool :=
  if is_prefix [slash; slash] (r_name r) then false else
  let ns := read_stamp w (r_name r) in
  let missing := stamp_eqb ns SMissing in
  if r_gen r && (negb (is_failed runid r) || negb missing) && negb (r_ovr r) && ostamp_eqb (r_stamp r) ns
  then false
  else if (negb (r_gen r) || negb (ostamp_eqb (r_stamp r) ns)) && missing then false
  else true.
Definition is_target (runid : Z) (w : world) (r : row) : bool :=
  if r_gen r then negb (is_source runid w r) else false.

(* order by name *)
Fixpoint bytes_leb (a b : bytes) : bool :=
  match a, b with
  | [], _ => true
  | _ :: _, [] => false
  | x :: a', y :: b' => if N.ltb x y then true else if N.ltb y x then false else bytes_leb a' b'
  end.
Fixpoint insert_by_name (x : fid * row) (l : list (fid * row)) : list (fid * row) :=
  match l with
  | [] => [x]
  | y :: l' => if bytes_leb (r_name (snd x)) (r_name (snd y)) then x :: l else y :: insert_by_name x l'
  end.
Definition files_by_name (runid : Z) (d : db) : list (fid * row) :=
  fold_right insert_by_name []
    (combine (seq 1 (length (rows d))) (map (view_row runid) (rows d))).

Inductive output := OutBuild (evs : list event) (rc : Z) | OutList (names : list name) | OutErr (what : N).

Definition default_fuel (w : world) : nat := 3 * (length (rows (dbs w)) + length (fs w)) + 12.

Definition exec (c : cmd) (w : world) : world * output :=
  let '(w, runid) := new_run w in
  let fuel := default_fuel w in
  match c with
  | CRedo k ts | CIfChange k ts =>
      let e := {| e_runid := runid; e_target := None; e_unlocked := false; e_no_oob := false;
                  e_keep_going := k; e_cycles := [] |} in
      match build fuel e (match c with CRedo _ _ => MRedo | _ => MIfChange end) ts w with
      | Ret (w', evs, rc) => (w', OutBuild evs rc)
      | EFuel => (w, OutErr 0)
      end
  | COod =>
      let ts := filter (fun x => is_target runid w (snd x)) (files_by_name runid (dbs w)) in
      (* one deferred transaction, rolled back at exit: database writes are discarded *)
      let r := fold_left (fun acc x =>
                 match acc with
                 | Ret (_, _, _, true) => acc
                 | Ret (w1, c1, out, cyc) =>
                     match is_dirty fuel runid [] w1 c1 (fst x) (snd x) runid [] with
                     | Ret (VClean, w2, c2, _) => Ret (w2, c2, out, cyc)
                     | Ret (VCycle, w2, c2, _) => Ret (w2, c2, out, true)
                     | Ret (_, w2, c2, _) => Ret (w2, c2, out ++ [r_name (snd x)], cyc)
                     | EFuel => EFuel
                     end
                 | EFuel => EFuel
                 end) ts (Ret (w, ChkMem [], [], false)) in
      match r with
      | Ret (_, _, out, false) => (w, OutList out)
      | Ret (_, _, out, true) => (w, OutErr 208)
      | EFuel => (w, OutErr 0)
      end
  | CTargets => (w, OutList (map (fun x => r_name (snd x))
                      (filter (fun x => is_target runid w (snd x)) (files_by_name runid (dbs w)))))
  | CSources => (w, OutList (map (fun x => r_name (snd x))
                      (filter (fun x => is_source runid w (snd x)) (files_by_name runid (dbs w)))))
  end.

(* ---------------------------------------------------------------- histories *)
Inductive hstep :=
| SWrite (n : name) (data : list N)            (* user creates / edits a data file *)
| SWriteDo (n : name) (sc : script)            (* user creates / edits a .do file *)
| SRemove (n : name)
| SHint (h : list name)                        (* observed out-of-band order for the next command *)
| SCmd (c : cmd).

Definition do_step (s : hstep) (w : world) : world * option output :=
  match s with
  | SWrite n data => (write_file w n data None, None)
  | SWriteDo n sc => (write_file w n [s_payload sc] (Some sc), None)
  | SRemove n => (remove_file w n, None)
  | SHint h => (set_hints w h, None)
  | SCmd c => let '(w', o) := exec c w in (w', Some o)
  end.

Fixpoint run_history (h : list hstep) (w : world) : list (world * option output) :=
  match h with
  | [] => []
  | s :: h' => let '(w', o) := do_step s w in (w', o) :: run_history h' w'
  end.
