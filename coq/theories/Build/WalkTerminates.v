(* The dirtiness walk terminates on EVERY database, cyclic recorded rows
   included: with more fuel than there are distinct dependency sources not yet
   on the path, is_dirty never runs out of fuel (the model's only source of
   non-termination).  The walk puts each file it enters on the path ([seen]) and
   stops at a file that is already there (fix F78: with "dirty"; before, with an
   error), so the depth of the recursion is bounded by the number of distinct
   sources in the Deps table.  PROOFS over Build/Model.v. *)
From Coq Require Import ZArith List Bool Lia Arith.
From Redo Require Import Base.Bytes Build.Model Build.LocalProofs Build.OodAgree.
Import ListNotations.

(* the walk never changes the Deps table *)
Lemma is_dirty_deps : forall fuel runid cyc w c f r mx seen v w' c' evs,
  is_dirty fuel runid cyc w c f r mx seen = Ret (v, w', c', evs) -> deps (dbs w') = deps (dbs w).
Proof.
  induction fuel as [|fuel IH]; intros runid cyc w c f r mx seen v w' c' evs H; [discriminate|].
  cbn [is_dirty] in H.
  destruct (existsb (Nat.eqb f) seen); [inversion H; reflexivity|].
  destruct (r_failed r); [inversion H; reflexivity|].
  destruct (r_changed r) as [chg|]; [|inversion H; reflexivity].
  destruct (Z.ltb mx chg); [inversion H; reflexivity|].
  destruct (chk_is_checked c runid r f); [inversion H; reflexivity|].
  destruct (r_stamp r) as [old|]; [|inversion H; reflexivity].
  destruct (negb (stamp_eqb old (read_stamp w (r_name r)))).
  { inversion H; subst. unfold forget_missing.
    destruct (read_stamp w (r_name r)); [destruct (r_gen r)|]; reflexivity. }
  eapply (walk_deps_inv (fun w1 => deps (dbs w1) = deps (dbs w)) (fun _ _ => True)); [| |apply Forall_trivial|reflexivity|exact H].
  - intros w1 c1 d rs v1 w1' c1' e1 _ Hw1 E. cbv beta in E.
    destruct (existsb (Nat.eqb (d_source d)) cyc); [inversion E; subst; exact Hw1|].
    rewrite <- Hw1. eapply IH; exact E.
  - intros w1 Hw1. exact Hw1.
Qed.

Lemma filter_len_le {A} (p : A -> bool) (l : list A) : (length (filter p l) <= length l)%nat.
Proof. induction l as [|a l IH]; cbn [filter length]; [lia|]. destruct (p a); cbn [length]; lia. Qed.

Section Terminates.
  Variable D : list dep.          (* the Deps table *)
  Variable U : list fid.          (* every dependency source, and the file the walk starts at *)
  Hypothesis HU : forall x, In x D -> In (d_source x) U.

  Definition off_path (seen : list fid) (x : fid) : bool := negb (existsb (Nat.eqb x) seen).
  Definition unseen (seen : list fid) : nat := length (filter (off_path seen) (nodup Nat.eq_dec U)).

  Lemma filter_drop_one (p : fid -> bool) f : forall l, NoDup l -> In f l -> p f = true ->
    (length (filter (fun x => negb (Nat.eqb x f) && p x) l) < length (filter p l))%nat.
  Proof.
    induction l as [|a l IH]; intros Hnd Hin Hp; [destruct Hin|].
    inversion Hnd as [|a' l' Ha Hl]; subst. cbn [filter].
    destruct Hin as [->|Hin].
    - rewrite Nat.eqb_refl, Hp. cbn [negb andb length].
      assert (E : filter (fun x => negb (Nat.eqb x f) && p x) l = filter p l).
      { apply filter_ext_in. intros x Hx. destruct (Nat.eqb x f) eqn:E; [|reflexivity].
        apply Nat.eqb_eq in E. subst. contradiction. }
      rewrite E. apply Nat.lt_succ_diag_r.
    - specialize (IH Hl Hin Hp).
      destruct (Nat.eqb a f) eqn:E.
      + apply Nat.eqb_eq in E. subst. contradiction.
      + cbn [negb andb]. destruct (p a); cbn [length]; lia.
  Qed.

  Lemma unseen_cons f seen : In f U -> existsb (Nat.eqb f) seen = false -> (unseen (f :: seen) < unseen seen)%nat.
  Proof.
    intros Hin Hs. unfold unseen.
    assert (E : filter (off_path (f :: seen)) (nodup Nat.eq_dec U)
                = filter (fun x => negb (Nat.eqb x f) && off_path seen x) (nodup Nat.eq_dec U)).
    { apply filter_ext. intro x. unfold off_path. cbn [existsb]. now rewrite negb_orb. }
    rewrite E. apply filter_drop_one.
    - apply NoDup_nodup.
    - now apply nodup_In.
    - unfold off_path. now rewrite Hs.
  Qed.

  (* walk_deps runs out of fuel only if one of the sub-checks does *)
  Lemma walk_deps_fuel isd runid f r (I : world -> Prop) :
    forall ds w c must evs,
      (forall w1 c1 d rs, In (d, rs) ds -> d_mode d = DModified -> I w1 ->
         isd w1 c1 (d_source d) rs <> EFuel
         /\ forall v w' c' e, isd w1 c1 (d_source d) rs = Ret (v, w', c', e) -> I w') ->
      I w -> walk_deps isd runid f r ds w c must evs <> EFuel.
  Proof.
    induction ds as [|[d rs] ds IH]; intros w c must evs Hsub Hw; cbn [walk_deps].
    - destruct must; [destruct c|]; discriminate.
    - assert (Hrest : forall w1 c1 d0 rs0, In (d0, rs0) ds -> d_mode d0 = DModified -> I w1 ->
                 isd w1 c1 (d_source d0) rs0 <> EFuel
                 /\ forall v w' c' e, isd w1 c1 (d_source d0) rs0 = Ret (v, w', c', e) -> I w').
      { intros w1 c1 d0 rs0 Hin. apply Hsub. now right. }
      destruct (d_mode d) eqn:Em.
      + destruct (exists_b w (r_name rs)).
        * destruct (r_csum r); discriminate.
        * apply IH; assumption.
      + destruct (Hsub w c d rs (or_introl eq_refl) Em Hw) as [Hne Hkeep].
        destruct (isd w c (d_source d) rs) as [[[[v1 w1] c1] e1]|] eqn:E; [|congruence].
        specialize (Hkeep _ _ _ _ eq_refl). destruct v1.
        * apply IH; assumption.
        * destruct (r_csum r); discriminate.
        * apply IH; assumption.
        * discriminate.
  Qed.

  Theorem is_dirty_enough_fuel : forall fuel runid cyc w c f r mx seen,
    deps (dbs w) = D -> In f U -> (unseen seen < fuel)%nat ->
    is_dirty fuel runid cyc w c f r mx seen <> EFuel.
  Proof.
    induction fuel as [|fuel IH]; intros runid cyc w c f r mx seen HD Hf Hfuel; [lia|].
    cbn [is_dirty].
    destruct (existsb (Nat.eqb f) seen) eqn:Hs; [discriminate|].
    destruct (r_failed r); [discriminate|].
    destruct (r_changed r) as [chg|]; [|discriminate].
    destruct (Z.ltb mx chg); [discriminate|].
    destruct (chk_is_checked c runid r f); [discriminate|].
    destruct (r_stamp r) as [old|]; [|discriminate].
    destruct (negb (stamp_eqb old (read_stamp w (r_name r)))); [destruct (r_csum r); discriminate|].
    apply (walk_deps_fuel _ runid f r (fun w1 => deps (dbs w1) = D)); [|exact HD].
    intros w1 c1 d rs Hin _ Hw1. cbv beta.
    destruct (existsb (Nat.eqb (d_source d)) cyc); [split; [discriminate|intros v w' c' e E; inversion E; subst; exact Hw1]|].
    assert (Hd : In d D).
    { pose proof (deps_rows_loaded runid (dbs w) r f) as HL. rewrite Forall_forall in HL.
      specialize (HL _ Hin). cbn [fst] in HL. destruct HL as [HL _].
      unfold deps_of in HL. destruct (r_ovr r || negb (r_gen r)); [destruct HL|].
      apply in_sort_deps in HL. apply filter_In in HL as [HL _]. now rewrite <- HD. }
    split.
    - apply IH; [exact Hw1|apply HU; exact Hd|].
      pose proof (unseen_cons f seen Hf Hs). lia.
    - intros v w' c' e E. rewrite (is_dirty_deps _ _ _ _ _ _ _ _ _ _ _ _ _ E). exact Hw1.
  Qed.
End Terminates.

(* the statement without section variables: more fuel than distinct dependency
   sources (plus the starting file) is enough, whatever the rows say *)
Corollary walk_terminates runid cyc w c f r mx :
  let U := f :: map d_source (deps (dbs w)) in
  forall fuel, (length (nodup Nat.eq_dec U) < fuel)%nat ->
  is_dirty fuel runid cyc w c f r mx [] <> EFuel.
Proof.
  intros U fuel Hfuel.
  apply (is_dirty_enough_fuel (deps (dbs w)) U).
  - intros x Hx. right. now apply in_map.
  - reflexivity.
  - now left.
  - unfold unseen. eapply Nat.le_lt_trans; [apply filter_len_le|exact Hfuel].
Qed.

(* Since fix F78 the walk never answers "cyclic dependency", whatever the rows
   say -- in particular on what a killed build leaves behind (old edges only
   flagged for deletion next to the edges its successor recorded). *)
Lemma walk_deps_no_cycle isd runid f r :
  (forall w c s rs w' c' e, isd w c s rs <> Ret (VCycle, w', c', e)) ->
  forall ds w c must evs w' c' e, walk_deps isd runid f r ds w c must evs <> Ret (VCycle, w', c', e).
Proof.
  intros Hisd. induction ds as [|[d rs] ds IH]; intros w c must evs w' c' e; cbn [walk_deps].
  - destruct must; [destruct c; destruct (r_ovr r)|]; discriminate.
  - destruct (d_mode d).
    + destruct (exists_b w (r_name rs)); [destruct (r_csum r); discriminate|apply IH].
    + destruct (isd w c (d_source d) rs) as [[[[v1 w1] c1] e1]|] eqn:E; [|discriminate].
      destruct v1.
      * apply IH.
      * destruct (r_csum r); discriminate.
      * apply IH.
      * exfalso. exact (Hisd _ _ _ _ _ _ _ E).
Qed.

Theorem is_dirty_never_cyclic : forall fuel runid cyc w c f r mx seen w' c' e,
  is_dirty fuel runid cyc w c f r mx seen <> Ret (VCycle, w', c', e).
Proof.
  induction fuel as [|fuel IH]; intros runid cyc w c f r mx seen w' c' e; [discriminate|].
  cbn [is_dirty].
  destruct (existsb (Nat.eqb f) seen); [discriminate|].
  destruct (r_failed r); [discriminate|].
  destruct (r_changed r) as [chg|]; [|discriminate].
  destruct (Z.ltb mx chg); [discriminate|].
  destruct (chk_is_checked c runid r f); [discriminate|].
  destruct (r_stamp r) as [old|]; [|discriminate].
  destruct (negb (stamp_eqb old (read_stamp w (r_name r)))); [destruct (r_csum r); discriminate|].
  apply walk_deps_no_cycle. intros w1 c1 s rs w1' c1' e1.
  destruct (existsb (Nat.eqb s) cyc); [discriminate|apply IH].
Qed.

(* with the fuel the model's commands actually use: in a database whose edges
   point at existing rows there are at most as many distinct sources as rows *)
Corollary walk_terminates_rows runid cyc w c f r mx :
  (forall x, In x (deps (dbs w)) -> (1 <= d_source x <= length (rows (dbs w)))%nat) ->
  forall fuel, (length (rows (dbs w)) + 1 < fuel)%nat ->
  is_dirty fuel runid cyc w c f r mx [] <> EFuel.
Proof.
  intros Hv fuel Hfuel. apply walk_terminates.
  eapply Nat.le_lt_trans; [|exact Hfuel].
  set (U := f :: map d_source (deps (dbs w))).
  assert (Hincl : incl (nodup Nat.eq_dec U) (f :: seq 1 (length (rows (dbs w))))).
  { intros x Hx. apply nodup_In in Hx. destruct Hx as [->|Hx]; [now left|]. right.
    apply in_map_iff in Hx as (d & <- & Hd). apply in_seq. specialize (Hv _ Hd). lia. }
  pose proof (NoDup_incl_length (NoDup_nodup Nat.eq_dec U) Hincl) as H.
  cbn [length] in H. rewrite seq_length in H. lia.
Qed.

Corollary walk_terminates_default_fuel runid cyc w c f r mx :
  (forall x, In x (deps (dbs w)) -> (1 <= d_source x <= length (rows (dbs w)))%nat) ->
  is_dirty (default_fuel w) runid cyc w c f r mx [] <> EFuel.
Proof.
  intro Hv. apply walk_terminates_rows; [exact Hv|]. unfold default_fuel. lia.
Qed.
