(* C17: "redo-ood lists every target a following redo-ifchange would rebuild".
   redo-ood decides with the same dirtiness walk as the builder, but remembers
   "verified in this run" in a set in memory (ChkMem) where the builder writes
   checked_runid to the database (ChkDb) -- and the builder judges COPIES of the
   dependency rows taken when a walk starts (Model.v, SNAPSHOTS), so it may walk
   again a row that an earlier sibling has already verified, while redo-ood
   answers from its set.  Whenever both walks return, they return the same
   verdict.  Setting: the start of a run (no row verified in it yet), no
   generated file missing on disk (nothing is "forgotten" during the walk). *)
From Coq Require Import ZArith Lia.
From Redo Require Import Base.Bytes Base.BytesProofs Build.Model Build.FsLemmas Build.LocalProofs Build.Protect Build.FailProofs.

Lemma in_insert_dep x y l : In y (insert_dep x l) -> y = x \/ In y l.
Proof.
  induction l as [|z l IH]; cbn; [intros [H|[]]; auto|].
  destruct (Nat.leb (d_source x) (d_source z)); cbn; [intros [H|H]; auto|].
  intros [H|H]; [auto|]. destruct (IH H); auto.
Qed.
Lemma in_sort_deps y l : In y (sort_deps l) -> In y l.
Proof. induction l as [|x l IH]; cbn; [auto|]. intro H. apply in_insert_dep in H as [H|H]; auto. Qed.
Lemma deps_of_in d r t x : In x (deps_of d r t) -> In x (deps d).
Proof.
  unfold deps_of. destruct (r_ovr r || negb (r_gen r)); [contradiction|].
  intro H. apply in_sort_deps in H. apply filter_In in H. tauto.
Qed.

Section Agree.
Variable runid : Z.
Hypothesis runid_pos : (0 < runid)%Z.

Definition req (a b : row) : Prop :=
  r_name a = r_name b /\ r_gen a = r_gen b /\ r_ovr a = r_ovr b /\ r_changed a = r_changed b
  /\ r_failed a = r_failed b /\ r_stamp a = r_stamp b /\ r_csum a = r_csum b.
Lemma req_refl a : req a a.
Proof. repeat split. Qed.

Notation mem g l := (existsb (Nat.eqb g) l).

(* redo-ood's world: it never changes during the walk *)
Variable wm : world.
Definition ldm (g : fid) : row := load runid (dbs wm) g.
Hypothesis fresh : forall g, (1 <= g)%nat -> is_checked runid (ldm g) = false.
Hypothesis nomiss : forall g, r_gen (ldm g) = true -> stamp_eqb (read_stamp wm (r_name (ldm g))) SMissing = false.
Hypothesis ids_pos : forall d, In d (deps (dbs wm)) -> (1 <= d_source d)%nat.

(* the builder's world: the same up to checked_runid; a row is marked checked iff redo-ood has it in its set *)
Definition REL (l : list fid) (wd : world) : Prop :=
  fs wd = fs wm /\ deps (dbs wd) = deps (dbs wm) /\ length (rows (dbs wd)) = length (rows (dbs wm)) /\
  forall g, (1 <= g)%nat ->
    req (load runid (dbs wd) g) (ldm g) /\
    (if mem g l then is_checked runid (load runid (dbs wd) g) = true
     else r_checked (load runid (dbs wd) g) = r_checked (ldm g)).

Definition sub_max (r : row) (chg : Z) : Z := Z.max chg match r_checked r with Some k => k | None => 0%Z end.

(* what is known of a row in redo-ood's set *)
Definition settled (l : list fid) (g : fid) : Prop :=
  let r := ldm g in
  r_failed r = None /\ exists chg, r_changed r = Some chg /\
  (exists old, r_stamp r = Some old /\ stamp_eqb old (read_stamp wm (r_name r)) = true) /\
  forall d, In d (deps_of (dbs wm) r g) ->
    (d_mode d = DCreated -> exists_b wm (r_name (ldm (d_source d))) = false) /\
    (d_mode d = DModified ->
       mem (d_source d) l = true /\ d_source d <> g /\ r_failed (ldm (d_source d)) = None /\
       exists c, r_changed (ldm (d_source d)) = Some c /\ (c <= sub_max r chg)%Z).
Definition INV (l : list fid) : Prop := forall g, (1 <= g)%nat -> mem g l = true -> settled l g.

Definition incl_l (l l' : list fid) : Prop := forall g, mem g l = true -> mem g l' = true.

Lemma settled_mono l l' g : incl_l l l' -> settled l g -> settled l' g.
Proof.
  intros Hi (Hf & chg & Hc & Hs & Hd). split; [exact Hf|]. exists chg. split; [exact Hc|]. split; [exact Hs|].
  intros d Hin. destruct (Hd d Hin) as [A B]. split; [exact A|]. intro Hm. destruct (B Hm) as (M & N & F & C). auto.
Qed.


(* ---------------------------------------------------------------- small facts *)
Lemma view_fix x y : r_name x = r_name y -> r_changed x = r_changed (view_row runid y) -> view_row runid x = x.
Proof.
  intros Hn Hc. unfold view_row in *. rewrite Hn. destruct (bytes_eqb (r_name y) always_name); [|reflexivity].
  cbn [r_changed] in Hc. destruct x as [xn xg xo xk xc xf xs xcs]. cbn [r_name r_gen r_ovr r_checked r_changed r_failed r_stamp r_csum] in *.
  subst xc. f_equal; [congruence|]. f_equal. destruct (r_changed y); lia.
Qed.

Lemma load_put_same d g r : (g - 1 < length (rows d))%nat -> load runid (put_row d g r) g = view_row runid r.
Proof. intros Hin. unfold load, get_row. rewrite rows_put_row. now rewrite nth_set_nth. Qed.
Lemma load_put_other d f g r : (1 <= g)%nat -> (1 <= f)%nat -> g <> f -> load runid (put_row d f r) g = load runid d g.
Proof. intros Hg Hf Hne. unfold load. rewrite get_row_put_row_other by lia. reflexivity. Qed.
Lemma length_put_row d f r : length (rows (put_row d f r)) = length (rows d).
Proof.
  rewrite rows_put_row. generalize (f - 1)%nat as j. generalize (rows d) as l0.
  induction l0 as [|x l0 IH]; intros [|j]; cbn; auto.
Qed.
Lemma load_in_range d f : r_changed (load runid d f) <> None -> (f - 1 < length (rows d))%nat.
Proof.
  intro H. destruct (Nat.lt_ge_cases (f - 1) (length (rows d))) as [Hin|Hout]; [exact Hin|exfalso].
  apply H. unfold load, get_row. rewrite nth_overflow by exact Hout. reflexivity.
Qed.
Lemma mem_cons g f l : mem g (f :: l) = Nat.eqb g f || mem g l.
Proof. reflexivity. Qed.
Lemma geb_self : geb_runid (Some runid) runid = true.
Proof. unfold geb_runid. assert (E : Z.eqb runid 0 = false) by (apply Z.eqb_neq; lia). rewrite E. cbn. apply Z.leb_le. lia. Qed.
Lemma geb_false_lt x : geb_runid x runid = false -> (match x with Some v => v | None => 0 end < runid)%Z.
Proof.
  unfold geb_runid. destruct x as [v|]; [|intros _; lia].
  destruct (Z.eqb v 0) eqn:E0; cbn [negb andb].
  - intros _. apply Z.eqb_eq in E0. lia.
  - intro H. apply Z.leb_gt in H. lia.
Qed.

(* the builder writes a judged copy back with checked_runid set *)
Lemma REL_writeback l wd f rd :
  (1 <= f)%nat -> REL l wd -> (f - 1 < length (rows (dbs wd)))%nat ->
  view_row runid rd = rd -> req rd (ldm f) ->
  REL (f :: l) (set_db wd (put_row (dbs wd) f (set_checked runid rd))).
Proof.
  intros Hf (Hfs & Hdeps & Hlen & Hrows) Hin Vd Hreq.
  split; [exact Hfs|]. split; [exact Hdeps|]. split; [cbn [dbs set_db]; now rewrite length_put_row|].
  intros g Hg. cbn [dbs set_db]. rewrite mem_cons.
  destruct (Nat.eq_dec g f) as [->|Hne].
  - rewrite Nat.eqb_refl. cbn [orb]. rewrite load_put_same by exact Hin.
    assert (V : view_row runid (set_checked runid rd) = set_checked runid rd).
    { apply (view_fix _ rd); [reflexivity|]. cbn [set_checked upd_row r_changed]. now rewrite Vd. }
    rewrite V. split.
    + destruct Hreq as (Rn & Rg & Ro & Rc & Rf & Rs & Rcs).
      repeat split; cbn [set_checked upd_row r_name r_gen r_ovr r_changed r_failed r_stamp r_csum]; assumption.
    + unfold set_checked, is_checked. cbn [upd_row r_checked]. apply geb_self.
  - assert (E : Nat.eqb g f = false) by (apply Nat.eqb_neq; exact Hne). rewrite E. cbn [orb].
    rewrite load_put_other by assumption. apply Hrows. exact Hg.
Qed.

(* the same when the row was already in the set: the set does not grow *)
Lemma REL_writeback_again l wd f rd :
  (1 <= f)%nat -> REL l wd -> mem f l = true -> (f - 1 < length (rows (dbs wd)))%nat ->
  view_row runid rd = rd -> req rd (ldm f) ->
  REL l (set_db wd (put_row (dbs wd) f (set_checked runid rd))).
Proof.
  intros Hf HR Hm Hin Vd Hreq. pose proof (REL_writeback l wd f rd Hf HR Hin Vd Hreq) as (A & B & C & D).
  split; [exact A|]. split; [exact B|]. split; [exact C|]. intros g Hg. destruct (D g Hg) as [D1 D2]. split; [exact D1|].
  rewrite mem_cons in D2. destruct (Nat.eqb g f) eqn:E; cbn [orb] in D2; [|exact D2].
  apply Nat.eqb_eq in E. subst g. rewrite Hm. exact D2.
Qed.

(* ---------------------------------------------------------------- walking a settled row again *)
(* The builder judges a stale, unchecked copy of a row that is already in the
   set: one level down every dependency answers at once (its fresh copy is
   marked checked), and the row is written back as checked once more. *)
Lemma rewalk_deps fuel wd l f rd chg seen :
  REL l wd -> (forall a, mem a seen = true -> mem a l = false) ->
  forall ds evs v w' c' e',
    (forall d, In d ds ->
       (d_mode d = DCreated -> exists_b wm (r_name (ldm (d_source d))) = false) /\
       (d_mode d = DModified ->
          mem (d_source d) l = true /\ d_source d <> f /\ r_failed (ldm (d_source d)) = None /\
          exists c, r_changed (ldm (d_source d)) = Some c /\ (c <= sub_max rd chg)%Z)) ->
    Forall (fun d => (1 <= d_source d)%nat) ds ->
    walk_deps (fun w c s rs => is_dirty fuel runid nil w c s rs (sub_max rd chg) (f :: seen)) runid f rd
              (map (fun x => (x, load runid (dbs wd) (d_source x))) ds) wd ChkDb [] evs = Ret (v, w', c', e') ->
    v = VClean /\ w' = set_db wd (put_row (dbs wd) f (set_checked runid rd)) /\ c' = ChkDb.
Proof.
  intros HR Hseen. pose proof HR as (Hfs & _ & _ & Hrows).
  induction ds as [|d ds IH]; intros evs v w' c' e' Hd Hpos H; cbn [map walk_deps] in H.
  - inversion H; subst. auto.
  - inversion Hpos as [|x y Hp1 Hp2]; subst.
    destruct (Hd d (or_introl eq_refl)) as [Hcr Hmo].
    destruct (Hrows (d_source d) Hp1) as [Rq Rc].
    destruct (d_mode d) eqn:Em.
    + assert (Ex : exists_b wd (r_name (load runid (dbs wd) (d_source d))) = false).
      { destruct Rq as (Rn & _). unfold exists_b. rewrite Hfs, Rn. exact (Hcr eq_refl). }
      rewrite Ex in H. eapply IH; [|exact Hp2|exact H]. intros d' Hin. apply Hd. now right.
    + destruct (Hmo eq_refl) as (Ml & Ne & Fn & c & Hc & Hle).
      destruct fuel as [|fuel']; [discriminate|].
      cbn [is_dirty] in H.
      assert (Es : mem (d_source d) (f :: seen) = false).
      { rewrite mem_cons. assert (E1 : Nat.eqb (d_source d) f = false) by (apply Nat.eqb_neq; exact Ne). rewrite E1. cbn [orb].
        destruct (mem (d_source d) seen) eqn:E2; [|reflexivity]. rewrite (Hseen _ E2) in Ml. discriminate. }
      rewrite Es in H.
      destruct Rq as (Rn & Rg & Ro & Rch & Rf & Rs & Rcs).
      rewrite Rf, Fn, Rch, Hc in H.
      assert (El : Z.ltb (sub_max rd chg) c = false) by (apply Z.ltb_ge; exact Hle).
      rewrite El in H. cbn [chk_is_checked] in H. rewrite Ml in Rc. rewrite Rc in H. cbn [orb] in H.
      eapply IH; [|exact Hp2|exact H]. intros d' Hin. apply Hd. now right.
Qed.

(* ---------------------------------------------------------------- the two walks agree *)
Lemma view_load d g : view_row runid (load runid d g) = load runid d g.
Proof. unfold load. apply (view_fix _ (get_row d g)); [apply view_row_name|reflexivity]. Qed.

Definition depfact (lk : list fid) (f : fid) (sm : Z) (d : dep) : Prop :=
  (d_mode d = DCreated -> exists_b wm (r_name (ldm (d_source d))) = false) /\
  (d_mode d = DModified ->
     mem (d_source d) lk = true /\ d_source d <> f /\ r_failed (ldm (d_source d)) = None /\
     exists c, r_changed (ldm (d_source d)) = Some c /\ (c <= sm)%Z).

Lemma depfact_mono lk lk' f sm d : incl_l lk lk' -> depfact lk f sm d -> depfact lk' f sm d.
Proof. intros Hi [A B]. split; [exact A|]. intro Hm. destruct (B Hm) as (M & N & F & C). auto. Qed.

Definition CONC (l seen : list fid) (f : fid) (mx : Z)
  (vd : verdict) (wd' : world) (vm : verdict) (wm' : world) (cm : chk) : Prop :=
  vd = vm /\ wm' = wm /\ exists l', cm = ChkMem l' /\ incl_l l l' /\ REL l' wd' /\ INV l' /\
  (forall a, mem a seen = true -> mem a l' = false) /\
  (vm = VClean -> mem f l' = true /\ mem f seen = false /\ r_failed (ldm f) = None /\
                  exists c, r_changed (ldm f) = Some c /\ (c <= mx)%Z).

Lemma CONC_same l seen f mx v wd :
  REL l wd -> INV l -> (forall a, mem a seen = true -> mem a l = false) -> v <> VClean ->
  CONC l seen f mx v wd v wm (ChkMem l).
Proof.
  intros HR HI Hs Hv. split; [reflexivity|]. split; [reflexivity|]. exists l.
  split; [reflexivity|]. split; [intros g Hg; exact Hg|]. split; [exact HR|]. split; [exact HI|]. split; [exact Hs|].
  intro E. contradiction.
Qed.

Lemma incl_l_refl l : incl_l l l.
Proof. intros g H. exact H. Qed.
Lemma incl_l_trans a b c : incl_l a b -> incl_l b c -> incl_l a c.
Proof. intros H1 H2 g H. auto. Qed.
Lemma incl_l_cons f l : incl_l l (f :: l).
Proof. intros g H. rewrite mem_cons, H. apply orb_true_r. Qed.

(* a "maybe dirty" verdict always names something to rebuild first *)
Lemma walk_need_nonempty isd f r :
  (forall w c s rs l w' c' e, isd w c s rs = Ret (VNeed l, w', c', e) -> l <> []) ->
  forall ds w c must evs l w' c' e,
    walk_deps isd runid f r ds w c must evs = Ret (VNeed l, w', c', e) -> l <> [].
Proof.
  intros Hisd. induction ds as [|[d rs] ds IHds]; intros w c must evs l w' c' e H; cbn [walk_deps] in H.
  - destruct must; [destruct c; discriminate|]. inversion H; subst. discriminate.
  - destruct (d_mode d).
    + destruct (exists_b w (r_name rs)).
      * destruct (r_csum r); inversion H; subst. discriminate.
      * eapply IHds; exact H.
    + destruct (isd w c (d_source d) rs) as [[[[v1 w1] c1] e1]|] eqn:E; [|discriminate]. destruct v1.
      * eapply IHds; exact H.
      * destruct (r_csum r); inversion H; subst. discriminate.
      * eapply IHds; exact H.
      * discriminate.
Qed.

Lemma is_dirty_need_nonempty : forall fuel w c f r mx seen l w' c' e,
  is_dirty fuel runid nil w c f r mx seen = Ret (VNeed l, w', c', e) -> l <> [].
Proof.
  induction fuel as [|fuel IH]; intros w c f r mx seen l w' c' e H; [discriminate|].
  cbn [is_dirty] in H.
  destruct (existsb (Nat.eqb f) seen); [discriminate|].
  destruct (r_failed r); [discriminate|].
  destruct (r_changed r) as [chg|]; [|discriminate].
  destruct (Z.ltb mx chg); [discriminate|].
  destruct (chk_is_checked c runid r f); [discriminate|].
  destruct (r_stamp r) as [old|]; [|discriminate].
  destruct (negb (stamp_eqb old (read_stamp w (r_name r)))).
  { destruct (r_csum r); inversion H; subst. discriminate. }
  eapply walk_need_nonempty; [|exact H]. intros w0 c0 s rs l0 w0' c0' e0 E. eapply IH; exact E.
Qed.

(* the builder's walk hands its (stateless) callback through *)
Lemma walk_db_chk isd f r :
  (forall w s rs v w' c' e, isd w ChkDb s rs = Ret (v, w', c', e) -> c' = ChkDb) ->
  forall ds w must evs v w' c' e,
    walk_deps isd runid f r ds w ChkDb must evs = Ret (v, w', c', e) -> c' = ChkDb.
Proof.
  intros Hisd. induction ds as [|[d rs] ds IHds]; intros w must evs v w' c' e H; cbn [walk_deps] in H.
  - destruct must; inversion H; subst; reflexivity.
  - destruct (d_mode d).
    + destruct (exists_b w (r_name rs)); [inversion H; subst; reflexivity|eapply IHds; exact H].
    + destruct (isd w ChkDb (d_source d) rs) as [[[[v1 w1] c1] e1]|] eqn:E; [|discriminate].
      pose proof (Hisd _ _ _ _ _ _ _ E) as ->. destruct v1; try (inversion H; subst; reflexivity); eapply IHds; exact H.
Qed.

Lemma is_dirty_db_chk : forall fuel w f r mx seen v w' c' e,
  is_dirty fuel runid nil w ChkDb f r mx seen = Ret (v, w', c', e) -> c' = ChkDb.
Proof.
  induction fuel as [|fuel IH]; intros w f r mx seen v w' c' e H; [discriminate|].
  cbn [is_dirty] in H.
  destruct (existsb (Nat.eqb f) seen); [inversion H; reflexivity|].
  destruct (r_failed r); [inversion H; reflexivity|].
  destruct (r_changed r) as [chg|]; [|inversion H; reflexivity].
  destruct (Z.ltb mx chg); [inversion H; reflexivity|].
  destruct (chk_is_checked ChkDb runid r f); [inversion H; reflexivity|].
  destruct (r_stamp r) as [old|]; [|inversion H; reflexivity].
  destruct (negb (stamp_eqb old (read_stamp w (r_name r)))); [inversion H; reflexivity|].
  eapply walk_db_chk; [|exact H]. intros w0 s rs v0 w0' c0' e0 E. eapply IH; exact E.
Qed.

Theorem sim : forall fuel wd l f rd mx seen vd wd' cd ed vm wm' cm em,
  (1 <= f)%nat -> REL l wd -> INV l ->
  req rd (ldm f) -> view_row runid rd = rd ->
  (r_checked rd = r_checked (ldm f) \/ (is_checked runid rd = true /\ mem f l = true)) ->
  ((mx < runid)%Z \/ is_changed runid (ldm f) = false) ->
  (forall a, mem a seen = true -> mem a l = false) ->
  is_dirty fuel runid nil wd ChkDb f rd mx seen = Ret (vd, wd', cd, ed) ->
  is_dirty fuel runid nil wm (ChkMem l) f (ldm f) mx seen = Ret (vm, wm', cm, em) ->
  CONC l seen f mx vd wd' vm wm' cm.
Proof.
  induction fuel as [|fuel IH]; intros wd l f rd mx seen vd wd' cd ed vm wm' cm em Hf HR HI Hreq Vd Hcopy Hmx Hseen Hd Hm;
    [discriminate|].
  set (rm := ldm f) in *.
  pose proof Hreq as (Rn & Rg & Ro & Rc & Rf & Rs & Rcs).
  pose proof HR as (Hfs & Hdeps & Hlen & Hrows).
  cbn [is_dirty] in Hd, Hm.
  destruct (mem f seen) eqn:Es.
  { inversion Hd; inversion Hm; subst. apply CONC_same; auto. discriminate. }
  rewrite Rf in Hd. destruct (r_failed rm) eqn:Ef.
  { inversion Hd; inversion Hm; subst. apply CONC_same; auto. discriminate. }
  rewrite Rc in Hd. destruct (r_changed rm) as [chg|] eqn:Ec.
  2:{ inversion Hd; inversion Hm; subst. apply CONC_same; auto. discriminate. }
  destruct (Z.ltb mx chg) eqn:Elt.
  { inversion Hd; inversion Hm; subst. apply CONC_same; auto. discriminate. }
  assert (Hnchg : is_changed runid rm = false).
  { destruct Hmx as [Hlt|Hx]; [|exact Hx]. unfold is_changed, geb_runid. rewrite Ec.
    apply Z.ltb_ge in Elt. assert (E : Z.leb runid chg = false) by (apply Z.leb_gt; lia). rewrite E. apply andb_false_r. }
  assert (Hnchg_d : is_changed runid rd = false) by (unfold is_changed in *; rewrite Rc; rewrite Ec in Hnchg; exact Hnchg).
  cbn [chk_is_checked] in Hd, Hm. rewrite Hnchg_d, orb_false_r in Hd.
  assert (Hle : (chg <= mx)%Z) by (apply Z.ltb_ge; exact Elt).
  assert (Hfm : is_checked runid rm = false) by (apply fresh; exact Hf).
  destruct (mem f l) eqn:El.
  - (* redo-ood answers from its set *)
    inversion Hm; subst vm wm' cm em. clear Hm.
    assert (Hclean : forall wdx, REL l wdx -> CONC l seen f mx VClean wdx VClean wm (ChkMem l)).
    { intros wdx HRx. split; [reflexivity|]. split; [reflexivity|]. exists l.
      split; [reflexivity|]. split; [apply incl_l_refl|]. split; [exact HRx|]. split; [exact HI|]. split; [exact Hseen|].
      intros _. split; [exact El|]. split; [exact Es|]. split; [exact Ef|]. exists chg. split; [exact Ec|exact Hle]. }
    destruct (is_checked runid rd) eqn:Eck.
    + inversion Hd; subst. apply Hclean. exact HR.
    + (* the builder holds a stale copy: it walks the settled row again *)
      destruct Hcopy as [Hck|[X _]]; [|congruence].
      destruct (HI f Hf El) as (_ & chg' & Hc' & (old & Hst & Hok) & Hdeps_f). fold rm in Hc', Hst, Hok, Hdeps_f.
      assert (chg' = chg) by congruence. subst chg'.
      rewrite Rs, Hst in Hd.
      assert (Hns : read_stamp wd (r_name rd) = read_stamp wm (r_name rm)) by (unfold read_stamp; now rewrite Hfs, Rn).
      rewrite Hns, Hok in Hd. cbn [negb] in Hd.
      assert (Hdo : deps_of (dbs wd) rd f = deps_of (dbs wm) rm f) by (unfold deps_of; now rewrite Hdeps, Ro, Rg).
      unfold deps_rows in Hd. rewrite Hdo in Hd.
      assert (Hsm : sub_max rd chg = sub_max rm chg) by (unfold sub_max; now rewrite Hck).
      change (Z.max chg match r_checked rd with Some k => k | None => 0%Z end) with (sub_max rd chg) in Hd.
      destruct (rewalk_deps fuel wd l f rd chg seen HR Hseen (deps_of (dbs wm) rm f) [] vd wd' cd ed) as (-> & -> & ->).
      * intros d Hin. rewrite Hsm. exact (Hdeps_f d Hin).
      * apply Forall_forall. intros d Hin. apply ids_pos. eapply deps_of_in; exact Hin.
      * exact Hd.
      * apply Hclean. apply REL_writeback_again; auto.
        rewrite Hlen. apply load_in_range. fold (ldm f). fold rm. congruence.
  - (* both walk *)
    assert (Hck : r_checked rd = r_checked rm) by (destruct Hcopy as [X|[_ X]]; [exact X|congruence]).
    assert (Eck : is_checked runid rd = false) by (unfold is_checked in *; now rewrite Hck).
    rewrite Eck in Hd.
    rewrite Rs in Hd. destruct (r_stamp rm) as [old|] eqn:Est.
    2:{ inversion Hd; inversion Hm; subst. apply CONC_same; auto. discriminate. }
    assert (Hns : read_stamp wd (r_name rd) = read_stamp wm (r_name rm)) by (unfold read_stamp; now rewrite Hfs, Rn).
    rewrite Hns in Hd.
    destruct (negb (stamp_eqb old (read_stamp wm (r_name rm)))) eqn:Emis.
    { (* stamp differs: nothing is forgotten here (no generated file is missing) *)
      assert (Fm : forget_missing wm f rm (read_stamp wm (r_name rm)) = wm).
      { unfold forget_missing. destruct (read_stamp wm (r_name rm)) eqn:E1; [|reflexivity].
        destruct (r_gen rm) eqn:G; [|reflexivity]. pose proof (nomiss f G) as X. fold rm in X. rewrite E1 in X. discriminate. }
      assert (Fd : forget_missing wd f rd (read_stamp wm (r_name rm)) = wd).
      { unfold forget_missing. destruct (read_stamp wm (r_name rm)) eqn:E1; [|reflexivity].
        rewrite Rg. destruct (r_gen rm) eqn:G; [|reflexivity]. pose proof (nomiss f G) as X. fold rm in X. rewrite E1 in X. discriminate. }
      rewrite Fd in Hd. rewrite Fm in Hm. rewrite Rcs in Hd.
      inversion Hd; inversion Hm; subst. apply CONC_same; auto. destruct (r_csum rm); discriminate. }
    assert (Hok : stamp_eqb old (read_stamp wm (r_name rm)) = true) by (now apply negb_false_iff in Emis).
    assert (Hdo : deps_of (dbs wd) rd f = deps_of (dbs wm) rm f) by (unfold deps_of; now rewrite Hdeps, Ro, Rg).
    unfold deps_rows in Hd, Hm. rewrite Hdo in Hd.
    assert (Hsm : Z.max chg match r_checked rd with Some k => k | None => 0%Z end = sub_max rm chg) by (unfold sub_max; now rewrite Hck).
    rewrite Hsm in Hd. change (Z.max chg match r_checked rm with Some k => k | None => 0%Z end) with (sub_max rm chg) in Hm.
    set (sm := sub_max rm chg) in *.
    assert (Hsmlt : (sm < runid)%Z).
    { unfold sm, sub_max. apply geb_false_lt in Hfm. apply geb_false_lt in Hnchg. rewrite Ec in Hnchg. lia. }
    assert (Hin_f : (f - 1 < length (rows (dbs wm)))%nat) by (apply load_in_range; fold (ldm f); fold rm; congruence).
    (* the walk over the dependencies still to be looked at *)
    assert (G : forall ds dn wdk lk must evd evm vd wd' cd ed vm wm' cm em,
              Forall (fun d => (1 <= d_source d)%nat) ds ->
              (must = [] -> deps_of (dbs wm) rm f = dn ++ ds /\ forall d, In d dn -> depfact lk f sm d) ->
              REL lk wdk -> INV lk -> incl_l l lk ->
              (forall a, mem a (f :: seen) = true -> mem a lk = false) ->
              walk_deps (fun w c s rs => is_dirty fuel runid nil w c s rs sm (f :: seen)) runid f rd
                        (map (fun x => (x, load runid (dbs wd) (d_source x))) ds) wdk ChkDb must evd = Ret (vd, wd', cd, ed) ->
              walk_deps (fun w c s rs => is_dirty fuel runid nil w c s rs sm (f :: seen)) runid f rm
                        (map (fun x => (x, load runid (dbs wm) (d_source x))) ds) wm (ChkMem lk) must evm = Ret (vm, wm', cm, em) ->
              CONC l seen f mx vd wd' vm wm' cm).
    { induction ds as [|d ds IHds]; intros dn wdk lk must evd evm vd0 wd0' cd0 ed0 vm0 wm0' cm0 em0 Hpos Hfacts HRk HIk Hinc Hsk Hwd Hwm;
        cbn [map walk_deps] in Hwd, Hwm.
      - assert (Hseen_k : forall a, mem a seen = true -> mem a lk = false).
        { intros a Ha. apply Hsk. rewrite mem_cons, Ha. apply orb_true_r. }
        destruct must as [|m0 must].
        + (* clean: written back as checked / put into the set *)
          inversion Hwd; inversion Hwm; subst. clear Hwd Hwm.
          destruct (Hfacts eq_refl) as [Hsplit Hdn].
          rewrite app_nil_r in Hsplit.
          split; [reflexivity|]. split; [reflexivity|]. exists (f :: lk).
          split; [reflexivity|]. split; [eapply incl_l_trans; [exact Hinc|apply incl_l_cons]|].
          split; [apply REL_writeback; auto; destruct HRk as (_ & _ & L & _); now rewrite L|].
          split.
          { intros g Hg Hgl. rewrite mem_cons in Hgl. destruct (Nat.eqb g f) eqn:Egf.
            - apply Nat.eqb_eq in Egf. subst g. unfold settled. fold rm.
              split; [exact Ef|]. exists chg. split; [exact Ec|]. split; [exists old; auto|].
              intros d Hin. rewrite Hsplit in Hin. destruct (Hdn d Hin) as [A B]. split; [exact A|].
              intro Hmo. destruct (B Hmo) as (M & N & F & c & Hc & Hl). split; [now apply incl_l_cons|]. split; [exact N|]. split; [exact F|].
              exists c. split; [exact Hc|exact Hl].
            - cbn [orb] in Hgl. eapply settled_mono; [apply incl_l_cons|]. exact (HIk g Hg Hgl). }
          split.
          { intros a Ha. rewrite mem_cons. rewrite (Hseen_k a Ha).
            destruct (Nat.eqb a f) eqn:E; [|reflexivity]. apply Nat.eqb_eq in E. subst a. congruence. }
          intros _. split; [rewrite mem_cons, Nat.eqb_refl; reflexivity|]. split; [exact Es|]. split; [exact Ef|].
          exists chg. split; [exact Ec|exact Hle].
        + inversion Hwd; inversion Hwm; subst.
          split; [reflexivity|]. split; [reflexivity|]. exists lk.
          split; [reflexivity|]. split; [exact Hinc|]. split; [exact HRk|]. split; [exact HIk|]. split; [exact Hseen_k|].
          intro X. discriminate.
      - inversion Hpos as [|x y Hp1 Hpos']; subst.
        assert (Hseen_k : forall a, mem a seen = true -> mem a lk = false).
        { intros a Ha. apply Hsk. rewrite mem_cons, Ha. apply orb_true_r. }
        assert (Hstop : forall v wdx lx, v <> VClean -> REL lx wdx -> INV lx -> incl_l l lx ->
                   (forall a, mem a (f :: seen) = true -> mem a lx = false) ->
                   CONC l seen f mx v wdx v wm (ChkMem lx)).
        { intros v wdx lx Hv HRx HIx Hix Hsx. split; [reflexivity|]. split; [reflexivity|]. exists lx.
          split; [reflexivity|]. split; [exact Hix|]. split; [exact HRx|]. split; [exact HIx|].
          split; [intros a Ha; apply Hsx; rewrite mem_cons, Ha; apply orb_true_r|]. intro X. contradiction. }
        destruct (Hrows (d_source d) Hp1) as [Rqd Rcd]. fold (ldm (d_source d)) in *.
        destruct (d_mode d) eqn:Em.
        + (* redo-ifcreate edge *)
          assert (Ex : exists_b wdk (r_name (load runid (dbs wd) (d_source d))) = exists_b wm (r_name (ldm (d_source d)))).
          { destruct Rqd as (Rn' & _). destruct HRk as (Fk & _). unfold exists_b. now rewrite Fk, Rn'. }
          rewrite Ex in Hwd. fold (ldm (d_source d)) in Hwm.
          destruct (exists_b wm (r_name (ldm (d_source d)))) eqn:Eex.
          * rewrite Rcs in Hwd. inversion Hwd; inversion Hwm; subst. apply Hstop; auto. destruct (r_csum rm); discriminate.
          * eapply (IHds (dn ++ [d])); [exact Hpos'| |exact HRk|exact HIk|exact Hinc|exact Hsk|exact Hwd|exact Hwm].
            intro Hm0. destruct (Hfacts Hm0) as [Hsplit Hdn]. split; [rewrite <- app_assoc; exact Hsplit|].
            intros d' Hin'. apply in_app_or in Hin' as [Hin'|[<-|[]]]; [auto|].
            split; [intros _; exact Eex|intro X; congruence].
        + (* redo-ifchange edge: both sub-checks *)
          fold (ldm (d_source d)) in Hwm.
          destruct (is_dirty fuel runid nil wdk ChkDb (d_source d) (load runid (dbs wd) (d_source d)) sm (f :: seen))
            as [[[[v1d wd1] c1d] e1d]|] eqn:Ed1; [|discriminate].
          pose proof (is_dirty_db_chk _ _ _ _ _ _ _ _ _ _ Ed1) as Hc1d. subst c1d.
          destruct (is_dirty fuel runid nil wm (ChkMem lk) (d_source d) (ldm (d_source d)) sm (f :: seen))
            as [[[[v1m wm1] c1m] e1m]|] eqn:Em1; [|discriminate].
          assert (Hcopy1 : r_checked (load runid (dbs wd) (d_source d)) = r_checked (ldm (d_source d))
                           \/ (is_checked runid (load runid (dbs wd) (d_source d)) = true /\ mem (d_source d) lk = true)).
          { destruct (mem (d_source d) l) eqn:E1; [right; split; [exact Rcd|now apply Hinc]|left; exact Rcd]. }
          pose proof (IH wdk lk (d_source d) (load runid (dbs wd) (d_source d)) sm (f :: seen) v1d wd1 ChkDb e1d v1m wm1 c1m e1m
                         Hp1 HRk HIk Rqd (view_load _ _) Hcopy1 (or_introl Hsmlt) Hsk Ed1 Em1)
            as (-> & -> & l1 & -> & Hi1 & HR1 & HI1 & Hs1 & Hcl1).
          destruct v1m.
          * destruct (Hcl1 eq_refl) as (M1 & S1 & F1 & c1 & Hc1 & Hl1).
            eapply (IHds (dn ++ [d])); [exact Hpos'| |exact HR1|exact HI1|eapply incl_l_trans; eauto|exact Hs1|exact Hwd|exact Hwm].
            intro Hm0. destruct (Hfacts Hm0) as [Hsplit Hdn]. split; [rewrite <- app_assoc; exact Hsplit|].
            intros d' Hin'. apply in_app_or in Hin' as [Hin'|[<-|[]]]; [eapply depfact_mono; [exact Hi1|auto]|].
            split; [intro X; congruence|]. intros _. split; [exact M1|]. split.
            { intro X. rewrite X in S1. rewrite mem_cons, Nat.eqb_refl in S1. discriminate. }
            split; [exact F1|]. exists c1. split; [exact Hc1|exact Hl1].
          * rewrite Rcs in Hwd. inversion Hwd; inversion Hwm; subst.
            apply Hstop; [destruct (r_csum rm); discriminate|exact HR1|exact HI1|eapply incl_l_trans; eauto|exact Hs1].
          * (* "maybe dirty": the list of things to rebuild first is no longer empty, the end cannot be clean *)
            eapply (IHds dn); [exact Hpos'| |exact HR1|exact HI1|eapply incl_l_trans; eauto|exact Hs1|exact Hwd|exact Hwm].
            intro Hm0. exfalso. apply (is_dirty_need_nonempty _ _ _ _ _ _ _ _ _ _ _ Em1).
            destruct must; [exact Hm0|discriminate].
          * inversion Hwd; inversion Hwm; subst.
            apply Hstop; [discriminate|exact HR1|exact HI1|eapply incl_l_trans; eauto|exact Hs1]. }
    eapply (G (deps_of (dbs wm) rm f) []); [| |exact HR|exact HI|apply incl_l_refl| |exact Hd|exact Hm].
    { apply Forall_forall. intros d Hin. apply ids_pos. eapply deps_of_in; exact Hin. }
    { intros _. split; [reflexivity|]. intros d []. }
    { intros a Ha. rewrite mem_cons in Ha. destruct (Nat.eqb a f) eqn:E.
      - apply Nat.eqb_eq in E. subst a. exact El.
      - cbn [orb] in Ha. auto. }
Qed.

(* ---------------------------------------------------------------- a whole listing *)
(* the builder checks the targets fs one after the other, each on a fresh copy
   of its row; redo-ood checks them on the copies it took at the start *)
Fixpoint check_db (fuel : nat) (fs : list fid) (wd : world) : option (list verdict) :=
  match fs with
  | [] => Some []
  | f :: fs' =>
      match is_dirty fuel runid nil wd ChkDb f (load runid (dbs wd) f) runid [] with
      | Ret (v, wd', _, _) => option_map (cons v) (check_db fuel fs' wd')
      | EFuel => None
      end
  end.
Fixpoint check_mem (fuel : nat) (fs : list fid) (c : chk) : option (list verdict) :=
  match fs with
  | [] => Some []
  | f :: fs' =>
      match is_dirty fuel runid nil wm c f (ldm f) runid [] with
      | Ret (v, _, c', _) => option_map (cons v) (check_mem fuel fs' c')
      | EFuel => None
      end
  end.

Theorem listing_agrees fuel : forall fs wd l vds vms,
  Forall (fun f => (1 <= f)%nat /\ is_changed runid (ldm f) = false) fs ->
  REL l wd -> INV l ->
  check_db fuel fs wd = Some vds -> check_mem fuel fs (ChkMem l) = Some vms -> vds = vms.
Proof.
  induction fs as [|f fs IHfs]; intros wd l vds vms Hall HR HI Hd Hm; cbn [check_db check_mem] in Hd, Hm.
  - congruence.
  - inversion Hall as [|x y [Hf Hnc] Hall']; subst.
    destruct (is_dirty fuel runid nil wd ChkDb f (load runid (dbs wd) f) runid []) as [[[[vd wd'] cd] ed]|] eqn:Ed; [|discriminate].
    destruct (is_dirty fuel runid nil wm (ChkMem l) f (ldm f) runid []) as [[[[vm wm'] cm] em]|] eqn:Em; [|discriminate].
    pose proof HR as (_ & _ & _ & Hrows). destruct (Hrows f Hf) as [Rq Rc].
    assert (Hcopy : r_checked (load runid (dbs wd) f) = r_checked (ldm f)
                    \/ (is_checked runid (load runid (dbs wd) f) = true /\ mem f l = true)).
    { destruct (mem f l) eqn:E1; [right; split; [exact Rc|reflexivity]|left; exact Rc]. }
    destruct (sim fuel wd l f (load runid (dbs wd) f) runid [] vd wd' cd ed vm wm' cm em Hf HR HI Rq (view_load _ _) Hcopy
                  (or_intror Hnc) (fun a Ha => match Bool.diff_false_true Ha with end) Ed Em)
      as (-> & _ & l' & -> & _ & HR' & HI' & _).
    destruct (check_db fuel fs wd') as [vds'|] eqn:Ed'; [|discriminate].
    destruct (check_mem fuel fs (ChkMem l')) as [vms'|] eqn:Em'; [|discriminate].
    cbn in Hd, Hm. inversion Hd; inversion Hm; subst. f_equal. eapply IHfs; eauto.
Qed.

End Agree.

(* at the start of a run: one world, an empty set *)
Definition fresh_run (runid : Z) (w : world) : Prop :=
  forall g, (1 <= g)%nat -> is_checked runid (load runid (dbs w) g) = false.
Definition none_missing (runid : Z) (w : world) : Prop :=
  forall g, r_gen (load runid (dbs w) g) = true ->
            stamp_eqb (read_stamp w (r_name (load runid (dbs w) g))) SMissing = false.
Definition ids_positive (w : world) : Prop := forall d, In d (deps (dbs w)) -> (1 <= d_source d)%nat.

Lemma REL_start runid w : REL runid w [] w.
Proof.
  split; [reflexivity|]. split; [reflexivity|]. split; [reflexivity|].
  intros g Hg. split; [apply req_refl|]. cbn [existsb]. reflexivity.
Qed.
Lemma INV_start runid w : INV runid w [].
Proof. intros g _ H. discriminate. Qed.

Theorem ood_agrees_with_builder runid w fuel fs vds vms :
  (0 < runid)%Z -> fresh_run runid w -> none_missing runid w -> ids_positive w ->
  Forall (fun f => (1 <= f)%nat /\ is_changed runid (load runid (dbs w) f) = false) fs ->
  check_db runid fuel fs w = Some vds -> check_mem runid w fuel fs (ChkMem []) = Some vms -> vds = vms.
Proof.
  intros Hr Hfr Hnm Hip Hall Hd Hm.
  eapply (listing_agrees runid Hr w Hfr Hnm Hip fuel fs w []); eauto; [apply REL_start|apply INV_start].
Qed.

(* decidable forms of the premises, for examples *)
Definition fresh_run_b (runid : Z) (w : world) : bool :=
  forallb (fun r => negb (is_checked runid (view_row runid r))) (rows (dbs w)).
Definition none_missing_b (runid : Z) (w : world) : bool :=
  forallb (fun r => negb (r_gen (view_row runid r)) || negb (stamp_eqb (read_stamp w (r_name (view_row runid r))) SMissing)) (rows (dbs w)).
Definition ids_positive_b (w : world) : bool := forallb (fun d => Nat.leb 1 (d_source d)) (deps (dbs w)).

Lemma fresh_run_b_sound runid w : fresh_run_b runid w = true -> fresh_run runid w.
Proof.
  intros H g Hg. unfold fresh_run_b in H. rewrite forallb_forall in H.
  unfold load, get_row. destruct (Nat.lt_ge_cases (g - 1) (length (rows (dbs w)))) as [Hin|Hout].
  - specialize (H (nth (g - 1) (rows (dbs w)) (empty_row [])) (nth_In _ _ Hin)). now apply negb_true_iff in H.
  - rewrite nth_overflow by exact Hout. reflexivity.
Qed.
Lemma none_missing_b_sound runid w : none_missing_b runid w = true -> none_missing runid w.
Proof.
  intros H g Hg. unfold none_missing_b in H. rewrite forallb_forall in H.
  unfold load, get_row in *. destruct (Nat.lt_ge_cases (g - 1) (length (rows (dbs w)))) as [Hin|Hout].
  - specialize (H (nth (g - 1) (rows (dbs w)) (empty_row [])) (nth_In _ _ Hin)).
    rewrite Hg in H. cbn [negb orb] in H. now apply negb_true_iff in H.
  - rewrite nth_overflow in Hg by exact Hout. discriminate.
Qed.
Lemma ids_positive_b_sound w : ids_positive_b w = true -> ids_positive w.
Proof.
  intros H d Hin. unfold ids_positive_b in H. rewrite forallb_forall in H. specialize (H d Hin). now apply Nat.leb_le in H.
Qed.
