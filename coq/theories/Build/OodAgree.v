(* C17: redo-ood's dirtiness walk (checked-set kept in memory, nothing
   persisted) and the builder's walk (checked_runid written to the database)
   reach the same verdict, with the same warnings, from related states --
   so redo-ood lists exactly the targets a following redo-ifchange would not
   find clean. *)
From Coq Require Import ZArith Lia.
From Redo Require Import Base.Bytes Build.Model Build.FsLemmas Build.LocalProofs Build.Protect Build.FailProofs.

(* ---------------------------------------------------------------- deps are never written by a check *)
Lemma in_insert_dep x y l : In y (insert_dep x l) -> y = x \/ In y l.
Proof.
  induction l as [|z l IH]; cbn; [intros [H|[]]; auto|].
  destruct (Nat.leb (d_source x) (d_source z)); cbn; [intros [H|H]; auto|].
  intros [H|H]; [auto|]. destruct (IH H); auto.
Qed.
Lemma in_sort_deps y l : In y (sort_deps l) -> In y l.
Proof.
  induction l as [|x l IH]; cbn; [auto|]. intro H. apply in_insert_dep in H as [H|H]; auto.
Qed.
Lemma deps_of_in d r t x : In x (deps_of d r t) -> In x (deps d).
Proof.
  unfold deps_of. destruct (r_ovr r || negb (r_gen r)); [contradiction|].
  intro H. apply in_sort_deps in H. apply filter_In in H. tauto.
Qed.

Lemma walk_deps_deps isd runid f r :
  (forall w1 c1 s v w' c' evs, isd w1 c1 s = Ret (v, w', c', evs) -> deps (dbs w') = deps (dbs w1)) ->
  forall ds w0 c0 must evs0 v w' c' evs,
    walk_deps isd runid f r ds w0 c0 must evs0 = Ret (v, w', c', evs) -> deps (dbs w') = deps (dbs w0).
Proof.
  intros Hisd. induction ds as [|d ds IH]; intros w0 c0 must evs0 v w' c' evs H; cbn [walk_deps] in H.
  - destruct must; [destruct c0|]; inversion H; subst; reflexivity.
  - destruct (d_mode d).
    + destruct (exists_b w0 _); [inversion H; subst; reflexivity|eapply IH; exact H].
    + destruct (isd w0 c0 (d_source d)) as [[[[v1 w1] c1] e1]|] eqn:E; [|discriminate].
      pose proof (Hisd _ _ _ _ _ _ _ E) as F1. destruct v1.
      * rewrite <- F1. eapply IH; exact H.
      * inversion H; subst. exact F1.
      * rewrite <- F1. eapply IH; exact H.
      * inversion H; subst. exact F1.
Qed.

Lemma is_dirty_deps : forall fuel runid w c f mx seen v w' c' evs,
  is_dirty fuel runid w c f mx seen = Ret (v, w', c', evs) -> deps (dbs w') = deps (dbs w).
Proof.
  induction fuel as [|fuel IH]; intros runid w c f mx seen v w' c' evs H; [discriminate|].
  cbn [is_dirty] in H.
  destruct (existsb (Nat.eqb f) seen); [inversion H; reflexivity|].
  set (r := load runid (dbs w) f) in *.
  destruct (r_failed r); [inversion H; reflexivity|].
  destruct (r_changed r) as [chg|]; [|inversion H; reflexivity].
  destruct (Z.ltb mx chg); [inversion H; reflexivity|].
  destruct (chk_is_checked c runid r f); [inversion H; reflexivity|].
  destruct (r_stamp r) as [old|]; [|inversion H; reflexivity].
  destruct (negb (stamp_eqb old (read_stamp w (r_name r)))).
  { inversion H; subst. unfold forget_missing. destruct (read_stamp w (r_name r)); [|reflexivity].
    destruct (r_gen r); reflexivity. }
  eapply walk_deps_deps; [|exact H]. intros w1 c1 s v1 w1' c1' e1 E. eapply IH; exact E.
Qed.

Section Agree.
Variable runid : Z.
Hypothesis runid_pos : (0 < runid)%Z.

(* two rows that differ at most in checked_runid *)
Definition req (a b : row) : Prop :=
  r_name a = r_name b /\ r_gen a = r_gen b /\ r_ovr a = r_ovr b /\ r_changed a = r_changed b
  /\ r_failed a = r_failed b /\ r_stamp a = r_stamp b /\ r_csum a = r_csum b.

Lemma req_refl a : req a a.
Proof. repeat split. Qed.
Lemma req_trans a b c : req a b -> req b c -> req a c.
Proof. intros (A & B & C & D & E & F & G) (A' & B' & C' & D' & E' & F' & G'). repeat split; congruence. Qed.

(* the database of the builder (wd) and that of redo-ood (wm, with its
   in-memory set l of rows found clean in this run) *)
Definition REL (l : list fid) (wd wm : world) : Prop :=
  fs wd = fs wm /\ deps (dbs wd) = deps (dbs wm) /\ length (rows (dbs wd)) = length (rows (dbs wm)) /\
  forall g, (1 <= g)%nat ->
    req (load runid (dbs wd) g) (load runid (dbs wm) g) /\
    (if existsb (Nat.eqb g) l
     then is_checked runid (load runid (dbs wd) g) = true
     else r_checked (load runid (dbs wd) g) = r_checked (load runid (dbs wm) g)
          /\ is_checked runid (load runid (dbs wd) g) = false).

(* all file ids are positive (row ids start at 1) *)
Definition ids_pos (w : world) : Prop := forall d, In d (deps (dbs w)) -> (1 <= d_source d)%nat.

Lemma view_row_failed r : r_failed (view_row runid r) = r_failed r.
Proof. unfold view_row. destruct (bytes_eqb _ _); reflexivity. Qed.
Lemma view_row_csum r : r_csum (view_row runid r) = r_csum r.
Proof. unfold view_row. destruct (bytes_eqb _ _); reflexivity. Qed.
Lemma view_row_checked r : r_checked (view_row runid r) = r_checked r.
Proof. unfold view_row. destruct (bytes_eqb _ _); reflexivity. Qed.

(* a row that carries the name and the changed_runid of a viewed row is its own view *)
Lemma view_fix x y : r_name x = r_name y -> r_changed x = r_changed (view_row runid y) -> view_row runid x = x.
Proof.
  intros Hn Hc. unfold view_row in *. rewrite Hn. destruct (bytes_eqb (r_name y) always_name); [|reflexivity].
  cbn [r_changed] in Hc. destruct x as [xn xg xo xk xc xf xs xcs]. cbn [r_name r_gen r_ovr r_checked r_changed r_failed r_stamp r_csum] in *.
  subst xc. f_equal; [congruence|]. f_equal. destruct (r_changed y); lia.
Qed.

Lemma view_of_upd r gen ovr chk fl st cs :
  view_row runid (upd_row (view_row runid r) gen ovr chk (r_changed (view_row runid r)) fl st cs)
  = upd_row (view_row runid r) gen ovr chk (r_changed (view_row runid r)) fl st cs.
Proof. apply (view_fix _ r); cbn [upd_row r_name r_changed]; [apply view_row_name|reflexivity]. Qed.

Lemma load_put_same d g r : (g - 1 < length (rows d))%nat -> load runid (put_row d g r) g = view_row runid r.
Proof. intros Hin. unfold load, get_row. rewrite rows_put_row. now rewrite nth_set_nth. Qed.
Lemma load_put_other d f g r : (1 <= g)%nat -> (1 <= f)%nat -> g <> f -> load runid (put_row d f r) g = load runid d g.
Proof. intros Hg Hf Hne. unfold load. rewrite get_row_put_row_other by lia. reflexivity. Qed.
Lemma load_put_beyond d f r g : (length (rows d) <= f - 1)%nat -> load runid (put_row d f r) g = load runid d g.
Proof. intro H. unfold load, get_row. rewrite rows_put_row, set_nth_beyond by exact H. reflexivity. Qed.

Lemma length_put_row d f r : length (rows (put_row d f r)) = length (rows d).
Proof.
  rewrite rows_put_row. generalize (f - 1)%nat as j. generalize (rows d) as l0.
  induction l0 as [|x l0 IH]; intros [|j]; cbn; auto.
Qed.

Lemma load_in_range d f : r_changed (load runid d f) <> None -> (f - 1 < length (rows d))%nat.
Proof.
  intro H. destruct (Nat.lt_ge_cases (f - 1) (length (rows d))) as [Hin|Hout]; [exact Hin|exfalso].
  apply H. unfold load, get_row. rewrite nth_overflow by exact Hout. reflexivity.
Qed.

(* ---------------------------------------------------------------- frame: rows on the path are not written *)
Lemma is_dirty_frame g : (1 <= g)%nat -> forall fuel w c f mx seen v w' c' evs,
  (1 <= f)%nat -> ids_pos w ->
  existsb (Nat.eqb g) seen = true ->
  is_dirty fuel runid w c f mx seen = Ret (v, w', c', evs) -> get_row (dbs w') g = get_row (dbs w) g.
Proof.
  intros Hg. induction fuel as [|fuel IH]; intros w c f mx seen v w' c' evs Hf Hpos Hseen H; [discriminate|].
  cbn [is_dirty] in H.
  destruct (existsb (Nat.eqb f) seen) eqn:Efs; [inversion H; reflexivity|].
  assert (Hne : (g - 1 <> f - 1)%nat).
  { intro E. assert (g = f) by lia. subst g. congruence. }
  set (r := load runid (dbs w) f) in *.
  destruct (r_failed r); [inversion H; reflexivity|].
  destruct (r_changed r) as [chg|]; [|inversion H; reflexivity].
  destruct (Z.ltb mx chg); [inversion H; reflexivity|].
  destruct (chk_is_checked c runid r f); [inversion H; reflexivity|].
  destruct (r_stamp r) as [old|]; [|inversion H; reflexivity].
  destruct (negb (stamp_eqb old (read_stamp w (r_name r)))).
  { inversion H; subst. unfold forget_missing. destruct (read_stamp w (r_name r)); [|reflexivity].
    destruct (r_gen r); [|reflexivity]. cbn [dbs set_db]. now apply get_row_put_row_other. }
  set (sm := Z.max chg match r_checked r with Some k => k | None => 0%Z end) in *.
  assert (G : forall ds w0 c0 must evs0 v w' c' evs, deps (dbs w0) = deps (dbs w) ->
            walk_deps (fun w1 c1 s => is_dirty fuel runid w1 c1 s sm (f :: seen))
                      runid f r ds w0 c0 must evs0 = Ret (v, w', c', evs) ->
            Forall (fun d => (1 <= d_source d)%nat) ds ->
            get_row (dbs w') g = get_row (dbs w0) g).
  { clear H. induction ds as [|d ds IHds]; intros w0 c0 must evs0 v0 w0' c0' evs1 Hd H Hall; cbn [walk_deps] in H.
    - destruct must; [destruct c0|]; inversion H; subst; auto. cbn [dbs set_db]. now apply get_row_put_row_other.
    - inversion Hall as [|d0 ds0 Hd1 Hds]; subst. destruct (d_mode d).
      + destruct (exists_b w0 _); [inversion H; subst; reflexivity|eapply IHds; eauto].
      + destruct (is_dirty fuel runid w0 c0 (d_source d) sm (f :: seen)) as [[[[v1 w1] c1] e1]|] eqn:E; [|discriminate].
        assert (F1 : get_row (dbs w1) g = get_row (dbs w0) g).
        { apply (IH w0 c0 (d_source d) sm (f :: seen) v1 w1 c1 e1 Hd1); [| |exact E].
          - intros d' Hin. apply Hpos. now rewrite <- Hd.
          - cbn [existsb]. apply orb_true_iff. right. exact Hseen. }
        assert (Hd1' : deps (dbs w1) = deps (dbs w)) by (rewrite <- Hd; eapply is_dirty_deps; exact E).
        destruct v1.
        * rewrite <- F1. eapply IHds; eauto.
        * inversion H; subst. exact F1.
        * rewrite <- F1. eapply IHds; eauto.
        * inversion H; subst. exact F1. }
  eapply G; [reflexivity|exact H|].
  apply Forall_forall. intros d Hin. apply Hpos. eapply deps_of_in; exact Hin.
Qed.

(* ---------------------------------------------------------------- the simulation *)
Definition RES (l : list fid) (rd rm : dirty_result) : Prop :=
  match rd, rm with
  | Ret (vd, wd', cd', ed), Ret (vm, wm', ChkMem l', em) =>
      vd = vm /\ ed = em /\ cd' = ChkDb /\ REL l' wd' wm'
      /\ (forall g, existsb (Nat.eqb g) l = true -> existsb (Nat.eqb g) l' = true)
  | EFuel, EFuel => True
  | _, _ => False
  end.

Lemma RES_ret l l' v wd wm evs :
  REL l' wd wm -> (forall g, existsb (Nat.eqb g) l = true -> existsb (Nat.eqb g) l' = true) ->
  RES l (Ret (v, wd, ChkDb, evs)) (Ret (v, wm, ChkMem l', evs)).
Proof. intros H1 H2. cbn. split; [reflexivity|]. split; [reflexivity|]. split; [reflexivity|]. split; assumption. Qed.

Lemma is_checked_upd r gen ovr chk chg fl st cs : is_checked runid (upd_row r gen ovr chk chg fl st cs) = geb_runid chk runid.
Proof. reflexivity. Qed.

Lemma REL_put l wd wm f rd' rm' :
  (1 <= f)%nat -> REL l wd wm ->
  view_row runid rd' = rd' -> view_row runid rm' = rm' -> req rd' rm' ->
  (if existsb (Nat.eqb f) l then is_checked runid rd' = true
   else r_checked rd' = r_checked rm' /\ is_checked runid rd' = false) ->
  REL l (set_db wd (put_row (dbs wd) f rd')) (set_db wm (put_row (dbs wm) f rm')).
Proof.
  intros Hf (Hfs & Hdeps & Hlen & Hrows) Vd Vm Hreq Hchk.
  split; [exact Hfs|]. split; [exact Hdeps|]. split; [cbn [dbs set_db]; now rewrite !length_put_row|].
  intros g Hg. cbn [dbs set_db].
  destruct (Nat.lt_ge_cases (f - 1) (length (rows (dbs wd)))) as [Hin|Hout].
  - destruct (Nat.eq_dec g f) as [->|Hne].
    + rewrite !load_put_same by (try rewrite <- Hlen; exact Hin). rewrite Vd, Vm. split; [exact Hreq|exact Hchk].
    + rewrite !load_put_other by assumption. apply Hrows. exact Hg.
  - rewrite !load_put_beyond by (try rewrite <- Hlen; exact Hout). apply Hrows. exact Hg.
Qed.

Lemma REL_forget l wd wm f ns :
  (1 <= f)%nat -> REL l wd wm ->
  existsb (Nat.eqb f) l = false ->
  REL l (forget_missing wd f (load runid (dbs wd) f) ns) (forget_missing wm f (load runid (dbs wm) f) ns).
Proof.
  intros Hf HR Hl. pose proof HR as (_ & _ & _ & Hrows). destruct (Hrows f Hf) as [Hreq Hc]. rewrite Hl in Hc.
  destruct Hc as [Hck Hnc]. pose proof Hreq as (Rn & Rg & Ro & Rc & Rf & Rs & Rcs).
  unfold forget_missing. destruct ns; [|exact HR]. rewrite <- Rg. destruct (r_gen (load runid (dbs wd) f)); [|exact HR].
  apply REL_put; [exact Hf|exact HR| | | |].
  - unfold load. apply (view_fix _ (get_row (dbs wd) f)); cbn [upd_row r_name r_changed]; [apply view_row_name|reflexivity].
  - unfold load. apply (view_fix _ (get_row (dbs wm) f)); cbn [upd_row r_name r_changed]; [apply view_row_name|reflexivity].
  - repeat split; cbn [upd_row r_name r_gen r_ovr r_changed r_failed r_stamp r_csum]; congruence.
  - rewrite Hl. split; [cbn [upd_row r_checked]; exact Hck|]. rewrite is_checked_upd. exact Hnc.
Qed.

Lemma existsb_cons g f l : existsb (Nat.eqb g) (f :: l) = Nat.eqb g f || existsb (Nat.eqb g) l.
Proof. reflexivity. Qed.

(* the row is written back as checked (builder) / remembered in the set (redo-ood) *)
Lemma REL_checked l wd wm f rd :
  (1 <= f)%nat -> REL l wd wm -> (f - 1 < length (rows (dbs wd)))%nat ->
  view_row runid rd = rd -> req rd (load runid (dbs wm) f) ->
  REL (f :: l) (set_db wd (put_row (dbs wd) f (set_checked runid rd))) wm.
Proof.
  intros Hf (Hfs & Hdeps & Hlen & Hrows) Hin Vd Hreq.
  split; [exact Hfs|]. split; [exact Hdeps|]. split; [cbn [dbs set_db]; now rewrite length_put_row|].
  intros g Hg. cbn [dbs set_db]. rewrite existsb_cons.
  destruct (Nat.eq_dec g f) as [->|Hne].
  - rewrite Nat.eqb_refl. cbn [orb]. rewrite load_put_same by exact Hin.
    assert (V : view_row runid (set_checked runid rd) = set_checked runid rd).
    { apply (view_fix _ rd); [reflexivity|]. cbn [set_checked upd_row r_changed]. now rewrite Vd. }
    rewrite V. split.
    + destruct Hreq as (Rn & Rg & Ro & Rc & Rf & Rs & Rcs).
      repeat split; cbn [set_checked upd_row r_name r_gen r_ovr r_changed r_failed r_stamp r_csum]; assumption.
    + unfold set_checked. rewrite is_checked_upd. unfold geb_runid.
      assert (E : Z.eqb runid 0 = false) by (apply Z.eqb_neq; lia). rewrite E. cbn [negb andb]. apply Z.leb_le. lia.
  - assert (E : Nat.eqb g f = false) by (apply Nat.eqb_neq; exact Hne). rewrite E. cbn [orb].
    rewrite load_put_other by assumption. apply Hrows. exact Hg.
Qed.

Lemma REL_ids l wd wm : REL l wd wm -> ids_pos wd -> ids_pos wm.
Proof. intros (_ & Hd & _) H d Hin. apply H. now rewrite Hd. Qed.

Theorem is_dirty_sim : forall fuel wd wm l f mx seen,
  (1 <= f)%nat -> ids_pos wd -> REL l wd wm ->
  RES l (is_dirty fuel runid wd ChkDb f mx seen) (is_dirty fuel runid wm (ChkMem l) f mx seen).
Proof.
  induction fuel as [|fuel IH]; intros wd wm l f mx seen Hf Hpos HR; [exact I|].
  assert (Hsame : forall v evs, RES l (Ret (v, wd, ChkDb, evs)) (Ret (v, wm, ChkMem l, evs))).
  { intros v evs. apply RES_ret; auto. }
  cbn [is_dirty].
  destruct (existsb (Nat.eqb f) seen) eqn:Efs; [apply Hsame|].
  pose proof HR as (Hfs & Hdeps & Hlen & Hrows). destruct (Hrows f Hf) as [Hreq Hc].
  set (rd := load runid (dbs wd) f) in *. set (rm := load runid (dbs wm) f) in *.
  pose proof Hreq as (Rn & Rg & Ro & Rc & Rf & Rs & Rcs).
  rewrite <- Rf. destruct (r_failed rd); [apply Hsame|].
  rewrite <- Rc. destruct (r_changed rd) as [chg|] eqn:Echg; [|apply Hsame].
  destruct (Z.ltb mx chg); [apply Hsame|].
  cbn [chk_is_checked].
  destruct (existsb (Nat.eqb f) l) eqn:El.
  { rewrite Hc. apply Hsame. }
  destruct Hc as [Hck Hnc]. rewrite Hnc.
  rewrite <- Rs. destruct (r_stamp rd) as [old|]; [|apply Hsame].
  assert (Hst : read_stamp wm (r_name rm) = read_stamp wd (r_name rd)) by (unfold read_stamp; now rewrite Hfs, Rn).
  rewrite Hst. destruct (negb (stamp_eqb old (read_stamp wd (r_name rd)))).
  { rewrite <- Rcs. apply RES_ret; [apply REL_forget; assumption|auto]. }
  (* the walk *)
  assert (Hin : (f - 1 < length (rows (dbs wd)))%nat) by (apply load_in_range; fold rd; congruence).
  assert (Vd : view_row runid rd = rd) by (unfold rd, load; apply (view_fix _ (get_row (dbs wd) f)); [apply view_row_name|reflexivity]).
  assert (Hdo : deps_of (dbs wm) rm f = deps_of (dbs wd) rd f) by (unfold deps_of; now rewrite Hdeps, Ro, Rg).
  rewrite Hdo. rewrite <- Hck.
  set (sm := Z.max chg match r_checked rd with Some k => k | None => 0%Z end).
  assert (Hall : Forall (fun d => (1 <= d_source d)%nat) (deps_of (dbs wd) rd f)).
  { apply Forall_forall. intros d Hd. apply Hpos. eapply deps_of_in; exact Hd. }
  generalize dependent (deps_of (dbs wd) rd f). intros ds _ Hall.
  assert (G : forall ds wdk wmk lk must evs0,
            Forall (fun d => (1 <= d_source d)%nat) ds ->
            REL lk wdk wmk -> deps (dbs wdk) = deps (dbs wd) ->
            get_row (dbs wmk) f = get_row (dbs wm) f ->
            (forall g, existsb (Nat.eqb g) l = true -> existsb (Nat.eqb g) lk = true) ->
            (length (rows (dbs wdk)) = length (rows (dbs wd))) ->
            RES l (walk_deps (fun w c s => is_dirty fuel runid w c s sm (f :: seen)) runid f rd ds wdk ChkDb must evs0)
                  (walk_deps (fun w c s => is_dirty fuel runid w c s sm (f :: seen)) runid f rm ds wmk (ChkMem lk) must evs0)).
  { clear Hall ds. induction ds as [|d ds IHds]; intros wdk wmk lk must evs0 Hall HRk Hdk Hfr Hinc Hlk; cbn [walk_deps].
    - destruct must as [|m0 must].
      + rewrite <- Ro, <- Rn. apply RES_ret.
        * apply REL_checked; [exact Hf|exact HRk|now rewrite Hlk|exact Vd|].
          unfold load. rewrite Hfr. exact Hreq.
        * intros g Hg. rewrite existsb_cons. rewrite (Hinc g Hg). apply orb_true_r.
      + apply RES_ret; assumption.
    - inversion Hall as [|d0 ds0 Hd1 Hds]; subst.
      pose proof HRk as (Hfsk & Hdepsk & Hlenk & Hrowsk).
      destruct (d_mode d).
      + assert (Hex : exists_b wmk (r_name (get_row (dbs wmk) (d_source d))) = exists_b wdk (r_name (get_row (dbs wdk) (d_source d)))).
        { destruct (Hrowsk (d_source d) Hd1) as [(Rn' & _) _]. rewrite !load_name in Rn'.
          unfold exists_b. now rewrite Hfsk, Rn'. }
        rewrite Hex. destruct (exists_b wdk _).
        * rewrite <- Rcs. apply RES_ret; assumption.
        * apply IHds; assumption.
      + assert (Hposk : ids_pos wdk) by (intros d' Hin'; apply Hpos; now rewrite <- Hdk).
        pose proof (IH wdk wmk lk (d_source d) sm (f :: seen) Hd1 Hposk HRk) as Hsub.
        destruct (is_dirty fuel runid wdk ChkDb (d_source d) sm (f :: seen)) as [[[[vd wd1] cd1] ed1]|] eqn:Ed;
          destruct (is_dirty fuel runid wmk (ChkMem lk) (d_source d) sm (f :: seen)) as [[[[vm wm1] cm1] em1]|] eqn:Em;
          cbn in Hsub; try contradiction; [|exact I].
        destruct cm1 as [|l1]; [contradiction|].
        destruct Hsub as (-> & -> & -> & HR1 & Hinc1).
        assert (Hd1' : deps (dbs wd1) = deps (dbs wd)) by (rewrite <- Hdk; eapply is_dirty_deps; exact Ed).
        assert (Hfr1 : get_row (dbs wm1) f = get_row (dbs wm) f).
        { rewrite <- Hfr. eapply (is_dirty_frame f Hf); [exact Hd1| | |exact Em].
          - eapply REL_ids; eauto.
          - cbn [existsb]. rewrite Nat.eqb_refl. reflexivity. }
        assert (Hl1 : length (rows (dbs wd1)) = length (rows (dbs wd))).
        { rewrite <- Hlk. destruct (is_dirty_DSTEP _ _ _ _ _ _ _ _ _ _ _ Ed) as (_ & Nn & _).
          rewrite <- !names_length. now rewrite Nn. }
        assert (Hinc' : forall g, existsb (Nat.eqb g) l = true -> existsb (Nat.eqb g) l1 = true) by (intros g Hg; apply Hinc1, Hinc, Hg).
        destruct vm.
        * apply IHds; assumption.
        * rewrite <- Rcs. apply RES_ret; assumption.
        * apply IHds; assumption.
        * apply RES_ret; assumption. }
  apply G; auto.
Qed.

(* ---------------------------------------------------------------- at the start of a run *)
(* no row has been verified in this run yet (run ids grow: every recorded id is older) *)
Definition fresh_run (w : world) : Prop :=
  forall g, (1 <= g)%nat -> is_checked runid (load runid (dbs w) g) = false.

Lemma REL_start w : fresh_run w -> REL [] w w.
Proof.
  intro H. split; [reflexivity|]. split; [reflexivity|]. split; [reflexivity|].
  intros g Hg. split; [apply req_refl|]. cbn [existsb]. split; [reflexivity|apply H; exact Hg].
Qed.

(* redo-ood's loop over the known targets (the lambda of [exec COod]), for either way of remembering *)
Definition ood_step (fuel : nat) (acc : res (world * chk * list name * bool)) (x : fid * row)
  : res (world * chk * list name * bool) :=
  match acc with
  | Ret (_, _, _, true) => acc
  | Ret (w1, c1, out, cyc) =>
      match is_dirty fuel runid w1 c1 (fst x) runid [] with
      | Ret (VClean, w2, c2, _) => Ret (w2, c2, out, cyc)
      | Ret (VCycle, w2, c2, _) => Ret (w2, c2, out, true)
      | Ret (_, w2, c2, _) => Ret (w2, c2, out ++ [r_name (snd x)], cyc)
      | EFuel => EFuel
      end
  | EFuel => EFuel
  end.

Definition ACC (ad am : res (world * chk * list name * bool)) : Prop :=
  match ad, am with
  | Ret (wd, cd, od, yd), Ret (wm, ChkMem l, om, ym) =>
      od = om /\ yd = ym /\ cd = ChkDb /\ REL l wd wm /\ deps (dbs wd) = deps (dbs wm)
  | EFuel, EFuel => True
  | _, _ => False
  end.

Lemma ood_step_sim fuel ad am x :
  (1 <= fst x)%nat -> (forall wd cd od yd, ad = Ret (wd, cd, od, yd) -> ids_pos wd) ->
  ACC ad am -> ACC (ood_step fuel ad x) (ood_step fuel am x).
Proof.
  intros Hx Hpos H.
  destruct ad as [[[[wd cd] od] yd]|]; destruct am as [[[[wm cm] om] ym]|]; cbn in H; try contradiction; [|exact I].
  destruct cm as [|l]; [contradiction|]. destruct H as (-> & -> & -> & HR & Hd).
  destruct ym; [cbn; auto|].
  pose proof (is_dirty_sim fuel wd wm l (fst x) runid [] Hx (Hpos _ _ _ _ eq_refl) HR) as S.
  destruct (is_dirty fuel runid wd ChkDb (fst x) runid []) as [[[[vd wd1] cd1] ed]|] eqn:Ed;
    destruct (is_dirty fuel runid wm (ChkMem l) (fst x) runid []) as [[[[vm wm1] cm1] em]|] eqn:Em; cbn in S; try contradiction.
  - destruct cm1 as [|l1]; [contradiction|]. destruct S as (-> & -> & -> & HR1 & _).
    pose proof HR1 as (_ & Hd1 & _).
    unfold ood_step. cbv beta iota.
    match goal with |- ACC (match ?A with _ => _ end) (match ?B with _ => _ end) =>
      replace A with (Ret (vm, wd1, ChkDb, em)) by (symmetry; exact Ed);
      replace B with (Ret (vm, wm1, ChkMem l1, em)) by (symmetry; exact Em) end.
    destruct vm; cbn; auto.
  - unfold ood_step. cbv beta iota.
    match goal with |- ACC (match ?A with _ => _ end) (match ?B with _ => _ end) =>
      replace A with (@EFuel (verdict * world * chk * list event)) by (symmetry; exact Ed);
      replace B with (@EFuel (verdict * world * chk * list event)) by (symmetry; exact Em) end.
    exact I.
Qed.

(* the whole listing: same names, same cycle flag, whichever way "already verified" is remembered *)
Theorem ood_listing_agrees fuel : forall ts ad am,
  Forall (fun x => (1 <= fst x)%nat) ts ->
  (forall wd cd od yd, ad = Ret (wd, cd, od, yd) -> ids_pos wd) ->
  ACC ad am ->
  ACC (fold_left (ood_step fuel) ts ad) (fold_left (ood_step fuel) ts am).
Proof.
  induction ts as [|x ts IH]; intros ad am Hall Hpos H; cbn [fold_left]; [exact H|].
  inversion Hall as [|x0 ts0 Hx Hts]; subst.
  apply IH; [exact Hts| |apply ood_step_sim; assumption].
  (* ids_pos is about the Deps table, which no dirtiness check writes *)
  intros wd cd od yd E. destruct ad as [[[[wd0 cd0] od0] yd0]|]; [|discriminate].
  assert (P0 : ids_pos wd0) by (eapply Hpos; reflexivity).
  unfold ood_step in E. cbv beta iota in E. destruct yd0; [inversion E; subst; exact P0|].
  match type of E with (match ?A with _ => _ end) = _ => destruct A as [[[[v1 w1] c1] e1]|] eqn:Ed; [|discriminate] end.
  assert (D : deps (dbs w1) = deps (dbs wd0)) by (eapply is_dirty_deps; exact Ed).
  assert (P1 : ids_pos w1) by (intros d Hin; apply P0; now rewrite <- D).
  destruct v1; inversion E; subst; exact P1.
Qed.

End Agree.

(* [exec COod] is that loop, started with an empty in-memory set *)
Lemma exec_ood_is_fold w :
  let '(w0, runid) := new_run w in
  let ts := filter (fun x => is_target runid w0 (snd x)) (files_by_name runid (dbs w0)) in
  exec COod w =
  match fold_left (ood_step runid (default_fuel w0)) ts (Ret (w0, ChkMem [], [], false)) with
  | Ret (_, _, out, false) => (w0, OutList out)
  | Ret (_, _, out, true) => (w0, OutErr 208)
  | EFuel => (w0, OutErr 0)
  end.
Proof. unfold exec. destruct (new_run w) as [w0 runid]. reflexivity. Qed.

(* ---------------------------------------------------------------- decidable forms of the two premises *)
Definition fresh_run_b (runid : Z) (w : world) : bool :=
  forallb (fun r => negb (is_checked runid (view_row runid r))) (rows (dbs w)).
Definition ids_pos_b (w : world) : bool := forallb (fun d => Nat.leb 1 (d_source d)) (deps (dbs w)).

Lemma fresh_run_b_sound runid w : fresh_run_b runid w = true -> fresh_run runid w.
Proof.
  intros H g Hg. unfold fresh_run_b in H. rewrite forallb_forall in H.
  unfold load, get_row. destruct (Nat.lt_ge_cases (g - 1) (length (rows (dbs w)))) as [Hin|Hout].
  - specialize (H (nth (g - 1) (rows (dbs w)) (empty_row [])) (nth_In _ _ Hin)). now apply negb_true_iff in H.
  - rewrite nth_overflow by exact Hout. reflexivity.
Qed.
Lemma ids_pos_b_sound w : ids_pos_b w = true -> ids_pos w.
Proof.
  intros H d Hin. unfold ids_pos_b in H. rewrite forallb_forall in H. specialize (H d Hin). now apply Nat.leb_le in H.
Qed.

(* the two walks from one and the same state at the start of a run *)
Theorem ood_agrees_with_builder runid fuel w f :
  (0 < runid)%Z -> (1 <= f)%nat -> ids_pos w -> fresh_run runid w ->
  match is_dirty fuel runid w ChkDb f runid [], is_dirty fuel runid w (ChkMem []) f runid [] with
  | Ret (vd, _, _, ed), Ret (vm, _, _, em) => vd = vm /\ ed = em
  | EFuel, EFuel => True
  | _, _ => False
  end.
Proof.
  intros Hr Hf Hp Hfr.
  pose proof (is_dirty_sim runid Hr fuel w w [] f runid [] Hf Hp (REL_start runid w Hfr)) as S.
  destruct (is_dirty fuel runid w ChkDb f runid []) as [[[[vd wd1] cd1] ed]|];
    destruct (is_dirty fuel runid w (ChkMem []) f runid []) as [[[[vm wm1] cm1] em]|]; cbn in S; try contradiction; [|exact I].
  destruct cm1; [contradiction|]. destruct S as (-> & -> & _). split; reflexivity.
Qed.
