(* A successful `redo-ifchange ts` (projects of plain scripts, SettleJob.v) and
   then: every later `redo-ifchange ts` runs nothing, n times for every n. *)
From Coq Require Import ZArith List Bool Lia.
Import ListNotations.
From Redo Require Import Base.Bytes Base.BytesProofs Build.Model Build.LocalProofs Build.Protect
                         Build.CleanProofs Build.CleanDb Build.Settle Build.SettleJob Build.Maxrun.

Section Forever.
  Variable rk : name -> nat.
  Variable watched : name -> bool.
  Variable R : Z.

  Theorem build_then_nothing (L : list name) k ts w w' evs :
    R = (maxrun (dbs w) + 1)%Z -> (0 < R)%Z ->
    wfw_b R rk (fst (new_run w)) = true -> fresh_b R (fst (new_run w)) = true ->
    xr_b (fst (new_run w)) = true -> cre_b watched (fst (new_run w)) = true ->
    (forall n, watched n = true -> reserved n = false) ->
    (forall t, watched t = false -> reserved t = false -> In t L) ->
    forallb (proj_t_b rk watched (fst (new_run w))) L = true ->
    forallb (fun t => negb (watched t) && negb (reserved t)) ts = true ->
    exec (CIfChange k ts) w = (w', OutBuild evs 0%Z) ->
    forallb (fun t => Nat.ltb (rk t) (default_fuel w' - 1)) ts = true ->
    forall n, Forall (noop_result w') (repeat_exec n (CIfChange k ts) w').
  Proof.
    intros HR Rpos H1 H2 H3 H4 P1 HL H5 H6 H H7 n.
    destruct (ifchange_settles_b rk watched R L k ts w w' evs HR Rpos H1 H2 H3 H4 P1 HL H5 H6 H) as [Hok Hq].
    pose proof (exec_build_maxrun k ts w w' evs 0%Z H) as Hmr. rewrite <- HR in Hmr.
    assert (Hna : no_always (ok R w' []) w').
    { intros g Hg. destruct Hg as [g _ _ Ha _ _ _]. exact Ha. }
    apply (quiet_forever (rkf rk w') (ok R w' [])).
    - rewrite Hmr. apply (QUIET_next (rkf rk w') (ok R w' []) R); [lia|exact Hna|exact Hq].
    - exact Hna.
    - intros t Ht. destruct (Hok t Ht) as (g & Hf & Hg). exists g. split; [exact Hf|]. split; [exact Hg|].
      rewrite forallb_forall in H7. specialize (H7 t Ht). apply Nat.ltb_lt in H7.
      unfold rkf, nm. destruct (find_row_valid _ _ _ Hf) as [_ Hn]. rewrite Hn. exact H7.
  Qed.
End Forever.
