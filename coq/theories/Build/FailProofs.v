(* C05: "no dependent of a failed target is recorded as up to date".
   A failure mark survives every dirtiness check, and a row with a recorded
   Modified dependency on a failed row is never found clean (unless it was
   already verified in this very run). *)
From Coq Require Import ZArith Lia.
From Redo Require Import Base.Bytes Build.Model Build.FsLemmas Build.RecordProofs Build.LocalProofs Build.Protect.

Definition failed_at (w : world) (g : fid) : Prop := r_failed (get_row (dbs w) g) <> None.

Lemma load_failed runid d g : r_failed (load runid d g) = r_failed (get_row d g).
Proof. unfold load, view_row. destruct (bytes_eqb _ _); reflexivity. Qed.

Lemma get_row_put_row_other d f r g : (g - 1 <> f - 1)%nat -> get_row (put_row d f r) g = get_row d g.
Proof. intro H. unfold get_row. rewrite rows_put_row. apply nth_set_nth_other. lia. Qed.

Lemma failed_at_put_row_other w f r g :
  (g - 1 <> f - 1)%nat -> failed_at w g -> failed_at (set_db w (put_row (dbs w) f r)) g.
Proof. intros Hne H. unfold failed_at in *. cbn [dbs set_db]. now rewrite get_row_put_row_other. Qed.

Lemma failed_at_forget_missing w f r ns g :
  (g - 1 <> f - 1)%nat -> failed_at w g -> failed_at (forget_missing w f r ns) g.
Proof.
  intros Hne H. unfold forget_missing. destruct ns; [|exact H]. destruct (r_gen r); [|exact H].
  now apply failed_at_put_row_other.
Qed.

(* the walk of one row's dependencies keeps the mark of any other row *)
Lemma walk_deps_keeps_failed isd runid f r g :
  (g - 1 <> f - 1)%nat ->
  (forall w0 c0 s v w' c' evs, isd w0 c0 s = Ret (v, w', c', evs) -> failed_at w0 g -> failed_at w' g) ->
  forall ds w0 c0 must evs0 v w' c' evs,
    walk_deps isd runid f r ds w0 c0 must evs0 = Ret (v, w', c', evs) -> failed_at w0 g -> failed_at w' g.
Proof.
  intros Hne Hisd. induction ds as [|d ds IHds]; intros w0 c0 must evs0 v w' c' evs H Hg; cbn [walk_deps] in H.
  - destruct must; [destruct c0|]; inversion H; subst; auto. now apply failed_at_put_row_other.
  - destruct (d_mode d).
    + destruct (exists_b w0 (r_name (get_row (dbs w0) (d_source d)))).
      * inversion H; subst. exact Hg.
      * eapply IHds; [exact H|exact Hg].
    + destruct (isd w0 c0 (d_source d)) as [[[[v1 w1] c1] e1]|] eqn:E; [|discriminate].
      pose proof (Hisd _ _ _ _ _ _ _ E Hg) as Hg1. destruct v1.
      * eapply IHds; [exact H|exact Hg1].
      * inversion H; subst. exact Hg1.
      * eapply IHds; [exact H|exact Hg1].
      * inversion H; subst. exact Hg1.
Qed.

Lemma is_dirty_keeps_failed g : forall fuel runid w c f mx seen v w' c' evs,
  is_dirty fuel runid w c f mx seen = Ret (v, w', c', evs) -> failed_at w g -> failed_at w' g.
Proof.
  induction fuel as [|fuel IH]; intros runid w c f mx seen v w' c' evs H Hg; [discriminate|].
  cbn [is_dirty] in H.
  destruct (existsb (Nat.eqb f) seen); [inversion H; subst; exact Hg|].
  set (r := load runid (dbs w) f) in *.
  destruct (r_failed r) eqn:Ef; [inversion H; subst; exact Hg|].
  assert (Hne : (g - 1 <> f - 1)%nat).
  { intro Heq. apply Hg. unfold r in Ef. rewrite load_failed in Ef. unfold get_row in *. now rewrite Heq. }
  destruct (r_changed r) as [chg|]; [|inversion H; subst; exact Hg].
  destruct (Z.ltb mx chg); [inversion H; subst; exact Hg|].
  destruct (chk_is_checked c runid r f); [inversion H; subst; exact Hg|].
  destruct (r_stamp r) as [old|]; [|inversion H; subst; exact Hg].
  destruct (negb (stamp_eqb old (read_stamp w (r_name r)))).
  { inversion H; subst. now apply failed_at_forget_missing. }
  eapply walk_deps_keeps_failed; [exact Hne| |exact H|exact Hg].
  intros w0 c0 s v0 w0' c0' evs0 E. eapply IH; exact E.
Qed.

(* what a dirtiness check says about a failed row *)
Lemma is_dirty_on_failed fuel runid w c s mx seen v w' c' evs :
  is_dirty fuel runid w c s mx seen = Ret (v, w', c', evs) -> failed_at w s -> v = VDirty \/ v = VCycle.
Proof.
  destruct fuel as [|fuel]; [discriminate|]. intros H Hs. cbn [is_dirty] in H.
  destruct (existsb (Nat.eqb s) seen); [inversion H; auto|].
  unfold failed_at in Hs. rewrite <- (load_failed runid) in Hs.
  destruct (r_failed (load runid (dbs w) s)); [inversion H; auto|congruence].
Qed.

Definition has_failed_dep (w : world) (ds : list dep) : Prop :=
  exists d, In d ds /\ d_mode d = DModified /\ failed_at w (d_source d).

(* the walk never ends "clean" when something is already known to need a
   rebuild, or when one of the Modified dependencies still to be looked at has failed *)
Lemma walk_deps_failed_dep_not_clean isd runid f r :
  (forall g w0 c0 s v w' c' evs, isd w0 c0 s = Ret (v, w', c', evs) -> failed_at w0 g -> failed_at w' g) ->
  (forall w0 c0 s v w' c' evs, isd w0 c0 s = Ret (v, w', c', evs) -> failed_at w0 s -> v = VDirty \/ v = VCycle) ->
  forall ds w0 c0 must evs0 v w' c' evs,
    walk_deps isd runid f r ds w0 c0 must evs0 = Ret (v, w', c', evs) ->
    must <> [] \/ has_failed_dep w0 ds -> v <> VClean.
Proof.
  intros Hkeep Hfail. induction ds as [|d ds IHds]; intros w0 c0 must evs0 v w' c' evs H Hor; cbn [walk_deps] in H.
  - destruct Hor as [Hm|(d & [] & _)]. destruct must; [congruence|]. inversion H; subst. discriminate.
  - assert (Hnext : forall w1, (forall g, failed_at w0 g -> failed_at w1 g) ->
              (d_mode d = DModified -> failed_at w0 (d_source d) -> False) ->
              must <> [] \/ has_failed_dep w1 ds).
    { intros w1 Hk Hnot. destruct Hor as [Hm|(d' & [Hd|Hin] & Hmode & Hf)]; [now left| |].
      - subst d'. exfalso. now apply Hnot.
      - right. exists d'. repeat split; auto. }
    destruct (d_mode d) eqn:Em.
    + destruct (exists_b w0 (r_name (get_row (dbs w0) (d_source d)))).
      * inversion H; subst. destruct (r_csum r); discriminate.
      * eapply IHds; [exact H|]. apply Hnext; [auto|discriminate].
    + destruct (isd w0 c0 (d_source d)) as [[[[v1 w1] c1] e1]|] eqn:E; [|discriminate].
      destruct v1.
      * eapply IHds; [exact H|]. apply Hnext; [intros g; eapply Hkeep; exact E|].
        intros _ Hf. destruct (Hfail _ _ _ _ _ _ _ E Hf); discriminate.
      * inversion H; subst. destruct (r_csum r); discriminate.
      * eapply IHds; [exact H|].
        destruct (Hnext w1) as [Hm|Hd]; [intros g; eapply Hkeep; exact E| |left|right; exact Hd].
        { intros _ Hf. destruct (Hfail _ _ _ _ _ _ _ E Hf); discriminate. }
        destruct must; [congruence|discriminate].
      * inversion H; subst. discriminate.
Qed.

(* C05: a row with a recorded dependency on a failed row is not found clean by
   any run that has not already verified it itself *)
Theorem dependent_of_failed_not_clean fuel runid w c f mx seen v w' c' evs :
  is_dirty fuel runid w c f mx seen = Ret (v, w', c', evs) ->
  chk_is_checked c runid (load runid (dbs w) f) f = false ->
  has_failed_dep w (deps_of (dbs w) (load runid (dbs w) f) f) ->
  v <> VClean.
Proof.
  destruct fuel as [|fuel]; [discriminate|]. intros H Hchk Hdep. cbn [is_dirty] in H.
  destruct (existsb (Nat.eqb f) seen); [inversion H; discriminate|].
  set (r := load runid (dbs w) f) in *.
  destruct (r_failed r); [inversion H; discriminate|].
  destruct (r_changed r) as [chg|]; [|inversion H; discriminate].
  destruct (Z.ltb mx chg); [inversion H; discriminate|].
  rewrite Hchk in H.
  destruct (r_stamp r) as [old|]; [|inversion H; discriminate].
  destruct (negb (stamp_eqb old (read_stamp w (r_name r)))).
  { inversion H; subst. destruct (r_csum r); discriminate. }
  eapply walk_deps_failed_dep_not_clean; [| |exact H|right; exact Hdep].
  - intros g w0 c0 s v0 w0' c0' evs0 E. eapply is_dirty_keeps_failed; exact E.
  - intros w0 c0 s v0 w0' c0' evs0 E. eapply is_dirty_on_failed; exact E.
Qed.
