(* C05: "no dependent of a failed target is recorded as up to date".
   A failure mark survives every dirtiness check, and a row with a recorded
   Modified dependency on a failed row is never found clean (unless it was
   already verified in this very run). *)
From Coq Require Import ZArith Lia.
From Redo Require Import Base.Bytes Base.BytesProofs Build.Model Build.FsLemmas Build.RecordProofs Build.LocalProofs Build.Protect.

Definition failed_at (w : world) (g : fid) : Prop := r_failed (get_row (dbs w) g) <> None.

Lemma load_failed runid d g : r_failed (load runid d g) = r_failed (get_row d g).
Proof. unfold load, view_row. destruct (bytes_eqb _ _); reflexivity. Qed.

Lemma get_row_put_row_other d f r g : (g - 1 <> f - 1)%nat -> get_row (put_row d f r) g = get_row d g.
Proof. intro H. unfold get_row. rewrite rows_put_row. apply nth_set_nth_other. lia. Qed.

Lemma failed_at_put_row_other w f r g :
  (g - 1 <> f - 1)%nat -> failed_at w g -> failed_at (set_db w (put_row (dbs w) f r)) g.
Proof. intros Hne H. unfold failed_at in *. cbn [dbs set_db]. now rewrite get_row_put_row_other. Qed.

Lemma failed_at_forget_missing w f r ns g :
  (g - 1 <> f - 1)%nat -> failed_at w g -> failed_at (forget_missing w f r ns) g.
Proof.
  intros Hne H. unfold forget_missing. destruct ns; [|exact H]. destruct (r_gen r); [|exact H].
  now apply failed_at_put_row_other.
Qed.

(* A failure mark survives a check, provided the copy of the row that is judged
   (and may be written back) is not older than the mark.  Copies of dependency
   rows are taken when the walk of their parent starts, so below the root this
   holds by itself. *)
Lemma is_dirty_keeps_failed g : forall fuel runid cyc w c f r mx seen v w' c' evs,
  is_dirty fuel runid cyc w c f r mx seen = Ret (v, w', c', evs) ->
  failed_at w g -> ((g - 1 = f - 1)%nat -> r_failed r <> None) -> failed_at w' g.
Proof.
  induction fuel as [|fuel IH]; intros runid cyc w c f r mx seen v w' c' evs H Hg Hr; [discriminate|].
  cbn [is_dirty] in H.
  destruct (existsb (Nat.eqb f) seen); [inversion H; subst; exact Hg|].
  destruct (r_failed r) eqn:Ef; [inversion H; subst; exact Hg|].
  assert (Hne : (g - 1 <> f - 1)%nat) by (intro Heq; now apply (Hr Heq)).
  destruct (r_changed r) as [chg|]; [|inversion H; subst; exact Hg].
  destruct (Z.ltb mx chg); [inversion H; subst; exact Hg|].
  destruct (chk_is_checked c runid r f); [inversion H; subst; exact Hg|].
  destruct (r_stamp r) as [old|]; [|inversion H; subst; exact Hg].
  destruct (negb (stamp_eqb old (read_stamp w (r_name r)))).
  { inversion H; subst. now apply failed_at_forget_missing. }
  eapply (walk_deps_inv (fun wk => failed_at wk g) (fun d rs => rs = load runid (dbs w) (d_source d)));
    [| | |exact Hg|exact H].
  - intros w1 c1 d rs v1 w1' c1' e1 -> Hg1 E. cbv beta in E.
    destruct (existsb (Nat.eqb (d_source d)) cyc); [inversion E; subst; exact Hg1|].
    eapply IH; [exact E|exact Hg1|].
    intro Heq. rewrite load_failed. unfold failed_at, get_row in *. now rewrite <- Heq.
  - intros w1 Hg1. now apply failed_at_put_row_other.
  - eapply Forall_impl; [|apply deps_rows_loaded]. cbn. intros x [_ Hx]. exact Hx.
Qed.

Corollary is_dirty_keeps_failed_fresh g fuel runid cyc w c f mx seen v w' c' evs :
  is_dirty fuel runid cyc w c f (load runid (dbs w) f) mx seen = Ret (v, w', c', evs) ->
  failed_at w g -> failed_at w' g.
Proof.
  intros H Hg. eapply is_dirty_keeps_failed; [exact H|exact Hg|].
  intro Heq. rewrite load_failed. unfold failed_at, get_row in *. now rewrite <- Heq.
Qed.

(* what a dirtiness check says about a row whose copy carries a failure mark *)
Lemma is_dirty_on_failed fuel runid cyc w c s r mx seen v w' c' evs :
  is_dirty fuel runid cyc w c s r mx seen = Ret (v, w', c', evs) -> r_failed r <> None -> v = VDirty \/ v = VCycle.
Proof.
  destruct fuel as [|fuel]; [discriminate|]. intros H Hs. cbn [is_dirty] in H.
  destruct (existsb (Nat.eqb s) seen); [inversion H; auto|].
  destruct (r_failed r); [inversion H; auto|congruence].
Qed.

Definition has_failed_dep (ds : list (dep * row)) : Prop :=
  exists d rs, In (d, rs) ds /\ d_mode d = DModified /\ r_failed rs <> None.

(* the walk never ends "clean" when something is already known to need a
   rebuild, or when the copy of one of the Modified dependencies still to be
   looked at carries a failure mark *)
Lemma walk_deps_failed_dep_not_clean isd runid f r :
  (forall w0 c0 s rs v w' c' evs, isd w0 c0 s rs = Ret (v, w', c', evs) -> r_failed rs <> None -> v = VDirty \/ v = VCycle) ->
  forall ds w0 c0 must evs0 v w' c' evs,
    walk_deps isd runid f r ds w0 c0 must evs0 = Ret (v, w', c', evs) ->
    must <> [] \/ has_failed_dep ds -> v <> VClean.
Proof.
  intros Hfail. induction ds as [|[d rs] ds IHds]; intros w0 c0 must evs0 v w' c' evs H Hor; cbn [walk_deps] in H.
  - destruct Hor as [Hm|(d & rs & [] & _)]. destruct must; [congruence|]. inversion H; subst. discriminate.
  - assert (Hnext : (d_mode d = DModified -> r_failed rs <> None -> False) -> must <> [] \/ has_failed_dep ds).
    { intros Hnot. destruct Hor as [Hm|(d' & rs' & [Hd|Hin] & Hmode & Hf)]; [now left| |].
      - inversion Hd; subst d' rs'. exfalso. now apply Hnot.
      - right. exists d', rs'. repeat split; auto. }
    destruct (d_mode d) eqn:Em.
    + destruct (exists_b w0 (r_name rs)).
      * inversion H; subst. destruct (r_csum r); discriminate.
      * eapply IHds; [exact H|]. apply Hnext. discriminate.
    + destruct (isd w0 c0 (d_source d) rs) as [[[[v1 w1] c1] e1]|] eqn:E; [|discriminate].
      destruct v1.
      * eapply IHds; [exact H|]. apply Hnext.
        intros _ Hf. destruct (Hfail _ _ _ _ _ _ _ _ E Hf); discriminate.
      * inversion H; subst. destruct (r_csum r); discriminate.
      * eapply IHds; [exact H|].
        destruct Hnext as [Hm|Hd]; [|left|right; exact Hd].
        { intros _ Hf. destruct (Hfail _ _ _ _ _ _ _ _ E Hf); discriminate. }
        destruct must; [congruence|discriminate].
      * inversion H; subst. discriminate.
Qed.

(* C05: a row with a recorded dependency on a failed row is not found clean by
   any run that has not already dealt with it itself *)
Theorem dependent_of_failed_not_clean fuel runid cyc w c f r mx seen v w' c' evs :
  is_dirty fuel runid cyc w c f r mx seen = Ret (v, w', c', evs) ->
  chk_is_checked c runid r f = false ->
  (exists d, In d (deps_of (dbs w) r f) /\ d_mode d = DModified /\ failed_at w (d_source d)) ->
  v <> VClean.
Proof.
  destruct fuel as [|fuel]; [discriminate|]. intros H Hchk (d & Hin & Hm & Hf). cbn [is_dirty] in H.
  destruct (existsb (Nat.eqb f) seen); [inversion H; discriminate|].
  destruct (r_failed r); [inversion H; discriminate|].
  destruct (r_changed r) as [chg|]; [|inversion H; discriminate].
  destruct (Z.ltb mx chg); [inversion H; discriminate|].
  rewrite Hchk in H.
  destruct (r_stamp r) as [old|]; [|inversion H; discriminate].
  destruct (negb (stamp_eqb old (read_stamp w (r_name r)))).
  { inversion H; subst. destruct (r_csum r); discriminate. }
  eapply walk_deps_failed_dep_not_clean; [|exact H|right].
  - intros w0 c0 s rs v0 w0' c0' evs0 E. cbv beta in E.
    destruct (existsb (Nat.eqb s) cyc); [inversion E; subst; intros _; now left|]. eapply is_dirty_on_failed; exact E.
  - exists d, (load runid (dbs w) (d_source d)). split; [|split; [exact Hm|]].
    + unfold deps_rows. apply in_map_iff. exists d. split; [reflexivity|exact Hin].
    + rewrite load_failed. exact Hf.
Qed.

(* ================================================================ C14: ifcreate and always edges *)
(* The walk never ends "clean" when one of the edges still to be looked at is
   "bad": a Created edge whose path exists now, or a Modified edge whose row
   copy is one the sub-check never finds clean (predicate P). *)
Definition bad_edge (P : row -> Prop) (w : world) (x : dep * row) : Prop :=
  (d_mode (fst x) = DCreated /\ exists_b w (r_name (snd x)) = true)
  \/ (d_mode (fst x) = DModified /\ P (snd x)).

Lemma walk_deps_bad_edge_not_clean (P : row -> Prop) isd runid f r :
  (forall w0 c0 s rs v w' c' evs, isd w0 c0 s rs = Ret (v, w', c', evs) -> fs w' = fs w0) ->
  (forall w0 c0 s rs v w' c' evs, isd w0 c0 s rs = Ret (v, w', c', evs) -> P rs -> v = VDirty \/ v = VCycle) ->
  forall ds w0 c0 must evs0 v w' c' evs,
    walk_deps isd runid f r ds w0 c0 must evs0 = Ret (v, w', c', evs) ->
    must <> [] \/ (exists x, In x ds /\ bad_edge P w0 x) -> v <> VClean.
Proof.
  intros Hfs Hbad. induction ds as [|[d rs] ds IHds]; intros w0 c0 must evs0 v w' c' evs H Hor; cbn [walk_deps] in H.
  - destruct Hor as [Hm|(x & [] & _)]. destruct must; [congruence|]. inversion H; subst. discriminate.
  - assert (Hnext : forall w1, fs w1 = fs w0 -> ~ bad_edge P w0 (d, rs) ->
              must <> [] \/ (exists x, In x ds /\ bad_edge P w1 x)).
    { intros w1 Hw1 Hnot. destruct Hor as [Hm|(x & [Hx|Hin] & Hb)]; [now left| |].
      - subst x. contradiction.
      - right. exists x. split; [exact Hin|]. unfold bad_edge, exists_b in *. now rewrite Hw1. }
    destruct (d_mode d) eqn:Em.
    + destruct (exists_b w0 (r_name rs)) eqn:Ex.
      * inversion H; subst. destruct (r_csum r); discriminate.
      * eapply IHds; [exact H|]. apply Hnext; [reflexivity|].
        unfold bad_edge. cbn [fst snd]. rewrite Em, Ex. intros [[_ X]|[X _]]; discriminate.
    + destruct (isd w0 c0 (d_source d) rs) as [[[[v1 w1] c1] e1]|] eqn:E; [|discriminate].
      pose proof (Hfs _ _ _ _ _ _ _ _ E) as F1.
      assert (Hnot : forall l0, v1 = VClean \/ v1 = VNeed l0 -> ~ bad_edge P w0 (d, rs)).
      { intros l0 Hv. unfold bad_edge. cbn [fst snd]. rewrite Em. intros [[X _]|[_ X]]; [discriminate|].
        destruct (Hbad _ _ _ _ _ _ _ _ E X) as [-> | ->]; destruct Hv; discriminate. }
      destruct v1.
      * eapply IHds; [exact H|]. apply Hnext; [exact F1|]. apply (Hnot []). now left.
      * inversion H; subst. destruct (r_csum r); discriminate.
      * eapply IHds; [exact H|].
        destruct (Hnext w1 F1) as [Hm|Hd]; [apply (Hnot l); now right|left|right; exact Hd].
        destruct must; [congruence|discriminate].
      * inversion H; subst. discriminate.
Qed.

(* a row is judged "never clean" when it is newer than anything an unbuilt parent can show:
   the copy of //ALWAYS (changed_runid pinned to this run by the view) is such a row *)
Definition newer_than_any_old (runid : Z) (rs : row) : Prop :=
  exists chg, r_changed rs = Some chg /\ (runid <= chg)%Z.

Lemma always_row_newer runid d s :
  (0 < runid)%Z -> r_name (get_row d s) = always_name -> newer_than_any_old runid (load runid d s).
Proof.
  intros Hpos Hn. unfold newer_than_any_old, load, view_row. rewrite Hn, bytes_eqb_refl. cbn [r_changed].
  destruct (r_changed (get_row d s)) as [c|]; eexists; (split; [reflexivity|lia]).
Qed.

(* C14: a target with a recorded redo-ifcreate edge to a path that now exists, or
   with a recorded edge to //ALWAYS, is not found clean by a run that has not
   dealt with it yet (its own changed/checked ids are older than the run) *)
Theorem ifcreate_or_always_not_clean fuel runid cyc w c f r mx seen v w' c' evs chg :
  (0 < runid)%Z ->
  is_dirty fuel runid cyc w c f r mx seen = Ret (v, w', c', evs) ->
  chk_is_checked c runid r f = false ->
  r_changed r = Some chg -> (chg < runid)%Z ->
  (match r_checked r with Some k => k | None => 0 end < runid)%Z ->
  (exists d, In d (deps_of (dbs w) r f) /\
     ((d_mode d = DCreated /\ exists_b w (r_name (get_row (dbs w) (d_source d))) = true)
      \/ (d_mode d = DModified /\ r_name (get_row (dbs w) (d_source d)) = always_name))) ->
  v <> VClean.
Proof.
  intros Hpos. destruct fuel as [|fuel]; [discriminate|]. intros H Hchk Hc Hlt Hck (d & Hin & Hd). cbn [is_dirty] in H.
  destruct (existsb (Nat.eqb f) seen); [inversion H; discriminate|].
  destruct (r_failed r); [inversion H; discriminate|].
  rewrite Hc in H.
  destruct (Z.ltb mx chg); [inversion H; discriminate|].
  rewrite Hchk in H.
  destruct (r_stamp r) as [old|]; [|inversion H; discriminate].
  destruct (negb (stamp_eqb old (read_stamp w (r_name r)))).
  { inversion H; subst. destruct (r_csum r); discriminate. }
  set (sm := Z.max chg match r_checked r with Some k => k | None => 0%Z end) in *.
  assert (Hsm : (sm < runid)%Z) by (unfold sm; lia).
  eapply (walk_deps_bad_edge_not_clean (newer_than_any_old runid)); [| |exact H|right].
  - intros w0 c0 s rs v0 w0' c0' evs0 E. cbv beta in E.
    destruct (existsb (Nat.eqb s) cyc); [inversion E; subst; reflexivity|]. eapply is_dirty_fs; exact E.
  - intros w0 c0 s rs v0 w0' c0' evs0 E (cg & Hcg & Hle). cbv beta in E.
    destruct (existsb (Nat.eqb s) cyc); [inversion E; auto|].
    destruct fuel as [|fuel']; [discriminate|]. cbn [is_dirty] in E.
    destruct (existsb (Nat.eqb s) (f :: seen)); [inversion E; auto|].
    destruct (r_failed rs); [inversion E; auto|]. rewrite Hcg in E.
    assert (Hl : Z.ltb sm cg = true) by (apply Z.ltb_lt; lia). rewrite Hl in E. inversion E; auto.
  - exists (d, load runid (dbs w) (d_source d)). split.
    + unfold deps_rows. apply in_map_iff. exists d. split; [reflexivity|exact Hin].
    + unfold bad_edge. cbn [fst snd]. destruct Hd as [[Hm Hex]|[Hm Hn]]; [left|right].
      * split; [exact Hm|]. now rewrite load_name.
      * split; [exact Hm|]. now apply always_row_newer.
Qed.

(* ================================================================ C01: a dependency that moved on *)
(* A recorded Modified dependency that failed, was never built, or changed in a
   later run than the one in which the target was last built or verified makes
   the target not clean -- wherever it stands in the dependency list, whatever
   the other rows say. *)
Definition moved_on (sm : Z) (rs : row) : Prop :=
  r_failed rs <> None \/ r_changed rs = None \/ (exists cg, r_changed rs = Some cg /\ (sm < cg)%Z).

Theorem moved_on_dep_not_clean fuel runid cyc w c f r mx seen v w' c' evs chg :
  is_dirty fuel runid cyc w c f r mx seen = Ret (v, w', c', evs) ->
  chk_is_checked c runid r f = false ->
  r_changed r = Some chg ->
  (exists d, In d (deps_of (dbs w) r f) /\ d_mode d = DModified /\
     moved_on (Z.max chg match r_checked r with Some k => k | None => 0%Z end) (load runid (dbs w) (d_source d))) ->
  v <> VClean.
Proof.
  destruct fuel as [|fuel]; [discriminate|]. intros H Hchk Hc (d & Hin & Hm & Hmv). cbn [is_dirty] in H.
  destruct (existsb (Nat.eqb f) seen); [inversion H; discriminate|].
  destruct (r_failed r); [inversion H; discriminate|].
  rewrite Hc in H.
  destruct (Z.ltb mx chg); [inversion H; discriminate|].
  rewrite Hchk in H.
  destruct (r_stamp r) as [old|]; [|inversion H; discriminate].
  destruct (negb (stamp_eqb old (read_stamp w (r_name r)))).
  { inversion H; subst. destruct (r_csum r); discriminate. }
  set (sm := Z.max chg match r_checked r with Some k => k | None => 0%Z end) in *.
  eapply (walk_deps_bad_edge_not_clean (moved_on sm)); [| |exact H|right].
  - intros w0 c0 s rs v0 w0' c0' evs0 E. cbv beta in E.
    destruct (existsb (Nat.eqb s) cyc); [inversion E; subst; reflexivity|]. eapply is_dirty_fs; exact E.
  - intros w0 c0 s rs v0 w0' c0' evs0 E Hmo. cbv beta in E.
    destruct (existsb (Nat.eqb s) cyc); [inversion E; auto|].
    destruct fuel as [|fuel']; [discriminate|]. cbn [is_dirty] in E.
    destruct (existsb (Nat.eqb s) (f :: seen)); [inversion E; auto|].
    destruct (r_failed rs) eqn:Ef; [inversion E; auto|].
    destruct Hmo as [Hf|[Hn|(cg & Hcg & Hl)]]; [congruence| |].
    + rewrite Hn in E. inversion E; auto.
    + rewrite Hcg in E. assert (Hl' : Z.ltb sm cg = true) by (apply Z.ltb_lt; exact Hl). rewrite Hl' in E. inversion E; auto.
  - exists (d, load runid (dbs w) (d_source d)). split.
    + unfold deps_rows. apply in_map_iff. exists d. split; [reflexivity|exact Hin].
    + right. split; [exact Hm|exact Hmv].
Qed.
