(* C07 (serial part): a job that succeeds leaves its row "dealt with in this run",
   and such a row is never built again in that run (LocalProofs.start_dealt_with_this_run) *)
From Coq Require Import ZArith Lia.
From Redo Require Import Base.Bytes Build.Model Build.FsLemmas Build.RecordProofs Build.LocalProofs Build.Protect.

Lemma geb_self runid : (0 < runid)%Z -> geb_runid (Some runid) runid = true.
Proof. intro H. unfold geb_runid. assert (E : Z.eqb runid 0 = false) by (apply Z.eqb_neq; lia). rewrite E. cbn. apply Z.leb_le. lia. Qed.

Lemma is_changed_view_set_changed runid r0 : (0 < runid)%Z -> is_changed runid (view_row runid (set_changed runid r0)) = true.
Proof.
  intro H. unfold is_changed, view_row. destruct (bytes_eqb _ _); cbn [set_changed upd_row r_changed].
  - replace (Z.max runid runid) with runid by lia. now apply geb_self.
  - now apply geb_self.
Qed.

Lemma is_checked_view runid r : is_checked runid (view_row runid r) = is_checked runid r.
Proof. unfold is_checked, view_row. destruct (bytes_eqb _ _); reflexivity. Qed.
Lemma is_changed_view_mono runid r : is_changed runid r = true -> is_changed runid (view_row runid r) = true.
Proof.
  unfold is_changed, view_row. destruct (bytes_eqb _ _); [|auto]. cbn [r_changed].
  unfold geb_runid. destruct (r_changed r) as [c|]; [|discriminate].
  intro H. apply andb_true_iff in H as [H1 H2]. apply negb_true_iff, Z.eqb_neq in H1. apply Z.leb_le in H2.
  assert (E : Z.eqb (Z.max runid c) 0 = false) by (apply Z.eqb_neq; lia). rewrite E. cbn. apply Z.leb_le. lia.
Qed.

(* a job that ends with status 0 leaves its row "dealt with in this run" *)
Lemma record_success_dealt_with runid t f sf before rc stdout has_tmp w :
  (0 < runid)%Z -> (f - 1 < length (rows (dbs w)))%nat ->
  snd (record_new_state runid t f sf before rc stdout has_tmp w) = 0%Z ->
  let r' := load runid (dbs (fst (record_new_state runid t f sf before rc stdout has_tmp w))) f in
  (is_checked runid r' || is_changed runid r') = true.
Proof.
  intros Hpos Hin. unfold record_new_state.
  match goal with
  | |- context [if Z.eqb ?rv 0 then _ else _] => destruct (Z.eqb rv 0) eqn:Erv
  end.
  2:{ cbn [snd]. intro H. rewrite H in Erv. discriminate. }
  intros _. cbv zeta.
  assert (Hself : forall d r0, (f - 1 < length (rows d))%nat -> load runid (put_row d f r0) f = view_row runid r0).
  { intros d r0 Hd. unfold load, get_row. cbn [rows put_row]. now rewrite nth_set_nth. }
  destruct stdout as [c|], has_tmp;
    match goal with |- context [if ?b then (_, _) else (_, _)] => destruct b eqn:Eb end;
    cbn [fst dbs set_db];
    (rewrite Hself by (cbn [rows zap_deps2]; rewrite ?dbs_rename_file, ?dbs_write_file, ?dbs_remove_file; exact Hin));
    try (rewrite is_changed_view_set_changed by exact Hpos; apply orb_true_r).
  all: rewrite is_checked_view; cbn [upd_row r_checked r_changed is_checked is_changed] in *;
    apply orb_true_iff in Eb as [Eb|Eb]; [unfold is_checked in *; cbn [upd_row r_checked] in *; rewrite Eb; reflexivity|];
    apply orb_true_iff; right; apply is_changed_view_mono; unfold is_changed in *; cbn [upd_row r_changed] in *; exact Eb.
Qed.
