From Coq Require Import ZArith Lia.
From Redo Require Import Base.Bytes Base.BytesProofs Build.Model.

Lemma fs_get_del_same l n : fs_get (fs_del l n) n = None.
Proof.
  induction l as [|[k v] l IH]; cbn; [reflexivity|].
  destruct (bytes_eqb k n) eqn:E; [exact IH|]. cbn. now rewrite E.
Qed.

Lemma fs_get_del_other l n m : n <> m -> fs_get (fs_del l n) m = fs_get l m.
Proof.
  intro H. induction l as [|[k v] l IH]; cbn; [reflexivity|].
  destruct (bytes_eqb k n) eqn:E.
  - apply bytes_eqb_eq in E. subst k.
    destruct (bytes_eqb n m) eqn:E2; [apply bytes_eqb_eq in E2; contradiction|exact IH].
  - cbn. destruct (bytes_eqb k m); [reflexivity|exact IH].
Qed.

Lemma fs_get_put_same l n f : fs_get (fs_put l n f) n = Some f.
Proof. unfold fs_put. cbn. now rewrite bytes_eqb_refl. Qed.

Lemma fs_get_put_other l n m f : n <> m -> fs_get (fs_put l n f) m = fs_get l m.
Proof.
  intro H. unfold fs_put. cbn.
  destruct (bytes_eqb n m) eqn:E; [apply bytes_eqb_eq in E; contradiction|].
  now apply fs_get_del_other.
Qed.

Lemma tmp_of_neq t : tmp_of t <> t.
Proof.
  unfold tmp_of. intro H. apply (f_equal (@length _)) in H. rewrite app_length in H. cbn in H. lia.
Qed.

Lemma fs_set_db w d : fs (set_db w d) = fs w.
Proof. reflexivity. Qed.

Lemma get_write_same w n data sc :
  fs_get (fs (write_file w n data sc)) n = Some {| f_data := data; f_script := sc; f_mt := clock w |}.
Proof. unfold write_file. cbn [fs]. apply fs_get_put_same. Qed.
Lemma get_write_other w n m data sc : n <> m ->
  fs_get (fs (write_file w n data sc)) m = fs_get (fs w) m.
Proof. intro H. unfold write_file. cbn [fs]. now apply fs_get_put_other. Qed.
Lemma get_remove_same w n : fs_get (fs (remove_file w n)) n = None.
Proof. unfold remove_file. cbn [fs]. apply fs_get_del_same. Qed.
Lemma get_remove_other w n m : n <> m -> fs_get (fs (remove_file w n)) m = fs_get (fs w) m.
Proof. intro H. unfold remove_file. cbn [fs]. now apply fs_get_del_other. Qed.

Lemma get_rename_dst w a b f : fs_get (fs w) a = Some f -> fs_get (fs (rename_file w a b)) b = Some f.
Proof. intro H. unfold rename_file. rewrite H. cbn [fs]. apply fs_get_put_same. Qed.
Lemma get_rename_src w a b : a <> b -> fs_get (fs (rename_file w a b)) a = None.
Proof.
  intro H. unfold rename_file. destruct (fs_get (fs w) a) eqn:E; [|exact E].
  cbn [fs]. rewrite fs_get_put_other by congruence. apply fs_get_del_same.
Qed.
Lemma get_rename_other w a b m : m <> a -> m <> b ->
  fs_get (fs (rename_file w a b)) m = fs_get (fs w) m.
Proof.
  intros Ha Hb. unfold rename_file. destruct (fs_get (fs w) a) eqn:E; [|reflexivity].
  cbn [fs]. rewrite fs_get_put_other by congruence. apply fs_get_del_other. congruence.
Qed.
