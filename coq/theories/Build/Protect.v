(* C11 over whole builds: a file that exists and is not redo's own is never
   modified by [build], for every project, environment and fuel. *)
From Coq Require Import ZArith Lia.
From Redo Require Import Base.Bytes Base.BytesProofs Build.Model Build.FsLemmas Build.RecordProofs Build.LocalProofs.

(* names ending in ".redo.tmp" are redo's reserved namespace *)
Definition reserved (n : name) : bool := is_prefix (rev b_tmp) (rev n) || bytes_eqb n always_name.

(* the database row (if any) does not claim the file as redo's own *)
Definition row_protects (w : world) (n : name) (r : row) : bool :=
  negb (r_gen r) || r_ovr r
  || match r_stamp r with Some s => detect_override s (read_stamp w n) | None => true end.

Definition protected (w : world) (n : name) : Prop :=
  exists_b w n = true /\ reserved n = false /\
  forall i, find_row (rows (dbs w)) n 1 = Some i -> row_protects w n (get_row (dbs w) i) = true.

(* what a step must guarantee *)
Definition PRES (w w' : world) : Prop :=
  forall n, protected w n -> fs_get (fs w') n = fs_get (fs w) n /\ protected w' n.

Lemma PRES_refl w : PRES w w.
Proof. intros n H. auto. Qed.

Lemma PRES_trans w1 w2 w3 : PRES w1 w2 -> PRES w2 w3 -> PRES w1 w3.
Proof.
  intros H12 H23 n Hn. destruct (H12 n Hn) as [E1 P2]. destruct (H23 n P2) as [E2 P3].
  split; [congruence|exact P3].
Qed.

(* ---------------------------------------------------------------- rows *)
Lemma find_row_bounds l n : forall k i, find_row l n k = Some i -> (k <= i < k + length l)%nat.
Proof.
  induction l as [|r l IH]; intros k i H; cbn in H; [discriminate|].
  destruct (bytes_eqb (r_name r) n).
  - inversion H; subst. cbn. lia.
  - apply IH in H. cbn. lia.
Qed.

Lemma find_row_name l n : forall k i, find_row l n k = Some i -> r_name (nth (i - k) l (empty_row [])) = n.
Proof.
  induction l as [|r l IH]; intros k i H; cbn in H; [discriminate|].
  destruct (bytes_eqb (r_name r) n) eqn:E.
  - inversion H; subst. replace (i - i)%nat with O by lia. cbn. now apply bytes_eqb_eq.
  - pose proof (find_row_bounds _ _ _ _ H) as B. specialize (IH _ _ H).
    replace (i - k)%nat with (S (i - S k)) by lia. exact IH.
Qed.

(* replacing a row by one with the same name does not move anybody *)
Lemma find_row_set_nth l n j r' : forall k,
  r_name r' = r_name (nth j l (empty_row [])) -> (j < length l)%nat ->
  find_row (set_nth l j r') n k = find_row l n k.
Proof.
  revert j; induction l as [|r l IH]; intros j k Hn Hj; cbn in *; [lia|].
  destruct j as [|j]; cbn.
  - rewrite Hn. reflexivity.
  - destruct (bytes_eqb (r_name r) n); [reflexivity|]. apply IH; [exact Hn|lia].
Qed.

Lemma set_nth_beyond {A} (l : list A) j x : (length l <= j)%nat -> set_nth l j x = l.
Proof.
  revert j; induction l as [|y l IH]; intros j H; cbn in *; [reflexivity|].
  destruct j; [lia|]. f_equal. apply IH. lia.
Qed.

Lemma nth_set_nth_other (l : list row) j k x : j <> k -> nth k (set_nth l j x) (empty_row []) = nth k l (empty_row []).
Proof.
  revert j k; induction l as [|y l IH]; intros [|j] [|k] H; cbn; try reflexivity; try lia.
  apply IH. lia.
Qed.

Lemma find_row_app_some l l' n : forall k i, find_row l n k = Some i -> find_row (l ++ l') n k = Some i.
Proof.
  induction l as [|r l IH]; intros k i H; cbn in *; [discriminate|].
  destruct (bytes_eqb (r_name r) n); [exact H|auto].
Qed.

Lemma find_row_app_none l l' n : forall k, find_row l n k = None ->
  find_row (l ++ l') n k = find_row l' n (k + length l).
Proof.
  induction l as [|r l IH]; intros k H; cbn in *; [f_equal; lia|].
  destruct (bytes_eqb (r_name r) n); [discriminate|]. rewrite IH by assumption. f_equal. lia.
Qed.

Lemma nth_app_last {A} (l : list A) x d : nth (length l) (l ++ [x]) d = x.
Proof. induction l as [|y l IH]; cbn; auto. Qed.

(* ---------------------------------------------------------------- protected is insensitive to ... *)
(* protection only looks at the file itself and at its own row *)
Lemma protected_ext w w' n :
  fs_get (fs w') n = fs_get (fs w) n ->
  (forall i, find_row (rows (dbs w')) n 1 = Some i ->
     (find_row (rows (dbs w)) n 1 = Some i /\ get_row (dbs w') i = get_row (dbs w) i)
     \/ row_protects w' n (get_row (dbs w') i) = true) ->
  protected w n -> protected w' n.
Proof.
  intros Hfs Hrow (Hex & Hres & Hp). unfold protected.
  assert (Hex' : exists_b w' n = true) by (unfold exists_b in *; now rewrite Hfs).
  assert (Hst : read_stamp w' n = read_stamp w n) by (unfold read_stamp; now rewrite Hfs).
  repeat split; auto. intros i Hi. destruct (Hrow i Hi) as [[Hf Hg]|Hs]; [|exact Hs].
  specialize (Hp i Hf). unfold row_protects in *. now rewrite Hg, Hst.
Qed.

(* a change of the Deps table or of the run counter only *)
Lemma protected_rows_same w w' n :
  fs w' = fs w -> rows (dbs w') = rows (dbs w) -> protected w n -> protected w' n.
Proof.
  intros Hfs Hrows. apply protected_ext; [now rewrite Hfs|].
  intros i Hi. left. rewrite Hrows in Hi. split; [exact Hi|]. unfold get_row. now rewrite Hrows.
Qed.

Lemma PRES_rows_same w w' : fs w' = fs w -> rows (dbs w') = rows (dbs w) -> PRES w w'.
Proof. intros Hfs Hr n Hn. split; [now rewrite Hfs|]. eapply protected_rows_same; eauto. Qed.

(* writing a row that keeps what protection depends on, or that is "safe"
   (not generated, or overridden), never removes a protection *)
Definition same_name (d : db) (i : fid) (r' : row) : Prop := r_name r' = r_name (get_row d i).
Definition keeps (r r' : row) : Prop :=
  r_gen r' = r_gen r /\ r_ovr r' = r_ovr r /\ r_stamp r' = r_stamp r.
Definition safe (r' : row) : Prop := r_gen r' = false \/ r_ovr r' = true.

Lemma rows_put_row d i r' : rows (put_row d i r') = set_nth (rows d) (i - 1) r'.
Proof. reflexivity. Qed.

Lemma protected_put_row w i r' n :
  same_name (dbs w) i r' ->
  (keeps (get_row (dbs w) i) r' \/ safe r' \/ r_name (get_row (dbs w) i) <> n) ->
  protected w n -> protected (set_db w (put_row (dbs w) i r')) n.
Proof.
  intros Hname Hkind Hp.
  destruct (Nat.lt_ge_cases (i - 1) (length (rows (dbs w)))) as [Hin|Hout].
  2:{ (* index out of range: nothing is written *)
      eapply protected_rows_same; [| |exact Hp]; [reflexivity|].
      cbn [dbs set_db]. rewrite rows_put_row. now apply set_nth_beyond. }
  apply (protected_ext w); [reflexivity| |exact Hp].
  intros j Hj. cbn [dbs set_db] in *. rewrite rows_put_row in Hj.
  rewrite find_row_set_nth in Hj by (auto; exact Hname).
  destruct (Nat.eq_dec (j - 1) (i - 1)) as [E|E].
  - (* the written row is n's row *)
    assert (Hnm : r_name (get_row (dbs w) i) = n).
    { unfold get_row. rewrite <- E. apply (find_row_name _ _ 1). exact Hj. }
    right. unfold get_row. rewrite rows_put_row, E.
    assert (G : nth (i - 1) (set_nth (rows (dbs w)) (i - 1) r') (empty_row []) = r')
      by (apply nth_set_nth; exact Hin).
    rewrite G. destruct Hp as (_ & _ & Hp). specialize (Hp j Hj).
    destruct Hkind as [(Hg & Ho & Hs)|[Hsafe|Hne]].
    + unfold row_protects in *. unfold get_row in Hp. rewrite E in Hp.
      change (nth (i - 1) (rows (dbs w)) (empty_row [])) with (get_row (dbs w) i) in Hp.
      rewrite Hg, Ho, Hs. exact Hp.
    + unfold row_protects. destruct Hsafe as [-> | ->]; cbn; [reflexivity|now rewrite orb_true_r].
    + contradiction.
  - left. split; [exact Hj|]. unfold get_row. rewrite rows_put_row. apply nth_set_nth_other. lia.
Qed.

(* from_name: either nothing changes or an empty row (not generated) is appended *)
Lemma protected_from_name w m n :
  protected w n -> protected (set_db w (fst (from_name (dbs w) m))) n.
Proof.
  intro Hp. unfold from_name. destruct (find_row (rows (dbs w)) m 1) eqn:E; cbn [fst].
  - eapply protected_rows_same; [| |exact Hp]; reflexivity.
  - apply (protected_ext w); [reflexivity| |exact Hp].
    intros j Hj. cbn [dbs set_db rows] in *.
    destruct (find_row (rows (dbs w)) n 1) as [i|] eqn:En.
    + rewrite (find_row_app_some _ _ _ _ _ En) in Hj. inversion Hj; subst j. left. split; [reflexivity|].
      unfold get_row. cbn [rows]. pose proof (find_row_bounds _ _ _ _ En).
      rewrite app_nth1 by lia. reflexivity.
    + (* n has no row yet: the new row, if it is n's, is an empty one *)
      rewrite find_row_app_none in Hj by assumption. cbn in Hj.
      destruct (bytes_eqb m n); [|discriminate]. inversion Hj; subst j. right.
      unfold get_row. cbn [rows]. replace (S (length (rows (dbs w))) - 1)%nat with (length (rows (dbs w))) by lia.
      rewrite nth_app_last. reflexivity.
Qed.

Lemma from_name_rows_prefix d m :
  exists l, rows (fst (from_name d m)) = rows d ++ l.
Proof.
  unfold from_name. destruct (find_row (rows d) m 1); cbn; [exists []; now rewrite app_nil_r|eauto].
Qed.

(* ================================================================ names *)
(* Rows are only ever appended, and a row never changes its name: the list of
   row names of a later world extends that of an earlier one. *)
Definition names (d : db) : list name := map r_name (rows d).
Definition NAMES (w w' : world) : Prop := exists l, names (dbs w') = names (dbs w) ++ l.

Lemma NAMES_refl w : NAMES w w.
Proof. exists []. now rewrite app_nil_r. Qed.
Lemma NAMES_trans w1 w2 w3 : NAMES w1 w2 -> NAMES w2 w3 -> NAMES w1 w3.
Proof. intros [l1 H1] [l2 H2]. exists (l1 ++ l2). now rewrite H2, H1, app_assoc. Qed.

Lemma find_row_by_names : forall l l' n k, map r_name l = map r_name l' -> find_row l n k = find_row l' n k.
Proof.
  induction l as [|r l IH]; intros [|r' l'] n k H; cbn in *; try discriminate; [reflexivity|].
  inversion H as [[Hn Hl]]. rewrite Hn. destruct (bytes_eqb (r_name r') n); [reflexivity|]. now apply IH.
Qed.

Lemma find_row_names_prefix : forall l l' x n k i,
  map r_name l' = map r_name l ++ x -> find_row l n k = Some i -> find_row l' n k = Some i.
Proof.
  induction l as [|r l IH]; intros l' x n k i H Hf; cbn in *; [discriminate|].
  destruct l' as [|r' l']; [discriminate|]. cbn in *. inversion H as [[Hn Hl]]. rewrite Hn.
  destruct (bytes_eqb (r_name r) n); [exact Hf|]. eapply IH; eauto.
Qed.

Lemma name_get_row d i : r_name (get_row d i) = nth (i - 1) (names d) [].
Proof. unfold get_row, names. change (@nil N) with (r_name (empty_row [])). now rewrite map_nth. Qed.

Lemma names_length d : length (names d) = length (rows d).
Proof. unfold names. apply map_length. Qed.

Lemma NAMES_get_row w w' i :
  NAMES w w' -> (i - 1 < length (rows (dbs w)))%nat -> r_name (get_row (dbs w') i) = r_name (get_row (dbs w) i).
Proof.
  intros [l H] Hi. rewrite !name_get_row, H. apply app_nth1. now rewrite names_length.
Qed.

Lemma NAMES_length w w' : NAMES w w' -> (length (rows (dbs w)) <= length (rows (dbs w')))%nat.
Proof. intros [l H]. rewrite <- !names_length, H, app_length. lia. Qed.

Lemma NAMES_find w w' n i :
  NAMES w w' -> find_row (rows (dbs w)) n 1 = Some i -> find_row (rows (dbs w')) n 1 = Some i.
Proof. intros [l H] Hf. eapply find_row_names_prefix; eauto. Qed.

Lemma names_set_nth (l : list row) j r' :
  r_name r' = r_name (nth j l (empty_row [])) -> map r_name (set_nth l j r') = map r_name l.
Proof.
  revert j; induction l as [|r l IH]; intros j H; cbn in *; [reflexivity|].
  destruct j; cbn in *; [now rewrite H|]. f_equal. now apply IH.
Qed.

Lemma names_put_row d f r' : r_name r' = r_name (get_row d f) -> names (put_row d f r') = names d.
Proof. intro H. unfold names. rewrite rows_put_row. now apply names_set_nth. Qed.

(* ================================================================ one name at a time *)
Definition PRES1 (n : name) (w w' : world) : Prop :=
  protected w n -> fs_get (fs w') n = fs_get (fs w) n /\ protected w' n.

Lemma PRES_all w w' : PRES w w' <-> forall n, PRES1 n w w'.
Proof. unfold PRES, PRES1. tauto. Qed.

Lemma PRES1_trans n w1 w2 w3 : PRES1 n w1 w2 -> PRES1 n w2 w3 -> PRES1 n w1 w3.
Proof.
  intros H12 H23 Hn. destruct (H12 Hn) as [E1 P2]. destruct (H23 P2) as [E2 P3]. split; [congruence|exact P3].
Qed.

Definition STEP (w w' : world) : Prop := NAMES w w' /\ PRES w w'.
Lemma STEP_refl w : STEP w w.
Proof. split; [apply NAMES_refl|apply PRES_refl]. Qed.
Lemma STEP_trans w1 w2 w3 : STEP w1 w2 -> STEP w2 w3 -> STEP w1 w3.
Proof. intros [N1 P1] [N2 P2]. split; [eapply NAMES_trans|eapply PRES_trans]; eauto. Qed.

(* a world that differs only outside the file system and the rows *)
Lemma STEP_rows_same w w' : fs w' = fs w -> rows (dbs w') = rows (dbs w) -> STEP w w'.
Proof.
  intros Hfs Hr. split; [|now apply PRES_rows_same].
  exists []. unfold names. now rewrite Hr, app_nil_r.
Qed.

(* ---------------------------------------------------------------- writing one row *)
(* The written row has the name of the row it replaces; if that name is a
   protected one, the new row must not claim the file. *)
Lemma PRES1_put_row_slot n w f r' :
  r_name r' = r_name (get_row (dbs w) f) ->
  (protected w n -> forall j, find_row (rows (dbs w)) n 1 = Some j -> (j - 1 = f - 1)%nat ->
     row_protects w n r' = true) ->
  PRES1 n w (set_db w (put_row (dbs w) f r')).
Proof.
  intros Hname Hok Hp. split; [reflexivity|].
  destruct (Nat.lt_ge_cases (f - 1) (length (rows (dbs w)))) as [Hin|Hout].
  2:{ eapply protected_rows_same; [| |exact Hp]; [reflexivity|].
      cbn [dbs set_db]. rewrite rows_put_row. now apply set_nth_beyond. }
  apply (protected_ext w); [reflexivity| |exact Hp].
  intros j Hj. cbn [dbs set_db] in *. rewrite rows_put_row in Hj.
  rewrite find_row_set_nth in Hj by (auto; exact Hname).
  destruct (Nat.eq_dec (j - 1) (f - 1)) as [E|E].
  - right. unfold get_row. rewrite rows_put_row, E.
    assert (G : nth (f - 1) (set_nth (rows (dbs w)) (f - 1) r') (empty_row []) = r') by (apply nth_set_nth; exact Hin).
    rewrite G. exact (Hok Hp j Hj E).
  - left. split; [exact Hj|]. unfold get_row. rewrite rows_put_row. apply nth_set_nth_other. lia.
Qed.

Lemma PRES1_put_row n w f r' :
  r_name r' = r_name (get_row (dbs w) f) ->
  (protected w n -> r_name r' = n -> row_protects w n r' = true) ->
  PRES1 n w (set_db w (put_row (dbs w) f r')).
Proof.
  intros Hname Hok. apply PRES1_put_row_slot; [exact Hname|].
  intros Hp j Hj E. apply Hok; [exact Hp|].
  rewrite Hname. unfold get_row. rewrite <- E. apply (find_row_name _ _ 1). exact Hj.
Qed.

Lemma STEP_put_row w f r' :
  r_name r' = r_name (get_row (dbs w) f) ->
  (forall n, protected w n -> r_name r' = n -> row_protects w n r' = true) ->
  STEP w (set_db w (put_row (dbs w) f r')).
Proof.
  intros Hname Hok. split.
  - exists []. cbn [dbs set_db]. rewrite names_put_row by exact Hname. now rewrite app_nil_r.
  - intros n. apply PRES1_put_row; auto.
Qed.

Lemma row_protects_safe w n r : safe r -> row_protects w n r = true.
Proof. unfold row_protects. intros [-> | ->]; cbn; [reflexivity|now rewrite orb_true_r]. Qed.

(* ---------------------------------------------------------------- appending empty rows *)
Definition EXT (d d' : db) : Prop :=
  exists l, rows d' = rows d ++ l /\ Forall (fun r => r_gen r = false) l.

Lemma EXT_refl d : EXT d d.
Proof. exists []. split; [now rewrite app_nil_r|constructor]. Qed.
Lemma EXT_trans d1 d2 d3 : EXT d1 d2 -> EXT d2 d3 -> EXT d1 d3.
Proof.
  intros (l1 & H1 & F1) (l2 & H2 & F2). exists (l1 ++ l2). split; [now rewrite H2, H1, app_assoc|].
  apply Forall_app. auto.
Qed.
Lemma EXT_rows_same d d' : rows d' = rows d -> EXT d d'.
Proof. intro H. exists []. split; [now rewrite H, app_nil_r|constructor]. Qed.
Lemma EXT_from_name d m : EXT d (fst (from_name d m)).
Proof.
  unfold from_name. destruct (find_row (rows d) m 1); cbn [fst]; [apply EXT_refl|].
  exists [empty_row m]. split; [reflexivity|]. repeat constructor.
Qed.

Lemma STEP_ext w d' : EXT (dbs w) d' -> STEP w (set_db w d').
Proof.
  intros (l & Hr & Hl). split.
  - exists (map r_name l). cbn [dbs set_db]. unfold names. now rewrite Hr, map_app.
  - intros n Hp. split; [reflexivity|].
    apply (protected_ext w); [reflexivity| |exact Hp].
    intros j Hj. cbn [dbs set_db] in *. rewrite Hr in Hj.
    destruct (find_row (rows (dbs w)) n 1) as [i|] eqn:En.
    + rewrite (find_row_app_some _ _ _ _ _ En) in Hj. inversion Hj; subst j. left. split; [reflexivity|].
      unfold get_row. rewrite Hr. pose proof (find_row_bounds _ _ _ _ En). rewrite app_nth1 by lia. reflexivity.
    + right. rewrite find_row_app_none in Hj by assumption.
      pose proof (find_row_bounds _ _ _ _ Hj) as B.
      unfold get_row. rewrite Hr. rewrite app_nth2 by lia.
      apply row_protects_safe. left.
      rewrite Forall_forall in Hl. apply Hl. apply nth_In. lia.
Qed.

(* ---------------------------------------------------------------- file system steps *)
Lemma NAMES_rows_same w w' : rows (dbs w') = rows (dbs w) -> NAMES w w'.
Proof. intro H. exists []. unfold names. now rewrite H, app_nil_r. Qed.

Lemma PRES1_fs n w w' :
  fs_get (fs w') n = fs_get (fs w) n -> rows (dbs w') = rows (dbs w) -> PRES1 n w w'.
Proof.
  intros Hfs Hr Hp. split; [exact Hfs|].
  apply (protected_ext w); [exact Hfs| |exact Hp].
  intros i Hi. left. rewrite Hr in Hi. split; [exact Hi|]. unfold get_row. now rewrite Hr.
Qed.

Lemma reserved_tmp_of t : reserved (tmp_of t) = true.
Proof.
  unfold reserved, tmp_of. rewrite rev_app_distr. generalize (rev b_tmp) as p, (rev t) as q.
  assert (G : forall p q, is_prefix p (p ++ q) = true).
  { induction p as [|x p IH]; intros q; cbn; [reflexivity|]. rewrite N.eqb_refl. apply IH. }
  intros p q. now rewrite G.
Qed.

Lemma protected_not_always w n : protected w n -> n <> always_name.
Proof. intros (_ & Hr & _) ->. unfold reserved in Hr. rewrite bytes_eqb_refl, orb_true_r in Hr. discriminate. Qed.

Lemma protected_not_tmp w n t : protected w n -> n <> tmp_of t.
Proof. intros (_ & Hr & _) ->. rewrite reserved_tmp_of in Hr. discriminate. Qed.

(* ================================================================ is_dirty *)
(* a dirtiness check touches no file, keeps every row name, and keeps every protection *)
Definition DSTEP (w w' : world) : Prop :=
  fs w' = fs w /\ names (dbs w') = names (dbs w) /\ forall n, protected w n -> protected w' n.

Lemma DSTEP_refl w : DSTEP w w.
Proof. split; [reflexivity|split; [reflexivity|auto]]. Qed.
Lemma DSTEP_trans w1 w2 w3 : DSTEP w1 w2 -> DSTEP w2 w3 -> DSTEP w1 w3.
Proof. intros (F1 & N1 & P1) (F2 & N2 & P2). split; [congruence|split; [congruence|auto]]. Qed.
Lemma DSTEP_STEP w w' : DSTEP w w' -> STEP w w'.
Proof.
  intros (F & N & P). split; [exists []; now rewrite N, app_nil_r|].
  intros n Hn. split; [now rewrite F|auto].
Qed.

Lemma view_row_name runid r : r_name (view_row runid r) = r_name r.
Proof. unfold view_row. destruct (bytes_eqb _ _); reflexivity. Qed.
Lemma view_row_gen runid r : r_gen (view_row runid r) = r_gen r.
Proof. unfold view_row. destruct (bytes_eqb _ _); reflexivity. Qed.
Lemma view_row_ovr runid r : r_ovr (view_row runid r) = r_ovr r.
Proof. unfold view_row. destruct (bytes_eqb _ _); reflexivity. Qed.
Lemma view_row_stamp runid r : r_stamp (view_row runid r) = r_stamp r.
Proof. unfold view_row. destruct (bytes_eqb _ _); reflexivity. Qed.

Lemma row_protects_keeps w w' n r r' :
  read_stamp w' n = read_stamp w n -> keeps r r' -> row_protects w n r = true -> row_protects w' n r' = true.
Proof. intros Hs (Hg & Ho & Hst) H. unfold row_protects in *. now rewrite Hg, Ho, Hst, Hs. Qed.

Lemma keeps_view runid r : keeps r (view_row runid r).
Proof. repeat split; [apply view_row_gen|apply view_row_ovr|apply view_row_stamp]. Qed.

Lemma read_stamp_fs w w' n : fs w' = fs w -> read_stamp w' n = read_stamp w n.
Proof. intro H. unfold read_stamp. now rewrite H. Qed.

Lemma DSTEP_put_row w f r' :
  r_name r' = r_name (get_row (dbs w) f) ->
  (forall n, protected w n -> r_name r' = n -> row_protects w n r' = true) ->
  DSTEP w (set_db w (put_row (dbs w) f r')).
Proof.
  intros Hname Hok. split; [reflexivity|split].
  - cbn [dbs set_db]. now apply names_put_row.
  - intros n Hn. now apply (PRES1_put_row n w f r' Hname (Hok n)).
Qed.

(* the row protecting n, if n is protected and row f bears its name *)
Lemma protected_named_row w n f :
  protected w n -> (f - 1 < length (rows (dbs w)))%nat -> r_name (get_row (dbs w) f) = n ->
  exists i, find_row (rows (dbs w)) n 1 = Some i.
Proof.
  intros _ Hin Hnm. destruct (find_row (rows (dbs w)) n 1) eqn:E; [eauto|exfalso].
  (* some row is named n, so the search cannot fail *)
  assert (G : forall l k, find_row l n k = None -> forall j, (j < length l)%nat -> r_name (nth j l (empty_row [])) <> n).
  { induction l as [|r l IH]; intros k Hk j Hj; cbn in *; [lia|].
    destruct (bytes_eqb (r_name r) n) eqn:B; [discriminate|].
    destruct j; [intro X; rewrite X, bytes_eqb_refl in B; discriminate|]. apply (IH (S k)); [exact Hk|lia]. }
  exact (G _ _ E _ Hin Hnm).
Qed.

Lemma walk_deps_DSTEP isd runid f w0 :
  (forall w1 c1 s v w' c' evs, isd w1 c1 s = Ret (v, w', c', evs) -> DSTEP w1 w') ->
  forall ds wk c must evs0 v w' c' evs,
    DSTEP w0 wk ->
    walk_deps isd runid f (load runid (dbs w0) f) ds wk c must evs0 = Ret (v, w', c', evs) -> DSTEP w0 w'.
Proof.
  intros Hisd. set (r := load runid (dbs w0) f).
  induction ds as [|d ds IHds]; intros wk c must evs0 v w' c' evs Hk H; cbn [walk_deps] in H.
  - destruct must; [destruct c|]; inversion H; subst; auto.
    (* the row read at the start is written back with checked_runid set *)
    destruct Hk as (Fk & Nk & Pk).
    assert (Hname : r_name (set_checked runid r) = r_name (get_row (dbs wk) f)).
    { cbn [set_checked upd_row r_name]. unfold r, load. rewrite view_row_name, !name_get_row. now rewrite Nk. }
    split; [exact Fk|split].
    + cbn [dbs set_db]. rewrite names_put_row by exact Hname. exact Nk.
    + intros n Hn0. pose proof (Pk n Hn0) as Hnk.
      apply (PRES1_put_row_slot n wk f (set_checked runid r) Hname); [|exact Hnk].
      intros _ j Hj E.
      assert (Hj0 : find_row (rows (dbs w0)) n 1 = Some j).
      { rewrite <- Hj. apply find_row_by_names. symmetry. exact Nk. }
      destruct Hn0 as (_ & _ & Hrow). specialize (Hrow j Hj0).
      eapply row_protects_keeps; [apply read_stamp_fs; exact Fk| |exact Hrow].
      unfold r, load, get_row. rewrite E.
      destruct (keeps_view runid (nth (f - 1) (rows (dbs w0)) (empty_row []))) as (G1 & G2 & G3).
      repeat split; cbn [set_checked upd_row r_gen r_ovr r_stamp]; assumption.
  - destruct (d_mode d).
    + destruct (exists_b wk (r_name (get_row (dbs wk) (d_source d)))).
      * inversion H; subst. exact Hk.
      * eapply IHds; [exact Hk|exact H].
    + destruct (isd wk c (d_source d)) as [[[[v1 w1] c1] e1]|] eqn:E; [|discriminate].
      pose proof (DSTEP_trans _ _ _ Hk (Hisd _ _ _ _ _ _ _ E)) as Hk1. destruct v1.
      * eapply IHds; [exact Hk1|exact H].
      * inversion H; subst. exact Hk1.
      * eapply IHds; [exact Hk1|exact H].
      * inversion H; subst. exact Hk1.
Qed.

Lemma exists_read_stamp w n : exists_b w n = true -> stamp_eqb (read_stamp w n) SMissing = false.
Proof. unfold exists_b, read_stamp. destruct (fs_get (fs w) n); [reflexivity|discriminate]. Qed.

Lemma is_dirty_DSTEP : forall fuel runid w c f mx seen v w' c' evs,
  is_dirty fuel runid w c f mx seen = Ret (v, w', c', evs) -> DSTEP w w'.
Proof.
  induction fuel as [|fuel IH]; intros runid w c f mx seen v w' c' evs H; [discriminate|].
  cbn [is_dirty] in H.
  destruct (existsb (Nat.eqb f) seen); [inversion H; subst; apply DSTEP_refl|].
  set (r := load runid (dbs w) f) in *.
  destruct (r_failed r); [inversion H; subst; apply DSTEP_refl|].
  destruct (r_changed r) as [chg|]; [|inversion H; subst; apply DSTEP_refl].
  destruct (Z.ltb mx chg); [inversion H; subst; apply DSTEP_refl|].
  destruct (chk_is_checked c runid r f); [inversion H; subst; apply DSTEP_refl|].
  destruct (r_stamp r) as [old|]; [|inversion H; subst; apply DSTEP_refl].
  destruct (negb (stamp_eqb old (read_stamp w (r_name r)))).
  { inversion H; subst. unfold forget_missing.
    destruct (read_stamp w (r_name r)) eqn:Ers; [|apply DSTEP_refl].
    destruct (r_gen r); [|apply DSTEP_refl].
    apply DSTEP_put_row.
    - cbn [upd_row r_name]. unfold r, load. now rewrite view_row_name.
    - intros n _ _. apply row_protects_safe. left. reflexivity. }
  eapply walk_deps_DSTEP; [|apply DSTEP_refl|exact H].
  intros w1 c1 s v1 w1' c1' evs1 E. eapply IH; exact E.
Qed.
