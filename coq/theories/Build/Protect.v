(* C11 over whole builds: a file that exists and is not redo's own is never
   modified by [build], for every project, environment and fuel. *)
From Coq Require Import ZArith Lia.
From Redo Require Import Base.Bytes Base.BytesProofs Build.Model Build.FsLemmas Build.RecordProofs Build.LocalProofs.

(* names ending in ".redo.tmp" are redo's reserved namespace *)
Definition reserved (n : name) : bool := is_prefix (rev b_tmp) (rev n) || bytes_eqb n always_name.

(* the database row (if any) does not claim the file as redo's own *)
Definition row_protects (w : world) (n : name) (r : row) : bool :=
  negb (r_gen r) || r_ovr r
  || match r_stamp r with Some s => detect_override s (read_stamp w n) | None => true end.

Definition protected (w : world) (n : name) : Prop :=
  exists_b w n = true /\ reserved n = false /\
  forall i, find_row (rows (dbs w)) n 1 = Some i -> row_protects w n (get_row (dbs w) i) = true.

(* what a step must guarantee *)
Definition PRES (w w' : world) : Prop :=
  forall n, protected w n -> fs_get (fs w') n = fs_get (fs w) n /\ protected w' n.

Lemma PRES_refl w : PRES w w.
Proof. intros n H. auto. Qed.

Lemma PRES_trans w1 w2 w3 : PRES w1 w2 -> PRES w2 w3 -> PRES w1 w3.
Proof.
  intros H12 H23 n Hn. destruct (H12 n Hn) as [E1 P2]. destruct (H23 n P2) as [E2 P3].
  split; [congruence|exact P3].
Qed.

(* ---------------------------------------------------------------- rows *)
Lemma find_row_bounds l n : forall k i, find_row l n k = Some i -> (k <= i < k + length l)%nat.
Proof.
  induction l as [|r l IH]; intros k i H; cbn in H; [discriminate|].
  destruct (bytes_eqb (r_name r) n).
  - inversion H; subst. cbn. lia.
  - apply IH in H. cbn. lia.
Qed.

Lemma find_row_name l n : forall k i, find_row l n k = Some i -> r_name (nth (i - k) l (empty_row [])) = n.
Proof.
  induction l as [|r l IH]; intros k i H; cbn in H; [discriminate|].
  destruct (bytes_eqb (r_name r) n) eqn:E.
  - inversion H; subst. replace (i - i)%nat with O by lia. cbn. now apply bytes_eqb_eq.
  - pose proof (find_row_bounds _ _ _ _ H) as B. specialize (IH _ _ H).
    replace (i - k)%nat with (S (i - S k)) by lia. exact IH.
Qed.

(* replacing a row by one with the same name does not move anybody *)
Lemma find_row_set_nth l n j r' : forall k,
  r_name r' = r_name (nth j l (empty_row [])) -> (j < length l)%nat ->
  find_row (set_nth l j r') n k = find_row l n k.
Proof.
  revert j; induction l as [|r l IH]; intros j k Hn Hj; cbn in *; [lia|].
  destruct j as [|j]; cbn.
  - rewrite Hn. reflexivity.
  - destruct (bytes_eqb (r_name r) n); [reflexivity|]. apply IH; [exact Hn|lia].
Qed.

Lemma set_nth_beyond {A} (l : list A) j x : (length l <= j)%nat -> set_nth l j x = l.
Proof.
  revert j; induction l as [|y l IH]; intros j H; cbn in *; [reflexivity|].
  destruct j; [lia|]. f_equal. apply IH. lia.
Qed.

Lemma nth_set_nth_other (l : list row) j k x : j <> k -> nth k (set_nth l j x) (empty_row []) = nth k l (empty_row []).
Proof.
  revert j k; induction l as [|y l IH]; intros [|j] [|k] H; cbn; try reflexivity; try lia.
  apply IH. lia.
Qed.

Lemma find_row_app_some l l' n : forall k i, find_row l n k = Some i -> find_row (l ++ l') n k = Some i.
Proof.
  induction l as [|r l IH]; intros k i H; cbn in *; [discriminate|].
  destruct (bytes_eqb (r_name r) n); [exact H|auto].
Qed.

Lemma find_row_app_none l l' n : forall k, find_row l n k = None ->
  find_row (l ++ l') n k = find_row l' n (k + length l).
Proof.
  induction l as [|r l IH]; intros k H; cbn in *; [f_equal; lia|].
  destruct (bytes_eqb (r_name r) n); [discriminate|]. rewrite IH by assumption. f_equal. lia.
Qed.

Lemma nth_app_last {A} (l : list A) x d : nth (length l) (l ++ [x]) d = x.
Proof. induction l as [|y l IH]; cbn; auto. Qed.

(* ---------------------------------------------------------------- protected is insensitive to ... *)
(* protection only looks at the file itself and at its own row *)
Lemma protected_ext w w' n :
  fs_get (fs w') n = fs_get (fs w) n ->
  (forall i, find_row (rows (dbs w')) n 1 = Some i ->
     (find_row (rows (dbs w)) n 1 = Some i /\ get_row (dbs w') i = get_row (dbs w) i)
     \/ row_protects w' n (get_row (dbs w') i) = true) ->
  protected w n -> protected w' n.
Proof.
  intros Hfs Hrow (Hex & Hres & Hp). unfold protected.
  assert (Hex' : exists_b w' n = true) by (unfold exists_b in *; now rewrite Hfs).
  assert (Hst : read_stamp w' n = read_stamp w n) by (unfold read_stamp; now rewrite Hfs).
  repeat split; auto. intros i Hi. destruct (Hrow i Hi) as [[Hf Hg]|Hs]; [|exact Hs].
  specialize (Hp i Hf). unfold row_protects in *. now rewrite Hg, Hst.
Qed.

(* a change of the Deps table or of the run counter only *)
Lemma protected_rows_same w w' n :
  fs w' = fs w -> rows (dbs w') = rows (dbs w) -> protected w n -> protected w' n.
Proof.
  intros Hfs Hrows. apply protected_ext; [now rewrite Hfs|].
  intros i Hi. left. rewrite Hrows in Hi. split; [exact Hi|]. unfold get_row. now rewrite Hrows.
Qed.

Lemma PRES_rows_same w w' : fs w' = fs w -> rows (dbs w') = rows (dbs w) -> PRES w w'.
Proof. intros Hfs Hr n Hn. split; [now rewrite Hfs|]. eapply protected_rows_same; eauto. Qed.

(* writing a row that keeps what protection depends on, or that is "safe"
   (not generated, or overridden), never removes a protection *)
Definition same_name (d : db) (i : fid) (r' : row) : Prop := r_name r' = r_name (get_row d i).
Definition keeps (r r' : row) : Prop :=
  r_gen r' = r_gen r /\ r_ovr r' = r_ovr r /\ r_stamp r' = r_stamp r.
Definition safe (r' : row) : Prop := r_gen r' = false \/ r_ovr r' = true.

Lemma rows_put_row d i r' : rows (put_row d i r') = set_nth (rows d) (i - 1) r'.
Proof. reflexivity. Qed.

Lemma protected_put_row w i r' n :
  same_name (dbs w) i r' ->
  (keeps (get_row (dbs w) i) r' \/ safe r' \/ r_name (get_row (dbs w) i) <> n) ->
  protected w n -> protected (set_db w (put_row (dbs w) i r')) n.
Proof.
  intros Hname Hkind Hp.
  destruct (Nat.lt_ge_cases (i - 1) (length (rows (dbs w)))) as [Hin|Hout].
  2:{ (* index out of range: nothing is written *)
      eapply protected_rows_same; [| |exact Hp]; [reflexivity|].
      cbn [dbs set_db]. rewrite rows_put_row. now apply set_nth_beyond. }
  apply (protected_ext w); [reflexivity| |exact Hp].
  intros j Hj. cbn [dbs set_db] in *. rewrite rows_put_row in Hj.
  rewrite find_row_set_nth in Hj by (auto; exact Hname).
  destruct (Nat.eq_dec (j - 1) (i - 1)) as [E|E].
  - (* the written row is n's row *)
    assert (Hnm : r_name (get_row (dbs w) i) = n).
    { unfold get_row. rewrite <- E. apply (find_row_name _ _ 1). exact Hj. }
    right. unfold get_row. rewrite rows_put_row, E.
    assert (G : nth (i - 1) (set_nth (rows (dbs w)) (i - 1) r') (empty_row []) = r')
      by (apply nth_set_nth; exact Hin).
    rewrite G. destruct Hp as (_ & _ & Hp). specialize (Hp j Hj).
    destruct Hkind as [(Hg & Ho & Hs)|[Hsafe|Hne]].
    + unfold row_protects in *. unfold get_row in Hp. rewrite E in Hp.
      change (nth (i - 1) (rows (dbs w)) (empty_row [])) with (get_row (dbs w) i) in Hp.
      rewrite Hg, Ho, Hs. exact Hp.
    + unfold row_protects. destruct Hsafe as [-> | ->]; cbn; [reflexivity|now rewrite orb_true_r].
    + contradiction.
  - left. split; [exact Hj|]. unfold get_row. rewrite rows_put_row. apply nth_set_nth_other. lia.
Qed.

(* from_name: either nothing changes or an empty row (not generated) is appended *)
Lemma protected_from_name w m n :
  protected w n -> protected (set_db w (fst (from_name (dbs w) m))) n.
Proof.
  intro Hp. unfold from_name. destruct (find_row (rows (dbs w)) m 1) eqn:E; cbn [fst].
  - eapply protected_rows_same; [| |exact Hp]; reflexivity.
  - apply (protected_ext w); [reflexivity| |exact Hp].
    intros j Hj. cbn [dbs set_db rows] in *.
    destruct (find_row (rows (dbs w)) n 1) as [i|] eqn:En.
    + rewrite (find_row_app_some _ _ _ _ _ En) in Hj. inversion Hj; subst j. left. split; [reflexivity|].
      unfold get_row. cbn [rows]. pose proof (find_row_bounds _ _ _ _ En).
      rewrite app_nth1 by lia. reflexivity.
    + (* n has no row yet: the new row, if it is n's, is an empty one *)
      rewrite find_row_app_none in Hj by assumption. cbn in Hj.
      destruct (bytes_eqb m n); [|discriminate]. inversion Hj; subst j. right.
      unfold get_row. cbn [rows]. replace (S (length (rows (dbs w))) - 1)%nat with (length (rows (dbs w))) by lia.
      rewrite nth_app_last. reflexivity.
Qed.

Lemma from_name_rows_prefix d m :
  exists l, rows (fst (from_name d m)) = rows d ++ l.
Proof.
  unfold from_name. destruct (find_row (rows d) m 1); cbn; [exists []; now rewrite app_nil_r|eauto].
Qed.

(* ================================================================ names *)
(* Rows are only ever appended, and a row never changes its name: the list of
   row names of a later world extends that of an earlier one. *)
Definition names (d : db) : list name := map r_name (rows d).
Definition NAMES (w w' : world) : Prop := exists l, names (dbs w') = names (dbs w) ++ l.

Lemma NAMES_refl w : NAMES w w.
Proof. exists []. now rewrite app_nil_r. Qed.
Lemma NAMES_trans w1 w2 w3 : NAMES w1 w2 -> NAMES w2 w3 -> NAMES w1 w3.
Proof. intros [l1 H1] [l2 H2]. exists (l1 ++ l2). now rewrite H2, H1, app_assoc. Qed.

Lemma find_row_by_names : forall l l' n k, map r_name l = map r_name l' -> find_row l n k = find_row l' n k.
Proof.
  induction l as [|r l IH]; intros [|r' l'] n k H; cbn in *; try discriminate; [reflexivity|].
  inversion H as [[Hn Hl]]. rewrite Hn. destruct (bytes_eqb (r_name r') n); [reflexivity|]. now apply IH.
Qed.

Lemma find_row_names_prefix : forall l l' x n k i,
  map r_name l' = map r_name l ++ x -> find_row l n k = Some i -> find_row l' n k = Some i.
Proof.
  induction l as [|r l IH]; intros l' x n k i H Hf; cbn in *; [discriminate|].
  destruct l' as [|r' l']; [discriminate|]. cbn in *. inversion H as [[Hn Hl]]. rewrite Hn.
  destruct (bytes_eqb (r_name r) n); [exact Hf|]. eapply IH; eauto.
Qed.

Lemma name_get_row d i : r_name (get_row d i) = nth (i - 1) (names d) [].
Proof. unfold get_row, names. change (@nil N) with (r_name (empty_row [])). now rewrite map_nth. Qed.

Lemma names_length d : length (names d) = length (rows d).
Proof. unfold names. apply map_length. Qed.

Lemma NAMES_get_row w w' i :
  NAMES w w' -> (i - 1 < length (rows (dbs w)))%nat -> r_name (get_row (dbs w') i) = r_name (get_row (dbs w) i).
Proof.
  intros [l H] Hi. rewrite !name_get_row, H. apply app_nth1. now rewrite names_length.
Qed.

Lemma NAMES_length w w' : NAMES w w' -> (length (rows (dbs w)) <= length (rows (dbs w')))%nat.
Proof. intros [l H]. rewrite <- !names_length, H, app_length. lia. Qed.

Lemma NAMES_find w w' n i :
  NAMES w w' -> find_row (rows (dbs w)) n 1 = Some i -> find_row (rows (dbs w')) n 1 = Some i.
Proof. intros [l H] Hf. eapply find_row_names_prefix; eauto. Qed.

Lemma names_set_nth (l : list row) j r' :
  r_name r' = r_name (nth j l (empty_row [])) -> map r_name (set_nth l j r') = map r_name l.
Proof.
  revert j; induction l as [|r l IH]; intros j H; cbn in *; [reflexivity|].
  destruct j; cbn in *; [now rewrite H|]. f_equal. now apply IH.
Qed.

Lemma names_put_row d f r' : r_name r' = r_name (get_row d f) -> names (put_row d f r') = names d.
Proof. intro H. unfold names. rewrite rows_put_row. now apply names_set_nth. Qed.

(* ================================================================ one name at a time *)
Definition PRES1 (n : name) (w w' : world) : Prop :=
  protected w n -> fs_get (fs w') n = fs_get (fs w) n /\ protected w' n.

Lemma PRES_all w w' : PRES w w' <-> forall n, PRES1 n w w'.
Proof. unfold PRES, PRES1. tauto. Qed.

Lemma PRES1_trans n w1 w2 w3 : PRES1 n w1 w2 -> PRES1 n w2 w3 -> PRES1 n w1 w3.
Proof.
  intros H12 H23 Hn. destruct (H12 Hn) as [E1 P2]. destruct (H23 P2) as [E2 P3]. split; [congruence|exact P3].
Qed.

Definition STEP (w w' : world) : Prop := NAMES w w' /\ PRES w w'.
Lemma STEP_refl w : STEP w w.
Proof. split; [apply NAMES_refl|apply PRES_refl]. Qed.
Lemma STEP_trans w1 w2 w3 : STEP w1 w2 -> STEP w2 w3 -> STEP w1 w3.
Proof. intros [N1 P1] [N2 P2]. split; [eapply NAMES_trans|eapply PRES_trans]; eauto. Qed.

(* a world that differs only outside the file system and the rows *)
Lemma STEP_rows_same w w' : fs w' = fs w -> rows (dbs w') = rows (dbs w) -> STEP w w'.
Proof.
  intros Hfs Hr. split; [|now apply PRES_rows_same].
  exists []. unfold names. now rewrite Hr, app_nil_r.
Qed.

(* ---------------------------------------------------------------- writing one row *)
(* The written row has the name of the row it replaces; if that name is a
   protected one, the new row must not claim the file. *)
Lemma PRES1_put_row_slot n w f r' :
  r_name r' = r_name (get_row (dbs w) f) ->
  (protected w n -> forall j, find_row (rows (dbs w)) n 1 = Some j -> (j - 1 = f - 1)%nat ->
     row_protects w n r' = true) ->
  PRES1 n w (set_db w (put_row (dbs w) f r')).
Proof.
  intros Hname Hok Hp. split; [reflexivity|].
  destruct (Nat.lt_ge_cases (f - 1) (length (rows (dbs w)))) as [Hin|Hout].
  2:{ eapply protected_rows_same; [| |exact Hp]; [reflexivity|].
      cbn [dbs set_db]. rewrite rows_put_row. now apply set_nth_beyond. }
  apply (protected_ext w); [reflexivity| |exact Hp].
  intros j Hj. cbn [dbs set_db] in *. rewrite rows_put_row in Hj.
  rewrite find_row_set_nth in Hj by (auto; exact Hname).
  destruct (Nat.eq_dec (j - 1) (f - 1)) as [E|E].
  - right. unfold get_row. rewrite rows_put_row, E.
    assert (G : nth (f - 1) (set_nth (rows (dbs w)) (f - 1) r') (empty_row []) = r') by (apply nth_set_nth; exact Hin).
    rewrite G. exact (Hok Hp j Hj E).
  - left. split; [exact Hj|]. unfold get_row. rewrite rows_put_row. apply nth_set_nth_other. lia.
Qed.

Lemma PRES1_put_row n w f r' :
  r_name r' = r_name (get_row (dbs w) f) ->
  (protected w n -> r_name r' = n -> row_protects w n r' = true) ->
  PRES1 n w (set_db w (put_row (dbs w) f r')).
Proof.
  intros Hname Hok. apply PRES1_put_row_slot; [exact Hname|].
  intros Hp j Hj E. apply Hok; [exact Hp|].
  rewrite Hname. unfold get_row. rewrite <- E. apply (find_row_name _ _ 1). exact Hj.
Qed.

Lemma STEP_put_row w f r' :
  r_name r' = r_name (get_row (dbs w) f) ->
  (forall n, protected w n -> r_name r' = n -> row_protects w n r' = true) ->
  STEP w (set_db w (put_row (dbs w) f r')).
Proof.
  intros Hname Hok. split.
  - exists []. cbn [dbs set_db]. rewrite names_put_row by exact Hname. now rewrite app_nil_r.
  - intros n. apply PRES1_put_row; auto.
Qed.

Lemma row_protects_safe w n r : safe r -> row_protects w n r = true.
Proof. unfold row_protects. intros [-> | ->]; cbn; [reflexivity|now rewrite orb_true_r]. Qed.

(* ---------------------------------------------------------------- appending empty rows *)
Definition EXT (d d' : db) : Prop :=
  exists l, rows d' = rows d ++ l /\ Forall (fun r => r_gen r = false) l.

Lemma EXT_refl d : EXT d d.
Proof. exists []. split; [now rewrite app_nil_r|constructor]. Qed.
Lemma EXT_trans d1 d2 d3 : EXT d1 d2 -> EXT d2 d3 -> EXT d1 d3.
Proof.
  intros (l1 & H1 & F1) (l2 & H2 & F2). exists (l1 ++ l2). split; [now rewrite H2, H1, app_assoc|].
  apply Forall_app. auto.
Qed.
Lemma EXT_rows_same d d' : rows d' = rows d -> EXT d d'.
Proof. intro H. exists []. split; [now rewrite H, app_nil_r|constructor]. Qed.
Lemma EXT_from_name d m : EXT d (fst (from_name d m)).
Proof.
  unfold from_name. destruct (find_row (rows d) m 1); cbn [fst]; [apply EXT_refl|].
  exists [empty_row m]. split; [reflexivity|]. repeat constructor.
Qed.

Lemma STEP_ext w d' : EXT (dbs w) d' -> STEP w (set_db w d').
Proof.
  intros (l & Hr & Hl). split.
  - exists (map r_name l). cbn [dbs set_db]. unfold names. now rewrite Hr, map_app.
  - intros n Hp. split; [reflexivity|].
    apply (protected_ext w); [reflexivity| |exact Hp].
    intros j Hj. cbn [dbs set_db] in *. rewrite Hr in Hj.
    destruct (find_row (rows (dbs w)) n 1) as [i|] eqn:En.
    + rewrite (find_row_app_some _ _ _ _ _ En) in Hj. inversion Hj; subst j. left. split; [reflexivity|].
      unfold get_row. rewrite Hr. pose proof (find_row_bounds _ _ _ _ En). rewrite app_nth1 by lia. reflexivity.
    + right. rewrite find_row_app_none in Hj by assumption.
      pose proof (find_row_bounds _ _ _ _ Hj) as B.
      unfold get_row. rewrite Hr. rewrite app_nth2 by lia.
      apply row_protects_safe. left.
      rewrite Forall_forall in Hl. apply Hl. apply nth_In. lia.
Qed.

(* ---------------------------------------------------------------- file system steps *)
Lemma NAMES_rows_same w w' : rows (dbs w') = rows (dbs w) -> NAMES w w'.
Proof. intro H. exists []. unfold names. now rewrite H, app_nil_r. Qed.

Lemma PRES1_fs n w w' :
  (reserved n = false -> fs_get (fs w') n = fs_get (fs w) n) -> rows (dbs w') = rows (dbs w) -> PRES1 n w w'.
Proof.
  intros Hfs0 Hr Hp. assert (Hfs : fs_get (fs w') n = fs_get (fs w) n) by (apply Hfs0; apply Hp).
  split; [exact Hfs|].
  apply (protected_ext w); [exact Hfs| |exact Hp].
  intros i Hi. left. rewrite Hr in Hi. split; [exact Hi|]. unfold get_row. now rewrite Hr.
Qed.

Lemma reserved_tmp_of t : reserved (tmp_of t) = true.
Proof.
  unfold reserved, tmp_of. rewrite rev_app_distr. generalize (rev b_tmp) as p, (rev t) as q.
  assert (G : forall p q, is_prefix p (p ++ q) = true).
  { induction p as [|x p IH]; intros q; cbn; [reflexivity|]. rewrite N.eqb_refl. apply IH. }
  intros p q. now rewrite G.
Qed.

Lemma protected_not_always w n : protected w n -> n <> always_name.
Proof. intros (_ & Hr & _) ->. unfold reserved in Hr. rewrite bytes_eqb_refl, orb_true_r in Hr. discriminate. Qed.

Lemma protected_not_tmp w n t : protected w n -> n <> tmp_of t.
Proof. intros (_ & Hr & _) ->. rewrite reserved_tmp_of in Hr. discriminate. Qed.

(* ================================================================ is_dirty *)
(* a dirtiness check touches no file, keeps every row name, and keeps every protection *)
Definition DSTEP (w w' : world) : Prop :=
  fs w' = fs w /\ names (dbs w') = names (dbs w) /\ forall n, protected w n -> protected w' n.

Lemma DSTEP_refl w : DSTEP w w.
Proof. split; [reflexivity|split; [reflexivity|auto]]. Qed.
Lemma DSTEP_trans w1 w2 w3 : DSTEP w1 w2 -> DSTEP w2 w3 -> DSTEP w1 w3.
Proof. intros (F1 & N1 & P1) (F2 & N2 & P2). split; [congruence|split; [congruence|auto]]. Qed.
Lemma DSTEP_STEP w w' : DSTEP w w' -> STEP w w'.
Proof.
  intros (F & N & P). split; [exists []; now rewrite N, app_nil_r|].
  intros n Hn. split; [now rewrite F|auto].
Qed.

Lemma view_row_name runid r : r_name (view_row runid r) = r_name r.
Proof. unfold view_row. destruct (bytes_eqb _ _); reflexivity. Qed.
Lemma view_row_gen runid r : r_gen (view_row runid r) = r_gen r.
Proof. unfold view_row. destruct (bytes_eqb _ _); reflexivity. Qed.
Lemma view_row_ovr runid r : r_ovr (view_row runid r) = r_ovr r.
Proof. unfold view_row. destruct (bytes_eqb _ _); reflexivity. Qed.
Lemma view_row_stamp runid r : r_stamp (view_row runid r) = r_stamp r.
Proof. unfold view_row. destruct (bytes_eqb _ _); reflexivity. Qed.

Lemma row_protects_keeps w w' n r r' :
  read_stamp w' n = read_stamp w n -> keeps r r' -> row_protects w n r = true -> row_protects w' n r' = true.
Proof. intros Hs (Hg & Ho & Hst) H. unfold row_protects in *. now rewrite Hg, Ho, Hst, Hs. Qed.

Lemma keeps_view runid r : keeps r (view_row runid r).
Proof. repeat split; [apply view_row_gen|apply view_row_ovr|apply view_row_stamp]. Qed.

Lemma read_stamp_fs w w' n : fs w' = fs w -> read_stamp w' n = read_stamp w n.
Proof. intro H. unfold read_stamp. now rewrite H. Qed.

Lemma DSTEP_put_row w f r' :
  r_name r' = r_name (get_row (dbs w) f) ->
  (forall n, protected w n -> r_name r' = n -> row_protects w n r' = true) ->
  DSTEP w (set_db w (put_row (dbs w) f r')).
Proof.
  intros Hname Hok. split; [reflexivity|split].
  - cbn [dbs set_db]. now apply names_put_row.
  - intros n Hn. now apply (PRES1_put_row n w f r' Hname (Hok n)).
Qed.

(* the row protecting n, if n is protected and row f bears its name *)
Lemma protected_named_row w n f :
  protected w n -> (f - 1 < length (rows (dbs w)))%nat -> r_name (get_row (dbs w) f) = n ->
  exists i, find_row (rows (dbs w)) n 1 = Some i.
Proof.
  intros _ Hin Hnm. destruct (find_row (rows (dbs w)) n 1) eqn:E; [eauto|exfalso].
  (* some row is named n, so the search cannot fail *)
  assert (G : forall l k, find_row l n k = None -> forall j, (j < length l)%nat -> r_name (nth j l (empty_row [])) <> n).
  { induction l as [|r l IH]; intros k Hk j Hj; cbn in *; [lia|].
    destruct (bytes_eqb (r_name r) n) eqn:B; [discriminate|].
    destruct j; [intro X; rewrite X, bytes_eqb_refl in B; discriminate|]. apply (IH (S k)); [exact Hk|lia]. }
  exact (G _ _ E _ Hin Hnm).
Qed.

Lemma exists_read_stamp w n : exists_b w n = true -> stamp_eqb (read_stamp w n) SMissing = false.
Proof. unfold exists_b, read_stamp. destruct (fs_get (fs w) n); [reflexivity|discriminate]. Qed.

(* The row judged by a check is a copy taken at an earlier moment [wl] of the
   same check (SNAPSHOTS in Model.v); it is written back with checked_runid set
   whatever has happened to the database row meanwhile. *)
Lemma DSTEP_writeback runid wl wk f :
  DSTEP wl wk -> DSTEP wl (set_db wk (put_row (dbs wk) f (set_checked runid (load runid (dbs wl) f)))).
Proof.
  intros (Fk & Nk & Pk). set (r := load runid (dbs wl) f).
  assert (Hname : r_name (set_checked runid r) = r_name (get_row (dbs wk) f)).
  { cbn [set_checked upd_row r_name]. unfold r, load. rewrite view_row_name, !name_get_row. now rewrite Nk. }
  split; [exact Fk|split].
  - cbn [dbs set_db]. rewrite names_put_row by exact Hname. exact Nk.
  - intros n Hn0. pose proof (Pk n Hn0) as Hnk.
    apply (PRES1_put_row_slot n wk f (set_checked runid r) Hname); [|exact Hnk].
    intros _ j Hj E.
    assert (Hj0 : find_row (rows (dbs wl)) n 1 = Some j).
    { rewrite <- Hj. apply find_row_by_names. symmetry. exact Nk. }
    destruct Hn0 as (_ & _ & Hrow). specialize (Hrow j Hj0).
    eapply row_protects_keeps; [apply read_stamp_fs; exact Fk| |exact Hrow].
    unfold r, load, get_row. rewrite E.
    destruct (keeps_view runid (nth (f - 1) (rows (dbs wl)) (empty_row []))) as (G1 & G2 & G3).
    repeat split; cbn [set_checked upd_row r_gen r_ovr r_stamp]; assumption.
Qed.

Lemma is_dirty_DSTEP : forall fuel runid cyc wl w c f mx seen v w' c' evs,
  DSTEP wl w ->
  is_dirty fuel runid cyc w c f (load runid (dbs wl) f) mx seen = Ret (v, w', c', evs) -> DSTEP wl w'.
Proof.
  induction fuel as [|fuel IH]; intros runid cyc wl w c f mx seen v w' c' evs Hl H; [discriminate|].
  cbn [is_dirty] in H.
  destruct (existsb (Nat.eqb f) seen); [inversion H; subst; exact Hl|].
  set (r := load runid (dbs wl) f) in *.
  destruct (r_failed r); [inversion H; subst; exact Hl|].
  destruct (r_changed r) as [chg|]; [|inversion H; subst; exact Hl].
  destruct (Z.ltb mx chg); [inversion H; subst; exact Hl|].
  destruct (chk_is_checked c runid r f); [inversion H; subst; exact Hl|].
  destruct (r_stamp r) as [old|]; [|inversion H; subst; exact Hl].
  destruct (negb (stamp_eqb old (read_stamp w (r_name r)))).
  { inversion H; subst. unfold forget_missing.
    destruct (read_stamp w (r_name r)) eqn:Ers; [|exact Hl].
    destruct (r_gen r); [|exact Hl].
    eapply DSTEP_trans; [exact Hl|]. apply DSTEP_put_row.
    - cbn [upd_row r_name]. unfold r, load. rewrite view_row_name, !name_get_row. destruct Hl as (_ & Nn & _). now rewrite Nn.
    - intros n _ _. apply row_protects_safe. left. reflexivity. }
  (* the walk: sub-checks judge copies taken now (at w); the write-back uses the copy taken at wl *)
  eapply (walk_deps_inv2 (fun wk => DSTEP wl wk /\ DSTEP w wk) (fun wk => DSTEP wl wk)
                         (fun d rs => rs = load runid (dbs w) (d_source d)));
    [| | | |split; [exact Hl|apply DSTEP_refl]|exact H].
  - intros w1 c1 d rs v1 w1' c1' e1 -> [Hl1 Hw1] E. cbv beta in E.
    destruct (existsb (Nat.eqb (d_source d)) cyc); [inversion E; subst; split; assumption|].
    pose proof (IH _ _ _ _ _ _ _ _ _ _ _ _ Hw1 E) as Hw1'. split; [|exact Hw1'].
    (* from wl: through w *)
    eapply DSTEP_trans; [exact Hl|exact Hw1'].
  - intros w1 [Hl1 _]. exact Hl1.
  - intros w1 [Hl1 _]. apply DSTEP_writeback. exact Hl1.
  - eapply Forall_impl; [|apply deps_rows_loaded]. cbn. intros x [_ Hx]. exact Hx.
Qed.

(* ================================================================ from_name and the script commands *)
Lemma from_name_spec d m d1 i :
  from_name d m = (d1, i) -> find_row (rows d1) m 1 = Some i /\ EXT d d1 /\ deps d1 = deps d /\ maxrun d1 = maxrun d.
Proof.
  unfold from_name. destruct (find_row (rows d) m 1) as [j|] eqn:E; intro H; inversion H; subst.
  - split; [exact E|]. split; [apply EXT_refl|]. split; reflexivity.
  - cbn [rows deps maxrun]. split; [|split; [|split; reflexivity]].
    + rewrite find_row_app_none by exact E. cbn. rewrite bytes_eqb_refl. f_equal; lia.
    + exists [empty_row m]. split; [reflexivity|repeat constructor].
Qed.

Lemma find_row_valid d n i :
  find_row (rows d) n 1 = Some i -> (i - 1 < length (rows d))%nat /\ r_name (get_row d i) = n.
Proof.
  intro H. pose proof (find_row_bounds _ _ _ _ H). split; [lia|]. unfold get_row. apply (find_row_name _ _ 1). exact H.
Qed.

Lemma EXT_add_dep d t m s : EXT d (add_dep d t m s).
Proof. apply EXT_rows_same. reflexivity. Qed.

Lemma EXT_fold_ifcreate t ns : forall d,
  EXT d (fold_left (fun d n => let '(d1, s) := from_name d n in
                               let '(d2, me) := from_name d1 t in add_dep d2 me DCreated s) ns d).
Proof.
  induction ns as [|n ns IH]; intro d; cbn [fold_left]; [apply EXT_refl|].
  destruct (from_name d n) as [d1 s] eqn:E1. destruct (from_name d1 t) as [d2 me] eqn:E2.
  eapply EXT_trans; [|apply IH].
  apply from_name_spec in E1 as (_ & X1 & _). apply from_name_spec in E2 as (_ & X2 & _).
  eapply EXT_trans; [exact X1|]. eapply EXT_trans; [exact X2|apply EXT_add_dep].
Qed.

Lemma EXT_fold_frontend mf ts : forall d,
  EXT d (fold_left (fun d t => let '(d', s) := from_name d t in add_dep d' mf DModified s) ts d).
Proof.
  induction ts as [|t ts IH]; intro d; cbn [fold_left]; [apply EXT_refl|].
  destruct (from_name d t) as [d1 s] eqn:E1.
  eapply EXT_trans; [|apply IH].
  apply from_name_spec in E1 as (_ & X1 & _). eapply EXT_trans; [exact X1|apply EXT_add_dep].
Qed.

Lemma ifcreate_cmd_STEP t ns w : STEP w (fst (ifcreate_cmd t ns w)).
Proof.
  unfold ifcreate_cmd. destruct ns as [|n ns]; [apply STEP_refl|].
  destruct (existsb (exists_b w) (n :: ns)); cbn [fst]; [apply STEP_refl|].
  apply STEP_ext. apply EXT_fold_ifcreate.
Qed.

Lemma frontend_deps_STEP e m ts w : STEP w (fst (frontend_deps e m ts w)).
Proof.
  unfold frontend_deps. destruct m; [apply STEP_refl|].
  destruct (e_target e) as [me|]; [|apply STEP_refl].
  destruct (e_unlocked e || e_no_oob e); [apply STEP_refl|].
  destruct (existsb (bytes_eqb me) ts); [apply STEP_refl|].
  destruct (from_name (dbs w) me) as [d1 mf] eqn:E. cbn [fst].
  apply STEP_ext. apply from_name_spec in E as (_ & X & _).
  eapply EXT_trans; [exact X|apply EXT_fold_frontend].
Qed.

(* redo-always: the only row written is the one named //ALWAYS *)
Lemma always_cmd_STEP runid t w : STEP w (always_cmd runid t w).
Proof.
  unfold always_cmd.
  destruct (from_name (dbs w) t) as [d1 me] eqn:E1. destruct (from_name d1 always_name) as [d2 al] eqn:E2.
  apply from_name_spec in E1 as (_ & X1 & _). apply from_name_spec in E2 as (F2 & X2 & _).
  set (d3 := add_dep d2 me DModified al).
  assert (X3 : EXT (dbs w) d3) by (eapply EXT_trans; [exact X1|]; eapply EXT_trans; [exact X2|apply EXT_add_dep]).
  eapply STEP_trans; [apply (STEP_ext w d3 X3)|].
  match goal with |- STEP _ (set_db w (put_row d3 al ?r0)) => set (r := r0) end.
  change (set_db w (put_row d3 al r)) with (set_db (set_db w d3) (put_row (dbs (set_db w d3)) al r)).
  assert (Hnm : r_name r = always_name).
  { unfold r. cbn [set_changed upd_row r_name]. unfold load. rewrite view_row_name.
    apply (find_row_valid d3 always_name al). exact F2. }
  apply STEP_put_row.
  - rewrite Hnm. symmetry. apply (find_row_valid d3 always_name al). exact F2.
  - intros n Hn Hr. exfalso. apply (protected_not_always _ _ Hn). congruence.
Qed.

(* redo-stamp: only the row of the target being built is written *)
Lemma stamp_cmd_STEP1 n runid t content w :
  t <> n -> NAMES w (stamp_cmd runid t content w) /\ PRES1 n w (stamp_cmd runid t content w).
Proof.
  intro Hne. unfold stamp_cmd. destruct (from_name (dbs w) t) as [d1 me] eqn:E1.
  apply from_name_spec in E1 as (F1 & X1 & _).
  set (r0 := load runid d1 me).
  match goal with |- context [put_row d1 me ?x] => set (r2 := x) end.
  assert (Hnm : r_name r2 = t).
  { assert (H0 : r_name r0 = t) by (unfold r0, load; rewrite view_row_name; apply (find_row_valid d1 t me F1)).
    unfold r2. match goal with |- context [if ?c then _ else _] => destruct c end; cbn; exact H0. }
  destruct (STEP_ext w d1 X1) as [N1 P1].
  change (set_db w (put_row d1 me r2)) with (set_db (set_db w d1) (put_row (dbs (set_db w d1)) me r2)).
  assert (Hname : r_name r2 = r_name (get_row (dbs (set_db w d1)) me)).
  { rewrite Hnm. symmetry. apply (find_row_valid d1 t me F1). }
  split.
  - eapply NAMES_trans; [exact N1|]. exists []. cbn [dbs set_db]. rewrite names_put_row by exact Hname. now rewrite app_nil_r.
  - eapply PRES1_trans; [exact (P1 n)|]. apply PRES1_put_row; [exact Hname|].
    intros _ Hr. exfalso. apply Hne. congruence.
Qed.

(* ================================================================ one name at a time, with names *)
Definition STEP1 (n : name) (w w' : world) : Prop := NAMES w w' /\ PRES1 n w w'.
Lemma STEP1_refl n w : STEP1 n w w.
Proof. split; [apply NAMES_refl|]. intro H. auto. Qed.
Lemma STEP1_trans n w1 w2 w3 : STEP1 n w1 w2 -> STEP1 n w2 w3 -> STEP1 n w1 w3.
Proof. intros [N1 P1] [N2 P2]. split; [eapply NAMES_trans|eapply PRES1_trans]; eauto. Qed.
Lemma STEP_STEP1 n w w' : STEP w w' -> STEP1 n w w'.
Proof. intros [N P]. split; [exact N|exact (P n)]. Qed.
Lemma STEP_of_STEP1 w w' : (forall n, STEP1 n w w') -> STEP w w'.
Proof. intro H. split; [exact (proj1 (H []))|]. intro n. exact (proj2 (H n)). Qed.

Lemma dbs_write_file w a data sc : dbs (write_file w a data sc) = dbs w.
Proof. reflexivity. Qed.
Lemma dbs_remove_file w a : dbs (remove_file w a) = dbs w.
Proof. reflexivity. Qed.
Lemma dbs_rename_file w a b : dbs (rename_file w a b) = dbs w.
Proof. unfold rename_file. destruct (fs_get (fs w) a); reflexivity. Qed.

(* a step that leaves n's file alone and rewrites one row whose name is not n *)
Lemma STEP1_fs_put n w w' f r' :
  (reserved n = false -> fs_get (fs w') n = fs_get (fs w) n) ->
  rows (dbs w') = set_nth (rows (dbs w)) (f - 1) r' ->
  r_name r' = r_name (get_row (dbs w) f) -> r_name r' <> n -> STEP1 n w w'.
Proof.
  intros Hfs Hrows Hname Hne.
  apply (STEP1_trans n w (set_db w (put_row (dbs w) f r'))).
  - split.
    + exists []. cbn [dbs set_db]. rewrite names_put_row by exact Hname. now rewrite app_nil_r.
    + apply PRES1_put_row; [exact Hname|]. intros _ E. contradiction.
  - split; [apply NAMES_rows_same; exact Hrows|]. apply PRES1_fs; [exact Hfs|exact Hrows].
Qed.

(* a step that only touches other files *)
Lemma STEP1_fs n w w' :
  (reserved n = false -> fs_get (fs w') n = fs_get (fs w) n) -> rows (dbs w') = rows (dbs w) -> STEP1 n w w'.
Proof. intros Hfs Hr. split; [now apply NAMES_rows_same|now apply PRES1_fs]. Qed.

Lemma update_stamp_name runid w r : r_name (update_stamp runid w r) = r_name r.
Proof. unfold update_stamp. destruct (ostamp_eqb _ _); reflexivity. Qed.
Lemma set_failed_name runid w r : r_name (set_failed runid w r) = r_name r.
Proof. unfold set_failed. cbn [upd_row r_name]. apply update_stamp_name. Qed.
Lemma set_static_name runid w r : r_name (set_static runid w r) = r_name r.
Proof. unfold set_static. cbn [upd_row r_name]. apply update_stamp_name. Qed.
Lemma set_override_name runid w r : r_name (set_override runid w r) = r_name r.
Proof. unfold set_override. cbn [upd_row r_name]. apply update_stamp_name. Qed.
Lemma load_name runid d f : r_name (load runid d f) = r_name (get_row d f).
Proof. unfold load. apply view_row_name. Qed.

(* ================================================================ record_new_state *)
Lemma record_new_state_db runid t f sf before rc stdout has_tmp w :
  r_name (get_row (dbs w) f) = t -> r_name sf = t ->
  exists sf2, r_name sf2 = t /\
    rows (dbs (fst (record_new_state runid t f sf before rc stdout has_tmp w))) = set_nth (rows (dbs w)) (f - 1) sf2.
Proof.
  intros Hrow Hsf. unfold record_new_state.
  match goal with
  | |- context [if Z.eqb ?rv 0 then _ else _] => destruct (Z.eqb rv 0)
  end.
  - destruct stdout as [c|], has_tmp;
      match goal with |- context [if ?b then _ else _] => destruct b end;
      cbn [fst dbs set_db rows put_row zap_deps2];
      rewrite ?dbs_rename_file, ?dbs_write_file, ?dbs_remove_file;
      eexists; (split; [|reflexivity]);
      cbn [set_changed upd_row r_name]; rewrite ?update_stamp_name; cbn [upd_row r_name];
      rewrite load_name, ?dbs_rename_file, ?dbs_write_file, ?dbs_remove_file; exact Hrow.
  - cbn [fst dbs set_db rows put_row zap_deps2]. rewrite dbs_remove_file.
    eexists; split; [|reflexivity]. rewrite set_failed_name. exact Hsf.
Qed.

Lemma not_reserved_not_tmp n t : reserved n = false -> n <> tmp_of t.
Proof. intros H ->. rewrite reserved_tmp_of in H. discriminate. Qed.

Lemma record_new_state_STEP1 n runid t f sf before rc stdout has_tmp w :
  t <> n -> r_name (get_row (dbs w) f) = t -> r_name sf = t ->
  STEP1 n w (fst (record_new_state runid t f sf before rc stdout has_tmp w)).
Proof.
  intros Hne Hrow Hsf.
  destruct (record_new_state_db runid t f sf before rc stdout has_tmp w Hrow Hsf) as (sf2 & Hn2 & Hrows).
  eapply STEP1_fs_put; [|exact Hrows|congruence|congruence].
  intro R. apply record_other_files; [congruence|now apply not_reserved_not_tmp].
Qed.

Lemma emit_output_STEP1 n t m out w :
  t <> n -> STEP1 n w (fst (fst (emit_output t m out w))).
Proof.
  intros Hne. apply STEP1_fs; [intro R; apply emit_output_other; [congruence|now apply not_reserved_not_tmp]|].
  unfold emit_output. destruct out; [|reflexivity]. destruct m; reflexivity.
Qed.

(* ================================================================ find_do_file *)
Lemma find_do_file_EXT w : forall cands d t d2 found, find_do_file w d t cands = (d2, found) -> EXT d d2.
Proof.
  induction cands as [|c cs IH]; intros d t d2 found H; cbn [find_do_file] in H.
  - inversion H; subst. apply EXT_refl.
  - destruct (fs_get (fs w) (cand_key (updepth w) c)) as [fl|].
    + destruct (from_name d (cand_key (updepth w) c)) as [d1 s] eqn:E. inversion H; subst.
      apply from_name_spec in E as (_ & X & _). eapply EXT_trans; [exact X|apply EXT_add_dep].
    + destruct (from_name d (cand_key (updepth w) c)) as [d1 s] eqn:E.
      apply from_name_spec in E as (_ & X & _). eapply EXT_trans; [exact X|].
      eapply EXT_trans; [apply EXT_add_dep|]. eapply IH. exact H.
Qed.

(* ================================================================ the script *)
Definition rec_ok (rec : rec_t) : Prop :=
  forall e m ts w0 w1 evs rc, rec e m ts w0 = Ret (w1, evs, rc) -> STEP w0 w1.

Lemma script_body_STEP1 n rec envc t sc w w' evs rc out :
  rec_ok rec -> t <> n ->
  script_body rec envc t sc w = Ret (w', evs, rc, out) -> STEP1 n w w'.
Proof.
  intros Hrec Hne H. unfold script_body in H.
  match type of H with
  | context [match ?X with Ret _ => _ | EFuel => EFuel end] => set (rd := X) in H
  end.
  assert (Hrd : forall w1 e1 rc1, rd = Ret (w1, e1, rc1) -> STEP w w1).
  { intros w1 e1 rc1 E. unfold rd in E. destruct (s_deps sc); [inversion E; apply STEP_refl|eapply Hrec; exact E]. }
  destruct rd as [[[w1 e1] rc1]|]; [|discriminate].
  specialize (Hrd _ _ _ eq_refl).
  destruct (negb (Z.eqb rc1 0) && negb (s_tol sc)); [inversion H; subst; now apply STEP_STEP1|].
  pose proof (ifcreate_cmd_STEP t (s_ifcreate sc) w1) as Hic.
  destruct (ifcreate_cmd t (s_ifcreate sc) w1) as [w2 rc2]. cbn [fst] in Hic.
  destruct (negb (Z.eqb rc2 0)).
  { inversion H; subst. apply STEP_STEP1. eapply STEP_trans; eauto. }
  set (w3 := if s_always sc then always_cmd (e_runid envc) t w2 else w2) in H.
  assert (H3 : STEP w2 w3) by (unfold w3; destruct (s_always sc); [apply always_cmd_STEP|apply STEP_refl]).
  assert (H03 : STEP1 n w w3) by (apply STEP_STEP1; eapply STEP_trans; [exact Hrd|]; eapply STEP_trans; eauto).
  destruct (if s_cat sc then concat_data w3 (s_deps sc) else Some []) as [body|].
  - inversion H; subst. destruct (s_stamp sc); [|exact H03].
    eapply STEP1_trans; [exact H03|]. apply stamp_cmd_STEP1. exact Hne.
  - inversion H; subst. exact H03.
Qed.

(* ================================================================ start_self, in three pieces *)
(* (4)-(6): the .do was found; [w] already holds the database after find_do_file *)
Definition ss_run (rec : rec_t) (e : env) (t : name) (f : fid) (before : option file) (sf : row)
           (evs0 : list event) (df : dofile) (sc : script) (w : world) : job_result :=
  let runid := e_runid e in
  let w := remove_file w (tmp_of t) in
  let '(d3, dofid) := from_name (dbs w) (cand_key (updepth w) df) in
  let w := set_db w (put_row d3 dofid (set_static runid w (load runid d3 dofid))) in
  let evs1 := evs0 ++ [EvRun t t (firstn (length t - length (ext df)) t) (tmp_of t)] in
  let env_child := {| e_runid := runid; e_target := Some t; e_unlocked := false;
                      e_no_oob := false; e_keep_going := e_keep_going e;
                      e_cycles := f :: e_cycles e |} in
  match script_body rec env_child t sc w with
  | EFuel => EFuel
  | Ret (w, evs2, rc_script, out) =>
      let '(w, has_stdout, has_tmp) := emit_output t (s_out sc) out w in
      let '(w, rv) := record_new_state runid t f sf before rc_script
                        (if has_stdout then out else None) has_tmp w in
      Ret (w, evs1 ++ evs2, rv, false)
  end.

(* (2)-(3): after the override test *)
Definition ss_rest (rec : rec_t) (e : env) (t : name) (f : fid) (before : option file) (sf : row)
           (evs0 : list event) (w : world) : job_result :=
  let runid := e_runid e in
  if exists_b w t && (r_ovr sf || negb (r_gen sf)) then
    let sf' := if r_ovr sf then sf else set_static runid w sf in
    Ret (set_db w (put_row (dbs w) f sf'), evs0, 0%Z, false)
  else
  let d1 := zap_deps1 (dbs w) f in
  let '(d2, found) := find_do_file w d1 f (do_candidates (updepth w) t) in
  match found with
  | None =>
      if exists_b w t then
        Ret (set_db w (put_row d2 f (set_static runid w sf)), evs0, 0%Z, false)
      else
        Ret (set_db w (put_row d2 f (set_failed runid w sf)), evs0 ++ [EvNoRule t], 1%Z, false)
  | Some (df, sc) => ss_run rec e t f before sf evs0 df sc (set_db w d2)
  end.

Definition ovr_now (sf : row) (ns : stamp) : bool :=
  r_gen sf && negb (stamp_eqb ns SMissing)
  && (r_ovr sf || match r_stamp sf with Some s => detect_override s ns | None => true end).

Definition ovr_row (runid : Z) (w : world) (sf : row) (ns : stamp) : row :=
  if r_ovr sf
  then if ostamp_eqb (r_stamp sf) ns then sf
       else upd_row sf (r_gen sf) (r_ovr sf) (r_checked sf) (Some runid) (r_failed sf) (Some ns) (r_csum sf)
  else set_override runid w sf.

Lemma start_self_pieces rec e t f before w :
  start_self rec e t f before w =
  let runid := e_runid e in
  let sf := load runid (dbs w) f in
  let ns := read_stamp w t in
  if ovr_now sf ns
  then ss_rest rec e t f before (ovr_row runid w sf ns) [EvWarnOverride t]
               (set_db w (put_row (dbs w) f (ovr_row runid w sf ns)))
  else ss_rest rec e t f before sf [] w.
Proof.
  unfold start_self, ss_rest, ss_run, ovr_now, ovr_row. cbv zeta.
  match goal with |- context [if ?c then (_, _, _) else (_, _, _)] => destruct c end; reflexivity.
Qed.

Lemma EXT_NAMES_name w d' f :
  EXT (dbs w) d' -> (f - 1 < length (rows (dbs w)))%nat -> r_name (get_row d' f) = r_name (get_row (dbs w) f).
Proof.
  intros X Hin. destruct (STEP_ext w d' X) as [N _]. exact (NAMES_get_row w (set_db w d') f N Hin).
Qed.

(* a row write composed with an extension of the table, for one name *)
Lemma STEP1_ext_put n w d' f r' :
  EXT (dbs w) d' -> (f - 1 < length (rows (dbs w)))%nat ->
  r_name r' = r_name (get_row (dbs w) f) ->
  (protected (set_db w d') n -> r_name r' = n -> row_protects (set_db w d') n r' = true) ->
  STEP1 n w (set_db w (put_row d' f r')).
Proof.
  intros X Hin Hname Hok.
  apply (STEP1_trans n w (set_db w d')); [apply STEP_STEP1; now apply STEP_ext|].
  change (set_db w (put_row d' f r')) with (set_db (set_db w d') (put_row (dbs (set_db w d')) f r')).
  assert (Hname' : r_name r' = r_name (get_row (dbs (set_db w d')) f)).
  { cbn [dbs set_db]. rewrite Hname. symmetry. now apply EXT_NAMES_name. }
  split.
  - exists []. cbn [dbs set_db]. rewrite names_put_row by exact Hname'. now rewrite app_nil_r.
  - apply PRES1_put_row; [exact Hname'|exact Hok].
Qed.

Lemma ss_run_STEP1 n rec e t f before sf evs0 df sc w w' evs rv ab :
  rec_ok rec -> t <> n ->
  (f - 1 < length (rows (dbs w)))%nat -> r_name (get_row (dbs w) f) = t -> r_name sf = t ->
  ss_run rec e t f before sf evs0 df sc w = Ret (w', evs, rv, ab) -> STEP1 n w w'.
Proof.
  intros Hrec Hne Hin Hrow Hsf H. unfold ss_run in H. cbv zeta in H.
  set (w1 := remove_file w (tmp_of t)) in *.
  assert (S1 : STEP1 n w w1).
  { apply STEP1_fs; [|reflexivity]. intro R. unfold w1. apply get_remove_other.
    intro E. symmetry in E. revert E. now apply not_reserved_not_tmp. }
  destruct (from_name (dbs w1) (cand_key (updepth w1) df)) as [d3 dofid] eqn:E3.
  apply from_name_spec in E3 as (F3 & X3 & _).
  set (w2 := set_db w1 (put_row d3 dofid (set_static (e_runid e) w1 (load (e_runid e) d3 dofid)))) in *.
  assert (S2 : STEP w1 w2).
  { eapply STEP_trans; [apply (STEP_ext w1 d3 X3)|].
    unfold w2. change (set_db w1 (put_row d3 dofid ?r)) with (set_db (set_db w1 d3) (put_row (dbs (set_db w1 d3)) dofid r)).
    apply STEP_put_row.
    - rewrite set_static_name, load_name. reflexivity.
    - intros m _ _. apply row_protects_safe. left. reflexivity. }
  assert (S02 : STEP1 n w w2) by (eapply STEP1_trans; [exact S1|now apply STEP_STEP1]).
  destruct (script_body rec _ t sc w2) as [[[[w3 evs2] rc_script] out]|] eqn:Esb; [|discriminate].
  pose proof (script_body_STEP1 n _ _ _ _ _ _ _ _ _ Hrec Hne Esb) as S3.
  pose proof (emit_output_STEP1 n t (s_out sc) out w3 Hne) as S4.
  destruct (emit_output t (s_out sc) out w3) as [[w4 has_stdout] has_tmp]. cbn [fst] in S4.
  assert (S04 : STEP1 n w w4) by (eapply STEP1_trans; [exact S02|]; eapply STEP1_trans; eauto).
  assert (Hrow4 : r_name (get_row (dbs w4) f) = t).
  { rewrite <- Hrow. apply NAMES_get_row; [exact (proj1 S04)|exact Hin]. }
  pose proof (record_new_state_STEP1 n (e_runid e) t f sf before rc_script (if has_stdout then out else None) has_tmp w4 Hne Hrow4 Hsf) as S5.
  destruct (record_new_state (e_runid e) t f sf before rc_script (if has_stdout then out else None) has_tmp w4) as [w5 rv5].
  cbn [fst] in S5. inversion H; subst. eapply STEP1_trans; eauto.
Qed.

Lemma ss_rest_STEP1_other n rec e t f before sf evs0 w w' evs rv ab :
  rec_ok rec -> t <> n ->
  find_row (rows (dbs w)) t 1 = Some f -> r_name sf = t ->
  ss_rest rec e t f before sf evs0 w = Ret (w', evs, rv, ab) -> STEP1 n w w'.
Proof.
  intros Hrec Hne Hf Hsf H. destruct (find_row_valid _ _ _ Hf) as [Hin Hrow].
  unfold ss_rest in H. cbv zeta in H.
  destruct (exists_b w t && (r_ovr sf || negb (r_gen sf))).
  { inversion H; subst w'. apply STEP_STEP1. apply STEP_put_row.
    - destruct (r_ovr sf); [|rewrite set_static_name]; congruence.
    - intros m _ _. apply row_protects_safe. destruct (r_ovr sf) eqn:O; [right; exact O|left; reflexivity]. }
  destruct (find_do_file w (zap_deps1 (dbs w) f) f (do_candidates (updepth w) t)) as [d2 found] eqn:Efd.
  assert (X2 : EXT (dbs w) d2).
  { eapply EXT_trans; [apply (EXT_rows_same (dbs w) (zap_deps1 (dbs w) f)); reflexivity|]. eapply find_do_file_EXT; exact Efd. }
  destruct found as [[df sc]|].
  - (* the script runs *)
    apply (STEP1_trans n w (set_db w d2)); [apply STEP_STEP1; now apply STEP_ext|].
    eapply ss_run_STEP1; [exact Hrec|exact Hne| | |exact Hsf|exact H].
    + cbn [dbs set_db]. destruct X2 as (l & -> & _). rewrite app_length. lia.
    + cbn [dbs set_db]. rewrite <- Hrow. now apply EXT_NAMES_name.
  - destruct (exists_b w t); inversion H; subst w'.
    + apply STEP1_ext_put; [exact X2|exact Hin|rewrite set_static_name; congruence|].
      intros _ Hm. exfalso. apply Hne. rewrite <- Hm, set_static_name. symmetry. exact Hsf.
    + apply STEP1_ext_put; [exact X2|exact Hin|rewrite set_failed_name; congruence|].
      intros _ Hm. exfalso. apply Hne. rewrite <- Hm, set_failed_name. symmetry. exact Hsf.
Qed.

Lemma name_neq_snoc (t : name) : t <> t ++ [0%N].
Proof. intro H. apply (f_equal (@length _)) in H. rewrite app_length in H. cbn in H. lia. Qed.

Lemma ss_rest_STEP1 n rec e t f before sf evs0 w w' evs rv ab :
  rec_ok rec ->
  find_row (rows (dbs w)) t 1 = Some f -> r_name sf = t ->
  (t = n -> protected w n -> exists_b w t && (r_ovr sf || negb (r_gen sf)) = true) ->
  ss_rest rec e t f before sf evs0 w = Ret (w', evs, rv, ab) -> STEP1 n w w'.
Proof.
  intros Hrec Hf Hsf Hown H.
  destruct (list_eq_dec N.eq_dec t n) as [E|Hne]; [|eapply ss_rest_STEP1_other; eauto].
  split; [exact (proj1 (ss_rest_STEP1_other (t ++ [0%N]) _ _ _ _ _ _ _ _ _ _ _ _ Hrec (name_neq_snoc t) Hf Hsf H))|].
  intro Hp. pose proof (Hown E Hp) as Hc.
  unfold ss_rest in H. cbv zeta in H. rewrite Hc in H. inversion H; subst w'.
  apply PRES1_put_row; [|intros _ _; apply row_protects_safe|exact Hp].
  - destruct (find_row_valid _ _ _ Hf) as [_ Hrow]. destruct (r_ovr sf); [|rewrite set_static_name]; congruence.
  - destruct (r_ovr sf) eqn:O; [right; exact O|left; reflexivity].
Qed.

Lemma start_self_STEP rec e t f before w w' evs rv ab :
  rec_ok rec ->
  find_row (rows (dbs w)) t 1 = Some f ->
  start_self rec e t f before w = Ret (w', evs, rv, ab) -> STEP w w'.
Proof.
  intros Hrec Hf H. rewrite start_self_pieces in H. cbv zeta in H.
  destruct (find_row_valid _ _ _ Hf) as [Hin Hrow].
  set (runid := e_runid e) in *. set (sf := load runid (dbs w) f) in *. set (ns := read_stamp w t) in *.
  assert (Hsf : r_name sf = t) by (unfold sf; rewrite load_name; exact Hrow).
  apply STEP_of_STEP1. intro n.
  destruct (ovr_now sf ns) eqn:EO.
  - (* the file is (still, or newly) an override: that is recorded first *)
    set (sfo := ovr_row runid w sf ns) in *.
    assert (Hsfo : r_name sfo = t).
    { unfold sfo, ovr_row. destruct (r_ovr sf); [destruct (ostamp_eqb _ _); exact Hsf|rewrite set_override_name; exact Hsf]. }
    assert (Ho : r_ovr sfo = true).
    { unfold sfo, ovr_row. destruct (r_ovr sf) eqn:O; [destruct (ostamp_eqb _ _); cbn; congruence|reflexivity]. }
    set (wA := set_db w (put_row (dbs w) f sfo)) in *.
    assert (SA : STEP w wA).
    { apply STEP_put_row; [congruence|]. intros m _ _. apply row_protects_safe. right. exact Ho. }
    apply (STEP1_trans n w wA); [now apply STEP_STEP1|].
    eapply ss_rest_STEP1; [exact Hrec| |exact Hsfo| |exact H].
    + eapply NAMES_find; [exact (proj1 SA)|exact Hf].
    + intros E Hp. rewrite Ho. cbn [orb]. rewrite andb_true_r. subst n. exact (proj1 Hp).
  - eapply ss_rest_STEP1; [exact Hrec|exact Hf|exact Hsf| |exact H].
    intros E Hp. subst n. destruct Hp as (Hex & _ & Hrp). rewrite Hex. cbn [andb].
    specialize (Hrp f Hf). unfold row_protects in Hrp.
    unfold ovr_now in EO. fold ns in Hrp.
    assert (Hns : stamp_eqb ns SMissing = false) by (apply exists_read_stamp; exact Hex).
    rewrite Hns in EO. cbn [negb] in EO. rewrite andb_true_r in EO.
    unfold sf, load in *. rewrite view_row_gen, view_row_ovr, view_row_stamp in *.
    destruct (r_gen (get_row (dbs w) f)); [|now rewrite orb_true_r].
    cbn [negb orb andb] in *. rewrite EO in Hrp. discriminate.
Qed.

(* ================================================================ start, run_loop, build *)
Lemma prepend_events_inv evd r w' evs rv ab :
  prepend_events evd r = Ret (w', evs, rv, ab) -> exists evs0, r = Ret (w', evs0, rv, ab).
Proof. unfold prepend_events. destruct r as [[[[w1 e1] r1] a1]|]; [|discriminate]. intro H. inversion H; subst. eauto. Qed.

Lemma start_STEP rec fuel e m t w w' evs rv ab :
  rec_ok rec -> start rec fuel e m t w = Ret (w', evs, rv, ab) -> STEP w w'.
Proof.
  intros Hrec H. unfold start in H. cbv zeta in H.
  destruct (from_name (dbs w) t) as [d0 f] eqn:E0.
  apply from_name_spec in E0 as (F0 & X0 & _).
  apply (STEP_trans w (set_db w d0)); [now apply STEP_ext|].
  set (w0 := set_db w d0) in *.
  assert (Hf0 : find_row (rows (dbs w0)) t 1 = Some f) by exact F0.
  destruct m.
  - eapply start_self_STEP; eauto.
  - destruct (is_failed (e_runid e) (load (e_runid e) (dbs w0) f)); [inversion H; subst; apply STEP_refl|].
    destruct (is_dirty fuel (e_runid e) (e_cycles e) w0 ChkDb f (load (e_runid e) (dbs w0) f) (e_runid e) []) as [[[[v wd] cd] evd]|] eqn:Ed; [|discriminate].
    pose proof (is_dirty_DSTEP _ _ _ _ _ _ _ _ _ _ _ _ _ (DSTEP_refl w0) Ed) as Dd.
    apply (STEP_trans w0 wd); [now apply DSTEP_STEP|].
    assert (Hfd : find_row (rows (dbs wd)) t 1 = Some f).
    { rewrite <- Hf0. apply find_row_by_names. exact (proj1 (proj2 Dd)). }
    match type of H with
    | context [match ?V with VClean => _ | VDirty => _ | VNeed _ => _ | VCycle => _ end] => destruct V as [| |l|]
    end.
    + inversion H; subst. apply STEP_refl.
    + apply prepend_events_inv in H as [evs0 H]. eapply start_self_STEP; eauto.
    + destruct (e_no_oob e).
      * apply prepend_events_inv in H as [evs0 H]. eapply start_self_STEP; eauto.
      * match type of H with
        | context [rec ?E1 MIfChange ?NS wd] => destruct (rec E1 MIfChange NS wd) as [[[w1 ev1] rc1]|] eqn:R1; [|discriminate]
        end.
        pose proof (Hrec _ _ _ _ _ _ _ R1) as S1.
        destruct (negb (Z.eqb rc1 0)); [inversion H; subst; exact S1|].
        match type of H with
        | context [rec ?E2 MIfChange [t] w1] => destruct (rec E2 MIfChange [t] w1) as [[[w2 ev2] rc2]|] eqn:R2; [|discriminate]
        end.
        pose proof (Hrec _ _ _ _ _ _ _ R2) as S2.
        inversion H; subst. eapply STEP_trans; eauto.
    + inversion H; subst. apply STEP_refl.
Qed.

Lemma run_loop_STEP job e :
  (forall t w w' evs rv ab, job t w = Ret (w', evs, rv, ab) -> STEP w w') ->
  forall ts seen w evs errored w' evs' rc,
    run_loop job e ts seen w evs errored = Ret (w', evs', rc) -> STEP w w'.
Proof.
  intros Hjob. induction ts as [|t ts IH]; intros seen w evs errored w' evs' rc H; cbn [run_loop] in H.
  - inversion H; subst. apply STEP_refl.
  - destruct (errored && negb (e_keep_going e)); [inversion H; subst; apply STEP_refl|].
    destruct (from_name (dbs w) t) as [d0 f] eqn:E0.
    apply from_name_spec in E0 as (_ & X0 & _).
    destruct (existsb (Nat.eqb f) seen).
    { eapply STEP_trans; [apply (STEP_ext w d0 X0)|]. eapply IH; exact H. }
    destruct (negb (e_unlocked e) && existsb (Nat.eqb f) (e_cycles e)).
    { inversion H; subst. now apply STEP_ext. }
    destruct (job t w) as [[[[w1 ev1] rv1] ab1]|] eqn:Ej; [|discriminate].
    pose proof (Hjob _ _ _ _ _ _ Ej) as S1.
    destruct ab1; [inversion H; subst; exact S1|].
    eapply STEP_trans; [exact S1|]. eapply IH; exact H.
Qed.

Theorem build_STEP : forall fuel e m ts w w' evs rc,
  build fuel e m ts w = Ret (w', evs, rc) -> STEP w w'.
Proof.
  induction fuel as [|fuel IH]; intros e m ts w w' evs rc H; [discriminate|].
  cbn [build] in H.
  pose proof (frontend_deps_STEP e m ts w) as S0.
  destruct (frontend_deps e m ts w) as [w0 self_dep]. cbn [fst] in S0.
  destruct self_dep; [inversion H; subst; exact S0|].
  eapply STEP_trans; [exact S0|].
  eapply run_loop_STEP; [|exact H].
  intros t w1 w1' evs1 rv1 ab1 Hs. eapply start_STEP; [|exact Hs].
  intros e1 m1 ts1 wa wb evsb rcb Hb. eapply IH; exact Hb.
Qed.

(* ================================================================ commands and histories *)
Lemma new_run_STEP w : STEP w (fst (new_run w)).
Proof. unfold new_run. cbn [fst]. apply STEP_rows_same; reflexivity. Qed.

Theorem exec_STEP c w : STEP w (fst (exec c w)).
Proof.
  unfold exec. pose proof (new_run_STEP w) as S0. destruct (new_run w) as [w0 runid]. cbn [fst] in S0.
  destruct c as [k ts|k ts| | |]; cbn [fst].
  - destruct (build _ _ MRedo ts w0) as [[[w1 evs] rc]|] eqn:Eb; cbn [fst]; [|exact S0].
    eapply STEP_trans; [exact S0|]. eapply build_STEP; exact Eb.
  - destruct (build _ _ MIfChange ts w0) as [[[w1 evs] rc]|] eqn:Eb; cbn [fst]; [|exact S0].
    eapply STEP_trans; [exact S0|]. eapply build_STEP; exact Eb.
  - match goal with |- STEP w (fst (match ?r with _ => _ end)) => destruct r as [[[[? ?] ?] [|]]|] end; exact S0.
  - exact S0.
  - exact S0.
Qed.

(* steps of the user that leave n alone *)
Definition step_spares (n : name) (s : hstep) : Prop :=
  match s with
  | SWrite m _ | SWriteDo m _ | SRemove m => m <> n
  | SHint _ | SCmd _ => True
  end.

Lemma do_step_PRES1 n s w : step_spares n s -> PRES1 n w (fst (do_step s w)).
Proof.
  intro Hs. destruct s as [m data|m sc|m|h|c]; cbn [do_step fst] in *.
  - apply PRES1_fs; [intros _; now apply get_write_other|reflexivity].
  - apply PRES1_fs; [intros _; now apply get_write_other|reflexivity].
  - apply PRES1_fs; [intros _; now apply get_remove_other|reflexivity].
  - apply PRES1_fs; [intros _; reflexivity|reflexivity].
  - pose proof (exec_STEP c w) as [_ P]. destruct (exec c w) as [w' o]. cbn [fst] in *. exact (P n).
Qed.

(* C11 over whole histories: once a file exists and is not redo's own, no
   sequence of redo commands (interleaved with user edits of OTHER files)
   changes or removes it, and it stays protected *)
Theorem history_protects n : forall h w,
  protected w n -> Forall (step_spares n) h ->
  forall w' o, In (w', o) (run_history h w) -> fs_get (fs w') n = fs_get (fs w) n /\ protected w' n.
Proof.
  induction h as [|s h IH]; intros w Hp Hall w' o Hin; cbn [run_history] in Hin; [contradiction|].
  inversion Hall as [|s0 h0 Hs Hh]; subst.
  pose proof (do_step_PRES1 n s w Hs Hp) as [E1 P1].
  destruct (do_step s w) as [w1 o1]. cbn [fst] in *.
  destruct Hin as [Hin|Hin].
  - inversion Hin; subst. auto.
  - destruct (IH w1 P1 Hh w' o Hin) as [E2 P2]. split; [congruence|exact P2].
Qed.

(* when does a user's write make the file protected?  Always, unless a row
   claims the file as generated with exactly the stamp the new file gets
   (excluded by A-STAMP: every write takes a fresh mtime) *)
Lemma user_write_protected w n data sc :
  reserved n = false ->
  (forall i s, find_row (rows (dbs w)) n 1 = Some i -> r_stamp (get_row (dbs w) i) = Some s ->
     s <> SFile (clock w) (N.of_nat (length data))) ->
  protected (write_file w n data sc) n.
Proof.
  intros R Hfresh. unfold protected. split; [|split; [exact R|]].
  - unfold exists_b. now rewrite get_write_same.
  - intros i Hi. cbn [dbs write_file] in *. unfold row_protects.
    destruct (r_stamp (get_row (dbs w) i)) as [s|] eqn:Es; [|now rewrite orb_true_r].
    assert (Hd : detect_override s (read_stamp (write_file w n data sc) n) = true).
    { unfold read_stamp. rewrite get_write_same. cbn [f_mt f_data]. unfold detect_override.
      destruct (stamp_eqb s (SFile (clock w) (N.of_nat (length data)))) eqn:Eq; [|reflexivity].
      exfalso. apply (Hfresh i s Hi Es). destruct s as [|mt sz]; cbn in Eq; [discriminate|].
      apply andb_true_iff in Eq as [A B]. apply N.eqb_eq in A. apply N.eqb_eq in B. congruence. }
    rewrite Hd. now rewrite orb_true_r.
Qed.
