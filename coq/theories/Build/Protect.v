(* C11 over whole builds: a file that exists and is not redo's own is never
   modified by [build], for every project, environment and fuel. *)
From Coq Require Import ZArith Lia.
From Redo Require Import Base.Bytes Base.BytesProofs Build.Model Build.FsLemmas Build.RecordProofs Build.LocalProofs.

(* names ending in ".redo.tmp" are redo's reserved namespace *)
Definition reserved (n : name) : bool := is_prefix (rev b_tmp) (rev n).

(* the database row (if any) does not claim the file as redo's own *)
Definition row_protects (w : world) (n : name) (r : row) : bool :=
  negb (r_gen r) || r_ovr r
  || match r_stamp r with Some s => detect_override s (read_stamp w n) | None => true end.

Definition protected (w : world) (n : name) : Prop :=
  exists_b w n = true /\ reserved n = false /\
  forall i, find_row (rows (dbs w)) n 1 = Some i -> row_protects w n (get_row (dbs w) i) = true.

(* what a step must guarantee *)
Definition PRES (w w' : world) : Prop :=
  forall n, protected w n -> fs_get (fs w') n = fs_get (fs w) n /\ protected w' n.

Lemma PRES_refl w : PRES w w.
Proof. intros n H. auto. Qed.

Lemma PRES_trans w1 w2 w3 : PRES w1 w2 -> PRES w2 w3 -> PRES w1 w3.
Proof.
  intros H12 H23 n Hn. destruct (H12 n Hn) as [E1 P2]. destruct (H23 n P2) as [E2 P3].
  split; [congruence|exact P3].
Qed.

(* ---------------------------------------------------------------- rows *)
Lemma find_row_bounds l n : forall k i, find_row l n k = Some i -> (k <= i < k + length l)%nat.
Proof.
  induction l as [|r l IH]; intros k i H; cbn in H; [discriminate|].
  destruct (bytes_eqb (r_name r) n).
  - inversion H; subst. cbn. lia.
  - apply IH in H. cbn. lia.
Qed.

Lemma find_row_name l n : forall k i, find_row l n k = Some i -> r_name (nth (i - k) l (empty_row [])) = n.
Proof.
  induction l as [|r l IH]; intros k i H; cbn in H; [discriminate|].
  destruct (bytes_eqb (r_name r) n) eqn:E.
  - inversion H; subst. replace (i - i)%nat with O by lia. cbn. now apply bytes_eqb_eq.
  - pose proof (find_row_bounds _ _ _ _ H) as B. specialize (IH _ _ H).
    replace (i - k)%nat with (S (i - S k)) by lia. exact IH.
Qed.

(* replacing a row by one with the same name does not move anybody *)
Lemma find_row_set_nth l n j r' : forall k,
  r_name r' = r_name (nth j l (empty_row [])) -> (j < length l)%nat ->
  find_row (set_nth l j r') n k = find_row l n k.
Proof.
  revert j; induction l as [|r l IH]; intros j k Hn Hj; cbn in *; [lia|].
  destruct j as [|j]; cbn.
  - rewrite Hn. reflexivity.
  - destruct (bytes_eqb (r_name r) n); [reflexivity|]. apply IH; [exact Hn|lia].
Qed.

Lemma set_nth_beyond {A} (l : list A) j x : (length l <= j)%nat -> set_nth l j x = l.
Proof.
  revert j; induction l as [|y l IH]; intros j H; cbn in *; [reflexivity|].
  destruct j; [lia|]. f_equal. apply IH. lia.
Qed.

Lemma nth_set_nth_other (l : list row) j k x : j <> k -> nth k (set_nth l j x) (empty_row []) = nth k l (empty_row []).
Proof.
  revert j k; induction l as [|y l IH]; intros [|j] [|k] H; cbn; try reflexivity; try lia.
  apply IH. lia.
Qed.

Lemma find_row_app_some l l' n : forall k i, find_row l n k = Some i -> find_row (l ++ l') n k = Some i.
Proof.
  induction l as [|r l IH]; intros k i H; cbn in *; [discriminate|].
  destruct (bytes_eqb (r_name r) n); [exact H|auto].
Qed.

Lemma find_row_app_none l l' n : forall k, find_row l n k = None ->
  find_row (l ++ l') n k = find_row l' n (k + length l).
Proof.
  induction l as [|r l IH]; intros k H; cbn in *; [f_equal; lia|].
  destruct (bytes_eqb (r_name r) n); [discriminate|]. rewrite IH by assumption. f_equal. lia.
Qed.

Lemma nth_app_last {A} (l : list A) x d : nth (length l) (l ++ [x]) d = x.
Proof. induction l as [|y l IH]; cbn; auto. Qed.

(* ---------------------------------------------------------------- protected is insensitive to ... *)
(* protection only looks at the file itself and at its own row *)
Lemma protected_ext w w' n :
  fs_get (fs w') n = fs_get (fs w) n ->
  (forall i, find_row (rows (dbs w')) n 1 = Some i ->
     (find_row (rows (dbs w)) n 1 = Some i /\ get_row (dbs w') i = get_row (dbs w) i)
     \/ row_protects w' n (get_row (dbs w') i) = true) ->
  protected w n -> protected w' n.
Proof.
  intros Hfs Hrow (Hex & Hres & Hp). unfold protected.
  assert (Hex' : exists_b w' n = true) by (unfold exists_b in *; now rewrite Hfs).
  assert (Hst : read_stamp w' n = read_stamp w n) by (unfold read_stamp; now rewrite Hfs).
  repeat split; auto. intros i Hi. destruct (Hrow i Hi) as [[Hf Hg]|Hs]; [|exact Hs].
  specialize (Hp i Hf). unfold row_protects in *. now rewrite Hg, Hst.
Qed.

(* a change of the Deps table or of the run counter only *)
Lemma protected_rows_same w w' n :
  fs w' = fs w -> rows (dbs w') = rows (dbs w) -> protected w n -> protected w' n.
Proof.
  intros Hfs Hrows. apply protected_ext; [now rewrite Hfs|].
  intros i Hi. left. rewrite Hrows in Hi. split; [exact Hi|]. unfold get_row. now rewrite Hrows.
Qed.

Lemma PRES_rows_same w w' : fs w' = fs w -> rows (dbs w') = rows (dbs w) -> PRES w w'.
Proof. intros Hfs Hr n Hn. split; [now rewrite Hfs|]. eapply protected_rows_same; eauto. Qed.

(* writing a row that keeps what protection depends on, or that is "safe"
   (not generated, or overridden), never removes a protection *)
Definition same_name (d : db) (i : fid) (r' : row) : Prop := r_name r' = r_name (get_row d i).
Definition keeps (r r' : row) : Prop :=
  r_gen r' = r_gen r /\ r_ovr r' = r_ovr r /\ r_stamp r' = r_stamp r.
Definition safe (r' : row) : Prop := r_gen r' = false \/ r_ovr r' = true.

Lemma rows_put_row d i r' : rows (put_row d i r') = set_nth (rows d) (i - 1) r'.
Proof. reflexivity. Qed.

Lemma protected_put_row w i r' n :
  same_name (dbs w) i r' ->
  (keeps (get_row (dbs w) i) r' \/ safe r' \/ r_name (get_row (dbs w) i) <> n) ->
  protected w n -> protected (set_db w (put_row (dbs w) i r')) n.
Proof.
  intros Hname Hkind Hp.
  destruct (Nat.lt_ge_cases (i - 1) (length (rows (dbs w)))) as [Hin|Hout].
  2:{ (* index out of range: nothing is written *)
      eapply protected_rows_same; [| |exact Hp]; [reflexivity|].
      cbn [dbs set_db]. rewrite rows_put_row. now apply set_nth_beyond. }
  apply (protected_ext w); [reflexivity| |exact Hp].
  intros j Hj. cbn [dbs set_db] in *. rewrite rows_put_row in Hj.
  rewrite find_row_set_nth in Hj by (auto; exact Hname).
  destruct (Nat.eq_dec (j - 1) (i - 1)) as [E|E].
  - (* the written row is n's row *)
    assert (Hnm : r_name (get_row (dbs w) i) = n).
    { unfold get_row. rewrite <- E. apply (find_row_name _ _ 1). exact Hj. }
    right. unfold get_row. rewrite rows_put_row, E.
    assert (G : nth (i - 1) (set_nth (rows (dbs w)) (i - 1) r') (empty_row []) = r')
      by (apply nth_set_nth; exact Hin).
    rewrite G. destruct Hp as (_ & _ & Hp). specialize (Hp j Hj).
    destruct Hkind as [(Hg & Ho & Hs)|[Hsafe|Hne]].
    + unfold row_protects in *. unfold get_row in Hp. rewrite E in Hp.
      change (nth (i - 1) (rows (dbs w)) (empty_row [])) with (get_row (dbs w) i) in Hp.
      rewrite Hg, Ho, Hs. exact Hp.
    + unfold row_protects. destruct Hsafe as [-> | ->]; cbn; [reflexivity|now rewrite orb_true_r].
    + contradiction.
  - left. split; [exact Hj|]. unfold get_row. rewrite rows_put_row. apply nth_set_nth_other. lia.
Qed.

(* from_name: either nothing changes or an empty row (not generated) is appended *)
Lemma protected_from_name w m n :
  protected w n -> protected (set_db w (fst (from_name (dbs w) m))) n.
Proof.
  intro Hp. unfold from_name. destruct (find_row (rows (dbs w)) m 1) eqn:E; cbn [fst].
  - eapply protected_rows_same; [| |exact Hp]; reflexivity.
  - apply (protected_ext w); [reflexivity| |exact Hp].
    intros j Hj. cbn [dbs set_db rows] in *.
    destruct (find_row (rows (dbs w)) n 1) as [i|] eqn:En.
    + rewrite (find_row_app_some _ _ _ _ _ En) in Hj. inversion Hj; subst j. left. split; [reflexivity|].
      unfold get_row. cbn [rows]. pose proof (find_row_bounds _ _ _ _ En).
      rewrite app_nth1 by lia. reflexivity.
    + (* n has no row yet: the new row, if it is n's, is an empty one *)
      rewrite find_row_app_none in Hj by assumption. cbn in Hj.
      destruct (bytes_eqb m n); [|discriminate]. inversion Hj; subst j. right.
      unfold get_row. cbn [rows]. replace (S (length (rows (dbs w))) - 1)%nat with (length (rows (dbs w))) by lia.
      rewrite nth_app_last. reflexivity.
Qed.

Lemma from_name_rows_prefix d m :
  exists l, rows (fst (from_name d m)) = rows d ++ l.
Proof.
  unfold from_name. destruct (find_row (rows d) m 1); cbn; [exists []; now rewrite app_nil_r|eauto].
Qed.
