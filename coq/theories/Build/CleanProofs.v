(* Completeness of the dirtiness walk on a quiet state (C02 "a repeated build
   with no changes runs nothing", C14 "not before", C17 "lists nothing right
   after a successful full build"), for redo-ood's walk, whose world never
   changes; the builder's walk returns the same verdicts whenever it returns
   (OodAgree.ood_agrees_with_builder).

   A set Q of file ids is QUIET in world w when every member has a row that did
   not fail, was built at some run chg, whose recorded stamp matches the file on
   disk, whose redo-ifcreate paths are all absent, and whose redo-ifchange
   dependencies are members of Q that are not newer than it -- and the recorded
   graph restricted to Q is acyclic (a rank decreases along the edges).
   Then the walk answers CLEAN for every member, starts nothing and leaves the
   world alone, for every fuel above the member's rank. *)
From Coq Require Import ZArith List Bool Arith Lia.
Import ListNotations.
From Redo Require Import Base.Bytes Build.Model.

Section Clean.
  Variable runid : Z.
  Variable w : world.
  Variable rk : fid -> nat.
  Variable Q : fid -> Prop.

  Notation mem g l := (existsb (Nat.eqb g) l).
  Definition ld (g : fid) : row := load runid (dbs w) g.
  Definition smax (r : row) (chg : Z) : Z := Z.max chg match r_checked r with Some k => k | None => 0%Z end.

  Definition quiet_row (g : fid) : Prop :=
    let r := ld g in
    r_failed r = None /\ exists chg, r_changed r = Some chg /\
    (exists old, r_stamp r = Some old /\ stamp_eqb old (read_stamp w (r_name r)) = true) /\
    forall d, In d (deps_of (dbs w) r g) ->
      (d_mode d = DCreated -> exists_b w (r_name (ld (d_source d))) = false) /\
      (d_mode d = DModified ->
         Q (d_source d) /\ (rk (d_source d) < rk g)%nat /\
         exists c, r_changed (ld (d_source d)) = Some c /\ (c <= smax r chg)%Z).

  Hypothesis quiet : forall g, Q g -> quiet_row g.

  Definition incl_l (l l' : list fid) : Prop := forall g, mem g l = true -> mem g l' = true.
  Lemma incl_refl l : incl_l l l. Proof. intros g H. exact H. Qed.
  Lemma incl_trans a b c : incl_l a b -> incl_l b c -> incl_l a c. Proof. intros H1 H2 g H. auto. Qed.
  Lemma incl_cons f l : incl_l l (f :: l).
  Proof. intros g H. cbn [existsb]. rewrite H. apply orb_true_r. Qed.

  (* the walk over the dependencies of a quiet row, given that each Modified
     dependency answers clean (induction hypothesis of the main lemma) *)
  Lemma walk_quiet fuel f r chg seen :
    (forall d, In d (deps_of (dbs w) r f) ->
       (d_mode d = DCreated -> exists_b w (r_name (ld (d_source d))) = false) /\
       (d_mode d = DModified ->
          forall l, exists l' evs,
            is_dirty fuel runid nil w (ChkMem l) (d_source d) (ld (d_source d)) (smax r chg) (f :: seen)
            = Ret (VClean, w, ChkMem l', evs) /\ incl_l l l')) ->
    forall ds, (forall d, In d ds -> In d (deps_of (dbs w) r f)) ->
    forall l evs, exists l' evs',
      walk_deps (fun w0 c s rs => is_dirty fuel runid nil w0 c s rs (smax r chg) (f :: seen)) runid f r
                (map (fun x => (x, load runid (dbs w) (d_source x))) ds) w (ChkMem l) [] evs
      = Ret (VClean, w, ChkMem l', evs') /\ incl_l l l' /\ mem f l' = true.
  Proof.
    intros Hd. induction ds as [|d ds IH]; intros Hin l evs; cbn [map walk_deps].
    - exists (f :: l). eexists. split; [reflexivity|]. split; [apply incl_cons|].
      cbn [existsb]. rewrite Nat.eqb_refl. reflexivity.
    - destruct (Hd d (Hin d (or_introl eq_refl))) as [Hc Hm].
      destruct (d_mode d) eqn:Em.
      + fold (ld (d_source d)). rewrite (Hc eq_refl).
        apply IH. intros d' H'. apply Hin. now right.
      + fold (ld (d_source d)).
        destruct (Hm eq_refl l) as (l1 & e1 & Hr & Hi). rewrite Hr.
        destruct (IH (fun d' H' => Hin d' (or_intror H')) l1 (evs ++ e1)) as (l2 & e2 & Hw & Hi2 & Hf).
        exists l2, e2. split; [exact Hw|]. split; [eapply incl_trans; eauto|exact Hf].
  Qed.

  (* main lemma, by induction on the rank *)
  Lemma quiet_clean : forall n g, (rk g < n)%nat -> Q g ->
    forall fuel, (rk g < fuel)%nat ->
    forall mx seen l, (forall a, mem a seen = true -> (rk g < rk a)%nat) ->
      (forall chg, r_changed (ld g) = Some chg -> (chg <= mx)%Z) ->
      exists l' evs,
        is_dirty fuel runid nil w (ChkMem l) g (ld g) mx seen = Ret (VClean, w, ChkMem l', evs) /\ incl_l l l'.
  Proof.
    induction n as [|n IH]; intros g Hn Hq fuel Hfuel mx seen l Hseen Hmx; [lia|].
    destruct fuel as [|fuel']; [lia|].
    destruct (quiet g Hq) as (Hf & chg & Hc & (old & Hs & Hok) & Hd).
    cbn [is_dirty].
    assert (Es : mem g seen = false).
    { destruct (mem g seen) eqn:E; [|reflexivity]. pose proof (Hseen g E). lia. }
    rewrite Es, Hf, Hc.
    assert (El : Z.ltb mx chg = false) by (apply Z.ltb_ge; apply Hmx; exact Hc). rewrite El.
    cbn [chk_is_checked].
    destruct (mem g l) eqn:Eg.
    - exists l. eexists. split; [reflexivity|apply incl_refl].
    - rewrite Hs, Hok. cbn [negb].
      unfold deps_rows.
      change (Z.max chg match r_checked (ld g) with Some k => k | None => 0%Z end) with (smax (ld g) chg).
      destruct (walk_quiet fuel' g (ld g) chg seen) with (ds := deps_of (dbs w) (ld g) g) (l := l) (evs := @nil event)
        as (l' & evs' & Hw & Hi & _).
      + intros d Hin. destruct (Hd d Hin) as [A B]. split; [exact A|].
        intros Hm l0. destruct (B Hm) as (Qd & Hrk & c & Hcd & Hle).
        apply (IH (d_source d)); [lia|exact Qd|lia| |].
        * intros a Ha. cbn [existsb] in Ha. apply orb_true_iff in Ha as [Ha|Ha].
          -- apply Nat.eqb_eq in Ha. subst a. exact Hrk.
          -- pose proof (Hseen a Ha). lia.
        * intros c' Hc'. assert (c' = c) by congruence. subst c'. exact Hle.
      + intros d H. exact H.
      + exists l', evs'. split; [exact Hw|exact Hi].
  Qed.

  (* redo-ood's (and redo-ifchange's) top-level check of a quiet target that
     was not built by a later run: CLEAN, nothing written, nothing started, for
     every fuel above its rank and every set of rows already verified *)
  Theorem quiet_target_clean fuel g l :
    Q g -> (rk g < fuel)%nat ->
    (forall chg, r_changed (ld g) = Some chg -> (chg <= runid)%Z) ->
    exists l' evs, is_dirty fuel runid nil w (ChkMem l) g (ld g) runid [] = Ret (VClean, w, ChkMem l', evs)
                   /\ incl_l l l'.
  Proof.
    intros Hq Hfuel Hle.
    apply (quiet_clean (S (rk g)) g (Nat.lt_succ_diag_r _) Hq fuel Hfuel runid [] l).
    - intros a Ha. discriminate Ha.
    - exact Hle.
  Qed.
End Clean.

(* ---------------------------------------------------------------- decidable form *)
Section CleanB.
  Variable runid : Z.
  Variable w : world.
  Variable rk : fid -> nat.
  Variable S : list fid.

  Notation mem g l := (existsb (Nat.eqb g) l).

  Definition quiet_row_b (g : fid) : bool :=
    let r := ld runid w g in
    match r_failed r, r_changed r, r_stamp r with
    | None, Some chg, Some old =>
        stamp_eqb old (read_stamp w (r_name r))
        && forallb (fun d =>
             match d_mode d with
             | DCreated => negb (exists_b w (r_name (ld runid w (d_source d))))
             | DModified =>
                 mem (d_source d) S && Nat.ltb (rk (d_source d)) (rk g)
                 && match r_changed (ld runid w (d_source d)) with
                    | Some c => Z.leb c (smax r chg)
                    | None => false
                    end
             end) (deps_of (dbs w) r g)
    | _, _, _ => false
    end.

  Lemma mem_In g l : mem g l = true -> In g l.
  Proof.
    induction l as [|x l IH]; cbn; [discriminate|]. intro H. apply orb_true_iff in H as [H|H].
    - apply Nat.eqb_eq in H. left. congruence.
    - right. auto.
  Qed.

  Lemma quiet_b_sound :
    forallb quiet_row_b S = true -> forall g, In g S -> quiet_row runid w rk (fun x => In x S) g.
  Proof.
    intros H g Hg. rewrite forallb_forall in H. specialize (H g Hg). unfold quiet_row_b in H. unfold quiet_row.
    destruct (r_failed (ld runid w g)); [discriminate|].
    destruct (r_changed (ld runid w g)) as [chg|]; [|discriminate].
    destruct (r_stamp (ld runid w g)) as [old|]; [|discriminate].
    apply andb_true_iff in H as [Hs Hd]. split; [reflexivity|]. exists chg. split; [reflexivity|].
    split; [exists old; auto|].
    rewrite forallb_forall in Hd. intros d Hin. specialize (Hd d Hin).
    destruct (d_mode d).
    - split; [intros _; now apply negb_true_iff in Hd|discriminate].
    - split; [discriminate|]. intros _.
      apply andb_true_iff in Hd as [Hd Hc]. apply andb_true_iff in Hd as [Hm Hr].
      split; [apply mem_In; exact Hm|]. split; [apply Nat.ltb_lt; exact Hr|].
      destruct (r_changed (ld runid w (d_source d))) as [c|]; [|discriminate].
      exists c. split; [reflexivity|apply Z.leb_le; exact Hc].
  Qed.

  (* what a check evaluates: the whole set is quiet, hence every member is
     judged clean by redo-ood's walk with nothing written *)
  Theorem quiet_b_all_clean fuel g l :
    forallb quiet_row_b S = true -> In g S -> (rk g < fuel)%nat ->
    (forall chg, r_changed (ld runid w g) = Some chg -> (chg <= runid)%Z) ->
    exists l' evs, is_dirty fuel runid nil w (ChkMem l) g (ld runid w g) runid [] = Ret (VClean, w, ChkMem l', evs).
  Proof.
    intros Hb Hg Hf Hle.
    destruct (quiet_target_clean runid w rk (fun x => In x S) (quiet_b_sound Hb) fuel g l Hg Hf Hle) as (l' & evs & H & _).
    exists l', evs. exact H.
  Qed.
End CleanB.
