(* Whole-build invariant, part 2: jobs and commands.

   Scope: projects of PLAIN scripts (redo-ifchange only: no redo-stamp, no
   redo-ifcreate, no redo-always, no "|| true"), a database without checksums
   and without pending hand edits of generated files, a rank on names that
   decreases along every declared and every recorded dependency, and a class of
   WATCHED names (the .do candidates) that are never asked for as targets.
   Under these premises every `redo-ifchange ts` (at any nesting depth) keeps
   the run invariant of Settle.v, and when it exits 0 every target in ts is
   settled. *)
From Coq Require Import ZArith List Bool Arith Lia.
Import ListNotations.
From Redo Require Import Base.Bytes Base.BytesProofs Build.Model Build.FsLemmas Build.RecordProofs Build.LocalProofs
                         Build.Protect Build.FailProofs Build.OnceProofs Build.OodAgree Build.CleanProofs Build.CleanDb
                         Build.Settle.

Section Job.
  Variable R : Z.
  Hypothesis Rpos : (0 < R)%Z.
  Variable rk : name -> nat.
  Variable watched : name -> bool.

  Notation ldw w g := (load R (dbs w) g).
  Notation INV := (INV R rk).
  Notation ok := (ok R).
  Notation marked := (marked R).

  (* ---------------------------------------------------------------- the extra row invariants *)
  Definition rowx (w : world) (ex : list fid) (g : fid) : Prop :=
    let r := get_row (dbs w) g in
    r_csum r = None /\
    (r_stamp r <> None -> r_changed r <> None) /\
    (is_alw w g = false -> reserved (nm w g) = false) /\
    (is_alw w g = false -> marked (ldw w g) = true -> r_failed r = None \/ r_failed r = Some R) /\
    (~ In g ex -> r_ovr r = false /\
       (r_gen r = true -> exists s, r_stamp r = Some s /\
          (stamp_eqb s (read_stamp w (nm w g)) = true \/ read_stamp w (nm w g) = SMissing))).

  Definition XR (w : world) (ex : list fid) : Prop := forall g, valid w g -> rowx w ex g.

  Lemma rowx_same w w' ex g :
    fs w' = fs w -> names (dbs w') = names (dbs w) -> get_row (dbs w') g = get_row (dbs w) g ->
    rowx w ex g -> rowx w' ex g.
  Proof.
    intros Hfs Hnm Hrow H. unfold rowx, load, is_alw, read_stamp in *.
    rewrite Hrow, Hfs, (nm_names w w' g Hnm). exact H.
  Qed.

  (* ---------------------------------------------------------------- the walk keeps the row invariants *)
  Section WalkX.
    Variable ex : list fid.

    Definition xs (w0 w : world) : Prop :=
      fs w = fs w0 /\ names (dbs w) = names (dbs w0) /\ deps (dbs w) = deps (dbs w0) /\ XR w ex.
    Definition deps_valid (w : world) : Prop := forall d, In d (deps (dbs w)) -> valid w (d_source d).

    Lemma load_fields w g :
      r_csum (ldw w g) = r_csum (get_row (dbs w) g) /\ r_stamp (ldw w g) = r_stamp (get_row (dbs w) g) /\
      r_ovr (ldw w g) = r_ovr (get_row (dbs w) g) /\ r_gen (ldw w g) = r_gen (get_row (dbs w) g) /\
      r_failed (ldw w g) = r_failed (get_row (dbs w) g) /\
      (r_changed (get_row (dbs w) g) <> None -> r_changed (ldw w g) <> None).
    Proof.
      unfold load, view_row. destruct (bytes_eqb _ _); cbn; repeat split; auto. intros _. discriminate.
    Qed.

    (* a row written from a copy taken at w0 (with the given changes) satisfies the row invariants *)
    Lemma rowx_put w0 w f r' :
      fs w = fs w0 -> names (dbs w) = names (dbs w0) -> XR w0 ex -> XR w ex -> valid w f ->
      r_name r' = nm w f -> r_csum r' = r_csum (ldw w0 f) -> r_stamp r' = r_stamp (ldw w0 f) ->
      (r_changed r' = r_changed (ldw w0 f)) -> r_ovr r' = r_ovr (ldw w0 f) -> r_failed r' = None ->
      (r_gen r' = true -> exists s, r_stamp r' = Some s /\ stamp_eqb s (read_stamp w (nm w f)) = true) ->
      XR (putw w f r') ex.
    Proof.
      intros Hfs Hnm X0 X Hf Hname Hcs Hst Hch Hov Hfl Hgen g Hg.
      apply (valid_putw w f r' g Hname) in Hg.
      destruct (Nat.eq_dec g f) as [->|Hne].
      - assert (Hf0 : valid w0 f) by (eapply valid_names; [symmetry; exact Hnm|exact Hf]).
        destruct (X0 f Hf0) as (A1 & A2 & A3 & A4 & A5). destruct (load_fields w0 f) as (L1 & L2 & L3 & L4 & L5 & L6).
        unfold rowx. rewrite get_row_putw_same by exact Hf.
        rewrite is_alw_putw by exact Hname. rewrite (nm_names w _ f (putw_names w f r' Hname)).
        split; [rewrite Hcs, L1; exact A1|]. split.
        { intro Hs. rewrite Hst, L2 in Hs. rewrite Hch. apply L6. auto. }
        split.
        { intro Ha. rewrite (nm_names w0 w f Hnm). apply A3. unfold is_alw in *. now rewrite <- (nm_names w0 w f Hnm). }
        split; [intros _ _; left; exact Hfl|].
        intro Hex. split; [rewrite Hov, L3; exact (proj1 (A5 Hex))|].
        intro Hg'. destruct (Hgen Hg') as (s0 & Hs0 & Hm0). exists s0. split; [exact Hs0|left].
        unfold read_stamp in *. cbn [putw fs set_db]. exact Hm0.
      - apply rowx_same with (w := w); [reflexivity|apply putw_names; exact Hname| |apply X; exact Hg].
        apply get_row_putw_other; assumption.
    Qed.

    Lemma xs_trans a b c : xs a b -> xs b c -> xs a c.
    Proof. intros (A1 & A2 & A3 & A4) (B1 & B2 & B3 & B4). split; [congruence|split; [congruence|split; [congruence|exact B4]]]. Qed.

    Lemma is_dirty_XR : forall fuel cyc w0 w c f mx seen v w' c' evs,
      xs w0 w -> XR w0 ex -> deps_valid w -> valid w f ->
      is_dirty fuel R cyc w c f (ldw w0 f) mx seen = Ret (v, w', c', evs) -> xs w w'.
    Proof.
      induction fuel as [|fuel IH]; intros cyc w0 w c f mx seen v w' c' evs (Hfs & Hnm & Hdp & X) X0 Hdv Hf H; [discriminate|].
      cbn [is_dirty] in H.
      assert (Hrefl : xs w w) by (split; [reflexivity|split; [reflexivity|split; [reflexivity|exact X]]]).
      destruct (existsb (Nat.eqb f) seen); [injection H as <- <- <- <-; exact Hrefl|].
      destruct (r_failed (ldw w0 f)) eqn:Hfl; [injection H as <- <- <- <-; exact Hrefl|].
      destruct (r_changed (ldw w0 f)) as [chg|] eqn:Hc; [|injection H as <- <- <- <-; exact Hrefl].
      destruct (Z.ltb mx chg); [injection H as <- <- <- <-; exact Hrefl|].
      destruct (chk_is_checked c R (ldw w0 f) f); [injection H as <- <- <- <-; exact Hrefl|].
      destruct (r_stamp (ldw w0 f)) as [old|] eqn:Hs; [|injection H as <- <- <- <-; exact Hrefl].
      assert (Hname0 : r_name (ldw w0 f) = nm w f) by (rewrite ld_name; symmetry; apply nm_names; exact Hnm).
      destruct (stamp_eqb old (read_stamp w (r_name (ldw w0 f)))) eqn:Hok; cbn [negb] in H.
      - eapply (walk_deps_inv2 (fun wk => xs w wk) (fun wk => xs w wk)
                               (fun d rs => rs = ldw w (d_source d) /\ In d (deps (dbs w))));
          [| | | |exact Hrefl|exact H].
        + intros w1 c1 d rs v1 w1' c1' e1 [-> Hin] (F1 & N1 & D1 & X1) E. cbv beta in E.
          destruct (existsb (Nat.eqb (d_source d)) cyc);
            [injection E as <- <- <- <-; split; [exact F1|split; [exact N1|split; [exact D1|exact X1]]]|].
          eapply xs_trans; [split; [exact F1|split; [exact N1|split; [exact D1|exact X1]]]|].
          eapply (IH cyc w w1); [split; [exact F1|split; [exact N1|split; [exact D1|exact X1]]]|exact X| | |exact E].
          * intros d' Hd'. rewrite D1 in Hd'. eapply valid_names; [exact N1|]. apply Hdv. exact Hd'.
          * eapply valid_names; [exact N1|]. apply Hdv. exact Hin.
        + auto.
        + intros w1 (F1 & N1 & D1 & X1).
          change (set_db w1 (put_row (dbs w1) f (set_checked R (ldw w0 f)))) with (putw w1 f (set_checked R (ldw w0 f))).
          assert (Hf1 : valid w1 f) by (eapply valid_names; eauto).
          assert (Hname1 : r_name (set_checked R (ldw w0 f)) = nm w1 f).
          { cbn [set_checked upd_row r_name]. rewrite Hname0. symmetry. apply nm_names. exact N1. }
          split; [cbn [putw fs set_db]; exact F1|]. split; [rewrite putw_names by exact Hname1; exact N1|].
          split; [exact D1|].
          apply (rowx_put w0 w1 f); auto; try congruence.
          intros _. exists old. split; [exact Hs|]. unfold read_stamp in *. rewrite (nm_names w w1 f N1), F1, <- Hname0. exact Hok.
        + eapply Forall_impl; [|apply deps_rows_loaded]. cbn. intros x [Hx1 Hx2]. split; [exact Hx2|].
          exact (proj1 (in_deps_of _ _ _ _ Hx1)).
      - injection H as <- <- <- <-. unfold forget_missing.
        destruct (read_stamp w (r_name (ldw w0 f))); [|exact Hrefl].
        destruct (r_gen (ldw w0 f)); [|exact Hrefl].
        set (r' := upd_row _ _ _ _ _ _ _ _).
        change (set_db w (put_row (dbs w) f r')) with (putw w f r').
        assert (Hname1 : r_name r' = nm w f) by exact Hname0.
        split; [reflexivity|]. split; [apply putw_names; exact Hname1|]. split; [reflexivity|].
        apply (rowx_put w0 w f); auto. intro Hg. discriminate Hg.
    Qed.

    (* walk_deps_inv2 with the sub-check hypothesis for redo-ifchange edges only (the others are not checked) *)
    Lemma walk_deps_inv_mod (I J : world -> Prop) (Q : dep -> row -> Prop) isd f r :
      (forall w1 c1 d rs v w' c' evs, Q d rs -> d_mode d = DModified -> I w1 ->
         isd w1 c1 (d_source d) rs = Ret (v, w', c', evs) -> I w') ->
      (forall w1, I w1 -> J w1) ->
      (forall w1, I w1 -> J (set_db w1 (put_row (dbs w1) f (set_checked R r)))) ->
      forall ds w0 c0 must evs0 v w' c' evs,
        Forall (fun x => Q (fst x) (snd x)) ds ->
        I w0 -> walk_deps isd R f r ds w0 c0 must evs0 = Ret (v, w', c', evs) -> J w'.
    Proof.
      intros Hisd HJ Hput. induction ds as [|[d rs] ds IHds]; intros w0 c0 must evs0 v w' c' evs HQ Hw0 H; cbn [walk_deps] in H.
      - destruct must; [destruct c0|]; inversion H; subst; auto.
      - inversion HQ as [|x l Hq Hqs]; subst. cbn [fst snd] in Hq. destruct (d_mode d) eqn:Em.
        + destruct (exists_b w0 (r_name rs)).
          * inversion H; subst. auto.
          * eapply IHds; [exact Hqs| |exact H]. exact Hw0.
        + destruct (isd w0 c0 (d_source d) rs) as [[[[v1 w1] c1] e1]|] eqn:E; [|discriminate].
          pose proof (Hisd _ _ _ _ _ _ _ _ Hq Em Hw0 E) as H1. destruct v1.
          * eapply IHds; [exact Hqs| |exact H]. exact H1.
          * inversion H; subst. auto.
          * eapply IHds; [exact Hqs| |exact H]. exact H1.
          * inversion H; subst. auto.
    Qed.

    (* rows that rank above the checked target are not touched by its check *)
    Definition above (w wk : world) (f : fid) : Prop :=
      names (dbs wk) = names (dbs w) /\ deps (dbs wk) = deps (dbs w) /\
      forall x, (rkf rk w f <= rkf rk w x)%nat -> (x - 1 <> f - 1)%nat -> get_row (dbs wk) x = get_row (dbs w) x.

    Lemma same_slot_same_rank w x f : (x - 1 = f - 1)%nat -> rkf rk w x = rkf rk w f.
    Proof. intro E. unfold rkf, nm, get_row. now rewrite E. Qed.

    Lemma edges_ok_same w w' : names (dbs w') = names (dbs w) -> deps (dbs w') = deps (dbs w) -> edges_ok rk w -> edges_ok rk w'.
    Proof.
      intros Hn Hd He d Hin. rewrite Hd in Hin. destruct (He d Hin) as (A & B & C & D).
      unfold rkf, is_alw. rewrite !(nm_names w w' _ Hn).
      split; [eapply valid_names; eauto|]. split; [eapply valid_names; eauto|]. split; [exact C|exact D].
    Qed.

    Lemma is_dirty_frame : forall fuel cyc w0 w c f mx seen v w' c' evs,
      names (dbs w) = names (dbs w0) -> edges_ok rk w ->
      is_dirty fuel R cyc w c f (ldw w0 f) mx seen = Ret (v, w', c', evs) -> above w w' f.
    Proof.
      induction fuel as [|fuel IH]; intros cyc w0 w c f mx seen v w' c' evs Hnm He H; [discriminate|].
      cbn [is_dirty] in H.
      assert (Hrefl : above w w f) by (split; [reflexivity|split; [reflexivity|auto]]).
      destruct (existsb (Nat.eqb f) seen); [injection H as <- <- <- <-; exact Hrefl|].
      destruct (r_failed (ldw w0 f)); [injection H as <- <- <- <-; exact Hrefl|].
      destruct (r_changed (ldw w0 f)) as [chg|]; [|injection H as <- <- <- <-; exact Hrefl].
      destruct (Z.ltb mx chg); [injection H as <- <- <- <-; exact Hrefl|].
      destruct (chk_is_checked c R (ldw w0 f) f); [injection H as <- <- <- <-; exact Hrefl|].
      destruct (r_stamp (ldw w0 f)) as [old|]; [|injection H as <- <- <- <-; exact Hrefl].
      assert (Hname0 : r_name (ldw w0 f) = nm w f) by (rewrite ld_name; symmetry; apply nm_names; exact Hnm).
      assert (Hput : forall wk r', above w wk f -> r_name r' = nm w f -> above w (set_db wk (put_row (dbs wk) f r')) f).
      { intros wk r' (N1 & D1 & A1) Hn. split; [|split; [exact D1|]].
        - cbn [dbs set_db]. rewrite names_put_row; [exact N1|]. rewrite Hn. symmetry. apply nm_names. exact N1.
        - intros x Hx Hsl. cbn [dbs set_db]. rewrite get_row_put_row_other by exact Hsl. apply A1; assumption. }
      destruct (negb (stamp_eqb old (read_stamp w (r_name (ldw w0 f))))).
      - injection H as <- <- <- <-. unfold forget_missing.
        destruct (read_stamp w (r_name (ldw w0 f))); [|exact Hrefl].
        destruct (r_gen (ldw w0 f)); [|exact Hrefl]. apply Hput; [exact Hrefl|exact Hname0].
      - eapply (walk_deps_inv_mod (fun wk => above w wk f) (fun wk => above w wk f)
                                  (fun d rs => rs = ldw w (d_source d) /\ In d (deps (dbs w)) /\ d_target d = f));
          [| | | |exact Hrefl|exact H].
        + intros w1 c1 d rs v1 w1' c1' e1 (-> & Hin & Ht) Em (N1 & D1 & A1) E. cbv beta in E.
          destruct (existsb (Nat.eqb (d_source d)) cyc); [injection E as <- <- <- <-; split; [exact N1|split; [exact D1|exact A1]]|].
          destruct (He d Hin) as (_ & _ & _ & Hr). specialize (Hr Em). rewrite Ht in Hr.
          destruct (IH cyc w w1 c1 (d_source d) _ _ v1 w1' c1' e1 N1 (edges_ok_same w w1 N1 D1 He) E) as (N2 & D2 & A2).
          split; [congruence|]. split; [congruence|].
          intros x Hx Hsl. rewrite A2.
          * apply A1; assumption.
          * unfold rkf in *. rewrite !(nm_names w w1 _ N1). lia.
          * intro E2. pose proof (same_slot_same_rank w x (d_source d) E2). lia.
        + auto.
        + intros w1 Hw1. apply Hput; [exact Hw1|]. cbn [set_checked upd_row r_name]. exact Hname0.
        + eapply Forall_impl; [|apply deps_rows_loaded]. cbn. intros x [Hx1 Hx2]. split; [exact Hx2|].
          destruct (in_deps_of _ _ _ _ Hx1) as [A B]. auto.
    Qed.
  End WalkX.

  (* ---------------------------------------------------------------- without checksums there is no "maybe" *)
  Section NoNeed.
    Variable ex : list fid.

    Lemma walk_no_need (I : world -> Prop) (Q : dep -> row -> Prop) isd f r :
      r_csum r = None ->
      (forall w1 c1 d rs v w' c' e, Q d rs -> I w1 -> isd w1 c1 (d_source d) rs = Ret (v, w', c', e) ->
         I w' /\ forall l, v <> VNeed l) ->
      forall ds w c evs v w' c' e, Forall (fun x => Q (fst x) (snd x)) ds -> I w ->
        walk_deps isd R f r ds w c [] evs = Ret (v, w', c', e) -> forall l, v <> VNeed l.
    Proof.
      intros Hcs Hisd. induction ds as [|[d rs] ds IHds]; intros w c evs v w' c' e HQ Hw H l; cbn [walk_deps] in H.
      - destruct c; injection H as <- _ _ _; discriminate.
      - inversion HQ as [|x l0 Hq Hqs]; subst. cbn [fst snd] in Hq. destruct (d_mode d).
        + destruct (exists_b w (r_name rs)).
          * rewrite Hcs in H. injection H as <- _ _ _. discriminate.
          * eapply IHds; [exact Hqs|exact Hw|exact H].
        + destruct (isd w c (d_source d) rs) as [[[[v1 w1] c1] e1]|] eqn:E; [|discriminate].
          destruct (Hisd _ _ _ _ _ _ _ _ Hq Hw E) as [Hw1 Hnn]. destruct v1.
          * eapply IHds; [exact Hqs|exact Hw1|exact H].
          * rewrite Hcs in H. injection H as <- _ _ _. discriminate.
          * exfalso. exact (Hnn _ eq_refl).
          * injection H as <- _ _ _. discriminate.
    Qed.

    Lemma ld_csum_none w g : XR w ex -> r_csum (ldw w g) = None.
    Proof.
      intro Hx. destruct (load_fields w g) as (L1 & _). rewrite L1.
      destruct (Nat.le_gt_cases 1 g) as [G1|G1]; [destruct (Nat.le_gt_cases g (length (rows (dbs w)))) as [G2|G2]|].
      - destruct (Hx g (conj G1 G2)) as (A & _). exact A.
      - unfold get_row. rewrite nth_overflow by lia. reflexivity.
      - assert (g = 0)%nat by lia. subst g.
        destruct (rows (dbs w)) as [|r0 l] eqn:El; [unfold get_row; rewrite El; reflexivity|].
        assert (V : valid w 1%nat) by (unfold valid; rewrite El; cbn; lia).
        destruct (Hx 1%nat V) as (A & _). exact A.
    Qed.

    Lemma is_dirty_no_need : forall fuel cyc w0 w c f mx seen v w' c' evs,
      xs ex w0 w -> XR w0 ex -> deps_valid w -> valid w f ->
      is_dirty fuel R cyc w c f (ldw w0 f) mx seen = Ret (v, w', c', evs) -> forall l, v <> VNeed l.
    Proof.
      induction fuel as [|fuel IH]; intros cyc w0 w c f mx seen v w' c' evs Hxs X0 Hdv Hf H l; [discriminate|].
      pose proof Hxs as (Hfs & Hnm & Hdp & X).
      cbn [is_dirty] in H.
      destruct (existsb (Nat.eqb f) seen); [injection H as <- _ _ _; discriminate|].
      destruct (r_failed (ldw w0 f)); [injection H as <- _ _ _; discriminate|].
      destruct (r_changed (ldw w0 f)) as [chg|]; [|injection H as <- _ _ _; discriminate].
      destruct (Z.ltb mx chg); [injection H as <- _ _ _; discriminate|].
      destruct (chk_is_checked c R (ldw w0 f) f); [injection H as <- _ _ _; discriminate|].
      destruct (r_stamp (ldw w0 f)) as [old|]; [|injection H as <- _ _ _; discriminate].
      pose proof (ld_csum_none w0 f X0) as Hcs.
      destruct (negb (stamp_eqb old (read_stamp w (r_name (ldw w0 f))))).
      - rewrite Hcs in H. injection H as <- _ _ _. discriminate.
      - eapply (walk_no_need (fun wk => xs ex w wk) (fun d rs => rs = ldw w (d_source d) /\ In d (deps (dbs w))));
          [exact Hcs| | |split; [reflexivity|split; [reflexivity|split; [reflexivity|exact X]]]|exact H].
        + intros w1 c1 d rs v1 w1' c1' e1 [-> Hin] Hw1 E. cbv beta in E.
          destruct (existsb (Nat.eqb (d_source d)) cyc); [injection E as <- <- _ _; split; [exact Hw1|discriminate]|].
          pose proof Hw1 as (F1 & N1 & D1 & X1).
          assert (Hdv1 : deps_valid w1) by (intros d' Hd'; rewrite D1 in Hd'; eapply valid_names; [exact N1|]; apply Hdv; exact Hd').
          assert (Hv1 : valid w1 (d_source d)) by (eapply valid_names; [exact N1|]; apply Hdv; exact Hin).
          split.
          * eapply xs_trans; [exact Hw1|]. eapply (is_dirty_XR ex); [exact Hw1|exact X|exact Hdv1|exact Hv1|exact E].
          * eapply (IH cyc w w1); [exact Hw1|exact X|exact Hdv1|exact Hv1|exact E].
        + eapply Forall_impl; [|apply deps_rows_loaded]. cbn. intros x [Hx1 Hx2]. split; [exact Hx2|].
          exact (proj1 (in_deps_of _ _ _ _ Hx1)).
    Qed.
  End NoNeed.

  (* ================================================================ the job invariant *)
  Definition CRE (w : world) : Prop :=
    forall d, In d (deps (dbs w)) -> d_mode d = DCreated -> watched (nm w (d_source d)) = true.
  Definition EXU (w : world) (ex : list fid) : Prop :=
    forall x, In x ex -> valid w x /\ watched (nm w x) = false.
  Definition JINV (w : world) (ex : list fid) : Prop := INV w ex /\ XR w ex /\ CRE w /\ EXU w ex.

  (* names are keys *)
  Lemma nodup_nth (l : list name) : NoDup l -> forall i j, (i < length l)%nat -> (j < length l)%nat ->
    nth i l [] = nth j l [] -> i = j.
  Proof. intros H i j Hi Hj E. eapply NoDup_nth; eauto. Qed.

  Lemma nm_inj w g f : NoDup (names (dbs w)) -> valid w g -> valid w f -> nm w g = nm w f -> g = f.
  Proof.
    intros Hnd [G1 G2] [F1 F2] E. unfold nm in E. rewrite !name_get_row in E.
    assert (g - 1 = f - 1)%nat; [|lia].
    apply (nodup_nth _ Hnd); rewrite ?names_length; try lia. exact E.
  Qed.

  (* ================================================================ entering and leaving a job *)
  Lemma ok_ex_grow w ex f : (~ ok w ex f) -> forall g, ok w ex g -> ok w (f :: ex) g.
  Proof.
    intros Hn g Hok. induction Hok as [g Hv Hex Ha Hb Hm Hd] using ok_ind2.
    assert (Hokg : ok w ex g).
    { apply ok_intro; auto. intros d Hin. destruct (Hd d Hin) as [A B]. split; [exact A|]. intro X. exact (proj1 (B X)). }
    apply ok_intro; auto.
    - intros [X|X]; [subst g; contradiction|contradiction].
    - intros d Hin. destruct (Hd d Hin) as [A B]. split; [exact A|]. intro X. exact (proj2 (B X)).
  Qed.

  Lemma ok_ex_shrink w ex f : forall g, ok w (f :: ex) g -> ok w ex g.
  Proof.
    intros g Hok. induction Hok as [g Hv Hex Ha Hb Hm Hd] using ok_ind2.
    apply ok_intro; auto.
    - intro X. apply Hex. now right.
    - intros d Hin. destruct (Hd d Hin) as [A B]. split; [exact A|]. intro X. exact (proj2 (B X)).
  Qed.

  Lemma JINV_enter w ex f :
    JINV w ex -> valid w f -> watched (nm w f) = false -> ~ ok w ex f -> JINV w (f :: ex).
  Proof.
    intros ((Hw & Hmark) & Hx & Hc & Hu) Hv Hwt Hn.
    split; [split; [exact Hw|]|split; [|split; [exact Hc|]]].
    - intros g Hg Hex Ha Hm Hfl. apply ok_ex_grow; [exact Hn|]. apply Hmark; auto. intro X. apply Hex. now right.
    - intros g Hg. destruct (Hx g Hg) as (A1 & A2 & A3 & A4 & A5). split; [exact A1|]. split; [exact A2|].
      split; [exact A3|]. split; [exact A4|]. intro X. apply A5. intro Y. apply X. now right.
    - intros x [<-|Hx']; [split; assumption|apply Hu; exact Hx'].
  Qed.

  Lemma JINV_leave w ex f :
    JINV w (f :: ex) ->
    (marked (ldw w f) = true -> r_failed (ldw w f) = None -> ok w ex f) ->
    (r_ovr (get_row (dbs w) f) = false /\
     (r_gen (get_row (dbs w) f) = true -> exists s, r_stamp (get_row (dbs w) f) = Some s /\
        (stamp_eqb s (read_stamp w (nm w f)) = true \/ read_stamp w (nm w f) = SMissing))) ->
    JINV w ex.
  Proof.
    intros ((Hw & Hmark) & Hx & Hc & Hu) Hself Hnoov.
    split; [split; [exact Hw|]|split; [|split; [exact Hc|]]].
    - intros g Hg Hex Ha Hm Hfl. destruct (Nat.eq_dec g f) as [->|Hne]; [auto|].
      apply (ok_ex_shrink w ex f). apply Hmark; auto. intros [X|X]; [congruence|contradiction].
    - intros g Hg. destruct (Hx g Hg) as (A1 & A2 & A3 & A4 & A5). split; [exact A1|]. split; [exact A2|].
      split; [exact A3|]. split; [exact A4|]. intro X. destruct (Nat.eq_dec g f) as [->|Hne]; [exact Hnoov|].
      apply A5. intros [Y|Y]; [congruence|contradiction].
    - intros x Hx'. apply Hu. now right.
  Qed.

  (* ---------------------------------------------------------------- files other than a job's own *)
  (* ok looks at the files of settled rows and at the watched paths only *)
  Lemma ok_mono_fs w w' ex (touched : name -> bool) :
    dbs w' = dbs w ->
    (forall n, touched n = false -> fs_get (fs w') n = fs_get (fs w) n) ->
    (forall g, ok w ex g -> touched (nm w g) = false) ->
    (forall d, In d (deps (dbs w)) -> d_mode d = DCreated -> touched (nm w (d_source d)) = false) ->
    forall g, ok w ex g -> ok w' ex g.
  Proof.
    intros Hdb Hfs Hrows Hcre g Hok. induction Hok as [g Hv Hex Ha Hb Hm Hd] using ok_ind2.
    assert (Hokg : ok w ex g).
    { apply ok_intro; auto. intros d Hin. destruct (Hd d Hin) as [A B]. split; [exact A|]. intro X. exact (proj1 (B X)). }
    assert (Hnm : forall x, nm w' x = nm w x) by (intro x; unfold nm; now rewrite Hdb).
    apply ok_intro.
    - unfold valid in *. now rewrite Hdb.
    - exact Hex.
    - unfold is_alw. now rewrite Hnm.
    - unfold rowbase, read_stamp in *. rewrite Hdb. rewrite ld_name in *.
      rewrite (Hfs _ (Hrows g Hokg)). exact Hb.
    - rewrite Hdb. exact Hm.
    - rewrite Hdb. intros d Hin. destruct (Hd d Hin) as [A B]. split.
      + intro X. unfold exists_b in *. rewrite Hnm.
        rewrite (Hfs _ (Hcre d (proj1 (in_deps_of _ _ _ _ Hin)) X)). exact (A X).
      + intro X. exact (proj2 (B X)).
  Qed.

  (* ---------------------------------------------------------------- the table grows *)
  (* [w'] has the rows of [w] (same position, same content) and maybe more; same files *)
  Definition extends (w w' : world) : Prop :=
    fs w' = fs w /\ updepth w' = updepth w /\ NAMES w w' /\
    forall g, valid w g -> get_row (dbs w') g = get_row (dbs w) g.

  Lemma extends_valid w w' g : extends w w' -> valid w g -> valid w' g.
  Proof. intros (_ & _ & N & _) [A B]. pose proof (NAMES_length w w' N). unfold valid. lia. Qed.
  Lemma extends_nm w w' g : extends w w' -> valid w g -> nm w' g = nm w g.
  Proof. intros (_ & _ & _ & H) Hv. unfold nm. now rewrite H. Qed.
  Lemma extends_ld w w' g : extends w w' -> valid w g -> ldw w' g = ldw w g.
  Proof. intros (_ & _ & _ & H) Hv. unfold load. now rewrite H. Qed.

  Lemma ok_mono_ext w w' ex :
    extends w w' -> edges_ok rk w ->
    (forall g, valid w g -> ~ In g ex -> deps_of (dbs w') (ldw w g) g = deps_of (dbs w) (ldw w g) g) ->
    forall g, ok w ex g -> ok w' ex g.
  Proof.
    intros Hext He Hdo g Hok. induction Hok as [g Hv Hex Ha Hb Hm Hd] using ok_ind2.
    pose proof Hext as (Hfs & _ & _ & _).
    assert (E : ldw w' g = ldw w g) by (apply extends_ld; assumption).
    assert (Hdo' : deps_of (dbs w') (ldw w' g) g = deps_of (dbs w) (ldw w g) g) by (rewrite E; apply Hdo; assumption).
    apply ok_intro.
    - eapply extends_valid; eauto.
    - exact Hex.
    - unfold is_alw. now rewrite (extends_nm w w' g Hext Hv).
    - unfold rowbase, read_stamp in *. rewrite E, Hfs. exact Hb.
    - rewrite Hdo', E. exact Hm.
    - rewrite Hdo'. intros d Hin. destruct (Hd d Hin) as [A B].
      destruct (He d (proj1 (in_deps_of _ _ _ _ Hin))) as (_ & Hvs & _).
      split.
      + intro X. unfold exists_b in *. rewrite Hfs, (extends_nm w w' _ Hext Hvs). exact (A X).
      + intro X. exact (proj2 (B X)).
  Qed.

  Definition edge_good (w : world) (d : dep) : Prop :=
    valid w (d_target d) /\ valid w (d_source d) /\ is_alw w (d_source d) = false /\
    (d_mode d = DModified -> (rkf rk w (d_source d) < rkf rk w (d_target d))%nat) /\
    (d_mode d = DCreated -> watched (nm w (d_source d)) = true).

  Lemma JINV_edges w ex : JINV w ex -> forall d, In d (deps (dbs w)) -> edge_good w d.
  Proof.
    intros (((_ & He & _) & _) & _ & Hc & _) d Hin. destruct (He d Hin) as (A & B & C & D).
    split; [exact A|split; [exact B|split; [exact C|split; [exact D|apply Hc; exact Hin]]]].
  Qed.

  Lemma edge_good_ext w w' d : extends w w' -> edge_good w d -> edge_good w' d.
  Proof.
    intros Hext (A & B & C & D & E). unfold edge_good, rkf, is_alw in *.
    rewrite !(extends_nm w w' _ Hext) by assumption.
    split; [eapply extends_valid; eauto|]. split; [eapply extends_valid; eauto|]. auto.
  Qed.

  Definition blank (w : world) (g : fid) : Prop :=
    get_row (dbs w) g = empty_row (nm w g) /\ reserved (nm w g) = false.

  Lemma reserved_always : reserved always_name = true.
  Proof. unfold reserved. rewrite bytes_eqb_refl. apply orb_true_r. Qed.

  Lemma not_reserved_not_alw w g : reserved (nm w g) = false -> is_alw w g = false.
  Proof.
    intro H. unfold is_alw. destruct (bytes_eqb (nm w g) always_name) eqn:E; [|reflexivity].
    apply bytes_eqb_eq in E. rewrite E, reserved_always in H. discriminate.
  Qed.

  Lemma rowx_ext w w' ex g : extends w w' -> valid w g -> rowx w ex g -> rowx w' ex g.
  Proof.
    intros Hext Hv H. pose proof Hext as (Hfs & _ & _ & Hrow).
    unfold rowx, load, is_alw, read_stamp in *. rewrite (Hrow g Hv), Hfs, (extends_nm w w' g Hext Hv). exact H.
  Qed.

  Lemma JINV_ext w w' ex :
    extends w w' -> JINV w ex -> NoDup (names (dbs w')) ->
    (forall g, valid w' g -> ~ valid w g -> blank w' g) ->
    (forall d, In d (deps (dbs w')) -> edge_good w' d) ->
    (forall g, valid w g -> ~ In g ex -> deps_of (dbs w') (ldw w g) g = deps_of (dbs w) (ldw w g) g) ->
    JINV w' ex /\ (forall g, ok w ex g -> ok w' ex g).
  Proof.
    intros Hext (((Hnd & He & Hb) & Hmark) & Hx & Hc & Hu) Hnd' Hblank Hedges Hdo.
    assert (Hmono : forall g, ok w ex g -> ok w' ex g) by (apply ok_mono_ext; assumption).
    assert (Hcase : forall g, valid w' g -> valid w g \/ (~ valid w g /\ blank w' g)).
    { intros g Hg. destruct Hg as [G1 G2]. destruct (Nat.le_gt_cases g (length (rows (dbs w)))) as [L|L].
      - left. split; assumption.
      - right. assert (~ valid w g) by (unfold valid; lia). split; [assumption|]. apply Hblank; [split; assumption|assumption]. }
    split; [|exact Hmono]. split; [split; [split; [exact Hnd'|split]|]|split; [|split]].
    - intros d Hin. destruct (Hedges d Hin) as (A & B & C & D & _). auto.
    - intros g Hg. destruct (Hcase g Hg) as [Hv|[_ [Hrow _]]].
      + destruct Hext as (_ & _ & _ & Hrows). rewrite (Hrows g Hv). apply Hb. exact Hv.
      + rewrite Hrow. cbn. split; intros c Hc'; discriminate.
    - intros g Hg Hex Ha Hm Hfl. destruct (Hcase g Hg) as [Hv|[_ [Hrow Hres]]].
      + rewrite (extends_ld w w' g Hext Hv) in Hm, Hfl.
        apply Hmono. apply Hmark; auto. unfold is_alw in *. now rewrite <- (extends_nm w w' g Hext Hv).
      + exfalso. unfold load in Hm. rewrite Hrow in Hm.
        rewrite view_not_always in Hm by (cbn [empty_row r_name]; apply (not_reserved_not_alw w' g Hres)).
        cbn in Hm. discriminate.
    - intros g Hg. destruct (Hcase g Hg) as [Hv|[_ [Hrow Hres]]].
      + apply (rowx_ext w w' ex g Hext Hv). apply Hx. exact Hv.
      + unfold rowx. rewrite Hrow. cbn [empty_row r_csum r_stamp r_changed r_failed r_ovr r_gen].
        split; [reflexivity|]. split; [intro X; contradiction|]. split; [intros _; exact Hres|].
        split; [intros _ _; now left|]. intros _. split; [reflexivity|intro X; discriminate].
    - intros d Hin Hm. destruct (Hedges d Hin) as (_ & _ & _ & _ & E). auto.
    - intros x Hx'. destruct (Hu x Hx') as [A B]. split; [eapply extends_valid; eauto|].
      now rewrite (extends_nm w w' x Hext A).
  Qed.

  (* ---------------------------------------------------------------- the dependency table, seen from another target *)
  Lemma filter_filter_same {A} (f p : A -> bool) l :
    (forall x, f x = true -> p x = true) -> filter f (filter p l) = filter f l.
  Proof.
    intro H. induction l as [|x l IH]; cbn [filter]; [reflexivity|].
    destruct (p x) eqn:Ep; cbn [filter].
    - destruct (f x); [now rewrite IH|exact IH].
    - destruct (f x) eqn:Ef; [rewrite (H x Ef) in Ep; discriminate|exact IH].
  Qed.

  Lemma deps_of_add_dep_other d t m s r g : g <> t -> deps_of (add_dep d t m s) r g = deps_of d r g.
  Proof.
    intro Hne. unfold deps_of. destruct (r_ovr r || negb (r_gen r)); [reflexivity|]. f_equal.
    cbn [add_dep deps]. rewrite filter_app. cbn [filter d_target].
    assert (E : Nat.eqb t g = false) by (apply Nat.eqb_neq; congruence). rewrite E, app_nil_r.
    apply filter_filter_same. intros x Hx. apply Nat.eqb_eq in Hx. unfold dep_key_eqb.
    assert (E2 : Nat.eqb (d_target x) t = false) by (apply Nat.eqb_neq; congruence). now rewrite E2.
  Qed.

  Lemma deps_of_zap1_other d f r g : g <> f -> deps_of (zap_deps1 d f) r g = deps_of d r g.
  Proof.
    intro Hne. unfold deps_of. destruct (r_ovr r || negb (r_gen r)); [reflexivity|]. f_equal.
    cbn [zap_deps1 deps]. induction (deps d) as [|x l IH]; cbn [map filter]; [reflexivity|].
    destruct (Nat.eqb (d_target x) f) eqn:E.
    - cbn [d_target]. apply Nat.eqb_eq in E.
      assert (E2 : Nat.eqb (d_target x) g = false) by (apply Nat.eqb_neq; congruence). now rewrite E2.
    - destruct (Nat.eqb (d_target x) g); [now rewrite IH|exact IH].
  Qed.

  Lemma deps_of_zap2_other d f r g : g <> f -> deps_of (zap_deps2 d f) r g = deps_of d r g.
  Proof.
    intro Hne. unfold deps_of. destruct (r_ovr r || negb (r_gen r)); [reflexivity|]. f_equal.
    cbn [zap_deps2 deps]. apply filter_filter_same. intros x Hx. apply Nat.eqb_eq in Hx.
    assert (E2 : Nat.eqb (d_target x) f = false) by (apply Nat.eqb_neq; congruence). now rewrite E2.
  Qed.

  Lemma find_row_none_not_in l n : forall k, find_row l n k = None -> ~ In n (map r_name l).
  Proof.
    induction l as [|r l IH]; intros k H; cbn in *; [tauto|].
    destruct (bytes_eqb (r_name r) n) eqn:E; [discriminate|]. intros [X|X].
    - rewrite X, bytes_eqb_refl in E. discriminate.
    - exact (IH _ H X).
  Qed.

  Lemma NoDup_snoc {A} (l : list A) x : NoDup l -> ~ In x l -> NoDup (l ++ [x]).
  Proof.
    intros Hn Hx. induction Hn as [|y l Hy Hn IH]; cbn; [constructor; [tauto|constructor]|].
    constructor.
    - intro Hin. apply in_app_or in Hin as [Hin|[->|[]]]; [tauto|]. apply Hx. now left.
    - apply IH. intro Hin. apply Hx. now right.
  Qed.

  (* File::from_name: the row is there afterwards; a new row is blank *)
  Lemma from_name_JINV w ex n d1 i :
    JINV w ex -> reserved n = false -> from_name (dbs w) n = (d1, i) ->
    extends w (set_db w d1) /\ JINV (set_db w d1) ex /\ (forall g, ok w ex g -> ok (set_db w d1) ex g) /\
    valid (set_db w d1) i /\ nm (set_db w d1) i = n /\ deps d1 = deps (dbs w) /\
    find_row (rows d1) n 1 = Some i /\ (valid w i \/ blank (set_db w d1) i).
  Proof.
    intros Hj Hres H. unfold from_name in H.
    destruct (find_row (rows (dbs w)) n 1) as [j|] eqn:E; injection H as <- <-.
    - rewrite set_db_same. destruct (find_row_valid _ _ _ E) as [V1 V2].
      pose proof (find_row_bounds _ _ _ _ E) as Hb.
      split; [split; [reflexivity|split; [reflexivity|split; [apply NAMES_refl|auto]]]|].
      split; [exact Hj|]. split; [auto|]. split; [unfold valid; lia|]. split; [exact V2|]. split; [reflexivity|].
      split; [exact E|left; unfold valid; lia].
    - set (d1 := {| rows := rows (dbs w) ++ [empty_row n]; deps := deps (dbs w); maxrun := maxrun (dbs w) |}).
      set (w1 := set_db w d1).
      assert (Hext : extends w w1).
      { split; [reflexivity|]. split; [reflexivity|]. split.
        - exists [n]. unfold names. cbn [w1 dbs set_db d1 rows]. rewrite map_app. reflexivity.
        - intros g [G1 G2]. unfold get_row. cbn [w1 dbs set_db d1 rows]. apply app_nth1. lia. }
      assert (Hi : valid w1 (S (length (rows (dbs w))))).
      { unfold valid. cbn [w1 dbs set_db d1 rows]. rewrite app_length. cbn. lia. }
      assert (Hrow : get_row (dbs w1) (S (length (rows (dbs w)))) = empty_row n).
      { unfold get_row. cbn [w1 dbs set_db d1 rows]. replace (S (length (rows (dbs w))) - 1)%nat with (length (rows (dbs w))) by lia.
        apply nth_app_last. }
      assert (Hnm : nm w1 (S (length (rows (dbs w)))) = n) by (unfold nm; rewrite Hrow; reflexivity).
      assert (Hblank : blank w1 (S (length (rows (dbs w))))) by (split; [rewrite Hnm; exact Hrow|rewrite Hnm; exact Hres]).
      destruct (JINV_ext w w1 ex Hext Hj) as [J M].
      + destruct Hj as (((Hnd & _) & _) & _). unfold names. cbn [w1 dbs set_db d1 rows]. rewrite map_app. cbn [map empty_row r_name].
        apply NoDup_snoc; [exact Hnd|]. eapply find_row_none_not_in; exact E.
      + intros g [G1 G2] Hnv. cbn [w1 dbs set_db d1 rows] in G2. rewrite app_length in G2. cbn in G2.
        assert (g = S (length (rows (dbs w)))) by (unfold valid in Hnv; lia). subst g. exact Hblank.
      + intros d Hin. apply (edge_good_ext w w1 d Hext). eapply JINV_edges; eauto.
      + intros g _ _. reflexivity.
      + split; [exact Hext|]. split; [exact J|]. split; [exact M|]. split; [exact Hi|]. split; [exact Hnm|].
        split; [reflexivity|]. split; [|right; exact Hblank].
        cbn [d1 rows]. rewrite find_row_app_none by exact E. cbn. rewrite bytes_eqb_refl. first [reflexivity|f_equal; lia].
  Qed.

  (* a change of the dependency table that concerns a target in mid-build only *)
  Lemma deps_step_JINV w ex t dps :
    JINV w ex -> In t ex ->
    (forall d, In d dps -> edge_good w d) ->
    (forall r g, g <> t -> deps_of {| rows := rows (dbs w); deps := dps; maxrun := maxrun (dbs w) |} r g = deps_of (dbs w) r g) ->
    let w1 := set_db w {| rows := rows (dbs w); deps := dps; maxrun := maxrun (dbs w) |} in
    extends w w1 /\ JINV w1 ex /\ (forall g, ok w ex g -> ok w1 ex g).
  Proof.
    intros Hj Ht Hed Hdo. cbv zeta.
    set (w1 := set_db w {| rows := rows (dbs w); deps := dps; maxrun := maxrun (dbs w) |}).
    assert (Hext : extends w w1).
    { split; [reflexivity|]. split; [reflexivity|]. split; [exists []; unfold names; cbn; now rewrite app_nil_r|]. intros g _. reflexivity. }
    split; [exact Hext|].
    apply (JINV_ext w w1 ex Hext Hj).
    - destruct Hj as (((Hnd & _) & _) & _). exact Hnd.
    - intros g [G1 G2] Hnv. exfalso. apply Hnv. split; assumption.
    - intros d Hin. apply (edge_good_ext w w1 d Hext). apply Hed. exact Hin.
    - intros g _ Hex. apply Hdo. intro X. subst g. contradiction.
  Qed.

  Lemma add_dep_JINV w ex t m s :
    JINV w ex -> In t ex -> valid w s -> is_alw w s = false ->
    (m = DModified -> (rkf rk w s < rkf rk w t)%nat) -> (m = DCreated -> watched (nm w s) = true) ->
    let w1 := set_db w (add_dep (dbs w) t m s) in
    extends w w1 /\ JINV w1 ex /\ (forall g, ok w ex g -> ok w1 ex g).
  Proof.
    intros Hj Ht Hs Ha Hm Hc.
    apply (deps_step_JINV w ex t (deps (add_dep (dbs w) t m s))); auto.
    - intros d Hin. cbn [add_dep deps] in Hin. apply in_app_or in Hin as [Hin|[<-|[]]].
      + apply filter_In in Hin as [Hin _]. eapply JINV_edges; eauto.
      + destruct Hj as (_ & _ & _ & Hu). destruct (Hu t Ht) as [Vt _].
        split; [exact Vt|]. split; [exact Hs|]. split; [exact Ha|]. split; assumption.
    - intros r g Hne. apply (deps_of_add_dep_other (dbs w) t m s r g Hne).
  Qed.

  Lemma zap1_JINV w ex f :
    JINV w ex -> In f ex ->
    let w1 := set_db w (zap_deps1 (dbs w) f) in
    extends w w1 /\ JINV w1 ex /\ (forall g, ok w ex g -> ok w1 ex g).
  Proof.
    intros Hj Hf.
    apply (deps_step_JINV w ex f (deps (zap_deps1 (dbs w) f))); auto.
    - intros d Hin. cbn [zap_deps1 deps] in Hin. apply in_map_iff in Hin as (x & <- & Hx).
      pose proof (JINV_edges w ex Hj x Hx) as G. destruct (Nat.eqb (d_target x) f); exact G.
    - intros r g Hne. apply (deps_of_zap1_other (dbs w) f r g Hne).
  Qed.

  Lemma zap2_JINV w ex f :
    JINV w ex -> In f ex ->
    let w1 := set_db w (zap_deps2 (dbs w) f) in
    extends w w1 /\ JINV w1 ex /\ (forall g, ok w ex g -> ok w1 ex g).
  Proof.
    intros Hj Hf.
    apply (deps_step_JINV w ex f (deps (zap_deps2 (dbs w) f))); auto.
    - intros d Hin. cbn [zap_deps2 deps] in Hin. apply filter_In in Hin as [Hin _]. eapply JINV_edges; eauto.
    - intros r g Hne. apply (deps_of_zap2_other (dbs w) f r g Hne).
  Qed.

  (* the row of a target in mid-build is rewritten *)
  Lemma putex_JINV w ex f r' :
    JINV w ex -> In f ex -> r_name r' = nm w f ->
    (forall c, r_checked r' = Some c -> (c <= R)%Z) -> (forall c, r_changed r' = Some c -> (c <= R)%Z) ->
    r_csum r' = None -> (r_stamp r' <> None -> r_changed r' <> None) ->
    (marked (view_row R r') = true -> r_failed r' = None \/ r_failed r' = Some R) ->
    JINV (putw w f r') ex /\ (forall g, ok w ex g -> ok (putw w f r') ex g).
  Proof.
    intros (Hinv & Hx & Hc & Hu) Hf Hname Hb1 Hb2 Hcs Hsc Hmf.
    destruct (Hu f Hf) as [Vf Wf].
    assert (Hnok : ~ ok w ex f) by (intro X; destruct X; contradiction).
    pose proof (putw_names w f r' Hname) as Hnm.
    split; [|apply ok_put_all; auto; intro X; contradiction].
    split; [|split; [|split]].
    - apply INV_put; auto; [intro X; contradiction|intro X; contradiction].
    - intros g Hg. apply (valid_putw w f r' g Hname) in Hg.
      destruct (Nat.eq_dec g f) as [->|Hne].
      + destruct (Hx f Vf) as (_ & _ & A3 & _).
        unfold rowx. rewrite get_row_putw_same by exact Vf.
        rewrite is_alw_putw by exact Hname. rewrite (nm_names w _ f Hnm). rewrite putw_ld_same by exact Vf.
        split; [exact Hcs|]. split; [exact Hsc|]. split; [exact A3|]. split; [intros _; exact Hmf|]. intro X. contradiction.
      + apply rowx_same with (w := w); [reflexivity|exact Hnm| |apply Hx; exact Hg].
        apply get_row_putw_other; assumption.
    - intros d Hin Hm. cbn [putw dbs set_db put_row deps] in Hin. rewrite (nm_names w _ _ Hnm). apply Hc; assumption.
    - intros x Hx'. destruct (Hu x Hx') as [A B]. split; [apply valid_putw; assumption|]. now rewrite (nm_names w _ x Hnm).
  Qed.

  (* ---------------------------------------------------------------- a job writes its own files only *)
  Lemma tmp_not_always t : tmp_of t <> always_name.
  Proof. unfold tmp_of. intro H. apply (f_equal (@length _)) in H. rewrite app_length in H. cbn in H. lia. Qed.

  Lemma row_name_not_tmp w ex g t : XR w ex -> valid w g -> nm w g <> tmp_of t.
  Proof.
    intros Hx Hv E. destruct (Hx g Hv) as (_ & _ & A3 & _).
    destruct (is_alw w g) eqn:Ea.
    - unfold is_alw in Ea. apply bytes_eqb_eq in Ea. rewrite Ea in E. symmetry in E. exact (tmp_not_always t E).
    - specialize (A3 eq_refl). rewrite E, reserved_tmp_of in A3. discriminate.
  Qed.

  Definition own_files (t n : name) : bool := bytes_eqb n t || bytes_eqb n (tmp_of t).

  Lemma own_files_false t n : n <> t -> n <> tmp_of t -> own_files t n = false.
  Proof.
    intros A B. unfold own_files.
    destruct (bytes_eqb n t) eqn:E1; [apply bytes_eqb_eq in E1; contradiction|].
    destruct (bytes_eqb n (tmp_of t)) eqn:E2; [apply bytes_eqb_eq in E2; contradiction|reflexivity].
  Qed.

  Lemma fs_step_JINV w w' ex f :
    JINV w ex -> In f ex -> dbs w' = dbs w ->
    (forall n, own_files (nm w f) n = false -> fs_get (fs w') n = fs_get (fs w) n) ->
    JINV w' ex /\ (forall g, ok w ex g -> ok w' ex g).
  Proof.
    intros (Hinv & Hx & Hc & Hu) Hf Hdb Hfs. set (t := nm w f) in *.
    destruct (Hu f Hf) as [Vf Wf]. destruct Hinv as [(Hnd & He & Hb) Hmark].
    assert (Hrow : forall g, valid w g -> ~ In g ex -> own_files t (nm w g) = false).
    { intros g Hg Hex. apply own_files_false.
      - intro E. apply Hex. assert (g = f) by (eapply nm_inj; eauto). now subst g.
      - eapply row_name_not_tmp; eauto. }
    assert (Hmono : forall g, ok w ex g -> ok w' ex g).
    { apply (ok_mono_fs w w' ex (own_files t) Hdb Hfs).
      - intros g Hok. destruct Hok as [g Hv Hex _ _ _ _]. apply Hrow; assumption.
      - intros d Hin Hm. destruct (He d Hin) as (_ & Vs & _). apply own_files_false.
        + intro E. pose proof (Hc d Hin Hm) as W. rewrite E in W. unfold t in W. congruence.
        + eapply row_name_not_tmp; eauto. }
    assert (Hnm : forall x, nm w' x = nm w x) by (intro x; unfold nm; now rewrite Hdb).
    assert (Hval : forall x, valid w' x <-> valid w x) by (intro x; unfold valid; now rewrite Hdb).
    split; [|exact Hmono]. split; [split; [split; [|split]|]|split; [|split]].
    - now rewrite Hdb.
    - intros d Hin. rewrite Hdb in Hin. destruct (He d Hin) as (A & B & C & D).
      unfold rkf, is_alw. rewrite !Hnm, !Hval. auto.
    - intros g Hg. rewrite Hval in Hg. rewrite Hdb. apply Hb. exact Hg.
    - intros g Hg Hex Ha Hm Hfl. rewrite Hval in Hg. unfold is_alw in Ha. rewrite Hnm in Ha. rewrite Hdb in Hm, Hfl.
      apply Hmono. apply Hmark; auto.
    - intros g Hg. rewrite Hval in Hg. destruct (Hx g Hg) as (A1 & A2 & A3 & A4 & A5).
      unfold rowx. rewrite Hdb. unfold is_alw. rewrite Hnm. split; [exact A1|]. split; [exact A2|]. split; [exact A3|].
      split; [exact A4|]. intro Hex. destruct (A5 Hex) as [B1 B2]. split; [exact B1|].
      unfold read_stamp in *. rewrite (Hfs _ (Hrow g Hg Hex)). exact B2.
    - intros d Hin Hm. rewrite Hdb in Hin. rewrite Hnm. apply Hc; assumption.
    - intros x Hx'. destruct (Hu x Hx') as [A B]. rewrite Hval, Hnm. auto.
  Qed.

  (* ================================================================ the project *)
  Definition plain (sc : script) : Prop :=
    s_tol sc = false /\ s_always sc = false /\ s_stamp sc = false /\
    forall n, In n (s_ifcreate sc) -> watched n = true /\ reserved n = false.

  Definition script_of (fl : file) : script :=
    match f_script fl with Some sc => sc | None => default_script end.

  Definition PROJ (w : world) : Prop :=
    (forall n, watched n = true -> reserved n = false) /\
    (forall t c, watched t = false -> reserved t = false -> In c (do_candidates (updepth w) t) ->
       watched (cand_key (updepth w) c) = true /\ reserved (cand_key (updepth w) c) = false /\
       (rk (cand_key (updepth w) c) < rk t)%nat) /\
    (forall t c fl, watched t = false -> reserved t = false -> In c (do_candidates (updepth w) t) ->
       fs_get (fs w) (cand_key (updepth w) c) = Some fl ->
       plain (script_of fl) /\
       forall d, In d (s_deps (script_of fl)) -> watched d = false /\ reserved d = false /\ (rk d < rk t)%nat).

  Definition wsame (w w' : world) : Prop :=
    updepth w' = updepth w /\ forall n, watched n = true -> fs_get (fs w') n = fs_get (fs w) n.

  Lemma wsame_refl w : wsame w w.
  Proof. split; auto. Qed.
  Lemma wsame_trans a b c : wsame a b -> wsame b c -> wsame a c.
  Proof. intros [A1 A2] [B1 B2]. split; [congruence|]. intros n Hn. rewrite B2, A2; auto. Qed.

  Lemma PROJ_wsame w w' : wsame w w' -> PROJ w -> PROJ w'.
  Proof.
    intros [Hu Hf] (P1 & P2 & P3). split; [exact P1|]. rewrite Hu. split; [exact P2|].
    intros t c fl Ht Hr Hc Hfl. destruct (P2 t c Ht Hr Hc) as (W & _ & _). rewrite (Hf _ W) in Hfl. eapply P3; eauto.
  Qed.

  (* ================================================================ what a job or a command does *)
  Definition same_at (x : fid) (w w' : world) : Prop :=
    get_row (dbs w') x = get_row (dbs w) x /\
    forall d, d_target d = x -> (In d (deps (dbs w')) <-> In d (deps (dbs w))).

  (* [ex]: the targets in mid-build (outside the invariant); [fr] (among them): those this step does not touch *)
  Definition jstep (ex fr : list fid) (w w' : world) : Prop :=
    NAMES w w' /\ wsame w w' /\ JINV w' ex /\ (forall g, ok w ex g -> ok w' ex g) /\
    forall x, In x fr -> same_at x w w'.

  Lemma jstep_refl ex fr w : JINV w ex -> jstep ex fr w w.
  Proof.
    intro H. split; [apply NAMES_refl|]. split; [apply wsame_refl|]. split; [exact H|]. split; [auto|].
    intros x _. split; [reflexivity|]. intros d _. tauto.
  Qed.
  Lemma jstep_trans ex fr a b c : jstep ex fr a b -> jstep ex fr b c -> jstep ex fr a c.
  Proof.
    intros (A1 & A2 & A3 & A4 & A5) (B1 & B2 & B3 & B4 & B5).
    split; [eapply NAMES_trans; eauto|]. split; [eapply wsame_trans; eauto|]. split; [exact B3|]. split; [auto|].
    intros x Hx. destruct (A5 x Hx) as [R1 D1]. destruct (B5 x Hx) as [R2 D2]. split; [congruence|].
    intros d Hd. rewrite (D2 d Hd). apply D1. exact Hd.
  Qed.
  Lemma jstep_weaken ex fr fr' a b : (forall x, In x fr' -> In x fr) -> jstep ex fr a b -> jstep ex fr' a b.
  Proof. intros Hs (A1 & A2 & A3 & A4 & A5). split; [exact A1|split; [exact A2|split; [exact A3|split; [exact A4|auto]]]]. Qed.

  (* the steps of a job, as jsteps: [f] is the job's own target *)
  Definition deps_other (f : fid) (l l' : list dep) : Prop :=
    forall x, d_target x <> f -> (In x l' <-> In x l).

  Lemma deps_other_add l t m s : deps_other t l (deps (add_dep {| rows := []; deps := l; maxrun := 0 |} t m s)).
  Proof.
    intros x Hx. cbn [add_dep deps]. rewrite in_app_iff, filter_In. cbn [In]. split.
    - intros [[A _]|[<-|[]]]; [exact A|cbn in Hx; congruence].
    - intro A. left. split; [exact A|]. unfold dep_key_eqb.
      assert (E : Nat.eqb (d_target x) t = false) by (apply Nat.eqb_neq; exact Hx). now rewrite E.
  Qed.

  Lemma deps_other_zap1 l f : deps_other f l (deps (zap_deps1 {| rows := []; deps := l; maxrun := 0 |} f)).
  Proof.
    intros x Hx. cbn [zap_deps1 deps]. rewrite in_map_iff. split.
    - intros (y & <- & Hy). destruct (Nat.eqb (d_target y) f) eqn:E; [|exact Hy].
      cbn [d_target] in Hx. apply Nat.eqb_eq in E. congruence.
    - intro A. exists x. split; [|exact A].
      assert (E : Nat.eqb (d_target x) f = false) by (apply Nat.eqb_neq; exact Hx). now rewrite E.
  Qed.

  Lemma deps_other_zap2 l f : deps_other f l (deps (zap_deps2 {| rows := []; deps := l; maxrun := 0 |} f)).
  Proof.
    intros x Hx. cbn [zap_deps2 deps]. rewrite filter_In. split; [tauto|]. intro A. split; [exact A|].
    assert (E : Nat.eqb (d_target x) f = false) by (apply Nat.eqb_neq; exact Hx). now rewrite E.
  Qed.

  Lemma jstep_db ex f w w1 :
    ~ In f ex -> (forall x, In x ex -> valid w x) ->
    extends w w1 -> JINV w1 (f :: ex) -> (forall g, ok w (f :: ex) g -> ok w1 (f :: ex) g) ->
    deps_other f (deps (dbs w)) (deps (dbs w1)) ->
    jstep (f :: ex) ex w w1.
  Proof.
    intros Hf Hval Hext Hj Hm Hd. pose proof Hext as (Hfs & Hup & Hn & Hrows).
    split; [exact Hn|]. split; [split; [exact Hup|intros n _; now rewrite Hfs]|]. split; [exact Hj|]. split; [exact Hm|].
    intros x Hx.
    split; [apply Hrows; apply Hval; exact Hx|]. intros d Hdt. apply Hd. intro E. rewrite Hdt in E. apply Hf. rewrite <- E. exact Hx.
  Qed.

  (* ---------------------------------------------------------------- the dependency rows of the job's own target *)
  Definition gooddep (w : world) (ex : list fid) (P : fid -> Prop) (d : dep) : Prop :=
    (d_mode d = DCreated -> exists_b w (nm w (d_source d)) = false) /\
    (d_mode d = DModified -> ok w ex (d_source d) \/ P (d_source d)).
  Definition GOODF (w : world) (ex : list fid) (f : fid) (P : fid -> Prop) : Prop :=
    forall d, In d (deps (dbs w)) -> d_target d = f -> d_delete d = true \/ gooddep w ex P d.

  Lemma GOODF_weaken w ex f (P P' : fid -> Prop) :
    (forall s, P s -> ok w ex s \/ P' s) -> GOODF w ex f P -> GOODF w ex f P'.
  Proof.
    intros HP H d Hin Ht. destruct (H d Hin Ht) as [X|[A B]]; [now left|right]. split; [exact A|].
    intro Hm. destruct (B Hm) as [Y|Y]; [now left|apply HP; exact Y].
  Qed.

  Lemma GOODF_jstep w w' ex fr f P :
    In f fr -> JINV w ex -> jstep ex fr w w' -> GOODF w ex f P -> GOODF w' ex f P.
  Proof.
    intros Hf Hj (Hn & (Hup & Hws) & Hj' & Hm & Hfr) H d Hin Ht.
    destruct (Hfr f Hf) as [_ Hd]. apply (Hd d Ht) in Hin.
    destruct (H d Hin Ht) as [X|[A B]]; [now left|right].
    pose proof (JINV_edges w ex Hj d Hin) as (_ & Vs & _ & _ & Hc).
    split.
    - intro Hmode. unfold exists_b, nm in *. rewrite (NAMES_get_row w w' _ Hn) by (destruct Vs; lia).
      rewrite Hws; [exact (A Hmode)|]. exact (Hc Hmode).
    - intro Hmode. destruct (B Hmode) as [Y|Y]; [left; apply Hm; exact Y|now right].
  Qed.

  Lemma extends_refl w : extends w w.
  Proof. split; [reflexivity|split; [reflexivity|split; [apply NAMES_refl|auto]]]. Qed.
  Lemma extends_trans a b c : extends a b -> extends b c -> extends a c.
  Proof.
    intros (A1 & A2 & A3 & A4) (B1 & B2 & B3 & B4).
    split; [congruence|]. split; [congruence|]. split; [eapply NAMES_trans; eauto|].
    intros g Hg. rewrite B4; [apply A4; exact Hg|]. eapply extends_valid; [|exact Hg]. split; [exact A1|split; [exact A2|split; [exact A3|exact A4]]].
  Qed.

  Lemma gooddep_ext w w2 ex (P P' : fid -> Prop) d :
    extends w w2 -> (forall g, ok w ex g -> ok w2 ex g) -> valid w (d_source d) -> (forall x, P x -> P' x) ->
    gooddep w ex P d -> gooddep w2 ex P' d.
  Proof.
    intros Hext Hm Vs HP [A B]. pose proof Hext as (Fs & _). split.
    - intro X. unfold exists_b in *. rewrite Fs, (extends_nm w w2 _ Hext Vs). exact (A X).
    - intro X. destruct (B X) as [Y|Y]; [left; apply Hm; exact Y|right; apply HP; exact Y].
  Qed.

  (* one dependency of the job's own target is (re-)declared *)
  Lemma add_edge_step ex f w n m d1 s :
    JINV w (f :: ex) -> ~ In f ex -> reserved n = false ->
    (m = DModified -> (rk n < rkf rk w f)%nat) -> (m = DCreated -> watched n = true) ->
    from_name (dbs w) n = (d1, s) ->
    let w2 := set_db w (add_dep d1 f m s) in
    jstep (f :: ex) ex w w2 /\ extends w w2 /\ valid w2 s /\ nm w2 s = n /\
    find_row (rows (dbs w2)) n 1 = Some s /\
    forall P P' : fid -> Prop, (forall x, P x -> P' x) ->
      GOODF w (f :: ex) f P ->
      gooddep w2 (f :: ex) P' {| d_target := f; d_source := s; d_mode := m; d_delete := false |} ->
      GOODF w2 (f :: ex) f P'.
  Proof.
    intros Hj Hf Hres Hrk Hwt Hfn. cbv zeta.
    destruct (from_name_JINV w (f :: ex) n d1 s Hj Hres Hfn) as (E1 & J1 & M1 & V1 & N1 & D1 & F1 & _).
    set (w1 := set_db w d1) in *.
    assert (Hfin : In f (f :: ex)) by now left.
    pose proof Hj as (_ & _ & _ & Hu). destruct (Hu f Hfin) as [Vf _].
    assert (Hnmf : nm w1 f = nm w f) by (apply extends_nm; assumption).
    destruct (add_dep_JINV w1 (f :: ex) f m s J1 Hfin V1) as (E2 & J2 & M2).
    { apply not_reserved_not_alw. rewrite N1. exact Hres. }
    { intro Hm. unfold rkf. rewrite N1, Hnmf. apply Hrk. exact Hm. }
    { intro Hm. rewrite N1. apply Hwt. exact Hm. }
    change (set_db w1 (add_dep (dbs w1) f m s)) with (set_db w (add_dep d1 f m s)) in *.
    set (w2 := set_db w (add_dep d1 f m s)) in *.
    assert (E12 : extends w w2) by (eapply extends_trans; eauto).
    assert (Hdo : deps_other f (deps (dbs w)) (deps (dbs w2))).
    { intros x Hx. cbn [w2 dbs set_db]. rewrite <- D1. apply (deps_other_add (deps d1) f m s x Hx). }
    split.
    { apply jstep_db; [exact Hf| |exact E12|exact J2| |exact Hdo].
      - intros x Hx. destruct (Hu x (or_intror Hx)) as [A _]. exact A.
      - intros g Hg. apply M2. apply M1. exact Hg. }
    split; [exact E12|]. split; [exact (extends_valid w1 w2 s E2 V1)|].
    split; [rewrite (extends_nm w1 w2 s E2 V1); exact N1|].
    split; [cbn [w2 dbs set_db add_dep rows]; exact F1|].
    intros P P' HP Hg Hnew d Hin Ht.
    cbn [w2 dbs set_db add_dep deps] in Hin. apply in_app_or in Hin as [Hin|[<-|[]]].
    - apply filter_In in Hin as [Hin _]. rewrite D1 in Hin. destruct (Hg d Hin Ht) as [X|G]; [now left|right].
      pose proof (JINV_edges w (f :: ex) Hj d Hin) as (_ & Vs & _).
      apply (gooddep_ext w w2 (f :: ex) P P' d E12); auto.
    - right. exact Hnew.
  Qed.

  Lemma GOODF_refl_db w ex f P : GOODF w ex f P -> GOODF (set_db w (dbs w)) ex f P.
  Proof. now rewrite set_db_same. Qed.

  (* paths::find_do_file: a redo-ifcreate edge on every missing candidate, a redo-ifchange edge on the first existing one *)
  Lemma find_do_spec ex f t w0 :
    ~ In f ex -> watched t = false -> reserved t = false -> PROJ w0 ->
    forall cands, (forall c, In c cands -> In c (do_candidates (updepth w0) t)) ->
    forall w (P : fid -> Prop), fs w = fs w0 -> updepth w = updepth w0 -> JINV w (f :: ex) -> nm w f = t ->
      GOODF w (f :: ex) f P ->
    forall d2 found, find_do_file w0 (dbs w) f cands = (d2, found) ->
      jstep (f :: ex) ex w (set_db w d2) /\ extends w (set_db w d2) /\
      match found with
      | None => GOODF (set_db w d2) (f :: ex) f P
      | Some (c, sc) =>
          In c cands /\ (exists fl, fs_get (fs w0) (cand_key (updepth w0) c) = Some fl /\ sc = script_of fl) /\
          exists s, find_row (rows d2) (cand_key (updepth w0) c) 1 = Some s /\
                    GOODF (set_db w d2) (f :: ex) f (fun x => P x \/ x = s)
      end.
  Proof.
    intros Hf Hwt Hrt (P1 & P2 & P3).
    induction cands as [|c cs IH]; intros Hsub w P Hfs Hup Hj Hnm Hg d2 found H; cbn [find_do_file] in H.
    - injection H as <- <-. rewrite set_db_same. split; [apply jstep_refl; exact Hj|]. split; [apply extends_refl|exact Hg].
    - destruct (P2 t c Hwt Hrt (Hsub c (or_introl eq_refl))) as (Wk & Rk & Lk).
      set (dn := cand_key (updepth w0) c) in *.
      destruct (fs_get (fs w0) dn) as [fl|] eqn:Efs.
      + destruct (from_name (dbs w) dn) as [d1 s] eqn:Efn. injection H as <- <-.
        assert (Hrk1 : DModified = DModified -> (rk dn < rkf rk w f)%nat) by (intros _; unfold rkf; rewrite Hnm; exact Lk).
        assert (Hwt1 : DModified = DCreated -> watched dn = true) by (intro X; discriminate X).
        destruct (add_edge_step ex f w dn DModified d1 s Hj Hf Rk Hrk1 Hwt1 Efn) as (J & E & V & N & F & G).
        split; [exact J|]. split; [exact E|]. split; [now left|]. split; [exists fl; split; [exact Efs|reflexivity]|].
        exists s. split; [exact F|].
        apply (G P (fun x => P x \/ x = s)); [intros x Hx; now left|exact Hg|].
        split; [intro X; discriminate X|]. intros _. right. now right.
      + destruct (from_name (dbs w) dn) as [d1 s] eqn:Efn.
        assert (Hrk1 : DCreated = DModified -> (rk dn < rkf rk w f)%nat) by (intro X; discriminate X).
        assert (Hwt1 : DCreated = DCreated -> watched dn = true) by (intros _; exact Wk).
        destruct (add_edge_step ex f w dn DCreated d1 s Hj Hf Rk Hrk1 Hwt1 Efn) as (J & E & V & N & F & G).
        set (w1 := set_db w (add_dep d1 f DCreated s)) in *.
        assert (Hg1 : GOODF w1 (f :: ex) f P).
        { apply (G P P); [auto|exact Hg|]. split; [|intro X; discriminate X]. intros _.
          unfold exists_b. cbn [d_source]. rewrite N. destruct E as (Fs & _). rewrite Fs, Hfs, Efs. reflexivity. }
        destruct J as (J1 & J2 & J3 & J4 & J5).
        destruct (IH (fun c' Hc' => Hsub c' (or_intror Hc')) w1 P) with (d2 := d2) (found := found) as (K & E2 & M).
        { destruct E as (Fs & _). congruence. }
        { destruct E as (_ & Us & _). congruence. }
        { exact J3. }
        { rewrite (extends_nm w w1 f E); [exact Hnm|]. destruct Hj as (_ & _ & _ & Hu). exact (proj1 (Hu f (or_introl eq_refl))). }
        { exact Hg1. }
        { exact H. }
        change (set_db w1 d2) with (set_db w d2) in *.
        split; [eapply jstep_trans; [split; [exact J1|split; [exact J2|split; [exact J3|split; [exact J4|exact J5]]]]|exact K]|].
        split; [eapply extends_trans; eauto|].
        destruct found as [[c' sc]|]; [|exact M].
        destruct M as (M1 & M2 & M3). split; [now right|]. split; [exact M2|exact M3].
  Qed.

  (* ---------------------------------------------------------------- a row outside [ex] becomes a settled leaf *)
  Lemma stamp_eqb_refl s : stamp_eqb s s = true.
  Proof. destruct s; cbn; [reflexivity|]. now rewrite !N.eqb_refl. Qed.

  Lemma set_static_facts w r :
    let r' := set_static R w r in
    r_name r' = r_name r /\ r_gen r' = false /\ r_ovr r' = false /\ r_failed r' = None /\ r_csum r' = None /\
    r_checked r' = r_checked r /\
    (exists s, r_stamp r' = Some s /\ stamp_eqb s (read_stamp w (r_name r)) = true) /\
    (r_changed r' = r_changed r /\ r_stamp r <> None \/ r_changed r' = Some R).
  Proof.
    cbv zeta. unfold set_static, update_stamp.
    destruct (ostamp_eqb (r_stamp r) (read_stamp w (r_name r))) eqn:E; cbn [upd_row set_changed r_name r_gen r_ovr r_failed r_csum r_checked r_stamp r_changed].
    - repeat split; auto.
      + unfold ostamp_eqb in E. destruct (r_stamp r) as [s|]; [exists s; auto|discriminate].
      + left. split; [reflexivity|]. unfold ostamp_eqb in E. destruct (r_stamp r); [discriminate|discriminate].
    - repeat split; auto. exists (read_stamp w (r_name r)). split; [reflexivity|apply stamp_eqb_refl].
  Qed.

  Lemma settle_leaf w ex g r' :
    JINV w ex -> valid w g -> ~ In g ex -> reserved (nm w g) = false ->
    r_name r' = nm w g -> r_gen r' = false -> r_ovr r' = false -> r_failed r' = None -> r_csum r' = None ->
    (forall c, r_checked r' = Some c -> (c <= R)%Z) ->
    (exists chg, r_changed r' = Some chg /\ (chg <= R)%Z) ->
    (exists s, r_stamp r' = Some s /\ stamp_eqb s (read_stamp w (nm w g)) = true) ->
    JINV (putw w g r') ex /\ (forall x, ok w ex x -> ok (putw w g r') ex x) /\ ok (putw w g r') ex g.
  Proof.
    intros (Hinv & Hx & Hc & Hu) Hv Hex Hres Hname Hgen Hov Hfl Hcs Hb1 (chg & Hch & Hle) (s0 & Hs & Hst).
    pose proof (putw_names w g r' Hname) as Hnm.
    assert (Ha : is_alw w g = false) by (apply not_reserved_not_alw; exact Hres).
    assert (Hvr : view_row R r' = r') by (apply view_not_always; rewrite Hname; exact Ha).
    assert (Hok : ok (putw w g r') ex g).
    { apply ok_intro.
      - apply valid_putw; assumption.
      - exact Hex.
      - rewrite is_alw_putw by exact Hname. exact Ha.
      - unfold rowbase. rewrite putw_ld_same by exact Hv. rewrite Hvr. split; [exact Hfl|]. split; [exists chg; auto|].
        exists s0. split; [exact Hs|]. rewrite Hname. exact Hst.
      - right. rewrite putw_ld_same by exact Hv. rewrite Hvr. unfold deps_of. rewrite Hov, Hgen. reflexivity.
      - rewrite putw_ld_same by exact Hv. rewrite Hvr. unfold deps_of. rewrite Hov, Hgen. cbn. intros d []. }
    split; [|split; [apply ok_put_all; auto|exact Hok]].
    split; [|split; [|split]].
    - apply INV_put; auto. intros c Hc'. rewrite Hch in Hc'. injection Hc' as <-. exact Hle.
    - intros x Hx'. apply (valid_putw w g r' x Hname) in Hx'.
      destruct (Nat.eq_dec x g) as [->|Hne].
      + unfold rowx. rewrite get_row_putw_same by exact Hv. rewrite is_alw_putw by exact Hname.
        rewrite (nm_names w _ g Hnm). rewrite putw_ld_same by exact Hv.
        split; [exact Hcs|]. split; [intros _; rewrite Hch; discriminate|]. split; [intros _; exact Hres|].
        split; [intros _ _; now left|]. intros _. split; [exact Hov|]. intro X. rewrite Hgen in X. discriminate.
      + apply rowx_same with (w := w); [reflexivity|exact Hnm| |apply Hx; exact Hx'].
        apply get_row_putw_other; assumption.
    - intros d Hin Hm. cbn [putw dbs set_db put_row deps] in Hin. rewrite (nm_names w _ _ Hnm). apply Hc; assumption.
    - intros x Hx'. destruct (Hu x Hx') as [A B]. split; [apply valid_putw; assumption|]. now rewrite (nm_names w _ x Hnm).
  Qed.

  (* ---------------------------------------------------------------- BuildJob::record_new_state, taken apart *)
  Definition final_row (wi : world) (t : name) (sfr : row) : row :=
    let sfr := upd_row sfr true false (r_checked sfr) (r_changed sfr) (r_failed sfr) (r_stamp sfr) (r_csum sfr) in
    if is_checked R sfr || is_changed R sfr
    then upd_row sfr (r_gen sfr) (r_ovr sfr) (r_checked sfr) (r_changed sfr) (r_failed sfr) (Some (read_stamp wi t)) (r_csum sfr)
    else set_changed R (update_stamp R wi (upd_row sfr (r_gen sfr) (r_ovr sfr) (r_checked sfr) (r_changed sfr)
                                                   (r_failed sfr) (r_stamp sfr) None)).

  Definition install (t : name) (stdout : option (list N)) (has_tmp : bool) (w : world) : world :=
    match stdout, has_tmp with
    | Some content, false =>
        rename_file (write_file (remove_file w (tmp_of t)) (tmp_of t) content None) (tmp_of t) t
    | _, true => rename_file w (tmp_of t) t
    | None, false => remove_file w t
    end.

  Lemma install_dbs t so ht w : dbs (install t so ht w) = dbs w.
  Proof. unfold install. destruct so, ht; rewrite ?dbs_rename_file, ?dbs_write_file, ?dbs_remove_file; reflexivity. Qed.
  Lemma updepth_rename w a b : updepth (rename_file w a b) = updepth w.
  Proof. unfold rename_file. destruct (fs_get (fs w) a); reflexivity. Qed.
  Lemma install_updepth t so ht w : updepth (install t so ht w) = updepth w.
  Proof. unfold install. destruct so, ht; rewrite ?updepth_rename; reflexivity. Qed.
  Lemma install_other t so ht w m : m <> t -> m <> tmp_of t -> fs_get (fs (install t so ht w)) m = fs_get (fs w) m.
  Proof.
    intros H1 H2. unfold install. destruct so, ht;
      rewrite ?get_rename_other by assumption; rewrite ?get_write_other by congruence;
      rewrite ?get_remove_other by congruence; reflexivity.
  Qed.

  Lemma record_success t f sf before rc stdout has_tmp w :
    snd (record_new_state R t f sf before rc stdout has_tmp w) = 0%Z ->
    fst (record_new_state R t f sf before rc stdout has_tmp w)
    = putw (set_db (install t stdout has_tmp w) (zap_deps2 (dbs w) f)) f
           (final_row (install t stdout has_tmp w) t (load R (dbs w) f)).
  Proof.
    unfold record_new_state.
    match goal with
    | |- context [if Z.eqb ?rv 0 then _ else _] => destruct (Z.eqb rv 0) eqn:Erv
    end.
    2:{ cbn [snd]. intro X. rewrite X in Erv. discriminate. }
    intros _. fold (install t stdout has_tmp w). set (wi := install t stdout has_tmp w).
    assert (Hdb : dbs wi = dbs w) by apply install_dbs.
    unfold final_row. cbv zeta. rewrite <- Hdb.
    match goal with |- context [if ?b then _ else _] => destruct b end; cbn [fst]; unfold putw; cbn [dbs set_db]; reflexivity.
  Qed.

  Lemma record_failure t f sf before rc stdout has_tmp w :
    snd (record_new_state R t f sf before rc stdout has_tmp w) <> 0%Z ->
    fst (record_new_state R t f sf before rc stdout has_tmp w)
    = putw (set_db (remove_file w (tmp_of t)) (zap_deps2 (dbs w) f)) f (set_failed R (remove_file w (tmp_of t)) sf).
  Proof.
    unfold record_new_state.
    match goal with
    | |- context [if Z.eqb ?rv 0 then _ else _] => destruct (Z.eqb rv 0) eqn:Erv
    end.
    { match goal with |- snd (let '(_, _) := ?X in _) <> _ -> _ => destruct X end. cbn [snd].
      apply Z.eqb_eq in Erv. intro X. contradiction. }
    intros _. cbn [fst]. reflexivity.
  Qed.

  Definition noov_at (w : world) (f : fid) : Prop :=
    r_ovr (get_row (dbs w) f) = false /\
    (r_gen (get_row (dbs w) f) = true -> exists s, r_stamp (get_row (dbs w) f) = Some s /\
       (stamp_eqb s (read_stamp w (nm w f)) = true \/ read_stamp w (nm w f) = SMissing)).

  Lemma update_stamp_facts w r :
    let r' := update_stamp R w r in
    r_name r' = r_name r /\ r_gen r' = r_gen r /\ r_checked r' = r_checked r /\ r_csum r' = r_csum r /\
    (exists s, r_stamp r' = Some s /\ stamp_eqb s (read_stamp w (r_name r)) = true) /\
    (r' = r /\ r_stamp r <> None \/ (r_changed r' = Some R /\ r_ovr r' = false /\ r_failed r' = None)).
  Proof.
    cbv zeta. unfold update_stamp.
    destruct (ostamp_eqb (r_stamp r) (read_stamp w (r_name r))) eqn:E.
    - repeat split; auto.
      + unfold ostamp_eqb in E. destruct (r_stamp r) as [s|]; [exists s; auto|discriminate].
      + left. split; [reflexivity|]. unfold ostamp_eqb in E. destruct (r_stamp r); discriminate.
    - cbn [set_changed upd_row r_name r_gen r_checked r_csum r_stamp r_changed r_ovr r_failed]. repeat split; auto.
      exists (read_stamp w (r_name r)). split; [reflexivity|apply stamp_eqb_refl].
  Qed.

  (* the three steps of recording, each a step of the job on [f] *)
  Lemma record_steps ex f w wi r' :
    ~ In f ex -> JINV w (f :: ex) -> PROJ w -> watched (nm w f) = false ->
    dbs wi = dbs w -> updepth wi = updepth w ->
    (forall m, m <> nm w f -> m <> tmp_of (nm w f) -> fs_get (fs wi) m = fs_get (fs w) m) ->
    r_name r' = nm w f ->
    (forall c, r_checked r' = Some c -> (c <= R)%Z) -> (forall c, r_changed r' = Some c -> (c <= R)%Z) ->
    r_csum r' = None -> (r_stamp r' <> None -> r_changed r' <> None) ->
    (marked (view_row R r') = true -> r_failed r' = None \/ r_failed r' = Some R) ->
    let w' := putw (set_db wi (zap_deps2 (dbs w) f)) f r' in
    jstep (f :: ex) ex w w' /\ fs w' = fs wi /\ get_row (dbs w') f = r' /\ nm w' f = nm w f /\
    (forall d, In d (deps (dbs w')) -> d_target d = f -> In d (deps (dbs w)) /\ d_delete d = false).
  Proof.
    intros Hf Hj (Pw & _) Hwt Hdb Hup Hfs Hname Hb1 Hb2 Hcs Hsc Hmf. cbv zeta.
    set (t := nm w f) in *. assert (Hfin : In f (f :: ex)) by now left.
    pose proof Hj as (_ & _ & _ & Hu). destruct (Hu f Hfin) as [Vf _].
    (* files *)
    destruct (fs_step_JINV w wi (f :: ex) f Hj Hfin Hdb) as [J1 M1].
    { intros n Hn. unfold own_files in Hn. apply orb_false_iff in Hn as [N1 N2]. apply Hfs.
      - intro X. subst n. fold t in N1. rewrite bytes_eqb_refl in N1. discriminate.
      - intro X. subst n. fold t in N2. rewrite bytes_eqb_refl in N2. discriminate. }
    (* the flagged rows go *)
    destruct (zap2_JINV wi (f :: ex) f J1 Hfin) as (E2 & J2 & M2). rewrite Hdb in *.
    set (wz := set_db wi (zap_deps2 (dbs w) f)) in *.
    assert (Hnmz : forall x, nm wz x = nm w x) by (intro x; unfold nm, wz; cbn [dbs set_db zap_deps2 rows get_row]; reflexivity).
    assert (Vfz : valid wz f) by exact Vf.
    assert (Hnamez : r_name r' = nm wz f) by (rewrite Hnmz; exact Hname).
    destruct (putex_JINV wz (f :: ex) f r' J2 Hfin Hnamez Hb1 Hb2 Hcs Hsc Hmf) as [J3 M3].
    set (w' := putw wz f r') in *.
    assert (Hnm' : names (dbs w') = names (dbs w)).
    { unfold w'. rewrite putw_names by exact Hnamez. reflexivity. }
    split; [|split; [reflexivity|split; [apply get_row_putw_same; exact Vfz|split]]].
    - split; [exists []; rewrite Hnm'; now rewrite app_nil_r|].
      split.
      { split; [cbn [w' putw wz updepth set_db]; exact Hup|]. intros n Hn. cbn [w' putw wz fs set_db]. apply Hfs.
        - intro X. subst n. unfold t in Hn. congruence.
        - intro X. subst n. pose proof (Pw _ Hn) as Y. rewrite reserved_tmp_of in Y. discriminate. }
      split; [exact J3|]. split; [intros g Hg; apply M3, M2, M1; exact Hg|].
      intros x Hx. assert (Hne : x <> f) by (intro X; subst x; contradiction).
      destruct (Hu x (or_intror Hx)) as [Vx _]. split.
      + unfold w'. rewrite get_row_putw_other by assumption. reflexivity.
      + intros d Hd. cbn [w' putw wz dbs set_db put_row deps]. apply (deps_other_zap2 (deps (dbs w)) f d). congruence.
    - unfold nm. unfold w'. rewrite (get_row_putw_same wz f r' Vfz). exact Hname.
    - intros d Hin Ht. cbn [w' putw wz dbs set_db put_row deps zap_deps2] in Hin. apply filter_In in Hin as [Hin Hfl].
      split; [exact Hin|]. rewrite Ht, Nat.eqb_refl in Hfl. cbn [andb] in Hfl. now apply negb_true_iff in Hfl.
  Qed.

  Definition leave_ok (w : world) (ex : list fid) (f : fid) : Prop :=
    (marked (ldw w f) = true -> r_failed (ldw w f) = None -> ok w ex f) /\ noov_at w f.

  (* facts about the row of the job's target, as it stands while the script runs *)
  Definition own_row (w : world) (ex : list fid) (f : fid) : Prop :=
    marked (ldw w f) = false /\ r_ovr (ldw w f) = false.

  Lemma record_spec ex f w sf before rc stdout has_tmp :
    ~ In f ex -> JINV w (f :: ex) -> PROJ w -> watched (nm w f) = false -> reserved (nm w f) = false ->
    sf = ldw w f -> own_row w ex f ->
    (snd (record_new_state R (nm w f) f sf before rc stdout has_tmp w) = 0%Z -> GOODF w (f :: ex) f (fun _ => False)) ->
    let w' := fst (record_new_state R (nm w f) f sf before rc stdout has_tmp w) in
    let rv := snd (record_new_state R (nm w f) f sf before rc stdout has_tmp w) in
    jstep (f :: ex) ex w w' /\ leave_ok w' ex f /\ (rv = 0%Z -> ok w' ex f).
  Proof.
    intros Hf Hj Hp Hwt Hres Hsf [Hum Hov] Hg. cbv zeta. set (t := nm w f) in *.
    assert (Hfin : In f (f :: ex)) by now left.
    pose proof Hj as (((Hnd & He & Hb) & _) & Hx & Hc & Hu). destruct (Hu f Hfin) as [Vf _].
    assert (Ha : is_alw w f = false) by (apply not_reserved_not_alw; exact Hres).
    assert (Hld : ldw w f = get_row (dbs w) f) by (apply ld_not_alw; exact Ha).
    destruct (Hx f Vf) as (X1 & X2 & _ & _ & _). destruct (Hb f Vf) as [B1 B2].
    destruct (Z.eq_dec (snd (record_new_state R t f sf before rc stdout has_tmp w)) 0) as [E0|E0].
    - (* success *)
      specialize (Hg E0).
      rewrite (record_success t f sf before rc stdout has_tmp w E0).
      set (wi := install t stdout has_tmp w).
      set (fin := final_row wi t (load R (dbs w) f)).
      (* the final row *)
      assert (Hfin_facts : r_name fin = t /\ r_gen fin = true /\ r_ovr fin = false /\ r_failed fin = None /\
                           r_csum fin = None /\ r_changed fin = Some R /\ r_checked fin = r_checked (ldw w f) /\
                           exists s, r_stamp fin = Some s /\ stamp_eqb s (read_stamp wi t) = true).
      { unfold fin, final_row. cbv zeta.
        assert (Em : (is_checked R (upd_row (ldw w f) true false (r_checked (ldw w f)) (r_changed (ldw w f)) (r_failed (ldw w f)) (r_stamp (ldw w f)) (r_csum (ldw w f)))
                      || is_changed R (upd_row (ldw w f) true false (r_checked (ldw w f)) (r_changed (ldw w f)) (r_failed (ldw w f)) (r_stamp (ldw w f)) (r_csum (ldw w f)))) = false) by exact Hum.
        rewrite Em.
        match goal with |- context [update_stamp R wi ?s1] => destruct (update_stamp_facts wi s1) as (U1 & U2 & U3 & U4 & (s0 & U5 & U6) & _) end.
        cbn [set_changed upd_row r_name r_gen r_ovr r_failed r_csum r_changed r_checked r_stamp] in *.
        rewrite U1, U2, U3, U4. rewrite ld_name. fold t.
        repeat split; auto. exists s0. split; [exact U5|]. rewrite ld_name in U6. exact U6. }
      destruct Hfin_facts as (F1 & F2 & F3 & F4 & F5 & F6 & F7 & (s0 & F8 & F9)).
      destruct (record_steps ex f w wi fin Hf Hj Hp Hwt) as (J & Fs & Hrow & Hnm' & Hdeps); auto.
      { apply install_dbs. } { apply install_updepth. } { intros m H1 H2. apply install_other; assumption. }
      { intros c Hc'. rewrite F7, Hld in Hc'. apply B1. exact Hc'. }
      { intros c Hc'. rewrite F6 in Hc'. injection Hc' as <-. lia. }
      { intros _. rewrite F6. discriminate. }
      set (w' := putw (set_db wi (zap_deps2 (dbs w) f)) f fin) in *.
      assert (Ha' : is_alw w' f = false) by (unfold is_alw; rewrite Hnm'; exact Ha).
      assert (Hld' : ldw w' f = fin) by (rewrite (ld_not_alw R w' f Ha'); exact Hrow).
      pose proof J as (Jn & Jw & Jj & Jm & Jf).
      assert (Hokf : ok w' ex f).
      { apply ok_intro.
        - destruct Jj as (_ & _ & _ & Hu'). exact (proj1 (Hu' f Hfin)).
        - exact Hf.
        - exact Ha'.
        - unfold rowbase. rewrite Hld'. split; [exact F4|]. split; [exists R; split; [exact F6|lia]|].
          exists s0. split; [exact F8|]. rewrite F1. unfold read_stamp in *. rewrite Fs. exact F9.
        - left. rewrite Hld'. unfold marked, is_changed. rewrite F6, (OnceProofs.geb_self R Rpos). apply orb_true_r.
        - intros d Hin. destruct (in_deps_of _ _ _ _ Hin) as [Hin' Ht]. destruct (Hdeps d Hin' Ht) as [Hin0 Hfl].
          destruct (Hg d Hin0 Ht) as [X|[A B]]; [congruence|].
          pose proof (JINV_edges w (f :: ex) Hj d Hin0) as (_ & Vs & _ & _ & Cw).
          split.
          + intro Hm. unfold exists_b, nm. rewrite (NAMES_get_row w w' _ Jn) by (destruct Vs; lia).
            destruct Jw as [_ Jws]. rewrite Jws; [exact (A Hm)|exact (Cw Hm)].
          + intro Hm. destruct (B Hm) as [Y|[]]. apply (ok_ex_shrink w' ex f). apply Jm. exact Y. }
      split; [exact J|]. split; [|intros _; exact Hokf].
      split; [intros _ _; exact Hokf|]. unfold noov_at. rewrite Hrow, Hnm'. split; [exact F3|].
      intros _. exists s0. split; [exact F8|left]. unfold read_stamp in *. rewrite Fs. exact F9.
    - (* failure *)
      rewrite (record_failure t f sf before rc stdout has_tmp w E0).
      set (wi := remove_file w (tmp_of t)). set (fr := set_failed R wi sf).
      assert (Hfr : r_name fr = t /\ r_ovr fr = false /\ r_failed fr = Some R /\ r_csum fr = None /\
                    r_checked fr = r_checked (ldw w f) /\
                    (r_changed fr = r_changed (ldw w f) /\ r_stamp (ldw w f) <> None \/ r_changed fr = Some R) /\
                    (r_gen fr = true -> exists s, r_stamp fr = Some s /\ stamp_eqb s (read_stamp wi t) = true)).
      { unfold fr, set_failed. cbv zeta. destruct (update_stamp_facts wi sf) as (U1 & U2 & U3 & U4 & (s0 & U5 & U6) & U7).
        cbn [upd_row r_name r_ovr r_failed r_csum r_checked r_changed r_gen r_stamp].
        assert (Hsfn : r_name sf = t) by (rewrite Hsf; apply ld_name).
        split; [rewrite U1; exact Hsfn|]. split.
        { destruct U7 as [[E _]|(_ & O & _)]; [rewrite E, Hsf; exact Hov|exact O]. }
        split; [reflexivity|]. split; [rewrite U4, Hsf, Hld; exact X1|]. split; [rewrite U3, Hsf; reflexivity|]. split.
        { destruct U7 as [[E Hn]|(C & _ & _)]; [left; rewrite E, Hsf in *; auto|right; exact C]. }
        intros _. exists s0. split; [exact U5|]. rewrite Hsfn in U6. exact U6. }
      destruct Hfr as (G1 & G2 & G3 & G4 & G5 & G6 & G7).
      assert (S1 : dbs wi = dbs w) by reflexivity.
      assert (S2 : updepth wi = updepth w) by reflexivity.
      assert (S3 : forall m, m <> t -> m <> tmp_of t -> fs_get (fs wi) m = fs_get (fs w) m)
        by (intros m _ H2; unfold wi; apply get_remove_other; congruence).
      assert (S4 : forall c, r_checked fr = Some c -> (c <= R)%Z)
        by (intros c Hc'; rewrite G5, Hld in Hc'; apply B1; exact Hc').
      assert (S5 : forall c, r_changed fr = Some c -> (c <= R)%Z).
      { intros c Hc'. destruct G6 as [[G6 _]|G6]; rewrite G6 in Hc'; [rewrite Hld in Hc'; apply B2; exact Hc'|injection Hc' as <-; lia]. }
      assert (S6 : r_stamp fr <> None -> r_changed fr <> None).
      { intro Hs. destruct G6 as [[G6 Hn]|G6]; rewrite G6; [|discriminate].
        rewrite Hld. apply X2. rewrite <- Hld. exact Hn. }
      assert (S7 : marked (view_row R fr) = true -> r_failed fr = None \/ r_failed fr = Some R) by (intros _; right; exact G3).
      destruct (record_steps ex f w wi fr Hf Hj Hp Hwt S1 S2 S3 G1 S4 S5 G4 S6 S7) as (J & Fs & Hrow & Hnm' & Hdeps).
      set (w' := putw (set_db wi (zap_deps2 (dbs w) f)) f fr) in *.
      assert (Ha' : is_alw w' f = false) by (unfold is_alw; rewrite Hnm'; exact Ha).
      assert (Hld' : ldw w' f = fr) by (rewrite (ld_not_alw R w' f Ha'); exact Hrow).
      split; [exact J|]. split; [|intro X; contradiction].
      split; [intros _ Hfl; rewrite Hld', G3 in Hfl; discriminate|].
      unfold noov_at. rewrite Hrow, Hnm'. split; [exact G2|].
      intro Hgn. destruct (G7 Hgn) as (s0 & T1 & T2). exists s0. split; [exact T1|left].
      unfold read_stamp in *. rewrite Fs. exact T2.
  Qed.

  (* ---------------------------------------------------------------- a whole job, seen from outside *)
  Lemma job_wrap ex f w w' :
    JINV w ex -> valid w f -> watched (nm w f) = false -> ~ In f ex -> ~ ok w ex f ->
    jstep (f :: ex) ex w w' -> leave_ok w' ex f -> jstep ex ex w w'.
  Proof.
    intros Hj Hv Hwt Hf Hn (Jn & Jw & Jj & Jm & Jf) [L1 L2].
    split; [exact Jn|]. split; [exact Jw|]. split; [apply (JINV_leave w' ex f Jj L1 L2)|]. split; [|exact Jf].
    intros g Hg. apply (ok_ex_shrink w' ex f). apply Jm. apply ok_ex_grow; assumption.
  Qed.

  Lemma own_put ex f w r' :
    ~ In f ex -> JINV w (f :: ex) -> r_name r' = nm w f ->
    (forall c, r_checked r' = Some c -> (c <= R)%Z) -> (forall c, r_changed r' = Some c -> (c <= R)%Z) ->
    r_csum r' = None -> (r_stamp r' <> None -> r_changed r' <> None) ->
    (marked (view_row R r') = true -> r_failed r' = None \/ r_failed r' = Some R) ->
    jstep (f :: ex) ex w (putw w f r') /\ get_row (dbs (putw w f r')) f = r' /\ nm (putw w f r') f = nm w f.
  Proof.
    intros Hf Hj Hname Hb1 Hb2 Hcs Hsc Hmf. assert (Hfin : In f (f :: ex)) by now left.
    pose proof Hj as (_ & _ & _ & Hu). destruct (Hu f Hfin) as [Vf _].
    destruct (putex_JINV w (f :: ex) f r' Hj Hfin Hname Hb1 Hb2 Hcs Hsc Hmf) as [J M].
    pose proof (putw_names w f r' Hname) as Hnm.
    split; [|split; [apply get_row_putw_same; exact Vf|exact (nm_names w _ f Hnm)]].
    split; [exists []; rewrite Hnm; now rewrite app_nil_r|]. split; [split; [reflexivity|intros n _; reflexivity]|]. split; [exact J|]. split; [exact M|].
    intros x Hx. assert (Hne : x <> f) by (intro X; subst x; contradiction).
    destruct (Hu x (or_intror Hx)) as [Vx _]. split; [apply get_row_putw_other; assumption|]. intros d _. tauto.
  Qed.

  Lemma leaf_ok w ex f :
    valid w f -> ~ In f ex -> is_alw w f = false -> rowbase R w f ->
    (r_gen (ldw w f) = false \/ r_ovr (ldw w f) = true) -> ok w ex f.
  Proof.
    intros Hv Hex Ha Hb Hl.
    assert (Hd : deps_of (dbs w) (ldw w f) f = []).
    { unfold deps_of. destruct Hl as [E|E]; rewrite E; [rewrite orb_true_r|]; reflexivity. }
    apply ok_intro; auto. rewrite Hd. intros d [].
  Qed.

  (* the job ends at once: the file is there and is not ours (a source) *)
  Lemma static_exit ex f w :
    ~ In f ex -> JINV w (f :: ex) -> reserved (nm w f) = false ->
    let w' := putw w f (set_static R w (ldw w f)) in
    jstep (f :: ex) ex w w' /\ leave_ok w' ex f /\ ok w' ex f.
  Proof.
    intros Hf Hj Hres. cbv zeta. assert (Hfin : In f (f :: ex)) by now left.
    pose proof Hj as (((_ & _ & Hb) & _) & Hx & _ & Hu). destruct (Hu f Hfin) as [Vf _].
    assert (Ha : is_alw w f = false) by (apply not_reserved_not_alw; exact Hres).
    assert (Hld : ldw w f = get_row (dbs w) f) by (apply ld_not_alw; exact Ha).
    destruct (Hx f Vf) as (X1 & X2 & _). destruct (Hb f Vf) as [B1 B2].
    destruct (set_static_facts w (ldw w f)) as (S1 & S2 & S3 & S4 & S5 & S6 & (s0 & S7 & S8) & S9).
    set (r' := set_static R w (ldw w f)) in *.
    assert (Hname : r_name r' = nm w f) by (rewrite S1; apply ld_name).
    assert (Hch : exists chg, r_changed r' = Some chg /\ (chg <= R)%Z).
    { destruct S9 as [[E Hn]|E].
      - destruct (r_changed (ldw w f)) as [c|] eqn:Ec.
        + exists c. split; [exact E|]. apply B2. rewrite <- Hld. exact Ec.
        + exfalso. rewrite Hld in Hn, Ec. exact (X2 Hn Ec).
      - exists R. split; [exact E|lia]. }
    destruct Hch as (chg & Hc & Hle).
    destruct (own_put ex f w r' Hf Hj Hname) as (J & Hrow & Hnm'); auto.
    { intros c Hc'. rewrite S6, Hld in Hc'. apply B1. exact Hc'. }
    { intros c Hc'. rewrite Hc in Hc'. injection Hc' as <-. exact Hle. }
    { intros _. rewrite Hc. discriminate. }
    set (w' := putw w f r') in *.
    assert (Ha' : is_alw w' f = false) by (unfold is_alw; rewrite Hnm'; exact Ha).
    assert (Hld' : ldw w' f = r') by (rewrite (ld_not_alw R w' f Ha'); exact Hrow).
    assert (Hok : ok w' ex f).
    { apply leaf_ok; auto.
      - destruct J as (_ & _ & (_ & _ & _ & Hu') & _). exact (proj1 (Hu' f Hfin)).
      - unfold rowbase. rewrite Hld'. split; [exact S4|]. split; [exists chg; auto|]. exists s0. split; [exact S7|].
        rewrite Hname. rewrite ld_name in S8. exact S8.
      - left. rewrite Hld'. exact S2. }
    split; [exact J|]. split; [|exact Hok]. split; [intros _ _; exact Hok|].
    unfold noov_at. rewrite Hrow. split; [exact S3|]. intro X. rewrite S2 in X. discriminate.
  Qed.

  Lemma set_failed_facts w r :
    r_ovr r = false ->
    let r' := set_failed R w r in
    r_name r' = r_name r /\ r_ovr r' = false /\ r_failed r' = Some R /\ r_csum r' = r_csum r /\
    r_checked r' = r_checked r /\
    (r_changed r' = r_changed r /\ r_stamp r <> None \/ r_changed r' = Some R) /\
    (r_gen r' = true -> exists s, r_stamp r' = Some s /\ stamp_eqb s (read_stamp w (r_name r)) = true).
  Proof.
    intro Hov. cbv zeta. unfold set_failed. cbv zeta.
    destruct (update_stamp_facts w r) as (U1 & U2 & U3 & U4 & (s0 & U5 & U6) & U7).
    cbn [upd_row r_name r_ovr r_failed r_csum r_checked r_changed r_gen r_stamp].
    split; [exact U1|]. split.
    { destruct U7 as [[E _]|(_ & O & _)]; [rewrite E; exact Hov|exact O]. }
    split; [reflexivity|]. split; [exact U4|]. split; [exact U3|]. split.
    { destruct U7 as [[E Hn]|(C & _ & _)]; [left; rewrite E; auto|right; exact C]. }
    intros _. exists s0. auto.
  Qed.

  (* the job ends at once: no rule, and no file either *)
  Lemma failed_exit ex f w :
    ~ In f ex -> JINV w (f :: ex) -> reserved (nm w f) = false -> r_ovr (ldw w f) = false ->
    let w' := putw w f (set_failed R w (ldw w f)) in
    jstep (f :: ex) ex w w' /\ leave_ok w' ex f.
  Proof.
    intros Hf Hj Hres Hov. cbv zeta. assert (Hfin : In f (f :: ex)) by now left.
    pose proof Hj as (((_ & _ & Hb) & _) & Hx & _ & Hu). destruct (Hu f Hfin) as [Vf _].
    assert (Ha : is_alw w f = false) by (apply not_reserved_not_alw; exact Hres).
    assert (Hld : ldw w f = get_row (dbs w) f) by (apply ld_not_alw; exact Ha).
    destruct (Hx f Vf) as (X1 & X2 & _). destruct (Hb f Vf) as [B1 B2].
    destruct (set_failed_facts w (ldw w f) Hov) as (G1 & G2 & G3 & G4 & G5 & G6 & G7).
    set (fr := set_failed R w (ldw w f)) in *.
    assert (Hname : r_name fr = nm w f) by (rewrite G1; apply ld_name).
    assert (S4 : forall c, r_checked fr = Some c -> (c <= R)%Z) by (intros c Hc'; rewrite G5, Hld in Hc'; apply B1; exact Hc').
    assert (S5 : forall c, r_changed fr = Some c -> (c <= R)%Z).
    { intros c Hc'. destruct G6 as [[G6 _]|G6]; rewrite G6 in Hc'; [rewrite Hld in Hc'; apply B2; exact Hc'|injection Hc' as <-; lia]. }
    assert (S6 : r_stamp fr <> None -> r_changed fr <> None).
    { intro Hs. destruct G6 as [[G6 Hn]|G6]; rewrite G6; [|discriminate]. rewrite Hld. apply X2. rewrite <- Hld. exact Hn. }
    assert (S7 : marked (view_row R fr) = true -> r_failed fr = None \/ r_failed fr = Some R) by (intros _; right; exact G3).
    assert (S8 : r_csum fr = None) by (rewrite G4, Hld; exact X1).
    destruct (own_put ex f w fr Hf Hj Hname S4 S5 S8 S6 S7) as (J & Hrow & Hnm').
    set (w' := putw w f fr) in *.
    assert (Ha' : is_alw w' f = false) by (unfold is_alw; rewrite Hnm'; exact Ha).
    assert (Hld' : ldw w' f = fr) by (rewrite (ld_not_alw R w' f Ha'); exact Hrow).
    split; [exact J|]. split; [intros _ Hfl; rewrite Hld', G3 in Hfl; discriminate|].
    unfold noov_at. rewrite Hrow, Hnm'. split; [exact G2|].
    intro Hgn. destruct (G7 Hgn) as (s0 & T1 & T2). exists s0. split; [exact T1|left]. rewrite ld_name in T2. exact T2.
  Qed.

  (* the job touches its own files (the target, $3) *)
  Lemma own_fs_step ex f w w1 :
    JINV w (f :: ex) -> PROJ w -> watched (nm w f) = false ->
    dbs w1 = dbs w -> updepth w1 = updepth w ->
    (forall m, m <> nm w f -> m <> tmp_of (nm w f) -> fs_get (fs w1) m = fs_get (fs w) m) ->
    jstep (f :: ex) (f :: ex) w w1.
  Proof.
    intros Hj (Pw & _) Hwt Hdb Hup Hfs. assert (Hfin : In f (f :: ex)) by now left.
    destruct (fs_step_JINV w w1 (f :: ex) f Hj Hfin Hdb) as [J M].
    { intros n Hn. unfold own_files in Hn. apply orb_false_iff in Hn as [N1 N2]. apply Hfs.
      - intro X. subst n. rewrite bytes_eqb_refl in N1. discriminate.
      - intro X. subst n. rewrite bytes_eqb_refl in N2. discriminate. }
    split; [exists []; unfold names; rewrite Hdb; now rewrite app_nil_r|]. split.
    { split; [exact Hup|]. intros n Hn. apply Hfs.
      - intro X. subst n. congruence.
      - intro X. subst n. pose proof (Pw _ Hn) as Y. rewrite reserved_tmp_of in Y. discriminate. }
    split; [exact J|]. split; [exact M|]. intros x _. split; [now rewrite Hdb|]. intros d _. now rewrite Hdb.
  Qed.

  (* ================================================================ commands, by induction on the nesting depth *)
  Definition tgt_ok (w : world) (ex : list fid) (t : name) : Prop :=
    watched t = false /\ reserved t = false /\ forall x, In x ex -> (rk t < rkf rk w x)%nat.

  Definition nested (e : env) (exl : list fid) (ts : list name) (w : world) (me : name) (mf : fid) (ex : list fid) : Prop :=
    e_target e = Some me /\ e_unlocked e = false /\ e_no_oob e = false /\ exl = mf :: ex /\ ~ In mf ex /\
    find_row (rows (dbs w)) me 1 = Some mf /\ (forall t, In t ts -> (rk t < rk me)%nat).

  Definition front_post (e : env) (exl : list fid) (ts : list name) (w wa : world) : Prop :=
    match e_target e with
    | None => wa = w
    | Some me => forall mf ex, exl = mf :: ex ->
        jstep exl ex w wa /\ extends w wa /\
        forall P : fid -> Prop, GOODF w exl mf P ->
          GOODF wa exl mf (fun x => P x \/ exists t, In t ts /\ find_row (rows (dbs wa)) t 1 = Some x)
    end.

  Definition build_post (e : env) (exl : list fid) (ts : list name) (w w' : world) (rc : Z) : Prop :=
    exists wa, front_post e exl ts w wa /\ jstep exl exl wa w' /\
      (rc = 0%Z -> forall t, In t ts -> exists g, find_row (rows (dbs w')) t 1 = Some g /\ ok w' exl g).

  Definition build_pre (e : env) (exl : list fid) (ts : list name) (w : world) : Prop :=
    e_runid e = R /\ JINV w exl /\ PROJ w /\ (forall t, In t ts -> tgt_ok w exl t) /\
    (e_target e = None \/ exists me mf ex, nested e exl ts w me mf ex).

  Definition rec_spec (rec : rec_t) : Prop :=
    forall e exl ts w w' evs rc,
      build_pre e exl ts w -> rec e MIfChange ts w = Ret (w', evs, rc) -> build_post e exl ts w w' rc.

  Lemma status_of_zero before after rc so ht : status_of before after rc so ht = 0%Z -> rc = 0%Z.
  Proof.
    unfold status_of. destruct (modified_b before after); [discriminate|].
    destruct (ht && match so with Some _ => true | None => false end); [discriminate|auto].
  Qed.

  Lemma script_body_plain rec envc t sc w w' evs rc out :
    plain sc -> script_body rec envc t sc w = Ret (w', evs, rc, out) ->
    exists rc_deps w1,
      match s_deps sc with
      | [] => w1 = w /\ rc_deps = 0%Z
      | _ :: _ => exists e1, rec envc MIfChange (s_deps sc) w = Ret (w1, e1, rc_deps)
      end /\
      (rc_deps <> 0%Z -> rc <> 0%Z /\ w' = w1) /\
      (rc_deps = 0%Z -> w' = fst (ifcreate_cmd t (s_ifcreate sc) w1) /\
                        (snd (ifcreate_cmd t (s_ifcreate sc) w1) <> 0%Z -> rc <> 0%Z)).
  Proof.
    intros (Ht & Ha & Hs & _) H. unfold script_body in H. rewrite Ht, Ha, Hs in H.
    assert (Htail : forall w1 e1, (let '(w2, rci) := ifcreate_cmd t (s_ifcreate sc) w1 in
                      if negb (Z.eqb rci 0) then Ret (w2, e1, rci, None)
                      else match (if s_cat sc then concat_data w2 (s_deps sc) else Some []) with
                           | None => Ret (w2, e1, 1%Z, None)
                           | Some body => Ret (w2, e1, s_exit sc, Some (s_payload sc :: body))
                           end) = Ret (w', evs, rc, out) ->
                     w' = fst (ifcreate_cmd t (s_ifcreate sc) w1) /\
                     (snd (ifcreate_cmd t (s_ifcreate sc) w1) <> 0%Z -> rc <> 0%Z)).
    { intros w1 e1 X. destruct (ifcreate_cmd t (s_ifcreate sc) w1) as [w2 rci]. cbn [fst snd].
      destruct (Z.eqb rci 0) eqn:E0; cbn [negb] in X.
      - apply Z.eqb_eq in E0. split; [|intro Y; contradiction].
        destruct (if s_cat sc then concat_data w2 (s_deps sc) else Some []); injection X as <- _ _ _; reflexivity.
      - injection X as <- _ <- _. split; [reflexivity|]. intros _. apply Z.eqb_neq. exact E0. }
    destruct (s_deps sc) as [|d0 ds] eqn:Ed.
    - cbn [Z.eqb negb andb] in H. exists 0%Z, w. split; [auto|]. split; [intro X; contradiction|]. intros _.
      rewrite <- Ed in H. apply (Htail w []). rewrite Ed in *. exact H.
    - destruct (rec envc MIfChange (d0 :: ds) w) as [[[w1 e1] rc1]|] eqn:E; [|discriminate].
      exists rc1, w1. split; [exists e1; reflexivity|]. rewrite andb_true_r in H.
      destruct (Z.eqb rc1 0) eqn:E0; cbn [negb] in H.
      + apply Z.eqb_eq in E0. subst rc1. split; [intro X; contradiction|]. intros _. rewrite <- Ed in H. apply (Htail w1 e1).
        rewrite Ed in *. exact H.
      + injection H as <- _ <- _. split; [|intro X; apply Z.eqb_neq in E0; contradiction].
        intros _. split; [apply Z.eqb_neq; exact E0|reflexivity].
  Qed.

  Lemma jstep_row ex fr w w' f : In f fr -> jstep ex fr w w' -> get_row (dbs w') f = get_row (dbs w) f.
  Proof. intros Hf (_ & _ & _ & _ & H). exact (proj1 (H f Hf)). Qed.

  Lemma jstep_nm ex fr w w' g : jstep ex fr w w' -> valid w g -> nm w' g = nm w g.
  Proof. intros (Hn & _) [A B]. unfold nm. apply NAMES_get_row; [exact Hn|lia]. Qed.

  Lemma tgt_ok_jstep ex fr w w' t : JINV w ex -> jstep ex fr w w' -> tgt_ok w ex t -> tgt_ok w' ex t.
  Proof.
    intros (_ & _ & _ & Hu) J (A & B & C). split; [exact A|]. split; [exact B|].
    intros x Hx. unfold rkf. rewrite (jstep_nm ex fr w w' x J (proj1 (Hu x Hx))). apply C. exact Hx.
  Qed.

  Lemma emit_output_fs t m out w :
    let w1 := fst (fst (emit_output t m out w)) in
    dbs w1 = dbs w /\ updepth w1 = updepth w /\
    forall n, n <> t -> n <> tmp_of t -> fs_get (fs w1) n = fs_get (fs w) n.
  Proof.
    cbv zeta. unfold emit_output. destruct out as [c|]; [|cbn; auto].
    destruct m; cbn [fst]; rewrite ?dbs_write_file; (split; [reflexivity|split; [reflexivity|]]);
      intros n H1 H2; rewrite ?get_write_other by congruence; reflexivity.
  Qed.

  (* the .do file's row is marked as a source (set_static) *)
  Lemma dorow_step ex f w s :
    JINV w (f :: ex) -> PROJ w -> valid w s -> watched (nm w s) = true ->
    let w2 := putw w s (set_static R w (ldw w s)) in
    jstep (f :: ex) (f :: ex) w w2 /\ ok w2 (f :: ex) s /\ fs w2 = fs w /\ deps (dbs w2) = deps (dbs w) /\
    names (dbs w2) = names (dbs w).
  Proof.
    intros Hj (Pw & _) Vs Ws. cbv zeta.
    pose proof Hj as (((_ & _ & Hb) & _) & Hx & _ & Hu).
    assert (Hres : reserved (nm w s) = false) by (apply Pw; exact Ws).
    assert (Ha : is_alw w s = false) by (apply not_reserved_not_alw; exact Hres).
    assert (Hld : ldw w s = get_row (dbs w) s) by (apply ld_not_alw; exact Ha).
    assert (Hex : ~ In s (f :: ex)) by (intro X; destruct (Hu s X) as [_ Y]; congruence).
    destruct (Hx s Vs) as (X1 & X2 & _). destruct (Hb s Vs) as [B1 B2].
    destruct (set_static_facts w (ldw w s)) as (S1 & S2 & S3 & S4 & S5 & S6 & (s0 & S7 & S8) & S9).
    set (r' := set_static R w (ldw w s)) in *.
    assert (Hname : r_name r' = nm w s) by (rewrite S1; apply ld_name).
    assert (Hch : exists chg, r_changed r' = Some chg /\ (chg <= R)%Z).
    { destruct S9 as [[E Hn]|E].
      - destruct (r_changed (ldw w s)) as [c|] eqn:Ec.
        + exists c. split; [exact E|]. apply B2. rewrite <- Hld. exact Ec.
        + exfalso. rewrite Hld in Hn, Ec. exact (X2 Hn Ec).
      - exists R. split; [exact E|lia]. }
    destruct (settle_leaf w (f :: ex) s r' Hj Vs Hex Hres Hname S2 S3 S4 S5) as (J & M & Hok).
    { intros c Hc'. rewrite S6, Hld in Hc'. apply B1. exact Hc'. }
    { exact Hch. }
    { exists s0. split; [exact S7|]. rewrite ld_name in S8. exact S8. }
    pose proof (putw_names w s r' Hname) as Hnm.
    split; [|split; [exact Hok|split; [reflexivity|split; [reflexivity|exact Hnm]]]].
    split; [exists []; rewrite Hnm; now rewrite app_nil_r|]. split; [split; [reflexivity|intros n _; reflexivity]|].
    split; [exact J|]. split; [exact M|].
    intros x Hx'. assert (Hne : x <> s) by (intro X; subst x; contradiction).
    destruct (Hu x Hx') as [Vx _]. split; [apply get_row_putw_other; assumption|]. intros d _. tauto.
  Qed.

  Lemma from_name_found d t f : find_row (rows d) t 1 = Some f -> from_name d t = (d, f).
  Proof. intro H. unfold from_name. now rewrite H. Qed.

  (* redo-ifcreate n1 n2 ...: one redo-ifcreate edge per name, all of them absent *)
  Lemma ifc_fold ex f t : ~ In f ex ->
    forall ns w, JINV w (f :: ex) -> nm w f = t -> find_row (rows (dbs w)) t 1 = Some f ->
      (forall n, In n ns -> watched n = true /\ reserved n = false /\ exists_b w n = false) ->
      let wa := set_db w (fold_left (fun d n => let '(d1, s) := from_name d n in
                                                let '(d2, me) := from_name d1 t in add_dep d2 me DCreated s) ns (dbs w)) in
      jstep (f :: ex) ex w wa /\ extends w wa /\
      forall P : fid -> Prop, GOODF w (f :: ex) f P -> GOODF wa (f :: ex) f P.
  Proof.
    intros Hf. induction ns as [|n ns IH]; intros w Hj Hnm Hfr Hns; cbv zeta; cbn [fold_left].
    - rewrite set_db_same. split; [apply jstep_refl; exact Hj|]. split; [apply extends_refl|auto].
    - destruct (Hns n (or_introl eq_refl)) as (Nw & Nr & Ne).
      destruct (from_name (dbs w) n) as [d1 s] eqn:Efn.
      assert (Hfr1 : find_row (rows d1) t 1 = Some f).
      { destruct (from_name_spec _ _ _ _ Efn) as (_ & X & _). destruct X as (l & Hl & _).
        rewrite Hl. now apply find_row_app_some. }
      rewrite (from_name_found d1 t f Hfr1).
      assert (Hrk1 : DCreated = DModified -> (rk n < rkf rk w f)%nat) by (intro X; discriminate X).
      assert (Hwt1 : DCreated = DCreated -> watched n = true) by (intros _; exact Nw).
      destruct (add_edge_step ex f w n DCreated d1 s Hj Hf Nr Hrk1 Hwt1 Efn) as (J & E & V & N & F & G).
      set (w1 := set_db w (add_dep d1 f DCreated s)) in *.
      pose proof J as (_ & _ & J1 & _).
      assert (Vf : valid w f) by (destruct Hj as (_ & _ & _ & Hu); exact (proj1 (Hu f (or_introl eq_refl)))).
      assert (Hnm1 : nm w1 f = t) by (rewrite (extends_nm w w1 f E Vf); exact Hnm).
      assert (Hfr1' : find_row (rows (dbs w1)) t 1 = Some f) by exact Hfr1.
      assert (Hns1 : forall n', In n' ns -> watched n' = true /\ reserved n' = false /\ exists_b w1 n' = false).
      { intros n' Hn'. destruct (Hns n' (or_intror Hn')) as (A & B & C). split; [exact A|]. split; [exact B|exact C]. }
      specialize (IH w1 J1 Hnm1 Hfr1' Hns1). cbv zeta in IH.
      change (dbs w1) with (add_dep d1 f DCreated s) in IH.
      change (set_db w1 ?X) with (set_db w X) in IH.
      set (wa := set_db w (fold_left _ ns (add_dep d1 f DCreated s))) in *.
      destruct IH as (Ja & Ea & Ga).
      split; [eapply jstep_trans; eauto|]. split; [eapply extends_trans; eauto|].
      intros P Hg. apply Ga. apply (G P P); [auto|exact Hg|].
      split; [|intro X; discriminate X]. intros _. cbn [d_source]. rewrite N. unfold exists_b in *.
      destruct E as (Fs & _). rewrite Fs. exact Ne.
  Qed.

  Lemma ifcreate_step ex f t w ns :
    ~ In f ex -> JINV w (f :: ex) -> nm w f = t -> find_row (rows (dbs w)) t 1 = Some f ->
    (forall n, In n ns -> watched n = true /\ reserved n = false) ->
    jstep (f :: ex) ex w (fst (ifcreate_cmd t ns w)) /\
    get_row (dbs (fst (ifcreate_cmd t ns w))) f = get_row (dbs w) f /\
    forall P : fid -> Prop, GOODF w (f :: ex) f P -> snd (ifcreate_cmd t ns w) = 0%Z ->
      GOODF (fst (ifcreate_cmd t ns w)) (f :: ex) f P.
  Proof.
    intros Hf Hj Hnm Hfr Hns. unfold ifcreate_cmd.
    destruct ns as [|n0 ns0]; [cbn [fst snd]; split; [apply jstep_refl; exact Hj|split; [reflexivity|auto]]|].
    destruct (existsb (exists_b w) (n0 :: ns0)) eqn:Ex; cbn [fst snd].
    - split; [apply jstep_refl; exact Hj|]. split; [reflexivity|]. intros P _ X. discriminate X.
    - destruct (ifc_fold ex f t Hf (n0 :: ns0) w Hj Hnm Hfr) as (J & E & G).
      { intros n Hn. destruct (Hns n Hn) as [A B]. split; [exact A|]. split; [exact B|].
        destruct (exists_b w n) eqn:En; [|reflexivity]. exfalso.
        assert (existsb (exists_b w) (n0 :: ns0) = true) by (apply existsb_exists; exists n; auto). congruence. }
      split; [exact J|]. split; [|intros P Hg _; apply G; exact Hg].
      destruct E as (_ & _ & _ & Hr). apply Hr. destruct Hj as (_ & _ & _ & Hu). exact (proj1 (Hu f (or_introl eq_refl))).
  Qed.

  (* the script: its redo-ifchange, then its redo-ifcreate; nothing else touches the state *)
  Lemma script_step rec envc ex f t sc w w3 evs rc out :
    rec_spec rec ->
    e_runid envc = R -> e_target envc = Some t -> e_unlocked envc = false -> e_no_oob envc = false ->
    ~ In f ex -> JINV w (f :: ex) -> PROJ w -> tgt_ok w ex t -> nm w f = t ->
    find_row (rows (dbs w)) t 1 = Some f ->
    plain sc -> (forall d, In d (s_deps sc) -> watched d = false /\ reserved d = false /\ (rk d < rk t)%nat) ->
    GOODF w (f :: ex) f (fun _ => False) ->
    script_body rec envc t sc w = Ret (w3, evs, rc, out) ->
    jstep (f :: ex) ex w w3 /\ get_row (dbs w3) f = get_row (dbs w) f /\
    (rc = 0%Z -> GOODF w3 (f :: ex) f (fun _ => False)).
  Proof.
    intros Hrec E1 E2 E3 E4 Hf Hj Hp (Tw & Tr & Tk) Hnm Hfr Hpl Hds Hg H.
    destruct (script_body_plain rec envc t sc w w3 evs rc out Hpl H) as (rcd & w1 & Hm & Hbad & Hgood).
    assert (Hfin : In f (f :: ex)) by now left.
    pose proof Hj as (_ & _ & _ & Hu). destruct (Hu f Hfin) as [Vf _].
    (* the nested command *)
    assert (Hdeps : jstep (f :: ex) ex w w1 /\ get_row (dbs w1) f = get_row (dbs w) f /\
                    (rcd = 0%Z -> GOODF w1 (f :: ex) f (fun _ => False))).
    { destruct (s_deps sc) as [|d0 ds] eqn:Ed.
      - destruct Hm as [-> _]. split; [apply jstep_refl; exact Hj|]. split; [reflexivity|intros _; exact Hg].
      - destruct Hm as (e1 & Hm). rewrite <- Ed in Hm, Hds.
        assert (Hpre : build_pre envc (f :: ex) (s_deps sc) w).
        { split; [exact E1|]. split; [exact Hj|]. split; [exact Hp|]. split.
          - intros d Hd. destruct (Hds d Hd) as (A & B & C). split; [exact A|]. split; [exact B|].
            intros x [<-|Hx]; [unfold rkf; rewrite Hnm; exact C|]. specialize (Tk x Hx). lia.
          - right. exists t, f, ex. split; [exact E2|]. split; [exact E3|]. split; [exact E4|]. split; [reflexivity|].
            split; [exact Hf|]. split; [exact Hfr|]. intros d Hd. exact (proj2 (proj2 (Hds d Hd))). }
        destruct (Hrec envc (f :: ex) (s_deps sc) w w1 e1 rcd Hpre Hm) as (wa & Hfront & Jrun & Hok).
        unfold front_post in Hfront. rewrite E2 in Hfront. destruct (Hfront f ex eq_refl) as (Jf & Ext & Hgf).
        pose proof Jf as (_ & _ & Ja & _).
        split; [eapply jstep_trans; [exact Jf|]; eapply jstep_weaken; [|exact Jrun]; intros x Hx; now right|].
        split.
        { rewrite (jstep_row (f :: ex) (f :: ex) wa w1 f Hfin Jrun). destruct Ext as (_ & _ & _ & Hr). apply Hr. exact Vf. }
        intro Hrcd. specialize (Hok Hrcd). specialize (Hgf _ Hg).
        pose proof (GOODF_jstep wa w1 (f :: ex) (f :: ex) f _ Hfin Ja Jrun Hgf) as Hg3.
        eapply GOODF_weaken; [|exact Hg3]. intros x [[]|(d & Hd & Hfx)].
        left. destruct (Hok d Hd) as (g & Hfg & Hokg).
        destruct Jrun as (Jn & _). pose proof (NAMES_find wa w1 d x Jn Hfx) as Hfx3. rewrite Hfx3 in Hfg. injection Hfg as <-. exact Hokg. }
    destruct Hdeps as (J1 & Hrow1 & Hg1).
    destruct (Z.eq_dec rcd 0) as [E0|E0].
    - (* redo-ifcreate *)
      destruct (Hgood E0) as [Hw3 Hrci]. pose proof J1 as (Jn1 & _ & Jj1 & _).
      assert (Vf1 : valid w1 f) by (destruct Jj1 as (_ & _ & _ & Hu1); exact (proj1 (Hu1 f Hfin))).
      assert (Hnm1 : nm w1 f = t) by (rewrite (jstep_nm _ _ w w1 f J1 Vf); exact Hnm).
      assert (Hfr1 : find_row (rows (dbs w1)) t 1 = Some f) by (eapply NAMES_find; eauto).
      destruct Hpl as (_ & _ & _ & Hic).
      destruct (ifcreate_step ex f t w1 (s_ifcreate sc) Hf Jj1 Hnm1 Hfr1 Hic) as (J2 & Hrow2 & Hg2).
      rewrite <- Hw3 in J2, Hrow2, Hg2.
      split; [eapply jstep_trans; eauto|]. split; [congruence|].
      intro Hrc0. apply Hg2; [apply Hg1; exact E0|].
      destruct (Z.eq_dec (snd (ifcreate_cmd t (s_ifcreate sc) w1)) 0) as [X|X]; [exact X|exfalso; exact (Hrci X Hrc0)].
    - destruct (Hbad E0) as [Hrc ->]. split; [exact J1|]. split; [exact Hrow1|]. intro X. contradiction.
  Qed.

  (* BuildJob::start_self from the point where the .do file is known *)
  Lemma ss_run_spec rec e ex t f before sf evs0 df sc s w w' evs rv ab :
    rec_spec rec -> e_runid e = R ->
    ~ In f ex -> JINV w (f :: ex) -> PROJ w -> tgt_ok w ex t -> nm w f = t ->
    find_row (rows (dbs w)) t 1 = Some f ->
    sf = ldw w f -> own_row w ex f ->
    In df (do_candidates (updepth w) t) ->
    (exists fl, fs_get (fs w) (cand_key (updepth w) df) = Some fl /\ sc = script_of fl) ->
    find_row (rows (dbs w)) (cand_key (updepth w) df) 1 = Some s ->
    GOODF w (f :: ex) f (fun x => False \/ x = s) ->
    ss_run rec e t f before sf evs0 df sc w = Ret (w', evs, rv, ab) ->
    jstep (f :: ex) ex w w' /\ leave_ok w' ex f /\ (rv = 0%Z -> ok w' ex f).
  Proof.
    intros Hrec HR Hf Hj Hp Ht Hnm Hfr Hsf [Hum Hov] Hdf (fl & Hfl & Hsc) Hfs Hg H.
    pose proof Ht as (Tw & Tr & Tk). pose proof Hp as (Pw & P2 & P3).
    assert (Hfin : In f (f :: ex)) by now left.
    pose proof Hj as (_ & _ & _ & Hu). destruct (Hu f Hfin) as [Vf _].
    destruct (P2 t df Tw Tr Hdf) as (Kw & Kr & Kk).
    destruct (P3 t df fl Tw Tr Hdf Hfl) as [Hplain Hdeps]. rewrite <- Hsc in Hplain, Hdeps.
    unfold ss_run in H. rewrite HR in H. cbv zeta in H.
    (* $3 is unlinked *)
    set (w1 := remove_file w (tmp_of t)) in *.
    assert (J1 : jstep (f :: ex) (f :: ex) w w1).
    { apply own_fs_step; auto; [rewrite Hnm; exact Tw|]. intros m _ H2. rewrite Hnm in H2. unfold w1. apply get_remove_other. congruence. }
    pose proof J1 as (_ & W1 & Jj1 & _).
    (* the .do row *)
    change (updepth w1) with (updepth w) in H. change (dbs w1) with (dbs w) in H.
    unfold from_name in H. rewrite Hfs in H.
    destruct (find_row_valid _ _ _ Hfs) as [Vs1 Ns]. assert (Vs : valid w1 s) by (pose proof (find_row_bounds _ _ _ _ Hfs); unfold valid; cbn [w1 dbs remove_file]; lia).
    change (set_db w1 (put_row (dbs w) s (set_static R w1 (load R (dbs w) s)))) with (putw w1 s (set_static R w1 (ldw w1 s))) in H.
    destruct (dorow_step ex f w1 s Jj1 (PROJ_wsame w w1 W1 Hp) Vs) as (J2 & Hoks & F2 & D2 & N2).
    { unfold nm. cbn [w1 dbs remove_file]. rewrite Ns. exact Kw. }
    set (w2 := putw w1 s (set_static R w1 (ldw w1 s))) in *.
    pose proof (jstep_trans _ _ _ _ _ J1 J2) as J12. pose proof J12 as (_ & W12 & Jj2 & _).
    assert (Hg2 : GOODF w2 (f :: ex) f (fun _ => False)).
    { pose proof (GOODF_jstep w w2 (f :: ex) (f :: ex) f _ Hfin Hj J12 Hg) as G.
      eapply GOODF_weaken; [|exact G]. intros x [[]| ->]. left. exact Hoks. }
    assert (Hrow2 : get_row (dbs w2) f = get_row (dbs w) f) by (apply (jstep_row (f :: ex) (f :: ex) w w2 f Hfin J12)).
    assert (Hnm2 : nm w2 f = t) by (rewrite (jstep_nm _ _ w w2 f J12 Vf); exact Hnm).
    assert (Hfr2 : find_row (rows (dbs w2)) t 1 = Some f) by (destruct J12 as (Jn & _); eapply NAMES_find; eauto).
    assert (Ht2 : tgt_ok w2 ex t).
    { split; [exact Tw|]. split; [exact Tr|]. intros x Hx. unfold rkf.
      rewrite (jstep_nm _ _ w w2 x J12 (proj1 (Hu x (or_intror Hx)))). apply Tk. exact Hx. }
    (* the script *)
    match type of H with
    | context [script_body rec ?EC t sc w2] => set (envc := EC) in H
    end.
    destruct (script_body rec envc t sc w2) as [[[[w3 evs2] rcs] out]|] eqn:Esb; [|discriminate].
    destruct (script_step rec envc ex f t sc w2 w3 evs2 rcs out Hrec eq_refl eq_refl eq_refl eq_refl Hf Jj2
                          (PROJ_wsame w w2 W12 Hp) Ht2 Hnm2 Hfr2 Hplain Hdeps Hg2 Esb) as (J3 & Hrow3 & Hg3).
    pose proof J3 as (_ & W3 & Jj3 & _).
    assert (Vf2 : valid w2 f) by (destruct Jj2 as (_ & _ & _ & Hu2); exact (proj1 (Hu2 f Hfin))).
    assert (Vf3 : valid w3 f) by (destruct Jj3 as (_ & _ & _ & Hu3); exact (proj1 (Hu3 f Hfin))).
    assert (Hnm3 : nm w3 f = t) by (rewrite (jstep_nm _ _ w2 w3 f J3 Vf2); exact Hnm2).
    (* the output *)
    destruct (emit_output t (s_out sc) out w3) as [[w4 hso] htmp] eqn:Eem.
    pose proof (emit_output_fs t (s_out sc) out w3) as (D4 & U4 & F4). rewrite Eem in D4, U4, F4. cbn [fst] in D4, U4, F4.
    assert (J4 : jstep (f :: ex) (f :: ex) w3 w4).
    { apply own_fs_step; auto; [exact (PROJ_wsame w2 w3 W3 (PROJ_wsame w w2 W12 Hp))|rewrite Hnm3; exact Tw|].
      intros m H1 H2. rewrite Hnm3 in H1, H2. apply F4; assumption. }
    pose proof J4 as (_ & W4 & Jj4 & _).
    assert (Hrow4 : get_row (dbs w4) f = get_row (dbs w) f) by (rewrite D4, Hrow3; exact Hrow2).
    assert (Hnm4 : nm w4 f = t) by (unfold nm; rewrite D4; exact Hnm3).
    assert (Hld4 : ldw w4 f = ldw w f) by (unfold load; now rewrite Hrow4).
    (* the result is recorded *)
    destruct (record_new_state R t f sf before rcs (if hso then out else None) htmp w4) as [w5 rv5] eqn:Erec.
    injection H as <- _ <- _.
    pose proof (PROJ_wsame w3 w4 W4 (PROJ_wsame w2 w3 W3 (PROJ_wsame w w2 W12 Hp))) as Hp4.
    destruct (record_spec ex f w4 sf before rcs (if hso then out else None) htmp Hf Jj4 Hp4) as (J5 & Hleave & Hok5).
    { rewrite Hnm4. exact Tw. } { rewrite Hnm4. exact Tr. } { rewrite Hld4. exact Hsf. }
    { split; rewrite Hld4; assumption. }
    { rewrite Hnm4, Erec. cbn [snd]. intro E0.
      assert (Hrcs : rcs = 0%Z).
      { pose proof (record_status R t f sf before rcs (if hso then out else None) htmp w4) as St. rewrite Erec in St. cbn [snd] in St.
        rewrite E0 in St. symmetry in St. exact (status_of_zero _ _ _ _ _ St). }
      pose proof (GOODF_jstep w3 w4 (f :: ex) (f :: ex) f _ Hfin Jj3 J4 (Hg3 Hrcs)) as G4. exact G4. }
    rewrite Hnm4, Erec in J5, Hleave, Hok5. cbn [fst snd] in J5, Hleave, Hok5.
    split; [|split; [exact Hleave|exact Hok5]].
    eapply jstep_trans; [eapply jstep_weaken; [|exact J12]; intros x Hx; now right|].
    eapply jstep_trans; [exact J3|]. eapply jstep_trans; [eapply jstep_weaken; [|exact J4]; intros x Hx; now right|exact J5].
  Qed.

  Lemma zap1_flags db f d : In d (deps (zap_deps1 db f)) -> d_target d = f -> d_delete d = true.
  Proof.
    cbn [zap_deps1 deps]. intros Hin Ht. apply in_map_iff in Hin as (x & <- & _).
    destruct (Nat.eqb (d_target x) f) eqn:E; [reflexivity|]. cbn in Ht. apply Nat.eqb_neq in E. contradiction.
  Qed.

  Lemma set_static_fs w w' r : fs w' = fs w -> set_static R w' r = set_static R w r.
  Proof. intro H. unfold set_static, update_stamp, read_stamp. now rewrite H. Qed.
  Lemma set_failed_fs w w' r : fs w' = fs w -> set_failed R w' r = set_failed R w r.
  Proof. intro H. unfold set_failed, update_stamp, read_stamp. now rewrite H. Qed.

  (* BuildJob::start_self after the override test *)
  Lemma ss_rest_spec rec e ex t f before w w' evs rv ab :
    rec_spec rec -> e_runid e = R ->
    JINV w ex -> PROJ w -> tgt_ok w ex t -> nm w f = t -> valid w f -> ~ In f ex ->
    find_row (rows (dbs w)) t 1 = Some f -> ~ ok w ex f -> marked (ldw w f) = false ->
    ss_rest rec e t f before (ldw w f) [] w = Ret (w', evs, rv, ab) ->
    jstep ex ex w w' /\ (rv = 0%Z -> ok w' ex f).
  Proof.
    intros Hrec HR Hj Hp Ht Hnm Vf Hf Hfr Hnok Hum H.
    pose proof Ht as (Tw & Tr & Tk).
    assert (Hwt : watched (nm w f) = false) by (rewrite Hnm; exact Tw).
    assert (Hres : reserved (nm w f) = false) by (rewrite Hnm; exact Tr).
    assert (Ha : is_alw w f = false) by (apply not_reserved_not_alw; exact Hres).
    assert (Hld : ldw w f = get_row (dbs w) f) by (apply ld_not_alw; exact Ha).
    assert (Hov : r_ovr (ldw w f) = false).
    { destruct Hj as (_ & Hx & _). destruct (Hx f Vf) as (_ & _ & _ & _ & A5). rewrite Hld. exact (proj1 (A5 Hf)). }
    pose proof (JINV_enter w ex f Hj Vf Hwt Hnok) as Je.
    assert (Hfin : In f (f :: ex)) by now left.
    unfold ss_rest in H. rewrite HR in H. cbv zeta in H. rewrite Hov in H. cbn [orb] in H.
    destruct (exists_b w t && negb (r_gen (ldw w f))) eqn:Est.
    - (* an existing source *)
      injection H as <- _ <- _.
      destruct (static_exit ex f w Hf Je Hres) as (J & Hl & Hok).
      change (set_db w (put_row (dbs w) f (set_static R w (ldw w f)))) with (putw w f (set_static R w (ldw w f))).
      split; [eapply job_wrap; eauto|intros _; exact Hok].
    - (* the old declarations are flagged, the .do file is looked for *)
      destruct (zap1_JINV w (f :: ex) f Je Hfin) as (Ez & Jz & Mz).
      set (wz := set_db w (zap_deps1 (dbs w) f)) in *.
      assert (Jwz : jstep (f :: ex) ex w wz).
      { apply jstep_db; [exact Hf| |exact Ez|exact Jz|exact Mz|].
        - intros x Hx. destruct Je as (_ & _ & _ & Hu). exact (proj1 (Hu x (or_intror Hx))).
        - apply (deps_other_zap1 (deps (dbs w)) f). }
      assert (Hgz : GOODF wz (f :: ex) f (fun _ => False)).
      { intros d Hin Htg. left. exact (zap1_flags (dbs w) f d Hin Htg). }
      assert (Hnmz : nm wz f = t) by exact Hnm.
      destruct (find_do_file w (zap_deps1 (dbs w) f) f (do_candidates (updepth w) t)) as [d2 found] eqn:Efd.
      destruct (find_do_spec ex f t w Hf Tw Tr Hp (do_candidates (updepth w) t) (fun c Hc => Hc) wz (fun _ => False)
                             eq_refl eq_refl Jz Hnmz Hgz d2 found Efd) as (J2 & E2 & Hfound).
      change (set_db wz d2) with (set_db w d2) in *.
      set (w2 := set_db w d2) in *.
      pose proof (jstep_trans _ _ _ _ _ Jwz J2) as J02. pose proof J02 as (_ & W02 & Jj2 & _).
      assert (E02 : extends w w2) by (exact (extends_trans w wz w2 Ez E2)).
      assert (Hrow2 : get_row (dbs w2) f = get_row (dbs w) f) by (destruct E02 as (_ & _ & _ & Hr); apply Hr; exact Vf).
      assert (Hld2 : ldw w2 f = ldw w f) by (unfold load; now rewrite Hrow2).
      assert (Hnm2 : nm w2 f = t) by (rewrite (extends_nm w w2 f E02 Vf); exact Hnm).
      assert (Fs2 : fs w2 = fs w) by (destruct E02 as (X & _); exact X).
      destruct found as [[df sc]|].
      + (* a rule *)
        destruct Hfound as (Hdf & Hfl & (s & Hfs & Hg2)).
        pose proof E02 as (_ & Up & Nn & _).
        assert (A1 : tgt_ok w2 ex t).
        { split; [exact Tw|]. split; [exact Tr|]. intros x Hx. unfold rkf.
          destruct Hj as (_ & _ & _ & Hu). rewrite (extends_nm w w2 x E02 (proj1 (Hu x Hx))). apply Tk. exact Hx. }
        assert (A2 : find_row (rows (dbs w2)) t 1 = Some f) by (eapply NAMES_find; eauto).
        assert (A3 : own_row w2 ex f) by (split; rewrite Hld2; assumption).
        assert (A4 : In df (do_candidates (updepth w2) t)) by (rewrite Up; exact Hdf).
        assert (A5 : exists fl, fs_get (fs w2) (cand_key (updepth w2) df) = Some fl /\ sc = script_of fl) by (rewrite Up, Fs2; exact Hfl).
        assert (A6 : find_row (rows (dbs w2)) (cand_key (updepth w2) df) 1 = Some s) by (rewrite Up; exact Hfs).
        assert (A7 : ldw w f = ldw w2 f) by (symmetry; exact Hld2).
        pose proof (ss_run_spec rec e ex t f before (ldw w f) [] df sc s w2 w' evs rv ab Hrec HR Hf Jj2
                                (PROJ_wsame w w2 W02 Hp) A1 Hnm2 A2 A7 A3 A4 A5 A6 Hg2 H) as Hrun.
        destruct Hrun as (J3 & Hl & Hok).
        split; [|exact Hok]. eapply job_wrap; eauto. eapply jstep_trans; eauto.
      + (* no rule *)
        destruct (exists_b w t) eqn:Eex.
        * injection H as <- _ <- _.
          destruct (static_exit ex f w2 Hf Jj2) as (J3 & Hl & Hok); [rewrite Hnm2; exact Tr|].
          rewrite Hld2, (set_static_fs w w2 _ Fs2) in J3, Hl, Hok.
          change (set_db w (put_row d2 f (set_static R w (ldw w f)))) with (putw w2 f (set_static R w (ldw w f))).
          split; [|intros _; exact Hok]. eapply job_wrap; eauto. eapply jstep_trans; eauto.
        * injection H as <- _ <- _.
          destruct (failed_exit ex f w2 Hf Jj2) as (J3 & Hl); [rewrite Hnm2; exact Tr|rewrite Hld2; exact Hov|].
          rewrite Hld2, (set_failed_fs w w2 _ Fs2) in J3, Hl.
          change (set_db w (put_row d2 f (set_failed R w (ldw w f)))) with (putw w2 f (set_failed R w (ldw w f))).
          split; [|intro X; discriminate X]. eapply job_wrap; eauto. eapply jstep_trans; eauto.
  Qed.

  (* a check never puts a failure mark on a row *)
  Lemma is_dirty_failed_back : forall fuel cyc w c f r mx seen v w' c' evs,
    is_dirty fuel R cyc w c f r mx seen = Ret (v, w', c', evs) ->
    forall g k, r_failed (get_row (dbs w') g) = Some k -> r_failed (get_row (dbs w) g) = Some k.
  Proof.
    induction fuel as [|fuel IH]; intros cyc w c f r mx seen v w' c' evs H; [discriminate|].
    cbn [is_dirty] in H.
    destruct (existsb (Nat.eqb f) seen); [injection H as _ <- _ _; auto|].
    destruct (r_failed r) eqn:Hfl; [injection H as _ <- _ _; auto|].
    destruct (r_changed r) as [chg|]; [|injection H as _ <- _ _; auto].
    destruct (Z.ltb mx chg); [injection H as _ <- _ _; auto|].
    destruct (chk_is_checked c R r f); [injection H as _ <- _ _; auto|].
    destruct (r_stamp r) as [old|]; [|injection H as _ <- _ _; auto].
    assert (Hput : forall wk r', r_failed r' = None ->
              (forall g k, r_failed (get_row (dbs wk) g) = Some k -> r_failed (get_row (dbs w) g) = Some k) ->
              forall g k, r_failed (get_row (dbs (set_db wk (put_row (dbs wk) f r'))) g) = Some k -> r_failed (get_row (dbs w) g) = Some k).
    { intros wk r' Hr' Hk g k Hg. cbn [dbs set_db] in Hg.
      destruct (Nat.eq_dec (g - 1) (f - 1)) as [E|E].
      - unfold get_row in Hg. rewrite rows_put_row, E in Hg.
        destruct (Nat.le_gt_cases (length (rows (dbs wk))) (f - 1)) as [Hb|Hb].
        + rewrite set_nth_beyond in Hg by exact Hb. apply Hk. unfold get_row. rewrite E. exact Hg.
        + rewrite nth_set_nth in Hg by exact Hb. congruence.
      - rewrite get_row_put_row_other in Hg by exact E. apply Hk. exact Hg. }
    destruct (negb (stamp_eqb old (read_stamp w (r_name r)))).
    - injection H as _ <- _ _. unfold forget_missing. destruct (read_stamp w (r_name r)); [|auto].
      destruct (r_gen r); [|auto]. apply Hput; [reflexivity|auto].
    - eapply (walk_deps_inv2 (fun wk => forall g k, r_failed (get_row (dbs wk) g) = Some k -> r_failed (get_row (dbs w) g) = Some k)
                             (fun wk => forall g k, r_failed (get_row (dbs wk) g) = Some k -> r_failed (get_row (dbs w) g) = Some k)
                             (fun _ _ => True)); [| | |apply Forall_trivial|intros g k Hg; exact Hg|exact H].
      + intros w1 c1 d rs v1 w1' c1' e1 _ Hw1 E g k Hg. cbv beta in E.
        destruct (existsb (Nat.eqb (d_source d)) cyc); [injection E as _ <- _ _; apply Hw1; exact Hg|].
        apply Hw1. exact (IH _ _ _ _ _ _ _ _ _ _ _ E g k Hg).
      + intros w1 Hw1. exact Hw1.
      + intros w1 Hw1. apply Hput; [exact Hfl|exact Hw1].
  Qed.

  Lemma noov_ovr_now w f : noov_at w f -> is_alw w f = false ->
    ovr_now (ldw w f) (read_stamp w (nm w f)) = false.
  Proof.
    intros [Ho Hg] Ha. rewrite (ld_not_alw R w f Ha). unfold ovr_now. rewrite Ho. cbn [orb].
    destruct (r_gen (get_row (dbs w) f)) eqn:Eg; [|reflexivity]. cbn [andb].
    destruct (Hg eq_refl) as (s0 & Hs & [Hm|Hm]).
    - rewrite Hs. unfold detect_override. rewrite Hm. cbn. apply andb_false_r.
    - rewrite Hm. cbn. reflexivity.
  Qed.

  (* ---------------------------------------------------------------- a check that does not answer "clean" *)
  Lemma walk_not_clean_inv (I : world -> Prop) (Q : dep -> row -> Prop) isd f r :
    (forall w1 c1 d rs v w' c' evs, Q d rs -> d_mode d = DModified -> I w1 ->
       isd w1 c1 (d_source d) rs = Ret (v, w', c', evs) -> I w') ->
    forall ds w0 c0 must evs0 v w' c' evs,
      Forall (fun x => Q (fst x) (snd x)) ds ->
      I w0 -> walk_deps isd R f r ds w0 c0 must evs0 = Ret (v, w', c', evs) -> v <> VClean -> I w'.
  Proof.
    intros Hisd. induction ds as [|[d rs] ds IHds]; intros w0 c0 must evs0 v w' c' evs HQ Hw0 H Hv; cbn [walk_deps] in H.
    - destruct must; [destruct c0; injection H as <- _ _ _; contradiction|]. injection H as _ <- _ _. exact Hw0.
    - inversion HQ as [|x l Hq Hqs]; subst. cbn [fst snd] in Hq. destruct (d_mode d) eqn:Em.
      + destruct (exists_b w0 (r_name rs)).
        * injection H as _ <- _ _. exact Hw0.
        * eapply IHds; [exact Hqs|exact Hw0|exact H|exact Hv].
      + destruct (isd w0 c0 (d_source d) rs) as [[[[v1 w1] c1] e1]|] eqn:E; [|discriminate].
        pose proof (Hisd _ _ _ _ _ _ _ _ Hq Em Hw0 E) as H1. destruct v1.
        * eapply IHds; [exact Hqs|exact H1|exact H|exact Hv].
        * injection H as _ <- _ _. exact H1.
        * eapply IHds; [exact Hqs|exact H1|exact H|exact Hv].
        * injection H as _ <- _ _. exact H1.
  Qed.

  (* the row of the checked target afterwards: as it was, or still out of step with its file *)
  Lemma root_row fuel cyc w c f mx seen v w' c' evs :
    edges_ok rk w ->
    is_dirty fuel R cyc w c f (ldw w f) mx seen = Ret (v, w', c', evs) -> v <> VClean ->
    get_row (dbs w') f = get_row (dbs w) f \/
    (exists old, r_stamp (ldw w' f) = Some old /\ r_name (ldw w' f) = r_name (ldw w f) /\
                 stamp_eqb old (read_stamp w (r_name (ldw w f))) = false).
  Proof.
    intros He H Hv. destruct fuel as [|fuel]; [discriminate|]. cbn [is_dirty] in H.
    destruct (existsb (Nat.eqb f) seen); [injection H as _ <- _ _; now left|].
    destruct (r_failed (ldw w f)); [injection H as _ <- _ _; now left|].
    destruct (r_changed (ldw w f)) as [chg|]; [|injection H as _ <- _ _; now left].
    destruct (Z.ltb mx chg); [injection H as _ <- _ _; now left|].
    destruct (chk_is_checked c R (ldw w f) f); [injection H as <- _ _ _; contradiction|].
    destruct (r_stamp (ldw w f)) as [old|] eqn:Hs; [|injection H as _ <- _ _; now left].
    destruct (stamp_eqb old (read_stamp w (r_name (ldw w f)))) eqn:Hok; cbn [negb] in H.
    - left.
      eapply (walk_not_clean_inv (fun wk => names (dbs wk) = names (dbs w) /\ deps (dbs wk) = deps (dbs w) /\
                                           get_row (dbs wk) f = get_row (dbs w) f)
                                 (fun d rs => rs = ldw w (d_source d) /\ In d (deps (dbs w)) /\ d_target d = f));
        [| |split; [reflexivity|split; reflexivity]|exact H|exact Hv].
      + intros w1 c1 d rs v1 w1' c1' e1 (-> & Hin & Ht) Em (N1 & D1 & R1) E. cbv beta in E.
        destruct (existsb (Nat.eqb (d_source d)) cyc); [injection E as _ <- _ _; auto|].
        destruct (He d Hin) as (_ & _ & _ & Hr). specialize (Hr Em). rewrite Ht in Hr.
        destruct (is_dirty_frame _ _ w w1 _ _ _ _ _ _ _ _ N1 (edges_ok_same w w1 N1 D1 He) E) as (N2 & D2 & A2).
        split; [congruence|]. split; [congruence|]. rewrite A2; [exact R1| |].
        * unfold rkf in *. rewrite !(nm_names w w1 _ N1). lia.
        * intro E2. pose proof (same_slot_same_rank w1 f (d_source d) E2) as E3.
          unfold rkf in *. rewrite !(nm_names w w1 _ N1) in E3. lia.
      + eapply Forall_impl; [|apply deps_rows_loaded]. cbn. intros x [Hx1 Hx2]. split; [exact Hx2|].
        destruct (in_deps_of _ _ _ _ Hx1) as [A B]. auto.
    - right. injection H as _ <- _ _. unfold forget_missing.
      destruct (read_stamp w (r_name (ldw w f))) eqn:Ens; [|exists old; auto].
      destruct (r_gen (ldw w f)); [|exists old; auto].
      exists old. cbn [dbs set_db].
      destruct (Nat.le_gt_cases (length (rows (dbs w))) (f - 1)) as [Hb|Hb].
      + rewrite (put_row_beyond (dbs w) f _ Hb). auto.
      + rewrite (ld_put_row_same R (dbs w) f _ f eq_refl Hb). rewrite view_row_name, view_row_stamp.
        cbn [upd_row r_name r_stamp]. auto.
  Qed.

  Lemma check_not_ok w ex fuel cyc f v w' c' evs :
    edges_ok rk w -> fs w' = fs w -> deps (dbs w') = deps (dbs w) ->
    is_dirty fuel R cyc w ChkDb f (ldw w f) R [] = Ret (v, w', c', evs) -> v <> VClean -> ~ ok w' ex f.
  Proof.
    intros He Hfs Hdp H Hv Hok. destruct Hok as [g _ _ _ Hb Hm _].
    destruct Hb as (Hfl & (chg & Hc & Hle) & old & Hs & Hst).
    destruct (root_row fuel cyc w ChkDb g R [] v w' c' evs He H Hv) as [Hrow|(old' & Hs' & Hn' & Hmis)].
    - assert (E : ldw w' g = ldw w g) by (unfold load; now rewrite Hrow).
      rewrite E in *. unfold read_stamp in Hst. rewrite Hfs in Hst. fold (read_stamp w (r_name (ldw w g))) in Hst.
      destruct fuel as [|fuel]; [discriminate|]. cbn [is_dirty existsb] in H. rewrite Hfl, Hc in H.
      assert (El : Z.ltb R chg = false) by (apply Z.ltb_ge; exact Hle). rewrite El in H.
      cbn [chk_is_checked] in H. fold (marked (ldw w g)) in H.
      destruct Hm as [Hm|Hm].
      + rewrite Hm in H. injection H as <- _ _ _. contradiction.
      + destruct (marked (ldw w g)); [injection H as <- _ _ _; contradiction|].
        rewrite Hs, Hst in H. cbn [negb] in H. unfold deps_rows in H. unfold deps_of in Hm. rewrite Hdp in Hm.
        fold (deps_of (dbs w) (ldw w g) g) in Hm. rewrite Hm in H. cbn [map walk_deps] in H.
        injection H as <- _ _ _. contradiction.
    - rewrite Hs' in Hs. injection Hs as <-. unfold read_stamp in Hst. rewrite Hfs, Hn' in Hst.
      fold (read_stamp w (r_name (ldw w g))) in Hst. congruence.
  Qed.

  Lemma is_dirty_updepth : forall fuel cyc w c f r mx seen v w' c' evs,
    is_dirty fuel R cyc w c f r mx seen = Ret (v, w', c', evs) -> updepth w' = updepth w.
  Proof.
    induction fuel as [|fuel IH]; intros cyc w c f r mx seen v w' c' evs H; [discriminate|].
    cbn [is_dirty] in H.
    destruct (existsb (Nat.eqb f) seen); [inversion H; reflexivity|].
    destruct (r_failed r); [inversion H; reflexivity|].
    destruct (r_changed r) as [chg|]; [|inversion H; reflexivity].
    destruct (Z.ltb mx chg); [inversion H; reflexivity|].
    destruct (chk_is_checked c R r f); [inversion H; reflexivity|].
    destruct (r_stamp r) as [old|]; [|inversion H; reflexivity].
    destruct (negb (stamp_eqb old (read_stamp w (r_name r)))).
    { inversion H; subst. unfold forget_missing.
      destruct (read_stamp w (r_name r)); [destruct (r_gen r)|]; reflexivity. }
    eapply (walk_deps_inv (fun w1 => updepth w1 = updepth w) (fun _ _ => True)); [| |apply Forall_trivial|reflexivity|exact H].
    - intros w1 c1 d rs v1 w1' c1' e1 _ Hw1 E. cbv beta in E.
      destruct (existsb (Nat.eqb (d_source d)) cyc); [inversion E; subst; exact Hw1|].
      rewrite <- Hw1. eapply IH; exact E.
    - intros w1 Hw1. exact Hw1.
  Qed.

  (* the first look at a requested target: everything the job invariant and its user need *)
  Lemma check_jstep w ex fuel cyc f v w' c' evs :
    JINV w ex -> valid w f -> reserved (nm w f) = false -> below rk w f ex ->
    is_dirty fuel R cyc w ChkDb f (ldw w f) R [] = Ret (v, w', c', evs) ->
    jstep ex ex w w' /\ (v = VClean -> ok w' ex f) /\ (v <> VClean -> ~ ok w' ex f) /\ (forall l, v <> VNeed l) /\
    names (dbs w') = names (dbs w).
  Proof.
    intros Hj Hf Hres Hbel H. pose proof Hj as (Hinv & Hx & Hc & Hu).
    pose proof Hinv as [(Hnd & He & Hb) Hmark].
    assert (Ha : is_alw w f = false) by (apply not_reserved_not_alw; exact Hres).
    destruct (is_dirty_INV R Rpos rk ex fuel cyc w w f R [] v w' c' evs (walkrel_refl R w) Hb Hinv Hbel Hf Ha H)
      as (((F & D & N & K) & Hinv' & Hmono) & _ & Hcl).
    assert (Hdv : deps_valid w) by (intros d Hin; destruct (He d Hin) as (_ & V & _); exact V).
    assert (Hxs : xs ex w w) by (split; [reflexivity|split; [reflexivity|split; [reflexivity|exact Hx]]]).
    destruct (is_dirty_XR ex fuel cyc w w ChkDb f R [] v w' c' evs Hxs Hx Hdv Hf H) as (_ & _ & _ & Hx').
    destruct (is_dirty_frame fuel cyc w w ChkDb f R [] v w' c' evs eq_refl He H) as (_ & _ & Habove).
    pose proof (is_dirty_updepth _ _ _ _ _ _ _ _ _ _ _ _ H) as Hup.
    assert (Hj' : JINV w' ex).
    { split; [exact Hinv'|]. split; [exact Hx'|]. split.
      - intros d Hin Hm. rewrite D in Hin. rewrite (nm_names w w' _ N). apply Hc; assumption.
      - intros x Hx0. destruct (Hu x Hx0) as [A B]. split; [eapply valid_names; eauto|]. now rewrite (nm_names w w' x N). }
    split; [|split; [exact Hcl|split; [|split; [|exact N]]]].
    - split; [exists []; rewrite N; now rewrite app_nil_r|]. split; [split; [exact Hup|intros n _; now rewrite F]|].
      split; [exact Hj'|]. split; [exact Hmono|].
      intros x Hx0. split.
      + apply Habove; [specialize (Hbel x Hx0); lia|].
        intro E. pose proof (same_slot_same_rank w x f E). specialize (Hbel x Hx0). lia.
      + intros d _. now rewrite D.
    - intro Hv. eapply check_not_ok; eauto.
    - eapply (is_dirty_no_need ex); eauto.
  Qed.

  Lemma extends_jstep ex w w1 :
    JINV w ex -> extends w w1 -> deps (dbs w1) = deps (dbs w) -> JINV w1 ex -> (forall g, ok w ex g -> ok w1 ex g) ->
    jstep ex ex w w1.
  Proof.
    intros (_ & _ & _ & Hu) Hext Hd Hj Hm. pose proof Hext as (Hfs & Hup & Hn & Hrows).
    split; [exact Hn|]. split; [split; [exact Hup|intros n _; now rewrite Hfs]|]. split; [exact Hj|]. split; [exact Hm|].
    intros x Hx. split; [apply Hrows; exact (proj1 (Hu x Hx))|]. intros d _. now rewrite Hd.
  Qed.

  (* BuildJob::start for redo-ifchange *)
  Lemma start_spec rec fuel e ex t w w' evs rv ab :
    rec_spec rec -> e_runid e = R -> JINV w ex -> PROJ w -> tgt_ok w ex t ->
    start rec fuel e MIfChange t w = Ret (w', evs, rv, ab) ->
    jstep ex ex w w' /\
    (rv = 0%Z -> find_row (rows (dbs w')) t 1 = Some (snd (from_name (dbs w) t)) /\ ok w' ex (snd (from_name (dbs w) t))).
  Proof.
    intros Hrec HR Hj Hp Ht H. pose proof Ht as (Tw & Tr & Tk).
    unfold start in H. rewrite HR in H.
    destruct (from_name (dbs w) t) as [d0 f] eqn:Efn. cbn [snd].
    destruct (from_name_JINV w ex t d0 f Hj Tr Efn) as (E0 & J0 & M0 & Vf & Nf & D0 & F0 & _).
    set (w0 := set_db w d0) in *.
    assert (Js0 : jstep ex ex w w0) by (exact (extends_jstep ex w w0 Hj E0 D0 J0 M0)).
    assert (Ht0 : tgt_ok w0 ex t) by (exact (tgt_ok_jstep ex ex w w0 t Hj Js0 Ht)).
    pose proof (PROJ_wsame w w0 (proj1 (proj2 Js0)) Hp) as Hp0.
    assert (Hf : ~ In f ex).
    { intro X. destruct Ht0 as (_ & _ & K). specialize (K f X). unfold rkf in K. rewrite Nf in K. lia. }
    cbv zeta in H.
    destruct (is_failed R (load R (dbs w0) f)) eqn:Efail.
    { injection H as <- _ <- _. split; [exact Js0|intro X; discriminate X]. }
    destruct (is_dirty fuel R (e_cycles e) w0 ChkDb f (load R (dbs w0) f) R []) as [[[[v w1] c1] evd]|] eqn:Ed; [|discriminate].
    assert (Hbel : below rk w0 f ex).
    { intros x Hx. destruct Ht0 as (_ & _ & K). specialize (K x Hx). unfold rkf in *. rewrite Nf. exact K. }
    destruct (check_jstep w0 ex fuel (e_cycles e) f v w1 c1 evd J0 Vf) as (Js1 & Hcl & Hncl & Hnn & N1); auto.
    { rewrite Nf. exact Tr. }
    pose proof (jstep_trans _ _ _ _ _ Js0 Js1) as Js01. pose proof Js1 as (Jn1 & W1 & Jj1 & _).
    assert (Vf1 : valid w1 f) by (eapply valid_names; eauto).
    assert (Nf1 : nm w1 f = t) by (rewrite (nm_names w0 w1 f N1); exact Nf).
    assert (F1 : find_row (rows (dbs w1)) t 1 = Some f) by (eapply NAMES_find; eauto).
    assert (Hv : (match v with VNeed [x] => if Nat.eqb x f then VDirty else v | _ => v end) = v).
    { destruct v as [| |l|]; try reflexivity. exfalso. exact (Hnn l eq_refl). }
    rewrite Hv in H. destruct v as [| |l|].
    - injection H as <- _ <- _. split; [exact Js01|]. intros _. split; [exact F1|apply Hcl; reflexivity].
    - (* the job *)
      assert (Hnok : ~ ok w1 ex f) by (apply Hncl; discriminate).
      destruct (start_self rec e t f (fs_get (fs w0) t) w1) as [[[[w2 ev2] rv2] ab2]|] eqn:Ess; [|discriminate].
      cbn [prepend_events] in H. injection H as <- _ <- _.
      assert (Ha1 : is_alw w1 f = false) by (apply not_reserved_not_alw; rewrite Nf1; exact Tr).
      assert (Hum : marked (ldw w1 f) = false).
      { destruct (marked (ldw w1 f)) eqn:Em; [|reflexivity]. exfalso.
        pose proof Jj1 as ((_ & Hmark) & Hx1 & _). destruct (Hx1 f Vf1) as (_ & _ & _ & A4 & _).
        destruct (A4 Ha1 Em) as [X|X].
        - apply Hnok. apply Hmark; auto. rewrite (ld_not_alw R w1 f Ha1). exact X.
        - pose proof (is_dirty_failed_back _ _ _ _ _ _ _ _ _ _ _ _ Ed f R X) as X0.
          unfold is_failed in Efail. assert (Ha0 : is_alw w0 f = false) by (apply not_reserved_not_alw; rewrite Nf; exact Tr).
          fold (ldw w0 f) in Efail. rewrite (ld_not_alw R w0 f Ha0), X0, (OnceProofs.geb_self R Rpos) in Efail. discriminate. }
      assert (Hnoov : noov_at w1 f).
      { destruct Jj1 as (_ & Hx1 & _). destruct (Hx1 f Vf1) as (_ & _ & _ & _ & A5). exact (A5 Hf). }
      rewrite start_self_pieces in Ess. rewrite HR in Ess. cbv zeta in Ess.
      pose proof (noov_ovr_now w1 f Hnoov Ha1) as Ho. rewrite Nf1 in Ho. rewrite Ho in Ess.
      destruct (ss_rest_spec rec e ex t f (fs_get (fs w0) t) w1 w2 ev2 rv2 ab2 Hrec HR Jj1
                             (PROJ_wsame w0 w1 W1 Hp0) (tgt_ok_jstep ex ex w0 w1 t J0 Js1 Ht0) Nf1 Vf1 Hf F1 Hnok Hum Ess) as (Js2 & Hok2).
      split; [eapply jstep_trans; eauto|]. intro E0'. split; [|apply Hok2; exact E0'].
      destruct Js2 as (Jn2 & _). eapply NAMES_find; eauto.
    - exfalso. exact (Hnn l eq_refl).
    - injection H as <- _ <- _. split; [exact Js01|intro X; discriminate X].
  Qed.


  (* builder::run at -j1 *)
  Lemma run_loop_spec rec fuel e ex :
    rec_spec rec -> e_runid e = R ->
    forall ts seen w evs errored w' evs' rc,
      JINV w ex -> PROJ w -> (forall t, In t ts -> tgt_ok w ex t) ->
      run_loop (start rec fuel e MIfChange) e ts seen w evs errored = Ret (w', evs', rc) ->
      jstep ex ex w w' /\
      (rc = 0%Z -> (forall g, In g seen -> ok w ex g) ->
         (forall g, In g seen -> ok w' ex g) /\
         forall t, In t ts -> exists g, find_row (rows (dbs w')) t 1 = Some g /\ ok w' ex g).
  Proof.
    intros Hrec HR. induction ts as [|t ts IH]; intros seen w evs errored w' evs' rc Hj Hp Hts H; cbn [run_loop] in H.
    - injection H as <- _ <-. split; [apply jstep_refl; exact Hj|]. intros _ Hs. split; [exact Hs|intros t []].
    - destruct (errored && negb (e_keep_going e)) eqn:Estop.
      { injection H as <- _ <-. split; [apply jstep_refl; exact Hj|intro X; discriminate X]. }
      destruct (Hts t (or_introl eq_refl)) as (Tw & Tr & Tk).
      destruct (from_name (dbs w) t) as [d0 f] eqn:Efn.
      destruct (from_name_JINV w ex t d0 f Hj Tr Efn) as (E0 & J0 & M0 & Vf & Nf & D0 & F0 & _).
      set (w0 := set_db w d0) in *.
      assert (Js0 : jstep ex ex w w0) by (exact (extends_jstep ex w w0 Hj E0 D0 J0 M0)).
      assert (Hts0 : forall t', In t' ts -> tgt_ok w0 ex t').
      { intros t' Ht'. apply (tgt_ok_jstep ex ex w w0 t' Hj Js0). apply Hts. now right. }
      destruct (existsb (Nat.eqb f) seen) eqn:Eseen.
      { (* another spelling of a target already handled *)
        destruct (IH seen w0 evs errored w' evs' rc J0 (PROJ_wsame w w0 (proj1 (proj2 Js0)) Hp) Hts0 H) as (Js & Hres).
        split; [eapply jstep_trans; eauto|]. intros Hrc Hs.
        destruct (Hres Hrc (fun g Hg => M0 g (Hs g Hg))) as (Hs' & Hall). split; [exact Hs'|].
        intros t' [<-|Ht']; [|apply Hall; exact Ht'].
        exists f. split.
        - destruct Js as (Jn & _). eapply NAMES_find; eauto.
        - apply Hs'. apply existsb_exists in Eseen as (g & Hg & Eg). apply Nat.eqb_eq in Eg. subst g. exact Hg. }
      destruct (negb (e_unlocked e) && existsb (Nat.eqb f) (e_cycles e)).
      { injection H as <- _ <-. split; [exact Js0|intro X; discriminate X]. }
      destruct (start rec fuel e MIfChange t w) as [[[[w1 ev1] rv1] ab1]|] eqn:Est; [|discriminate].
      destruct (start_spec rec fuel e ex t w w1 ev1 rv1 ab1 Hrec HR Hj Hp (Hts t (or_introl eq_refl)) Est) as (Js1 & Hok1).
      destruct ab1.
      { injection H as <- _ <-. split; [exact Js1|]. intro X. pose proof (start_abort_is_208 _ _ _ _ _ _ _ _ _ Est). lia. }
      pose proof Js1 as (Jn1 & W1 & Jj1 & Jm1 & _).
      assert (Hts1 : forall t', In t' ts -> tgt_ok w1 ex t').
      { intros t' Ht'. apply (tgt_ok_jstep ex ex w w1 t' Hj Js1). apply Hts. now right. }
      destruct (IH (f :: seen) w1 (evs ++ ev1) (errored || negb (Z.eqb rv1 0)) w' evs' rc Jj1 (PROJ_wsame w w1 W1 Hp) Hts1 H) as (Js & Hres).
      split; [eapply jstep_trans; eauto|]. intros Hrc Hs.
      (* the command ended with 0: no job failed *)
      assert (Herr : errored || negb (Z.eqb rv1 0) = false).
      { destruct (errored || negb (Z.eqb rv1 0)) eqn:E; [|reflexivity]. exfalso.
        exact (run_loop_errored_nonzero _ _ _ _ _ _ _ _ _ _ _ H Hrc). }
      apply orb_false_iff in Herr as [_ Hrv]. apply negb_false_iff, Z.eqb_eq in Hrv.
      rewrite Efn in Hok1. cbn [snd] in Hok1. destruct (Hok1 Hrv) as (Ff1 & Hokf1).
      destruct (Hres Hrc) as (Hs' & Hall).
      { intros g [<-|Hg]; [exact Hokf1|]. apply Jm1. apply Hs. exact Hg. }
      split; [intros g Hg; apply Hs'; now right|].
      intros t' [<-|Ht']; [|apply Hall; exact Ht'].
      exists f. split; [|apply Hs'; now left].
      destruct Js as (Jn & _). eapply NAMES_find; eauto.
  Qed.

  (* ifchange.rs: the dependencies of the enclosing target are recorded before anything is built *)
  Lemma front_fold ex mf me : ~ In mf ex ->
    forall ts w, JINV w (mf :: ex) -> nm w mf = me ->
      (forall t, In t ts -> reserved t = false /\ (rk t < rk me)%nat) ->
      let wa := set_db w (fold_left (fun d t => let '(d', s) := from_name d t in add_dep d' mf DModified s) ts (dbs w)) in
      jstep (mf :: ex) ex w wa /\ extends w wa /\
      forall P : fid -> Prop, GOODF w (mf :: ex) mf P ->
        GOODF wa (mf :: ex) mf (fun x => P x \/ exists t, In t ts /\ find_row (rows (dbs wa)) t 1 = Some x).
  Proof.
    intros Hf. induction ts as [|t ts IH]; intros w Hj Hnm Hts; cbv zeta; cbn [fold_left].
    - rewrite set_db_same. split; [apply jstep_refl; exact Hj|]. split; [apply extends_refl|].
      intros P Hg. eapply GOODF_weaken; [|exact Hg]. intros x Hx. right. now left.
    - destruct (Hts t (or_introl eq_refl)) as [Tr Tk].
      destruct (from_name (dbs w) t) as [d1 s] eqn:Efn.
      assert (Hrk1 : DModified = DModified -> (rk t < rkf rk w mf)%nat) by (intros _; unfold rkf; rewrite Hnm; exact Tk).
      assert (Hwt1 : DModified = DCreated -> watched t = true) by (intro X; discriminate X).
      destruct (add_edge_step ex mf w t DModified d1 s Hj Hf Tr Hrk1 Hwt1 Efn) as (J & E & V & N & F & G).
      set (w1 := set_db w (add_dep d1 mf DModified s)) in *.
      pose proof J as (_ & _ & J1 & _).
      assert (Vmf : valid w mf) by (destruct Hj as (_ & _ & _ & Hu); exact (proj1 (Hu mf (or_introl eq_refl)))).
      assert (Hnm1 : nm w1 mf = me) by (rewrite (extends_nm w w1 mf E Vmf); exact Hnm).
      specialize (IH w1 J1 Hnm1 (fun t' Ht' => Hts t' (or_intror Ht'))). cbv zeta in IH.
      change (dbs w1) with (add_dep d1 mf DModified s) in IH.
      change (set_db w1 ?X) with (set_db w X) in IH.
      set (wa := set_db w (fold_left _ ts (add_dep d1 mf DModified s))) in *.
      destruct IH as (Ja & Ea & Ga).
      split; [eapply jstep_trans; eauto|]. split; [eapply extends_trans; eauto|].
      intros P Hg.
      assert (Hg1 : GOODF w1 (mf :: ex) mf (fun x => P x \/ x = s)).
      { apply (G P (fun x => P x \/ x = s)); [intros x Hx; now left|exact Hg|].
        split; [intro X; discriminate X|]. intros _. right. now right. }
      specialize (Ga _ Hg1). eapply GOODF_weaken; [|exact Ga].
      intros x [[Hx| ->]|(t' & Ht' & Hfx)].
      + right. now left.
      + right. right. exists t. split; [now left|]. destruct Ea as (_ & _ & Nn & _). eapply NAMES_find; eauto.
      + right. right. exists t'. split; [now right|exact Hfx].
  Qed.

  (* the command `redo-ifchange ts`, at any nesting depth *)
  Theorem build_rec_spec : forall fuel, rec_spec (build fuel).
  Proof.
    induction fuel as [|fuel IH]; intros e exl ts w w' evs rc (HR & Hj & Hp & Hts & Hmode) H; [discriminate|].
    cbn [build] in H.
    destruct Hmode as [Hnone|(me & mf & ex & (E1 & E2 & E3 & E4 & E5 & E6 & E7))].
    - unfold frontend_deps in H. rewrite Hnone in H.
      destruct (run_loop_spec (build fuel) fuel e exl IH HR ts [] w [] false w' evs rc Hj Hp Hts H) as (Js & Hres).
      exists w. split; [unfold front_post; rewrite Hnone; reflexivity|]. split; [exact Js|].
      intro Hrc. destruct (Hres Hrc (fun g Hg => match Hg with end)) as [_ Hall]. exact Hall.
    - subst exl. unfold frontend_deps in H. rewrite E1, E2, E3 in H. cbn [orb] in H.
      assert (Hself : existsb (bytes_eqb me) ts = false).
      { destruct (existsb (bytes_eqb me) ts) eqn:X; [|reflexivity]. exfalso.
        apply existsb_exists in X as (t & Ht & Et). apply bytes_eqb_eq in Et. subst t. specialize (E7 me Ht). lia. }
      rewrite Hself in H. unfold from_name at 1 in H. rewrite E6 in H.
      destruct (find_row_valid _ _ _ E6) as [_ Nmf].
      destruct (front_fold ex mf me E5 ts w Hj Nmf) as (Jf & Ef & Gf).
      { intros t Ht. split; [exact (proj1 (proj2 (Hts t Ht)))|exact (E7 t Ht)]. }
      set (wa := set_db w (fold_left _ ts (dbs w))) in *.
      pose proof Jf as (_ & Wa & Ja & _).
      assert (Htsa : forall t, In t ts -> tgt_ok wa (mf :: ex) t).
      { intros t Ht. apply (tgt_ok_jstep (mf :: ex) ex w wa t Hj Jf). apply Hts. exact Ht. }
      destruct (run_loop_spec (build fuel) fuel e (mf :: ex) IH HR ts [] wa [] false w' evs rc Ja (PROJ_wsame w wa Wa Hp) Htsa H) as (Js & Hres).
      exists wa. split.
      { unfold front_post. rewrite E1. intros mf' ex' Eq. injection Eq as <- <-. split; [exact Jf|]. split; [exact Ef|exact Gf]. }
      split; [exact Js|]. intro Hrc. destruct (Hres Hrc (fun g Hg => match Hg with end)) as [_ Hall]. exact Hall.
  Qed.
End Job.

(* ================================================================ the whole command, and decidable premises *)
Section Final.
  Variable rk : name -> nat.
  Variable watched : name -> bool.

  (* `redo-ifchange ts` at top level: if it exits 0, every target in ts is
     settled (with its whole recorded closure), and the run invariant holds *)
  Theorem ifchange_step k ts w w' evs rc :
    let R := (maxrun (dbs w) + 1)%Z in
    (0 < R)%Z -> JINV R rk watched (fst (new_run w)) [] -> PROJ rk watched (fst (new_run w)) ->
    (forall t, In t ts -> watched t = false /\ reserved t = false) ->
    exec (CIfChange k ts) w = (w', OutBuild evs rc) ->
    JINV R rk watched w' [] /\
    (rc = 0%Z -> forall t, In t ts -> exists g, find_row (rows (dbs w')) t 1 = Some g /\ ok R w' [] g).
  Proof.
    intros R Rpos Hj Hp Hts H. unfold exec in H. destruct (new_run w) as [w1 R'] eqn:En.
    assert (HR : R' = R) by (unfold new_run in En; injection En as _ <-; reflexivity). subst R'. cbn [fst] in Hj, Hp.
    set (e := {| e_runid := R; e_target := None; e_unlocked := false; e_no_oob := false; e_keep_going := k; e_cycles := [] |}) in *.
    destruct (build (default_fuel w1) e MIfChange ts w1) as [[[w2 ev2] rc2]|] eqn:Eb; [|discriminate].
    injection H as <- _ <-.
    assert (Hpre : build_pre R rk watched e [] ts w1).
    { split; [reflexivity|]. split; [exact Hj|]. split; [exact Hp|]. split.
      - intros t Ht. destruct (Hts t Ht) as [A B]. split; [exact A|]. split; [exact B|]. intros x [].
      - left. reflexivity. }
    destruct (build_rec_spec R Rpos rk watched (default_fuel w1) e [] ts w1 w2 ev2 rc2 Hpre Eb) as (wa & _ & (_ & _ & J & _) & Hok).
    split; [exact J|exact Hok].
  Qed.

  Theorem ifchange_settles k ts w w' evs :
    let R := (maxrun (dbs w) + 1)%Z in
    (0 < R)%Z -> JINV R rk watched (fst (new_run w)) [] -> PROJ rk watched (fst (new_run w)) ->
    (forall t, In t ts -> watched t = false /\ reserved t = false) ->
    exec (CIfChange k ts) w = (w', OutBuild evs 0%Z) ->
    JINV R rk watched w' [] /\
    forall t, In t ts -> exists g, find_row (rows (dbs w')) t 1 = Some g /\ ok R w' [] g.
  Proof.
    intros R Rpos Hj Hp Hts H. destruct (ifchange_step k ts w w' evs 0%Z Rpos Hj Hp Hts H) as [J Hok].
    split; [exact J|exact (Hok eq_refl)].
  Qed.

  (* ---------------------------------------------------------------- decidable premises *)
  Variable R : Z.

  Definition xr_row_b (w : world) (g : fid) : bool :=
    let r := get_row (dbs w) g in
    match r_csum r with None => true | Some _ => false end
    && match r_stamp r, r_changed r with Some _, None => false | _, _ => true end
    && (is_alw w g || negb (reserved (nm w g)))
    && match r_failed r with None => true | Some _ => negb (is_alw w g) end
    && negb (r_ovr r)
    && (negb (r_gen r) ||
        match r_stamp r with
        | Some s => stamp_eqb s (read_stamp w (nm w g)) || stamp_eqb (read_stamp w (nm w g)) SMissing
        | None => false
        end).
  Definition xr_b (w : world) : bool := forallb (xr_row_b w) (seq 1 (length (rows (dbs w)))).
  Definition cre_b (w : world) : bool :=
    forallb (fun d => match d_mode d with DCreated => watched (nm w (d_source d)) | DModified => true end) (deps (dbs w)).

  Lemma stamp_eqb_missing s : stamp_eqb s SMissing = true -> s = SMissing.
  Proof. destruct s; [reflexivity|discriminate]. Qed.

  Lemma xr_b_sound w : (0 < R)%Z -> fresh_run R w -> xr_b w = true -> XR R w [].
  Proof.
    intros Rpos Hfr H g Hg. unfold xr_b in H. rewrite forallb_forall in H.
    assert (Hin : In g (seq 1 (length (rows (dbs w))))) by (apply in_seq; destruct Hg; lia).
    specialize (H g Hin). unfold xr_row_b in H.
    repeat match type of H with _ && _ = true => let A := fresh in apply andb_true_iff in H as [H A] end.
    unfold rowx. split; [destruct (r_csum _); [discriminate|reflexivity]|]. split.
    { intros Hs Hc. destruct (r_stamp (get_row (dbs w) g)); [|contradiction]. rewrite Hc in *. discriminate. }
    split.
    { intro Ha. rewrite Ha in *. cbn [orb] in *. match goal with X : negb (reserved _) = true |- _ => now apply negb_true_iff in X end. }
    split.
    { intros Ea Hm. rewrite (Hfr g Hg Ea) in Hm. discriminate. }
    intros _. split; [match goal with X : negb (r_ovr _) = true |- _ => now apply negb_true_iff in X end|].
    intro Hgen. match goal with X : negb (r_gen _) || _ = true |- _ => rewrite Hgen in X; cbn [negb orb] in X;
      destruct (r_stamp (get_row (dbs w) g)) as [s0|]; [|discriminate]; exists s0; split; [reflexivity|];
      apply orb_true_iff in X as [X|X]; [now left|right; now apply stamp_eqb_missing] end.
  Qed.

  Lemma cre_b_sound w : cre_b w = true -> CRE watched w.
  Proof. intros H d Hin Hm. unfold cre_b in H. rewrite forallb_forall in H. specialize (H d Hin). now rewrite Hm in H. Qed.

  Theorem jinv_fresh_b w :
    (0 < R)%Z -> wfw_b R rk w = true -> fresh_b R w = true -> xr_b w = true -> cre_b w = true ->
    JINV R rk watched w [].
  Proof.
    intros Rpos H1 H2 H3 H4. pose proof (fresh_b_sound R w Rpos H2) as Hfr.
    split; [apply INV_fresh; [apply wfw_b_sound; exact H1|exact Hfr]|].
    split; [apply xr_b_sound; assumption|]. split; [apply cre_b_sound; exact H4|]. intros x [].
  Qed.

  (* the project, for a finite list of possible target names *)
  Definition plain_b (sc : script) : bool :=
    negb (s_tol sc) && negb (s_always sc) && negb (s_stamp sc)
    && forallb (fun n => watched n && negb (reserved n)) (s_ifcreate sc).
  Definition proj_t_b (w : world) (t : name) : bool :=
    forallb (fun c =>
      let k := cand_key (updepth w) c in
      watched k && negb (reserved k) && Nat.ltb (rk k) (rk t)
      && match fs_get (fs w) k with
         | None => true
         | Some fl => plain_b (script_of fl)
                      && forallb (fun d => negb (watched d) && negb (reserved d) && Nat.ltb (rk d) (rk t)) (s_deps (script_of fl))
         end) (do_candidates (updepth w) t).

  Theorem proj_of_list w (L : list name) :
    (forall n, watched n = true -> reserved n = false) ->
    (forall t, watched t = false -> reserved t = false -> In t L) ->
    forallb (proj_t_b w) L = true -> PROJ rk watched w.
  Proof.
    intros P1 HL H. rewrite forallb_forall in H. split; [exact P1|]. split.
    - intros t c Hw Hr Hc. specialize (H t (HL t Hw Hr)). unfold proj_t_b in H. rewrite forallb_forall in H. specialize (H c Hc).
      apply andb_true_iff in H as [H _]. apply andb_true_iff in H as [H A3]. apply andb_true_iff in H as [A1 A2].
      split; [exact A1|]. split; [now apply negb_true_iff in A2|now apply Nat.ltb_lt in A3].
    - intros t c fl Hw Hr Hc Hfl. specialize (H t (HL t Hw Hr)). unfold proj_t_b in H. rewrite forallb_forall in H. specialize (H c Hc).
      apply andb_true_iff in H as [_ H]. rewrite Hfl in H. apply andb_true_iff in H as [Hp Hd].
      split.
      + unfold plain_b in Hp. apply andb_true_iff in Hp as [Hp A4]. apply andb_true_iff in Hp as [Hp A3]. apply andb_true_iff in Hp as [A1 A2].
        unfold plain. split; [now apply negb_true_iff|]. split; [now apply negb_true_iff|]. split; [now apply negb_true_iff|].
        intros n Hn. rewrite forallb_forall in A4. specialize (A4 n Hn). apply andb_true_iff in A4 as [B1 B2].
        split; [exact B1|now apply negb_true_iff].
      + intros d Hd'. rewrite forallb_forall in Hd. specialize (Hd d Hd').
        apply andb_true_iff in Hd as [Hd B3]. apply andb_true_iff in Hd as [B1 B2].
        split; [now apply negb_true_iff in B1|]. split; [now apply negb_true_iff in B2|now apply Nat.ltb_lt in B3].
  Qed.

  (* everything together, premises boolean except the two facts about [watched] *)
  Theorem ifchange_settles_b (L : list name) k ts w w' evs :
    R = (maxrun (dbs w) + 1)%Z -> (0 < R)%Z ->
    wfw_b R rk (fst (new_run w)) = true -> fresh_b R (fst (new_run w)) = true ->
    xr_b (fst (new_run w)) = true -> cre_b (fst (new_run w)) = true ->
    (forall n, watched n = true -> reserved n = false) ->
    (forall t, watched t = false -> reserved t = false -> In t L) ->
    forallb (proj_t_b (fst (new_run w))) L = true ->
    forallb (fun t => negb (watched t) && negb (reserved t)) ts = true ->
    exec (CIfChange k ts) w = (w', OutBuild evs 0%Z) ->
    (forall t, In t ts -> exists g, find_row (rows (dbs w')) t 1 = Some g /\ ok R w' [] g) /\
    QUIET R (rkf rk w') (ok R w' []) w'.
  Proof.
    intros HR Rpos H1 H2 H3 H4 P1 HL H5 H6 H.
    assert (Hj : JINV R rk watched (fst (new_run w)) []) by (apply jinv_fresh_b; assumption).
    assert (Hp : PROJ rk watched (fst (new_run w))) by (eapply proj_of_list; eauto).
    assert (Hts : forall t, In t ts -> watched t = false /\ reserved t = false).
    { intros t Ht. rewrite forallb_forall in H6. specialize (H6 t Ht). apply andb_true_iff in H6 as [A B].
      split; now apply negb_true_iff. }
    subst R.
    destruct (ifchange_settles k ts w w' evs Rpos Hj Hp Hts H) as [J Hok].
    split; [exact Hok|]. apply ok_quiet. destruct J as (((_ & He & _) & _) & _). exact He.
  Qed.
End Final.
