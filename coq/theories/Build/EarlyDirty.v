(* Why the walk may answer "dirty" at once for a plain dependency that somebody
   is rebuilding right now (fix F71, deps.rs): whatever that build does, the row
   it records makes every later check of a dependent that was dealt with before
   this run answer "dirty" as well.  "Plain" = the build records no checksum
   (nobody ran redo-stamp for the target in this run: the row is neither
   checked nor changed in this run when the result is recorded); a checksummed
   target may come out unchanged, which is why the walk has it dealt with first
   instead.  PROOFS over Build/Model.v. *)
From Coq Require Import ZArith List Bool Lia.
From Redo Require Import Base.Bytes Build.Model Build.LocalProofs.
Import ListNotations.

Lemma view_row_failed runid r : r_failed (view_row runid r) = r_failed r.
Proof. unfold view_row. destruct (bytes_eqb (r_name r) always_name); reflexivity. Qed.

Lemma view_row_set_changed runid r : r_changed (view_row runid (set_changed runid r)) = Some runid.
Proof.
  unfold view_row, set_changed, upd_row. cbn [r_name r_changed].
  destruct (bytes_eqb (r_name r) always_name); cbn [r_changed]; [|reflexivity].
  now rewrite Z.max_id.
Qed.

Lemma get_put_row d f r : (1 <= f <= length (rows d))%nat -> get_row (put_row d f r) f = r.
Proof. intro H. unfold get_row, put_row. cbn [rows]. apply nth_set_nth. lia. Qed.

(* the row recorded by a successful build that ran no redo-stamp *)
Lemma record_success_plain_changed runid t f sf before rc stdout has_tmp w :
  (1 <= f <= length (rows (dbs w)))%nat ->
  snd (record_new_state runid t f sf before rc stdout has_tmp w) = 0%Z ->
  is_checked runid (load runid (dbs w) f) || is_changed runid (load runid (dbs w) f) = false ->
  r_changed (load runid (dbs (fst (record_new_state runid t f sf before rc stdout has_tmp w))) f) = Some runid.
Proof.
  intros Hf Hrv Hplain. unfold record_new_state in *. revert Hrv.
  match goal with
  | |- context [if Z.eqb ?rv 0 then _ else _] => destruct (Z.eqb rv 0) eqn:Erv
  end.
  2:{ intro Hrv. exfalso. cbn [snd] in Hrv. apply Z.eqb_neq in Erv. auto. }
  intros _.
  match goal with
  | |- context [match stdout with Some _ => _ | None => _ end] => idtac
  end.
  set (w1 := match stdout, has_tmp with
             | Some content, false => rename_file (write_file (remove_file w (tmp_of t)) (tmp_of t) content None) (tmp_of t) t
             | _, true => rename_file w (tmp_of t) t
             | None, false => remove_file w t
             end).
  assert (Hdb : dbs w1 = dbs w).
  { unfold w1, rename_file, write_file, remove_file.
    destruct stdout, has_tmp; cbn [fs dbs];
      repeat match goal with |- context [match ?X with Some _ => _ | None => _ end] => destruct X end; reflexivity. }
  rewrite Hdb.
  assert (Hp2 : is_checked runid (upd_row (load runid (dbs w) f) true false (r_checked (load runid (dbs w) f))
                   (r_changed (load runid (dbs w) f)) (r_failed (load runid (dbs w) f)) (r_stamp (load runid (dbs w) f))
                   (r_csum (load runid (dbs w) f)))
                || is_changed runid (upd_row (load runid (dbs w) f) true false (r_checked (load runid (dbs w) f))
                   (r_changed (load runid (dbs w) f)) (r_failed (load runid (dbs w) f)) (r_stamp (load runid (dbs w) f))
                   (r_csum (load runid (dbs w) f))) = false) by exact Hplain.
  rewrite Hp2. cbn [fst dbs set_db].
  unfold load. rewrite get_put_row.
  - apply view_row_set_changed.
  - unfold zap_deps2. cbn [rows]. rewrite Hdb. exact Hf.
Qed.

(* whatever the build of a plain target does, every later check of it on behalf
   of a dependent last dealt with before this run answers "dirty", at once and
   without touching anything -- what the walk now answers while the build is
   still under way *)
Theorem being_rebuilt_plain_is_dirty_afterwards runid t f sf before rc stdout has_tmp w :
  (1 <= f <= length (rows (dbs w)))%nat ->
  (0 < runid)%Z ->
  is_checked runid (load runid (dbs w) f) || is_changed runid (load runid (dbs w) f) = false ->
  let w' := fst (record_new_state runid t f sf before rc stdout has_tmp w) in
  forall fuel runid2 cyc w2 c mx seen,
    existsb (Nat.eqb f) seen = false -> (mx < runid)%Z ->
    is_dirty (S fuel) runid2 cyc w2 c f (load runid (dbs w') f) mx seen = Ret (VDirty, w2, c, []).
Proof.
  intros Hf Hpos Hplain w' fuel runid2 cyc w2 c mx seen Hseen Hmx.
  destruct (Z.eq_dec (snd (record_new_state runid t f sf before rc stdout has_tmp w)) 0) as [H0|Hn].
  - pose proof (record_success_plain_changed runid t f sf before rc stdout has_tmp w Hf H0 Hplain) as Hc.
    fold w' in Hc.
    destruct (r_failed (load runid (dbs w') f)) eqn:Ef.
    + apply is_dirty_failed; [exact Hseen|congruence].
    + eapply is_dirty_newer; eauto.
  - pose proof (record_failure_marks runid t f sf before rc stdout has_tmp w Hf Hn) as Hfl.
    apply is_dirty_failed; [exact Hseen|].
    unfold load. rewrite view_row_failed. fold w'. unfold w'. rewrite Hfl. discriminate.
Qed.
