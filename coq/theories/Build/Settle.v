(* Whole-build invariant, part 1: the builder's dirtiness walk.

   During a run R the rows that the run has dealt with (checked_runid or
   changed_runid = R, not failed) are SETTLED: the row matches the file on
   disk, the watched (redo-ifcreate) paths are absent, and every recorded
   redo-ifchange dependency is settled too.  The invariant INV says so for
   every such row outside the list [ex] of targets that are in mid-build.
   This file shows that the walk (private_is_dirty with its database writes
   and its stale copies, Model.is_dirty in ChkDb mode) keeps INV and that a
   CLEAN verdict means "settled".

   Hypotheses on the recorded graph: a rank on names decreases along every
   recorded redo-ifchange edge (no recorded cycle; the targets in mid-build
   have a larger rank than what is being checked), and no edge leads to
   //ALWAYS (projects without redo-always). *)
From Coq Require Import ZArith List Bool Arith Lia.
Import ListNotations.
From Redo Require Import Base.Bytes Base.BytesProofs Build.Model Build.FsLemmas Build.LocalProofs
                         Build.Protect Build.FailProofs Build.OnceProofs Build.OodAgree Build.CleanProofs Build.CleanDb.

Section Settle.
  Variable R : Z.
  Hypothesis Rpos : (0 < R)%Z.
  Variable rk : name -> nat.

  Notation ldw w g := (load R (dbs w) g).
  Definition nm (w : world) (g : fid) : name := r_name (get_row (dbs w) g).
  Definition rkf (w : world) (g : fid) : nat := rk (nm w g).
  Definition valid (w : world) (g : fid) : Prop := (1 <= g <= length (rows (dbs w)))%nat.
  Definition marked (r : row) : bool := is_checked R r || is_changed R r.
  Definition is_alw (w : world) (g : fid) : bool := bytes_eqb (nm w g) always_name.

  Definition rowbase (w : world) (g : fid) : Prop :=
    let r := ldw w g in
    r_failed r = None /\ (exists chg, r_changed r = Some chg /\ (chg <= R)%Z) /\
    exists old, r_stamp r = Some old /\ stamp_eqb old (read_stamp w (r_name r)) = true.

  Inductive ok (w : world) (ex : list fid) : fid -> Prop :=
  | ok_intro g :
      valid w g -> ~ In g ex -> is_alw w g = false -> rowbase w g ->
      (marked (ldw w g) = true \/ deps_of (dbs w) (ldw w g) g = []) ->
      (forall d, In d (deps_of (dbs w) (ldw w g) g) ->
         (d_mode d = DCreated -> exists_b w (nm w (d_source d)) = false) /\
         (d_mode d = DModified -> ok w ex (d_source d))) ->
      ok w ex g.

  Lemma ok_ind2 w ex (P : fid -> Prop) :
    (forall g, valid w g -> ~ In g ex -> is_alw w g = false -> rowbase w g ->
       (marked (ldw w g) = true \/ deps_of (dbs w) (ldw w g) g = []) ->
       (forall d, In d (deps_of (dbs w) (ldw w g) g) ->
          (d_mode d = DCreated -> exists_b w (nm w (d_source d)) = false) /\
          (d_mode d = DModified -> ok w ex (d_source d) /\ P (d_source d))) ->
       P g) ->
    forall g, ok w ex g -> P g.
  Proof.
    intro H. fix IH 2. intros g Hok. destruct Hok as [g Hv Hex Ha Hb Hm Hd].
    apply H; auto. intros d Hin. destruct (Hd d Hin) as [A B]. split; [exact A|].
    intro Hm'. split; [exact (B Hm')|]. apply IH. exact (B Hm').
  Qed.

  (* ---------------------------------------------------------------- well-formed worlds *)
  Definition edges_ok (w : world) : Prop :=
    forall d, In d (deps (dbs w)) ->
      valid w (d_target d) /\ valid w (d_source d) /\ is_alw w (d_source d) = false /\
      (d_mode d = DModified -> (rkf w (d_source d) < rkf w (d_target d))%nat).

  Definition bounded (w : world) : Prop :=
    forall g, valid w g ->
      (forall c, r_checked (get_row (dbs w) g) = Some c -> (c <= R)%Z) /\
      (forall c, r_changed (get_row (dbs w) g) = Some c -> (c <= R)%Z).

  Definition WFW (w : world) : Prop := NoDup (names (dbs w)) /\ edges_ok w /\ bounded w.

  Definition INV (w : world) (ex : list fid) : Prop :=
    WFW w /\
    forall g, valid w g -> ~ In g ex -> is_alw w g = false ->
      marked (ldw w g) = true -> r_failed (ldw w g) = None -> ok w ex g.

  Definition below (w : world) (f : fid) (ex : list fid) : Prop :=
    forall x, In x ex -> (rkf w f < rkf w x)%nat.

  (* ---------------------------------------------------------------- what a walk does to the world *)
  Definition keep (a b : row) : Prop :=
    r_name b = r_name a /\ r_changed b = r_changed a /\ r_stamp b = r_stamp a /\ r_ovr b = r_ovr a /\
    r_csum b = r_csum a /\ (r_failed a = None -> r_failed b = None) /\
    (r_checked b = r_checked a \/ r_checked b = Some R).

  Lemma keep_refl a : keep a a.
  Proof. unfold keep. repeat split; auto. Qed.
  Lemma keep_trans a b c : keep a b -> keep b c -> keep a c.
  Proof.
    intros (A1 & A2 & A3 & A4 & A5 & A6 & A7) (B1 & B2 & B3 & B4 & B5 & B6 & B7).
    unfold keep. repeat split; try congruence; auto.
    destruct B7 as [E|E]; [rewrite E; exact A7|now right].
  Qed.
  Lemma keep_marked a b : keep a b -> marked a = true -> marked b = true.
  Proof.
    intros (_ & A2 & _ & _ & _ & _ & A7) H. unfold marked, is_checked, is_changed in *. rewrite A2.
    destruct A7 as [E|E]; rewrite E; [exact H|].
    rewrite (OnceProofs.geb_self R Rpos). reflexivity.
  Qed.

  Definition walkrel (w0 w : world) : Prop :=
    fs w = fs w0 /\ deps (dbs w) = deps (dbs w0) /\ names (dbs w) = names (dbs w0) /\
    forall g, keep (ldw w0 g) (ldw w g).

  Lemma walkrel_refl w : walkrel w w.
  Proof. split; [reflexivity|]. split; [reflexivity|]. split; [reflexivity|]. intro g. apply keep_refl. Qed.
  Lemma walkrel_trans a b c : walkrel a b -> walkrel b c -> walkrel a c.
  Proof.
    intros (A1 & A2 & A3 & A4) (B1 & B2 & B3 & B4).
    split; [congruence|]. split; [congruence|]. split; [congruence|]. intro g. eapply keep_trans; eauto.
  Qed.

  Lemma names_length_rows w w' : names (dbs w') = names (dbs w) -> length (rows (dbs w')) = length (rows (dbs w)).
  Proof. intro H. rewrite <- !names_length. now rewrite H. Qed.

  Lemma nm_names w w' g : names (dbs w') = names (dbs w) -> nm w' g = nm w g.
  Proof. intro H. unfold nm. rewrite !name_get_row. now rewrite H. Qed.

  Lemma valid_names w w' g : names (dbs w') = names (dbs w) -> valid w g -> valid w' g.
  Proof. intros H Hv. unfold valid in *. now rewrite (names_length_rows w w' H). Qed.

  Lemma ld_name w g : r_name (ldw w g) = nm w g.
  Proof. unfold load, nm. apply view_row_name. Qed.

  (* ---------------------------------------------------------------- small facts *)
  Lemma ld_not_alw w g : is_alw w g = false -> ldw w g = get_row (dbs w) g.
  Proof. intro H. unfold load. apply view_not_always. exact H. Qed.

  Lemma in_deps_of d0 r g x : In x (deps_of d0 r g) -> In x (deps d0) /\ d_target x = g.
  Proof.
    unfold deps_of. destruct (r_ovr r || negb (r_gen r)); [intros []|].
    intro H. apply in_sort_deps in H. apply filter_In in H as [H1 H2]. split; [exact H1|].
    now apply Nat.eqb_eq in H2.
  Qed.

  Lemma below_not_in w f ex : below w f ex -> ~ In f ex.
  Proof. intros H Hin. specialize (H f Hin). lia. Qed.

  Lemma marked_checked_R r : r_checked r = Some R -> marked r = true.
  Proof. intro H. unfold marked, is_checked. rewrite H. rewrite (OnceProofs.geb_self R Rpos). reflexivity. Qed.

  (* frame: ok only looks at files, dependency records, names and rows *)
  Lemma ok_mono_gen w w' ex :
    fs w' = fs w -> deps (dbs w') = deps (dbs w) -> names (dbs w') = names (dbs w) ->
    (forall g, ok w ex g -> ldw w' g = ldw w g \/ ok w' ex g) ->
    forall g, ok w ex g -> ok w' ex g.
  Proof.
    intros Hfs Hdeps Hnm Hsame g Hok. induction Hok as [g Hv Hex Ha Hb Hm Hd] using ok_ind2.
    assert (Hokg : ok w ex g).
    { apply ok_intro; auto. intros d Hin. destruct (Hd d Hin) as [A B]. split; [exact A|]. intro X. exact (proj1 (B X)). }
    destruct (Hsame g Hokg) as [E|E]; [|exact E].
    assert (Hdo : deps_of (dbs w') (ldw w' g) g = deps_of (dbs w) (ldw w g) g).
    { unfold deps_of. now rewrite Hdeps, E. }
    apply ok_intro.
    - eapply valid_names; eauto.
    - exact Hex.
    - unfold is_alw. now rewrite (nm_names w w' g Hnm).
    - unfold rowbase in *. rewrite E. unfold read_stamp in *. rewrite Hfs. exact Hb.
    - rewrite Hdo, E. exact Hm.
    - rewrite Hdo. intros d Hin. destruct (Hd d Hin) as [A B]. split.
      + intro X. unfold exists_b in *. rewrite Hfs, (nm_names w w' _ Hnm). exact (A X).
      + intro X. exact (proj2 (B X)).
  Qed.

  (* ---------------------------------------------------------------- one row rewritten *)
  Definition putw (w : world) (f : fid) (r' : row) : world := set_db w (put_row (dbs w) f r').

  Lemma putw_names w f r' : r_name r' = nm w f -> names (dbs (putw w f r')) = names (dbs w).
  Proof. intro H. unfold putw. cbn [dbs set_db]. apply names_put_row. exact H. Qed.

  Lemma putw_ld_other w f r' g : valid w g -> valid w f -> g <> f -> ldw (putw w f r') g = ldw w g.
  Proof.
    intros [Hg _] [Hf _] Hne. unfold putw. cbn [dbs set_db]. unfold load. rewrite get_row_put_row_other; [reflexivity|lia].
  Qed.

  Lemma putw_ld_same w f r' : valid w f -> ldw (putw w f r') f = view_row R r'.
  Proof.
    intros [Hf1 Hf2]. unfold putw. cbn [dbs set_db]. unfold load, get_row. rewrite rows_put_row.
    rewrite nth_set_nth by lia. reflexivity.
  Qed.

  (* below the rewritten row nothing changes *)
  Lemma ok_put_below w ex f r' :
    edges_ok w -> valid w f -> r_name r' = nm w f ->
    forall g, ok w ex g -> (rkf w g < rkf w f)%nat -> ok (putw w f r') ex g.
  Proof.
    intros He Hf Hname g Hok. induction Hok as [g Hv Hex Ha Hb Hm Hd] using ok_ind2. intro Hlt.
    assert (Hne : g <> f) by (intro X; subst g; lia).
    pose proof (putw_names w f r' Hname) as Hnm.
    assert (E : ldw (putw w f r') g = ldw w g) by (apply putw_ld_other; assumption).
    assert (Hdo : deps_of (dbs (putw w f r')) (ldw (putw w f r') g) g = deps_of (dbs w) (ldw w g) g).
    { unfold deps_of. rewrite E. reflexivity. }
    apply ok_intro.
    - eapply valid_names; eauto.
    - exact Hex.
    - unfold is_alw. now rewrite (nm_names w _ g Hnm).
    - unfold rowbase in *. rewrite E. exact Hb.
    - rewrite Hdo, E. exact Hm.
    - rewrite Hdo. intros d Hin. destruct (Hd d Hin) as [A B]. split.
      + intro X. unfold exists_b in *. cbn [fs putw set_db]. rewrite (nm_names w _ _ Hnm). exact (A X).
      + intro X. apply (proj2 (B X)).
        destruct (in_deps_of _ _ _ _ Hin) as [Hin' Ht]. destruct (He d Hin') as (_ & _ & _ & Hr).
        specialize (Hr X). rewrite Ht in Hr. lia.
  Qed.

  (* everywhere, once the rewritten row itself is taken care of *)
  Lemma ok_put_all w ex f r' :
    valid w f -> r_name r' = nm w f ->
    (ok w ex f -> ok (putw w f r') ex f) ->
    forall g, ok w ex g -> ok (putw w f r') ex g.
  Proof.
    intros Hf Hname Hself. apply ok_mono_gen; try reflexivity.
    - apply putw_names. exact Hname.
    - intros g Hok. destruct (Nat.eq_dec g f) as [->|Hne]; [right; auto|left].
      apply putw_ld_other; auto. destruct Hok; assumption.
  Qed.

  Lemma valid_putw w f r' g : r_name r' = nm w f -> valid (putw w f r') g <-> valid w g.
  Proof. intro H. unfold valid. rewrite (names_length_rows w _ (putw_names w f r' H)). tauto. Qed.

  Lemma rkf_putw w f r' g : r_name r' = nm w f -> rkf (putw w f r') g = rkf w g.
  Proof. intro H. unfold rkf. now rewrite (nm_names w _ g (putw_names w f r' H)). Qed.

  Lemma is_alw_putw w f r' g : r_name r' = nm w f -> is_alw (putw w f r') g = is_alw w g.
  Proof. intro H. unfold is_alw. now rewrite (nm_names w _ g (putw_names w f r' H)). Qed.

  Lemma get_row_putw_same w f r' : valid w f -> get_row (dbs (putw w f r')) f = r'.
  Proof. intros [H1 H2]. unfold putw. cbn [dbs set_db]. unfold get_row. rewrite rows_put_row. apply nth_set_nth. lia. Qed.

  Lemma get_row_putw_other w f r' g : valid w g -> valid w f -> g <> f -> get_row (dbs (putw w f r')) g = get_row (dbs w) g.
  Proof. intros [Hg _] [Hf _] Hne. unfold putw. cbn [dbs set_db]. apply get_row_put_row_other. lia. Qed.

  Lemma INV_put w ex f r' :
    INV w ex -> valid w f -> r_name r' = nm w f ->
    (forall c, r_checked r' = Some c -> (c <= R)%Z) -> (forall c, r_changed r' = Some c -> (c <= R)%Z) ->
    (ok w ex f -> ok (putw w f r') ex f) ->
    (~ In f ex -> is_alw w f = false -> marked (view_row R r') = true -> r_failed r' = None -> ok (putw w f r') ex f) ->
    INV (putw w f r') ex.
  Proof.
    intros [(Hnd & He & Hb) Hmark] Hf Hname Hc1 Hc2 Hself Hnew.
    pose proof (putw_names w f r' Hname) as Hnm.
    split; [split; [|split]|].
    - now rewrite Hnm.
    - intros d Hin. cbn [putw dbs set_db put_row deps] in Hin. destruct (He d Hin) as (A & B & C & D).
      rewrite !valid_putw, is_alw_putw, !rkf_putw by exact Hname. auto.
    - intros g Hg. apply (valid_putw w f r' g Hname) in Hg.
      destruct (Nat.eq_dec g f) as [->|Hne].
      + rewrite get_row_putw_same by exact Hf. split; assumption.
      + rewrite get_row_putw_other by assumption. apply Hb. exact Hg.
    - intros g Hg Hex Ha Hm Hfl. apply (valid_putw w f r' g Hname) in Hg. rewrite is_alw_putw in Ha by exact Hname.
      destruct (Nat.eq_dec g f) as [->|Hne].
      + rewrite putw_ld_same in Hm, Hfl by exact Hf. apply Hnew; auto.
        unfold view_row in Hfl. destruct (bytes_eqb _ _); exact Hfl.
      + rewrite putw_ld_other in Hm, Hfl by assumption.
        apply ok_put_all; auto.
  Qed.

  Lemma walkrel_putw w f r' :
    valid w f -> r_name r' = nm w f -> keep (ldw w f) (view_row R r') -> walkrel w (putw w f r').
  Proof.
    intros [Hf1 Hf2] Hname Hk.
    split; [reflexivity|]. split; [reflexivity|]. split; [apply putw_names; exact Hname|].
    intro g. unfold putw. cbn [dbs set_db].
    destruct (Nat.eq_dec (g - 1) (f - 1)) as [E|E].
    - rewrite (ld_put_row_same R) by (auto; lia).
      assert (Hg : ldw w g = ldw w f) by (unfold load, get_row; now rewrite E). rewrite Hg. exact Hk.
    - rewrite (ld_put_row_other R) by exact E. apply keep_refl.
  Qed.

  (* ================================================================ the walk *)
  Section Walk.
    Variable ex : list fid.

    Lemma stamp_mismatch_not_ok w0 w f old :
      walkrel w0 w -> is_alw w f = false ->
      r_stamp (ldw w0 f) = Some old -> stamp_eqb old (read_stamp w (r_name (ldw w0 f))) = false ->
      ~ ok w ex f.
    Proof.
      intros (Hfs & _ & _ & Hk) Ha Hs Hmis Hok. destruct Hok as [g _ _ _ Hb _ _].
      destruct Hb as (_ & _ & old' & Hs' & Hok').
      destruct (Hk g) as (K1 & _ & K3 & _). rewrite K3, Hs in Hs'. injection Hs' as <-.
      rewrite K1 in Hok'. congruence.
    Qed.

    (* forgetting a generated file that has disappeared *)
    Lemma forget_INV w0 w f old :
      walkrel w0 w -> bounded w0 -> INV w ex -> valid w f -> is_alw w f = false -> ~ In f ex ->
      marked (ldw w0 f) = false -> r_failed (ldw w0 f) = None ->
      r_stamp (ldw w0 f) = Some old -> stamp_eqb old (read_stamp w (r_name (ldw w0 f))) = false ->
      forall ns, let w1 := forget_missing w f (ldw w0 f) ns in
      walkrel w w1 /\ INV w1 ex /\ (forall g, ok w ex g -> ok w1 ex g).
    Proof.
      intros Hrel Hb0 Hinv Hf Ha Hex Hm Hfl Hs Hmis ns. cbv zeta. unfold forget_missing.
      destruct ns; [|split; [apply walkrel_refl|split; [exact Hinv|auto]]].
      destruct (r_gen (ldw w0 f)); [|split; [apply walkrel_refl|split; [exact Hinv|auto]]].
      set (r := ldw w0 f) in *.
      set (r' := upd_row r false (r_ovr r) (r_checked r) (r_changed r) None (r_stamp r) (r_csum r)).
      change (set_db w (put_row (dbs w) f r')) with (putw w f r').
      pose proof (stamp_mismatch_not_ok w0 w f old Hrel Ha Hs Hmis) as Hnok.
      destruct Hrel as (Hfs & Hdp & Hnm & Hk).
      assert (Ha0 : is_alw w0 f = false) by (unfold is_alw in *; now rewrite <- (nm_names w0 w f Hnm)).
      assert (Hname : r_name r' = nm w f).
      { cbn [r' upd_row r_name]. unfold r. rewrite ld_name. symmetry. apply nm_names. exact Hnm. }
      assert (Hvr' : view_row R r' = r').
      { apply view_not_always. rewrite Hname. exact Ha. }
      (* the current row is not marked: it would be settled *)
      assert (Hcur : marked (ldw w f) = false).
      { destruct (marked (ldw w f)) eqn:E; [|reflexivity]. exfalso. apply Hnok.
        destruct Hinv as [_ Hmark]. apply Hmark; auto.
        destruct (Hk f) as (_ & _ & _ & _ & _ & K6 & _). apply K6. exact Hfl. }
      split; [|split].
      - apply walkrel_putw; auto. rewrite Hvr'.
        destruct (Hk f) as (K1 & K2 & K3 & K4 & K5 & K6 & K7). fold r in K1, K2, K3, K4, K5, K6, K7.
        unfold keep. cbn [r' upd_row r_name r_changed r_stamp r_ovr r_csum r_failed r_checked].
        repeat split; try congruence.
        destruct K7 as [E|E]; [left; congruence|].
        exfalso. rewrite (marked_checked_R _ E) in Hcur. discriminate.
      - apply INV_put; auto.
        + intros c Hc. cbn [r' upd_row r_checked] in Hc. destruct (Hb0 f) as [B1 _].
          { eapply valid_names; [|exact Hf]. symmetry. exact Hnm. }
          apply B1. unfold r in Hc. rewrite ld_not_alw in Hc by exact Ha0. exact Hc.
        + intros c Hc. cbn [r' upd_row r_changed] in Hc. destruct (Hb0 f) as [_ B2].
          { eapply valid_names; [|exact Hf]. symmetry. exact Hnm. }
          apply B2. unfold r in Hc. rewrite ld_not_alw in Hc by exact Ha0. exact Hc.
        + intro X. contradiction.
        + intros _ _ Hmk _. rewrite Hvr' in Hmk. unfold marked, is_checked, is_changed in *.
          cbn [r' upd_row r_checked r_changed] in Hmk. fold r in Hm. congruence.
      - apply ok_put_all; auto. intro X. contradiction.
    Qed.

    (* the final write-back of a walk that found everything clean *)
    Lemma writeback_INV w0 w wk f old chg :
      walkrel w0 w -> walkrel w wk -> INV wk ex -> valid w f -> is_alw w f = false -> ~ In f ex ->
      r_failed (ldw w0 f) = None -> r_changed (ldw w0 f) = Some chg -> (chg <= R)%Z ->
      r_stamp (ldw w0 f) = Some old -> stamp_eqb old (read_stamp w (r_name (ldw w0 f))) = true ->
      (forall d, In d (deps_of (dbs w) (ldw w0 f) f) ->
         (d_mode d = DCreated -> exists_b w (nm w (d_source d)) = false) /\
         (d_mode d = DModified -> ok wk ex (d_source d))) ->
      let w2 := putw wk f (set_checked R (ldw w0 f)) in
      walkrel wk w2 /\ INV w2 ex /\ (forall g, ok wk ex g -> ok w2 ex g) /\ ok w2 ex f.
    Proof.
      intros H0 Hk Hinv Hf Ha Hex Hfl Hc Hle Hs Hok Hd. cbv zeta.
      set (r := ldw w0 f) in *. set (r' := set_checked R r).
      destruct H0 as (F0 & D0 & N0 & K0). destruct Hk as (F1 & D1 & N1 & K1).
      assert (Hfk : valid wk f) by (eapply valid_names; eauto).
      assert (Hak : is_alw wk f = false) by (unfold is_alw in *; now rewrite (nm_names w wk f N1)).
      assert (Hname : r_name r' = nm wk f).
      { cbn [r' set_checked upd_row r_name]. unfold r. rewrite ld_name.
        rewrite (nm_names w wk f N1). symmetry. apply nm_names. exact N0. }
      assert (Hvr' : view_row R r' = r') by (apply view_not_always; rewrite Hname; exact Hak).
      assert (Hkk : keep r (ldw wk f)) by (eapply keep_trans; [apply K0|apply K1]).
      assert (Hw2 : walkrel wk (putw wk f r')).
      { apply walkrel_putw; auto. rewrite Hvr'. destruct Hkk as (A1 & A2 & A3 & A4 & A5 & A6 & A7).
        unfold keep. cbn [r' set_checked upd_row r_name r_changed r_stamp r_ovr r_csum r_failed r_checked].
        repeat split; try congruence. now right. }
      assert (Hokf : ok (putw wk f r') ex f).
      { destruct Hinv as [(_ & Hek & _) _].
        assert (Hdo : deps_of (dbs (putw wk f r')) (ldw (putw wk f r') f) f = deps_of (dbs w) r f).
        { rewrite putw_ld_same by exact Hfk. rewrite Hvr'. unfold deps_of.
          cbn [putw dbs set_db put_row deps r' set_checked upd_row r_ovr r_gen]. now rewrite D1. }
        apply ok_intro.
        - apply valid_putw; auto.
        - exact Hex.
        - rewrite is_alw_putw by exact Hname. exact Hak.
        - unfold rowbase. rewrite putw_ld_same by exact Hfk. rewrite Hvr'.
          cbn [r' set_checked upd_row r_failed r_changed r_stamp r_name].
          split; [exact Hfl|]. split; [exists chg; auto|]. exists old. split; [exact Hs|].
          unfold read_stamp in *. cbn [putw fs set_db]. rewrite F1. exact Hok.
        - left. rewrite putw_ld_same by exact Hfk. rewrite Hvr'. apply marked_checked_R. reflexivity.
        - rewrite Hdo. intros d Hin. destruct (Hd d Hin) as [A B]. split.
          + intro X. unfold exists_b in *. cbn [putw fs set_db]. rewrite F1.
            rewrite (nm_names wk _ _ (putw_names wk f r' Hname)), (nm_names w wk _ N1). exact (A X).
          + intro X. apply ok_put_below; auto.
            destruct (in_deps_of _ _ _ _ Hin) as [Hin' Ht]. rewrite <- D1 in Hin'.
            destruct (Hek d Hin') as (_ & _ & _ & Hr). specialize (Hr X). now rewrite Ht in Hr. }
      split; [exact Hw2|]. split; [|split; [|exact Hokf]].
      - apply INV_put; auto.
        + intros c Hc'. cbn [r' set_checked upd_row r_checked] in Hc'. injection Hc' as <-. lia.
        + intros c Hc'. cbn [r' set_checked upd_row r_changed] in Hc'. rewrite Hc in Hc'. injection Hc' as <-. exact Hle.
      - apply ok_put_all; auto.
    Qed.

    Lemma is_dirty_need_nonempty_c : forall fuel cyc w c f r mx seen l w' c' e,
      is_dirty fuel R cyc w c f r mx seen = Ret (VNeed l, w', c', e) -> l <> [].
    Proof.
      induction fuel as [|fuel IH]; intros cyc w c f r mx seen l w' c' e H; [discriminate|].
      cbn [is_dirty] in H.
      destruct (existsb (Nat.eqb f) seen); [discriminate|].
      destruct (r_failed r); [discriminate|].
      destruct (r_changed r) as [chg|]; [|discriminate].
      destruct (Z.ltb mx chg); [discriminate|].
      destruct (chk_is_checked c R r f); [discriminate|].
      destruct (r_stamp r) as [old|]; [|discriminate].
      destruct (negb (stamp_eqb old (read_stamp w (r_name r)))).
      { destruct (r_csum r); inversion H; subst. discriminate. }
      eapply (walk_need_nonempty R); [|exact H]. intros w0 c0 s rs l0 w0' c0' e0 E. cbv beta in E.
      destruct (existsb (Nat.eqb s) cyc); [discriminate|]. eapply IH; exact E.
    Qed.

    Definition walk_post (w w' : world) : Prop :=
      walkrel w w' /\ INV w' ex /\ (forall g, ok w ex g -> ok w' ex g).

    Lemma walk_post_refl w : INV w ex -> walk_post w w.
    Proof. intro H. split; [apply walkrel_refl|]. split; [exact H|auto]. Qed.
    Lemma walk_post_trans a b c : walk_post a b -> walk_post b c -> walk_post a c.
    Proof.
      intros (A1 & A2 & A3) (B1 & B2 & B3). split; [eapply walkrel_trans; eauto|]. split; [exact B2|auto].
    Qed.

    Definition check_spec (fuel : nat) : Prop :=
      forall cyc w0 w f mx seen v w' c' evs,
        walkrel w0 w -> bounded w0 -> INV w ex -> below w f ex -> valid w f -> is_alw w f = false ->
        is_dirty fuel R cyc w ChkDb f (ldw w0 f) mx seen = Ret (v, w', c', evs) ->
        walk_post w w' /\ c' = ChkDb /\ (v = VClean -> ok w' ex f).

    (* the walk over the dependency list of f; [dn] are the edges dealt with so far *)
    Lemma walk_INV fuel cyc w0 w f chg old seen smx :
      check_spec fuel ->
      walkrel w0 w -> INV w ex -> below w f ex -> valid w f -> is_alw w f = false ->
      r_failed (ldw w0 f) = None -> r_changed (ldw w0 f) = Some chg -> (chg <= R)%Z ->
      r_stamp (ldw w0 f) = Some old -> stamp_eqb old (read_stamp w (r_name (ldw w0 f))) = true ->
      forall ds dn, deps_of (dbs w) (ldw w0 f) f = dn ++ ds ->
      forall wk must evs v w' c' evs',
        walk_post w wk ->
        (must = [] -> forall d, In d dn ->
           (d_mode d = DCreated -> exists_b w (nm w (d_source d)) = false) /\
           (d_mode d = DModified -> ok wk ex (d_source d))) ->
        walk_deps (fun w1 c s rs => if existsb (Nat.eqb s) cyc then Ret (VDirty, w1, c, [])
                                    else is_dirty fuel R cyc w1 c s rs smx (f :: seen))
                  R f (ldw w0 f) (map (fun x => (x, ldw w (d_source x))) ds) wk ChkDb must evs
        = Ret (v, w', c', evs') ->
        walk_post w w' /\ c' = ChkDb /\ (v = VClean -> ok w' ex f).
    Proof.
      intros IH H0 Hinv Hbel Hf Ha Hfl Hc Hle Hs Hok.
      assert (Hex : ~ In f ex) by (eapply below_not_in; eauto).
      induction ds as [|d ds IHds]; intros dn Hsplit wk must evs v w' c' evs' Hpost Hdn H; cbn [map walk_deps] in H.
      - rewrite app_nil_r in Hsplit. destruct must as [|m0 must'].
        + injection H as <- <- <- <-.
          destruct Hpost as (P1 & P2 & P3).
          destruct (writeback_INV w0 w wk f old chg H0 P1 P2 Hf Ha Hex Hfl Hc Hle Hs Hok) as (W1 & W2 & W3 & W4).
          { rewrite Hsplit. intros d Hin. apply Hdn; auto. }
          split; [|split; [reflexivity|intros _; exact W4]].
          split; [eapply walkrel_trans; eauto|]. split; [exact W2|auto].
        + injection H as <- <- <- <-. split; [exact Hpost|]. split; [reflexivity|discriminate].
      - assert (Hin : In d (deps_of (dbs w) (ldw w0 f) f)) by (rewrite Hsplit; apply in_or_app; right; now left).
        assert (Hsplit' : deps_of (dbs w) (ldw w0 f) f = (dn ++ [d]) ++ ds) by (rewrite <- app_assoc; exact Hsplit).
        destruct Hpost as (P1 & P2 & P3).
        destruct (d_mode d) eqn:Em.
        + (* redo-ifcreate edge *)
          assert (En : r_name (ldw w (d_source d)) = nm w (d_source d)) by apply ld_name.
          destruct (exists_b wk (r_name (ldw w (d_source d)))) eqn:Ee.
          * destruct (r_csum (ldw w0 f)); injection H as <- <- <- <-;
              (split; [split; [exact P1|split; [exact P2|exact P3]]|split; [reflexivity|discriminate]]).
          * eapply (IHds (dn ++ [d]) Hsplit'); [split; [exact P1|split; [exact P2|exact P3]]| |exact H].
            intros Hm0 d' Hin'. apply in_app_or in Hin' as [Hin'|[<-|[]]]; [apply Hdn; auto|].
            split; [|rewrite Em; discriminate]. intros _.
            destruct P1 as (F1 & _). unfold exists_b in *. rewrite F1, En in Ee. exact Ee.
        + (* redo-ifchange edge *)
          destruct (existsb (Nat.eqb (d_source d)) cyc).
          { destruct (r_csum (ldw w0 f)); injection H as <- <- <- <-;
              (split; [split; [exact P1|split; [exact P2|exact P3]]|split; [reflexivity|discriminate]]). }
          destruct (is_dirty fuel R cyc wk ChkDb (d_source d) (ldw w (d_source d)) smx (f :: seen))
            as [[[[v1 w1] c1] e1]|] eqn:E; [|discriminate].
          (* the sub-check: a copy taken at w, judged at wk *)
          destruct Hinv as [(Hnd & He & Hb) Hmark].
          destruct (in_deps_of _ _ _ _ Hin) as [Hin0 Ht]. destruct (He d Hin0) as (_ & Hvs & Has & Hr).
          specialize (Hr Em). rewrite Ht in Hr.
          destruct P1 as (F1 & D1 & N1 & K1).
          assert (Hsub : walk_post wk w1 /\ c1 = ChkDb /\ (v1 = VClean -> ok w1 ex (d_source d))).
          { eapply (IH cyc w wk); [split; [exact F1|split; [exact D1|split; [exact N1|exact K1]]]|exact Hb|exact P2| | | |exact E].
            - intros x Hx. unfold rkf. rewrite !(nm_names w wk _ N1). specialize (Hbel x Hx). unfold rkf in *. lia.
            - eapply valid_names; eauto.
            - unfold is_alw. rewrite (nm_names w wk _ N1). exact Has. }
          destruct Hsub as ((Q1 & Q2 & Q3) & -> & Hcl).
          assert (Hpost1 : walk_post w w1).
          { split; [eapply walkrel_trans; [split; [exact F1|split; [exact D1|split; [exact N1|exact K1]]]|exact Q1]|].
            split; [exact Q2|auto]. }
          destruct v1 as [| |l|].
          * eapply (IHds (dn ++ [d]) Hsplit'); [exact Hpost1| |exact H].
            intros Hm0 d' Hin'. apply in_app_or in Hin' as [Hin'|[<-|[]]].
            -- destruct (Hdn Hm0 d' Hin') as [A B]. split; [exact A|]. intro X. apply Q3. exact (B X).
            -- split; [rewrite Em; discriminate|]. intros _. apply Hcl. reflexivity.
          * destruct (r_csum (ldw w0 f)); injection H as <- <- <- <-;
              (split; [exact Hpost1|split; [reflexivity|discriminate]]).
          * eapply (IHds (dn ++ [d]) Hsplit'); [exact Hpost1| |exact H].
            intro Hm0. exfalso. apply (is_dirty_need_nonempty_c _ _ _ _ _ _ _ _ _ _ _ _ E).
            destruct must; [exact Hm0|discriminate].
          * injection H as <- <- <- <-. split; [exact Hpost1|]. split; [reflexivity|discriminate].
    Qed.

    Theorem is_dirty_INV : forall fuel, check_spec fuel.
    Proof.
      induction fuel as [|fuel IH]; intros cyc w0 w f mx seen v w' c' evs H0 Hb0 Hinv Hbel Hf Ha H; [discriminate|].
      cbn [is_dirty] in H.
      assert (Hex : ~ In f ex) by (eapply below_not_in; eauto).
      assert (Hstay : forall vv, vv <> VClean -> walk_post w w /\ ChkDb = ChkDb /\ (vv = VClean -> ok w ex f)).
      { intros vv Hv. split; [apply walk_post_refl; exact Hinv|]. split; [reflexivity|]. intro X. contradiction. }
      destruct (existsb (Nat.eqb f) seen); [injection H as <- <- <- <-; apply Hstay; discriminate|].
      destruct (r_failed (ldw w0 f)) eqn:Hfl; [injection H as <- <- <- <-; apply Hstay; discriminate|].
      destruct (r_changed (ldw w0 f)) as [chg|] eqn:Hc; [|injection H as <- <- <- <-; apply Hstay; discriminate].
      destruct (Z.ltb mx chg) eqn:Hlt; [injection H as <- <- <- <-; apply Hstay; discriminate|].
      (* a changed_runid is never above the run id *)
      assert (Hle : (chg <= R)%Z).
      { destruct H0 as (_ & _ & N0 & _).
        assert (Ha0 : is_alw w0 f = false) by (unfold is_alw in *; now rewrite <- (nm_names w0 w f N0)).
        destruct (Hb0 f) as [_ B2]; [eapply valid_names; [symmetry; exact N0|exact Hf]|].
        apply B2. rewrite <- (ld_not_alw w0 f Ha0). exact Hc. }
      cbn [chk_is_checked] in H. fold (marked (ldw w0 f)) in H.
      destruct (marked (ldw w0 f)) eqn:Hm.
      { (* dealt with in this run already *)
        injection H as <- <- <- <-. split; [apply walk_post_refl; exact Hinv|]. split; [reflexivity|]. intros _.
        destruct H0 as (_ & _ & _ & K0). destruct Hinv as [_ Hmark]. apply Hmark; auto.
        - eapply keep_marked; [apply K0|exact Hm].
        - destruct (K0 f) as (_ & _ & _ & _ & _ & K6 & _). auto. }
      destruct (r_stamp (ldw w0 f)) as [old|] eqn:Hs; [|injection H as <- <- <- <-; apply Hstay; discriminate].
      destruct (stamp_eqb old (read_stamp w (r_name (ldw w0 f)))) eqn:Hok; cbn [negb] in H.
      - (* the recorded dependencies *)
        unfold deps_rows in H.
        eapply (walk_INV fuel cyc w0 w f chg old seen _ IH H0 Hinv Hbel Hf Ha Hfl Hc Hle Hs Hok
                         (deps_of (dbs w) (ldw w0 f) f) [] eq_refl w [] []);
          [apply walk_post_refl; exact Hinv|intros _ d []|exact H].
      - (* the file is not what was recorded *)
        destruct (forget_INV w0 w f old H0 Hb0 Hinv Hf Ha Hex Hm Hfl Hs Hok (read_stamp w (r_name (ldw w0 f))))
          as (W1 & W2 & W3).
        injection H as <- <- <- <-. split; [split; [exact W1|split; [exact W2|exact W3]]|].
        split; [reflexivity|]. destruct (r_csum (ldw w0 f)); discriminate.
    Qed.
  End Walk.

  (* ================================================================ settled rows form a quiet set *)
  Lemma marked_smax r chg : marked r = true -> r_changed r = Some chg -> (R <= smax r chg)%Z.
  Proof.
    unfold marked, is_checked, is_changed, geb_runid, smax. intros H Hc. rewrite Hc in H.
    apply orb_true_iff in H as [H|H].
    - destruct (r_checked r) as [k|]; [|discriminate]. apply andb_true_iff in H as [_ H]. apply Z.leb_le in H. lia.
    - apply andb_true_iff in H as [_ H]. apply Z.leb_le in H. lia.
  Qed.

  Theorem ok_quiet w ex : edges_ok w -> QUIET R (rkf w) (ok w ex) w.
  Proof.
    intros He g Hok. destruct Hok as [g Hv Hex Ha Hb Hm Hd].
    destruct Hb as (Hfl & (chg & Hc & Hle) & old & Hs & Hst).
    split.
    - unfold quiet_row, ld. split; [exact Hfl|]. exists chg. split; [exact Hc|]. split; [exists old; auto|].
      intros d Hin. destruct (Hd d Hin) as [A B]. split.
      + intro X. rewrite ld_name. exact (A X).
      + intro X. pose proof (B X) as Hs'. split; [exact Hs'|].
        destruct (in_deps_of _ _ _ _ Hin) as [Hin0 Ht]. destruct (He d Hin0) as (_ & _ & _ & Hr).
        specialize (Hr X). rewrite Ht in Hr. split; [exact Hr|].
        destruct Hs' as [s _ _ _ (_ & (c & Hcs & Hcle) & _) _ _].
        exists c. split; [exact Hcs|].
        destruct Hm as [Hm|Hm]; [|rewrite Hm in Hin; destruct Hin].
        pose proof (marked_smax _ _ Hm Hc). lia.
    - intros c Hc'. rewrite Hc in Hc'. injection Hc' as <-. exact Hle.
  Qed.

  (* at the start of a run nothing is marked: the invariant holds by itself *)
  Definition fresh_run (w : world) : Prop :=
    forall g, valid w g -> is_alw w g = false -> marked (ldw w g) = false.

  Lemma INV_fresh w : WFW w -> fresh_run w -> INV w [].
  Proof. intros Hw Hf. split; [exact Hw|]. intros g Hv _ Ha Hm. rewrite (Hf g Hv Ha) in Hm. discriminate. Qed.

  (* SOUNDNESS OF "CLEAN": the first check of a run that answers clean leaves
     the target settled, with its whole recorded closure *)
  Theorem clean_means_settled fuel w f v w' c' evs :
    WFW w -> fresh_run w -> valid w f -> is_alw w f = false ->
    is_dirty fuel R [] w ChkDb f (ldw w f) R [] = Ret (v, w', c', evs) ->
    fs w' = fs w /\ INV w' [] /\ (v = VClean -> ok w' [] f).
  Proof.
    intros Hw Hfr Hv Ha H.
    destruct (is_dirty_INV [] fuel [] w w f R [] v w' c' evs) as ((P1 & P2 & _) & _ & Hcl); auto.
    - apply walkrel_refl.
    - destruct Hw as (_ & _ & Hb). exact Hb.
    - apply INV_fresh; assumption.
    - intros x [].
    - split; [exact (proj1 P1)|]. split; [exact P2|exact Hcl].
  Qed.
End Settle.

(* ================================================================ decidable premises *)
Section SettleB.
  Variable R : Z.
  Variable rk : name -> nat.

  Fixpoint nodup_b (l : list name) : bool :=
    match l with
    | [] => true
    | x :: l' => negb (existsb (bytes_eqb x) l') && nodup_b l'
    end.

  Lemma nodup_b_sound l : nodup_b l = true -> NoDup l.
  Proof.
    induction l as [|x l IH]; cbn [nodup_b]; intro H; [constructor|].
    apply andb_true_iff in H as [H1 H2]. constructor; [|auto].
    intro Hin. apply negb_true_iff in H1. assert (existsb (bytes_eqb x) l = true); [|congruence].
    apply existsb_exists. exists x. split; [exact Hin|apply bytes_eqb_refl].
  Qed.

  Definition valid_b (w : world) (g : fid) : bool := Nat.leb 1 g && Nat.leb g (length (rows (dbs w))).
  Lemma valid_b_sound w g : valid_b w g = true -> valid w g.
  Proof. unfold valid_b, valid. intro H. apply andb_true_iff in H as [A B]. apply Nat.leb_le in A, B. lia. Qed.

  Definition edge_ok_b (w : world) (d : dep) : bool :=
    valid_b w (d_target d) && valid_b w (d_source d) && negb (is_alw w (d_source d))
    && match d_mode d with DModified => Nat.ltb (rkf rk w (d_source d)) (rkf rk w (d_target d)) | DCreated => true end.

  Definition leq_opt (x : option Z) : bool := match x with Some c => Z.leb c R | None => true end.
  Definition bounded_b (w : world) : bool :=
    forallb (fun r => leq_opt (r_checked r) && leq_opt (r_changed r)) (rows (dbs w)).
  (* a fresh run id: above everything recorded *)
  Definition fresh_b (w : world) : bool :=
    forallb (fun r => match r_checked r with Some c => Z.ltb c R | None => true end
                      && match r_changed r with Some c => Z.ltb c R | None => true end) (rows (dbs w)).

  Definition wfw_b (w : world) : bool :=
    nodup_b (names (dbs w)) && forallb (edge_ok_b w) (deps (dbs w)) && bounded_b w.

  Lemma row_in w g : valid w g -> In (get_row (dbs w) g) (rows (dbs w)).
  Proof. intros [H1 H2]. unfold get_row. apply nth_In. lia. Qed.

  Lemma wfw_b_sound w : wfw_b w = true -> WFW R rk w.
  Proof.
    unfold wfw_b. intro H. apply andb_true_iff in H as [H Hb]. apply andb_true_iff in H as [Hn He].
    split; [apply nodup_b_sound; exact Hn|]. split.
    - intros d Hin. rewrite forallb_forall in He. specialize (He d Hin). unfold edge_ok_b in He.
      apply andb_true_iff in He as [He H4]. apply andb_true_iff in He as [He H3]. apply andb_true_iff in He as [H1 H2].
      split; [apply valid_b_sound; exact H1|]. split; [apply valid_b_sound; exact H2|].
      split; [now apply negb_true_iff in H3|]. intro Hm. rewrite Hm in H4. now apply Nat.ltb_lt in H4.
    - intros g Hg. unfold bounded_b in Hb. rewrite forallb_forall in Hb. specialize (Hb _ (row_in w g Hg)).
      apply andb_true_iff in Hb as [B1 B2]. split; intros c Hc; rewrite Hc in *; cbn [leq_opt] in *; now apply Z.leb_le.
  Qed.

  Lemma fresh_b_sound w : (0 < R)%Z -> fresh_b w = true -> fresh_run R w.
  Proof.
    intros Rpos H g Hg Ha. unfold fresh_b in H. rewrite forallb_forall in H. specialize (H _ (row_in w g Hg)).
    apply andb_true_iff in H as [H1 H2]. rewrite (ld_not_alw R w g Ha).
    unfold marked, is_checked, is_changed, geb_runid.
    destruct (r_checked (get_row (dbs w) g)) as [c|], (r_changed (get_row (dbs w) g)) as [c'|]; cbn [orb];
      repeat match goal with
             | H : Z.ltb _ _ = true |- _ => apply Z.ltb_lt in H
             end;
      repeat match goal with
             | |- context [Z.leb R ?x] => let E := fresh in destruct (Z.leb R x) eqn:E; [apply Z.leb_le in E; lia|]
             end; rewrite ?andb_false_r; reflexivity.
  Qed.

  (* the boolean form of the soundness theorem *)
  Theorem clean_means_settled_b fuel w f v w' c' evs :
    (0 < R)%Z -> wfw_b w = true -> fresh_b w = true -> valid_b w f = true -> is_alw w f = false ->
    is_dirty fuel R [] w ChkDb f (load R (dbs w) f) R [] = Ret (v, w', c', evs) ->
    fs w' = fs w /\ (v = VClean -> ok R w' [] f /\ QUIET R (rkf rk w') (ok R w' []) w').
  Proof.
    intros Rpos Hw Hf Hv Ha H.
    destruct (clean_means_settled R Rpos rk fuel w f v w' c' evs (wfw_b_sound w Hw) (fresh_b_sound w Rpos Hf)
                                  (valid_b_sound w f Hv) Ha H) as (F & (Hwf & _) & Hcl).
    split; [exact F|]. intro E. split; [auto|]. apply ok_quiet. destruct Hwf as (_ & He & _). exact He.
  Qed.
End SettleB.
