(* The whole-build invariant along whole HISTORIES (projects of plain scripts).

   A world is GOOD when, at the start of its next run, the job invariant of
   SettleJob.v holds and nothing is marked.  The empty state directory is good;
   every `redo-ifchange` -- whatever its exit status -- and every query command
   leads from a good world to a good world; so does every user step that leaves
   generated files alone: writing or replacing a file that redo has not
   generated (sources, .do files, new files), removing any file.  Hence along
   every such history, every `redo-ifchange ts` that exits 0 leaves its targets
   settled, and nothing runs until something changes. *)
From Coq Require Import ZArith List Bool Lia.
Import ListNotations.
From Redo Require Import Base.Bytes Base.BytesProofs Build.Model Build.FsLemmas Build.LocalProofs Build.Protect
                         Build.CleanProofs Build.CleanDb Build.Settle Build.SettleJob Build.Maxrun.

Section History.
  Variable rk : name -> nat.
  Variable watched : name -> bool.

  Definition GOODR (R : Z) (w : world) : Prop :=
    (0 < R)%Z /\ JINV R rk watched w [] /\ fresh_run R w.
  Definition GOOD (w : world) : Prop := GOODR (maxrun (dbs w) + 1)%Z (fst (new_run w)).

  (* ---------------------------------------------------------------- the next run id *)
  Lemma marked_bounded R R' r :
    (R < R')%Z -> (forall c, r_checked r = Some c -> (c <= R)%Z) -> (forall c, r_changed r = Some c -> (c <= R)%Z) ->
    marked R' r = false.
  Proof.
    intros Hlt H1 H2. unfold marked, is_checked, is_changed, geb_runid.
    destruct (r_checked r) as [c|]; [specialize (H1 c eq_refl)|];
      destruct (r_changed r) as [c'|]; try specialize (H2 c' eq_refl); cbn [orb];
      repeat match goal with
             | |- context [Z.leb R' ?x] => let E := fresh in destruct (Z.leb R' x) eqn:E; [apply Z.leb_le in E; lia|]
             end; rewrite ?andb_false_r; reflexivity.
  Qed.

  (* worlds that differ in the run-id counter only *)
  Definition same_state (w w' : world) : Prop :=
    fs w' = fs w /\ rows (dbs w') = rows (dbs w) /\ deps (dbs w') = deps (dbs w).

  Lemma JINV_next R R' w w' :
    (0 < R)%Z -> (R < R')%Z -> same_state w w' -> JINV R rk watched w [] -> GOODR R' w'.
  Proof.
    intros Rpos Hlt (Hfs & Hrows & Hdeps) (((Hnd & He & Hb) & _) & Hx & Hc & _).
    assert (Hrow : forall g, get_row (dbs w') g = get_row (dbs w) g) by (intro g; unfold get_row; now rewrite Hrows).
    assert (Hnm : forall g, nm w' g = nm w g) by (intro g; unfold nm; now rewrite Hrow).
    assert (Hval : forall g, valid w' g <-> valid w g) by (intro g; unfold valid; now rewrite Hrows).
    assert (Hal : forall g, is_alw w' g = is_alw w g) by (intro g; unfold is_alw; now rewrite Hnm).
    assert (Hfresh : fresh_run R' w').
    { intros g Hg Ha. rewrite Hval in Hg. rewrite Hal in Ha. rewrite (ld_not_alw R' w' g) by (rewrite Hal; exact Ha).
      rewrite Hrow. destruct (Hb g Hg) as [B1 B2]. apply (marked_bounded R R'); assumption. }
    split; [lia|]. split; [|exact Hfresh].
    split; [apply INV_fresh; [|exact Hfresh]|split; [|split]].
    - split; [unfold names; now rewrite Hrows|]. split.
      + intros d Hin. rewrite Hdeps in Hin. destruct (He d Hin) as (A & B & C & D).
        unfold rkf. rewrite !Hval, Hal, !Hnm. auto.
      + intros g Hg. rewrite Hval in Hg. rewrite Hrow. destruct (Hb g Hg) as [B1 B2].
        split; intros c Hc'; [specialize (B1 c Hc')|specialize (B2 c Hc')]; lia.
    - intros g Hg. rewrite Hval in Hg. destruct (Hx g Hg) as (A1 & A2 & A3 & A4 & A5).
      unfold rowx. rewrite Hrow, Hal, Hnm. split; [exact A1|]. split; [exact A2|]. split; [exact A3|]. split.
      + intros Ha Hm. exfalso. assert (Hg' : valid w' g) by (rewrite Hval; exact Hg).
        rewrite <- Hal in Ha. rewrite (Hfresh g Hg' Ha) in Hm. discriminate.
      + intro X. destruct (A5 X) as [B1 B2]. split; [exact B1|]. unfold read_stamp in *. rewrite Hfs. exact B2.
    - intros d Hin Hm. rewrite Hdeps in Hin. rewrite Hnm. apply Hc; assumption.
    - intros x [].
  Qed.

  (* ---------------------------------------------------------------- the empty state directory *)
  Theorem good_init depth : GOOD (init_world depth).
  Proof.
    unfold GOOD, GOODR, new_run. cbn [fst init_world dbs init_db maxrun set_db rows deps].
    set (w1 := {| fs := []; dbs := {| rows := [empty_row always_name]; deps := []; maxrun := (first_runid + 1)%Z |};
                  clock := 1; updepth := depth; hints := [] |}).
    assert (Hpos : (0 < first_runid + 1)%Z) by (unfold first_runid; lia).
    assert (Hal : forall g, valid w1 g -> is_alw w1 g = true).
    { intros g [G1 G2]. cbn in G2. assert (g = 1%nat) by lia. subst g. reflexivity. }
    assert (Hfresh : fresh_run (first_runid + 1)%Z w1).
    { intros g Hg Ha. rewrite (Hal g Hg) in Ha. discriminate. }
    split; [exact Hpos|]. split; [|exact Hfresh].
    split; [apply INV_fresh; [|exact Hfresh]|split; [|split]].
    - split; [repeat constructor; intros []|]. split; [intros d []|].
      intros g [G1 G2]. cbn in G2. assert (g = 1%nat) by lia. subst g. cbn. split; intros c Hc; discriminate.
    - intros g Hg. pose proof (Hal g Hg) as Ha. destruct Hg as [G1 G2]. cbn in G2. assert (g = 1%nat) by lia. subst g.
      unfold rowx. cbn [w1 dbs rows get_row nth Nat.sub empty_row r_csum r_stamp r_changed r_failed r_ovr r_gen].
      split; [reflexivity|]. split; [intro X; contradiction|]. split; [intro X; exfalso; clear -X; vm_compute in X; discriminate|].
      split; [intro X; exfalso; clear -X; vm_compute in X; discriminate|]. intros _. split; [reflexivity|intro X; discriminate].
    - intros d [].
    - intros x [].
  Qed.

  (* ---------------------------------------------------------------- commands *)
  Definition targets_ok (ts : list name) : Prop := forall t, In t ts -> watched t = false /\ reserved t = false.

  Lemma new_run_same w : same_state w (fst (new_run w)).
  Proof. unfold new_run. cbn. repeat split. Qed.

  Theorem good_ifchange k ts w w' evs rc :
    GOOD w -> PROJ rk watched (fst (new_run w)) -> targets_ok ts ->
    exec (CIfChange k ts) w = (w', OutBuild evs rc) ->
    GOOD w' /\
    (rc = 0%Z -> forall t, In t ts -> exists g, find_row (rows (dbs w')) t 1 = Some g /\ ok (maxrun (dbs w) + 1)%Z w' [] g).
  Proof.
    intros (Rpos & Hj & _) Hp Hts H.
    destruct (ifchange_step rk watched k ts w w' evs rc Rpos Hj Hp Hts H) as [J Hok].
    split; [|exact Hok].
    pose proof (exec_build_maxrun k ts w w' evs rc H) as Hmr.
    unfold GOOD. rewrite Hmr.
    apply (JINV_next (maxrun (dbs w) + 1)%Z (maxrun (dbs w) + 1 + 1)%Z w' (fst (new_run w'))); [exact Rpos|lia|apply new_run_same|exact J].
  Qed.

  Theorem good_query c w :
    GOOD w -> (c = COod \/ c = CTargets \/ c = CSources) -> GOOD (fst (exec c w)).
  Proof.
    intros (Rpos & Hj & _) Hc.
    assert (Hq : fs (fst (exec c w)) = fs w /\ rows (dbs (fst (exec c w))) = rows (dbs w) /\ deps (dbs (fst (exec c w))) = deps (dbs w)
                 /\ maxrun (dbs (fst (exec c w))) = (maxrun (dbs w) + 1)%Z).
    { destruct Hc as [->|[->| ->]]; unfold exec, new_run; cbv zeta; cbn [fst]; repeat split.
      all: match goal with |- context [fold_left ?F ?L ?A] => destruct (fold_left F L A) as [[[[? ?] ?] []]|] end; reflexivity. }
    destruct Hq as (F & Rr & D & M).
    unfold GOOD. rewrite M.
    apply (JINV_next (maxrun (dbs w) + 1)%Z (maxrun (dbs w) + 1 + 1)%Z (fst (new_run w))); [exact Rpos|lia| |exact Hj].
    unfold new_run. cbn [fst set_db fs dbs rows deps]. repeat split; assumption.
  Qed.

  (* ---------------------------------------------------------------- what the user does between commands *)
  Definition not_generated (w : world) (n : name) : Prop :=
    forall g, valid w g -> nm w g = n -> r_gen (get_row (dbs w) g) = false.

  Lemma GOODR_fs R w w' (touched : name -> bool) :
    dbs w' = dbs w ->
    (forall n, touched n = false -> fs_get (fs w') n = fs_get (fs w) n) ->
    (forall g, valid w g -> touched (nm w g) = true ->
       r_gen (get_row (dbs w) g) = false \/ read_stamp w' (nm w g) = SMissing) ->
    GOODR R w -> GOODR R w'.
  Proof.
    intros Hdb Hfs Ht (Rpos & (((Hnd & He & Hb) & _) & Hx & Hc & _) & Hfr).
    assert (Hnm : forall g, nm w' g = nm w g) by (intro g; unfold nm; now rewrite Hdb).
    assert (Hval : forall g, valid w' g <-> valid w g) by (intro g; unfold valid; now rewrite Hdb).
    assert (Hal : forall g, is_alw w' g = is_alw w g) by (intro g; unfold is_alw; now rewrite Hnm).
    assert (Hfresh : fresh_run R w').
    { intros g Hg Ha. rewrite Hval in Hg. rewrite Hal in Ha. unfold load. rewrite Hdb. apply Hfr; assumption. }
    split; [exact Rpos|]. split; [|exact Hfresh].
    split; [apply INV_fresh; [|exact Hfresh]|split; [|split]].
    - split; [now rewrite Hdb|]. split.
      + intros d Hin. rewrite Hdb in Hin. destruct (He d Hin) as (A & B & C & D). unfold rkf. rewrite !Hval, Hal, !Hnm. auto.
      + intros g Hg. rewrite Hval in Hg. rewrite Hdb. apply Hb. exact Hg.
    - intros g Hg. rewrite Hval in Hg. destruct (Hx g Hg) as (A1 & A2 & A3 & A4 & A5).
      unfold rowx. rewrite Hdb, Hal, Hnm. split; [exact A1|]. split; [exact A2|]. split; [exact A3|].
      split; [exact A4|]. intro X. destruct (A5 X) as [B1 B2]. split; [exact B1|]. intro Hgen.
      destruct (B2 Hgen) as (s0 & Hs & Hm). exists s0. split; [exact Hs|].
      destruct (touched (nm w g)) eqn:Tg.
      + destruct (Ht g Hg Tg) as [G|G]; [congruence|now right].
      + unfold read_stamp in *. rewrite (Hfs _ Tg). exact Hm.
    - intros d Hin Hm. rewrite Hdb in Hin. rewrite Hnm. apply Hc; assumption.
    - intros x [].
  Qed.

  Lemma good_write w n data sc : GOOD w -> not_generated w n -> GOOD (write_file w n data sc).
  Proof.
    intros Hg Hn. unfold GOOD in *.
    change (maxrun (dbs (write_file w n data sc))) with (maxrun (dbs w)).
    change (fst (new_run (write_file w n data sc))) with (write_file (fst (new_run w)) n data sc).
    apply (GOODR_fs _ (fst (new_run w)) _ (fun m => bytes_eqb m n)); [reflexivity| | |exact Hg].
    - intros m Hm. apply get_write_other. intro X. subst m. rewrite bytes_eqb_refl in Hm. discriminate.
    - intros g Hv Ht. left. apply bytes_eqb_eq in Ht. apply (Hn g Hv Ht).
  Qed.

  Lemma good_remove w n : GOOD w -> GOOD (remove_file w n).
  Proof.
    intros Hg. unfold GOOD in *.
    change (maxrun (dbs (remove_file w n))) with (maxrun (dbs w)).
    change (fst (new_run (remove_file w n))) with (remove_file (fst (new_run w)) n).
    apply (GOODR_fs _ (fst (new_run w)) _ (fun m => bytes_eqb m n)); [reflexivity| | |exact Hg].
    - intros m Hm. apply get_remove_other. intro X. subst m. rewrite bytes_eqb_refl in Hm. discriminate.
    - intros g Hv Ht. right. apply bytes_eqb_eq in Ht. rewrite Ht. unfold read_stamp. now rewrite get_remove_same.
  Qed.

  Lemma good_hints w h : GOOD w -> GOOD (set_hints w h).
  Proof.
    intros Hg. unfold GOOD in *.
    change (maxrun (dbs (set_hints w h))) with (maxrun (dbs w)).
    apply (GOODR_fs _ (fst (new_run w)) _ (fun _ => false)); [reflexivity|intros m _; reflexivity| |exact Hg].
    intros g _ X. discriminate X.
  Qed.

  (* the world after `redo-ifchange`, whatever came of it *)
  Lemma good_exec_ifchange k ts w :
    GOOD w -> PROJ rk watched (fst (new_run w)) -> targets_ok ts -> GOOD (fst (exec (CIfChange k ts) w)).
  Proof.
    intros Hg Hp Hts. destruct (exec (CIfChange k ts) w) as [w' o] eqn:E. cbn [fst].
    assert (Hcase : (exists evs rc, o = OutBuild evs rc) \/ w' = fst (new_run w)).
    { unfold exec in E. destruct (new_run w) as [w1 r1]. cbn [fst].
      match type of E with context [build ?F ?EE MIfChange ts w1] => destruct (build F EE MIfChange ts w1) as [[[w2 ev2] rc2]|] end;
        injection E as <- <-; [left; eauto|right; reflexivity]. }
    destruct Hcase as [(evs & rc & ->)| ->].
    - exact (proj1 (good_ifchange k ts w w' evs rc Hg Hp Hts E)).
    - destruct Hg as (Rpos & Hj & _). unfold GOOD.
      apply (JINV_next (maxrun (dbs w) + 1)%Z _ (fst (new_run w))); [exact Rpos|unfold new_run; cbn; lia|apply new_run_same|exact Hj].
  Qed.

  (* ---------------------------------------------------------------- histories *)
  Definition step_ok (w : world) (s : hstep) : Prop :=
    match s with
    | SWrite n _ | SWriteDo n _ => not_generated w n
    | SRemove _ | SHint _ => True
    | SCmd (CIfChange k ts) => PROJ rk watched (fst (new_run w)) /\ targets_ok ts
    | SCmd (CRedo _ _) => False
    | SCmd _ => True
    end.

  Fixpoint hist_ok (w : world) (h : list hstep) : Prop :=
    match h with
    | [] => True
    | s :: h' => step_ok w s /\ hist_ok (fst (do_step s w)) h'
    end.

  Definition settled_by (w : world) (s : hstep) (w' : world) (o : option output) : Prop :=
    match s, o with
    | SCmd (CIfChange k ts), Some (OutBuild evs rc) =>
        rc = 0%Z -> forall t, In t ts ->
          exists g, find_row (rows (dbs w')) t 1 = Some g /\ ok (maxrun (dbs w) + 1)%Z w' [] g
    | _, _ => True
    end.

  Fixpoint settled_along (w : world) (h : list hstep) : Prop :=
    match h with
    | [] => True
    | s :: h' => settled_by w s (fst (do_step s w)) (snd (do_step s w)) /\ settled_along (fst (do_step s w)) h'
    end.

  Lemma good_step w s : GOOD w -> step_ok w s -> GOOD (fst (do_step s w)) /\ settled_by w s (fst (do_step s w)) (snd (do_step s w)).
  Proof.
    intros Hg Hs. destruct s as [n data|n sc|n|h|c]; cbn [do_step fst snd step_ok settled_by] in *.
    - split; [apply good_write; assumption|exact I].
    - split; [apply good_write; assumption|exact I].
    - split; [apply good_remove; assumption|exact I].
    - split; [apply good_hints; assumption|exact I].
    - destruct c as [k ts|k ts| | |]; [contradiction| | | |].
      + destruct Hs as [Hp Hts]. destruct (exec (CIfChange k ts) w) as [w' o] eqn:E. cbn [fst snd].
        split; [pose proof (good_exec_ifchange k ts w Hg Hp Hts) as X; rewrite E in X; exact X|].
        destruct o as [evs rc| |]; try exact I.
        exact (proj2 (good_ifchange k ts w w' evs rc Hg Hp Hts E)).
      + destruct (exec COod w) as [w' o] eqn:E. cbn [fst snd]. split; [|destruct o; exact I].
        pose proof (good_query COod w Hg (or_introl eq_refl)) as X. rewrite E in X. exact X.
      + destruct (exec CTargets w) as [w' o] eqn:E. cbn [fst snd]. split; [|destruct o; exact I].
        pose proof (good_query CTargets w Hg (or_intror (or_introl eq_refl))) as X. rewrite E in X. exact X.
      + destruct (exec CSources w) as [w' o] eqn:E. cbn [fst snd]. split; [|destruct o; exact I].
        pose proof (good_query CSources w Hg (or_intror (or_intror eq_refl))) as X. rewrite E in X. exact X.
  Qed.

  (* ALONG EVERY HISTORY of user steps that leave generated files alone and of
     redo-ifchange / query commands on a project of plain scripts: every state is
     good, and every redo-ifchange that exits 0 leaves its targets settled *)
  Theorem history_settles : forall h w, GOOD w -> hist_ok w h ->
    settled_along w h /\ Forall (fun x => GOOD (fst x)) (run_history h w).
  Proof.
    induction h as [|s h IH]; intros w Hg Hh; cbn [settled_along run_history hist_ok] in *; [split; [exact I|constructor]|].
    destruct Hh as [Hs Hh]. destruct (good_step w s Hg Hs) as [Hg' Hset].
    destruct (do_step s w) as [w' o] eqn:E. cbn [fst snd] in *.
    destruct (IH w' Hg' Hh) as [A B]. split; [split; assumption|]. constructor; [exact Hg'|exact B].
  Qed.

  Corollary history_from_scratch depth h :
    hist_ok (init_world depth) h ->
    settled_along (init_world depth) h /\ Forall (fun x => GOOD (fst x)) (run_history h (init_world depth)).
  Proof. intro H. apply history_settles; [apply good_init|exact H]. Qed.

  (* ---------------------------------------------------------------- decidable form *)
  Variable L : list name.
  Hypothesis watched_unreserved : forall n, watched n = true -> reserved n = false.
  Hypothesis targets_listed : forall t, watched t = false -> reserved t = false -> In t L.

  Definition not_generated_b (w : world) (n : name) : bool :=
    forallb (fun g => negb (bytes_eqb (nm w g) n) || negb (r_gen (get_row (dbs w) g))) (seq 1 (length (rows (dbs w)))).

  Definition step_ok_b (w : world) (s : hstep) : bool :=
    match s with
    | SWrite n _ | SWriteDo n _ => not_generated_b w n
    | SRemove _ | SHint _ => true
    | SCmd (CIfChange k ts) =>
        forallb (proj_t_b rk watched (fst (new_run w))) L && forallb (fun t => negb (watched t) && negb (reserved t)) ts
    | SCmd (CRedo _ _) => false
    | SCmd _ => true
    end.

  Fixpoint hist_ok_b (w : world) (h : list hstep) : bool :=
    match h with
    | [] => true
    | s :: h' => step_ok_b w s && hist_ok_b (fst (do_step s w)) h'
    end.

  Lemma step_ok_b_sound w s : step_ok_b w s = true -> step_ok w s.
  Proof.
    destruct s as [n data|n sc|n|h|c]; cbn [step_ok_b step_ok]; try (intros _; exact I).
    - intros H g Hg Hn. unfold not_generated_b in H. rewrite forallb_forall in H.
      assert (Hin : In g (seq 1 (length (rows (dbs w))))) by (apply in_seq; destruct Hg; lia).
      specialize (H g Hin). rewrite Hn, bytes_eqb_refl in H. cbn in H. now apply negb_true_iff in H.
    - intros H g Hg Hn. unfold not_generated_b in H. rewrite forallb_forall in H.
      assert (Hin : In g (seq 1 (length (rows (dbs w))))) by (apply in_seq; destruct Hg; lia).
      specialize (H g Hin). rewrite Hn, bytes_eqb_refl in H. cbn in H. now apply negb_true_iff in H.
    - destruct c as [k ts|k ts| | |]; try (intros _; exact I); [intro X; discriminate X|].
      intro H. apply andb_true_iff in H as [H1 H2]. split.
      + eapply proj_of_list; eauto.
      + intros t Ht. rewrite forallb_forall in H2. specialize (H2 t Ht). apply andb_true_iff in H2 as [A B].
        split; now apply negb_true_iff.
  Qed.

  Lemma hist_ok_b_sound : forall h w, hist_ok_b w h = true -> hist_ok w h.
  Proof.
    induction h as [|s h IH]; intros w H; cbn [hist_ok_b hist_ok] in *; [exact I|].
    apply andb_true_iff in H as [H1 H2]. split; [apply step_ok_b_sound; exact H1|apply IH; exact H2].
  Qed.

  Theorem history_from_scratch_b depth h :
    hist_ok_b (init_world depth) h = true ->
    settled_along (init_world depth) h /\ Forall (fun x => GOOD (fst x)) (run_history h (init_world depth)).
  Proof. intro H. apply history_from_scratch. apply hist_ok_b_sound. exact H. Qed.
End History.
