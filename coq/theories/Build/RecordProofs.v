(* C04: what record_new_state does to the file system, for ALL inputs. *)
From Coq Require Import ZArith Lia.
From Redo Require Import Base.Bytes Base.BytesProofs Build.Model Build.FsLemmas.

(* the status the job ends with *)
Definition modified_b (before after : option file) : bool :=
  match after with
  | Some fa => match before with
               | Some fb => negb (N.eqb (f_mt fa) (f_mt fb))
               | None => true end
  | None => false
  end.
Definition status_of (before after : option file) (rc : Z) (stdout : option (list N)) (has_tmp : bool) : Z :=
  if modified_b before after then 206%Z
  else if has_tmp && match stdout with Some _ => true | None => false end then 207%Z else rc.

Lemma record_status runid t f sf before rc stdout has_tmp w :
  snd (record_new_state runid t f sf before rc stdout has_tmp w)
  = status_of before (fs_get (fs w) t) rc stdout has_tmp.
Proof.
  unfold record_new_state, status_of, modified_b.
  match goal with |- snd (let '(_, _) := ?X in _) = _ => destruct X end. reflexivity.
Qed.

Ltac split_record :=
  unfold record_new_state;
  match goal with
  | |- context [if Z.eqb ?rv 0 then _ else _] =>
      let E := fresh "Erv" in destruct (Z.eqb rv 0) eqn:E
  end.

(* (a) on any non-zero status the target path is not touched *)
Lemma record_failure_keeps_target runid t f sf before rc stdout has_tmp w :
  snd (record_new_state runid t f sf before rc stdout has_tmp w) <> 0%Z ->
  fs_get (fs (fst (record_new_state runid t f sf before rc stdout has_tmp w))) t = fs_get (fs w) t.
Proof.
  intro H. rewrite record_status in H. unfold status_of, modified_b in H.
  unfold record_new_state.
  match goal with
  | |- context [if Z.eqb ?rv 0 then _ else _] => destruct (Z.eqb rv 0) eqn:Erv
  end.
  - apply Z.eqb_eq in Erv. congruence.
  - cbn [fst]. rewrite fs_set_db. apply get_remove_other, tmp_of_neq.
Qed.

(* (b) no temporary output file is left behind, whatever happened *)
Lemma record_no_tmp runid t f sf before rc stdout has_tmp w :
  (has_tmp = false -> fs_get (fs w) (tmp_of t) = None) ->
  fs_get (fs (fst (record_new_state runid t f sf before rc stdout has_tmp w))) (tmp_of t) = None.
Proof.
  intro H. unfold record_new_state.
  match goal with
  | |- context [if Z.eqb ?rv 0 then _ else _] => destruct (Z.eqb rv 0) eqn:Erv
  end.
  - destruct stdout as [c|], has_tmp;
      match goal with |- context [if ?b then _ else _] => destruct b end;
      cbn [fst]; rewrite fs_set_db;
      try (apply get_rename_src, tmp_of_neq).
    + rewrite get_remove_other by (intro E; symmetry in E; now apply tmp_of_neq in E). now apply H.
    + rewrite get_remove_other by (intro E; symmetry in E; now apply tmp_of_neq in E). now apply H.
  - cbn [fst]. rewrite fs_set_db. apply get_remove_same.
Qed.

(* (c) on success the target becomes exactly the script's output *)
Lemma record_success_content runid t f sf before rc stdout has_tmp w :
  snd (record_new_state runid t f sf before rc stdout has_tmp w) = 0%Z ->
  let w' := fst (record_new_state runid t f sf before rc stdout has_tmp w) in
  match stdout, has_tmp with
  | Some c, false => exists fl, fs_get (fs w') t = Some fl /\ f_data fl = c
  | _, true => forall ftmp, fs_get (fs w) (tmp_of t) = Some ftmp -> fs_get (fs w') t = Some ftmp
  | None, false => fs_get (fs w') t = None
  end.
Proof.
  intro H. rewrite record_status in H. unfold status_of in H.
  unfold record_new_state. fold (modified_b before (fs_get (fs w) t)).
  destruct (modified_b before (fs_get (fs w) t)) eqn:Em; [discriminate|].
  assert (Hrv : (if has_tmp && match stdout with Some _ => true | None => false end then 207%Z else rc) = 0%Z) by exact H.
  rewrite Hrv. cbn [Z.eqb].
  destruct stdout as [c|], has_tmp; cbn [andb] in Hrv; try discriminate;
    match goal with |- context [if ?b then _ else _] => destruct b end;
    cbn [fst]; rewrite ?fs_set_db.
  1,2: eexists; split;
       [apply get_rename_dst; unfold write_file; cbn [fs]; apply fs_get_put_same | reflexivity].
  1,2: intros ftmp Hf; now apply get_rename_dst.
  1,2: apply get_remove_same.
Qed.

(* (d) nothing but the target and its temporary file is ever touched *)
Lemma record_other_files runid t f sf before rc stdout has_tmp w m :
  m <> t -> m <> tmp_of t ->
  fs_get (fs (fst (record_new_state runid t f sf before rc stdout has_tmp w))) m = fs_get (fs w) m.
Proof.
  intros Ht Htmp. unfold record_new_state.
  match goal with
  | |- context [if Z.eqb ?rv 0 then _ else _] => destruct (Z.eqb rv 0) eqn:Erv
  end.
  - destruct stdout as [c|], has_tmp;
      match goal with |- context [if ?b then _ else _] => destruct b end;
      cbn [fst]; rewrite fs_set_db;
      rewrite ?get_rename_other by assumption;
      rewrite ?get_write_other by congruence;
      rewrite ?get_remove_other by congruence; reflexivity.
  - cbn [fst]. rewrite fs_set_db. apply get_remove_other. congruence.
Qed.

(* the script's own effects: only $3 or (in the forbidden direct mode) $1 *)
Lemma emit_output_other t m out w n :
  n <> t -> n <> tmp_of t ->
  fs_get (fs (fst (fst (emit_output t m out w)))) n = fs_get (fs w) n.
Proof.
  intros Ht Htmp. unfold emit_output. destruct out as [c|]; [|reflexivity].
  destruct m; cbn [fst]; rewrite ?get_write_other by congruence; reflexivity.
Qed.

Lemma emit_output_target t m out w :
  m <> ODirect -> fs_get (fs (fst (fst (emit_output t m out w)))) t = fs_get (fs w) t.
Proof.
  intro H. unfold emit_output. destruct out as [c|]; [|reflexivity].
  destruct m; try congruence; cbn [fst];
    rewrite ?get_write_other by (apply tmp_of_neq); reflexivity.
Qed.

(* ---- the whole job: script output, then record_new_state ---- *)
Definition job_fs (runid : Z) (t : name) (f : fid) (sf : row) (m : out_mode) (out : option (list N))
           (rc : Z) (w : world) : world * Z :=
  let '(w1, so, ht) := emit_output t m out w in
  record_new_state runid t f sf (fs_get (fs w) t) rc (if so then out else None) ht w1.

Lemma emit_tmp_flag t m out w :
  fs_get (fs w) (tmp_of t) = None ->
  snd (emit_output t m out w) = false ->
  fs_get (fs (fst (fst (emit_output t m out w)))) (tmp_of t) = None.
Proof.
  intros H. unfold emit_output. destruct out as [c|]; [|intros _; exact H].
  destruct m; cbn [fst snd]; intro E; try discriminate; try exact H.
  rewrite get_write_other; [exact H|]. intro X. symmetry in X. now apply tmp_of_neq in X.
Qed.

Theorem job_atomic_replace runid t f sf m out rc w :
  m <> ODirect ->
  fs_get (fs w) (tmp_of t) = None ->        (* start_self unlinks $3 before the script *)
  let R := job_fs runid t f sf m out rc w in
  (* failure of any kind: the previous target is left as it was *)
  (snd R <> 0%Z -> fs_get (fs (fst R)) t = fs_get (fs w) t)
  (* success: exactly the bytes the script produced, or no file if it produced none *)
  /\ (snd R = 0%Z ->
      match out, m with
      | Some c, (OStdout | ODollar3) => exists fl, fs_get (fs (fst R)) t = Some fl /\ f_data fl = c
      | _, _ => fs_get (fs (fst R)) t = None
      end)
  (* never a temporary file left *)
  /\ fs_get (fs (fst R)) (tmp_of t) = None
  (* no other file is touched *)
  /\ (forall n, n <> t -> n <> tmp_of t -> fs_get (fs (fst R)) n = fs_get (fs w) n).
Proof.
  intros Hm Htmp R. unfold R, job_fs.
  destruct (emit_output t m out w) as [[w1 so] ht] eqn:E.
  assert (Ew1 : w1 = fst (fst (emit_output t m out w))) by now rewrite E.
  assert (Et : fs_get (fs w1) t = fs_get (fs w) t) by (rewrite Ew1; now apply emit_output_target).
  repeat split.
  - intro H. rewrite record_failure_keeps_target by exact H. exact Et.
  - intro H. pose proof (record_success_content _ _ _ _ _ _ _ _ _ H) as S. cbn zeta in S.
    unfold emit_output in E. destruct out as [c|]; [destruct m|].
    + (* stdout *) inversion E; subst; clear E. exact S.
    + (* $3 *) inversion E; subst; clear E.
      specialize (S _ (get_write_same _ _ _ _)). eexists. split; [exact S|reflexivity].
    + (* neither *) inversion E; subst; clear E. exact S.
    + (* both: the status is 207, never 0 *)
      inversion E; subst; clear E. rewrite record_status in H. unfold status_of in H.
      destruct (modified_b _ _); cbn in H; discriminate.
    + congruence.
    + inversion E; subst; clear E. destruct m; exact S.
  - apply record_no_tmp. intro Hht. rewrite Ew1. apply emit_tmp_flag; [exact Htmp|]. now rewrite E.
  - intros n Hn Hn'. rewrite record_other_files by assumption.
    rewrite Ew1. now apply emit_output_other.
Qed.

