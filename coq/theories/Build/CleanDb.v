(* The BUILDER's walk (checked_runid written to the database, rows judged on
   copies taken when their parent's walk starts) over a quiet set of rows, and
   the whole command on top of it: a `redo-ifchange` of quiet targets runs
   nothing, touches no file, exits 0, and leaves the set quiet -- so does the
   next one, and every later one (C02 "a repeated build with no changes runs
   nothing", at the level of whole commands; CleanProofs has the statement for
   redo-ood's read-only walk). *)
From Coq Require Import ZArith List Bool Arith Lia.
Import ListNotations.
From Redo Require Import Base.Bytes Base.BytesProofs Build.Model Build.FsLemmas Build.LocalProofs
                         Build.Protect Build.FailProofs Build.CleanProofs.

Notation mem g l := (existsb (Nat.eqb g) l).

(* events that are not the start of a script *)
Definition quiet_ev (e : event) : Prop := match e with EvRun _ _ _ _ => False | _ => True end.

Section CleanDb.
  Variable R : Z.
  Variable rk : fid -> nat.
  Variable Q : fid -> Prop.

  Notation ldw w g := (load R (dbs w) g).

  (* rows equal up to the verification mark *)
  Definition eqc (a b : row) : Prop :=
    r_name b = r_name a /\ r_gen b = r_gen a /\ r_ovr b = r_ovr a /\ r_changed b = r_changed a /\
    r_failed b = r_failed a /\ r_stamp b = r_stamp a /\ r_csum b = r_csum a /\
    (r_checked b = r_checked a \/ r_checked b = Some R).

  Lemma eqc_refl a : eqc a a.
  Proof. unfold eqc. intuition. Qed.
  Lemma eqc_trans a b c : eqc a b -> eqc b c -> eqc a c.
  Proof.
    unfold eqc. intros (A1 & A2 & A3 & A4 & A5 & A6 & A7 & A8) (B1 & B2 & B3 & B4 & B5 & B6 & B7 & B8).
    repeat split; try congruence. destruct B8 as [B8|B8]; [rewrite B8; exact A8|now right].
  Qed.

  (* what a walk over quiet rows does to the world *)
  Definition rel (w0 w : world) : Prop :=
    fs w = fs w0 /\ deps (dbs w) = deps (dbs w0) /\ names (dbs w) = names (dbs w0) /\
    maxrun (dbs w) = maxrun (dbs w0) /\ forall g, eqc (ldw w0 g) (ldw w g).

  Lemma rel_refl w : rel w w.
  Proof. split; [reflexivity|]. split; [reflexivity|]. split; [reflexivity|]. split; [reflexivity|]. intro g. apply eqc_refl. Qed.
  Lemma rel_trans w1 w2 w3 : rel w1 w2 -> rel w2 w3 -> rel w1 w3.
  Proof.
    intros (A1 & A2 & A3 & A4 & A5) (B1 & B2 & B3 & B4 & B5).
    split; [congruence|]. split; [congruence|]. split; [congruence|]. split; [congruence|].
    intro g. eapply eqc_trans; eauto.
  Qed.

  Definition quiet2 (w : world) (g : fid) : Prop :=
    quiet_row R w rk Q g /\ (forall chg, r_changed (ldw w g) = Some chg -> (chg <= R)%Z).
  Definition QUIET (w : world) : Prop := forall g, Q g -> quiet2 w g.

  Lemma deps_of_rel w0 w r r' g :
    deps (dbs w) = deps (dbs w0) -> r_gen r' = r_gen r -> r_ovr r' = r_ovr r ->
    deps_of (dbs w) r' g = deps_of (dbs w0) r g.
  Proof. intros Hd Hg Ho. unfold deps_of. now rewrite Hd, Hg, Ho. Qed.

  Lemma QUIET_rel w0 w : rel w0 w -> QUIET w0 -> QUIET w.
  Proof.
    intros (Hfs & Hdeps & Hnm & _ & Hrows) Hq g Qg.
    destruct (Hq g Qg) as [(Hf & chg & Hc & (old & Hs & Hok) & Hd) Hle].
    destruct (Hrows g) as (E1 & E2 & E3 & E4 & E5 & E6 & E7 & E8).
    unfold ld in *.
    split.
    - unfold quiet_row, ld.
      split; [congruence|]. exists chg. split; [congruence|].
      split.
      { exists old. split; [congruence|]. unfold read_stamp in *. rewrite Hfs, E1. exact Hok. }
      rewrite (deps_of_rel w0 w (ldw w0 g) (ldw w g) g Hdeps E2 E3).
      intros d Hin. destruct (Hd d Hin) as [A B].
      destruct (Hrows (d_source d)) as (S1 & S2 & S3 & S4 & S5 & S6 & S7 & S8).
      split.
      + intro Hm. unfold exists_b in *. rewrite Hfs, S1. exact (A Hm).
      + intro Hm. destruct (B Hm) as (Qs & Hrk & c & Hcs & Hcle).
        split; [exact Qs|]. split; [exact Hrk|]. exists c. split; [congruence|].
        destruct (Hq _ Qs) as [_ Hsle]. specialize (Hsle c Hcs).
        unfold smax in *. destruct E8 as [E8|E8]; rewrite E8; [exact Hcle|lia].
    - intros c Hc'. apply Hle. congruence.
  Qed.

  (* ------------------------------------------------------------ rows after a write-back *)
  Lemma view_idem r : view_row R (view_row R r) = view_row R r.
  Proof.
    unfold view_row. destruct (bytes_eqb (r_name r) always_name) eqn:E; cbn [r_name]; rewrite ?E; [|reflexivity].
    cbn. f_equal. destruct (r_changed r) as [c|]; f_equal; lia.
  Qed.

  Lemma eqc_view_checked a : eqc (view_row R a) (view_row R (set_checked R (view_row R a))).
  Proof.
    unfold view_row. destruct (bytes_eqb (r_name a) always_name) eqn:E;
      cbn [set_checked upd_row r_name r_gen r_ovr r_checked r_changed r_failed r_stamp r_csum]; rewrite E;
      unfold eqc; cbn [r_name r_gen r_ovr r_checked r_changed r_failed r_stamp r_csum].
    - repeat split; auto. destruct (r_changed a) as [c|]; f_equal; lia.
    - repeat split; auto.
  Qed.

  Lemma ld_put_row_other d g x h : (h - 1 <> g - 1)%nat -> load R (put_row d g x) h = load R d h.
  Proof. intro H. unfold load. now rewrite get_row_put_row_other. Qed.

  Lemma ld_put_row_same d g x h : (h - 1 = g - 1)%nat -> (g - 1 < length (rows d))%nat ->
    load R (put_row d g x) h = view_row R x.
  Proof. intros H Hv. unfold load, get_row. rewrite rows_put_row, H. now rewrite nth_set_nth. Qed.

  Lemma put_row_beyond d g x : (length (rows d) <= g - 1)%nat -> put_row d g x = d.
  Proof. intro H. unfold put_row. rewrite set_nth_beyond by exact H. destruct d; reflexivity. Qed.

  (* writing back the copy [ldw w0 g] with the mark, into a world related to w0 *)
  Lemma rel_writeback w0 w g :
    rel w0 w -> rel w0 (set_db w (put_row (dbs w) g (set_checked R (ldw w0 g)))).
  Proof.
    intros (Hfs & Hdeps & Hnm & Hmr & Hrows).
    destruct (Nat.le_gt_cases (length (rows (dbs w))) (g - 1)) as [Hb|Hv].
    { rewrite put_row_beyond by exact Hb. destruct w as [wa wb wc wd we]; cbn [set_db dbs fs] in *.
      split; [exact Hfs|]. split; [exact Hdeps|]. split; [exact Hnm|]. split; [exact Hmr|exact Hrows]. }
    split; [exact Hfs|]. split; [exact Hdeps|]. split; [|split; [exact Hmr|]]; cbn [fs dbs set_db].
    - rewrite names_put_row; [exact Hnm|].
      cbn [set_checked upd_row r_name]. unfold load. rewrite view_row_name, !name_get_row. now rewrite Hnm.
    - intro h. destruct (Nat.eq_dec (h - 1) (g - 1)) as [E|E].
      + rewrite ld_put_row_same by assumption.
        assert (Hh : ldw w0 h = ldw w0 g) by (unfold load, get_row; now rewrite E).
        rewrite Hh. unfold load at 2. apply eqc_view_checked.
      + rewrite ld_put_row_other by exact E. apply Hrows.
  Qed.

  (* ------------------------------------------------------------ the walk *)
  Lemma walk_quiet_db fuel g (r : row) chg seen w :
    (forall d, In d (deps_of (dbs w) r g) ->
       (d_mode d = DCreated -> exists_b w (r_name (ldw w (d_source d))) = false) /\
       (d_mode d = DModified ->
          forall wk, rel w wk -> exists w' evs,
            is_dirty fuel R nil wk ChkDb (d_source d) (ldw w (d_source d)) (smax r chg) (g :: seen)
            = Ret (VClean, w', ChkDb, evs) /\ rel wk w' /\ Forall quiet_ev evs)) ->
    forall w0, rel w0 w -> r = ldw w0 g ->
    forall ds, (forall d, In d ds -> In d (deps_of (dbs w) r g)) ->
    forall wk evs, rel w wk -> Forall quiet_ev evs -> exists w' evs',
      walk_deps (fun w1 c s rs => is_dirty fuel R nil w1 c s rs (smax r chg) (g :: seen)) R g r
                (map (fun x => (x, ldw w (d_source x))) ds) wk ChkDb [] evs
      = Ret (VClean, w', ChkDb, evs') /\ rel w w' /\ Forall quiet_ev evs'.
  Proof.
    intros Hd w0 H0 Hr. induction ds as [|d ds IH]; intros Hin wk evs Hk Hev; cbn [map walk_deps].
    - eexists. eexists. split; [reflexivity|]. split.
      + subst r.
        (* rel w (write-back into wk of the copy taken at w0) *)
        assert (Hwk0 : rel w0 wk) by (eapply rel_trans; eauto).
        pose proof (rel_writeback w0 wk g Hwk0) as Hwb.
        destruct H0 as (F0 & D0 & N0 & M0 & R0). destruct Hwb as (F1 & D1 & N1 & M1 & R1).
        split; [congruence|]. split; [congruence|]. split; [congruence|]. split; [congruence|].
        intro h. specialize (R0 h). specialize (R1 h).
        destruct R0 as (A1 & A2 & A3 & A4 & A5 & A6 & A7 & A8).
        destruct R1 as (B1 & B2 & B3 & B4 & B5 & B6 & B7 & B8).
        destruct Hk as (_ & _ & _ & _ & Rk). destruct (Rk h) as (_ & _ & _ & _ & _ & _ & _ & K8).
        unfold eqc.
        split; [congruence|]. split; [congruence|]. split; [congruence|]. split; [congruence|].
        split; [congruence|]. split; [congruence|]. split; [congruence|].
        (* the slot either is g's (mark R) or is what wk has *)
        destruct (Nat.eq_dec (h - 1) (g - 1)) as [E|E].
        * destruct (Nat.le_gt_cases (length (rows (dbs wk))) (g - 1)) as [Hb|Hv].
          -- rewrite put_row_beyond by exact Hb. destruct wk as [wa wb wc wd we]; cbn [set_db dbs] in *. exact K8.
          -- right. cbn [set_db dbs]. rewrite ld_put_row_same by assumption.
             unfold view_row. destruct (bytes_eqb _ _); reflexivity.
        * cbn [set_db dbs]. rewrite ld_put_row_other by exact E. exact K8.
      + destruct (r_ovr r); [apply Forall_app; split; [exact Hev|repeat constructor]|exact Hev].
    - destruct (Hd d (Hin d (or_introl eq_refl))) as [Hc Hm].
      destruct (d_mode d) eqn:Em.
      + assert (E : exists_b wk (r_name (ldw w (d_source d))) = false).
        { destruct Hk as (Fk & _). unfold exists_b in *. rewrite Fk. exact (Hc eq_refl). }
        rewrite E. apply IH; [intros d' H'; apply Hin; now right|exact Hk|apply Forall_app; split; [exact Hev|constructor]].
      + destruct (Hm eq_refl wk Hk) as (w1 & e1 & Hr1 & Hrel1 & Hq1). rewrite Hr1.
        apply IH; [intros d' H'; apply Hin; now right|eapply rel_trans; eauto|].
        apply Forall_app. split; assumption.
  Qed.

  (* main lemma, by induction on the rank: the builder's check of a quiet row,
     judged on a copy taken at w0, in a world w the walk has reached since *)
  Lemma quiet_clean_db : forall n g, (rk g < n)%nat -> Q g ->
    forall fuel, (rk g < fuel)%nat ->
    forall w0 w mx seen, QUIET w0 -> rel w0 w ->
      (forall a, mem a seen = true -> (rk g < rk a)%nat) ->
      (forall chg, r_changed (ldw w0 g) = Some chg -> (chg <= mx)%Z) ->
      exists w' evs, is_dirty fuel R nil w ChkDb g (ldw w0 g) mx seen = Ret (VClean, w', ChkDb, evs)
                     /\ rel w w' /\ Forall quiet_ev evs.
  Proof.
    induction n as [|n IH]; intros g Hn Hq fuel Hfuel w0 w mx seen HQ0 H0 Hseen Hmx; [lia|].
    destruct fuel as [|fuel']; [lia|].
    pose proof (QUIET_rel w0 w H0 HQ0) as HQw.
    destruct (HQ0 g Hq) as [(Hf & chg & Hc & (old & Hs & Hok) & Hd0) Hle0].
    unfold ld in *.
    cbn [is_dirty].
    assert (Es : mem g seen = false).
    { destruct (mem g seen) eqn:E; [|reflexivity]. pose proof (Hseen g E). lia. }
    rewrite Es, Hf, Hc.
    assert (El : Z.ltb mx chg = false) by (apply Z.ltb_ge; apply Hmx; exact Hc). rewrite El.
    cbn [chk_is_checked].
    destruct (is_checked R (ldw w0 g) || is_changed R (ldw w0 g)).
    { exists w, []. split; [reflexivity|]. split; [apply rel_refl|constructor]. }
    rewrite Hs.
    assert (Hok' : stamp_eqb old (read_stamp w (r_name (ldw w0 g))) = true).
    { destruct H0 as (F0 & _). unfold read_stamp in *. rewrite F0. exact Hok. }
    rewrite Hok'. cbn [negb]. unfold deps_rows.
    change (Z.max chg match r_checked (ldw w0 g) with Some k => k | None => 0%Z end) with (smax (ldw w0 g) chg).
    assert (Hdo : deps_of (dbs w) (ldw w0 g) g = deps_of (dbs w0) (ldw w0 g) g).
    { destruct H0 as (_ & D0 & _). unfold deps_of. now rewrite D0. }
    destruct (walk_quiet_db fuel' g (ldw w0 g) chg seen w) with (w0 := w0) (ds := deps_of (dbs w) (ldw w0 g) g)
                                                               (wk := w) (evs := @nil event)
      as (w' & evs' & Hw & Hrel & Hev); auto using rel_refl.
    - intros d Hin. rewrite Hdo in Hin. destruct (Hd0 d Hin) as [A B].
      destruct H0 as (F0 & D0 & N0 & M0 & R0).
      destruct (R0 (d_source d)) as (S1 & S2 & S3 & S4 & S5 & S6 & S7 & S8).
      split.
      + intro Hm. unfold exists_b in *. rewrite F0, S1. exact (A Hm).
      + intros Hm wk Hk. destruct (B Hm) as (Qd & Hrk & c & Hcd & Hcle).
        apply (IH (d_source d)); [lia|exact Qd|lia|exact HQw|exact Hk| |].
        * intros a Ha. cbn [existsb] in Ha. apply orb_true_iff in Ha as [Ha|Ha].
          -- apply Nat.eqb_eq in Ha. subst a. exact Hrk.
          -- pose proof (Hseen a Ha). lia.
        * intros c' Hc'. rewrite S4, Hcd in Hc'. injection Hc' as <-. exact Hcle.
    - exists w', evs'. split; [exact Hw|]. split; assumption.
  Qed.
End CleanDb.

(* ================================================================ whole commands *)
Section Cmd.
  Variable R : Z.
  Variable rk : fid -> nat.
  Variable Q : fid -> Prop.

  Lemma set_db_same w : set_db w (dbs w) = w.
  Proof. destruct w as [a b c d e]; reflexivity. Qed.

  Definition requested (fuel : nat) (w : world) (ts : list name) : Prop :=
    forall t, In t ts -> exists f, find_row (rows (dbs w)) t 1 = Some f /\ Q f /\ (rk f < fuel)%nat.

  Lemma requested_rel fuel w w' ts : rel R w w' -> requested fuel w ts -> requested fuel w' ts.
  Proof.
    intros (_ & _ & Hn & _) H t Ht. destruct (H t Ht) as (f & Hf & Hq & Hr). exists f. split; [|auto].
    rewrite <- Hf. apply find_row_by_names. exact Hn.
  Qed.

  (* BuildJob::start on a quiet target: found clean, nothing started *)
  Lemma start_quiet rec fuel e t f w :
    e_runid e = R -> e_cycles e = [] -> QUIET R rk Q w -> find_row (rows (dbs w)) t 1 = Some f -> Q f -> (rk f < fuel)%nat ->
    exists w' evs, start rec fuel e MIfChange t w = Ret (w', evs, 0%Z, false)
                   /\ rel R w w' /\ Forall quiet_ev evs.
  Proof.
    intros HR Hcy HQ Hf Qf Hfuel. unfold start, from_name. cbv zeta. rewrite Hf, set_db_same, HR, Hcy.
    destruct (HQ f Qf) as [(Hfail & chg & Hc & _) Hle]. unfold ld in *.
    assert (Ef : is_failed R (load R (dbs w) f) = false) by (unfold is_failed; rewrite Hfail; reflexivity).
    rewrite Ef.
    destruct (quiet_clean_db R rk Q (S (rk f)) f (Nat.lt_succ_diag_r _) Qf fuel Hfuel w w R [] HQ (rel_refl R w))
      as (w' & evd & Hd & Hrel & Hev).
    - intros a Ha. discriminate Ha.
    - exact Hle.
    - match goal with |- context [is_dirty ?a ?b ?k ?c ?d ?x ?y ?z ?u] =>
        replace (is_dirty a b k c d x y z u) with (Ret (VClean, w', ChkDb, evd)) by (symmetry; exact Hd) end.
      eexists. eexists. split; [reflexivity|]. split; [exact Hrel|].
      apply Forall_app. split; [exact Hev|]. destruct (r_gen _); repeat constructor.
  Qed.

  (* builder::run over quiet targets *)
  Lemma run_loop_quiet rec fuel e :
    e_runid e = R -> e_cycles e = [] ->
    forall ts seen w evs, QUIET R rk Q w -> requested fuel w ts -> Forall quiet_ev evs ->
    exists w' evs', run_loop (start rec fuel e MIfChange) e ts seen w evs false = Ret (w', evs', 0%Z)
                    /\ rel R w w' /\ Forall quiet_ev evs'.
  Proof.
    intros HR Hcyc. induction ts as [|t ts IH]; intros seen w evs HQ Hreq Hev; cbn [run_loop].
    - exists w, evs. split; [reflexivity|]. split; [apply rel_refl|exact Hev].
    - cbn [andb]. destruct (Hreq t (or_introl eq_refl)) as (f & Hf & Qf & Hrk).
      unfold from_name at 1. rewrite Hf, set_db_same.
      assert (Hreq' : requested fuel w ts) by (intros t' Ht'; apply Hreq; now right).
      destruct (existsb (Nat.eqb f) seen).
      { apply IH; assumption. }
      rewrite Hcyc. cbn [existsb]. rewrite andb_false_r.
      destruct (start_quiet rec fuel e t f w HR Hcyc HQ Hf Qf Hrk) as (w1 & ev1 & Hs & Hrel1 & Hev1).
      rewrite Hs. cbn [Z.eqb negb orb].
      destruct (IH (f :: seen) w1 (evs ++ ev1)) as (w' & evs' & Hl & Hrel & Hev').
      + eapply QUIET_rel; eauto.
      + eapply requested_rel; eauto.
      + apply Forall_app. split; assumption.
      + exists w', evs'. split; [exact Hl|]. split; [eapply rel_trans; eauto|exact Hev'].
  Qed.

  (* the command `redo-ifchange ts` at top level *)
  Lemma build_quiet fuel e ts w :
    e_runid e = R -> e_cycles e = [] -> e_target e = None ->
    QUIET R rk Q w -> requested fuel w ts ->
    exists w' evs, build (S fuel) e MIfChange ts w = Ret (w', evs, 0%Z)
                   /\ rel R w w' /\ Forall quiet_ev evs.
  Proof.
    intros HR Hcyc Htgt HQ Hreq. cbn [build]. unfold frontend_deps. rewrite Htgt.
    apply run_loop_quiet; auto.
  Qed.
End Cmd.

(* ================================================================ exec, and every later exec *)
Section Exec.
  Variable rk : fid -> nat.
  Variable Q : fid -> Prop.

  Lemma QUIET_same_rows R w w' :
    fs w' = fs w -> rows (dbs w') = rows (dbs w) -> deps (dbs w') = deps (dbs w) ->
    QUIET R rk Q w -> QUIET R rk Q w'.
  Proof.
    intros Hfs Hrows Hdeps H.
    unfold QUIET, quiet2, quiet_row, ld, load, get_row, deps_of, read_stamp, exists_b in *.
    rewrite Hfs, Hrows, Hdeps. exact H.
  Qed.

  Definition no_always (w : world) : Prop :=
    forall g, Q g -> bytes_eqb (r_name (get_row (dbs w) g)) always_name = false.

  Lemma view_not_always X r : bytes_eqb (r_name r) always_name = false -> view_row X r = r.
  Proof. intro H. unfold view_row. now rewrite H. Qed.

  (* a quiet set without //ALWAYS is quiet for every later run id *)
  Lemma QUIET_next R R' w : (R <= R')%Z -> no_always w -> QUIET R rk Q w -> QUIET R' rk Q w.
  Proof.
    intros Hle Hna H g Qg. destruct (H g Qg) as [(Hf & chg & Hc & (old & Hs & Hok) & Hd) Hb].
    unfold ld, load in *. rewrite (view_not_always R _ (Hna g Qg)) in *.
    split.
    - unfold quiet_row, ld, load. rewrite (view_not_always R' _ (Hna g Qg)).
      split; [exact Hf|]. exists chg. split; [exact Hc|]. split; [exists old; auto|].
      intros d Hin. destruct (Hd d Hin) as [A B]. split.
      + intro Hm. rewrite view_row_name. specialize (A Hm). rewrite view_row_name in A. exact A.
      + intro Hm. destruct (B Hm) as (Qs & Hrk & c & Hcs & Hcle).
        rewrite (view_not_always R _ (Hna _ Qs)) in Hcs. rewrite (view_not_always R' _ (Hna _ Qs)).
        split; [exact Qs|]. split; [exact Hrk|]. exists c. split; [exact Hcs|exact Hcle].
    - unfold load. rewrite (view_not_always R' _ (Hna g Qg)). intros c Hc'. specialize (Hb c Hc'). lia.
  Qed.

  Lemma default_fuel_pos w : exists n, default_fuel w = S (S n).
  Proof. unfold default_fuel. exists (3 * (length (rows (dbs w)) + length (fs w)) + 10)%nat. lia. Qed.

  (* one `redo-ifchange ts` on a quiet state: exit 0, no script started, no
     file touched, the set still quiet (for this run id) *)
  Theorem quiet_ifchange_noop k ts w :
    let R := (maxrun (dbs w) + 1)%Z in
    QUIET R rk Q w -> requested rk Q (default_fuel w - 1) w ts ->
    exists w' evs, exec (CIfChange k ts) w = (w', OutBuild evs 0%Z)
      /\ fs w' = fs w /\ Forall quiet_ev evs /\ QUIET R rk Q w'
      /\ names (dbs w') = names (dbs w) /\ deps (dbs w') = deps (dbs w) /\ maxrun (dbs w') = R.
  Proof.
    intros R HQ Hreq. unfold exec, new_run. cbv zeta.
    set (w1 := set_db w {| rows := rows (dbs w); deps := deps (dbs w); maxrun := (maxrun (dbs w) + 1)%Z |}).
    assert (Hdf : default_fuel w1 = default_fuel w) by reflexivity.
    destruct (default_fuel_pos w) as [n Hn]. rewrite Hdf, Hn. rewrite Hn in Hreq. cbn [Nat.sub] in Hreq.
    replace (S n - 0)%nat with (S n) in Hreq by lia.
    assert (HQ1 : QUIET R rk Q w1) by (apply (QUIET_same_rows R w w1); auto).
    assert (Hreq1 : requested rk Q (S n) w1 ts) by exact Hreq.
    destruct (build_quiet R rk Q (S n) {| e_runid := R; e_target := None; e_unlocked := false; e_no_oob := false;
                                          e_keep_going := k; e_cycles := [] |} ts w1)
      as (w' & evs & Hb & (F & D & N & M & Rw) & Hev); auto.
    fold R. rewrite Hb. exists w', evs. split; [reflexivity|].
    split; [exact F|]. split; [exact Hev|]. split.
    - eapply QUIET_rel; [|exact HQ1]. split; [exact F|split; [exact D|split; [exact N|split; [exact M|exact Rw]]]].
    - split; [exact N|]. split; [exact D|exact M].
  Qed.

  (* ... and so does every later one *)
  Fixpoint repeat_exec (n : nat) (c : cmd) (w : world) : list (world * output) :=
    match n with
    | O => []
    | S n' => let '(w', o) := exec c w in (w', o) :: repeat_exec n' c w'
    end.

  Definition noop_result (w0 : world) (x : world * output) : Prop :=
    fs (fst x) = fs w0 /\ exists evs, snd x = OutBuild evs 0%Z /\ Forall quiet_ev evs.

  Theorem quiet_forever k ts : forall n w,
    QUIET (maxrun (dbs w) + 1)%Z rk Q w -> no_always w -> requested rk Q (default_fuel w - 1) w ts ->
    Forall (noop_result w) (repeat_exec n (CIfChange k ts) w).
  Proof.
    induction n as [|n IH]; intros w HQ Hna Hreq; cbn [repeat_exec]; [constructor|].
    destruct (quiet_ifchange_noop k ts w HQ Hreq) as (w' & evs & He & F & Hev & HQ' & N & D & M).
    rewrite He. constructor.
    - split; [exact F|]. exists evs. split; [reflexivity|exact Hev].
    - assert (Hna' : no_always w').
      { intros g Qg. rewrite name_get_row, N, <- name_get_row. apply Hna, Qg. }
      assert (Hdf : default_fuel w' = default_fuel w).
      { unfold default_fuel. rewrite F, <- !names_length, N. reflexivity. }
      assert (Hreq' : requested rk Q (default_fuel w' - 1) w' ts).
      { rewrite Hdf. intros t Ht. destruct (Hreq t Ht) as (f & Hf & Hq & Hr). exists f. split; [|auto].
        rewrite <- Hf. apply find_row_by_names. exact N. }
      assert (HQn : QUIET (maxrun (dbs w') + 1)%Z rk Q w').
      { rewrite M. apply (QUIET_next (maxrun (dbs w) + 1)%Z); [lia|exact Hna'|exact HQ']. }
      specialize (IH w' HQn Hna' Hreq').
      eapply Forall_impl; [|exact IH]. intros x (Fx & Hx). split; [congruence|exact Hx].
  Qed.
End Exec.

(* ================================================================ decidable premises *)
Section ExecB.
  Variable rk : fid -> nat.
  Variable S : list fid.

  Definition settled_b (R : Z) (w : world) (g : fid) : bool :=
    negb (bytes_eqb (r_name (get_row (dbs w) g)) always_name)
    && match r_changed (load R (dbs w) g) with Some chg => Z.leb chg R | None => true end.

  Definition requested_b (w : world) (t : name) : bool :=
    match find_row (rows (dbs w)) t 1 with
    | Some f => mem f S && Nat.ltb (rk f) (default_fuel w - 1)
    | None => false
    end.

  Theorem quiet_forever_b k ts n w :
    let R := (maxrun (dbs w) + 1)%Z in
    forallb (quiet_row_b R w rk S) S = true ->
    forallb (settled_b R w) S = true ->
    forallb (requested_b w) ts = true ->
    Forall (noop_result w) (repeat_exec n (CIfChange k ts) w).
  Proof.
    intros R Hq Hs Hr. rewrite forallb_forall in Hs, Hr.
    apply (quiet_forever rk (fun x => In x S)).
    - intros g Hg. split; [exact (quiet_b_sound R w rk S Hq g Hg)|].
      specialize (Hs g Hg). unfold settled_b in Hs. apply andb_true_iff in Hs as [_ Hs].
      intros chg Hc. fold R in Hc. unfold ld in *. rewrite Hc in Hs. now apply Z.leb_le.
    - intros g Hg. specialize (Hs g Hg). unfold settled_b in Hs. apply andb_true_iff in Hs as [Hs _].
      now apply negb_true_iff in Hs.
    - intros t Ht. specialize (Hr t Ht). unfold requested_b in Hr.
      destruct (find_row (rows (dbs w)) t 1) as [f|]; [|discriminate].
      apply andb_true_iff in Hr as [Hm Hl]. exists f. split; [reflexivity|].
      split; [eapply mem_In; exact Hm|apply Nat.ltb_lt; exact Hl].
  Qed.
End ExecB.
