From Coq Require Import ZArith List Bool Lia.
From Redo Require Import Tokens.Model.
Import ListNotations.
Open Scope Z_scope.
Arguments Z.add : simpl never.
Arguments Z.sub : simpl never.
Arguments Z.mul : simpl never.
Arguments Z.opp : simpl never.
Arguments Z.ltb : simpl never.
Arguments Z.leb : simpl never.
Arguments Z.eqb : simpl never.
Arguments Z.of_nat : simpl never.

Lemma sum_upd pid p p' l : find pid l = Some p -> sum (upd pid p' l) = sum l - val p + val p'.
Proof.
  induction l as [|[k q] l IH]; cbn; [discriminate|].
  destruct (Z.eqb k pid); intro H.
  - inversion H; subst. cbn. lia.
  - cbn. rewrite IH by assumption. lia.
Qed.

Lemma sum_del pid p l : find pid l = Some p -> sum (del pid l) = sum l - val p.
Proof.
  induction l as [|[k q] l IH]; cbn; [discriminate|].
  destruct (Z.eqb k pid); intro H.
  - inversion H; subst. lia.
  - cbn. rewrite IH by assumption. lia.
Qed.

Lemma release1_val p : val (fst (release1 p)) + snd (release1 p) = val p.
Proof. unfold release1, val. destruct (0 <? ch p); cbn; lia. Qed.

Lemma release_n_val n : forall p, val (fst (release_n n p)) + snd (release_n n p) = val p.
Proof.
  induction n as [|n IH]; intro p; cbn [release_n]; [cbn; lia|].
  pose proof (release1_val p) as H1. destruct (release1 p) as [p1 a]. cbn [fst snd] in H1.
  pose proof (IH p1) as H2. destruct (release_n n p1) as [p2 b]. cbn [fst snd] in *. lia.
Qed.

Lemma create1_val p : val (create1 p) = val p + 1.
Proof. unfold create1, val. destruct (0 <? ch p); cbn; lia. Qed.

Lemma iter_create1_val n p : val (Nat.iter n create1 p) = val p + Z.of_nat n.
Proof.
  induction n as [|n IH]; [cbn; lia|]. change (Nat.iter (S n) create1 p) with (create1 (Nat.iter n create1 p)). rewrite create1_val, IH. lia.
Qed.

Lemma create1_ok p : 0 <= ch p /\ 0 <= my p -> 0 <= ch (create1 p) /\ 0 <= my (create1 p).
Proof.
  intro H. unfold create1. destruct (0 <? ch p) eqn:E; cbn [my ch]; [apply Z.ltb_lt in E|]; lia.
Qed.

Lemma iter_create1_ok n p : 0 <= ch p /\ 0 <= my p -> 0 <= ch (Nat.iter n create1 p) /\ 0 <= my (Nat.iter n create1 p).
Proof.
  intro H. induction n as [|n IH]; [exact H|].
  change (Nat.iter (S n) create1 p) with (create1 (Nat.iter n create1 p)). now apply create1_ok.
Qed.

(* ---- conservation: every event the model accepts leaves Q unchanged ---- *)
Theorem apply_conserves e s s' : apply e s = Some s' -> Q s' = Q s.
Proof.
  unfold apply, Q. destruct e as [pid|pid|pid|pid|pid|pid|pid n|pid|pid n|pid];
    destruct (find pid (procs s)) as [p|] eqn:F; try discriminate.
  - intro H. inversion H; subst; cbn. unfold val; cbn. lia.
  - destruct (Z.eqb (my p) 1) eqn:E; [|discriminate]. apply Z.eqb_eq in E.
    intro H. inversion H; subst; cbn. rewrite (sum_upd _ _ _ _ F). unfold val; cbn. lia.
  - destruct (Z.eqb (my p) 0 && (0 <? T s)) eqn:E; [|discriminate].
    apply andb_true_iff in E as [E1 E2]. apply Z.eqb_eq in E1.
    intro H. inversion H; subst; cbn. rewrite (sum_upd _ _ _ _ F). unfold val; cbn. lia.
  - destruct (Z.eqb (my p) 0 && Z.eqb (ch p) 0) eqn:E; [|discriminate]. apply andb_true_iff in E as [E _]. apply Z.eqb_eq in E.
    intro H. inversion H; subst; cbn. rewrite (sum_upd _ _ _ _ F). unfold val; cbn. lia.
  - destruct ((0 <? C s) && (0 <? J s)); [|discriminate].
    intro H. inversion H; subst; cbn. lia.
  - destruct (0 <? J s); [|discriminate].
    intro H. inversion H; subst; cbn. rewrite (sum_upd _ _ _ _ F), create1_val. lia.
  - destruct (Z.of_nat n <=? my p); [|discriminate].
    pose proof (release_n_val n p) as R. destruct (release_n n p) as [p' shared]. cbn [fst snd] in R.
    intro H. inversion H; subst; cbn. rewrite (sum_upd _ _ _ _ F). lia.
  - destruct (Z.eqb (C s) 0); [|discriminate]. intro H. now inversion H.
  - destruct (Z.of_nat n <=? J s); [|discriminate].
    intro H. inversion H; subst; cbn. rewrite (sum_upd _ _ _ _ F), iter_create1_val. lia.
  - destruct (Z.eqb (my p) 1 && (0 <=? ch p) && (ch p <=? 1) && (0 <? L s)) eqn:E; [|discriminate].
    repeat (apply andb_true_iff in E as [E ?]). apply Z.eqb_eq in E.
    intro HH. inversion HH; subst; cbn. rewrite (sum_del _ _ _ F). unfold val. lia.
Qed.

Theorem run_conserves es : forall s s', run es s = Some s' -> Q s' = Q s.
Proof.
  induction es as [|e es IH]; intros s s' H; cbn in H; [now inversion H|].
  destruct (apply e s) as [s1|] eqn:E; [|discriminate].
  rewrite (IH _ _ H). eapply apply_conserves; eassumption.
Qed.

Lemma Q_init pid n : Q (init pid n) = n.
Proof. unfold Q, init. cbn [T C procs J L sum]. unfold val. cbn [my ch]. lia. Qed.

(* ---- non-negativity ---- *)
Lemma procs_ok_upd pid p' l : procs_ok l -> 0 <= ch p' /\ 0 <= my p' -> procs_ok (upd pid p' l).
Proof.
  induction l as [|[k q] l IH]; cbn; [auto|]. intros [Hq Hl] Hp.
  destruct (Z.eqb k pid); cbn; auto.
Qed.
Lemma procs_ok_del pid l : procs_ok l -> procs_ok (del pid l).
Proof.
  induction l as [|[k q] l IH]; cbn; [auto|]. intros [Hq Hl]. destruct (Z.eqb k pid); cbn; auto.
Qed.
Lemma procs_ok_find pid p l : procs_ok l -> find pid l = Some p -> 0 <= ch p /\ 0 <= my p.
Proof.
  induction l as [|[k q] l IH]; cbn; [discriminate|]. intros [Hq Hl].
  destruct (Z.eqb k pid); intro H; [inversion H; subst; auto|auto].
Qed.

Lemma release_n_ok n : forall p, 0 <= ch p /\ 0 <= my p -> Z.of_nat n <= my p ->
  (0 <= ch (fst (release_n n p)) /\ 0 <= my (fst (release_n n p))) /\ 0 <= snd (release_n n p).
Proof.
  induction n as [|n IH]; intros p Hp Hn; cbn [release_n]; [cbn; lia|].
  unfold release1. destruct (0 <? ch p) eqn:E.
  - apply Z.ltb_lt in E.
    specialize (IH {| my := my p - 1; ch := ch p - 1 |}). cbn [my ch] in IH.
    destruct (release_n n {| my := my p - 1; ch := ch p - 1 |}) as [p2 b]. cbn [fst snd] in *.
    assert (H1 : 0 <= ch p - 1 /\ 0 <= my p - 1) by lia.
    assert (H2 : Z.of_nat n <= my p - 1) by lia. specialize (IH H1 H2). lia.
  - apply Z.ltb_ge in E.
    specialize (IH {| my := my p - 1; ch := ch p |}). cbn [my ch] in IH.
    destruct (release_n n {| my := my p - 1; ch := ch p |}) as [p2 b]. cbn [fst snd] in *.
    assert (H1 : 0 <= ch p /\ 0 <= my p - 1) by lia.
    assert (H2 : Z.of_nat n <= my p - 1) by lia. specialize (IH H1 H2). lia.
Qed.

Theorem apply_ok e s s' : ok s -> apply e s = Some s' -> ok s'.
Proof.
  unfold ok, apply. intros (HT & HC & HJ & HL & HP).
  destruct e as [pid|pid|pid|pid|pid|pid|pid n|pid|pid n|pid];
    destruct (find pid (procs s)) as [p|] eqn:F; try discriminate;
    try pose proof (procs_ok_find _ _ _ HP F) as Hp.
  - intro H. inversion H; subst; cbn [T C procs J L procs_ok my ch]. repeat split; try lia. exact HP.
  - destruct (Z.eqb (my p) 1) eqn:E; [|discriminate]. apply Z.eqb_eq in E.
    intro H. inversion H; subst; unfold set_procs; cbn [T C procs J L procs_ok]. repeat split; try lia.
    apply procs_ok_upd; [exact HP|cbn [my ch]; lia].
  - destruct (Z.eqb (my p) 0 && (0 <? T s)) eqn:E; [|discriminate].
    apply andb_true_iff in E as [E1 E2]. apply Z.ltb_lt in E2.
    intro H. inversion H; subst; unfold set_procs; cbn [T C procs J L procs_ok]. repeat split; try lia.
    apply procs_ok_upd; [exact HP|cbn [my ch]; lia].
  - destruct (Z.eqb (my p) 0 && Z.eqb (ch p) 0) eqn:E; [|discriminate]. apply andb_true_iff in E as [E _].
    intro H. inversion H; subst; unfold set_procs; cbn [T C procs J L procs_ok]. repeat split; try lia.
    apply procs_ok_upd; [exact HP|cbn [my ch]; lia].
  - destruct ((0 <? C s) && (0 <? J s)) eqn:E; [|discriminate].
    apply andb_true_iff in E as [E1 E2]. apply Z.ltb_lt in E1, E2.
    intro H. inversion H; subst; unfold set_procs; cbn [T C procs J L procs_ok]. repeat split; try lia. exact HP.
  - destruct (0 <? J s) eqn:E; [|discriminate]. apply Z.ltb_lt in E.
    intro H. inversion H; subst; unfold set_procs; cbn [T C procs J L procs_ok]. repeat split; try lia.
    apply procs_ok_upd; [exact HP|]. unfold create1. destruct (0 <? ch p) eqn:E2; cbn [my ch]; [apply Z.ltb_lt in E2|]; lia.
  - destruct (Z.of_nat n <=? my p) eqn:E; [|discriminate]. apply Z.leb_le in E.
    pose proof (release_n_ok n p Hp E) as R. destruct (release_n n p) as [p' shared]. cbn [fst snd] in R.
    intro H. inversion H; subst; unfold set_procs; cbn [T C procs J L procs_ok]. repeat split; try lia.
    apply procs_ok_upd; [exact HP|lia].
  - destruct (Z.eqb (C s) 0); [|discriminate]. intro H. inversion H; subst. auto.
  - destruct (Z.of_nat n <=? J s) eqn:E; [|discriminate]. apply Z.leb_le in E.
    intro H. inversion H; subst; unfold set_procs; cbn [T C procs J L procs_ok]. repeat split; try lia.
    apply procs_ok_upd; [exact HP|]. now apply iter_create1_ok.
  - destruct (Z.eqb (my p) 1 && (0 <=? ch p) && (ch p <=? 1) && (0 <? L s)) eqn:E; [|discriminate].
    repeat (apply andb_true_iff in E as [E ?]).
    match goal with X : (0 <? L s) = true |- _ => apply Z.ltb_lt in X end.
    intro HH. inversion HH; subst; cbn [T C procs J L procs_ok]. repeat split; try lia. now apply procs_ok_del.
Qed.

Theorem run_ok es : forall s s', ok s -> run es s = Some s' -> ok s'.
Proof.
  induction es as [|e es IH]; intros s s' Hs H; cbn in H; [inversion H; subst; exact Hs|].
  destruct (apply e s) as [s1|] eqn:E; [|discriminate].
  eapply IH; [|exact H]. eapply apply_ok; eauto.
Qed.

Lemma ok_init pid n : 1 <= n -> ok (init pid n).
Proof. intro H. unfold ok, init. cbn [T C procs J L procs_ok my ch]. repeat split; lia. Qed.

(* ---- the -j bound: jobs that hold a token and are not blocked inside a
        nested redo never exceed N plus the outstanding cheats ---- *)
Lemma sum_split l : procs_ok l -> sum l + cheats_out l >= 0 /\ 0 <= cheats_out l.
Proof.
  induction l as [|[k p] l IH]; cbn; [lia|]. intros [Hp Hl]. specialize (IH Hl). unfold val. lia.
Qed.

Theorem bound es pid n s :
  1 <= n -> run es (init pid n) = Some s ->
  J s - L s <= n + C s + cheats_out (procs s).
Proof.
  intros Hn H. pose proof (run_conserves _ _ _ H) as HQ. rewrite Q_init in HQ.
  pose proof (run_ok _ _ _ (ok_init pid n Hn) H) as (HT & HC & HJ & HL & HP).
  pose proof (sum_split _ HP). unfold Q in HQ. lia.
Qed.

(* the top-level self-test cannot fail: when every nested redo has ended and
   every job has been reaped, the pipes hold exactly n minus what the top holds *)
Theorem selftest_passes es pid n s p :
  run es (init pid n) = Some s ->
  procs s = [(pid, p)] -> J s = 0 -> L s = 0 ->
  T s - C s + (my p - ch p) = n.
Proof.
  intros H Hp HJ HL. pose proof (run_conserves _ _ _ H) as HQ. rewrite Q_init in HQ.
  unfold Q in HQ. rewrite Hp, HJ, HL in HQ. cbn [sum] in HQ. unfold val in HQ. lia.
Qed.
