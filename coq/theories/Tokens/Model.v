(* The token system of src/jobserver.rs as a transition system over the
   events the (hooked) implementation reports: one event per mutation of a
   process's token book (my_tokens, cheats), with the bytes moved through the
   token pipe (T) and the cheat pipe (C).  MODEL FILE: definitions only.

   J = jobs started and not yet reaped (each was given one token by its parent)
   L = live nested redo processes (each runs inside a job, which lent it its token) *)
From Coq Require Import ZArith List Bool.
Import ListNotations.
Open Scope Z_scope.

Record proc := { my : Z; ch : Z }.
Record gs := { T : Z; C : Z; procs : list (Z * proc); J : Z; L : Z }.

Fixpoint find (pid : Z) (l : list (Z * proc)) : option proc :=
  match l with
  | [] => None
  | (k, p) :: l' => if Z.eqb k pid then Some p else find pid l'
  end.
Fixpoint upd (pid : Z) (p' : proc) (l : list (Z * proc)) : list (Z * proc) :=
  match l with
  | [] => []
  | (k, p) :: l' => if Z.eqb k pid then (k, p') :: l' else (k, p) :: upd pid p' l'
  end.
Fixpoint del (pid : Z) (l : list (Z * proc)) : list (Z * proc) :=
  match l with
  | [] => []
  | (k, p) :: l' => if Z.eqb k pid then l' else (k, p) :: del pid l'
  end.

Definition val (p : proc) : Z := my p - ch p.
Fixpoint sum (l : list (Z * proc)) : Z :=
  match l with [] => 0 | (_, p) :: l' => val p + sum l' end.

(* the conserved quantity *)
Definition Q (s : gs) : Z := T s - C s + sum (procs s) + J s - L s.

(* ServerState::create_tokens 1 / release 1, on one book; release also returns
   the number of bytes written to the token pipe *)
Definition create1 (p : proc) : proc :=
  if 0 <? ch p then {| my := my p; ch := ch p - 1 |} else {| my := my p + 1; ch := ch p |}.
Definition release1 (p : proc) : proc * Z :=
  if 0 <? ch p then ({| my := my p - 1; ch := ch p - 1 |}, 0)
  else ({| my := my p - 1; ch := ch p |}, 1).
Fixpoint release_n (n : nat) (p : proc) : proc * Z :=
  match n with
  | O => (p, 0)
  | S n' => let '(p1, a) := release1 p in let '(p2, b) := release_n n' p1 in (p2, a + b)
  end.

Inductive ev :=
| EBegin (pid : Z)                 (* a nested redo starts inside a job: my=1, cheats=0 *)
| EStart (pid : Z)                 (* JobServerHandle::start: assert my = 1; my := 0; a job is forked *)
| ERead (pid : Z)                  (* a token byte read in block_on (only while holding none) *)
| ECheat (pid : Z)                 (* ensure_token_or_cheat granted one cheat *)
| EReapEat (pid : Z)               (* a child exited; a cheat byte was read instead of re-creating its token *)
| EReapCreate (pid : Z)            (* a child exited; its token is re-created *)
| ERelease (pid : Z) (n : nat)     (* ServerState::release n *)
| ESelfTest (pid : Z)              (* top level, idle: read all bytes of both pipes, write the tokens back *)
| EAbandon (pid : Z) (n : nat)     (* error exit with n jobs still running: their tokens are re-created at once *)
| EExit (pid : Z).                 (* force_return_tokens of a nested redo, then the process ends *)

Definition set_procs (s : gs) (l : list (Z * proc)) : gs :=
  {| T := T s; C := C s; procs := l; J := J s; L := L s |}.

(* [None] = the implementation would hit an assertion / break the accounting *)
Definition apply (e : ev) (s : gs) : option gs :=
  match e with
  | EBegin pid =>
      match find pid (procs s) with
      | Some _ => None
      | None => Some {| T := T s; C := C s; procs := (pid, {| my := 1; ch := 0 |}) :: procs s;
                        J := J s; L := L s + 1 |}
      end
  | EStart pid =>
      match find pid (procs s) with
      | Some p => if Z.eqb (my p) 1
                  then Some {| T := T s; C := C s; procs := upd pid {| my := 0; ch := ch p |} (procs s);
                               J := J s + 1; L := L s |}
                  else None
      | None => None
      end
  | ERead pid =>
      match find pid (procs s) with
      | Some p => if Z.eqb (my p) 0 && (0 <? T s)
                  then Some {| T := T s - 1; C := C s; procs := upd pid {| my := 1; ch := ch p |} (procs s);
                               J := J s; L := L s |}
                  else None
      | None => None
      end
  | ECheat pid =>
      match find pid (procs s) with
      | Some p => if Z.eqb (my p) 0 && Z.eqb (ch p) 0   (* no second cheat on top of an unpaid one (fix F81) *)
                  then Some (set_procs s (upd pid {| my := 1; ch := ch p + 1 |} (procs s)))
                  else None
      | None => None
      end
  | EReapEat pid =>
      match find pid (procs s) with
      | Some p => if (0 <? C s) && (0 <? J s)
                  then Some {| T := T s; C := C s - 1; procs := procs s; J := J s - 1; L := L s |}
                  else None
      | None => None
      end
  | EReapCreate pid =>
      match find pid (procs s) with
      | Some p => if 0 <? J s
                  then Some {| T := T s; C := C s; procs := upd pid (create1 p) (procs s);
                               J := J s - 1; L := L s |}
                  else None
      | None => None
      end
  | ERelease pid n =>
      match find pid (procs s) with
      | Some p => if Z.of_nat n <=? my p
                  then let '(p', shared) := release_n n p in
                       Some {| T := T s + shared; C := C s; procs := upd pid p' (procs s); J := J s; L := L s |}
                  else None
      | None => None
      end
  | EAbandon pid n =>
      match find pid (procs s) with
      | Some p => if Z.of_nat n <=? J s
                  then Some {| T := T s; C := C s; procs := upd pid (Nat.iter n create1 p) (procs s);
                               J := J s - Z.of_nat n; L := L s |}
                  else None
      | None => None
      end
  | ESelfTest pid =>
      match find pid (procs s) with
      | Some p => if Z.eqb (C s) 0 then Some s else None
      | None => None
      end
  | EExit pid =>
      match find pid (procs s) with
      | Some p =>
          (* after release_except_mine: exactly one token, at most one cheat *)
          if Z.eqb (my p) 1 && (0 <=? ch p) && (ch p <=? 1) && (0 <? L s)
          then Some {| T := T s; C := C s + ch p; procs := del pid (procs s); J := J s; L := L s - 1 |}
          else None
      | None => None
      end
  end.

Fixpoint run (es : list ev) (s : gs) : option gs :=
  match es with
  | [] => Some s
  | e :: es' => match apply e s with Some s' => run es' s' | None => None end
  end.

(* a top-level redo that owns the jobserver with -j n, right after setup *)
Definition init (pid n : Z) : gs :=
  {| T := n - 1; C := 0; procs := [(pid, {| my := 1; ch := 0 |})]; J := 0; L := 0 |}.

(* all books and pipes hold non-negative amounts *)
Fixpoint procs_ok (l : list (Z * proc)) : Prop :=
  match l with [] => True | (_, p) :: l' => (0 <= ch p /\ 0 <= my p) /\ procs_ok l' end.
Definition ok (s : gs) : Prop := 0 <= T s /\ 0 <= C s /\ 0 <= J s /\ 0 <= L s /\ procs_ok (procs s).

Fixpoint cheats_out (l : list (Z * proc)) : Z :=
  match l with [] => 0 | (_, p) :: l' => ch p + cheats_out l' end.
