(* The -j bound in the presence of cheating (log capture).  Two results:
   - without any cheat event the number of scripts doing work never exceeds n;
   - with cheat events "n + 1" is FALSE of the model (and of the code, F50):
     a cheat byte parked in the cheat pipe keeps standing for a borrowed slot
     after the borrower has ended, and the next nested redo of the same script
     starts with a token of its own that it can release into the pipe. *)
From Coq Require Import ZArith List Bool Lia.
From Redo Require Import Tokens.Model Tokens.Proofs.
Import ListNotations.
Open Scope Z_scope.

Definition is_cheat (e : ev) : bool := match e with ECheat _ => true | _ => false end.
Definition cheat_free (es : list ev) : bool := forallb (fun e => negb (is_cheat e)) es.

Fixpoint ch0 (l : list (Z * proc)) : Prop :=
  match l with [] => True | (_, p) :: l' => ch p = 0 /\ ch0 l' end.
Definition NC (s : gs) : Prop := C s = 0 /\ ch0 (procs s).

Lemma ch0_find pid p l : ch0 l -> find pid l = Some p -> ch p = 0.
Proof.
  induction l as [|[k q] l IH]; cbn; [discriminate|]. intros [Hq Hl].
  destruct (Z.eqb k pid); [intro H; inversion H; subst; exact Hq|auto].
Qed.
Lemma ch0_upd pid p' l : ch0 l -> ch p' = 0 -> ch0 (upd pid p' l).
Proof.
  induction l as [|[k q] l IH]; cbn; [auto|]. intros [Hq Hl] Hp.
  destruct (Z.eqb k pid); cbn; auto.
Qed.
Lemma ch0_del pid l : ch0 l -> ch0 (del pid l).
Proof.
  induction l as [|[k q] l IH]; cbn; [auto|]. intros [Hq Hl].
  destruct (Z.eqb k pid); cbn; auto.
Qed.
Lemma ch0_cheats_out l : ch0 l -> cheats_out l = 0.
Proof. induction l as [|[k q] l IH]; cbn; [auto|]. intros [Hq Hl]. rewrite Hq, (IH Hl). reflexivity. Qed.

Lemma create1_ch0 p : ch p = 0 -> ch (create1 p) = 0.
Proof. intro H. unfold create1. rewrite H. reflexivity. Qed.
Lemma iter_create1_ch0 n p : ch p = 0 -> ch (Nat.iter n create1 p) = 0.
Proof. intro H. induction n as [|n IH]; cbn [Nat.iter]; [exact H|]. now apply create1_ch0. Qed.
Lemma release_n_ch0 n : forall p, ch p = 0 -> ch (fst (release_n n p)) = 0.
Proof.
  induction n as [|n IH]; intros p H; cbn [release_n fst]; [exact H|].
  unfold release1. rewrite H. change (0 <? 0) with false. cbv iota.
  specialize (IH {| my := my p - 1; ch := 0 |} eq_refl).
  destruct (release_n n {| my := my p - 1; ch := 0 |}) as [p2 b]. exact IH.
Qed.

Lemma apply_nc e s s' : NC s -> is_cheat e = false -> apply e s = Some s' -> NC s'.
Proof.
  unfold NC, apply. intros [HC HP] He.
  destruct e as [pid|pid|pid|pid|pid|pid|pid n|pid|pid n|pid]; try discriminate He;
    destruct (find pid (procs s)) as [p|] eqn:F; try discriminate;
    try pose proof (ch0_find _ _ _ HP F) as Hp.
  - intro H. inversion H; subst; cbn [C procs ch0 ch]. auto.
  - destruct (Z.eqb (my p) 1); [|discriminate]. intro H. inversion H; subst; cbn [C procs].
    split; [exact HC|]. apply ch0_upd; auto.
  - destruct (Z.eqb (my p) 0 && (0 <? T s)); [|discriminate]. intro H. inversion H; subst; cbn [C procs].
    split; [exact HC|]. apply ch0_upd; auto.
  - destruct ((0 <? C s) && (0 <? J s)) eqn:E; [|discriminate].
    apply andb_true_iff in E as [E1 _]. apply Z.ltb_lt in E1. lia.
  - destruct (0 <? J s); [|discriminate]. intro H. inversion H; subst; cbn [C procs].
    split; [exact HC|]. apply ch0_upd; [exact HP|]. now apply create1_ch0.
  - destruct (Z.of_nat n <=? my p); [|discriminate].
    pose proof (release_n_ch0 n p Hp) as R. destruct (release_n n p) as [p' shared]. cbn [fst] in R.
    intro H. inversion H; subst; cbn [C procs]. split; [exact HC|]. now apply ch0_upd.
  - destruct (Z.eqb (C s) 0); [|discriminate]. intro H. inversion H; subst. auto.
  - destruct (Z.of_nat n <=? J s); [|discriminate]. intro H. inversion H; subst; cbn [C procs].
    split; [exact HC|]. apply ch0_upd; [exact HP|]. now apply iter_create1_ch0.
  - destruct (Z.eqb (my p) 1 && (0 <=? ch p) && (ch p <=? 1) && (0 <? L s)); [|discriminate].
    intro H. inversion H; subst; cbn [C procs]. split; [lia|]. now apply ch0_del.
Qed.

Lemma run_nc es : forall s s', NC s -> cheat_free es = true -> run es s = Some s' -> NC s'.
Proof.
  induction es as [|e es IH]; intros s s' Hs Hf H; cbn in H; [inversion H; subst; exact Hs|].
  cbn in Hf. apply andb_true_iff in Hf as [He Hf]. apply negb_true_iff in He.
  destruct (apply e s) as [s1|] eqn:E; [|discriminate].
  eapply IH; [|exact Hf|exact H]. eapply apply_nc; eauto.
Qed.

(* without log capture (no cheat is ever granted) -j is respected exactly *)
Theorem bound_without_cheats es pid n s :
  1 <= n -> cheat_free es = true -> run es (init pid n) = Some s -> J s - L s <= n.
Proof.
  intros Hn Hf H. pose proof (bound es pid n s Hn H) as B.
  assert (N0 : NC (init pid n)) by (unfold NC, init; cbn; auto).
  destruct (run_nc _ _ _ N0 Hf H) as [HC HP]. rewrite HC, (ch0_cheats_out _ HP) in B. lia.
Qed.

(* F50.  "n plus at most one extra" is false of the model: -j2, four scripts at
   work.  1 = top level, job A runs script a; a's first redo-ifchange (2) gives
   its token away while it waits for a lock held by another invocation, cheats
   to go on, builds X (job D) and ends, parking a cheat byte; a's second
   redo-ifchange (3) starts with a token of its own, gives it away the same
   way -- the top level uses it for job E -- cheats and starts job F.  B, C, E
   and F run; A is blocked inside 3. *)
Definition laundering : list ev :=
  [ EStart 1; EBegin 2; ERelease 2 1;
    ERead 1; EStart 1; ERead 1; EStart 1;
    ECheat 2; EStart 2; EReapCreate 2; ERelease 2 0; ECheat 2; EExit 2;
    EBegin 3; ERelease 3 1; ERead 1; EStart 1; ECheat 3; EStart 3 ].

Theorem one_extra_refuted :
  exists es s, run es (init 1 2) = Some s /\ J s - L s = 2 + 2.
Proof. exists laundering. eexists. split; [vm_compute; reflexivity|reflexivity]. Qed.

(* the same trace in numbers: accepted, conserved, two borrowed slots *)
Example laundering_state :
  match run laundering (init 1 2) with
  | Some s => Q s = 2 /\ J s = 5 /\ L s = 1 /\ C s = 1 /\ cheats_out (procs s) = 1 /\ T s = 0
  | None => False
  end.
Proof. vm_compute. repeat split. Qed.
