(* Declarative order of .do candidates (the documented rule).  SPEC FILE. *)
From Redo Require Export Base.Bytes Paths.Norm DoFiles.Candidates.

(* all (prefix, suffix) splits of a name at a dot, suffix starting at the dot,
   longest suffix first *)
Fixpoint dot_splits (pre_rev rest : bytes) : list (bytes * bytes) :=
  match rest with
  | [] => []
  | c :: rest' =>
      (if N.eqb c dot then [(rev pre_rev, rest)] else []) ++ dot_splits (c :: pre_rev) rest'
  end.

Definition defaults_for (filename : bytes) : list (bytes * bytes * bytes) :=
  map (fun '(pre, suf) => (b_default ++ suf ++ b_do, pre, suf)) (dot_splits [] filename)
  ++ [(b_default ++ b_do, filename, [])].

(* ancestors of dir (given as names), nearest first, with the remainder *)
Definition ancestors (dirn : list comp) : list (bytes * bytes) :=
  map (fun k => (abs_of (firstn k dirn), rel_of (skipn k dirn))) (rev (seq 0 (S (length dirn)))).

Definition spec_candidates (names : list comp) : list dofile :=
  let filename := last_name names in
  let dirn := dir_names names in
  {| do_dir := abs_of dirn; do_file := filename ++ b_do; base_dir := [];
     base_name := filename; ext := [] |}
  :: flat_map (fun '(bd, sd) =>
        map (fun '(df, bn, e) =>
          {| do_dir := bd; do_file := df; base_dir := sd;
             base_name := rel_join sd bn; ext := e |}) (defaults_for filename))
     (ancestors dirn).
