From Redo Require Import Base.Bytes Base.BytesProofs Paths.Norm Paths.NormProofs
  DoFiles.Candidates DoFiles.CandidatesSpec.

Definition mk (b : bytes * bytes) (x : bytes * bytes * bytes) : dofile :=
  let '(bd, sd) := b in let '(df, bn, e) := x in
  {| do_dir := bd; do_file := df; base_dir := sd; base_name := rel_join sd bn; ext := e |}.

Definition expected (fn pre_rev rest : bytes) : list (bytes * bytes * bytes) :=
  map (fun '(pre, suf) => (b_default ++ suf ++ b_do, pre, suf)) (dot_splits pre_rev rest)
  ++ [(b_default ++ b_do, fn, [])].

Lemma pdf_collect_ext fuel s s' :
  pdf_next s = pdf_next s' -> pdf_collect fuel s = pdf_collect fuel s'.
Proof. destruct fuel; cbn; [reflexivity|]. now intros ->. Qed.

Lemma pdf_next_none fn b bits :
  pdf_next (Recursive fn (b :: bits) None) = pdf_next (Recursive fn bits (ddf_init fn)).
Proof. destruct b as [bd sd]. reflexivity. Qed.

Lemma pdf_collect_nil fuel fn ddf : pdf_collect fuel (Recursive fn [] ddf) = [].
Proof. destruct fuel; reflexivity. Qed.

Lemma count_dots_cons c rest :
  count_dots (c :: rest) = ((if N.eqb c dot then 1 else 0) + count_dots rest)%nat.
Proof.
  unfold count_dots. cbn [filter]. rewrite N.eqb_sym. destruct (N.eqb c dot); reflexivity.
Qed.

Lemma ddf_part fn b bits rest : forall pre_rev f,
  pdf_collect (count_dots rest + 1 + f) (Recursive fn (b :: bits) (Some (pre_rev, rest)))
  = map (mk b) (expected fn pre_rev rest) ++ pdf_collect f (Recursive fn (b :: bits) None).
Proof.
  destruct b as [bd sd].
  induction rest as [|c rest IH]; intros pre_rev f.
  - cbn [count_dots filter length Nat.add]. cbn [pdf_collect pdf_next rec_next length ddf_next ddf_scan].
    reflexivity.
  - rewrite count_dots_cons. destruct (N.eqb c dot) eqn:E.
    + change (1 + count_dots rest + 1 + f)%nat with (S (count_dots rest + 1 + f)).
      cbn [pdf_collect pdf_next rec_next length ddf_next ddf_scan]. rewrite E.
      rewrite IH. unfold expected. cbn [dot_splits]. rewrite E. cbn [app map]. reflexivity.
    + cbn [Nat.add].
      rewrite (pdf_collect_ext _ _ (Recursive fn ((bd, sd) :: bits) (Some (c :: pre_rev, rest)))).
      2:{ cbn [pdf_next rec_next length ddf_next ddf_scan]. now rewrite E. }
      rewrite IH. unfold expected. cbn [dot_splits]. rewrite E. reflexivity.
Qed.

Lemma outer fn bits : forall f,
  (length bits * (count_dots fn + 1) <= f)%nat ->
  pdf_collect f (Recursive fn bits (ddf_init fn))
  = flat_map (fun b => map (mk b) (expected fn [] fn)) bits.
Proof.
  induction bits as [|b bits IH]; intros f Hf.
  - apply pdf_collect_nil.
  - cbn [length] in Hf. cbn [flat_map].
    replace f with (count_dots fn + 1 + (f - (count_dots fn + 1)))%nat by lia.
    unfold ddf_init. rewrite ddf_part.
    rewrite (pdf_collect_ext _ _ _ (pdf_next_none fn b bits)).
    rewrite IH by lia. reflexivity.
Qed.

Lemma rev_seq_S n : rev (seq 0 (S n)) = n :: rev (seq 0 n).
Proof. rewrite seq_S, rev_app_distr. reflexivity. Qed.

Lemma path_splits_ancestors dirn : path_splits dirn = ancestors dirn.
Proof.
  unfold path_splits, ancestors.
  generalize (length dirn) as k. induction k as [|k IH].
  - reflexivity.
  - rewrite rev_seq_S. cbn [map path_splits_aux]. now rewrite IH.
Qed.

Lemma ancestors_length dirn : length (ancestors dirn) = S (length dirn).
Proof. unfold ancestors. now rewrite map_length, rev_length, seq_length. Qed.

Lemma removelast_length {A} (l : list A) : length (removelast l) = (length l - 1)%nat.
Proof.
  induction l as [|x l IH]; [reflexivity|].
  destruct l as [|y l']; [reflexivity|]. cbn [removelast length] in *. lia.
Qed.

Theorem candidates_eq_spec names :
  pdf_collect (pdf_fuel names) (First names) = spec_candidates names.
Proof.
  unfold pdf_fuel, spec_candidates.
  set (f := (1 + length names * (count_dots (last_name names) + 2))%nat).
  change (2 + _)%nat with (S f).
  change (pdf_collect (S f) (First names)) with
    ({| do_dir := abs_of (dir_names names); do_file := last_name names ++ b_do;
        base_dir := []; base_name := last_name names; ext := [] |}
     :: pdf_collect f (Recursive (last_name names) (path_splits (dir_names names))
                                 (ddf_init (last_name names)))).
  f_equal. subst f.
  rewrite path_splits_ancestors.
  rewrite outer.
  2:{ rewrite ancestors_length. unfold dir_names. rewrite removelast_length.
      destruct names as [|n names']; [cbn; lia|]. cbn [length].
      generalize (count_dots (last_name (n :: names'))) as d. generalize (length names') as l.
      intros l d. replace (S (S l - 1)) with (S l) by lia. nia. }
  apply flat_map_ext. intros [bd sd]. unfold expected, defaults_for.
  apply map_ext. intros [[df bn] e]. reflexivity.
Qed.

Corollary possible_do_files_spec p :
  possible_do_files p = spec_candidates (clean_comps true (split slash p)).
Proof. apply candidates_eq_spec. Qed.

(* ------------------------------------------------------------------ *)
(* script arguments *)

Lemma dot_splits_concat pre_rev rest pre suf :
  In (pre, suf) (dot_splits pre_rev rest) -> pre ++ suf = rev pre_rev ++ rest.
Proof.
  revert pre_rev; induction rest as [|c rest IH]; intros pre_rev H; cbn in H; [tauto|].
  apply in_app_or in H as [H|H].
  - destruct (N.eqb c dot); [|contradiction]. destruct H as [H|[]]. now inversion H.
  - apply IH in H. rewrite H. cbn. now rewrite <- app_assoc.
Qed.

(* every default candidate's (basename, ext) re-concatenates to the file name *)
Lemma defaults_for_concat fn df bn e :
  In (df, bn, e) (defaults_for fn) -> bn ++ e = fn /\ df = b_default ++ e ++ b_do.
Proof.
  unfold defaults_for. intro H. apply in_app_or in H as [H|[H|[]]].
  - apply in_map_iff in H as ([pre suf] & E & Hin). inversion E; subst.
    apply dot_splits_concat in Hin. cbn in Hin. auto.
  - inversion H; subst. now rewrite app_nil_r.
Qed.

(* $2 ++ ext = $1, $3 = $1 ++ ".redo.tmp" *)
Theorem args_shape d : arg2 d ++ ext d = arg1 d /\ arg3 d = arg1 d ++ b_tmp.
Proof. unfold arg1, arg2, arg3. split; [reflexivity | now rewrite app_assoc]. Qed.

Lemma firstn_skipn_names {A} k (l : list A) : firstn k l ++ skipn k l = l.
Proof. apply firstn_skipn. Qed.

(* for every candidate: do_dir's names ++ the names of $1 = the target's names *)
Definition names_abs (p : bytes) : list comp := clean_comps true (split slash p).

Lemma in_ancestors dirn bd sd :
  In (bd, sd) (ancestors dirn) ->
  exists k, bd = abs_of (firstn k dirn) /\ sd = rel_of (skipn k dirn).
Proof.
  unfold ancestors. intro H. apply in_map_iff in H as (k & E & _). inversion E. eauto.
Qed.

Theorem candidate_ext_is_suffix names d :
  In d (spec_candidates names) ->
  exists bn, base_name d = rel_join (base_dir d) bn /\ bn ++ ext d = last_name names.
Proof.
  unfold spec_candidates. intros [<-|H].
  - exists (last_name names). cbn. now rewrite app_nil_r.
  - apply in_flat_map in H as ([bd sd] & _ & H).
    apply in_map_iff in H as ([[df bn] e] & <- & H). cbn.
    apply defaults_for_concat in H as [H _]. eauto.
Qed.

Theorem candidate_dir_is_ancestor names d :
  In d (spec_candidates names) ->
  exists k, do_dir d = abs_of (firstn k (dir_names names))
            /\ base_dir d = rel_of (skipn k (dir_names names)).
Proof.
  unfold spec_candidates. intros [<-|H].
  - exists (length (dir_names names)). cbn. now rewrite firstn_all, skipn_all.
  - apply in_flat_map in H as ([bd sd] & Ha & H).
    apply in_map_iff in H as ([[df bn] e] & <- & _). cbn.
    now apply in_ancestors.
Qed.

(* order: within the listing, name.do first; nearer directories before farther
   ones; within a directory longer extensions before shorter, default.do last *)
Theorem spec_head names :
  exists tl, spec_candidates names =
    {| do_dir := abs_of (dir_names names); do_file := last_name names ++ b_do;
       base_dir := []; base_name := last_name names; ext := [] |} :: tl.
Proof. eexists. reflexivity. Qed.

Lemma dot_splits_len pre_rev rest p s :
  In (p, s) (dot_splits pre_rev rest) -> (length s <= length rest)%nat.
Proof.
  revert pre_rev; induction rest as [|c rest IH]; intros pre_rev H; cbn in H; [tauto|].
  apply in_app_or in H as [H|H].
  - destruct (N.eqb c dot); [|contradiction]. destruct H as [H|[]]. inversion H; subst. lia.
  - apply IH in H. cbn. lia.
Qed.

(* longer extensions come first *)
Lemma dot_splits_sorted pre_rev rest :
  forall i j p1 s1 p2 s2, (i < j)%nat ->
    nth_error (dot_splits pre_rev rest) i = Some (p1, s1) ->
    nth_error (dot_splits pre_rev rest) j = Some (p2, s2) ->
    (length s2 < length s1)%nat.
Proof.
  revert pre_rev. induction rest as [|c rest IH]; intros pre_rev i j p1 s1 p2 s2 Hij H1 H2.
  - destruct i; discriminate.
  - cbn [dot_splits] in *. destruct (N.eqb c dot).
    + cbn [app] in *. destruct i as [|i].
      * inversion H1; subst. destruct j as [|j]; [lia|]. cbn in H2.
        apply nth_error_In in H2. apply dot_splits_len in H2. cbn. lia.
      * destruct j as [|j]; [lia|]. cbn in H1, H2. eapply IH; [|eassumption|eassumption]. lia.
    + cbn [app] in *. eapply IH; eassumption.
Qed.
