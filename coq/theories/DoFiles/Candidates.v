(* Model of redo::paths::possible_do_files (src/paths.rs) as the iterator
   state machine the code implements, plus the script arguments computed in
   builder::start_self.  MODEL FILE: definitions only. *)
From Redo Require Export Base.Bytes Paths.Norm.

Definition b_default : bytes := [100;101;102;97;117;108;116].        (* "default" *)
Definition b_do      : bytes := [46;100;111].                          (* ".do" *)
Definition b_tmp     : bytes := [46;114;101;100;111;46;116;109;112].   (* ".redo.tmp" *)

Record dofile := {
  do_dir : bytes;      (* absolute directory of the .do file *)
  do_file : bytes;     (* its name *)
  base_dir : bytes;    (* target directory relative to do_dir *)
  base_name : bytes;   (* target relative to do_dir, ext stripped *)
  ext : bytes
}.

(* ---- DefaultDoFiles: one item per '.' in the name, then default.do ---- *)
(* state: Some (prefix_rev, rest) = still scanning; None = fused *)
Definition ddf_state := option (bytes * bytes).

Definition ddf_init (filename : bytes) : ddf_state := Some ([], filename).

(* find the next dot in rest; pre_rev accumulates what is before it *)
Fixpoint ddf_scan (pre_rev rest : bytes) : option (bytes * bytes) :=
  match rest with
  | [] => None
  | c :: rest' => if N.eqb c dot then Some (pre_rev, rest)
                  else ddf_scan (c :: pre_rev) rest'
  end.

Definition ddf_next (filename : bytes) (s : ddf_state)
  : option ((bytes * bytes * bytes) * ddf_state) :=
  match s with
  | None => None
  | Some (pre_rev, rest) =>
      match ddf_scan pre_rev rest with
      | Some (pre_rev', rest') =>
          (* rest' starts with the dot *)
          Some ((b_default ++ rest' ++ b_do, rev pre_rev', rest'),
                match rest' with
                | d :: tl => Some (d :: pre_rev', tl)
                | [] => None
                end)
      | None => Some ((b_default ++ b_do, filename, []), None)
      end
  end.

(* ---- path_splits on a cleaned absolute directory given as names ---- *)
(* ancestors from the directory itself up to the root, each paired with the
   remainder below it *)
Definition abs_of (names : list comp) : bytes := slash :: join slash names.
Definition rel_of (names : list comp) : bytes := join slash names.

Fixpoint path_splits_aux (k : nat) (names : list comp) : list (bytes * bytes) :=
  (abs_of (firstn k names), rel_of (skipn k names)) ::
  match k with
  | O => []
  | S k' => path_splits_aux k' names
  end.
Definition path_splits (names : list comp) : list (bytes * bytes) :=
  path_splits_aux (length names) names.

(* ---- the iterator ---- *)
Inductive pdf_state :=
| First (names : list comp)
| Recursive (filename : bytes) (dir_bits : list (bytes * bytes)) (ddf : ddf_state)
| Stopped.

Definition last_name (names : list comp) : bytes := last names [].
Definition dir_names (names : list comp) : list comp := removelast names.

(* Path::join of a relative dir and a name *)
Definition rel_join (d n : bytes) : bytes :=
  match d with [] => n | _ => d ++ slash :: n end.

(* one attempt of RecursiveDoFilesState::next's loop body; fuel bounds the loop *)
Fixpoint rec_next (fuel : nat) (filename : bytes) (bits : list (bytes * bytes)) (ddf : ddf_state)
  : option (dofile * pdf_state) :=
  match fuel with
  | O => None
  | S fuel' =>
      match bits with
      | [] => None
      | (bd, sd) :: bits' =>
          match ddf_next filename ddf with
          | Some ((df, bn, e), ddf') =>
              Some ({| do_dir := bd; do_file := df; base_dir := sd;
                       base_name := rel_join sd bn; ext := e |},
                    Recursive filename bits ddf')
          | None => rec_next fuel' filename bits' (ddf_init filename)
          end
      end
  end.

Definition pdf_next (s : pdf_state) : option (dofile * pdf_state) :=
  match s with
  | First names =>
      let filename := last_name names in
      Some ({| do_dir := abs_of (dir_names names); do_file := filename ++ b_do;
               base_dir := []; base_name := filename; ext := [] |},
            Recursive filename (path_splits (dir_names names)) (ddf_init filename))
  | Recursive filename bits ddf => rec_next (S (length bits)) filename bits ddf
  | Stopped => None
  end.

Fixpoint pdf_collect (fuel : nat) (s : pdf_state) : list dofile :=
  match fuel with
  | O => []
  | S fuel' => match pdf_next s with
               | Some (d, s') => d :: pdf_collect fuel' s'
               | None => []
               end
  end.

(* number of items is bounded by 1 + (#ancestors) * (#dots + 1) *)
Definition count_dots (n : bytes) : nat := length (filter (N.eqb dot) n).
Definition pdf_fuel (names : list comp) : nat :=
  2 + length names * (count_dots (last_name names) + 2).

(* possible_do_files p for an absolute p that is not the root *)
Definition possible_do_files (p : bytes) : list dofile :=
  let names := clean_comps true (split slash p) in
  pdf_collect (pdf_fuel names) (First names).

(* ---- script arguments (builder::start_self) ---- *)
Definition arg1 (d : dofile) : bytes := base_name d ++ ext d.
Definition arg2 (d : dofile) : bytes := base_name d.
(* $3 = relpath(do_dir/(base_name+ext+".redo.tmp"), do_dir): lexically that is *)
Definition arg3 (d : dofile) : bytes := base_name d ++ ext d ++ b_tmp.
