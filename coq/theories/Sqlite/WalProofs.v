From Coq Require Import List Bool Arith Lia.
From Redo Require Import Sqlite.Wal.
Import ListNotations.

(* per-connection safety: the state it is in is compatible with what is left *)
Definition csafe (p : prog) (c : conn) : Prop :=
  if finished c then True else
  if negb (begun c) then rest c = pops p /\ prog_ok p = true else
  match st c with
  | Reading _ => no_write (rest c) = true
  | Def0 => war_free (rest c) = true
  | Writing _ => True
  | Idle => False
  end.

Definition dsafe (ps : list prog) (d : db) : Prop :=
  forall i c p, nth_error (conns d) i = Some c -> nth_error ps i = Some p -> csafe p c.

Lemma nth_set_nth_same {A} (l : list A) i x y : nth_error l i = Some y -> nth_error (set_nth l i x) i = Some x.
Proof. revert i; induction l as [|z l IH]; intros [|i] H; cbn in *; try discriminate; auto. Qed.
Lemma nth_set_nth_other {A} (l : list A) i j x : i <> j -> nth_error (set_nth l i x) j = nth_error l j.
Proof.
  revert i j; induction l as [|z l IH]; intros [|i] [|j] H; cbn; try reflexivity; try lia.
  apply IH. lia.
Qed.

Lemma dsafe_upd ps d i c c' p v w :
  dsafe ps d -> nth_error (conns d) i = Some c -> nth_error ps i = Some p -> csafe p c' ->
  dsafe ps (upd d i c' v w).
Proof.
  intros Hd Hc Hp Hc' j cj pj Hj Hpj. unfold upd in Hj. cbn [conns] in Hj.
  destruct (Nat.eq_dec i j) as [->|Hne].
  - rewrite (nth_set_nth_same _ _ _ _ Hc) in Hj. inversion Hj; subst. congruence.
  - rewrite nth_set_nth_other in Hj by assumption. eauto.
Qed.

(* a safe system never sees SQLITE_BUSY, and stays safe *)
Theorem step_no_busy ps i d :
  dsafe ps d -> step ps i d <> Busy /\ (forall d', step ps i d = Ok d' \/ step ps i d = Blocked d' -> dsafe ps d').
Proof.
  intro Hd. unfold step.
  destruct (nth_error (conns d) i) as [c|] eqn:Ec; [|split; [discriminate|intros d' [H|H]; inversion H; subst; exact Hd]].
  destruct (nth_error ps i) as [p|] eqn:Ep; [|split; [discriminate|intros d' [H|H]; inversion H; subst; exact Hd]].
  pose proof (Hd i c p Ec Ep) as Hs. unfold csafe in Hs.
  assert (FIN : forall o, o <> Busy ->
            (forall d', o = Ok d' \/ o = Blocked d' -> dsafe ps d') ->
            o <> Busy /\ (forall d', o = Ok d' \/ o = Blocked d' -> dsafe ps d')) by auto.
  assert (UPD : forall c' v w, csafe p c' -> dsafe ps (upd d i c' v w)) by (intros; eapply dsafe_upd; eauto).
  destruct (finished c) eqn:Ef; [split; [discriminate|intros d' [H|H]; inversion H; subst; exact Hd]|].
  destruct (begun c) eqn:Eb; cbn [negb] in *.
  - destruct (rest c) as [|[|] r] eqn:Er.
    + destruct (st c); (split; [discriminate|intros d' [H|H]; inversion H; subst; apply UPD; unfold csafe; cbn; exact I]).
    + destruct (st c) eqn:Es; try contradiction;
        (split; [discriminate|intros d' [H|H]; inversion H; subst; apply UPD; unfold csafe; cbn [finished begun negb st rest]; cbn in Hs; auto]).
    + destruct (st c) eqn:Es; try contradiction.
      * destruct (writer d); (split; [discriminate|intros d' [H|H]; inversion H; subst; try exact Hd; apply UPD; unfold csafe; cbn; exact I]).
      * cbn in Hs. discriminate.
      * split; [discriminate|intros d' [H|H]; inversion H; subst; apply UPD; unfold csafe; cbn; exact I].
  - destruct Hs as [Hr Hok]. unfold prog_ok in Hok.
    destruct (pmode p) eqn:Em.
    + split; [discriminate|intros d' [H|H]; inversion H; subst; apply UPD; unfold csafe; cbn [finished begun negb st rest]; now rewrite Hr].
    + destruct (writer d); (split; [discriminate|intros d' [H|H]; inversion H; subst; try exact Hd; apply UPD; unfold csafe; cbn; exact I]).
Qed.

Lemma dsafe_init ps : forallb prog_ok ps = true -> dsafe ps (init ps).
Proof.
  intros H i c p Hc Hp. unfold init in Hc. cbn [conns] in Hc.
  rewrite nth_error_map in Hc. rewrite Hp in Hc. cbn in Hc. inversion Hc; subst.
  unfold csafe, start_conn. cbn. split; [reflexivity|].
  rewrite forallb_forall in H. apply H. eapply nth_error_In; eauto.
Qed.

Theorem no_busy ps sched :
  forallb prog_ok ps = true -> run ps sched (init ps) <> None.
Proof.
  intro H. pose proof (dsafe_init ps H) as Hd. revert Hd. generalize (init ps) as d.
  induction sched as [|i s IH]; intros d Hd; cbn [run]; [discriminate|].
  destruct (step_no_busy ps i d Hd) as [Hnb Hnext].
  destruct (step ps i d) as [d'|d'|] eqn:E; [apply IH; apply Hnext; auto|apply IH; apply Hnext; auto|congruence].
Qed.

(* and the converse direction of the design rule: a deferred transaction that
   writes after reading CAN fail -- two connections suffice (finding F10a/F16) *)
Example deferred_read_then_write_busy :
  let bad := {| pmode := Deferred; pops := [ORead; OWrite] |} in
  let wr := {| pmode := Immediate; pops := [OWrite] |} in
  run [bad; wr] [0; 0; 1; 1; 1; 0] (init [bad; wr]) = None.
Proof. vm_compute. reflexivity. Qed.
