(* The transaction sites of the CURRENT source (Anchors.v is regenerated from
   /repo on every run) satisfy the rule under which no SQLITE_BUSY can occur. *)
From Coq Require Import List Bool String.
From Redo Require Import Sqlite.Wal Sqlite.WalProofs Anchors.
Import ListNotations.

Lemma sites_ok : forallb (fun s => prog_ok (snd s)) sites = true.
Proof. vm_compute. reflexivity. Qed.

(* any number of commands, each running any of the code's transactions, in any
   interleaving: no transaction fails with SQLITE_BUSY *)
Theorem code_sites_no_busy (choice : list nat) (sched : list nat) :
  let ps := map (fun k => snd (nth k sites (EmptyString, {| pmode := Immediate; pops := [] |}))) choice in
  run ps sched (init ps) <> None.
Proof.
  cbn zeta. apply no_busy. rewrite forallb_forall. intros p Hin.
  apply in_map_iff in Hin as (k & <- & _).
  pose proof sites_ok as H. rewrite forallb_forall in H.
  destruct (nth_in_or_default k sites (EmptyString, {| pmode := Immediate; pops := [] |})) as [Hn|Hn].
  - exact (H _ Hn).
  - rewrite Hn. reflexivity.
Qed.

(* outside transactions: the change of journal mode at connect time needs the
   exclusive lock and is refused at once while any other connection holds a
   lock (the busy timeout is not consulted): the code must go round again.
   (Finding F58: it did not; of several first commands in a fresh project all
   but one failed with "database is locked".) *)
Lemma busy_immediate_retried : forallb snd busy_immediate = true.
Proof. vm_compute. reflexivity. Qed.
